/-!
# C10 — MTBDD arithmetic: executable model

Mirrors (as of the current `/repo` tree)

* `crates/oxidd-rules-mtbdd/src/terminal/i64.rs` — `I64` with `Add/Sub/Mul/Div` and `PartialOrd`,
* `crates/oxidd-core/src/function.rs` — `NumberBase` (`is_zero/is_one/is_nan` are `== zero()` …),
* `crates/oxidd-rules-mtbdd/src/lib.rs` — `MTBDDRules::reduce`, `terminal_bin`,
* `crates/oxidd-rules-mtbdd/src/apply_rec.rs` — `apply_bin`, `apply_ite`, `restrict` (with its
  tail-recursive `inner`), `constant_edge`, `var_edge`, `eval_edge`.

The model is at the *tree level*: a diagram is the unfolding of the DAG, hash consing, the apply
cache and reference counts are not modelled here (they are the subject of C05/C06).  Levels are
identified with variable numbers (a fresh manager has the identity order; C10 never reorders).
`i64` is modelled by `Int` together with the explicit range check that `checked_add/sub/mul`
perform, so the arithmetic is exactly the machine arithmetic without bit vectors.
-/
namespace OxiddModel.Mtbdd

/-! ## `I64` terminals (`terminal/i64.rs`) -/

/-- `i64::MIN` -/
def I64_MIN : Int := -9223372036854775808
/-- `i64::MAX` -/
def I64_MAX : Int := 9223372036854775807

/-- representable as `i64` -/
def inRange (x : Int) : Prop := I64_MIN ≤ x ∧ x ≤ I64_MAX

instance (x : Int) : Decidable (inRange x) := by unfold inRange; exact inferInstance

/-- `enum I64 { NaN, MinusInf, Num(i64), PlusInf }` (same constructor order) -/
inductive I64 where
  | nan
  | ninf
  | num (n : Int)
  | pinf
  deriving DecidableEq, Repr, Inhabited

namespace I64

/-- a value that can exist at run time: the payload of `Num` is an `i64` -/
def Valid : I64 → Prop
  | num n => inRange n
  | _ => True

/-- `i64::checked_add`: the exact sum if it is representable -/
def checkedAdd (a b : Int) : Option Int := if inRange (a + b) then some (a + b) else none
/-- `i64::checked_sub` -/
def checkedSub (a b : Int) : Option Int := if inRange (a - b) then some (a - b) else none
/-- `i64::checked_mul` -/
def checkedMul (a b : Int) : Option Int := if inRange (a * b) then some (a * b) else none

/-- `I64::signum` (`None` for NaN); `i64::signum` is `Int.sign` -/
def signum : I64 → Option Int
  | nan => none
  | ninf => some (-1)
  | num n => some n.sign
  | pinf => some 1

/-- `impl Add for I64` -/
def add (self rhs : I64) : I64 :=
  match self, rhs with
  | num lhs, num rhs =>
    match checkedAdd lhs rhs with
    | some n => num n
    | none => if lhs > 0 then pinf else ninf
  | nan, _ | _, nan | ninf, pinf | pinf, ninf => nan
  | ninf, _ | _, ninf => ninf
  | pinf, _ | _, pinf => pinf

/-- `impl Sub for I64` -/
def sub (self rhs : I64) : I64 :=
  match self, rhs with
  | num lhs, num rhs =>
    match checkedSub lhs rhs with
    | some n => num n
    | none => if rhs < 0 then pinf else ninf
  | nan, _ | _, nan | ninf, ninf | pinf, pinf => nan
  | ninf, _ | _, pinf => ninf
  | pinf, _ | _, ninf => pinf

/-- `impl Mul for I64` -/
def mul (self rhs : I64) : I64 :=
  match self, rhs with
  | num lhs, num rhs =>
    match checkedMul lhs rhs with
    | some n => num n
    | none => if lhs > 0 ∧ rhs > 0 ∨ lhs < 0 ∧ rhs < 0 then pinf else ninf
  | nan, _ | _, nan => nan
  | _, _ =>
    -- `self.signum().unwrap() * rhs.signum().unwrap()`; neither is NaN here
    match self.signum, rhs.signum with
    | some a, some b =>
      if a * b = 1 then pinf else if a * b = -1 then ninf else nan
    | _, _ => nan

/-- `impl Div for I64`; `lhs / rhs` on `i64` truncates toward zero (`Int.tdiv`) -/
def div (self rhs : I64) : I64 :=
  match self, rhs with
  | num lhs, num rhs =>
    if rhs = 0 then
      (match compare lhs 0 with
       | .lt => ninf
       | .eq => nan
       | .gt => pinf)
    else if lhs = I64_MIN ∧ rhs = -1 then pinf
    else num (Int.tdiv lhs rhs)
  | num _, ninf | num _, pinf => num 0
  | pinf, num n => if n < 0 then ninf else pinf
  | ninf, num n => if n < 0 then pinf else ninf
  | _, _ => nan

/-- `impl PartialOrd for I64` -/
def partialCmp (self other : I64) : Option Ordering :=
  match self, other with
  | num lhs, num rhs => some (compare lhs rhs)
  | nan, nan | ninf, ninf | pinf, pinf => some .eq
  | nan, _ | _, nan => none
  | ninf, _ | _, pinf => some .lt
  | _, ninf | pinf, _ => some .gt

end I64

/-! ## The terminal interface (`NumberBase + PartialOrd`) -/

/-- the operations of `NumberBase` (plus `partial_cmp`) as a record -/
structure TermOps (T : Type) where
  zero : T
  one : T
  nan : T
  add : T → T → T
  sub : T → T → T
  mul : T → T → T
  div : T → T → T
  pcmp : T → T → Option Ordering

/-- the instance for `I64` -/
def i64Ops : TermOps I64 where
  zero := .num 0
  one := .num 1
  nan := .nan
  add := I64.add
  sub := I64.sub
  mul := I64.mul
  div := I64.div
  pcmp := I64.partialCmp

/-- the six binary operators of `MTBDDOp` that go through `apply_bin` -/
inductive Op where
  | add | sub | mul | div | min | max
  deriving DecidableEq, Repr

namespace TermOps
variable {T : Type} (L : TermOps T)

/-- The value `terminal_bin` computes for `Min` on two terminals: the left operand if
`partial_cmp` says `Less | Equal`, the right one for `Greater`, NaN if incomparable. -/
def min (a b : T) : T :=
  match L.pcmp a b with
  | some .lt | some .eq => a
  | some .gt => b
  | none => L.nan

/-- dito for `Max` (`Greater | Equal` keeps the left operand) -/
def max (a b : T) : T :=
  match L.pcmp a b with
  | some .gt | some .eq => a
  | some .lt => b
  | none => L.nan

/-- scalar meaning of an operator -/
def sem : Op → T → T → T
  | .add => L.add
  | .sub => L.sub
  | .mul => L.mul
  | .div => L.div
  | .min => L.min
  | .max => L.max

end TermOps

/-! ## Trees -/

/-- unfolded MTBDD: child 0 is the `then` child (variable true), child 1 the `else` child -/
inductive MT (T : Type) where
  | leaf (t : T)
  | node (level : Nat) (t e : MT T)
  deriving DecidableEq, Repr, Inhabited

variable {T : Type}

namespace MT

def size : MT T → Nat
  | leaf _ => 1
  | node _ t e => size t + size e + 1

theorem size_pos (f : MT T) : 0 < size f := by cases f <;> simp [size]

/-- `eval_edge`: at a node of level `l` take child 0 iff the variable is true -/
def eval (σ : Nat → Bool) : MT T → T
  | leaf t => t
  | node l t e => if σ l then eval σ t else eval σ e

/-- `matches!(get_node(f), Terminal(t) if p(t))` -/
def termIs (p : T → Bool) : MT T → Bool
  | leaf t => p t
  | node _ _ _ => false

end MT

open MT

/-- `MTBDDRules::reduce`: equal children collapse, otherwise a (hash-consed) node -/
def mk [DecidableEq T] (level : Nat) (t e : MT T) : MT T :=
  if t = e then t else .node level t e

/-- `enum Operation { Binary(op, f, g), Done(edge) }`.  The operands carried by `Binary` only
serve as apply-cache key (for the commutative operators `Add/Mul/Min/Max` they are swapped when
`f > g` in the *edge order*, i.e. by node index); `apply_bin` recurses on the cofactors of the
original `f` and `g`, so the swap is irrelevant for the tree that is returned and is not
represented here. -/
inductive Operation (T : Type) where
  | binary
  | done (h : MT T)
  deriving Repr

/-- `terminal_bin::<OP>` — same arms in the same order.  A guard arm
`(Terminal(t), _) if p(t)` becomes `termIs p f`; after the first arm
`(Terminal, Terminal)` at most one operand is a terminal. -/
def terminalBin [DecidableEq T] (L : TermOps T) (op : Op) (f g : MT T) : Operation T :=
  match op with
  | .add =>
    match f, g with
    | .leaf tf, .leaf tg => .done (.leaf (L.add tf tg))
    | _, _ =>
      if f.termIs (· = L.zero) then .done g
      else if g.termIs (· = L.zero) then .done f
      else if f.termIs (· = L.nan) || g.termIs (· = L.nan) then .done (.leaf L.nan)
      else .binary
  | .sub =>
    match f, g with
    | .leaf tf, .leaf tg => .done (.leaf (L.sub tf tg))
    | _, _ =>
      if g.termIs (· = L.zero) then .done f
      else if f.termIs (· = L.nan) || g.termIs (· = L.nan) then .done (.leaf L.nan)
      else .binary
  | .mul =>
    match f, g with
    | .leaf tf, .leaf tg => .done (.leaf (L.mul tf tg))
    | _, _ =>
      if f.termIs (· = L.one) then .done g
      else if g.termIs (· = L.one) then .done f
      else if f.termIs (· = L.nan) || g.termIs (· = L.nan) then .done (.leaf L.nan)
      else .binary
  | .div =>
    match f, g with
    | .leaf tf, .leaf tg => .done (.leaf (L.div tf tg))
    | _, _ =>
      if g.termIs (· = L.one) then .done f
      else if f.termIs (· = L.nan) || g.termIs (· = L.nan) then .done (.leaf L.nan)
      else .binary
  | .min =>
    if f = g then .done f
    else
      match f, g with
      | .leaf tf, .leaf tg =>
        .done (match L.pcmp tf tg with
               | some .lt | some .eq => f
               | some .gt => g
               | none => .leaf L.nan)
      | _, _ =>
        if f.termIs (· = L.nan) || g.termIs (· = L.nan) then .done (.leaf L.nan)
        else .binary
  | .max =>
    if f = g then .done f
    else
      match f, g with
      | .leaf tf, .leaf tg =>
        .done (match L.pcmp tf tg with
               | some .gt | some .eq => f
               | some .lt => g
               | none => .leaf L.nan)
      | _, _ =>
        if f.termIs (· = L.nan) || g.termIs (· = L.nan) then .done (.leaf L.nan)
        else .binary

/-- `apply_bin::<OP>` without the cache: terminal case, then Shannon expansion at
`level = min(flevel, glevel)` (a terminal has level `LevelNo::MAX`), taking the children of the
operands that sit at `level` and the operand itself otherwise.  The three-way comparison below
enumerates the combinations of `flevel == level` and `glevel == level`. -/
def applyBin [DecidableEq T] (L : TermOps T) (op : Op) : MT T → MT T → MT T
  | f, g =>
    match terminalBin L op f g with
    | .done h => h
    | .binary =>
      match f, g with
      | .leaf _, .leaf _ => f -- unreachable: `terminal_bin` is `Done` on two terminals
      | .node lf ft fe, .leaf tg =>
        mk lf (applyBin L op ft (.leaf tg)) (applyBin L op fe (.leaf tg))
      | .leaf tf, .node lg gt ge =>
        mk lg (applyBin L op (.leaf tf) gt) (applyBin L op (.leaf tf) ge)
      | .node lf ft fe, .node lg gt ge =>
        if lf < lg then
          mk lf (applyBin L op ft (.node lg gt ge)) (applyBin L op fe (.node lg gt ge))
        else if lg < lf then
          mk lg (applyBin L op (.node lf ft fe) gt) (applyBin L op (.node lf ft fe) ge)
        else
          mk lf (applyBin L op ft gt) (applyBin L op fe ge)
termination_by f g => f.size + g.size
decreasing_by all_goals simp [MT.size] <;> omega

/-! ### if-then-else -/

/-- `min(level, node.level())` where a terminal has level `LevelNo::MAX` -/
def minLevel (l : Nat) : MT T → Nat
  | .leaf _ => l
  | .node l' _ _ => Nat.min l l'

/-- `if xlevel == level { collect_children(x) } else { (x, x) }` -/
def cof (level : Nat) : MT T → MT T × MT T
  | .leaf a => (.leaf a, .leaf a)
  | .node l t e => if l = level then (t, e) else (.node l t e, .node l t e)

theorem size_cof_fst_le (lv : Nat) (x : MT T) : (cof lv x).1.size ≤ x.size := by
  cases x with
  | leaf a => simp [cof]
  | node l t e => simp only [cof]; split <;> simp [MT.size]; omega

theorem size_cof_snd_le (lv : Nat) (x : MT T) : (cof lv x).2.size ≤ x.size := by
  cases x with
  | leaf a => simp [cof]
  | node l t e => simp only [cof]; split <;> simp [MT.size]; omega

theorem ite_decr (lf : Nat) (ft fe g h : MT T) :
    let lv := minLevel (minLevel lf g) h
    (cof lv (.node lf ft fe)).1.size + (cof lv g).1.size + (cof lv h).1.size
        < (MT.node lf ft fe).size + g.size + h.size ∧
    (cof lv (.node lf ft fe)).2.size + (cof lv g).2.size + (cof lv h).2.size
        < (MT.node lf ft fe).size + g.size + h.size := by
  cases g <;> cases h <;> simp only [minLevel, cof, Nat.min_def] <;>
    (repeat' split) <;> simp only [MT.size] <;> first | omega | simp_all

/-- `apply_ite` without the cache (`if f { g } else { h }`, `f` 0-1-valued).  A terminal
condition other than 0 is treated as true (in debug builds the code asserts it is 1). -/
def applyIte [DecidableEq T] (L : TermOps T) : MT T → MT T → MT T → MT T
  | f, g, h =>
    if g = h then g
    else
      match f with
      | .leaf t => if t = L.zero then h else g
      | .node lf ft fe =>
        let level := minLevel (minLevel lf g) h
        mk level
          (applyIte L (cof level (.node lf ft fe)).1 (cof level g).1 (cof level h).1)
          (applyIte L (cof level (.node lf ft fe)).2 (cof level g).2 (cof level h).2)
termination_by f g h => f.size + g.size + h.size
decreasing_by
  · exact (ite_decr lf ft fe g h).1
  · exact (ite_decr lf ft fe g h).2

/-! ### restrict -/

/-- `enum InnerResult { Done(edge), Rec { vars, f, fnode } }` -/
inductive InnerResult (T : Type) where
  | done (r : MT T)
  | recur (vars f : MT T)

/-- The tail-recursive `inner` of `restrict`.  Precondition in the code: both `f` and `vars` are
inner nodes (the wildcard arm is not reachable from `restrict`). -/
def restrictInner [DecidableEq T] (L : TermOps T) : MT T → MT T → InnerResult T
  | .node fl ft fe, .node vl vt ve =>
    if vl > fl then
      -- f above vars
      .recur (.node vl vt ve) (.node fl ft fe)
    else if vl < fl then
      -- vars above f
      match vt with
      | .node l a b => restrictInner L (.node fl ft fe) (.node l a b)
      | .leaf t =>
        if t = L.one then .done (.node fl ft fe)
        else
          match ve with
          | .node l a b => restrictInner L (.node fl ft fe) (.node l a b)
          | .leaf _ => .done (.node fl ft fe)
    else
      -- top var at the level of f ⇒ select accordingly
      match vt with
      | .node l a b =>
        -- positive literal ⇒ then branch
        (match ft with
         | .node l' a' b' => restrictInner L (.node l' a' b') (.node l a b)
         | .leaf x => .done (.leaf x))
      | .leaf t =>
        if t = L.one then .done ft
        else
          -- negative literal ⇒ else branch
          match ve with
          | .node l a b =>
            (match fe with
             | .node l' a' b' => restrictInner L (.node l' a' b') (.node l a b)
             | .leaf x => .done (.leaf x))
          | .leaf _ => .done fe
  | f, _ => .done f
termination_by f vars => f.size + vars.size
decreasing_by all_goals simp [MT.size] <;> omega

theorem restrictInner_size [DecidableEq T] (L : TermOps T) (f vars v' f' : MT T) :
    restrictInner L f vars = .recur v' f' → f'.size ≤ f.size := by
  fun_induction restrictInner L f vars <;> intro h <;> (try cases h) <;>
    simp_all [MT.size] <;> omega

set_option linter.unusedVariables false in
/-- `restrict` without the cache -/
def restrict [DecidableEq T] (L : TermOps T) : MT T → MT T → MT T
  | .node fl ft fe, .node vl vt ve =>
    match h : restrictInner L (.node fl ft fe) (.node vl vt ve) with
    | .done res => res
    | .recur vars f =>
      -- f above top-most restrict variable
      match f, h with
      | .node l t e, h => mk l (restrict L t vars) (restrict L e vars)
      | .leaf x, _h => .leaf x -- unreachable: `Rec` always carries an inner node
  | f, _ => f
termination_by f _ => f.size
decreasing_by
  all_goals
    have := restrictInner_size L _ _ _ _ h
    simp [MT.size] at this ⊢
    omega

/-- `constant_edge` -/
def constant (v : T) : MT T := .leaf v

/-- `var_edge`: the node `(level, [1, 0])` -/
def var (L : TermOps T) (v : Nat) : MT T := .node v (.leaf L.one) (.leaf L.zero)

/-! ### normal form -/

/-- every node at the root has level ≥ `k` (a terminal is below everything) -/
def lbound (k : Nat) : MT T → Prop
  | .leaf _ => True
  | .node l _ _ => k ≤ l

/-- levels strictly increase from the root to the terminals -/
def Ordered : MT T → Prop
  | .leaf _ => True
  | .node l t e => lbound (l + 1) t ∧ lbound (l + 1) e ∧ Ordered t ∧ Ordered e

/-- no node with two equal children -/
def Reduced : MT T → Prop
  | .leaf _ => True
  | .node _ t e => t ≠ e ∧ Reduced t ∧ Reduced e

/-- normal form of an MTBDD (what the manager's unique table plus `reduce` maintain) -/
def NF (f : MT T) : Prop := Ordered f ∧ Reduced f

/-- all terminals are 0 or 1 (precondition on the condition of `ite`) -/
def ZeroOne (L : TermOps T) : MT T → Prop
  | .leaf t => t = L.zero ∨ t = L.one
  | .node _ t e => ZeroOne L t ∧ ZeroOne L e

/-- executable version of `ZeroOne` for the driver -/
def zeroOneB [DecidableEq T] (L : TermOps T) : MT T → Bool
  | .leaf t => t = L.zero || t = L.one
  | .node _ t e => zeroOneB L t && zeroOneB L e

/-- `vars` is a conjunction of literals with literal list `ls`: a positive literal on level `l`
is `(l, rest, 0)`, a negative one `(l, 0, rest)`, the empty conjunction is the terminal 1 -/
inductive IsCube (L : TermOps T) : MT T → List (Nat × Bool) → Prop where
  | one : IsCube L (.leaf L.one) []
  | pos {l c ls} : IsCube L c ls → IsCube L (.node l c (.leaf L.zero)) ((l, true) :: ls)
  | neg {l c ls} : IsCube L c ls → IsCube L (.node l (.leaf L.zero) c) ((l, false) :: ls)

/-- executable cube recogniser for the driver: the literal list if `vars` is a cube -/
def cubeLits [DecidableEq T] (L : TermOps T) : MT T → Option (List (Nat × Bool))
  | .leaf t => if t = L.one then some [] else none
  | .node l t e =>
    if e = .leaf L.zero then (cubeLits L t).map ((l, true) :: ·)
    else if t = .leaf L.zero then (cubeLits L e).map ((l, false) :: ·)
    else none

/-- the assignment `σ` overridden by a literal list -/
def assign (ls : List (Nat × Bool)) (σ : Nat → Bool) : Nat → Bool :=
  fun x => match ls.lookup x with
    | some b => b
    | none => σ x

end OxiddModel.Mtbdd
