import OxiddModel.Mtbdd.Model
import OxiddModel.Mtbdd.F64
import OxiddModel.Mtbdd.Lemmas
import OxiddModel.Mtbdd.Lemmas2
import OxiddModel.Mtbdd.LemmasI64
import OxiddModel.Mtbdd.Canon
/-!
# C10 — MTBDD arithmetic is the pointwise lifting of exact terminal arithmetic

Property text: *for MTBDD handles, add, sub, mul, div, min, max, ite (0-1-valued condition) and
restrict return the function whose value under every assignment is that operation applied to the
operands' values, with the documented NaN and infinity behaviour; constant and var return the
obvious functions.  On integer terminals add, sub and mul return the exact integer result when it
is representable and otherwise the infinity of the exact result's sign, div truncates toward zero
with x/0 = ±infinity by the sign of x, and undefined forms (inf-inf, 0*inf, 0/0, inf/inf) give
NaN; on float terminals the operations follow IEEE-754 with NaN and signed zero normalised.*

Everything below is about the model in `Model.lean` (tree level: no unique table, no apply cache —
the cache-key defects this property is sensitive to are caught by the correspondence stream and
the oracles of `c10_mtbdd`, and proved absent on the store level in C06).  The scalar theorems
quantify over **all** integers in the `i64` range, the lifted ones over all trees of any depth.
-/
namespace OxiddModel.Mtbdd

/-! ## Scalar arithmetic on `I64` -/

/-- *add returns the exact integer result when it is representable and otherwise the infinity of
the exact result's sign* — for all `i64` operands. -/
theorem i64_add_exact (a b : Int) (ha : inRange a) (hb : inRange b) :
    I64.add (.num a) (.num b) =
      if inRange (a + b) then .num (a + b) else if 0 < a + b then .pinf else .ninf :=
  I64.add_num a b ha hb

example : I64.add (.num I64_MIN) (.num (-1)) = .ninf := by decide
example : I64.add (.num I64_MAX) (.num 1) = .pinf := by decide
example : I64.add (.num I64_MAX) (.num I64_MIN) = .num (-1) := by decide

/-- *sub …* — for all `i64` operands. -/
theorem i64_sub_exact (a b : Int) (ha : inRange a) (hb : inRange b) :
    I64.sub (.num a) (.num b) =
      if inRange (a - b) then .num (a - b) else if 0 < a - b then .pinf else .ninf :=
  I64.sub_num a b ha hb

example : I64.sub (.num I64_MIN) (.num 1) = .ninf := by decide
example : I64.sub (.num 0) (.num I64_MIN) = .pinf := by decide

/-- *mul …* — for all integers (the range hypothesis is not even needed). -/
theorem i64_mul_exact (a b : Int) :
    I64.mul (.num a) (.num b) =
      if inRange (a * b) then .num (a * b) else if 0 < a * b then .pinf else .ninf :=
  I64.mul_num a b

example : I64.mul (.num I64_MIN) (.num (-1)) = .pinf := by decide
example : I64.mul (.num I64_MIN) (.num 2) = .ninf := by decide
example : I64.mul (.num 3037000500) (.num (-3037000500)) = .ninf := by decide

/-- *div truncates toward zero (`Int.tdiv` is T-rounding division) with `x/0 = ±∞` by the sign of
`x`* and `0/0 = NaN`; the only quotient that is not representable is `MIN / -1`, which is positive
and gives `+∞`. -/
theorem i64_div_spec (a b : Int) (ha : inRange a) :
    I64.div (.num a) (.num b) =
      (if b = 0 then (if 0 < a then .pinf else if a < 0 then .ninf else .nan)
       else if inRange (a.tdiv b) then .num (a.tdiv b) else .pinf) ∧
    (b ≠ 0 → ¬inRange (a.tdiv b) → 0 < a.tdiv b ∧ a = I64_MIN ∧ b = -1) := by
  refine ⟨I64.div_num a b ha, fun hb hn => ?_⟩
  have : a = I64_MIN ∧ b = -1 := Classical.byContradiction
    (fun h => hn (I64.tdiv_inRange a b ha hb h))
  obtain ⟨rfl, rfl⟩ := this
  exact ⟨by decide, rfl, rfl⟩

example : I64.div (.num (-7)) (.num 2) = .num (-3) := by decide
example : I64.div (.num 7) (.num (-2)) = .num (-3) := by decide
example : I64.div (.num I64_MIN) (.num (-1)) = .pinf := by decide
example : I64.div (.num (-5)) (.num 0) = .ninf := by decide

/-- NaN is absorbing for the four operations. -/
theorem i64_nan_absorbing (x : I64) :
    I64.add .nan x = .nan ∧ I64.add x .nan = .nan ∧ I64.sub .nan x = .nan ∧ I64.sub x .nan = .nan ∧
    I64.mul .nan x = .nan ∧ I64.mul x .nan = .nan ∧ I64.div .nan x = .nan ∧ I64.div x .nan = .nan :=
  ⟨I64.nan_add x, I64.add_nan x, I64.nan_sub x, I64.sub_nan x, I64.nan_mul x, I64.mul_nan x,
    I64.nan_div x, I64.div_nan x⟩

/-- *undefined forms (inf−inf, 0·inf, 0/0, inf/inf) give NaN* -/
theorem i64_undefined_forms :
    I64.add .pinf .ninf = .nan ∧ I64.add .ninf .pinf = .nan ∧
    I64.sub .pinf .pinf = .nan ∧ I64.sub .ninf .ninf = .nan ∧
    I64.mul (.num 0) .pinf = .nan ∧ I64.mul (.num 0) .ninf = .nan ∧
    I64.mul .pinf (.num 0) = .nan ∧ I64.mul .ninf (.num 0) = .nan ∧
    I64.div (.num 0) (.num 0) = .nan ∧
    I64.div .pinf .pinf = .nan ∧ I64.div .pinf .ninf = .nan ∧
    I64.div .ninf .pinf = .nan ∧ I64.div .ninf .ninf = .nan := by
  decide

/-- arithmetic with one infinite operand, for every finite `n` -/
theorem i64_infinity_arith (n : Int) :
    -- ∞ ± finite, finite ± ∞, like-signed infinities
    (I64.add .pinf (.num n) = .pinf ∧ I64.add (.num n) .pinf = .pinf ∧
     I64.add .ninf (.num n) = .ninf ∧ I64.add (.num n) .ninf = .ninf ∧
     I64.add .pinf .pinf = .pinf ∧ I64.add .ninf .ninf = .ninf) ∧
    (I64.sub .pinf (.num n) = .pinf ∧ I64.sub (.num n) .pinf = .ninf ∧
     I64.sub .ninf (.num n) = .ninf ∧ I64.sub (.num n) .ninf = .pinf ∧
     I64.sub .pinf .ninf = .pinf ∧ I64.sub .ninf .pinf = .ninf) ∧
    -- ∞ · finite: sign rule (0 · ∞ is in `i64_undefined_forms`)
    (0 < n → I64.mul .pinf (.num n) = .pinf ∧ I64.mul (.num n) .pinf = .pinf ∧
             I64.mul .ninf (.num n) = .ninf ∧ I64.mul (.num n) .ninf = .ninf) ∧
    (n < 0 → I64.mul .pinf (.num n) = .ninf ∧ I64.mul (.num n) .pinf = .ninf ∧
             I64.mul .ninf (.num n) = .pinf ∧ I64.mul (.num n) .ninf = .pinf) ∧
    (I64.mul .pinf .pinf = .pinf ∧ I64.mul .ninf .ninf = .pinf ∧
     I64.mul .pinf .ninf = .ninf ∧ I64.mul .ninf .pinf = .ninf) ∧
    -- finite / ∞ = 0, ∞ / finite: sign rule, `∞ / 0 = ∞` (the sign of the dividend)
    (I64.div (.num n) .pinf = .num 0 ∧ I64.div (.num n) .ninf = .num 0 ∧
     I64.div .pinf (.num n) = (if n < 0 then .ninf else .pinf) ∧
     I64.div .ninf (.num n) = (if n < 0 then .pinf else .ninf)) := by
  refine ⟨⟨rfl, rfl, rfl, rfl, rfl, rfl⟩, ⟨rfl, rfl, rfl, rfl, rfl, rfl⟩, ?_, ?_, by decide,
    ⟨rfl, rfl, rfl, rfl⟩⟩
  · intro h
    have h1 : n.sign = 1 := Int.sign_eq_one_iff_pos.2 h
    simp [I64.mul, I64.signum, h1]
  · intro h
    have h1 : n.sign = -1 := Int.sign_eq_neg_one_iff_neg.2 h
    simp [I64.mul, I64.signum, h1]

/-- `partial_cmp` is the order of the extended integers (`-∞ < n < +∞`), NaN is equal to itself and
incomparable to everything else; the order is a strict total order away from NaN. -/
theorem i64_partialCmp_order :
    (∀ a b, I64.partialCmp a b = some .eq ↔ a = b) ∧
    (∀ a b, I64.partialCmp a b = some .lt ↔ I64.extLt a b) ∧
    (∀ a b, I64.partialCmp a b = some .gt ↔ I64.extLt b a) ∧
    (∀ a b, I64.partialCmp a b = none ↔ (a = .nan ∧ b ≠ .nan) ∨ (a ≠ .nan ∧ b = .nan)) ∧
    (∀ a, ¬I64.extLt a a) ∧
    (∀ a b c, I64.extLt a b → I64.extLt b c → I64.extLt a c) ∧
    (∀ a b, a ≠ .nan → b ≠ .nan → I64.extLt a b ∨ a = b ∨ I64.extLt b a) ∧
    (∀ a b : Int, I64.extLt (.num a) (.num b) ↔ a < b) ∧
    (∀ a : Int, I64.extLt .ninf (.num a) ∧ I64.extLt (.num a) .pinf) ∧ I64.extLt .ninf .pinf :=
  ⟨I64.partialCmp_eq_iff, I64.partialCmp_lt_iff, I64.partialCmp_gt_iff, I64.partialCmp_none_iff,
    I64.extLt_irrefl, I64.extLt_trans, I64.extLt_total, fun _ _ => Iff.rfl,
    fun _ => ⟨trivial, trivial⟩, trivial⟩

/-- `min`/`max` as `terminal_bin` derives them from `partial_cmp`: NaN if an operand is NaN,
otherwise the smaller/larger operand in the extended-integer order. -/
theorem i64_min_max_spec (a b : I64) :
    ((a = .nan ∨ b = .nan) → i64Ops.min a b = .nan ∧ i64Ops.max a b = .nan) ∧
    (a ≠ .nan → b ≠ .nan →
      i64Ops.min a b = (if I64.extLt b a then b else a) ∧
      i64Ops.max a b = (if I64.extLt a b then b else a)) := by
  constructor
  · rintro (rfl | rfl)
    · cases b <;> exact ⟨rfl, rfl⟩
    · cases a <;> exact ⟨rfl, rfl⟩
  · intro ha hb
    cases a <;> cases b <;> simp only [ne_eq, not_true_eq_false] at ha hb
    all_goals
      simp only [TermOps.min, TermOps.max, i64Ops, I64.partialCmp, I64.extLt]
      try exact ⟨rfl, rfl⟩
    -- both finite
    rename_i x y
    rcases Int.lt_trichotomy x y with h | h | h
    · have hc : compare x y = .lt := Int.compare_eq_lt.2 h
      have h' : ¬y < x := by omega
      simp [hc, h, h']
    · subst h; simp
    · have hc : compare x y = .gt := Int.compare_eq_gt.2 h
      have h' : ¬x < y := by omega
      simp [hc, h, h']

example : i64Ops.min (.num 3) .ninf = .ninf ∧ i64Ops.max (.num 3) .ninf = .num 3 := by decide

/-- `I64` satisfies the laws `terminal_bin`'s shortcuts rely on (0 + x = x, x + 0 = x, x − 0 = x,
1·x = x, x·1 = x, x/1 = x, NaN absorbing for the four operations and min/max, min/max idempotent)
on all values whose payload is an `i64`, and those values are closed under the operations. -/
theorem i64_laws : TerminalLaws i64Ops I64.Valid ∧ TerminalClosed i64Ops I64.Valid :=
  ⟨i64_terminalLaws, i64_terminalClosed⟩

/-! ## The lifting to diagrams -/

variable {T : Type} [DecidableEq T]

/-- *add, sub, mul, div, min, max return the function whose value under every assignment is that
operation applied to the operands' values* — for every terminal type satisfying `TerminalLaws`,
every operator, all trees (no bound on depth or variables) whose terminals are admissible, and
every assignment. -/
theorem mtbdd_apply_sem {L : TermOps T} {ok : T → Prop} (H : TerminalLaws L ok) (op : Op)
    (f g : MT T) (hf : f.All ok) (hg : g.All ok) (σ : Nat → Bool) :
    (applyBin L op f g).eval σ = L.sem op (f.eval σ) (g.eval σ) :=
  applyBin_sem H op f g σ hf hg

/-- … and the terminals of the result are admissible again, so the theorem composes. -/
theorem mtbdd_apply_closed {L : TermOps T} {ok : T → Prop} (C : TerminalClosed L ok) (op : Op)
    (f g : MT T) (hf : f.All ok) (hg : g.All ok) : (applyBin L op f g).All ok :=
  applyBin_all C op f g hf hg

/-- the `I64` instance of the lifting: no hypothesis left except that terminals are `i64`s -/
theorem mtbdd_apply_sem_i64 (op : Op) (f g : MT I64) (hf : f.All I64.Valid) (hg : g.All I64.Valid)
    (σ : Nat → Bool) :
    (applyBin i64Ops op f g).eval σ = i64Ops.sem op (f.eval σ) (g.eval σ) ∧
    (applyBin i64Ops op f g).All I64.Valid :=
  ⟨applyBin_sem i64_terminalLaws op f g σ hf hg, applyBin_all i64_terminalClosed op f g hf hg⟩

-- non-vacuity: `0 - x1` and `max` after `min` on concrete diagrams with admissible terminals
example : (MT.node 1 (.leaf (I64.num 1)) (.leaf (I64.num 0))).All I64.Valid :=
  ⟨I64.inRange_one, I64.inRange_zero⟩
example : applyBin i64Ops .sub (constant (.num 0)) (var i64Ops 1)
    = .node 1 (.leaf (.num (-1))) (.leaf (.num 0)) := by decide +kernel
example : applyBin i64Ops .max (var i64Ops 0) (var i64Ops 1)
    = .node 0 (.leaf (.num 1)) (.node 1 (.leaf (.num 1)) (.leaf (.num 0))) := by decide +kernel
example : applyBin i64Ops .mul (.node 0 (.leaf .pinf) (.leaf (.num 0))) (var i64Ops 1)
    = .node 0 (.node 1 (.leaf .pinf) (.leaf .nan)) (.leaf (.num 0)) := by decide +kernel

/-- the result of `apply_bin` is in normal form (ordered and reduced) if the operands are, and its
root is not above the roots of the operands -/
theorem mtbdd_apply_nf (L : TermOps T) (op : Op) (f g : MT T) (hf : NF f) (hg : NF g) :
    NF (applyBin L op f g) ∧ ∀ k, lbound k f → lbound k g → lbound k (applyBin L op f g) :=
  applyBin_nf L op f g hf hg

example : NF (var i64Ops 3) := ⟨⟨trivial, trivial, trivial, trivial⟩, ⟨by decide, trivial, trivial⟩⟩

/-- *ite (0-1-valued condition)*: the value is the then-operand's where the condition is 1 and the
else-operand's where it is 0 (in particular NaN/∞ of the branch not taken are ignored) -/
theorem mtbdd_ite_sem {L : TermOps T} (hne : L.zero ≠ L.one) (f g h : MT T) (hz : ZeroOne L f)
    (σ : Nat → Bool) :
    (applyIte L f g h).eval σ = if f.eval σ = L.one then g.eval σ else h.eval σ :=
  applyIte_sem hne f g h σ hz

example : ZeroOne i64Ops (var i64Ops 0) := ⟨Or.inr rfl, Or.inl rfl⟩
example : applyIte i64Ops (var i64Ops 1) (.leaf .nan) (var i64Ops 0)
    = .node 0 (.node 1 (.leaf .nan) (.leaf (.num 1))) (.node 1 (.leaf .nan) (.leaf (.num 0))) := by
  decide +kernel

/-- the result of `apply_ite` is in normal form if the operands are -/
theorem mtbdd_ite_nf (L : TermOps T) (f g h : MT T) (hf : NF f) (hg : NF g) (hh : NF h) :
    NF (applyIte L f g h) ∧
      ∀ k, lbound k f → lbound k g → lbound k h → lbound k (applyIte L f g h) :=
  applyIte_nf L f g h hf hg hh

/-- *restrict*: for a conjunction of literals `vars` (literal list `ls`) the result's value under
`σ` is the operand's value under `σ` overridden by the literals.  `f` and `vars` are ordered
diagrams (which is what the manager maintains). -/
theorem mtbdd_restrict_sem {L : TermOps T} (hne : L.zero ≠ L.one) (f vars : MT T)
    (ls : List (Nat × Bool)) (hf : Ordered f) (hv : Ordered vars) (hc : IsCube L vars ls)
    (σ : Nat → Bool) :
    (restrict L f vars).eval σ = f.eval (assign ls σ) :=
  restrict_sem hne f vars ls hf hv hc σ

-- non-vacuity: the cube `x0 ∧ ¬x2` and a restriction by it
example : IsCube i64Ops (.node 0 (.node 2 (.leaf (.num 0)) (.leaf (.num 1))) (.leaf (.num 0)))
    [(0, true), (2, false)] := .pos (.neg .one)
example : restrict i64Ops
    (.node 0 (.node 1 (.leaf (.num 5)) (.node 2 (.leaf .pinf) (.leaf (.num 7)))) (.leaf .nan))
    (.node 0 (.node 2 (.leaf (.num 0)) (.leaf (.num 1))) (.leaf (.num 0)))
    = .node 1 (.leaf (.num 5)) (.leaf (.num 7)) := by decide +kernel

/-- the result of `restrict` is in normal form if the operand is (*the result never has more nodes
than `self`* is not proved) -/
theorem mtbdd_restrict_nf (L : TermOps T) (f vars : MT T) (hf : NF f) :
    NF (restrict L f vars) ∧ ∀ k, lbound k f → lbound k (restrict L f vars) :=
  restrict_nf L f vars hf

omit [DecidableEq T] in
/-- *constant returns the obvious function* -/
theorem constant_sem (c : T) (σ : Nat → Bool) : (constant c).eval σ = c := rfl

omit [DecidableEq T] in
/-- *var returns the obvious function*: 1 where the variable is true, 0 elsewhere; it is in normal
form (given 0 ≠ 1) and 0-1-valued -/
theorem var_sem (L : TermOps T) (v : Nat) (σ : Nat → Bool) :
    (var L v).eval σ = (if σ v then L.one else L.zero) ∧ ZeroOne L (var L v) ∧
    (L.zero ≠ L.one → NF (var L v)) :=
  ⟨rfl, ⟨Or.inr rfl, Or.inl rfl⟩,
    fun h => ⟨⟨trivial, trivial, trivial, trivial⟩,
      ⟨fun e => h (MT.leaf.inj e).symm, trivial, trivial⟩⟩⟩

/-! ## Canonicity (C01 for MTBDDs) and uniqueness of the results -/

omit [DecidableEq T] in
/-- *Two handles are equal iff they denote the same function*, tree level: two diagrams in normal
form (ordered, reduced) with the same value under every assignment are the same tree — for every
terminal type, any number of variables, any depth.  (That equal trees are equal handles is the
unique-table invariant of the store, C03.) -/
theorem mtbdd_canonical (a b : MT T) (ha : NF a) (hb : NF b) :
    (∀ σ, a.eval σ = b.eval σ) → a = b :=
  canon a b ha hb

-- non-vacuity: two different normal forms are told apart by an assignment; a normal form that
-- is pointwise equal to a terminal is that terminal
example : NF (MT.node 0 (.leaf (I64.num 1)) (.node 1 (.leaf I64.pinf) (.leaf I64.nan))) :=
  ⟨⟨trivial, by simp [lbound], trivial, ⟨trivial, trivial, trivial, trivial⟩⟩,
    ⟨by decide, trivial, ⟨by decide, trivial, trivial⟩⟩⟩
example (a : MT I64) (ha : NF a) (h : ∀ σ, a.eval σ = .num 3) : a = .leaf (.num 3) :=
  mtbdd_canonical a (.leaf (.num 3)) ha (nf_leaf _) h

/-- the result of `apply_bin` is **the** normal form of the pointwise lifting: any normal-form
diagram `r` whose value is `op` applied to the operands' values everywhere is the tree the
algorithm returns -/
theorem mtbdd_apply_unique {L : TermOps T} {ok : T → Prop} (H : TerminalLaws L ok) (op : Op)
    (f g r : MT T) (hf : NF f) (hg : NF g) (af : f.All ok) (ag : g.All ok) (hr : NF r)
    (h : ∀ σ, r.eval σ = L.sem op (f.eval σ) (g.eval σ)) : applyBin L op f g = r :=
  canon _ r (applyBin_nf L op f g hf hg).1 hr (fun σ => by rw [applyBin_sem H op f g σ af ag, h σ])

/-- consequently `apply_bin` is commutative/idempotent/… on diagrams exactly when the scalar
operation is: e.g. `f + g = g + f` as trees whenever `add` is commutative on the terminals that
occur -/
theorem mtbdd_apply_congr {L : TermOps T} {ok : T → Prop} (H : TerminalLaws L ok) (op op' : Op)
    (f g f' g' : MT T) (hf : NF f) (hg : NF g) (hf' : NF f') (hg' : NF g')
    (af : f.All ok) (ag : g.All ok) (af' : f'.All ok) (ag' : g'.All ok)
    (h : ∀ σ, L.sem op (f.eval σ) (g.eval σ) = L.sem op' (f'.eval σ) (g'.eval σ)) :
    applyBin L op f g = applyBin L op' f' g' :=
  canon _ _ (applyBin_nf L op f g hf hg).1 (applyBin_nf L op' f' g' hf' hg').1 (fun σ => by
    rw [applyBin_sem H op f g σ af ag, applyBin_sem H op' f' g' σ af' ag', h σ])

/-- `ite` returns the unique normal form of the pointwise selection -/
theorem mtbdd_ite_unique {L : TermOps T} (hne : L.zero ≠ L.one) (f g h r : MT T)
    (hf : NF f) (hg : NF g) (hh : NF h) (hz : ZeroOne L f) (hr : NF r)
    (hs : ∀ σ, r.eval σ = if f.eval σ = L.one then g.eval σ else h.eval σ) :
    applyIte L f g h = r :=
  canon _ r (applyIte_nf L f g h hf hg hh).1 hr (fun σ => by rw [applyIte_sem hne f g h σ hz, hs σ])

/-- `restrict` returns the unique normal form of the cofactor -/
theorem mtbdd_restrict_unique {L : TermOps T} (hne : L.zero ≠ L.one) (f vars r : MT T)
    (ls : List (Nat × Bool)) (hf : NF f) (hv : Ordered vars) (hc : IsCube L vars ls) (hr : NF r)
    (hs : ∀ σ, r.eval σ = f.eval (assign ls σ)) : restrict L f vars = r :=
  canon _ r (restrict_nf L f vars hf).1 hr (fun σ => by
    rw [restrict_sem hne f vars ls hf.1 hv hc σ, hs σ])

-- non-vacuity: `x0 + x1` and `x1 + x0` are the same tree (commutativity lifted by uniqueness)
example : applyBin i64Ops .add (var i64Ops 0) (var i64Ops 1)
    = applyBin i64Ops .add (var i64Ops 1) (var i64Ops 0) := by decide +kernel

/-! ## `F64`

`f64Ops` (`F64.lean`) computes on bit patterns with the exact binary64 model `Num/Ieee.lean` (no Lean
`Float`).  The theorem below keeps its historic form — the laws as a hypothesis —; the hypothesis
`TerminalLaws f64Ops F64.Normal` is *proved* in `PropertiesF64Bits.lean` (`f64_bits_terminal_laws`,
by transfer from `PropertiesF64.lean`), which also states the unconditional lifting
`mtbdd_apply_sem_f64_bits`.  The agreement of `f64Ops` with the Rust `F64` is compared bit for bit
by the streams `mtbdd` and `f64arith`. -/

/-- a normalised bit pattern: not `-0.0`, and NaN only in its canonical form -/
def F64.Normal (b : UInt64) : Prop := F64.ofBits b = b

/-- the lifting for `F64` terminals, *assuming* the terminal laws for `f64Ops`; the hypothesis is
discharged in `PropertiesF64Bits.lean` (`f64_bits_terminal_laws`, `mtbdd_apply_sem_f64_bits`). -/
theorem mtbdd_apply_sem_f64_partial (H : TerminalLaws f64Ops F64.Normal) (op : Op)
    (f g : MT UInt64) (hf : f.All F64.Normal) (hg : g.All F64.Normal) (σ : Nat → Bool) :
    (applyBin f64Ops op f g).eval σ = f64Ops.sem op (f.eval σ) (g.eval σ) :=
  applyBin_sem H op f g σ hf hg

end OxiddModel.Mtbdd
