import OxiddModel.Mtbdd.RcSLemmasOrd
import OxiddModel.Mtbdd.PropertiesS

/-!
# C05 / C14 / C10 — MTBDDs: reference counters of inner nodes and terminals, the two capacities,
garbage collection including the terminal sweep

Property C05: *"the reference count of a node equals the number of live handles plus the number of
stored parent edges; `gc` frees exactly the unreferenced nodes (for MTBDDs also the unused
terminals are freed)"*. Property C14: *"If an operation needs more inner nodes or terminals than
the manager's capacity allows, it returns the out-of-memory error … releases everything it had
acquired"*.

`Mtbdd/StoreS.lean` … `PropertiesS.lean` prove the MTBDD algorithms on a store without counters,
capacities and collection. Here (`RcS.lean`) the counters of inner nodes **and of terminals** are
state, both stores are bounded, and `Manager::gc` (inner levels top-down, then the terminal sweep)
is a function of that state; every `clone_edge` / `drop_edge` / `EdgeDropGuard` / `retain` /
`release` of `apply_rec.rs`, `lib.rs` (`reduce`, `terminal_bin`), `manager.rs` (`get_or_insert`,
`add_node`, `free_slot`, `gc`) and `terminal_manager/dynamic.rs` (`get_edge`, `gc`) is a step.

The convention the code uses for terminals is the one of inner nodes: a fresh terminal has
`rc = 2` (terminal unique table + returned edge), a hit retains, the sweep removes `rc == 1`. So
one invariant covers both: `RcInv r ext` — for every stored node **or terminal** `x`,
`rc x = 1 + #(x in ext) + #(stored parent edges to x)`.

All theorems are generic in the terminal type `T` (`DecidableEq` only), the operator record `L`,
the edge order `gt`, the tag assignment, the cache policy (`Policy.OK`), the capacities and the
fuel; the `I64` instances are stated at the end.
-/
set_option linter.unusedSectionVars false

namespace OxiddModel.Mtbdd.C05R
open OxiddModel.Mtbdd OxiddModel.Mtbdd.Refine OxiddModel.Mtbdd.Rc OxiddModel.CachePolicy OxiddModel

variable {T : Type} [DecidableEq T]

/-! ## the primitives -/

/-- the empty manager satisfies the invariant -/
theorem rcinv_empty : RcInv (RSt.empty : RSt T) [] where
  ext_ok _ h := by cases h
  kids_ok i n h := by simp [RSt.empty, Store.get?, Store.empty, Slots.get?] at h
  cache_ok _ _ h := by cases h
  rc_eq x h := by
    cases x with
    | term i => obtain ⟨v, hv⟩ := h; simp [RSt.empty, Store.getTerm?, Store.empty, Slots.get?] at hv
    | inner i => obtain ⟨n, hn⟩ := h; simp [RSt.empty, Store.get?, Store.empty, Slots.get?] at hn

/-- **`clone_edge`** of an owned edge (inner node or terminal): one more external reference. -/
theorem clone_rc {r : RSt T} {ext : List Edge} {x : Edge} (h : RcInv r ext) (hx : x ∈ ext) :
    RcInv (cloneEdge r x) (x :: ext) := cloneEdge_rc h (h.ext_ok x hx)

/-- **`drop_edge`** of an owned edge: one external reference less, and the counter does not
underflow — `debug_assert!(_old_rc > 1)` in `Store::drop_edge` *and* in
`DynamicTerminalManager::release` holds. -/
theorem drop_rc {r : RSt T} {ext : List Edge} {x : Edge} (h : RcInv r (x :: ext)) :
    RcInv (dropEdge r x) ext ∧ 2 ≤ r.rcOf x :=
  ⟨dropEdge_rc h, dropEdge_no_underflow h⟩

/-- **`get_terminal`** (`DynamicTerminalManager::get_edge`): a hit retains, a miss allocates with
`rc = 2`, a full terminal store returns OutOfMemory and changes nothing — exact counters in all
three cases, the caller owns the returned edge. -/
theorem getTerminalR_rc_exact (tcap : Option Nat) (r : RSt T) (v : T) (ext : List Edge)
    (h : RcInv r ext) :
    match getTerminalR tcap r v with
    | (some x, r') => RcInv r' (x :: ext)
    | (none, r') => RcInv r' ext := getTerminalR_rc h

/-- **`reduce`** = reduction rule + `get_or_insert` + `add_node`: the two owned children (inner or
terminal) are consumed. Reduction (`t == e`: `e` dropped), unique-table hit (both dropped, the
found node retained), allocation (both move into the node, `rc = 2`) and **OutOfMemory** (both
dropped) all leave exact counters. -/
theorem mkNodeR_rc_exact (ncap : Option Nat) (r : RSt T) (l : Nat) (t e : Edge) (ext : List Edge)
    (h : RcInv r (t :: e :: ext)) :
    match mkNodeR ncap r l t e with
    | (some x, r') => RcInv r' (x :: ext)
    | (none, r') => RcInv r' ext := mkNodeR_rc h

/-! ## the algorithms -/

/-- **`applyR_rc_exact`.** `apply_bin::<OP>` (six operators) with borrowed operands that point to
stored nodes / terminals: after a successful run the counters of all inner nodes and terminals are
exact for the caller's references plus the result; after a failing run — OutOfMemory of **either**
store at **any** allocation point (`get_terminal` in a terminal case, `add_node` in `reduce`), any
capacities — for the caller's references alone: nothing leaked, nothing released twice. The
store is only extended. -/
theorem applyR_rc_exact (L : TermOps T) (gt : Edge → Edge → Bool) (tg : Op → OpTag) {p : APolicy}
    (pok : p.OK) (caps : Caps) (op : Op) (fuel : Nat) (r : RSt T) (f g : Edge) (ext : List Edge)
    (h : RcInv r ext) (hf : Has r.st.store f) (hg : Has r.st.store g) :
    r.st.store.Le (applyR L gt tg caps p op fuel r f g).2.st.store ∧
    match applyR L gt tg caps p op fuel r f g with
    | (some x, r') => RcInv r' (x :: ext)
    | (none, r') => RcInv r' ext := applyR_rc L gt tg pok caps op fuel r f g ext h hf hg

/-- … in particular for operands the caller owns -/
theorem applyR_rc_owned (L : TermOps T) (gt : Edge → Edge → Bool) (tg : Op → OpTag) {p : APolicy}
    (pok : p.OK) (caps : Caps) (op : Op) (fuel : Nat) (r : RSt T) (f g : Edge) (ext : List Edge)
    (h : RcInv r ext) (hf : f ∈ ext) (hg : g ∈ ext) :
    match applyR L gt tg caps p op fuel r f g with
    | (some x, r') => RcInv r' (x :: ext)
    | (none, r') => RcInv r' ext :=
  (applyR_rc_exact L gt tg pok caps op fuel r f g ext h (h.ext_ok f hf) (h.ext_ok g hg)).2

/-- `apply_ite` -/
theorem iteR_rc_exact (L : TermOps T) {p : APolicy} (pok : p.OK) (caps : Caps) (fuel : Nat)
    (r : RSt T) (f g k : Edge) (ext : List Edge) (h : RcInv r ext) (hf : Has r.st.store f)
    (hg : Has r.st.store g) (hk : Has r.st.store k) :
    r.st.store.Le (iteR L caps p fuel r f g k).2.st.store ∧
    match iteR L caps p fuel r f g k with
    | (some x, r') => RcInv r' (x :: ext)
    | (none, r') => RcInv r' ext := iteR_rc L pok caps fuel r f g k ext h hf hg hk

/-- `var_edge`: `get_terminal(1)`, `get_terminal(0)`, `get_or_insert` — whichever of the three
fails, the terminals obtained so far are released -/
theorem varR_rc_exact (L : TermOps T) (caps : Caps) (r : RSt T) (level : Nat) (ext : List Edge)
    (h : RcInv r ext) :
    match varR L caps r level with
    | (some x, r') => RcInv r' (x :: ext)
    | (none, r') => RcInv r' ext := (varR_rc L caps r level ext h).2

/-- `constant_edge` -/
theorem constR_rc_exact (caps : Caps) (r : RSt T) (v : T) (ext : List Edge) (h : RcInv r ext) :
    match constR caps r v with
    | (some x, r') => RcInv r' (x :: ext)
    | (none, r') => RcInv r' ext := (constR_rc caps r v ext h).2

/-! ## erasure: without counters and capacities these are the algorithms of `StoreS.lean` -/

/-- **`applyR_erase`.** Every run of `applyR` that does not fail — whatever the capacities — *is*
the run of the counter-free `applyS`: same edge, same node table, same terminal table, same cache,
same time stamp. -/
theorem applyR_erase (L : TermOps T) (gt : Edge → Edge → Bool) (tg : Op → OpTag) (caps : Caps)
    (p : APolicy) (op : Op) (fuel : Nat) (r : RSt T) (f g x : Edge)
    (h : (applyR L gt tg caps p op fuel r f g).1 = some x) :
    applyS L gt tg p op fuel r.st f g = ((applyR L gt tg caps p op fuel r f g).2.st, x) :=
  applyR_erase' L gt tg caps p op fuel r f g x h

/-- **with unbounded capacities no run fails**, so `applyR Caps.unbounded` erases to `applyS` for
all inputs (hence `Mtbdd.StoreLevel.applyS_spec`, `cache_transparent`, `history_spec` transfer). -/
theorem applyR_erase_unbounded (L : TermOps T) (gt : Edge → Edge → Bool) (tg : Op → OpTag)
    (p : APolicy) (op : Op) (fuel : Nat) (r : RSt T) (f g : Edge) :
    ∃ x, (applyR L gt tg Caps.unbounded p op fuel r f g).1 = some x ∧
      applyS L gt tg p op fuel r.st f g = ((applyR L gt tg Caps.unbounded p op fuel r f g).2.st, x) := by
  cases h : (applyR L gt tg Caps.unbounded p op fuel r f g).1 with
  | none => exact absurd h (applyR_unbounded' L gt tg p op fuel r f g)
  | some x => exact ⟨x, rfl, applyR_erase L gt tg _ p op fuel r f g x h⟩

theorem iteR_erase (L : TermOps T) (caps : Caps) (p : APolicy) (fuel : Nat) (r : RSt T)
    (f g h x : Edge) (hx : (iteR L caps p fuel r f g h).1 = some x) :
    iteS L p fuel r.st f g h = ((iteR L caps p fuel r f g h).2.st, x) :=
  iteR_erase' L caps p fuel r f g h x hx

theorem iteR_erase_unbounded (L : TermOps T) (p : APolicy) (fuel : Nat) (r : RSt T) (f g h : Edge) :
    ∃ x, (iteR L Caps.unbounded p fuel r f g h).1 = some x ∧
      iteS L p fuel r.st f g h = ((iteR L Caps.unbounded p fuel r f g h).2.st, x) := by
  cases hx : (iteR L Caps.unbounded p fuel r f g h).1 with
  | none => exact absurd hx (iteR_unbounded' L p fuel r f g h)
  | some x => exact ⟨x, rfl, iteR_erase L _ p fuel r f g h x hx⟩

/-- `var_edge` erases to `varS` (`HistoryS.lean`) -/
theorem varR_erase (L : TermOps T) (caps : Caps) (r : RSt T) (l : Nat) (x : Edge)
    (h : (varR L caps r l).1 = some x) :
    varS L r.st.store l = ((varR L caps r l).2.st.store, x) := (varR_erase' L caps r l x h).1

/-- transfer of `Mtbdd.StoreLevel.applyS_spec` (C10/C06): a successful counted, capacity-bounded run
returns an edge denoting `applyBin L op a b` — whatever the cache and the capacities — and keeps
hash consing, admissible terminals and the cache sound -/
theorem applyR_correct {L : TermOps T} {ok : T → Prop} (C : TerminalClosed L ok)
    (M : TerminalComm L ok) (gt : Edge → Edge → Bool) {p : APolicy} (pok : p.OK) (caps : Caps)
    (op : Op) (fuel : Nat) (r : RSt T) (f g x : Edge) (a b : MT T) (hu : r.st.store.Unique)
    (hok : r.st.store.TermsOK ok) (hc : CacheOK L r.st.store r.st.cache)
    (hf : Denotes r.st.store f a) (hg : Denotes r.st.store g b) (hfuel : a.size + b.size ≤ fuel)
    (hx : (applyR L gt tagOf caps p op fuel r f g).1 = some x) :
    let r' := (applyR L gt tagOf caps p op fuel r f g).2
    Denotes r'.st.store x (applyBin L op a b) ∧ r'.st.store.Unique ∧ r'.st.store.TermsOK ok ∧
      CacheOK L r'.st.store r'.st.cache := by
  have e := applyR_erase L gt tagOf caps p op fuel r f g x hx
  have P := StoreLevel.applyS_spec C M gt pok op fuel r.st f g a b hu hok hc hf hg hfuel
  simp only [e] at P
  exact ⟨P.1, P.2.2.1, P.2.2.2.1, P.2.2.2.2⟩

/-- the same transfer for `apply_ite` (`Mtbdd.StoreLevel.iteS_spec`) -/
theorem iteR_correct {L : TermOps T} {ok : T → Prop} {p : APolicy} (pok : p.OK) (caps : Caps)
    (fuel : Nat) (r : RSt T) (f g h x : Edge) (a b c : MT T) (hu : r.st.store.Unique)
    (hok : r.st.store.TermsOK ok) (hc : CacheOK L r.st.store r.st.cache)
    (hf : Denotes r.st.store f a) (hg : Denotes r.st.store g b) (hh : Denotes r.st.store h c)
    (hfuel : a.size + b.size + c.size ≤ fuel) (hx : (iteR L caps p fuel r f g h).1 = some x) :
    let r' := (iteR L caps p fuel r f g h).2
    Denotes r'.st.store x (applyIte L a b c) ∧ r'.st.store.Unique ∧ r'.st.store.TermsOK ok ∧
      CacheOK L r'.st.store r'.st.cache := by
  have e := iteR_erase L caps p fuel r f g h x hx
  have P := StoreLevel.iteS_spec (L := L) (ok := ok) pok fuel r.st f g h a b c hu hok hc hf hg hh hfuel
  simp only [e] at P
  exact ⟨P.1, P.2.2.1, P.2.2.2.1, P.2.2.2.2⟩

/-- **a failed operation is clean (C14)**: after OutOfMemory (of the node store or of the terminal
store, anywhere) the store is only extended — every handle denotes what it denoted — and the
counters are exact for the caller's references -/
theorem applyR_error_clean (L : TermOps T) (gt : Edge → Edge → Bool) (tg : Op → OpTag)
    {p : APolicy} (pok : p.OK) (caps : Caps) (op : Op) (fuel : Nat) (r : RSt T) (f g : Edge)
    (ext : List Edge) (hi : RcInv r ext) (hfe : f ∈ ext) (hge : g ∈ ext)
    (herr : (applyR L gt tg caps p op fuel r f g).1 = none) :
    RcInv (applyR L gt tg caps p op fuel r f g).2 ext ∧
    (∀ x a, Denotes r.st.store x a → Denotes (applyR L gt tg caps p op fuel r f g).2.st.store x a) := by
  have := applyR_rc_exact L gt tg pok caps op fuel r f g ext hi (hi.ext_ok f hfe) (hi.ext_ok g hge)
  refine ⟨?_, fun x a hd => hd.mono this.1⟩
  have h2 := this.2
  cases hR : applyR L gt tg caps p op fuel r f g with
  | mk o r' =>
    rw [hR] at h2 herr
    simp only at herr
    subst herr
    exact h2

/-! ## garbage collection driven by the counters -/

/-- **`gcR_sound`** (any store, ordered or not): `Manager::gc` — cache cleared, level-wise sweep
of the inner nodes with `rc == 1` releasing their (inner and terminal) children, then the terminal
sweep — keeps all counters exact, clears the cache, creates and changes nothing, removes no inner
node and no terminal reachable from an external edge, and every external edge denotes what it
denoted. -/
theorem gcR_sound (N : Nat) (r : RSt T) (ext : List Edge) (h : RcInv r ext) :
    RcInv (gcR N r) ext ∧ (gcR N r).st.cache = [] ∧ Sub (gcR N r).st.store r.st.store ∧
    (∀ x, Reach r.st.store ext x → Has (gcR N r).st.store x) ∧
    (∀ x a, x ∈ ext → Denotes r.st.store x a → Denotes (gcR N r).st.store x a) :=
  ⟨(gcR_rc N h).1, (gcR_rc N h).2, gcR_sub N r, fun _ hr => gcR_keeps_reach N h hr,
    fun _ _ hx hd => gcR_denotes N h hd (.root hx)⟩

/-- **`gcR_exact`.** If moreover the store is ordered (inner children on strictly larger levels —
the reason why one pass from the top level down suffices) and every level is visited, what remains
is **exactly** what is reachable from the external edges: an inner node *or a terminal* is freed
iff no handle and no surviving parent references it. (The terminal sweep must come after the inner
levels for this: `terms_first_leaves_garbage`.) -/
theorem gcR_exact (N : Nat) (r : RSt T) (ext : List Edge) (h : RcInv r ext)
    (ho : Rc.Ordered r.st.store) (hl : ∀ i n, r.st.store.get? i = some n → n.level < N) :
    RcInv (gcR N r) ext ∧
    (∀ x, Has (gcR N r).st.store x ↔ Reach r.st.store ext x) ∧
    Sub (gcR N r).st.store r.st.store ∧
    (∀ x a, x ∈ ext → Denotes r.st.store x a → Denotes (gcR N r).st.store x a) := by
  obtain ⟨h1, _, h3, h4, h5⟩ := gcR_sound N r ext h
  exact ⟨h1, fun x => ⟨fun hx => gcR_complete N h ho hl hx, h4 x⟩, h3, h5⟩

theorem reach_nil {s : Store T} {x : Edge} (h : Reach s [] x) : False := by
  induction h with
  | root hm => cases hm
  | kid _ _ _ ih => exact ih

theorem slotCount_zero {α : Type} {a : Array (Option α)} (h : ∀ i, Slots.get? a i = none) :
    slotCount a = 0 := by
  unfold slotCount
  rw [Array.countP_eq_zero]
  intro o ho'
  obtain ⟨k, hk, hko⟩ := Array.mem_iff_getElem.mp ho'
  have := h k
  simp only [Slots.get?, hk, Array.getElem?_eq_getElem, Option.join_some] at this
  rw [hko] at this
  simp [this]

/-- **`all_dropped_empty`** (the C05 clause *"for MTBDDs also the unused terminals are freed"*):
when every handle has been dropped, one collection leaves **zero inner nodes and zero terminals**. -/
theorem all_dropped_empty (N : Nat) (r : RSt T) (h : RcInv r [])
    (ho : Rc.Ordered r.st.store) (hl : ∀ i n, r.st.store.get? i = some n → n.level < N) :
    (gcR N r).numInner = 0 ∧ (gcR N r).numTerms = 0 := by
  have hno : ∀ x, ¬ Has (gcR N r).st.store x := fun x hx => reach_nil (gcR_complete N h ho hl hx)
  constructor
  · apply slotCount_zero
    intro i
    cases hi : Slots.get? (gcR N r).st.store.nodes i with
    | none => rfl
    | some n => exact (hno (.inner i) ⟨n, hi⟩).elim
  · apply slotCount_zero
    intro i
    cases hi : Slots.get? (gcR N r).st.store.terms i with
    | none => rfl
    | some v => exact (hno (.term i) ⟨v, hi⟩).elim

/-! ## histories -/

/-- **`rc_history`.** Starting from a state with exact counters (e.g. the empty manager), after
**every** sequence of commands — `const`, `var`, the six binary operators, `ite` (each under its
own node and terminal capacity: successful or failing with OutOfMemory anywhere), `clone`, `drop`,
`gc` — the counter of every stored inner node and of every stored terminal equals
`1 + handles + stored parent edges`. -/
theorem rc_history {E : Env T} (pok : E.p.OK) (cmds : List (Rc.Cmd T)) (h : HSt T)
    (hi : RcInv h.r h.hs) : RcInv (runAll E cmds h).r (runAll E cmds h).hs :=
  runAll_rc pok cmds h hi

theorem rc_history_empty {E : Env T} (pok : E.p.OK) (cmds : List (Rc.Cmd T)) :
    RcInv (runAll E cmds ⟨RSt.empty, []⟩).r (runAll E cmds ⟨RSt.empty, []⟩).hs :=
  rc_history pok cmds ⟨RSt.empty, []⟩ rcinv_empty

theorem ordinv_empty (N : Nat) : OrdInv N (RSt.empty : RSt T) where
  ord i n j m h := by simp [RSt.empty, Store.get?, Store.empty, Slots.get?] at h
  bound i n h := by simp [RSt.empty, Store.get?, Store.empty, Slots.get?] at h
  cache _ _ h := by cases h

/-- **`applyR_ordered`.** `apply_bin::<OP>` keeps the store ordered, all levels below the number
of levels and the cache level-respecting — on success and on failure; the result lies on a level
`≥` the top level of the operands (terminals count as level ∞). -/
theorem applyR_ordered (L : TermOps T) (gt : Edge → Edge → Bool) (tg : Op → OpTag) {p : APolicy}
    (pok : p.OK) (N : Nat) (caps : Caps) (op : Op) (fuel : Nat) (r : RSt T) (f g : Edge)
    (ext : List Edge) (L' : Nat) (h : RcInv r ext) (ho : OrdInv N r)
    (hf : Above r.st.store L' f) (hg : Above r.st.store L' g) :
    OrdInv N (applyR L gt tg caps p op fuel r f g).2 ∧
    ∀ x, (applyR L gt tg caps p op fuel r f g).1 = some x →
      Above (applyR L gt tg caps p op fuel r f g).2.st.store L' x :=
  applyR_ord L gt tg pok N caps op fuel r f g ext L' h ho hf hg

/-- **`ord_history`.** Along every history whose variables are created on levels `< N`, the
counters stay exact *and* the store stays ordered with all levels `< N`. -/
theorem ord_history {E : Env T} (pok : E.p.OK) (N : Nat) (cmds : List (Rc.Cmd T))
    (hok : ∀ c ∈ cmds, c.OK N) :
    RcInv (runAll E cmds ⟨RSt.empty, []⟩).r (runAll E cmds ⟨RSt.empty, []⟩).hs ∧
    OrdInv N (runAll E cmds ⟨RSt.empty, []⟩).r :=
  runAll_ord pok cmds ⟨RSt.empty, []⟩ hok rcinv_empty (ordinv_empty N)

/-- **`gc_history_exact`.** After *any* history (operations succeeding or failing with
OutOfMemory of either store, clones, drops, earlier collections) a collection over the `N` levels
keeps exactly the inner nodes and terminals reachable from the live handles, with exact counters,
and every handle denotes what it denoted — no hypothesis on the state is left. -/
theorem gc_history_exact {E : Env T} (pok : E.p.OK) (N : Nat) (cmds : List (Rc.Cmd T))
    (hok : ∀ c ∈ cmds, c.OK N) :
    let h := runAll E cmds ⟨RSt.empty, []⟩
    RcInv (gcR N h.r) h.hs ∧
    (∀ x, Has (gcR N h.r).st.store x ↔ Reach h.r.st.store h.hs x) ∧
    Sub (gcR N h.r).st.store h.r.st.store ∧
    (∀ x a, x ∈ h.hs → Denotes h.r.st.store x a → Denotes (gcR N h.r).st.store x a) := by
  intro h
  obtain ⟨hi, ho⟩ := ord_history (E := E) pok N cmds hok
  exact gcR_exact N h.r h.hs hi ho.ord ho.bound

/-- after any history, dropping all handles and collecting leaves no inner node and no terminal -/
theorem all_dropped_empty_history {E : Env T} (pok : E.p.OK) (N : Nat) (cmds : List (Rc.Cmd T))
    (hok : ∀ c ∈ cmds, c.OK N) (hnone : (runAll E cmds ⟨RSt.empty, []⟩).hs = []) :
    (gcR N (runAll E cmds ⟨RSt.empty, []⟩).r).numInner = 0 ∧
    (gcR N (runAll E cmds ⟨RSt.empty, []⟩).r).numTerms = 0 := by
  obtain ⟨hi, ho⟩ := ord_history (E := E) pok N cmds hok
  rw [hnone] at hi
  exact all_dropped_empty N _ hi ho.ord ho.bound

/-! ## the `I64` instance (index edge order, the code's tags) -/

/-- the environment of the real `I64` MTBDD manager with an arbitrary admissible cache -/
def i64Env (p : APolicy) : Env I64 := ⟨i64Ops, Edge.gtIdx, tagOf, p⟩

theorem rc_history_i64 {p : APolicy} (pok : p.OK) (cmds : List (Rc.Cmd I64)) :
    RcInv (runAll (i64Env p) cmds ⟨RSt.empty, []⟩).r (runAll (i64Env p) cmds ⟨RSt.empty, []⟩).hs :=
  rc_history_empty (E := i64Env p) pok cmds

theorem gc_history_exact_i64 {p : APolicy} (pok : p.OK) (N : Nat) (cmds : List (Rc.Cmd I64))
    (hok : ∀ c ∈ cmds, c.OK N) :
    let h := runAll (i64Env p) cmds ⟨RSt.empty, []⟩
    RcInv (gcR N h.r) h.hs ∧
    (∀ x, Has (gcR N h.r).st.store x ↔ Reach h.r.st.store h.hs x) ∧
    Sub (gcR N h.r).st.store h.r.st.store ∧
    (∀ x a, x ∈ h.hs → Denotes h.r.st.store x a → Denotes (gcR N h.r).st.store x a) :=
  gc_history_exact (E := i64Env p) pok N cmds hok

/-- `I64`: a successful capacity-bounded counted run computes `applyBin i64Ops op` -/
theorem applyR_correct_i64 (gt : Edge → Edge → Bool) {p : APolicy} (pok : p.OK) (caps : Caps)
    (op : Op) (fuel : Nat) (r : RSt I64) (f g x : Edge) (a b : MT I64) (hu : r.st.store.Unique)
    (hok : r.st.store.TermsOK I64.Valid) (hc : CacheOK i64Ops r.st.store r.st.cache)
    (hf : Denotes r.st.store f a) (hg : Denotes r.st.store g b) (hfuel : a.size + b.size ≤ fuel)
    (hx : (applyR i64Ops gt tagOf caps p op fuel r f g).1 = some x) :
    Denotes (applyR i64Ops gt tagOf caps p op fuel r f g).2.st.store x (applyBin i64Ops op a b) :=
  (applyR_correct i64_terminalClosed i64_terminalComm gt pok caps op fuel r f g x a b hu hok hc hf hg
    hfuel hx).1

/-! ## non-vacuity and negative witnesses (all on `I64`, ideal cache) -/

def exE : Env I64 := i64Env Policy.exact

theorem eq_of_fst {R : Option Edge × RSt I64} {o : Option Edge} (h : R.1 = o) : R = (o, R.2) := by
  cases R; cases h; rfl

/-- capacities: 3 inner nodes, 3 terminals -/
def c33 : Caps := ⟨some 3, some 3⟩

/-- `x0`, `x1`; `x0 + x1` under (3, 3): the terminal `2` is allocated (third terminal), the node
`(v1 #2 #1)` is allocated (third node), the next node does not fit: **OutOfMemory of the node
store** — `(v1 #2 #1)` and `#2` stay as garbage; then `const 9`: **OutOfMemory of the terminal
store**; `x0 · x1` under (4, 3): succeeds; drop it; collect. -/
def exCmds : List (Rc.Cmd I64) :=
  [.var c33 0, .var c33 1, .bin c33 10 .add 1 0, .const c33 (.num 9), .bin ⟨some 4, some 3⟩ 10 .mul 1 0,
   .drop 0, .gc 2]

def exRun (k : Nat) : HSt I64 := runAll exE (exCmds.take k) ⟨RSt.empty, []⟩

/-- after the two failed operations: handles unchanged, garbage node #2 = `(v1 #2 #1)` with
counter 1, garbage terminal `2` with counter 2 (table + parent edge from the garbage node) -/
example : (exRun 4).hs = [.inner 1, .inner 0] ∧
    (exRun 4).r.st.store.nodes = #[some ⟨0, .term 0, .term 1⟩, some ⟨1, .term 0, .term 1⟩,
      some ⟨1, .term 2, .term 0⟩] ∧
    (exRun 4).r.st.store.terms = #[some (.num 1), some (.num 0), some (.num 2)] ∧
    (exRun 4).r.rc = #[2, 2, 1] ∧ (exRun 4).r.trc = #[4, 3, 2] := by decide +kernel

example : RcInv (exRun 4).r (exRun 4).hs := rc_history_empty (E := exE) Policy.exact_ok _

/-- `x0 · x1` allocates node #3 = `(v0 x1 #0)`; after `drop` and `gc`: exactly `x0`, `x1` and the
terminals `1`, `0` remain — the garbage node, the product and the terminal `2` are freed -/
example : (exRun 5).hs = [.inner 3, .inner 1, .inner 0] ∧ (exRun 7).hs = [.inner 1, .inner 0] ∧
    (exRun 7).r.st.store.nodes = #[some ⟨0, .term 0, .term 1⟩, some ⟨1, .term 0, .term 1⟩, none, none] ∧
    (exRun 7).r.st.store.terms = #[some (.num 1), some (.num 0), none] ∧
    (exRun 7).r.numInner = 2 ∧ (exRun 7).r.numTerms = 2 := by decide +kernel

/-- the hypothesis of `ord_history` / `gc_history_exact` holds for the example history -/
example : ∀ c ∈ exCmds, c.OK 2 := by
  intro c hc
  simp only [exCmds, List.mem_cons, List.mem_nil_iff, or_false] at hc
  rcases hc with rfl | rfl | rfl | rfl | rfl | rfl | rfl <;> simp [Rc.Cmd.OK]

/-- dropping everything and collecting leaves nothing: no inner node, no terminal -/
example : (runAll exE (exCmds ++ [.drop 0, .drop 0, .gc 2]) ⟨RSt.empty, []⟩).r.numInner = 0 ∧
    (runAll exE (exCmds ++ [.drop 0, .drop 0, .gc 2]) ⟨RSt.empty, []⟩).r.numTerms = 0 := by
  decide +kernel

/-- success and failure of the same operation: `x0 + x1` needs 2 new nodes and 1 new terminal -/
example : ((applyR i64Ops Edge.gtIdx tagOf ⟨some 4, some 3⟩ Policy.exact .add 10 (exRun 2).r (.inner 1) (.inner 0)).1 = some (.inner 3)) ∧
    ((applyR i64Ops Edge.gtIdx tagOf ⟨some 4, some 2⟩ Policy.exact .add 10 (exRun 2).r (.inner 1) (.inner 0)).1 = none) ∧
    ((applyR i64Ops Edge.gtIdx tagOf ⟨some 3, some 3⟩ Policy.exact .add 10 (exRun 2).r (.inner 1) (.inner 0)).1 = none) := by
  decide +kernel

/-- non-vacuity of `applyR_error_clean`: the failing run above, from a state with exact counters -/
example : RcInv (applyR i64Ops Edge.gtIdx tagOf ⟨some 4, some 2⟩ Policy.exact .add 10 (exRun 2).r (.inner 1) (.inner 0)).2 (exRun 2).hs :=
  (applyR_error_clean i64Ops Edge.gtIdx tagOf Policy.exact_ok ⟨some 4, some 2⟩ .add 10 (exRun 2).r
    (.inner 1) (.inner 0) (exRun 2).hs (rc_history_empty (E := exE) Policy.exact_ok _)
    (by decide +kernel) (by decide +kernel) (by decide +kernel)).1

/-- non-vacuity of `applyR_erase_unbounded` / `applyR_erase`: the counted bounded run and the
counter-free run agree on the example -/
example : (applyS i64Ops Edge.gtIdx tagOf Policy.exact .add 10 (exRun 2).r.st (.inner 1) (.inner 0)).2 = .inner 3 := by
  decide +kernel

/-! ### negative witness 1: a terminal leaked on OutOfMemory of the inner node in `reduce` -/

/-- a full node store (capacity 1) holding `x0` = `(v0 #1 #0)` with one handle; the running
`var_edge(x1)` owns the two terminals it got from `get_terminal` and is about to call
`get_or_insert(level 1, #1, #0)` -/
def exFull : RSt I64 :=
  ⟨⟨⟨#[some ⟨0, .term 0, .term 1⟩], #[some (.num 1), some (.num 0)]⟩, [], 0⟩, #[2], #[3, 3]⟩

example : rcCheck exFull [.term 0, .term 1, .inner 0] = true := by decide +kernel

/-- the real `add_node` drops the children of the rejected node: exact counters after the error -/
example : (mkNodeR (some 1) exFull 1 (.term 0) (.term 1)).1 = none ∧
    rcCheck (mkNodeR (some 1) exFull 1 (.term 0) (.term 1)).2 [.inner 0] = true := by decide +kernel

/-- **`leak_violates_rcinv`.** With `add_node` returning the error *without* dropping the
children (`mkNodeLeak`), the invariant is violated after the failed `reduce`: the terminals keep a
reference nobody owns — and they survive every later collection although no handle is left. -/
theorem leak_violates_rcinv :
    (mkNodeLeak (some 1) exFull 1 (.term 0) (.term 1)).1 = none ∧
    ¬ RcInv (mkNodeLeak (some 1) exFull 1 (.term 0) (.term 1)).2 [.inner 0] ∧
    (gcR 2 (dropEdge (mkNodeLeak (some 1) exFull 1 (.term 0) (.term 1)).2 (.inner 0))).numTerms = 2 ∧
    (gcR 2 (dropEdge (mkNodeR (some 1) exFull 1 (.term 0) (.term 1)).2 (.inner 0))).numTerms = 0 := by
  refine ⟨by decide +kernel, fun h => ?_, by decide +kernel, by decide +kernel⟩
  have := rcCheck_of_inv h
  revert this
  decide +kernel

/-! ### negative witness 2: `get_edge` not retaining on a hit -/

/-- the constant `5` with one handle -/
def exConst : RSt I64 := ⟨⟨⟨#[], #[some (.num 5)]⟩, [], 0⟩, #[], #[2]⟩

/-- **`noretain_violates_rcinv`.** If a hit in the terminal table returns the edge without
`retain`, a second handle to the constant is not counted: the invariant fails, and dropping one of
the two handles lets the sweep free a terminal that is still referenced. The real `get_edge`
keeps it. -/
theorem noretain_violates_rcinv :
    (getTerminalNoRetain none exConst (.num 5)).1 = some (.term 0) ∧
    ¬ RcInv (getTerminalNoRetain none exConst (.num 5)).2 [.term 0, .term 0] ∧
    (gcR 0 (dropEdge (getTerminalNoRetain none exConst (.num 5)).2 (.term 0))).numTerms = 0 ∧
    (gcR 0 (dropEdge (getTerminalR none exConst (.num 5)).2 (.term 0))).numTerms = 1 := by
  refine ⟨by decide +kernel, fun h => ?_, by decide +kernel, by decide +kernel⟩
  have := rcCheck_of_inv h
  revert this
  decide +kernel

/-! ### negative witness 3: the order of the sweeps -/

/-- `x0` created and dropped: one dead node holding the terminals `1` and `0` -/
def exDead : RSt I64 := (runAll exE [.var c33 0, .drop 0] ⟨RSt.empty, []⟩).r

theorem exDead_inv : RcInv exDead [] := by
  have := rc_history_empty (E := exE) Policy.exact_ok [.var c33 0, .drop 0]
  have e : (runAll exE [.var c33 0, .drop 0] ⟨RSt.empty, []⟩).hs = [] := by decide +kernel
  rw [e] at this
  exact this

/-- **`terms_first_leaves_garbage`.** The terminal sweep has to come *after* the inner levels:
the inner nodes release their terminal children only when they are freed. Sweeping the terminals
first leaves both terminals of the dead node stored (counter 2 at the time of the sweep), while
`Manager::gc`'s order frees everything. -/
theorem terms_first_leaves_garbage :
    RcInv exDead [] ∧ exDead.numInner = 1 ∧ exDead.numTerms = 2 ∧
    (gcR 1 exDead).numInner = 0 ∧ (gcR 1 exDead).numTerms = 0 ∧
    (gcTermsFirst 1 exDead).numInner = 0 ∧ (gcTermsFirst 1 exDead).numTerms = 2 :=
  ⟨exDead_inv, by decide +kernel, by decide +kernel, by decide +kernel, by decide +kernel,
    by decide +kernel, by decide +kernel⟩

/-- a constant created and dropped: no inner node at all, one dead terminal -/
def exConstDead : RSt I64 := (runAll exE [.const c33 (.num 7), .drop 0] ⟨RSt.empty, []⟩).r

/-- **`skip_terms_leaves_garbage`.** Skipping the terminal sweep when no inner node was collected
(the seeded class "gc skips the terminal sweep when no inner node died") leaves the dead terminal. -/
theorem skip_terms_leaves_garbage :
    exConstDead.numInner = 0 ∧ exConstDead.numTerms = 1 ∧
    (gcR 1 exConstDead).numTerms = 0 ∧ (gcSkipTerms 1 exConstDead).numTerms = 1 := by
  decide +kernel

/-- non-vacuity of `gcR_exact` / `all_dropped_empty`: their hypotheses hold for `exDead` -/
example : (gcR 1 exDead).numInner = 0 ∧ (gcR 1 exDead).numTerms = 0 :=
  all_dropped_empty 1 exDead exDead_inv (ordered_of_orderedB (by decide +kernel)) (by
    intro i n hi
    have hlt : i < 1 := by
      have : exDead.st.store.nodes.size = 1 := by decide +kernel
      have := slots_get?_lt hi
      omega
    have hi0 : i = 0 := by omega
    subst hi0
    have : exDead.st.store.get? 0 = some ⟨0, .term 0, .term 1⟩ := by decide +kernel
    rw [this] at hi
    cases hi
    decide)

end OxiddModel.Mtbdd.C05R
