import OxiddModel.Mtbdd.RThreadsM

/-!
# C07 for MTBDD with reference counters: the counters are exact after every schedule

The machine of `Mtbdd/RThreadsM.lean` (the interleaving machine of `Mtbdd/ThreadsM.lean` on the
counted state `Rc.RSt` — one counter per inner-node slot and one per terminal slot —, every
`clone_edge` / `get_terminal` / `reduce` of the code as part of the atomic action in which it
happens) run on a list of operations:

* `counted_run_erases` — forgetting the counters, every run of the counted machine is the run of
  the plain machine under the same schedule; hence every theorem of `PropertiesC07TM.lean` holds
  for it verbatim;
* `counters_exact_always` — (d) after **every** schedule prefix the counter of every stored inner
  node **and of every stored terminal** is exactly `1` (its unique table) `+` the number of owned
  external edges to it (the user's handles `hs`, and the edges owned by frames of running
  operations) `+` the number of stored parent edges; no dangling edge;
* `counters_exact_at_end` — when all operations have returned, the owned edges are exactly the
  handles and one reference per result: nothing leaked, nothing released twice;
* `counters_determined` — exact counters are determined by the store and the owned edges, so they
  do not depend on the schedule;
* `result_counter_pos` — the node / terminal of every result has a counter `≥ 2`.
-/
set_option linter.unusedSectionVars false
set_option linter.unusedVariables false

namespace OxiddModel.Mtbdd.Threads
open OxiddModel.Mtbdd OxiddModel.Mtbdd.MT OxiddModel.Mtbdd.Refine OxiddModel.Mtbdd.Rc
open OxiddModel.CachePolicy OxiddModel

variable {T : Type} [DecidableEq T]

structure RCfg (T : Type) where
  r : RSt T
  tasks : List Task

/-- forget the counters -/
def RCfg.erase (c : RCfg T) : Cfg T := ⟨c.r.st, c.tasks⟩

/-- one step of the counted machine -/
def RCfg.step (L : TermOps T) (gt : Edge → Edge → Bool) (tg : Op → OpTag) (p : APolicy)
    (c : RCfg T) (i : Nat) : RCfg T :=
  match c.tasks[i]? with
  | none => c
  | some t =>
    match t.ret? with
    | some _ => c
    | none =>
      let o := t.rstep L gt tg p c.r
      ⟨o.1, c.tasks.set i o.2⟩

def RCfg.run (L : TermOps T) (gt : Edge → Edge → Bool) (tg : Op → OpTag) (p : APolicy)
    (c : RCfg T) : List Nat → RCfg T
  | [] => c
  | i :: is => (c.step L gt tg p i).run L gt tg p is

def RCfg.init (r : RSt T) (jobs : List Call) : RCfg T := ⟨r, jobs.map Task.call⟩

/-- everything the running operations own -/
def RCfg.owned (c : RCfg T) : List Edge := c.tasks.flatMap Task.owned

theorem RCfg.step_erase (L : TermOps T) (gt : Edge → Edge → Bool) (tg : Op → OpTag)
    (p : APolicy) (c : RCfg T) (i : Nat) :
    (c.step L gt tg p i).erase = c.erase.step L gt tg p i := by
  unfold RCfg.step Cfg.step RCfg.erase
  simp only
  cases c.tasks[i]? with
  | none => rfl
  | some t =>
    simp only
    cases t.ret? with
    | some _ => rfl
    | none =>
      simp only
      obtain ⟨h1, h2⟩ := Task.rstep_erase L gt tg p c.r t
      rw [h1, h2]

theorem RCfg.run_erase (L : TermOps T) (gt : Edge → Edge → Bool) (tg : Op → OpTag)
    (p : APolicy) (sched : List Nat) : ∀ (c : RCfg T),
    (c.run L gt tg p sched).erase = c.erase.run L gt tg p sched := by
  induction sched with
  | nil => intro c; rfl
  | cons s ss ih => intro c; simp only [RCfg.run, Cfg.run]; rw [ih, RCfg.step_erase]

theorem flatMap_set_rc {r r' : RSt T} {t t' : Task} : ∀ (ts : List Task) (i : Nat)
    (ext : List Edge), ts[i]? = some t →
    (∀ ext', RcInv r (t.owned ++ ext') → RcInv r' (t'.owned ++ ext')) →
    RcInv r (ts.flatMap Task.owned ++ ext) → RcInv r' ((ts.set i t').flatMap Task.owned ++ ext) := by
  intro ts
  induction ts with
  | nil => intro i ext hi; simp at hi
  | cons t0 ts ih =>
    intro i ext hi hstep hrc
    cases i with
    | zero =>
      simp at hi; subst hi
      simp only [List.set_cons_zero, List.flatMap_cons, List.append_assoc] at hrc ⊢
      exact hstep _ hrc
    | succ i =>
      simp at hi
      simp only [List.set_cons_succ, List.flatMap_cons, List.append_assoc] at hrc ⊢
      have h1 : RcInv r (ts.flatMap Task.owned ++ (t0.owned ++ ext)) := by
        refine rcInv_perm hrc ?_
        rw [← List.append_assoc, ← List.append_assoc]
        exact List.Perm.append_right _ List.perm_append_comm
      refine rcInv_perm (ih i (t0.owned ++ ext) hi hstep h1) ?_
      rw [← List.append_assoc, ← List.append_assoc]
      exact List.Perm.append_right _ List.perm_append_comm

/-- the joint invariant of the counted machine -/
structure RGood (L : TermOps T) (ok : T → Prop) (s0 : Store T) (hs : List Edge) (c : RCfg T)
    (Rs : List (MT T)) (N : Nat) : Prop where
  good : GoodFrom L ok s0 c.erase Rs N
  rc : RcInv c.r (c.owned ++ hs)

theorem RCfg.step_good {L : TermOps T} {ok : T → Prop} (C : TerminalClosed L ok)
    (M : TerminalComm L ok) (gt : Edge → Edge → Bool) {p : APolicy} (pok : p.OK) {s0 : Store T}
    {hs : List Edge} {c : RCfg T} {Rs : List (MT T)} {N : Nat} (h : RGood L ok s0 hs c Rs N)
    (i : Nat) : ∃ N', RGood L ok s0 hs (c.step L gt tagOf p i) Rs N' ∧ N' ≤ N := by
  obtain ⟨N', hg, hle, _⟩ := Cfg.step_good C M gt pok h.good i
  rw [← RCfg.step_erase] at hg
  refine ⟨N', ⟨hg, ?_⟩, hle⟩
  unfold RCfg.step
  cases hi : c.tasks[i]? with
  | none => exact h.rc
  | some t =>
    simp only
    cases hr : t.ret? with
    | some _ => exact h.rc
    | none =>
      simp only
      have hi' : c.erase.tasks[i]? = some t := hi
      obtain ⟨R, n, _, hok⟩ := h.good.tasks.get hi'
      exact flatMap_set_rc c.tasks i hs hi
        (fun ext' => Task.rstep_rc gt pok hok ext' hr) h.rc

theorem RCfg.run_good {L : TermOps T} {ok : T → Prop} (C : TerminalClosed L ok)
    (M : TerminalComm L ok) (gt : Edge → Edge → Bool) {p : APolicy} (pok : p.OK) {s0 : Store T}
    {hs : List Edge} {Rs : List (MT T)} (sched : List Nat) : ∀ {c : RCfg T} {N : Nat},
    RGood L ok s0 hs c Rs N → ∃ N', RGood L ok s0 hs (c.run L gt tagOf p sched) Rs N' := by
  induction sched with
  | nil => intro c N h; exact ⟨N, h⟩
  | cons s ss ih =>
    intro c N h
    obtain ⟨N1, h1, _⟩ := RCfg.step_good C M gt pok h s
    exact ih h1

theorem init_owned (r : RSt T) (jobs : List Call) : (RCfg.init r jobs).owned = [] := by
  unfold RCfg.init RCfg.owned
  induction jobs with
  | nil => rfl
  | cons j js ih =>
    simp only [List.map_cons, List.flatMap_cons]
    rw [ih]; rfl

/-! ## headline theorems -/

/-- **Erasure**: the counted machine, with the counters forgotten, is the machine of
`ThreadsM.lean` — under every schedule. -/
theorem counted_run_erases (L : TermOps T) (gt : Edge → Edge → Bool) (p : APolicy) (r : RSt T)
    (jobs : List Call) (sched : List Nat) :
    ((RCfg.init r jobs).run L gt tagOf p sched).erase =
      (Cfg.init r.st jobs).run L gt tagOf p sched :=
  RCfg.run_erase L gt tagOf p sched _

/-- **(d) The counters are exact after every schedule.** From a counted state with exact counters
for the externally owned edges `hs` (the user's handles: `RcInv r hs`), the store invariant, and
operations whose operands denote trees: after *any* schedule prefix, for every stored inner node
and every stored terminal `rc = 1 + (owned external edges to it) + (stored parent edges to it)`,
where the owned external edges are `hs` and the edges owned by the frames of the running
operations (`RCfg.owned`); every owned edge, every child of a stored node and every cached result
points to a stored node / terminal. -/
theorem counters_exact_always {L : TermOps T} {ok : T → Prop} (C : TerminalClosed L ok)
    (M : TerminalComm L ok) (gt : Edge → Edge → Bool) {p : APolicy} (pok : p.OK) (r : RSt T)
    (hs : List Edge) (jobs : List Call) (hinv : Inv L ok r.st) (hrc : RcInv r hs)
    (hops : OperandsOK r.st.store jobs) (sched : List Nat) :
    RcInv ((RCfg.init r jobs).run L gt tagOf p sched).r
      (((RCfg.init r jobs).run L gt tagOf p sched).owned ++ hs) := by
  obtain ⟨Rs, N, hj⟩ := jobsOK_of_operands L hops
  have h0 : RGood L ok r.st.store hs (RCfg.init r jobs) Rs N :=
    ⟨init_good hinv hj, by rw [init_owned]; exact hrc⟩
  obtain ⟨N', hg⟩ := RCfg.run_good C M gt pok sched h0
  exact hg.rc

theorem owned_of_done : ∀ (ts : List Task), ts.all (fun t => t.ret?.isSome) = true →
    ∃ rs, ts = rs.map Task.ret ∧ ts.flatMap Task.owned = rs := by
  intro ts
  induction ts with
  | nil => intro _; exact ⟨[], rfl, rfl⟩
  | cons t ts ih =>
    intro h
    simp only [List.all_cons, Bool.and_eq_true] at h
    obtain ⟨rs, h1, h2⟩ := ih h.2
    cases hr : t.ret? with
    | none => simp [hr] at h
    | some x =>
      have := ret?_some hr
      subst this
      exact ⟨x :: rs, by simp [h1], by simp [Task.owned, h2]⟩

/-- **No leak, no double release.** When the schedule has finished all operations, the tasks are
`ret r_0, …, ret r_k` and the counters are exact for exactly one owned reference per result plus
`hs`: every temporary (`EdgeDropGuard`s, rejected nodes' children, terminals created on the way)
has been released exactly once, whatever the interleaving was. -/
theorem counters_exact_at_end {L : TermOps T} {ok : T → Prop} (C : TerminalClosed L ok)
    (M : TerminalComm L ok) (gt : Edge → Edge → Bool) {p : APolicy} (pok : p.OK) (r : RSt T)
    (hs : List Edge) (jobs : List Call) (hinv : Inv L ok r.st) (hrc : RcInv r hs)
    (hops : OperandsOK r.st.store jobs) (sched : List Nat)
    (hdone : ((Cfg.init r.st jobs).run L gt tagOf p sched).allDone = true) :
    ∃ rs, ((RCfg.init r jobs).run L gt tagOf p sched).tasks = rs.map Task.ret ∧
      RcInv ((RCfg.init r jobs).run L gt tagOf p sched).r (rs ++ hs) := by
  have he := counted_run_erases L gt p r jobs sched
  have hd : ((RCfg.init r jobs).run L gt tagOf p sched).tasks.all (fun t => t.ret?.isSome)
      = true := by
    have : ((RCfg.init r jobs).run L gt tagOf p sched).tasks =
        ((Cfg.init r.st jobs).run L gt tagOf p sched).tasks := by rw [← he]; rfl
    rw [this]; exact hdone
  obtain ⟨rs, h1, h2⟩ := owned_of_done _ hd
  refine ⟨rs, h1, ?_⟩
  have := counters_exact_always C M gt pok r hs jobs hinv hrc hops sched
  unfold RCfg.owned at this
  rw [h2] at this
  exact this

/-- the node or terminal of every result carries at least its unique table's and the result's
reference: a collector that frees slots with `rc == 1` cannot free it -/
theorem result_counter_pos {L : TermOps T} {ok : T → Prop} (C : TerminalClosed L ok)
    (M : TerminalComm L ok) (gt : Edge → Edge → Bool) {p : APolicy} (pok : p.OK) (r : RSt T)
    (hs : List Edge) (jobs : List Call) (hinv : Inv L ok r.st) (hrc : RcInv r hs)
    (hops : OperandsOK r.st.store jobs) (sched : List Nat)
    (hdone : ((Cfg.init r.st jobs).run L gt tagOf p sched).allDone = true) (i : Nat) (x : Edge)
    (hi : ((RCfg.init r jobs).run L gt tagOf p sched).tasks[i]? = some (.ret x)) :
    2 ≤ ((RCfg.init r jobs).run L gt tagOf p sched).r.rcOf x := by
  obtain ⟨rs, h1, h2⟩ := counters_exact_at_end C M gt pok r hs jobs hinv hrc hops sched hdone
  have hm : x ∈ rs := by
    rw [h1] at hi
    rw [List.getElem?_map] at hi
    cases hx : rs[i]? with
    | none => simp [hx] at hi
    | some y =>
      simp only [hx, Option.map_some, Option.some.injEq, Task.ret.injEq] at hi
      subst hi
      exact List.mem_of_getElem? hx
  have hhas := h2.ext_ok x (List.mem_append_left _ hm)
  have he := h2.rc_eq x hhas
  have hpos : 0 < (rs ++ hs).count x := List.count_pos_iff.mpr (List.mem_append_left _ hm)
  omega

/-- **The counters are a function of the store and of who owns what.** In particular, after any
schedule the counters (of inner nodes and of terminals) are those the sequential counted model
(`Rc.applyR` / `Rc.iteR`) has whenever it reaches the same store with the same owned edges. -/
theorem counters_determined {r r' : RSt T} {ext : List Edge} (h : RcInv r ext)
    (h' : RcInv r' ext) (hs : r.st.store = r'.st.store) (x : Edge) (hx : Has r.st.store x) :
    r.rcOf x = r'.rcOf x := by
  have e1 := h.rc_eq x hx
  have e2 := h'.rc_eq x (hs ▸ hx)
  rw [← hs] at e2
  omega

/-! ## non-vacuity: the counted version of the example of `PropertiesC07TM.lean` -/

section Examples
open OxiddModel.Mtbdd.StoreLevel

theorem rcPost_some {r : RSt T} {ext : List Edge} {R : Option Edge × RSt T} {x : Edge}
    (h : RcPost r ext R) (hx : R.1 = some x) : RcInv R.2 (x :: ext) := by
  obtain ⟨o, r'⟩ := R
  simp only at hx
  subst hx
  exact h.2

theorem rcinv_empty' : RcInv (RSt.empty : RSt I64) [] where
  ext_ok _ h := by cases h
  kids_ok i n h := by simp [RSt.empty, Store.get?, Store.empty, Slots.get?] at h
  cache_ok _ _ h := by cases h
  rc_eq x h := by
    cases x with
    | term i => obtain ⟨v, hv⟩ := h; simp [RSt.empty, Store.getTerm?, Store.empty, Slots.get?] at hv
    | inner i => obtain ⟨v, hv⟩ := h; simp [RSt.empty, Store.get?, Store.empty, Slots.get?] at hv

/-- the store `exStore` built with counters by two `var_edge` calls (`Rc.varR`); the user keeps the
handles to `x1` and `x0` -/
def exA : Option Edge × RSt I64 := varR i64Ops Caps.unbounded RSt.empty 0
def exB : Option Edge × RSt I64 := varR i64Ops Caps.unbounded exA.2 1
def exR : RSt I64 := exB.2
def exHs : List Edge := [x1, x0]

theorem exR_rc : RcInv exR exHs := by
  have hA : RcInv exA.2 [x0] :=
    rcPost_some (varR_rc i64Ops Caps.unbounded RSt.empty 0 [] rcinv_empty') (by decide +kernel)
  exact rcPost_some (varR_rc i64Ops Caps.unbounded exA.2 1 [x0] hA) (by decide +kernel)

/-- it is the start state of the plain example, with counters: each variable node has `rc = 2`
(table + handle), the terminals `1` and `0` have `rc = 3` (table + two parent edges) -/
example : exR.st.store.nodes = exStore.nodes ∧ exR.st.store.terms = exStore.terms ∧
    exR.st.cache = [] ∧ exR.st.tick = 0 ∧ exR.rc = #[2, 2] ∧ exR.trc = #[3, 3] := by
  decide +kernel

theorem exR_st : exR.st = exSt := by
  have h1 : exR.st.store.nodes = exStore.nodes := by decide +kernel
  have h2 : exR.st.store.terms = exStore.terms := by decide +kernel
  have h3 : exR.st.cache = [] := by decide +kernel
  have h4 : exR.st.tick = 0 := by decide +kernel
  refine st_ext ?_ h3 h4
  show exR.st.store = exStore
  cases hs : exR.st.store with
  | mk n t =>
    cases hs' : exStore with
    | mk n' t' => rw [hs, hs'] at h1 h2; simp only at h1 h2; rw [h1, h2]

theorem exR_inv : Inv i64Ops I64.Valid exR.st := by rw [exR_st]; exact exSt_inv
theorem exR_ops : OperandsOK exR.st.store exJobs := by rw [exR_st]; exact exOps
theorem exR_done :
    ((Cfg.init exR.st exJobs).run i64Ops Edge.gtIdx tagOf exPol exSched).allDone = true := by
  rw [exR_st]; exact exDone

abbrev exRRun (sched : List Nat) : RCfg I64 :=
  (RCfg.init exR exJobs).run i64Ops Edge.gtIdx tagOf exPol sched

/-- `counters_exact_always` in the middle of the run (after 22 selections, the snapshot of
`PropertiesC07TM.lean`) -/
example := counters_exact_always i64_terminalClosed i64_terminalComm Edge.gtIdx exPol_ok exR exHs
  exJobs exR_inv exR_rc exR_ops (exSched.take 22)
/-- … where the running operations own three edges next to the two handles: thread 0 the new
terminal `2` (`t2`, fresh: `rc = 2`), thread 4 its then-result `x1` (`#1`: `rc = 3`), thread 5 its
result `x0` (`#0`: `rc = 3`) -/
example : (exRRun (exSched.take 22)).owned = [.term 2, .inner 1, .inner 0] ∧
    (exRRun (exSched.take 22)).r.rc = #[3, 3] ∧
    (exRRun (exSched.take 22)).r.trc = #[3, 3, 2] := by
  decide +kernel

/-- `counters_exact_at_end`, `result_counter_pos`: at the end the results `#5, #7, #5, #8, #4, #0`
are owned once each -/
example := counters_exact_at_end i64_terminalClosed i64_terminalComm Edge.gtIdx exPol_ok exR exHs
  exJobs exR_inv exR_rc exR_ops exSched exR_done
example : (exRRun exSched).tasks =
      [.ret (.inner 5), .ret (.inner 7), .ret (.inner 5), .ret (.inner 8), .ret (.inner 4),
       .ret (.inner 0)] ∧
    (exRRun exSched).r.rc = #[3, 5, 2, 2, 2, 3, 2, 2, 2] ∧
    (exRRun exSched).r.trc = #[6, 6, 2, 2] := by decide +kernel
/-- after 60 selections the frames own eight edges (`EdgeDropGuard`s and finished sub-results of
five operations), among them the terminal `1` (`t0`) -/
example : (exRRun (exSched.take 60)).owned =
      [.inner 2, .inner 1, .inner 3, .inner 2, .inner 1, .term 0, .inner 4, .inner 0] ∧
    (exRRun (exSched.take 60)).r.rc = #[3, 5, 3, 2, 2] ∧
    (exRRun (exSched.take 60)).r.trc = #[6, 5, 2] := by decide +kernel
example := result_counter_pos i64_terminalClosed i64_terminalComm Edge.gtIdx exPol_ok exR exHs
  exJobs exR_inv exR_rc exR_ops exSched exR_done 0 (.inner 5) (by decide +kernel)
example := counted_run_erases i64Ops Edge.gtIdx exPol exR exJobs exSched

end Examples

end OxiddModel.Mtbdd.Threads
