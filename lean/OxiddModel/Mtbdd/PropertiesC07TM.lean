import OxiddModel.Mtbdd.ThreadsMInv
import OxiddModel.Mtbdd.PropertiesS

/-!
# C07 for MTBDD: every interleaving of concurrent `apply_bin` / `apply_ite` operations ≡ sequential execution

Headline theorems about the machine of `Mtbdd/ThreadsM.lean` (tasks = resumptions of
`apply_bin::<OP>`, all six operators, and of `apply_ite` of
`crates/oxidd-rules-mtbdd/src/apply_rec.rs`; atomic
actions = **terminal find-or-insert** (`get_terminal`), cache query, `reduce` (find-or-insert of an
inner node), cache add; scheduler = arbitrary interleaving of the operations of any number of user
threads — the MTBDD crate has no parallel recursor, so an operation itself never forks). All
statements are for **every** schedule, every admissible cache policy, every edge order `gt`, every
terminal type with `TerminalClosed`/`TerminalComm` (the hypotheses of `applyS_spec`), every start
state with the MTBDD store invariant `Inv` (both tables hash consed, admissible terminals, sound
cache), all operands that denote trees.

* `Cfg.run_good` — the invariant along every schedule (from `Task.step_ok`);
* `interleaving_invariant` — (b) after any schedule prefix both tables are hash consed (`Unique`:
  no duplicate inner node, no duplicate terminal), no redundant node if there was none, the start
  store is only extended, terminals admissible, the cache is sound, every task `TaskOK`;
* `interleaving_correct` — (a) when a schedule has finished all operations, operation `i` is
  `ret r` and `r` denotes `applyBin L op a b` / `applyIte L a b c` (`interleaving_bin_correct`,
  `interleaving_ite_correct`);
* `interleaving_vs_sequential` — the comparison with the sequential store-level model `applyS` /
  `iteS` (cites `applyS_spec`, `iteS_spec`): same tree; identical edge if the result was present in the start store;
  the model re-run in the final store returns the identical edge and leaves the store alone;
* `same_function_same_edge` — canonicity across threads;
* `interleaved_inserts_agree` — (c) two `made` frames with the same key hold the same edge, equal
  to whatever the cache holds for that key;
* `enabled_schedule_bounded`, `stuck_iff_done`, `complete_schedule_exists` — termination.

`sequential_schedule_is_model` (one task alone goes through exactly `applyS`'s / `iteS`'s state and
edge) is
in `Mtbdd/ThreadsSeqM.lean`.
-/
set_option linter.unusedSectionVars false
set_option linter.unusedVariables false

namespace OxiddModel.Mtbdd.Threads
open OxiddModel.Mtbdd OxiddModel.Mtbdd.MT OxiddModel.Mtbdd.Refine OxiddModel.CachePolicy

variable {T : Type} [DecidableEq T]

/-! ## the invariant along every schedule -/

inductive TasksOK (L : TermOps T) (s : Store T) : List Task → List (MT T) → Nat → Prop
  | nil : TasksOK L s [] [] 0
  | cons {t R n ts Rs N} : TaskOK L s t R n → TasksOK L s ts Rs N →
      TasksOK L s (t :: ts) (R :: Rs) (n + N)

theorem TasksOK.mono {L : TermOps T} {s s' : Store T} (hle : s.Le s') {ts : List Task}
    {Rs : List (MT T)} {N : Nat} (h : TasksOK L s ts Rs N) : TasksOK L s' ts Rs N := by
  induction h with
  | nil => exact .nil
  | cons h _ ih => exact .cons (h.mono hle) ih

theorem TasksOK.get {L : TermOps T} {s : Store T} {ts : List Task} {Rs : List (MT T)} {N : Nat}
    (h : TasksOK L s ts Rs N) : ∀ {i : Nat} {t : Task}, ts[i]? = some t →
      ∃ R n, Rs[i]? = some R ∧ TaskOK L s t R n := by
  induction h with
  | nil => intro i t hi; simp at hi
  | @cons t' R n ts Rs N h _ ih =>
    intro i t hi
    cases i with
    | zero => simp at hi; subst hi; exact ⟨R, n, rfl, h⟩
    | succ i => simp at hi; simpa using ih hi

theorem TasksOK.get' {L : TermOps T} {s : Store T} {ts : List Task} {Rs : List (MT T)} {N : Nat}
    (h : TasksOK L s ts Rs N) : ∀ {i : Nat} {R : MT T}, Rs[i]? = some R →
      ∃ t n, ts[i]? = some t ∧ TaskOK L s t R n := by
  induction h with
  | nil => intro i t hi; simp at hi
  | @cons t' R n ts Rs N h _ ih =>
    intro i t hi
    cases i with
    | zero => simp at hi; subst hi; exact ⟨t', n, rfl, h⟩
    | succ i => simp at hi; simpa using ih hi

theorem TasksOK.set {L : TermOps T} {s s' : Store T} (hle : s.Le s') {t t' : Task}
    {ts : List Task} {Rs : List (MT T)} {N : Nat} (h : TasksOK L s ts Rs N) :
    ∀ {i : Nat}, ts[i]? = some t →
      (∀ R n, TaskOK L s t R n → ∃ n', n' < n ∧ TaskOK L s' t' R n') →
      ∃ N', N' < N ∧ TasksOK L s' (ts.set i t') Rs N' := by
  induction h with
  | nil => intro i hi; simp at hi
  | @cons t0 R n ts Rs N h htl ih =>
    intro i hi hstep
    cases i with
    | zero =>
      simp at hi; subst hi
      obtain ⟨n', hlt, hok⟩ := hstep R n h
      exact ⟨n' + N, by omega, by simpa using .cons hok (htl.mono hle)⟩
    | succ i =>
      simp at hi
      obtain ⟨N', hlt, hok⟩ := ih hi hstep
      exact ⟨n + N', by omega, by simpa using .cons (h.mono hle) hok⟩

/-- either all tasks are finished or one of them can move -/
theorem done_or_enabled (ts : List Task) :
    (ts.all (fun t => t.ret?.isSome) = true) ∨
      ∃ (i : Nat) (t : Task), ts[i]? = some t ∧ t.ret? = none := by
  induction ts with
  | nil => left; rfl
  | cons t ts ih =>
    cases hr : t.ret? with
    | none => right; exact ⟨0, t, rfl, hr⟩
    | some r =>
      rcases ih with h | ⟨i, t', hi, ht'⟩
      · left; simp [hr, h]
      · right; exact ⟨i + 1, t', by simpa using hi, ht'⟩

structure GoodFrom (L : TermOps T) (ok : T → Prop) (s0 : Store T) (c : Cfg T) (Rs : List (MT T))
    (N : Nat) : Prop where
  inv : Inv L ok c.st
  le : s0.Le c.st.store
  nored : s0.NoRed → c.st.store.NoRed
  tasks : TasksOK L c.st.store c.tasks Rs N

theorem Cfg.step_of_not_enabled {L : TermOps T} {gt : Edge → Edge → Bool} {tg : Op → OpTag}
    {p : APolicy} {c : Cfg T} {i : Nat} (h : c.enabled i = false) : c.step L gt tg p i = c := by
  unfold Cfg.enabled at h
  unfold Cfg.step
  split
  · rfl
  · rename_i t ht
    simp only [ht] at h
    cases hr : t.ret? with
    | none => simp [hr] at h
    | some r => rfl

theorem Cfg.step_good {L : TermOps T} {ok : T → Prop} (C : TerminalClosed L ok)
    (M : TerminalComm L ok) (gt : Edge → Edge → Bool) {p : APolicy} (pok : p.OK) {s0 : Store T}
    {c : Cfg T} {Rs : List (MT T)} {N : Nat} (h : GoodFrom L ok s0 c Rs N) (i : Nat) :
    ∃ N', GoodFrom L ok s0 (c.step L gt tagOf p i) Rs N' ∧ N' ≤ N ∧
      (c.enabled i = true → N' < N) := by
  cases he : c.enabled i with
  | false => rw [Cfg.step_of_not_enabled he]; exact ⟨N, h, Nat.le_refl _, fun h => by cases h⟩
  | true =>
    unfold Cfg.enabled at he
    unfold Cfg.step
    split
    · rename_i hi; simp [hi] at he
    · rename_i t hi
      simp only [hi] at he
      cases hr : t.ret? with
      | some r => simp [hr] at he
      | none =>
        simp only
        obtain ⟨R, n, _, hok⟩ := h.tasks.get hi
        have hst := (Task.step_ok C M gt pok h.inv hok hr).1
        obtain ⟨N', hlt, htasks⟩ := h.tasks.set hst.le (t' := (t.step L gt tagOf p c.st).2) hi
          (fun R n hR => (Task.step_ok C M gt pok h.inv hR hr).2)
        exact ⟨N', ⟨hst.inv, h.le.trans hst.le, fun hr0 => hst.nored (h.nored hr0), htasks⟩,
          by omega, fun _ => hlt⟩

/-- **every schedule keeps the invariant**; a schedule of enabled selections uses up the bound -/
theorem Cfg.run_good {L : TermOps T} {ok : T → Prop} (C : TerminalClosed L ok)
    (M : TerminalComm L ok) (gt : Edge → Edge → Bool) {p : APolicy} (pok : p.OK) {s0 : Store T}
    {Rs : List (MT T)} (sched : List Nat) :
    ∀ {c : Cfg T} {N : Nat}, GoodFrom L ok s0 c Rs N →
    ∃ N', GoodFrom L ok s0 (c.run L gt tagOf p sched) Rs N' ∧ N' ≤ N ∧
      (c.allEnabled L gt tagOf p sched = true → sched.length + N' ≤ N) := by
  induction sched with
  | nil => intro c N h; exact ⟨N, h, Nat.le_refl _, fun _ => by simp⟩
  | cons sel ss ih =>
    intro c N h
    obtain ⟨N1, h1, hle1, hlt1⟩ := Cfg.step_good C M gt pok h sel
    obtain ⟨N2, h2, hle2, hlen2⟩ := ih h1
    refine ⟨N2, h2, by omega, fun hen => ?_⟩
    simp only [Cfg.allEnabled, Bool.and_eq_true] at hen
    have := hlt1 hen.1
    have := hlen2 hen.2
    simp only [List.length_cons]
    omega

theorem Cfg.step_length (L : TermOps T) (gt : Edge → Edge → Bool) (tg : Op → OpTag)
    (p : APolicy) (c : Cfg T) (i : Nat) : (c.step L gt tg p i).tasks.length = c.tasks.length := by
  unfold Cfg.step
  split
  · rfl
  · split
    · rfl
    · simp

theorem Cfg.run_length (L : TermOps T) (gt : Edge → Edge → Bool) (tg : Op → OpTag)
    (p : APolicy) (sched : List Nat) : ∀ (c : Cfg T),
    (c.run L gt tg p sched).tasks.length = c.tasks.length := by
  induction sched with
  | nil => intro c; rfl
  | cons s ss ih => intro c; simp only [Cfg.run]; rw [ih, Cfg.step_length]

theorem Cfg.complete_exists {L : TermOps T} {ok : T → Prop} (C : TerminalClosed L ok)
    (M : TerminalComm L ok) (gt : Edge → Edge → Bool) {p : APolicy} (pok : p.OK) {s0 : Store T}
    {Rs : List (MT T)} : ∀ (N : Nat) {c : Cfg T}, GoodFrom L ok s0 c Rs N →
      ∃ sched, c.allEnabled L gt tagOf p sched = true ∧
        (c.run L gt tagOf p sched).allDone = true := by
  intro N
  induction N using Nat.strongRecOn with
  | _ N ih =>
    intro c h
    rcases done_or_enabled c.tasks with hd | ⟨i, t, hi, hr⟩
    · exact ⟨[], rfl, hd⟩
    · have hen : c.enabled i = true := by simp [Cfg.enabled, hi, hr]
      obtain ⟨N1, h1, _, hlt⟩ := Cfg.step_good C M gt (p := p) pok h i
      obtain ⟨ss, hen', hdone⟩ := ih N1 (hlt hen) h1
      exact ⟨i :: ss, by simp [Cfg.allEnabled, hen, hen'], hdone⟩

theorem Cfg.allDone_iff_none_enabled (c : Cfg T) :
    c.allDone = true ↔ ∀ i, c.enabled i = false := by
  constructor
  · intro h i
    unfold Cfg.enabled
    split
    · rename_i t ht
      have := List.all_eq_true.mp h t (List.mem_of_getElem? ht)
      cases hr : t.ret? with
      | none => simp [hr] at this
      | some r => rfl
    · rfl
  · intro h
    apply List.all_eq_true.mpr
    intro t ht
    obtain ⟨i, hi, hget⟩ := List.getElem_of_mem ht
    have := h i
    have hi' : c.tasks[i]? = some t := by rw [List.getElem?_eq_getElem hi, hget]
    simp only [Cfg.enabled, hi'] at this
    cases hr : t.ret? with
    | none => simp [hr] at this
    | some r => rfl

theorem KeyOK.functional {L : TermOps T} {s : Store T} {key : Key} {R R' : MT T}
    (h : KeyOK L s key R) (h' : KeyOK L s key R') : R = R' := by
  obtain ⟨ts, h1, h2⟩ := h
  obtain ⟨ts', h1', h2'⟩ := h'
  have := DenotesL.functional h1 h1'
  subst this
  rw [h2] at h2'; cases h2'; rfl

theorem TaskOK.mades_ok {L : TermOps T} {s : Store T} {t : Task} {R : MT T} {n : Nat}
    (h : TaskOK L s t R n) :
    ∀ key r, (key, r) ∈ t.mades → ∃ R', KeyOK L s key R' ∧ Denotes s r R' := by
  induction h with
  | ret => intro _ _ hm; simp [Task.mades] at hm
  | call => intro _ _ hm; simp [Task.mades] at hm
  | miss => intro _ _ hm; simp [Task.mades] at hm
  | seq1 _ _ _ _ _ ih => intro key r hm; exact ih key r hm
  | seq0 _ _ _ _ _ ih => intro key r hm; exact ih key r hm
  | @made key' r' R n hk hr _ =>
    intro key r hm
    simp only [Task.mades, List.mem_singleton, Prod.mk.injEq] at hm
    obtain ⟨rfl, rfl⟩ := hm
    exact ⟨R, hk, hr⟩

/-! ## jobs -/

/-- all operations at their entry, on one shared state; a job is a top-level call
`apply_bin::<op>(f, g)` or `apply_ite(f, g, h)` of one user thread -/
def Cfg.init (st : St T) (jobs : List Call) : Cfg T := ⟨st, jobs.map Task.call⟩

def Call.operands : Call → List Edge
  | .bin _ f g => [f, g]
  | .ite f g h => [f, g, h]

/-- the tree-level (sequential, cache-free) result for operand trees `ts` -/
def Call.result (L : TermOps T) : Call → List (MT T) → Option (MT T)
  | .bin op _ _, [a, b] => some (applyBin L op a b)
  | .ite _ _ _, [a, b, c] => some (applyIte L a b c)
  | _, _ => none

/-- the sequential store-level model of the operation: `applyS` / `iteS` -/
def Call.seq (L : TermOps T) (gt : Edge → Edge → Bool) (p : APolicy) (fuel : Nat) (st : St T) :
    Call → St T × Edge
  | .bin op f g => applyS L gt tagOf p op fuel st f g
  | .ite f g h => iteS L p fuel st f g h

def sizeSum (ts : List (MT T)) : Nat := (ts.map MT.size).sum

theorem denotesL_two_inv {s : Store T} {f g : Edge} {ts : List (MT T)}
    (h : DenotesL s [f, g] ts) : ∃ a b, ts = [a, b] ∧ Denotes s f a ∧ Denotes s g b := by
  cases h with
  | cons ha h1 =>
    cases h1 with
    | cons hb h2 => cases h2; exact ⟨_, _, rfl, ha, hb⟩

theorem denotesL_three_inv {s : Store T} {f g h : Edge} {ts : List (MT T)}
    (hd : DenotesL s [f, g, h] ts) :
    ∃ a b c, ts = [a, b, c] ∧ Denotes s f a ∧ Denotes s g b ∧ Denotes s h c := by
  cases hd with
  | cons ha h1 =>
    cases h1 with
    | cons hb h2 =>
      cases h2 with
      | cons hc h3 => cases h3; exact ⟨_, _, _, rfl, ha, hb, hc⟩

theorem job_ok {L : TermOps T} {s : Store T} {j : Call} {ts : List (MT T)} {R : MT T}
    (hts : DenotesL s j.operands ts) (hR : j.result L ts = some R) :
    TaskOK L s (.call j) R (W (sizeSum ts)) := by
  cases j with
  | bin op f g =>
    obtain ⟨a, b, rfl, ha, hb⟩ := denotesL_two_inv hts
    simp only [Call.result, Option.some.injEq] at hR
    subst hR
    exact .call (k := a.size + b.size) ⟨a, b, ha, hb, rfl, Nat.le_refl _⟩ (by simp [sizeSum])
  | ite f g h =>
    obtain ⟨a, b, c, rfl, ha, hb, hc⟩ := denotesL_three_inv hts
    simp only [Call.result, Option.some.injEq] at hR
    subst hR
    refine .call (k := a.size + b.size + c.size) ⟨_, _, _, ha, hb, hc, rfl, Nat.le_refl _⟩ ?_
    have : sizeSum [a, b, c] = a.size + b.size + c.size := by simp [sizeSum]; omega
    rw [this]; exact Nat.le_refl _

/-- the sequential model satisfies the common postcondition `Post` (`applyS_spec`, `iteS_spec`) -/
theorem Call.seq_spec {L : TermOps T} {ok : T → Prop} (C : TerminalClosed L ok)
    (M : TerminalComm L ok) (gt : Edge → Edge → Bool) {p : APolicy} (pok : p.OK) {st : St T}
    (hinv : Inv L ok st) {j : Call} {ts : List (MT T)} {R : MT T}
    (hts : DenotesL st.store j.operands ts) (hR : j.result L ts = some R) (fuel : Nat)
    (hfuel : sizeSum ts ≤ fuel) : Post L ok st.store R (j.seq L gt p fuel st) := by
  cases j with
  | bin op f g =>
    obtain ⟨a, b, rfl, ha, hb⟩ := denotesL_two_inv hts
    simp only [Call.result, Option.some.injEq] at hR
    subst hR
    exact applyS_spec C M gt pok op fuel st f g a b hinv ha hb (by simp [sizeSum] at hfuel; omega)
  | ite f g h =>
    obtain ⟨a, b, c, rfl, ha, hb, hc⟩ := denotesL_three_inv hts
    simp only [Call.result, Option.some.injEq] at hR
    subst hR
    exact iteS_spec pok fuel st f g h a b c hinv ha hb hc (by simp [sizeSum] at hfuel; omega)

/-- the operands of all jobs denote trees; `Rs` are the tree-level results, `N` the step bound -/
inductive JobsOK (L : TermOps T) (s : Store T) : List Call → List (MT T) → Nat → Prop
  | nil : JobsOK L s [] [] 0
  | cons {j ts R js Rs N} : DenotesL s j.operands ts → j.result L ts = some R →
      JobsOK L s js Rs N → JobsOK L s (j :: js) (R :: Rs) (W (sizeSum ts) + N)

theorem JobsOK.tasks {L : TermOps T} {s : Store T} {js : List Call} {Rs : List (MT T)} {N : Nat}
    (h : JobsOK L s js Rs N) : TasksOK L s (js.map Task.call) Rs N := by
  induction h with
  | nil => exact .nil
  | cons hts hR _ ih => exact .cons (job_ok hts hR) ih

theorem JobsOK.get {L : TermOps T} {s : Store T} {js : List Call} {Rs : List (MT T)} {N : Nat}
    (h : JobsOK L s js Rs N) : ∀ {i : Nat} {j : Call}, js[i]? = some j →
      ∃ ts R, DenotesL s j.operands ts ∧ j.result L ts = some R ∧ Rs[i]? = some R := by
  induction h with
  | nil => intro i j hi; simp at hi
  | @cons j' ts R js Rs N hts hR _ ih =>
    intro i j hi
    cases i with
    | zero => simp at hi; subst hi; exact ⟨ts, R, hts, hR, rfl⟩
    | succ i => simp at hi; simpa using ih hi

/-- the hypothesis "all operands denote trees" -/
def OperandsOK (s : Store T) (jobs : List Call) : Prop :=
  ∀ j, j ∈ jobs → ∃ ts, DenotesL s j.operands ts

theorem result_some (L : TermOps T) {s : Store T} {j : Call} {ts : List (MT T)}
    (h : DenotesL s j.operands ts) : ∃ R, j.result L ts = some R := by
  cases j with
  | bin op f g => obtain ⟨a, b, rfl, _, _⟩ := denotesL_two_inv h; exact ⟨_, rfl⟩
  | ite f g h' => obtain ⟨a, b, c, rfl, _, _, _⟩ := denotesL_three_inv h; exact ⟨_, rfl⟩

theorem jobsOK_of_operands (L : TermOps T) {s : Store T} : ∀ {jobs : List Call},
    OperandsOK s jobs → ∃ Rs N, JobsOK L s jobs Rs N := by
  intro jobs
  induction jobs with
  | nil => intro _; exact ⟨[], 0, .nil⟩
  | cons j js ih =>
    intro h
    obtain ⟨ts, hts⟩ := h j (List.mem_cons_self ..)
    obtain ⟨R, hR⟩ := result_some L hts
    obtain ⟨Rs, N, hjs⟩ := ih (fun j' hj' => h j' (List.mem_cons_of_mem _ hj'))
    exact ⟨_, _, .cons hts hR hjs⟩

theorem init_good {L : TermOps T} {ok : T → Prop} {st : St T} {jobs : List Call}
    {Rs : List (MT T)} {N : Nat} (hinv : Inv L ok st) (hj : JobsOK L st.store jobs Rs N) :
    GoodFrom L ok st.store (Cfg.init st jobs) Rs N :=
  ⟨hinv, Store.Le.refl _, id, hj.tasks⟩

theorem ret?_some {t : Task} {r : Edge} (h : t.ret? = some r) : t = .ret r := by
  cases t <;> simp only [Task.ret?] at h <;> cases h
  rfl

theorem GoodFrom.result {L : TermOps T} {ok : T → Prop} {s0 : Store T} {c : Cfg T}
    {Rs : List (MT T)} {N : Nat} (h : GoodFrom L ok s0 c Rs N) (hdone : c.allDone = true)
    {i : Nat} {R : MT T} (hi : Rs[i]? = some R) :
    ∃ r, c.tasks[i]? = some (.ret r) ∧ Denotes c.st.store r R := by
  obtain ⟨t, n, ht, hok⟩ := h.tasks.get' hi
  have := List.all_eq_true.mp hdone t (List.mem_of_getElem? ht)
  cases hr : t.ret? with
  | none => simp [hr] at this
  | some r =>
    have e := ret?_some hr
    subst e
    exact ⟨r, ht, hok.ret_den rfl⟩

/-! ## (b): the invariant after every schedule -/

/-- **Invariant under every interleaving.** From a state with the MTBDD store invariant and
operations whose operands denote trees, after *any* schedule (any prefix of any run): both tables
are hash consed (`Store.Unique` = no duplicate inner node **and** no duplicate terminal value), all
stored terminals are admissible, the apply cache is sound for the current store, the start store is
only extended (every node and every terminal keeps slot and content), there is no redundant node if
there was none, and every operation — finished or not — is a task computing its tree-level
result. -/
theorem interleaving_invariant {L : TermOps T} {ok : T → Prop} (C : TerminalClosed L ok)
    (M : TerminalComm L ok) (gt : Edge → Edge → Bool) {p : APolicy} (pok : p.OK) (st : St T)
    (jobs : List Call) (hinv : Inv L ok st) (hops : OperandsOK st.store jobs)
    (sched : List Nat) :
    let c := (Cfg.init st jobs).run L gt tagOf p sched
    c.st.store.Unique ∧ c.st.store.TermsOK ok ∧ CacheOK L c.st.store c.st.cache ∧
    st.store.Le c.st.store ∧ (st.store.NoRed → c.st.store.NoRed) ∧
    c.tasks.length = jobs.length ∧
    ∀ (i : Nat) (j : Call), jobs[i]? = some j → ∀ ts R, DenotesL st.store j.operands ts →
      j.result L ts = some R → ∃ t n, c.tasks[i]? = some t ∧ TaskOK L c.st.store t R n := by
  intro c
  obtain ⟨Rs, N, hj⟩ := jobsOK_of_operands L hops
  obtain ⟨N', hg, _, _⟩ := Cfg.run_good C M gt (p := p) pok sched (init_good hinv hj)
  refine ⟨hg.inv.1, hg.inv.2.1, hg.inv.2.2, hg.le, hg.nored, ?_, ?_⟩
  · show ((Cfg.init st jobs).run L gt tagOf p sched).tasks.length = _
    rw [Cfg.run_length]; simp [Cfg.init]
  · intro i j hi ts R hts hR
    obtain ⟨ts', R', hts', hR', hRi⟩ := hj.get hi
    have := DenotesL.functional hts hts'
    subst this
    rw [hR] at hR'; cases hR'
    exact hg.tasks.get' hRi

/-! ## (a): the results -/

/-- **Every complete schedule yields the sequential result.** If the schedule has finished all
operations, operation `i` is `ret r` and `r` denotes, in the final store, the result `R` of the
tree-level (sequential, cache-free) algorithm on the trees `ts` of its operands — the same tree
`applyS_spec` / `iteS_spec` give for the sequential store-level run. -/
theorem interleaving_correct {L : TermOps T} {ok : T → Prop} (C : TerminalClosed L ok)
    (M : TerminalComm L ok) (gt : Edge → Edge → Bool) {p : APolicy} (pok : p.OK) (st : St T)
    (jobs : List Call) (hinv : Inv L ok st) (hops : OperandsOK st.store jobs)
    (sched : List Nat)
    (hdone : ((Cfg.init st jobs).run L gt tagOf p sched).allDone = true)
    (i : Nat) (j : Call) (hi : jobs[i]? = some j) (ts : List (MT T)) (R : MT T)
    (hts : DenotesL st.store j.operands ts) (hR : j.result L ts = some R) :
    ∃ r, ((Cfg.init st jobs).run L gt tagOf p sched).tasks[i]? = some (.ret r) ∧
      Denotes ((Cfg.init st jobs).run L gt tagOf p sched).st.store r R := by
  obtain ⟨Rs, N, hj⟩ := jobsOK_of_operands L hops
  obtain ⟨N', hg, _, _⟩ := Cfg.run_good C M gt (p := p) pok sched (init_good hinv hj)
  obtain ⟨ts', R', hts', hR', hRi⟩ := hj.get hi
  have := DenotesL.functional hts hts'
  subst this
  rw [hR] at hR'; cases hR'
  exact hg.result hdone hRi

/-- `interleaving_correct` for `apply_bin::<op>`: the edge denotes `applyBin L op a b` -/
theorem interleaving_bin_correct {L : TermOps T} {ok : T → Prop} (C : TerminalClosed L ok)
    (M : TerminalComm L ok) (gt : Edge → Edge → Bool) {p : APolicy} (pok : p.OK) (st : St T)
    (jobs : List Call) (hinv : Inv L ok st) (hops : OperandsOK st.store jobs)
    (sched : List Nat)
    (hdone : ((Cfg.init st jobs).run L gt tagOf p sched).allDone = true)
    (i : Nat) (op : Op) (f g : Edge) (hi : jobs[i]? = some (.bin op f g)) (a b : MT T)
    (ha : Denotes st.store f a) (hb : Denotes st.store g b) :
    ∃ r, ((Cfg.init st jobs).run L gt tagOf p sched).tasks[i]? = some (.ret r) ∧
      Denotes ((Cfg.init st jobs).run L gt tagOf p sched).st.store r (applyBin L op a b) :=
  interleaving_correct C M gt pok st jobs hinv hops sched hdone i _ hi [a, b] _
    (DenotesL.two ha hb) rfl

/-- `interleaving_correct` for `apply_ite`: the edge denotes `applyIte L a b c` -/
theorem interleaving_ite_correct {L : TermOps T} {ok : T → Prop} (C : TerminalClosed L ok)
    (M : TerminalComm L ok) (gt : Edge → Edge → Bool) {p : APolicy} (pok : p.OK) (st : St T)
    (jobs : List Call) (hinv : Inv L ok st) (hops : OperandsOK st.store jobs)
    (sched : List Nat)
    (hdone : ((Cfg.init st jobs).run L gt tagOf p sched).allDone = true)
    (i : Nat) (f g h : Edge) (hi : jobs[i]? = some (.ite f g h)) (a b c : MT T)
    (ha : Denotes st.store f a) (hb : Denotes st.store g b) (hc : Denotes st.store h c) :
    ∃ r, ((Cfg.init st jobs).run L gt tagOf p sched).tasks[i]? = some (.ret r) ∧
      Denotes ((Cfg.init st jobs).run L gt tagOf p sched).st.store r (applyIte L a b c) :=
  interleaving_correct C M gt pok st jobs hinv hops sched hdone i _ hi [a, b, c] _
    (DenotesL.three ha hb hc) rfl

/-- **Interleaved execution against the sequential store-level model** `Call.seq` = `applyS` /
`iteS` (`StoreS.lean`, `IteS.lean`; `applyS_spec`, `iteS_spec`). With `S` the sequential run from
the *start* state (any admissible policy `p'`, any edge order `gt'`, enough fuel) and `r` the edge
operation `i` holds after a complete schedule:

1. `r` and `S.2` denote the same tree (hence the same function) in their respective stores;
2. if that tree was already present in the start store as edge `e`, then `r = e = S.2`;
3. if the start store has no redundant node: re-running the model in the *final* state of the
   schedule returns exactly `r` and leaves the store as it is.

(The stores themselves may differ in the slot numbers of the nodes and terminals created on the
way: slots are handed out in the order of the `reduce` / `get_terminal` actions.) -/
theorem interleaving_vs_sequential {L : TermOps T} {ok : T → Prop} (C : TerminalClosed L ok)
    (M : TerminalComm L ok) (gt : Edge → Edge → Bool) {p : APolicy} (pok : p.OK) (st : St T)
    (jobs : List Call) (hinv : Inv L ok st) (hops : OperandsOK st.store jobs)
    (sched : List Nat)
    (hdone : ((Cfg.init st jobs).run L gt tagOf p sched).allDone = true)
    (i : Nat) (j : Call) (hi : jobs[i]? = some j) (ts : List (MT T)) (R : MT T)
    (hts : DenotesL st.store j.operands ts) (hR : j.result L ts = some R)
    (gt' : Edge → Edge → Bool) {p' : APolicy} (pok' : p'.OK) (fuel : Nat)
    (hfuel : sizeSum ts ≤ fuel) :
    let fin := ((Cfg.init st jobs).run L gt tagOf p sched)
    let seq := j.seq L gt' p' fuel
    ∃ r, fin.tasks[i]? = some (.ret r) ∧
      Denotes fin.st.store r R ∧
      Denotes (seq st).1.store (seq st).2 R ∧
      (∀ e, Denotes st.store e R → r = e ∧ (seq st).2 = e) ∧
      (st.store.NoRed → (seq fin.st).2 = r ∧ (seq fin.st).1.store = fin.st.store) := by
  intro fin seq
  obtain ⟨r, hr, hden⟩ := interleaving_correct C M gt pok st jobs hinv hops sched hdone i j hi ts R
    hts hR
  obtain ⟨hu, htok, hc, hle, hnr, _, _⟩ :=
    interleaving_invariant C M gt pok st jobs hinv hops sched
  have hseq := Call.seq_spec C M gt' pok' hinv hts hR fuel hfuel
  refine ⟨r, hr, hden, hseq.den, ?_, ?_⟩
  · intro e he
    exact ⟨inj_of_unique hu _ _ _ hden (he.mono hle),
      inj_of_unique hseq.inv.1 _ _ _ hseq.den (he.mono hseq.le)⟩
  · intro hr0
    have hre := Call.seq_spec (st := fin.st) C M gt' pok' ⟨hu, htok, hc⟩ (hts.mono hle) hR fuel
      hfuel
    have hcan := hre.canon (hnr hr0)
    rw [intern_of_denotes hu (hnr hr0) hden] at hcan
    exact ⟨congrArg Prod.snd hcan, congrArg Prod.fst hcan⟩

/-- **Canonicity across threads**: two operations whose tree-level results coincide hold the *same
edge* after any complete schedule (e.g. `f + g` by one thread and `g + f` by another). -/
theorem same_function_same_edge {L : TermOps T} {ok : T → Prop} (C : TerminalClosed L ok)
    (M : TerminalComm L ok) (gt : Edge → Edge → Bool) {p : APolicy} (pok : p.OK) (st : St T)
    (jobs : List Call) (hinv : Inv L ok st) (hops : OperandsOK st.store jobs)
    (sched : List Nat)
    (hdone : ((Cfg.init st jobs).run L gt tagOf p sched).allDone = true)
    (i1 i2 : Nat) (j1 j2 : Call) (h1 : jobs[i1]? = some j1) (h2 : jobs[i2]? = some j2)
    (ts1 ts2 : List (MT T)) (R : MT T) (hts1 : DenotesL st.store j1.operands ts1)
    (hts2 : DenotesL st.store j2.operands ts2) (hR1 : j1.result L ts1 = some R)
    (hR2 : j2.result L ts2 = some R) :
    ∃ r, ((Cfg.init st jobs).run L gt tagOf p sched).tasks[i1]? = some (.ret r) ∧
      ((Cfg.init st jobs).run L gt tagOf p sched).tasks[i2]? = some (.ret r) := by
  obtain ⟨r1, hr1, hd1⟩ :=
    interleaving_correct C M gt pok st jobs hinv hops sched hdone i1 j1 h1 ts1 R hts1 hR1
  obtain ⟨r2, hr2, hd2⟩ :=
    interleaving_correct C M gt pok st jobs hinv hops sched hdone i2 j2 h2 ts2 R hts2 hR2
  obtain ⟨hu, _⟩ := interleaving_invariant C M gt pok st jobs hinv hops sched
  have := inj_of_unique hu _ _ _ hd1 hd2
  subst this
  exact ⟨r1, hr1, hr2⟩

/-! ## (c): interleaved cache inserts -/

/-- **Interleaved inserts agree.** At any moment of any schedule: if two frames (of any two
operations, possibly the same) have finished `reduce` for the same cache key and are about to
execute `apply_cache().add`, they insert the same edge; and if the cache already holds a value for
that key, it is that same edge. So the order of the inserts, and which of them survives in a lossy
cache, cannot be observed. -/
theorem interleaved_inserts_agree {L : TermOps T} {ok : T → Prop} (C : TerminalClosed L ok)
    (M : TerminalComm L ok) (gt : Edge → Edge → Bool) {p : APolicy} (pok : p.OK) (st : St T)
    (jobs : List Call) (hinv : Inv L ok st) (hops : OperandsOK st.store jobs)
    (sched : List Nat) (i1 i2 : Nat) (t1 t2 : Task)
    (h1 : ((Cfg.init st jobs).run L gt tagOf p sched).tasks[i1]? = some t1)
    (h2 : ((Cfg.init st jobs).run L gt tagOf p sched).tasks[i2]? = some t2)
    (key : Key) (r1 r2 : Edge) (hm1 : (key, r1) ∈ t1.mades) (hm2 : (key, r2) ∈ t2.mades) :
    r1 = r2 ∧ ∀ w, (key, w) ∈ ((Cfg.init st jobs).run L gt tagOf p sched).st.cache → w = r1 := by
  obtain ⟨Rs, N, hj⟩ := jobsOK_of_operands L hops
  obtain ⟨N', hg, _, _⟩ := Cfg.run_good C M gt (p := p) pok sched (init_good hinv hj)
  obtain ⟨R1, n1, _, hok1⟩ := hg.tasks.get h1
  obtain ⟨R2, n2, _, hok2⟩ := hg.tasks.get h2
  obtain ⟨U1, hk1, hd1⟩ := hok1.mades_ok key r1 hm1
  obtain ⟨U2, hk2, hd2⟩ := hok2.mades_ok key r2 hm2
  have := hk1.functional hk2
  subst this
  have hinj := inj_of_unique hg.inv.1
  refine ⟨hinj _ _ _ hd1 hd2, fun w hw => ?_⟩
  obtain ⟨ts, R, e1, e2, e3⟩ := hg.inv.2.2 key w hw
  have := hk1.functional ⟨ts, e1, e2⟩
  subst this
  exact hinj _ _ _ e3 hd1

/-! ## termination -/

/-- the explicit step bound: `W |operand trees|` per operation (`W (k+1) = 2 W k + 8`: worst case,
no cache hit at all) -/
def stepBound (sizes : List Nat) : Nat := (sizes.map W).sum

theorem JobsOK.bound {L : TermOps T} {s : Store T} {js : List Call} {Rs : List (MT T)} {N : Nat}
    (h : JobsOK L s js Rs N) : ∀ (size : Call → Nat),
      (∀ j ts, j ∈ js → DenotesL s j.operands ts → sizeSum ts ≤ size j) →
      N ≤ stepBound (js.map size) := by
  induction h with
  | nil => intro _ _; exact Nat.zero_le _
  | @cons j ts R js Rs N hts _ _ ih =>
    intro size hs
    have h1 := W_mono (hs j ts (List.mem_cons_self ..) hts)
    have h2 := ih size (fun j' ts' hj' => hs j' ts' (List.mem_cons_of_mem _ hj'))
    simp only [stepBound, List.map_cons, List.sum_cons] at h2 ⊢
    omega

/-- **Every schedule terminates**: a schedule in which every selection names a live task has at
most `stepBound` elements — a number that depends only on the sizes of the operand trees, not on
the schedule, the cache policy, the edge order or the other operations. -/
theorem enabled_schedule_bounded {L : TermOps T} {ok : T → Prop} (C : TerminalClosed L ok)
    (M : TerminalComm L ok) (gt : Edge → Edge → Bool) {p : APolicy} (pok : p.OK) (st : St T)
    (jobs : List Call) (hinv : Inv L ok st) (hops : OperandsOK st.store jobs)
    (sched : List Nat) (hen : (Cfg.init st jobs).allEnabled L gt tagOf p sched = true)
    (size : Call → Nat)
    (hsize : ∀ j ts, j ∈ jobs → DenotesL st.store j.operands ts → sizeSum ts ≤ size j) :
    sched.length ≤ stepBound (jobs.map size) := by
  obtain ⟨Rs, N, hj⟩ := jobsOK_of_operands L hops
  obtain ⟨N', _, _, hlen⟩ := Cfg.run_good C M gt (p := p) pok sched (init_good hinv hj)
  have := hlen hen
  have := hj.bound size hsize
  omega

/-- a run is stuck (no selection enabled) exactly when all operations have returned: there is no
deadlock -/
theorem stuck_iff_done (c : Cfg T) : (∀ i, c.enabled i = false) ↔ c.allDone = true :=
  (Cfg.allDone_iff_none_enabled c).symm

/-- a complete schedule exists (and by `enabled_schedule_bounded` every way of extending a
schedule by enabled selections reaches one) -/
theorem complete_schedule_exists {L : TermOps T} {ok : T → Prop} (C : TerminalClosed L ok)
    (M : TerminalComm L ok) (gt : Edge → Edge → Bool) {p : APolicy} (pok : p.OK) (st : St T)
    (jobs : List Call) (hinv : Inv L ok st) (hops : OperandsOK st.store jobs) :
    ∃ sched, (Cfg.init st jobs).allEnabled L gt tagOf p sched = true ∧
      ((Cfg.init st jobs).run L gt tagOf p sched).allDone = true := by
  obtain ⟨Rs, N, hj⟩ := jobsOK_of_operands L hops
  exact Cfg.complete_exists C M gt pok N (init_good hinv hj)

/-! ## non-vacuity: six concurrent operations on a concrete `I64` store -/

section Examples
open OxiddModel.Mtbdd.StoreLevel

/-- the start state: `exStore` of `PropertiesS.lean` (`#0 = x0`, `#1 = x1` as 0/1-valued `I64`
diagrams, terminals `1 ↦ t0`, `0 ↦ t1`), empty cache -/
def exSt : St I64 := ⟨exStore, [], 0⟩
theorem exSt_inv : Inv i64Ops I64.Valid exSt := ⟨exStore_unique, exStore_termsOK, CacheOK.nil _ _⟩

def x0 : Edge := .inner 0
def x1 : Edge := .inner 1

/-- six user threads: `x0 + x1` (creates the terminal `2`), `x0 - x1` (creates the terminal
`-1`), `x1 + x0` (same normalised cache key as thread 0), `max(x0, x1)`, `ite(x0, x1, x0)`
(recursive), `ite(1, x0, x1)` (terminal condition) -/
def exJobs : List Call :=
  [.bin .add x0 x1, .bin .sub x0 x1, .bin .add x1 x0, .bin .max x0 x1, .ite x0 x1 x0,
   .ite (.term 0) x0 x1]

theorem ex01 : DenotesL exStore [x0, x1] [exX0, exX1] := .two exStore_x0 exStore_x1
theorem ex10 : DenotesL exStore [x1, x0] [exX1, exX0] := .two exStore_x1 exStore_x0
theorem ex010 : DenotesL exStore [x0, x1, x0] [exX0, exX1, exX0] :=
  .three exStore_x0 exStore_x1 exStore_x0
theorem exT01 : DenotesL exStore [.term 0, x0, x1] [.leaf (.num 1), exX0, exX1] :=
  .three (.term (by decide +kernel)) exStore_x0 exStore_x1

theorem exOps : OperandsOK exSt.store exJobs := by
  intro j hj
  simp only [exJobs, List.mem_cons, List.mem_nil_iff, or_false] at hj
  rcases hj with h | h | h | h | h | h <;> subst h
  · exact ⟨_, ex01⟩
  · exact ⟨_, ex01⟩
  · exact ⟨_, ex10⟩
  · exact ⟨_, ex01⟩
  · exact ⟨_, ex010⟩
  · exact ⟨_, exT01⟩

/-- a lossy direct-mapped cache (one bucket per operand count) whose `try_lock` fails at every
fifth access -/
def exPol : APolicy := Policy.dm 4 (fun k => k.2.length) (fun t => t % 5 != 0)
theorem exPol_ok : exPol.OK := Policy.dm_ok _ _ _

abbrev exCfg : Cfg I64 := Cfg.init exSt exJobs
abbrev exRun (sched : List Nat) : Cfg I64 := exCfg.run i64Ops Edge.gtIdx tagOf exPol sched

/-- 30 rounds over the six threads in the order 0, 2, 1, 3, (`k % 4` once more), 4, 5: the atomic
actions of the operations are interleaved one by one -/
def exSched : List Nat := (List.range 30).flatMap fun k => [0, 2, 1, 3, k % 4, 4, 5]

/-- after 22 selections: thread 0, two frames deep, has just **created the terminal `2`** (`t2`,
by the atomic `get_terminal` inside `terminal_bin::<Add>(1, 1)`); thread 2 (`x1 + x0`) is at the
entry of the same terminal call `1 + 1` and will *find* `t2`; thread 1 is about to create `-1`;
thread 3 has missed the cache for `max(1, x1)`; thread 4 (`ite`) holds its then-result `#1`;
thread 5 has returned `x0` -/
example : (exRun (exSched.take 22)).tasks =
    [.seq1 ⟨(.add, [.inner 0, .inner 1]), 0⟩ (.bin .add (.term 1) (.inner 1))
       (.seq1 ⟨(.add, [.term 0, .inner 1]), 1⟩ (.bin .add (.term 0) (.term 1)) (.ret (.term 2))),
     .seq1 ⟨(.sub, [.inner 0, .inner 1]), 0⟩ (.bin .sub (.term 1) (.inner 1))
       (.seq1 ⟨(.sub, [.term 0, .inner 1]), 1⟩ (.bin .sub (.term 0) (.term 1))
         (.call (.bin .sub (.term 0) (.term 0)))),
     .seq1 ⟨(.add, [.inner 0, .inner 1]), 0⟩ (.bin .add (.inner 1) (.term 1))
       (.seq1 ⟨(.add, [.term 0, .inner 1]), 1⟩ (.bin .add (.term 1) (.term 0))
         (.call (.bin .add (.term 0) (.term 0)))),
     .seq1 ⟨(.max, [.inner 0, .inner 1]), 0⟩ (.bin .max (.term 1) (.inner 1))
       (.miss (.bin .max (.term 0) (.inner 1)) (.max, [.term 0, .inner 1])),
     .seq1 ⟨(.ite, [.inner 0, .inner 1, .inner 0]), 0⟩ (.ite (.term 1) (.inner 1) (.term 1))
       (.ret (.inner 1)),
     .ret (.inner 0)] ∧
    (exRun (exSched.take 22)).st.store.terms = #[some (.num 1), some (.num 0), some (.num 2)] := by
  decide +kernel

theorem exDone : (exRun exSched).allDone = true := by decide +kernel

/-- the results: `x0 + x1 = #5` for thread 0 **and** thread 2 (same edge), `x0 - x1 = #7`,
`max(x0, x1) = #8`, `ite(x0, x1, x0) = #4`, `ite(1, x0, x1) = x0 = #0`; the terminal table got
exactly the two new values `2` and `-1`, once each; seven inner nodes were created; the lossy cache
kept two entries -/
example : (exRun exSched).tasks =
      [.ret (.inner 5), .ret (.inner 7), .ret (.inner 5), .ret (.inner 8), .ret (.inner 4),
       .ret (.inner 0)] ∧
    (exRun exSched).st.store.terms =
      #[some (.num 1), some (.num 0), some (.num 2), some (.num (-1))] ∧
    (exRun exSched).st.store.nodes.size = 9 ∧
    (exRun exSched).st.cache.length = 2 := by decide +kernel

/-- `interleaving_invariant` at an intermediate configuration -/
example := interleaving_invariant i64_terminalClosed i64_terminalComm Edge.gtIdx exPol_ok exSt
  exJobs exSt_inv exOps (exSched.take 22)

/-- `interleaving_bin_correct`: thread 0's edge (`#5`) denotes `x0 + x1`, thread 1's (`#7`)
`x0 - x1` in the final store; `interleaving_ite_correct`: thread 4's (`#4`) `ite(x0, x1, x0)` -/
example := interleaving_bin_correct i64_terminalClosed i64_terminalComm Edge.gtIdx exPol_ok exSt
  exJobs exSt_inv exOps exSched exDone 0 .add x0 x1 rfl exX0 exX1 exStore_x0 exStore_x1
example := interleaving_bin_correct i64_terminalClosed i64_terminalComm Edge.gtIdx exPol_ok exSt
  exJobs exSt_inv exOps exSched exDone 1 .sub x0 x1 rfl exX0 exX1 exStore_x0 exStore_x1
example := interleaving_ite_correct i64_terminalClosed i64_terminalComm Edge.gtIdx exPol_ok exSt
  exJobs exSt_inv exOps exSched exDone 4 x0 x1 x0 rfl exX0 exX1 exX0 exStore_x0 exStore_x1
  exStore_x0

/-- `interleaving_vs_sequential` for threads 1 and 4 against the model with the exact cache and the
reversed edge order; the sequential runs from the start state return `#4` (with the terminal `-1`
in slot `t2`) and `#2` — the same trees in other slots —, the re-runs in the final state return the
machine's edges `#7` and `#4` -/
example := interleaving_vs_sequential i64_terminalClosed i64_terminalComm Edge.gtIdx exPol_ok exSt
  exJobs exSt_inv exOps exSched exDone 1 (.bin .sub x0 x1) rfl _ _ ex01 rfl
  (fun a b => Edge.gtIdx b a) Policy.exact_ok 6 (by decide)
example := interleaving_vs_sequential i64_terminalClosed i64_terminalComm Edge.gtIdx exPol_ok exSt
  exJobs exSt_inv exOps exSched exDone 4 (.ite x0 x1 x0) rfl _ _ ex010 rfl
  (fun a b => Edge.gtIdx b a) Policy.exact_ok 9 (by decide)
example : (applyS i64Ops Edge.gtIdx tagOf Policy.exact .sub 6 exSt x0 x1).2 = .inner 4 ∧
    (applyS i64Ops Edge.gtIdx tagOf Policy.exact .sub 6 exSt x0 x1).1.store.terms =
      #[some (.num 1), some (.num 0), some (.num (-1))] ∧
    (applyS i64Ops Edge.gtIdx tagOf Policy.exact .sub 6 (exRun exSched).st x0 x1).2 = .inner 7 ∧
    (iteS i64Ops Policy.exact 9 exSt x0 x1 x0).2 = .inner 2 ∧
    (iteS i64Ops Policy.exact 9 (exRun exSched).st x0 x1 x0).2 = .inner 4 := by
  decide +kernel

/-- `same_function_same_edge`: threads 0 (`x0 + x1`) and 2 (`x1 + x0`) -/
example := same_function_same_edge i64_terminalClosed i64_terminalComm Edge.gtIdx exPol_ok exSt
  exJobs exSt_inv exOps exSched exDone 0 2 (.bin .add x0 x1) (.bin .add x1 x0) rfl rfl _ _ _
  ex01 ex10 rfl
  (congrArg some (applyBin_comm i64_terminalComm .add rfl _ exX1 exX0 (Nat.le_refl _)
    (exStore_x1.all exStore_termsOK) (exStore_x0.all exStore_termsOK)))

/-- `interleaved_inserts_agree`: threads 0 and 2 in lockstep; after 16 selections both have
finished `reduce` for the sub-problem `1 + x1` (key `(Add, [t0, #1])` — thread 2 got there with
swapped operands) and both are about to insert the entry `↦ #2` -/
def exSched2 : List Nat := (List.range 40).flatMap fun _ => [0, 2]
example : (exRun (exSched2.take 16)).tasks.map Task.mades =
    [[((.add, [.term 0, .inner 1]), .inner 2)], [], [((.add, [.term 0, .inner 1]), .inner 2)], [],
     [], []] := by
  decide +kernel
def exT (i : Nat) : Task := ((exRun (exSched2.take 16)).tasks[i]?).getD (.ret x0)
example := interleaved_inserts_agree i64_terminalClosed i64_terminalComm Edge.gtIdx exPol_ok exSt
  exJobs exSt_inv exOps (exSched2.take 16) 0 2 (exT 0) (exT 2) (by decide +kernel)
  (by decide +kernel) (.add, [.term 0, .inner 1]) (.inner 2) (.inner 2) (by decide +kernel)
  (by decide +kernel)

/-- a thread running alone reaches the sequential model's state (store slot for slot, cache, time
stamp) and edge — these instances by evaluation; in general: `sequential_schedule_is_model`
(`ThreadsSeqM.lean`) -/
example :
    let c := (Cfg.init exSt [.bin .add x0 x1]).run i64Ops Edge.gtIdx tagOf exPol (List.replicate 25 0)
    let R := applyS i64Ops Edge.gtIdx tagOf exPol .add 6 exSt x0 x1
    c.tasks = [.ret R.2] ∧ c.st.store.nodes = R.1.store.nodes ∧ c.st.store.terms = R.1.store.terms ∧
    c.st.cache = R.1.cache ∧ c.st.tick = R.1.tick := by decide +kernel
example :
    let c := (Cfg.init exSt [.ite x0 x1 x0]).run i64Ops Edge.gtIdx tagOf exPol (List.replicate 12 0)
    let R := iteS i64Ops exPol 9 exSt x0 x1 x0
    c.tasks = [.ret R.2] ∧ c.st.store.nodes = R.1.store.nodes ∧ c.st.store.terms = R.1.store.terms ∧
    c.st.cache = R.1.cache ∧ c.st.tick = R.1.tick := by decide +kernel

/-- the schedule without the selections that were not enabled -/
def prune (c : Cfg I64) : List Nat → List Nat
  | [] => []
  | s :: ss =>
    if c.enabled s then s :: prune (c.step i64Ops Edge.gtIdx tagOf exPol s) ss else prune c ss
termination_by l => l.length

/-- `enabled_schedule_bounded`: the 72 enabled selections of `exSched`; the theorem bounds every
such schedule by `6 * W 9` -/
example : exCfg.allEnabled i64Ops Edge.gtIdx tagOf exPol (prune exCfg exSched) = true ∧
    (prune exCfg exSched).length = 72 := by decide +kernel
example := enabled_schedule_bounded i64_terminalClosed i64_terminalComm Edge.gtIdx exPol_ok exSt
  exJobs exSt_inv exOps (prune exCfg exSched) (by decide +kernel) (fun _ => 9) (by
    intro j ts hj hts
    simp only [exJobs, List.mem_cons, List.mem_nil_iff, or_false] at hj
    rcases hj with h | h | h | h | h | h <;> subst h
    · rw [DenotesL.functional hts ex01]; decide
    · rw [DenotesL.functional hts ex01]; decide
    · rw [DenotesL.functional hts ex10]; decide
    · rw [DenotesL.functional hts ex01]; decide
    · rw [DenotesL.functional hts ex010]; decide
    · rw [DenotesL.functional hts exT01]; decide)

example := complete_schedule_exists i64_terminalClosed i64_terminalComm Edge.gtIdx exPol_ok exSt
  exJobs exSt_inv exOps
example := (stuck_iff_done (exRun exSched)).mpr exDone

end Examples

end OxiddModel.Mtbdd.Threads
