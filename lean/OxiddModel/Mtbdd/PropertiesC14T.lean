import OxiddModel.Mtbdd.ThresholdS
import OxiddModel.Mtbdd.PropertiesC05R

/-!
# C14 for MTBDDs: the two out-of-memory thresholds of `apply_bin` and `apply_ite`, exactly

For the MTBDD algorithms on the store with counters and **two** capacities (`Mtbdd/RcS.lean`:
inner-node store and terminal store, each `none` = unbounded) — for all terminal types with
decidable equality (`I64` of the manager included), all stores, counter arrays, cache policies and
contents, operands, fuels and capacities:

* (c) `…_oom_iff_needed`: with `neededNodes` / `neededTerms` := the numbers of inner-node slots and
  terminal slots the capacity-free algorithm of `StoreS.lean` / `IteS.lean` takes from the same
  state, the capped run reports OutOfMemory **iff**
  `(0 < neededNodes ∧ nodeCap < nodes + neededNodes) ∨ (0 < neededTerms ∧ termCap < terms + neededTerms)`
  — two separate thresholds, `nodes + neededNodes` and `terms + neededTerms`
  (`…_threshold_exact`);
* (b) `…_monotone`: success under `caps` implies success under all capacities that are at least as
  large in both components, with the same result edge, store, cache and time stamp;
* (d) `…_success_is_uncapped`;
* (a) `…_failure_clean`: after a failure (of either store, anywhere) the counters of inner nodes
  and terminals are exact for the caller's unchanged references, nothing disappeared, and a
  collection leaves exactly the inner nodes and terminals reachable from the caller's references
  in the store **before** the call, with their contents.
-/
set_option linter.unusedSectionVars false

namespace OxiddModel.Mtbdd.C14T
open OxiddModel.Mtbdd OxiddModel.Mtbdd.Refine OxiddModel.Mtbdd.Rc OxiddModel.CachePolicy OxiddModel

variable {T : Type} [DecidableEq T]

/-- inner-node slots a capacity-free run started in store `s` has taken -/
def growthN (s : Store T) (S : St T × Edge) : Nat := slotCount S.1.store.nodes - slotCount s.nodes
/-- terminal slots it has taken -/
def growthT (s : Store T) (S : St T × Edge) : Nat := slotCount S.1.store.terms - slotCount s.terms

/-- inner nodes `apply_bin::<OP>` allocates from `st` when nothing stops it -/
def neededNodesApply (L : TermOps T) (gt : Edge → Edge → Bool) (tg : Op → OpTag) (p : APolicy)
    (op : Op) (fuel : Nat) (st : St T) (f g : Edge) : Nat :=
  growthN st.store (applyS L gt tg p op fuel st f g)

/-- terminals `apply_bin::<OP>` allocates -/
def neededTermsApply (L : TermOps T) (gt : Edge → Edge → Bool) (tg : Op → OpTag) (p : APolicy)
    (op : Op) (fuel : Nat) (st : St T) (f g : Edge) : Nat :=
  growthT st.store (applyS L gt tg p op fuel st f g)

/-- inner nodes `apply_ite` allocates (it never creates a terminal: `ite_needs_no_terminal`) -/
def neededNodesIte (L : TermOps T) (p : APolicy) (fuel : Nat) (st : St T) (f g h : Edge) : Nat :=
  growthN st.store (iteS L p fuel st f g h)

def neededTermsIte (L : TermOps T) (p : APolicy) (fuel : Nat) (st : St T) (f g h : Edge) : Nat :=
  growthT st.store (iteS L p fuel st f g h)

/-- the capacity is exceeded by `n` occupied slots -/
def exceeded : Option Nat → Nat → Prop
  | none, _ => False
  | some c, n => c < n

/-! ## structural part -/

theorem fitsO_iff (cap : Option Nat) (n n' : Nat) (h : n ≤ n') :
    FitsO cap n n' ↔ ¬ (0 < n' - n ∧ exceeded cap (n + (n' - n))) := by
  unfold FitsO
  cases cap with
  | none => simp [within, exceeded]
  | some c => simp only [within, exceeded]; omega

section
variable {caps : Caps} {s : Store T} {R : Option Edge × RSt T} {S : St T × Edge}

theorem thr_oom_iff (h : Thr caps s R S) (m : Grows s S.1.store) :
    R.1 = none ↔
      (0 < growthN s S ∧ exceeded caps.node (slotCount s.nodes + growthN s S)) ∨
      (0 < growthT s S ∧ exceeded caps.term (slotCount s.terms + growthT s S)) := by
  unfold Thr Fits at h
  rw [fitsO_iff _ _ _ m.1, fitsO_iff _ _ _ m.2] at h
  unfold growthN growthT
  cases hR : R.1 with
  | none =>
    rw [hR] at h
    simp only [Option.isSome_none, Bool.false_eq_true, false_iff] at h
    simp only [true_iff]
    by_cases a : 0 < slotCount S.1.store.nodes - slotCount s.nodes ∧
        exceeded caps.node (slotCount s.nodes + (slotCount S.1.store.nodes - slotCount s.nodes))
    · exact .inl a
    · exact .inr (Classical.not_not.mp fun b => h ⟨a, b⟩)
  | some e =>
    rw [hR] at h
    simp only [Option.isSome_some, true_iff] at h
    simp only [reduceCtorEq, false_iff]
    rintro (a | b)
    · exact h.1 a
    · exact h.2 b

theorem thr_ok_iff (h : Thr caps s R S) (e : Erases R S) (m : Grows s S.1.store) :
    (R.1 = some S.2 ∧ R.2.st = S.1) ↔
      ¬ ((0 < growthN s S ∧ exceeded caps.node (slotCount s.nodes + growthN s S)) ∨
         (0 < growthT s S ∧ exceeded caps.term (slotCount s.terms + growthT s S))) := by
  rw [← thr_oom_iff h m]
  constructor
  · rintro ⟨h1, _⟩ h2; rw [h1] at h2; cases h2
  · intro hn
    cases hR : R.1 with
    | none => exact absurd hR hn
    | some x =>
      have := e x hR
      rw [this]
      exact ⟨rfl, rfl⟩
end

theorem thr_monotone {caps caps' : Caps} {s : Store T} {R R' : Option Edge × RSt T}
    {S : St T × Edge} (h : Thr caps s R S) (h' : Thr caps' s R' S) (e : Erases R S)
    (e' : Erases R' S) (hn : capLe caps.node caps'.node) (ht : capLe caps.term caps'.term)
    {x : Edge} (hx : R.1 = some x) : R'.1 = some x ∧ R'.2.st = R.2.st := by
  have hf : Fits caps s S.1.store := h.mp (by rw [hx]; rfl)
  have hs' : R'.1.isSome = true := h'.mpr (hf.mono hn ht)
  obtain ⟨y, hy⟩ := Option.isSome_iff_exists.mp hs'
  have a := e x hx
  have b := e' y hy
  rw [a] at b
  simp only [Prod.mk.injEq] at b
  exact ⟨by rw [hy, b.2], b.1.symm⟩

/-! ## (c) the thresholds -/

/-- **`apply_bin::<OP>` reports OutOfMemory iff it needs an inner node the node store has no room
for, or a terminal the terminal store has no room for** — no hypothesis on the state. -/
theorem apply_oom_iff_needed (L : TermOps T) (gt : Edge → Edge → Bool) (tg : Op → OpTag)
    (caps : Caps) (p : APolicy) (op : Op) (fuel : Nat) (r : RSt T) (f g : Edge) :
    (applyR L gt tg caps p op fuel r f g).1 = none ↔
      (0 < neededNodesApply L gt tg p op fuel r.st f g ∧
        exceeded caps.node (r.numInner + neededNodesApply L gt tg p op fuel r.st f g)) ∨
      (0 < neededTermsApply L gt tg p op fuel r.st f g ∧
        exceeded caps.term (r.numTerms + neededTermsApply L gt tg p op fuel r.st f g)) :=
  thr_oom_iff (applyR_thr L gt tg caps p op fuel r f g) (applyS_grows L gt tg p op fuel r.st f g)

/-- the same for numeric capacities: **two separate thresholds** -/
theorem apply_oom_iff_needed_num (L : TermOps T) (gt : Edge → Edge → Bool) (tg : Op → OpTag)
    (cn ct : Nat) (p : APolicy) (op : Op) (fuel : Nat) (r : RSt T) (f g : Edge) :
    (applyR L gt tg ⟨some cn, some ct⟩ p op fuel r f g).1 = none ↔
      (0 < neededNodesApply L gt tg p op fuel r.st f g ∧
        cn < r.numInner + neededNodesApply L gt tg p op fuel r.st f g) ∨
      (0 < neededTermsApply L gt tg p op fuel r.st f g ∧
        ct < r.numTerms + neededTermsApply L gt tg p op fuel r.st f g) :=
  apply_oom_iff_needed L gt tg ⟨some cn, some ct⟩ p op fuel r f g

/-- **the minimal capacities are `nodes + neededNodes` and `terms + neededTerms`**: with both
reached the run succeeds with the capacity-free result; a node capacity between the current count
and `nodes + neededNodes − 1` fails whatever the terminal capacity, and symmetrically. -/
theorem apply_threshold_exact (L : TermOps T) (gt : Edge → Edge → Bool) (tg : Op → OpTag)
    (p : APolicy) (op : Op) (fuel : Nat) (r : RSt T) (f g : Edge) :
    (∀ cn ct, r.numInner + neededNodesApply L gt tg p op fuel r.st f g ≤ cn →
      r.numTerms + neededTermsApply L gt tg p op fuel r.st f g ≤ ct →
      (applyR L gt tg ⟨some cn, some ct⟩ p op fuel r f g).1 = some (applyS L gt tg p op fuel r.st f g).2 ∧
      (applyR L gt tg ⟨some cn, some ct⟩ p op fuel r f g).2.st = (applyS L gt tg p op fuel r.st f g).1) ∧
    (∀ cn ct, r.numInner ≤ cn → cn < r.numInner + neededNodesApply L gt tg p op fuel r.st f g →
      (applyR L gt tg ⟨some cn, ct⟩ p op fuel r f g).1 = none) ∧
    (∀ cn ct, r.numTerms ≤ ct → ct < r.numTerms + neededTermsApply L gt tg p op fuel r.st f g →
      (applyR L gt tg ⟨cn, some ct⟩ p op fuel r f g).1 = none) := by
  refine ⟨?_, ?_, ?_⟩
  · intro cn ct hn ht
    apply (thr_ok_iff (applyR_thr L gt tg ⟨some cn, some ct⟩ p op fuel r f g)
      (applyR_erase' L gt tg _ p op fuel r f g) (applyS_grows L gt tg p op fuel r.st f g)).mpr
    show ¬ ((0 < neededNodesApply L gt tg p op fuel r.st f g ∧
        cn < r.numInner + neededNodesApply L gt tg p op fuel r.st f g) ∨
      (0 < neededTermsApply L gt tg p op fuel r.st f g ∧
        ct < r.numTerms + neededTermsApply L gt tg p op fuel r.st f g))
    omega
  · intro cn ct hc hk
    rw [apply_oom_iff_needed]
    left
    show 0 < neededNodesApply L gt tg p op fuel r.st f g ∧
      cn < r.numInner + neededNodesApply L gt tg p op fuel r.st f g
    omega
  · intro cn ct hc hk
    rw [apply_oom_iff_needed]
    right
    show 0 < neededTermsApply L gt tg p op fuel r.st f g ∧
      ct < r.numTerms + neededTermsApply L gt tg p op fuel r.st f g
    omega

/-- `apply_ite`: OutOfMemory iff an inner node is needed that has no room (or, formally, a
terminal: it never needs one on a reachable state) -/
theorem ite_oom_iff_needed (L : TermOps T) (caps : Caps) (p : APolicy) (fuel : Nat) (r : RSt T)
    (f g h : Edge) :
    (iteR L caps p fuel r f g h).1 = none ↔
      (0 < neededNodesIte L p fuel r.st f g h ∧
        exceeded caps.node (r.numInner + neededNodesIte L p fuel r.st f g h)) ∨
      (0 < neededTermsIte L p fuel r.st f g h ∧
        exceeded caps.term (r.numTerms + neededTermsIte L p fuel r.st f g h)) :=
  thr_oom_iff (iteR_thr L caps p fuel r f g h) (iteS_grows L p fuel r.st f g h)

/-- `apply_ite` never needs a terminal: its only threshold is the node capacity -/
theorem ite_needs_no_terminal (L : TermOps T) (p : APolicy) (fuel : Nat) (st : St T)
    (f g h : Edge) : neededTermsIte L p fuel st f g h = 0 := by
  unfold neededTermsIte growthT
  rw [iteS_terms]
  exact Nat.sub_self _

/-- `apply_ite`: OutOfMemory iff `0 < neededNodes` and the node capacity is below
`nodes + neededNodes` — whatever the terminal capacity -/
theorem ite_oom_iff_nodes (L : TermOps T) (caps : Caps) (p : APolicy) (fuel : Nat) (r : RSt T)
    (f g h : Edge) :
    (iteR L caps p fuel r f g h).1 = none ↔
      (0 < neededNodesIte L p fuel r.st f g h ∧
        exceeded caps.node (r.numInner + neededNodesIte L p fuel r.st f g h)) := by
  rw [ite_oom_iff_needed, ite_needs_no_terminal]
  simp

/-- **`constant_edge` (= `get_terminal`)**: OutOfMemory iff the value is not stored and the
terminal store is full — the threshold of the terminal capacity alone is `terms + 1`; the node
capacity plays no role -/
theorem const_oom_iff (caps : Caps) (r : RSt T) (v : T) :
    (constR caps r v).1 = none ↔
      Slots.find? r.st.store.terms v = none ∧ exceeded caps.term (r.numTerms + 1) := by
  unfold constR getTerminalR RSt.numTerms
  cases hf : Slots.find? r.st.store.terms v with
  | some i => simp
  | none =>
    simp only [true_and]
    cases hc : caps.term with
    | none => simp [room, exceeded]
    | some c =>
      simp only [room, exceeded]
      by_cases h : slotCount r.st.store.terms < c
      · simp only [h, decide_true, if_true, reduceCtorEq, false_iff]; omega
      · simp only [h, decide_false, Bool.false_eq_true, if_false, true_iff]; omega

/-! ## (b) monotonicity, (d) success = capacity-free run -/

/-- **once the capacities suffice, all larger ones do, with the same result** -/
theorem apply_monotone (L : TermOps T) (gt : Edge → Edge → Bool) (tg : Op → OpTag)
    (p : APolicy) (op : Op) (fuel : Nat) (r : RSt T) (f g x : Edge) {caps caps' : Caps}
    (hn : capLe caps.node caps'.node) (ht : capLe caps.term caps'.term)
    (hx : (applyR L gt tg caps p op fuel r f g).1 = some x) :
    (applyR L gt tg caps' p op fuel r f g).1 = some x ∧
    (applyR L gt tg caps' p op fuel r f g).2.st = (applyR L gt tg caps p op fuel r f g).2.st :=
  thr_monotone (applyR_thr L gt tg caps p op fuel r f g) (applyR_thr L gt tg caps' p op fuel r f g)
    (applyR_erase' L gt tg caps p op fuel r f g) (applyR_erase' L gt tg caps' p op fuel r f g)
    hn ht hx

theorem ite_monotone (L : TermOps T) (p : APolicy) (fuel : Nat) (r : RSt T) (f g h x : Edge)
    {caps caps' : Caps} (hn : capLe caps.node caps'.node) (ht : capLe caps.term caps'.term)
    (hx : (iteR L caps p fuel r f g h).1 = some x) :
    (iteR L caps' p fuel r f g h).1 = some x ∧
    (iteR L caps' p fuel r f g h).2.st = (iteR L caps p fuel r f g h).2.st :=
  thr_monotone (iteR_thr L caps p fuel r f g h) (iteR_thr L caps' p fuel r f g h)
    (iteR_erase' L caps p fuel r f g h) (iteR_erase' L caps' p fuel r f g h) hn ht hx

/-- (d) a successful capped run is the capacity-free run -/
theorem apply_success_is_uncapped (L : TermOps T) (gt : Edge → Edge → Bool) (tg : Op → OpTag)
    (caps : Caps) (p : APolicy) (op : Op) (fuel : Nat) (r : RSt T) (f g x : Edge)
    (hx : (applyR L gt tg caps p op fuel r f g).1 = some x) :
    applyS L gt tg p op fuel r.st f g = ((applyR L gt tg caps p op fuel r f g).2.st, x) :=
  applyR_erase' L gt tg caps p op fuel r f g x hx

/-! ## (a) a failure leaves the manager intact -/

theorem reach_has {r : RSt T} {ext : List Edge} (h : RcInv r ext) {x : Edge}
    (hr : Reach r.st.store ext x) : Has r.st.store x := by
  induction hr with
  | root hm => exact h.ext_ok _ hm
  | kid _ hp hch ih =>
    rcases hch with hch | hch
    · have := (h.kids_ok _ _ hp).1; rw [hch] at this; exact this
    · have := (h.kids_ok _ _ hp).2; rw [hch] at this; exact this

/-- growing the store does not change what is reachable from the caller's references -/
theorem reach_le_iff {r : RSt T} {ext : List Edge} (h : RcInv r ext) {s' : Store T}
    (hle : r.st.store.Le s') (x : Edge) : Reach s' ext x ↔ Reach r.st.store ext x := by
  constructor
  · intro hr
    induction hr with
    | root hm => exact .root hm
    | kid _ hp hch ih =>
      obtain ⟨n0, hn0⟩ := reach_has h ih
      have := hle.1 _ _ hn0
      have hp' : Slots.get? s'.nodes _ = some _ := hp
      rw [this] at hp'
      cases hp'
      exact .kid ih hn0 hch
  · intro hr
    induction hr with
    | root hm => exact .root hm
    | kid _ hp hch ih => exact .kid ih (hle.1 _ _ hp) hch

/-- a failed call `R`: counters exact for the same references, nothing removed, and a collection
afterwards leaves exactly the inner nodes and terminals a collection before the call leaves, with
the contents they had before the call -/
theorem failure_clean_of {N : Nat} {r : RSt T} {ext : List Edge} {R : Option Edge × RSt T}
    (hi : RcInv r ext) (hord0 : OrdInv N r) (hpost : RcPost r ext R) (hord : OrdInv N R.2)
    (herr : R.1 = none) :
    RcInv R.2 ext ∧ r.st.store.Le R.2.st.store ∧
    RcInv (gcR N R.2) ext ∧ RcInv (gcR N r) ext ∧
    (∀ x, Has (gcR N R.2).st.store x ↔ Reach r.st.store ext x) ∧
    (∀ x, Has (gcR N R.2).st.store x ↔ Has (gcR N r).st.store x) ∧
    (∀ i n, (gcR N R.2).st.store.get? i = some n → r.st.store.get? i = some n) ∧
    (∀ i v, (gcR N R.2).st.store.getTerm? i = some v → r.st.store.getTerm? i = some v) := by
  have hle := hpost.1
  have hinv : RcInv R.2 ext := by
    have h2 := hpost.2
    obtain ⟨o, r'⟩ := R
    simp only at herr
    subst herr
    exact h2
  obtain ⟨g1, g2, g3, _⟩ := C05R.gcR_exact N R.2 ext hinv hord.ord hord.bound
  obtain ⟨k1, k2, _, _⟩ := C05R.gcR_exact N r ext hi hord0.ord hord0.bound
  have key : ∀ x, Has (gcR N R.2).st.store x ↔ Reach r.st.store ext x :=
    fun x => (g2 x).trans (reach_le_iff hi hle x)
  refine ⟨hinv, hle, g1, k1, key, fun x => (key x).trans (k2 x).symm, ?_, ?_⟩
  · intro i n hn
    have hr : Reach r.st.store ext (.inner i) := (key (.inner i)).mp ⟨n, hn⟩
    obtain ⟨n0, hn0⟩ := reach_has hi hr
    have a := g3.1 i n hn
    have b := hle.1 i n0 hn0
    have a' : Slots.get? R.2.st.store.nodes i = some n := a
    rw [b] at a'
    cases a'
    exact hn0
  · intro i v hv
    have hr : Reach r.st.store ext (.term i) := (key (.term i)).mp ⟨v, hv⟩
    obtain ⟨v0, hv0⟩ := reach_has hi hr
    have a := g3.2 i v hv
    have b := hle.2 i v0 hv0
    have a' : Slots.get? R.2.st.store.terms i = some v := a
    rw [b] at a'
    cases a'
    exact hv0

/-- **(a) for `apply_bin::<OP>`** -/
theorem apply_failure_clean (L : TermOps T) (gt : Edge → Edge → Bool) (tg : Op → OpTag)
    {p : APolicy} (pok : p.OK) (N : Nat) (caps : Caps) (op : Op) (fuel : Nat) (r : RSt T)
    (f g : Edge) (ext : List Edge) (hi : RcInv r ext) (ho : OrdInv N r) (hf : f ∈ ext)
    (hg : g ∈ ext) (herr : (applyR L gt tg caps p op fuel r f g).1 = none) :
    RcInv (applyR L gt tg caps p op fuel r f g).2 ext ∧
    r.st.store.Le (applyR L gt tg caps p op fuel r f g).2.st.store ∧
    RcInv (gcR N (applyR L gt tg caps p op fuel r f g).2) ext ∧ RcInv (gcR N r) ext ∧
    (∀ x, Has (gcR N (applyR L gt tg caps p op fuel r f g).2).st.store x ↔ Reach r.st.store ext x) ∧
    (∀ x, Has (gcR N (applyR L gt tg caps p op fuel r f g).2).st.store x ↔ Has (gcR N r).st.store x) ∧
    (∀ i n, (gcR N (applyR L gt tg caps p op fuel r f g).2).st.store.get? i = some n →
      r.st.store.get? i = some n) ∧
    (∀ i v, (gcR N (applyR L gt tg caps p op fuel r f g).2).st.store.getTerm? i = some v →
      r.st.store.getTerm? i = some v) :=
  failure_clean_of hi ho
    (applyR_rc L gt tg pok caps op fuel r f g ext hi (hi.ext_ok f hf) (hi.ext_ok g hg))
    (applyR_ord L gt tg pok N caps op fuel r f g ext 0 hi ho
      (has_above_zero (hi.ext_ok f hf)) (has_above_zero (hi.ext_ok g hg))).1 herr

/-- **(a) for `apply_ite`** -/
theorem ite_failure_clean (L : TermOps T) {p : APolicy} (pok : p.OK) (N : Nat) (caps : Caps)
    (fuel : Nat) (r : RSt T) (f g h : Edge) (ext : List Edge) (hi : RcInv r ext)
    (ho : OrdInv N r) (hf : f ∈ ext) (hg : g ∈ ext) (hh : h ∈ ext)
    (herr : (iteR L caps p fuel r f g h).1 = none) :
    RcInv (iteR L caps p fuel r f g h).2 ext ∧
    r.st.store.Le (iteR L caps p fuel r f g h).2.st.store ∧
    RcInv (gcR N (iteR L caps p fuel r f g h).2) ext ∧ RcInv (gcR N r) ext ∧
    (∀ x, Has (gcR N (iteR L caps p fuel r f g h).2).st.store x ↔ Reach r.st.store ext x) ∧
    (∀ x, Has (gcR N (iteR L caps p fuel r f g h).2).st.store x ↔ Has (gcR N r).st.store x) ∧
    (∀ i n, (gcR N (iteR L caps p fuel r f g h).2).st.store.get? i = some n →
      r.st.store.get? i = some n) ∧
    (∀ i v, (gcR N (iteR L caps p fuel r f g h).2).st.store.getTerm? i = some v →
      r.st.store.getTerm? i = some v) :=
  failure_clean_of hi ho
    (iteR_rc L pok caps fuel r f g h ext hi (hi.ext_ok f hf) (hi.ext_ok g hg) (hi.ext_ok h hh))
    (iteR_ord L pok N caps fuel r f g h ext 0 hi ho (has_above_zero (hi.ext_ok f hf))
      (has_above_zero (hi.ext_ok g hg)) (has_above_zero (hi.ext_ok h hh))).1 herr

/-! ## non-vacuity (`I64` terminals; the history `C05R.exCmds`)

After `var 0`, `var 1` the store holds two inner nodes and the terminals `1`, `0`. -/

open OxiddModel.Mtbdd.C05R in
/-- `x1 + x0` needs two inner nodes and one terminal (the value `2`): the minimal capacities are
`2 + 2` and `2 + 1`; each threshold alone decides — checked directly on the capped model -/
example : (exRun 2).r.numInner = 2 ∧ (exRun 2).r.numTerms = 2 ∧
    neededNodesApply i64Ops Edge.gtIdx tagOf Policy.exact .add 10 (exRun 2).r.st (.inner 1) (.inner 0) = 2 ∧
    neededTermsApply i64Ops Edge.gtIdx tagOf Policy.exact .add 10 (exRun 2).r.st (.inner 1) (.inner 0) = 1 ∧
    (applyR i64Ops Edge.gtIdx tagOf ⟨some 4, some 3⟩ Policy.exact .add 10 (exRun 2).r (.inner 1) (.inner 0)).1 = some (.inner 3) ∧
    (applyR i64Ops Edge.gtIdx tagOf ⟨some 3, none⟩ Policy.exact .add 10 (exRun 2).r (.inner 1) (.inner 0)).1 = none ∧
    (applyR i64Ops Edge.gtIdx tagOf ⟨none, some 2⟩ Policy.exact .add 10 (exRun 2).r (.inner 1) (.inner 0)).1 = none := by
  decide +kernel

open OxiddModel.Mtbdd.C05R in
/-- the hypotheses of `apply_failure_clean` hold along every history (`ord_history`); here the
failing addition under (3, 3) -/
example : ∀ x, Has (gcR 2 (applyR i64Ops Edge.gtIdx tagOf c33 Policy.exact .add 10 (exRun 2).r
      (.inner 1) (.inner 0)).2).st.store x ↔ Has (gcR 2 (exRun 2).r).st.store x := by
  have h := ord_history (E := exE) Policy.exact_ok 2 (exCmds.take 2) (by
    intro c hc
    simp only [exCmds, List.take, List.mem_cons, List.mem_nil_iff, or_false] at hc
    rcases hc with rfl | rfl <;> simp [Rc.Cmd.OK])
  exact (apply_failure_clean i64Ops Edge.gtIdx tagOf Policy.exact_ok 2 c33 .add 10 (exRun 2).r
    (.inner 1) (.inner 0) (exRun 2).hs h.1 h.2 (by decide +kernel) (by decide +kernel)
    (by decide +kernel)).2.2.2.2.2.1

end OxiddModel.Mtbdd.C14T
