import OxiddModel.Mtbdd.PropertiesC14T

/-!
# C14 for MTBDDs: the out-of-memory thresholds of `var_edge` (two capacities)

`Mtbdd/PropertiesC14T.lean` covers `apply`, `ite` and `constant_edge`. `var_edge`
(`varR` of `Mtbdd/RcS.lean`): `get_terminal(one)?` in a guard, `get_terminal(zero)?` in a guard,
`get_or_insert(level, [t, e])?` — up to **two terminals and one inner node**, each step able to
fail, the guards dropping what was obtained before. The capacity-free side is `Refine.varS`
(`Mtbdd/HistoryS.lean`). As for `apply` there are two independent thresholds.
-/
set_option linter.unusedSectionVars false

namespace OxiddModel.Mtbdd.C14T
open OxiddModel.Mtbdd OxiddModel.Mtbdd.Refine OxiddModel.Mtbdd.Rc OxiddModel.CachePolicy OxiddModel

variable {T : Type} [DecidableEq T]

/-- the capacity-free `var_edge` as a run over `St` (the apply cache is not used) -/
def varSt (L : TermOps T) (st : St T) (level : Nat) : St T × Edge :=
  (⟨(varS L st.store level).1, st.cache, st.tick⟩, (varS L st.store level).2)

/-- inner nodes `var_edge` allocates when nothing stops it (0 or 1) -/
def neededNodesVar (L : TermOps T) (s : Store T) (level : Nat) : Nat :=
  slotCount (varS L s level).1.nodes - slotCount s.nodes

/-- terminals `var_edge` allocates (0, 1 or 2: the values `one`, `zero`) -/
def neededTermsVar (L : TermOps T) (s : Store T) (level : Nat) : Nat :=
  slotCount (varS L s level).1.terms - slotCount s.terms

theorem intern_grows (s : Store T) (n : Node) :
    Grows s ⟨(Slots.intern s.nodes n).1, s.terms⟩ := by
  refine ⟨?_, Nat.le_refl _⟩
  show slotCount s.nodes ≤ slotCount (Slots.intern s.nodes n).1
  rw [slotCount_intern]; split <;> omega

theorem varS_grows (L : TermOps T) (s : Store T) (level : Nat) : Grows s (varS L s level).1 := by
  unfold varS
  exact (getTerminal_grows s L.one).trans ((getTerminal_grows _ L.zero).trans (intern_grows _ _))

/-- **`var_edge` under `(nodeCap, termCap)` succeeds iff `varS` fits both capacities** -/
theorem varR_thr (L : TermOps T) (caps : Caps) (r : RSt T) (level : Nat) :
    Thr caps r.st.store (varR L caps r level) (varSt L r.st level) := by
  unfold Thr varSt
  show _ ↔ Fits caps r.st.store (varS L r.st.store level).1
  unfold varR varS
  have g1 := getTerminal_grows r.st.store L.one
  have g0 := getTerminal_grows (r.st.store.getTerminal L.one).1 L.zero
  have gi := intern_grows ((r.st.store.getTerminal L.one).1.getTerminal L.zero).1
    ⟨level, (r.st.store.getTerminal L.one).2,
      ((r.st.store.getTerminal L.one).1.getTerminal L.zero).2⟩
  have i1 := getTerminalR_isSome caps r L.one
  cases h1 : getTerminalR caps.term r L.one with
  | mk o1 r1 =>
    rw [h1] at i1
    cases o1 with
    | none =>
      simp only [Option.isSome_none, Bool.false_eq_true, false_iff] at i1 ⊢
      intro hf
      exact i1 (hf.split g1 (g0.trans gi)).1
    | some t =>
      simp only [Option.isSome_some, true_iff] at i1
      obtain ⟨a1, _, _⟩ := getTerminalR_erase caps.term r L.one t (by rw [h1])
      rw [h1] at a1
      simp only at a1
      rw [a1] at i1 g1 g0 gi ⊢
      simp only at i1 g1 g0 gi ⊢
      have i0 := getTerminalR_isSome caps r1 L.zero
      cases h0 : getTerminalR caps.term r1 L.zero with
      | mk o0 r0 =>
        rw [h0] at i0
        cases o0 with
        | none =>
          simp only [Option.isSome_none, Bool.false_eq_true, false_iff] at i0 ⊢
          intro hf
          exact i0 ((hf.split g1 (g0.trans gi)).2.split g0 gi).1
        | some e =>
          simp only [Option.isSome_some, true_iff] at i0
          obtain ⟨b1, _, _⟩ := getTerminalR_erase caps.term r1 L.zero e (by rw [h0])
          rw [h0] at b1
          simp only at b1
          rw [b1] at i0 g0 gi ⊢
          simp only at i0 g0 gi ⊢
          rw [insertR_isSome]
          constructor
          · intro h
            exact (i1.trans i0).trans ⟨h, FitsO.refl _ _⟩
          · intro hf
            exact ((hf.split g1 (g0.trans gi)).2.split g0 gi).2.1

theorem varR_erases (L : TermOps T) (caps : Caps) (r : RSt T) (level : Nat) :
    Erases (varR L caps r level) (varSt L r.st level) := by
  intro x hx
  obtain ⟨h1, h2, h3⟩ := varR_erase' L caps r level x hx
  unfold varSt
  rw [h1]
  simp only
  rw [← h2, ← h3]

/-- (c) **`var_edge` reports OutOfMemory iff it needs an inner node the node store has no room
for, or terminals the terminal store has no room for** — for every store and counter arrays -/
theorem var_oom_iff_needed (L : TermOps T) (caps : Caps) (r : RSt T) (level : Nat) :
    (varR L caps r level).1 = none ↔
      (0 < neededNodesVar L r.st.store level ∧
        exceeded caps.node (r.numInner + neededNodesVar L r.st.store level)) ∨
      (0 < neededTermsVar L r.st.store level ∧
        exceeded caps.term (r.numTerms + neededTermsVar L r.st.store level)) :=
  thr_oom_iff (varR_thr L caps r level) (varS_grows L r.st.store level)

/-- (c) both thresholds reached: success with the result and store of `varS`; one of them missed:
failure whatever the other capacity is -/
theorem var_threshold_exact (L : TermOps T) (r : RSt T) (level : Nat) :
    (∀ cn ct, r.numInner + neededNodesVar L r.st.store level ≤ cn →
      r.numTerms + neededTermsVar L r.st.store level ≤ ct →
      (varR L ⟨some cn, some ct⟩ r level).1 = some (varS L r.st.store level).2 ∧
      (varR L ⟨some cn, some ct⟩ r level).2.st =
        ⟨(varS L r.st.store level).1, r.st.cache, r.st.tick⟩) ∧
    (∀ cn tc, r.numInner ≤ cn → cn < r.numInner + neededNodesVar L r.st.store level →
      (varR L ⟨some cn, tc⟩ r level).1 = none) ∧
    (∀ nc ct, r.numTerms ≤ ct → ct < r.numTerms + neededTermsVar L r.st.store level →
      (varR L ⟨nc, some ct⟩ r level).1 = none) := by
  refine ⟨?_, ?_, ?_⟩
  · intro cn ct hn ht
    apply (thr_ok_iff (varR_thr L ⟨some cn, some ct⟩ r level) (varR_erases L _ r level)
      (varS_grows L r.st.store level)).mpr
    show ¬ ((0 < neededNodesVar L r.st.store level ∧
        cn < r.numInner + neededNodesVar L r.st.store level) ∨
      (0 < neededTermsVar L r.st.store level ∧
        ct < r.numTerms + neededTermsVar L r.st.store level))
    omega
  · intro cn tc h1 h2
    rw [var_oom_iff_needed]
    left
    show 0 < neededNodesVar L r.st.store level ∧ cn < r.numInner + neededNodesVar L r.st.store level
    omega
  · intro nc ct h1 h2
    rw [var_oom_iff_needed]
    right
    show 0 < neededTermsVar L r.st.store level ∧ ct < r.numTerms + neededTermsVar L r.st.store level
    omega

/-- `var_edge` needs at most one inner node and at most two terminals -/
theorem neededVar_le (L : TermOps T) (s : Store T) (level : Nat) :
    neededNodesVar L s level ≤ 1 ∧ neededTermsVar L s level ≤ 2 := by
  unfold neededNodesVar neededTermsVar varS
  simp only [Store.getTerminal]
  constructor
  · rw [slotCount_intern]; split <;> omega
  · rw [slotCount_intern, slotCount_intern]; split <;> split <;> omega

/-- (b) -/
theorem var_monotone (L : TermOps T) (r : RSt T) (level : Nat) (x : Edge) {caps caps' : Caps}
    (hn : capLe caps.node caps'.node) (ht : capLe caps.term caps'.term)
    (hx : (varR L caps r level).1 = some x) :
    (varR L caps' r level).1 = some x ∧ (varR L caps' r level).2.st = (varR L caps r level).2.st :=
  thr_monotone (varR_thr L caps r level) (varR_thr L caps' r level) (varR_erases L caps r level)
    (varR_erases L caps' r level) hn ht hx

/-- (d) a successful `var_edge` is `varS` (restating `varR_erase'`) -/
theorem var_success_is_uncapped (L : TermOps T) (caps : Caps) (r : RSt T) (level : Nat) (x : Edge)
    (hx : (varR L caps r level).1 = some x) :
    varS L r.st.store level = ((varR L caps r level).2.st.store, x) ∧
    (varR L caps r level).2.st.cache = r.st.cache ∧ (varR L caps r level).2.st.tick = r.st.tick :=
  varR_erase' L caps r level x hx

/-- (a) a failed `var_edge` (terminal store or node store full, at any of the three steps) leaves
the manager intact: counters of nodes and terminals exact for the same references, and a
collection leaves exactly what was reachable before -/
theorem var_failure_clean (L : TermOps T) (N : Nat) (caps : Caps) (r : RSt T) (level : Nat)
    (ext : List Edge) (hi : RcInv r ext) (ho : OrdInv N r) (hl : level < N)
    (herr : (varR L caps r level).1 = none) :
    RcInv (varR L caps r level).2 ext ∧ r.st.store.Le (varR L caps r level).2.st.store ∧
    RcInv (gcR N (varR L caps r level).2) ext ∧ RcInv (gcR N r) ext ∧
    (∀ x, Has (gcR N (varR L caps r level).2).st.store x ↔ Reach r.st.store ext x) ∧
    (∀ x, Has (gcR N (varR L caps r level).2).st.store x ↔ Has (gcR N r).st.store x) ∧
    (∀ i n, (gcR N (varR L caps r level).2).st.store.get? i = some n → r.st.store.get? i = some n) ∧
    (∀ i v, (gcR N (varR L caps r level).2).st.store.getTerm? i = some v →
      r.st.store.getTerm? i = some v) :=
  failure_clean_of hi ho (varR_rc L caps r level ext hi) (varR_ord L caps r level ext hi ho hl).1 herr

/-! ## non-vacuity (`I64`; the empty manager and `C05R.exRun 2` = `x0`, `x1`) -/

open OxiddModel.Mtbdd.C05R in
/-- in the empty manager `var_edge(0)` needs one node and two terminals: `(1, 2)` succeeds,
`(0, ∞)`, `(∞, 1)` and `(∞, 0)` fail; after `x0`, `x1` a third variable needs one node and no
terminal: `(3, 0)` succeeds -/
example : neededNodesVar i64Ops (RSt.empty (T := I64)).st.store 0 = 1 ∧
    neededTermsVar i64Ops (RSt.empty (T := I64)).st.store 0 = 2 ∧
    (varR i64Ops ⟨some 1, some 2⟩ (RSt.empty (T := I64)) 0).1 = some (.inner 0) ∧
    (varR i64Ops ⟨some 0, none⟩ (RSt.empty (T := I64)) 0).1 = none ∧
    (varR i64Ops ⟨none, some 1⟩ (RSt.empty (T := I64)) 0).1 = none ∧
    (varR i64Ops ⟨none, some 0⟩ (RSt.empty (T := I64)) 0).1 = none ∧
    neededNodesVar i64Ops (exRun 2).r.st.store 2 = 1 ∧ neededTermsVar i64Ops (exRun 2).r.st.store 2 = 0 ∧
    (varR i64Ops ⟨some 3, some 0⟩ (exRun 2).r 2).1 = some (.inner 2) ∧
    (varR i64Ops ⟨some 2, none⟩ (exRun 2).r 2).1 = none := by
  decide +kernel

open OxiddModel.Mtbdd.C05R in
/-- the hypotheses of `var_failure_clean` hold in the empty manager; `var_edge(0)` under `(∞, 1)`
obtains the terminal `1`, fails at the terminal `0`, and the guard releases the first one: the
collection afterwards leaves nothing, as before -/
example : ∀ x, Has (gcR 1 (varR i64Ops ⟨none, some 1⟩ (RSt.empty (T := I64)) 0).2).st.store x ↔
    Has (gcR 1 (RSt.empty (T := I64))).st.store x := by
  have h := ord_history (E := exE) Policy.exact_ok 1 [] (by intro c hc; cases hc)
  exact (var_failure_clean i64Ops 1 ⟨none, some 1⟩ (RSt.empty (T := I64)) 0 [] h.1 h.2 (by decide)
    (by decide +kernel)).2.2.2.2.2.1

end OxiddModel.Mtbdd.C14T
