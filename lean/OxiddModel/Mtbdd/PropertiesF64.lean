import OxiddModel.Mtbdd.F64Exact
import OxiddModel.Mtbdd.Properties
import OxiddModel.Mtbdd.PropertiesS
import OxiddModel.Generated.ObTerminalMtbdd
import OxiddModel.Num.IeeeLemmasBits

/-!
# C10 — *on float terminals the operations follow IEEE-754 with NaN and signed zero normalised*

The scalar arithmetic of `F64` MTBDD terminals is now **inside** the model: `Num/Ieee.lean` is an exact,
kernel-reducible binary64 (signed multiples of `2^-1074`, `±∞`, NaN; every operation = special cases
of IEEE-754, otherwise the exact rational result rounded once to nearest-even), `Mtbdd/F64Exact.lean`
the `F64` layer (`normalise ∘ op`).  No Lean `Float` occurs.  The correspondence with the Rust
`F64` (and with the hardware `f64` for the un-normalised operations) is the stream `f64arith`
(`DriverF64Exact.lean`, `harness/src/bin/c10_f64arith.rs`), bit for bit.

Headline theorems (all for **all** operands; a "finite operand" is any `fin s u`, representable or
not, unless `Normal`/`Rep` is assumed):

* `f64_terminal_laws`, `f64_terminal_closed`, `f64_terminal_comm`: the hypotheses of
  `mtbdd_apply_sem_f64_partial`, `StoreLevel.applyS_spec`, `Mt.rules_sound` — proved;
* `mtbdd_apply_sem_f64`, `StoreLevel.applyS_spec_f64`, `StoreLevel.applyS_sem_f64`: the lifting for
  float terminals without any hypothesis about the scalar operations;
* `f64_results_normalised`, `f64_correctly_rounded`, `f64_rounding_unique`, `f64_overflow_threshold`,
  `f64_partial_cmp_spec`, `f64_special_forms`, `f64_sign_rules`;
* `terminal_cases_sound_mtbdd_f64`: every extracted shortcut of `terminal_bin` is an identity of this
  `F64` model; `f64_false_shortcuts`: the laws that are *not* true of floats, and that none of them
  is an accepted shape;
* `ieee_bits_roundtrip`: data ↔ bit patterns.
-/
set_option exponentiation.threshold 3000
namespace OxiddModel.Mtbdd
open OxiddModel.Num OxiddModel.Num.Ieee OxiddModel.Num.F64C

attribute [local irreducible] OxiddModel.Num.F64C.mk

/-! ## the three hypotheses, proved -/

/-- **`TerminalLaws` for `F64`** — the hypothesis of `mtbdd_apply_sem_f64_partial`: `0 + x = x`,
`x + 0 = x`, `x − 0 = x`, `1·x = x`, `x·1 = x`, `x/1 = x`, NaN absorbing for `+ − · / min max`,
`min`/`max` idempotent, `0 ≠ 1`, for every value an `F64` can hold. -/
theorem f64_terminal_laws : TerminalLaws f64ExactOps Ieee.Normal := f64_terminalLaws

/-- **closure**: the values an `F64` can hold are closed under the four operations (and `min`/`max`) -/
theorem f64_terminal_closed : TerminalClosed f64ExactOps Ieee.Normal := f64_terminalClosed

/-- **commutativity** of `add`, `mul`, `min`, `max` — the hypothesis of `StoreLevel.applyS_spec` that
makes the operand swap of the cache key sound -/
theorem f64_terminal_comm : Refine.TerminalComm f64ExactOps Ieee.Normal := f64_terminalComm

-- non-vacuity: the laws are about a non-trivial arithmetic — `0.1 + 0.2` is the famous
-- `0.30000000000000004` (bits 3fd3333333333334), `1/3` is 3fd5555555555555, and both are `Normal`
example : toBits (fadd (fromBits 0x3fb999999999999a) (fromBits 0x3fc999999999999a))
    = 0x3fd3333333333334 := by decide +kernel
example : toBits (fdiv Ieee.one (fromBits 0x4008000000000000)) = 0x3fd5555555555555 := by
  decide +kernel
example : Ieee.Normal (fromBits 0x3fb999999999999a) := fromBits_normal _

/-! ## the lifting, unconditional -/

/-- **`add, sub, mul, div, min, max` on MTBDDs with float terminals return the pointwise lifting of
the IEEE-754 operation (normalised)**: for every operator, all diagrams of any depth whose terminals
are values an `F64` can hold, and every assignment — no hypothesis about the scalar arithmetic is
left (compare `mtbdd_apply_sem_f64_partial`); the terminals of the result are admissible again. -/
theorem mtbdd_apply_sem_f64 (op : Op) (f g : MT Ieee.V) (hf : f.All Ieee.Normal)
    (hg : g.All Ieee.Normal) (σ : Nat → Bool) :
    (applyBin f64ExactOps op f g).eval σ = f64ExactOps.sem op (f.eval σ) (g.eval σ) ∧
    (applyBin f64ExactOps op f g).All Ieee.Normal :=
  ⟨applyBin_sem f64_terminalLaws op f g σ hf hg, applyBin_all f64_terminalClosed op f g hf hg⟩

/-- the result is *the* normal form of the lifting (canonicity): any normal-form diagram with these
values is the tree `apply_bin` returns -/
theorem mtbdd_apply_unique_f64 (op : Op) (f g r : MT Ieee.V) (hf : NF f) (hg : NF g)
    (af : f.All Ieee.Normal) (ag : g.All Ieee.Normal) (hr : NF r)
    (h : ∀ σ, r.eval σ = f64ExactOps.sem op (f.eval σ) (g.eval σ)) :
    applyBin f64ExactOps op f g = r :=
  mtbdd_apply_unique f64_terminalLaws op f g r hf hg af ag hr h

-- non-vacuity: `x0 / x1` has the four values `1/1 = 1`, `1/0 = +∞`, `0/1 = 0`, `0/0 = NaN`; and
-- `(x0 ? -1 : 0) * (x1 ? 0 : 1)` contains `-1 · 0 = -0`, normalised to `+0`, so the node collapses
example : applyBin f64ExactOps .div (var f64ExactOps 0) (var f64ExactOps 1)
    = .node 0 (.node 1 (.leaf Ieee.one) (.leaf (.inf false)))
              (.node 1 (.leaf Ieee.zero) (.leaf .nan)) := by decide +kernel
example : applyBin f64ExactOps .mul
      (.node 0 (.leaf (.fin true (2 ^ 1074))) (.leaf Ieee.zero))
      (.node 1 (.leaf Ieee.zero) (.leaf Ieee.one))
    = .node 0 (.node 1 (.leaf Ieee.zero) (.leaf (.fin true (2 ^ 1074)))) (.leaf Ieee.zero) := by
  decide +kernel
example : (MT.node 0 (.leaf (V.fin true (2 ^ 1074))) (.leaf Ieee.zero)).All Ieee.Normal :=
  ⟨show Ieee.Normal _ by decide +kernel, show Ieee.Normal _ by decide +kernel⟩

namespace StoreLevel
open OxiddModel.Mtbdd.Refine OxiddModel.CachePolicy

/-- **store level, `F64`**: `apply_bin::<OP>` with hash-consed terminals and the apply cache
refines `applyBin f64ExactOps op` — no hypothesis about the terminal type is left -/
theorem applyS_spec_f64 (gt : Edge → Edge → Bool) {p : APolicy} (pok : p.OK) (op : Op)
    (fuel : Nat) (st : St Ieee.V) (f g : Edge) (a b : MT Ieee.V)
    (hu : st.store.Unique) (hok : st.store.TermsOK Ieee.Normal)
    (hc : CacheOK f64ExactOps st.store st.cache)
    (hf : Denotes st.store f a) (hg : Denotes st.store g b) (hfuel : a.size + b.size ≤ fuel) :
    let R := applyS f64ExactOps gt tagOf p op fuel st f g
    Denotes R.1.store R.2 (applyBin f64ExactOps op a b) ∧ st.store.Le R.1.store ∧
    R.1.store.Unique ∧ R.1.store.TermsOK Ieee.Normal ∧ CacheOK f64ExactOps R.1.store R.1.cache :=
  applyS_spec f64_terminalClosed f64_terminalComm gt pok op fuel st f g a b hu hok hc hf hg hfuel

/-- … and the returned edge evaluates to the pointwise IEEE-754 operation -/
theorem applyS_sem_f64 (gt : Edge → Edge → Bool) {p : APolicy} (pok : p.OK) (op : Op)
    (fuel : Nat) (st : St Ieee.V) (f g : Edge) (a b : MT Ieee.V)
    (hu : st.store.Unique) (hok : st.store.TermsOK Ieee.Normal)
    (hc : CacheOK f64ExactOps st.store st.cache)
    (hf : Denotes st.store f a) (hg : Denotes st.store g b) (hfuel : a.size + b.size ≤ fuel) :
    ∃ r, Denotes (applyS f64ExactOps gt tagOf p op fuel st f g).1.store
        (applyS f64ExactOps gt tagOf p op fuel st f g).2 r
      ∧ ∀ σ, r.eval σ = f64ExactOps.sem op (a.eval σ) (b.eval σ) :=
  applyS_sem f64_terminalLaws f64_terminalClosed f64_terminalComm gt pok op fuel st f g a b
    hu hok hc hf hg hfuel

end StoreLevel

/-! ## normalisation of the results -/

/-- **no operation returns `-0.0` or a non-canonical NaN** (whatever the operands are — even
un-normalised ones): every result is representable, is not `-0.0`, and its bit pattern is `f64::NAN`
exactly when it is a NaN.  Also `F64::from` itself, and `min`/`max` on admissible operands. -/
theorem f64_results_normalised (x y : Ieee.V) :
    (Ieee.Normal (fadd x y) ∧ Ieee.Normal (fsub x y) ∧ Ieee.Normal (fmul x y) ∧
      Ieee.Normal (fdiv x y)) ∧
    (∀ z, Ieee.Normal z → toBits z ≠ 0x8000000000000000 ∧ toBits z < 2 ^ 64 ∧
      (z = .nan ↔ toBits z = 0x7ff8000000000000)) ∧
    (∀ b, Ieee.Normal (fromBits b)) ∧
    (Ieee.Normal x → Ieee.Normal y →
      Ieee.Normal (f64ExactOps.min x y) ∧ Ieee.Normal (f64ExactOps.max x y)) := by
  refine ⟨⟨normalise_normal _ (add_rep x y), normalise_normal _ (sub_rep x y),
    normalise_normal _ (mul_rep x y), normalise_normal _ (div_rep x y)⟩, ?_, fromBits_normal,
    fun hx hy => ⟨f64_terminalClosed.ok_min x y hx hy, f64_terminalClosed.ok_max x y hx hy⟩⟩
  intro z hz
  have hrt := ofBits_toBits z hz.1
  refine ⟨?_, toBits_lt z hz.1, ?_⟩
  · intro e
    rw [e] at hrt
    exact hz.2 (hrt.symm.trans (by decide +kernel))
  · constructor
    · rintro rfl; rfl
    · intro e
      rw [e] at hrt
      exact hrt.symm.trans (by decide +kernel)

example : fmul (.fin true (2 ^ 1074)) Ieee.zero = Ieee.zero := by decide +kernel
example : mul (.fin true (2 ^ 1074)) Ieee.zero = .fin true 0 := by decide +kernel

/-! ## correct rounding -/

/-- **each finite result is the round-to-nearest-even of the exact result.**  For finite operands
`(-1)^sa · a` and `(-1)^sb · b` (in units of `2^-1074`):
the sum of like-signed operands, the difference of unlike-signed ones, the product and the
quotient are `signed s (F64C.mk r)` where `r` is *the* nearest-even rounding (`IsRNE`, a specification
that does not mention how it is computed) of the exact rational result — `a + b`, `a − b`,
`a · b / 2^1074`, `a · 2^1074 / b` units — and `mk` is the overflow check (`r ≥ 2^1024 ↦ ∞`).  An exact
zero difference is `+0`. -/
theorem f64_correctly_rounded (sa sb : Bool) (a b : Nat) :
    (∃ r, IsRNE (a + b) 1 r ∧ add (.fin sa a) (.fin sa b) = signed sa (F64C.mk r)) ∧
    (b < a → ∃ r, IsRNE (a - b) 1 r ∧ add (.fin sa a) (.fin (!sa) b) = signed sa (F64C.mk r) ∧
      add (.fin (!sa) b) (.fin sa a) = signed sa (F64C.mk r)) ∧
    (add (.fin sa a) (.fin (!sa) a) = .fin false 0) ∧
    (∃ r, IsRNE (a * b) (2 ^ UNIT) r ∧ mul (.fin sa a) (.fin sb b) = signed (sa != sb) (F64C.mk r)) ∧
    (0 < b → ∃ r, IsRNE (a * 2 ^ UNIT) b r ∧
      div (.fin sa a) (.fin sb b) = signed (sa != sb) (F64C.mk r)) := by
  have hne : sa ≠ !sa := by cases sa <;> simp
  have hne' : (!sa) ≠ sa := fun e => hne e.symm
  refine ⟨?_, ?_, ?_, ?_, ?_⟩
  · obtain ⟨r, h1, h2⟩ := roundU_isRNE (a + b) 0
    rw [Nat.pow_zero] at h1
    exact ⟨r, h1, by simp only [add, addFin, if_true, h2]⟩
  · intro hlt
    obtain ⟨r, h1, h2⟩ := roundU_isRNE (a - b) 0
    rw [Nat.pow_zero] at h1
    refine ⟨r, h1, ?_, ?_⟩
    · simp only [add, addFin]
      rw [if_neg hne, if_neg (by omega), if_pos hlt, h2]
    · simp only [add, addFin]
      rw [if_neg hne', if_neg (by omega), if_neg (by omega), h2]
  · simp only [add, addFin]
    rw [if_neg hne]; simp
  · obtain ⟨r, h1, h2⟩ := roundU_isRNE (a * b) UNIT
    exact ⟨r, h1, by simp only [mul, h2]⟩
  · intro hb
    obtain ⟨r, h1, h2⟩ := divU_isRNE a b hb
    refine ⟨r, h1, ?_⟩
    simp only [div]
    rw [if_neg (by omega), h2]

/-- **the specification `IsRNE` determines the result**: at most one value satisfies it (so "the"
round-to-nearest-even above is justified, and any other correct implementation of the rounding —
e.g. the hardware's — agrees with `roundQ` wherever it satisfies the specification) -/
theorem f64_rounding_unique {p q r r' : Nat} (hq : 0 < q) (h : IsRNE p q r) (h' : IsRNE p q r') :
    r = r' ∧ r = roundQ p q :=
  ⟨isRNE_unique hq h h', (isRNE_iff_roundQ hq).1 h⟩

/-- the specification is not vacuous and is about the right thing: `2^53 + 1` is a tie between
`2^53` and `2^53 + 2` and goes to the even `2^53`; `2^53 + 3` goes up to `2^53 + 4`; one third of a
unit goes to `0`, two thirds to one unit (gradual underflow) -/
example : roundQ (2 ^ 53 + 1) 1 = 2 ^ 53 ∧ roundQ (2 ^ 53 + 3) 1 = 2 ^ 53 + 4 ∧
    roundQ 1 3 = 0 ∧ roundQ 2 3 = 1 ∧ roundQ 3 2 = 2 ∧ roundQ 5 2 = 2 := by decide +kernel
example : IsRNE (2 ^ 53 + 1) 1 (2 ^ 53) := roundQ_isRNE (2 ^ 53 + 1) 1 (by omega)

/-- **overflow to `±∞` exactly beyond the largest finite value plus half an ulp**: for `r` the
nearest-even rounding of the exact `p / q` units, the result `signed s (F64C.mk r)` is `±∞` iff
`p / q ≥ 2^1024 − 2^970` (`OVF_TH` units `= MAXFIN + ulp/2`), and a finite representable value
otherwise. -/
theorem f64_overflow_threshold {p q r : Nat} (hq : 0 < q) (h : IsRNE p q r) (s : Bool) :
    (signed s (F64C.mk r) = .inf s ↔ OVF_TH * q ≤ p) ∧
    (p < OVF_TH * q → signed s (F64C.mk r) = .fin s r ∧ (V.fin s r).Rep ∧ r ≤ MAXFIN) := by
  have hiff := isRNE_overflow_iff hq h
  constructor
  · rw [← hiff]
    constructor
    · intro e
      apply Nat.le_of_not_lt
      intro hlt
      rw [mk_of_lt hlt] at e
      cases e
    · intro hge
      rw [mk_of_ge hge]; rfl
  · intro hp
    have hlt : r < 2 ^ OVF := by
      apply Nat.lt_of_not_le
      intro hge
      have := hiff.1 hge
      omega
    rw [mk_of_lt hlt]
    exact ⟨rfl, ⟨h.1, hlt⟩, le_maxfin h.1 hlt⟩

-- the threshold on the real line: `MAX + MAX` overflows, `MAX + 2^969` (less than half an ulp)
-- stays `MAX`, `MAX + 2^970` (exactly half an ulp, tie to the even `2^1024`) overflows
example : add (.fin false MAXFIN) (.fin false (2 ^ (OVF - 55))) = .fin false MAXFIN ∧
    add (.fin false MAXFIN) (.fin false (2 ^ (OVF - 54))) = .inf false ∧
    add (.fin true MAXFIN) (.fin true MAXFIN) = .inf true := by decide +kernel

/-! ## comparison -/

/-- **`partial_cmp` of `F64`** is the order of the extended reals with `NaN = NaN` and NaN unordered
otherwise: `Less`/`Greater` iff `lt` (on finite data: the integer order of the signed numbers of
units; `-∞` below and `+∞` above every finite value), `Equal` iff the data are identical (for values
an `F64` can hold: this is `==` on the bit patterns), `None` iff exactly one operand is NaN; `lt` is
a strict total order on the non-NaN values. -/
theorem f64_partial_cmp_spec :
    (∀ x y, Ieee.Normal x → Ieee.Normal y → (pcmp x y = some .eq ↔ x = y)) ∧
    (∀ x y, pcmp x y = some .lt ↔ Ieee.lt x y) ∧
    (∀ x y, pcmp x y = some .gt ↔ Ieee.lt y x) ∧
    (∀ x y, pcmp x y = none ↔ (x = .nan ∧ y ≠ .nan) ∨ (x ≠ .nan ∧ y = .nan)) ∧
    (∀ x y, pcmp y x = (pcmp x y).map Ordering.swap) ∧
    (∀ x, ¬ Ieee.lt x x) ∧
    (∀ x y z, Ieee.lt x y → Ieee.lt y z → Ieee.lt x z) ∧
    (∀ x y, Ieee.Normal x → Ieee.Normal y → x ≠ .nan → y ≠ .nan →
      Ieee.lt x y ∨ x = y ∨ Ieee.lt y x) ∧
    (∀ sa a sb b, Ieee.lt (.fin sa a) (.fin sb b) ↔ V.sInt sa a < V.sInt sb b) ∧
    (∀ s u, Ieee.lt (.inf true) (.fin s u) ∧ Ieee.lt (.fin s u) (.inf false)) ∧
    Ieee.lt (.inf true) (.inf false) ∧
    -- bitwise `==` of `F64` is equality of data
    (∀ x y, Ieee.Normal x → Ieee.Normal y → (toBits x = toBits y ↔ x = y)) :=
  ⟨fun _ _ hx hy => pcmp_eq_iff hx hy, pcmp_lt_iff, pcmp_gt_iff, pcmp_none_iff, pcmp_swap,
    lt_irrefl, fun _ _ _ => lt_trans, fun _ _ hx hy => lt_total hx hy, fun _ _ _ _ => Iff.rfl,
    fun _ _ => ⟨rfl, rfl⟩, ⟨rfl, rfl⟩,
    fun x y hx hy => ⟨fun e => by
      rw [← ofBits_toBits x hx.1, ← ofBits_toBits y hy.1, e], fun e => e ▸ rfl⟩⟩

/-- `min`/`max` as `terminal_bin` derives them: NaN if an operand is NaN, otherwise the
smaller/larger operand -/
theorem f64_min_max_spec (x y : Ieee.V) (hx : Ieee.Normal x) (hy : Ieee.Normal y) :
    ((x = .nan ∨ y = .nan) → f64ExactOps.min x y = .nan ∧ f64ExactOps.max x y = .nan) ∧
    (x ≠ .nan → y ≠ .nan →
      f64ExactOps.min x y = (if Ieee.lt y x then y else x) ∧
      f64ExactOps.max x y = (if Ieee.lt x y then y else x)) := by
  constructor
  · rintro (rfl | rfl)
    · exact ⟨F64Exact.min_nan_left y, F64Exact.max_nan_left y⟩
    · exact ⟨F64Exact.min_nan_right x, F64Exact.max_nan_right x⟩
  · intro nx ny
    have hgt := pcmp_gt_iff x y
    have hlt := pcmp_lt_iff x y
    simp only [TermOps.min, TermOps.max, f64ExactOps]
    cases h : pcmp x y with
    | none =>
      rcases (pcmp_none_iff x y).1 h with ⟨e, _⟩ | ⟨_, e⟩
      · exact absurd e nx
      · exact absurd e ny
    | some o =>
      rw [h] at hgt hlt
      cases o
      · have h1 : Ieee.lt x y := hlt.1 rfl
        have h2 : ¬ Ieee.lt y x := fun h' => by have := hgt.2 h'; cases this
        simp [h1, h2]
      · have h1 : ¬ Ieee.lt x y := fun h' => by have := hlt.2 h'; cases this
        have h2 : ¬ Ieee.lt y x := fun h' => by have := hgt.2 h'; cases this
        simp [h1, h2]
      · have h1 : ¬ Ieee.lt x y := fun h' => by have := hlt.2 h'; cases this
        have h2 : Ieee.lt y x := hgt.1 rfl
        simp [h1, h2]

example : pcmp (.fin true 5) (.fin false 3) = some .lt ∧ pcmp (.inf true) (.fin true (2 ^ 2000)) = some .lt
    ∧ pcmp (.fin false 0) (.fin true 0) = some .eq := by decide +kernel

/-! ## the documented special forms -/

/-- **table of the special forms of IEEE-754** (before normalisation; `s`, `s'` arbitrary signs,
`u`, `a` arbitrary magnitudes): NaN propagates; `∞ − ∞`, `0 · ∞`, `0/0`, `∞/∞` are NaN; `x/0 = ±∞`
for `x ≠ 0`; `x/∞ = ±0`; `∞ ± finite = ∞`; `(−0) + (−0) = −0`, `(+0) + (−0) = +0`,
`x + (−x) = +0`; signs of products and quotients are the exclusive or of the signs. -/
theorem f64_special_forms (s s' : Bool) (u a : Nat) (x : Ieee.V) :
    -- NaN propagation
    (add .nan x = .nan ∧ add x .nan = .nan ∧ sub .nan x = .nan ∧ sub x .nan = .nan ∧
     mul .nan x = .nan ∧ mul x .nan = .nan ∧ div .nan x = .nan ∧ div x .nan = .nan) ∧
    -- invalid operations
    (add (.inf s) (.inf (!s)) = .nan ∧ sub (.inf s) (.inf s) = .nan ∧
     mul (.fin s 0) (.inf s') = .nan ∧ mul (.inf s) (.fin s' 0) = .nan ∧
     div (.fin s 0) (.fin s' 0) = .nan ∧ div (.inf s) (.inf s') = .nan) ∧
    -- infinities
    (add (.inf s) (.inf s) = .inf s ∧ add (.inf s) (.fin s' u) = .inf s ∧
     add (.fin s' u) (.inf s) = .inf s ∧ sub (.fin s' u) (.inf s) = .inf (!s) ∧
     mul (.inf s) (.inf s') = .inf (s != s') ∧
     (u ≠ 0 → mul (.inf s) (.fin s' u) = .inf (s != s') ∧ mul (.fin s' u) (.inf s) = .inf (s' != s)) ∧
     div (.inf s) (.fin s' u) = .inf (s != s')) ∧
    -- division by zero and by infinity
    ((a ≠ 0 → div (.fin s a) (.fin s' 0) = .inf (s != s')) ∧
     div (.fin s a) (.inf s') = .fin (s != s') 0) ∧
    -- signed zeros
    (add (.fin true 0) (.fin true 0) = .fin true 0 ∧ add (.fin false 0) (.fin true 0) = .fin false 0 ∧
     add (.fin true 0) (.fin false 0) = .fin false 0 ∧ add (.fin false 0) (.fin false 0) = .fin false 0 ∧
     add (.fin s a) (.fin (!s) a) = .fin false 0 ∧ sub (.fin s a) (.fin s a) = .fin false 0 ∧
     mul (.fin s 0) (.fin s' u) = .fin (s != s') 0 ∧ mul (.fin s' u) (.fin s 0) = .fin (s' != s) 0 ∧
     (u ≠ 0 → div (.fin s 0) (.fin s' u) = .fin (s != s') 0)) := by
  have hne : s ≠ !s := by cases s <;> simp
  refine ⟨⟨rfl, add_nan_right x, rfl, sub_nan_right x, rfl, mul_nan_right x, rfl, div_nan_right x⟩,
    ⟨?_, ?_, ?_, ?_, ?_, rfl⟩, ⟨?_, rfl, rfl, rfl, rfl, ?_, rfl⟩, ⟨?_, rfl⟩,
    ⟨?_, ?_, ?_, ?_, ?_, ?_, ?_, ?_, ?_⟩⟩
  · simp only [add]; rw [if_neg hne]
  · simp only [sub, add, V.neg]; rw [if_neg hne]
  · simp [mul]
  · simp [mul]
  · simp [div]
  · simp [add]
  · intro hu; simp [mul, hu]
  · intro ha; simp [div, ha]
  · simp only [add, addFin, if_true, Nat.add_zero, roundU_zero]; rfl
  · simp [add, addFin]
  · simp [add, addFin]
  · simp only [add, addFin, if_true, Nat.add_zero, roundU_zero]; rfl
  · simp only [add, addFin]; rw [if_neg hne]; simp
  · simp only [sub, add, V.neg, addFin]; rw [if_neg hne]; simp
  · simp only [mul, Nat.zero_mul, roundU_zero]; rfl
  · simp only [mul, Nat.mul_zero, roundU_zero]; rfl
  · intro hu
    simp only [div]
    rw [if_neg hu]
    simp only [divU, Nat.zero_mul, roundQ, rneQ, Nat.zero_div, Nat.zero_mod, bitlen_zero]
    rw [if_neg (by have := Nat.mul_pos (Nat.pos_of_ne_zero hu) (Nat.two_pow_pos (0 - 53)); omega)]
    rw [Nat.zero_mul, mk_zero]; rfl

/-- signs of finite products and quotients, and the sign of a sum: the result of a finite product
or quotient carries the exclusive or of the signs (also when it rounds to zero or overflows); the
sum of like-signed operands carries their sign -/
theorem f64_sign_rules (sa sb : Bool) (a b : Nat) :
    (∃ r, mul (.fin sa a) (.fin sb b) = signed (sa != sb) r ∧ r ≠ .nan) ∧
    (b ≠ 0 → ∃ r, div (.fin sa a) (.fin sb b) = signed (sa != sb) r ∧ r ≠ .nan) ∧
    (∃ r, add (.fin sa a) (.fin sa b) = signed sa r ∧ r ≠ .nan) := by
  refine ⟨⟨_, rfl, roundU_ne_nan _ _⟩, ?_, ⟨roundU (a + b) 0, ?_, roundU_ne_nan _ _⟩⟩
  · intro hb
    refine ⟨divU a b, ?_, ?_⟩
    · simp only [div]; rw [if_neg hb]
    · simp only [divU]; exact mk_ne_nan _
  · simp only [add, addFin, if_true]

/-! ## the extracted shortcuts of `terminal_bin` -/

open OxiddModel.Generated in
/-- **every extracted arm of the Rust `terminal_bin` is an identity of this `F64` model**: for every
operator block of the decision lists extracted from `crates/oxidd-rules-mtbdd/src/lib.rs`, every
combination of operand classes, all values `x`, `y` an `F64` can hold and every consistent outcome of
`f == g` / `f > g`, the first matching arm exists and its result has the value `f64ExactOps.sem op x y`
(the same statement as `terminal_cases_sound_mtbdd_i64`, now for the float terminals). -/
theorem terminal_cases_sound_mtbdd_f64 (op : Mt.MOp) (rs : List Mt.MRule)
    (hmem : (op, rs) ∈ termRules_mtbdd) (tf tg : Bool) (x y : Ieee.V) (eq gt : Bool)
    (hx : Ieee.Normal x) (hy : Ieee.Normal y) (heq : eq = true → x = y) :
    ∃ r, Mt.firstMatch f64ExactOps rs tf tg x y eq gt = some r ∧
      Mt.resValue f64ExactOps r.res x y = f64ExactOps.sem op.toOp x y := by
  have h := List.all_eq_true.1 terminal_cases_ok_mtbdd (op, rs) hmem
  exact Mt.rules_sound f64_terminalLaws f64_terminalComm_mt op rs h tf tg x y eq gt hx hy heq

open OxiddModel.Generated in
/-- non-vacuity: on an inner `f` and the terminal `1.0` the `Div` block takes the shortcut `f / 1 ⇒ f` -/
example : ∃ rs, (Mt.MOp.div, rs) ∈ termRules_mtbdd ∧
    (Mt.firstMatch f64ExactOps rs false true (.fin false 3) Ieee.one false false).map (·.res)
      = some (.clone .f) := by
  refine ⟨_, List.mem_cons_of_mem _ (List.mem_cons_of_mem _ (List.mem_cons_of_mem _
    (List.mem_cons_self ..))), by decide +kernel⟩

open OxiddModel.Generated in
/-- **shortcut laws that are FALSE for floats** — and none of them is used: `terminal_bin` has no arm
of these shapes (`Mt.shapeOK` rejects them, and `terminal_cases_ok_mtbdd` says every extracted arm
passes `shapeOK`).
* `0 · x = 0` fails for `x = ∞` and `x = NaN` (the source comment says so);
* `x − x = 0` and `x / x = 1` fail for `x = ∞` (NaN);
* `0 − x = x` (the historic defect) fails for `x = 1`;
* `0 / x = 0` fails for `x = 0`;
* on *raw* `f64` values (without the normalisation of `F64`) even the used laws fail:
  `0 + (−0) = +0 ≠ −0`, and `min` is not commutative on `±0`. -/
theorem f64_false_shortcuts :
    (fmul Ieee.zero (.inf false) ≠ Ieee.zero ∧ fmul Ieee.zero .nan ≠ Ieee.zero) ∧
    (fsub (.inf false) (.inf false) ≠ Ieee.zero ∧ fdiv (.inf false) (.inf false) ≠ Ieee.one) ∧
    fsub Ieee.zero Ieee.one ≠ Ieee.one ∧
    fdiv Ieee.zero Ieee.zero ≠ Ieee.zero ∧
    (add Ieee.zero (.fin true 0) ≠ .fin true 0 ∧
      f64ExactOps.min (.fin false 0) (.fin true 0) ≠ f64ExactOps.min (.fin true 0) (.fin false 0)) ∧
    (Mt.shapeOK .mul ⟨.fIs .zero, .clone .f⟩ = false ∧ Mt.shapeOK .mul ⟨.gIs .zero, .clone .g⟩ = false ∧
      Mt.shapeOK .sub ⟨.eq, .clone .f⟩ = false ∧ Mt.shapeOK .div ⟨.eq, .clone .f⟩ = false ∧
      Mt.shapeOK .sub ⟨.fIs .zero, .clone .g⟩ = false ∧ Mt.shapeOK .div ⟨.fIs .zero, .clone .f⟩ = false) := by
  decide +kernel

/-! ## data and bit patterns -/

/-- **decoding and encoding are inverse to each other**: every 64-bit pattern that is not a NaN is
the encoding of its datum; every representable datum is the decoding of its encoding (so the
encoding is injective and `==`/`Hash` on bits are equality of data); decoding always gives a
representable datum; all NaN patterns decode to the one `nan`, encoded as `f64::NAN`. -/
theorem ieee_bits_roundtrip :
    (∀ b, b < 2 ^ 64 → ofBits b ≠ .nan → toBits (ofBits b) = b) ∧
    (∀ x : Ieee.V, x.Rep → ofBits (toBits x) = x ∧ toBits x < 2 ^ 64) ∧
    (∀ b, (ofBits b).Rep) ∧
    (∀ b, ofBits b = .nan ↔ b / 2 ^ 52 % 2 ^ 11 = 2047 ∧ b % 2 ^ 52 ≠ 0) ∧
    toBits .nan = 0x7ff8000000000000 := by
  refine ⟨toBits_ofBits, fun x h => ⟨ofBits_toBits x h, toBits_lt x h⟩, ofBits_rep, ?_, rfl⟩
  intro b
  simp only [ofBits]
  split
  · simp_all
  split
  · split <;> simp_all
  · simp_all

example : ofBits 0xfff4_0000_dead_beef = .nan ∧ ofBits 0x8000000000000000 = .fin true 0 ∧
    ofBits 0x3ff0000000000000 = Ieee.one ∧ toBits (.fin false (2 ^ 1074 + 2 ^ 1022)) = 0x3ff0000000000001
    := by decide +kernel

end OxiddModel.Mtbdd
