import OxiddModel.Mtbdd.PropertiesF64

/-!
# C10 — the bit-pattern instance `f64Ops` of the driver satisfies the terminal laws

`Mtbdd/F64.lean` (the `F64` arithmetic the `mtbdd` driver runs: `UInt64` bit patterns) is now
`enc ∘ normalise ∘ (IEEE-754 operation of Num/Ieee.lean) ∘ dec`.  This file transfers the theorems of
`PropertiesF64.lean` (stated on data `Ieee.V`) along `dec`/`enc`, which are inverse to each other on
normalised patterns, and so **discharges the hypothesis of `mtbdd_apply_sem_f64_partial`**:
`TerminalLaws f64Ops F64.Normal` is a theorem (`f64_bits_terminal_laws`), as are closure and
commutativity; `mtbdd_apply_sem_f64_bits` is the unconditional lifting for the very functions the
stream `mtbdd` compares with the Rust `F64` bit for bit.
-/
namespace OxiddModel.Mtbdd
open OxiddModel.Num OxiddModel.Num.Ieee

namespace F64

theorem dec_enc {x : Ieee.V} (h : x.Rep) : dec (enc x) = x := by
  simp only [dec, enc, UInt64.toNat_ofNat']
  rw [Nat.mod_eq_of_lt (toBits_lt x h), ofBits_toBits x h]

theorem enc_dec {b : UInt64} (h : dec b ≠ .nan) : enc (dec b) = b := by
  simp only [enc, dec] at h ⊢
  rw [toBits_ofBits _ b.toNat_lt h]
  exact UInt64.ofNat_toNat

theorem enc_nan : enc .nan = NAN_BITS := by decide +kernel
theorem dec_nan : dec NAN_BITS = .nan := by decide +kernel
theorem dec_zero : dec 0 = Ieee.zero := by decide +kernel
theorem dec_one : dec 0x3ff0000000000000 = Ieee.one := by decide +kernel
theorem enc_zero : enc Ieee.zero = 0 := by decide +kernel
theorem enc_one : enc Ieee.one = 0x3ff0000000000000 := by decide +kernel

/-- a normalised pattern is the encoding of the admissible datum it decodes to -/
theorem normal_dec {b : UInt64} (h : F64.Normal b) : Ieee.Normal (dec b) ∧ enc (dec b) = b := by
  have hx : Ieee.Normal (normalise (dec b)) := fromBits_normal b.toNat
  have hb : enc (normalise (dec b)) = b := h
  have hd : dec b = normalise (dec b) := by
    have := dec_enc hx.1
    rw [hb] at this
    exact this
  rw [hd]
  exact ⟨hx, hb⟩

/-- the encoding of an admissible datum is a normalised pattern -/
theorem normal_enc {x : Ieee.V} (h : Ieee.Normal x) : F64.Normal (enc x) := by
  show enc (normalise (dec (enc x))) = enc x
  rw [dec_enc h.1, normal_of_normalise h]

theorem add_eq (a b : UInt64) : F64.add a b = enc (fadd (dec a) (dec b)) := rfl
theorem sub_eq (a b : UInt64) : F64.sub a b = enc (fsub (dec a) (dec b)) := rfl
theorem mul_eq (a b : UInt64) : F64.mul a b = enc (fmul (dec a) (dec b)) := rfl
theorem div_eq (a b : UInt64) : F64.div a b = enc (fdiv (dec a) (dec b)) := rfl

theorem eq_nan_iff {b : UInt64} (h : F64.Normal b) : b = NAN_BITS ↔ dec b = .nan := by
  constructor
  · rintro rfl; exact dec_nan
  · intro e
    have := (normal_dec h).2
    rw [e, enc_nan] at this
    exact this.symm

/-- on normalised patterns `partial_cmp` of `F64` is the comparison of the decoded data -/
theorem partialCmp_eq {a b : UInt64} (ha : F64.Normal a) (hb : F64.Normal b) :
    F64.partialCmp a b = pcmp (dec a) (dec b) := by
  unfold F64.partialCmp
  by_cases h1 : a = NAN_BITS
  · rw [if_pos h1, (eq_nan_iff ha).1 h1]
    by_cases h2 : b = NAN_BITS
    · rw [if_pos h2, (eq_nan_iff hb).1 h2]; rfl
    · rw [if_neg h2]
      have : dec b ≠ .nan := fun e => h2 ((eq_nan_iff hb).2 e)
      cases hd : dec b <;> simp_all [pcmp]
  · rw [if_neg h1]
    have hna : dec a ≠ .nan := fun e => h1 ((eq_nan_iff ha).2 e)
    by_cases h2 : dec b = .nan
    · rw [if_pos (Or.inr h2), h2]
      cases hd : dec a <;> simp_all [pcmp]
    · rw [if_neg (by simp [hna, h2])]

theorem min_eq {a b : UInt64} (ha : F64.Normal a) (hb : F64.Normal b) :
    f64Ops.min a b = enc (f64ExactOps.min (dec a) (dec b)) := by
  simp only [TermOps.min, f64Ops, f64ExactOps, partialCmp_eq ha hb]
  cases pcmp (dec a) (dec b) with
  | none => exact enc_nan.symm
  | some o => cases o <;> simp only [(normal_dec ha).2, (normal_dec hb).2]

theorem max_eq {a b : UInt64} (ha : F64.Normal a) (hb : F64.Normal b) :
    f64Ops.max a b = enc (f64ExactOps.max (dec a) (dec b)) := by
  simp only [TermOps.max, f64Ops, f64ExactOps, partialCmp_eq ha hb]
  cases pcmp (dec a) (dec b) with
  | none => exact enc_nan.symm
  | some o => cases o <;> simp only [(normal_dec ha).2, (normal_dec hb).2]

theorem nan_normal : F64.Normal NAN_BITS := by
  show F64.ofBits NAN_BITS = NAN_BITS; decide +kernel

end F64

open F64

/-- **`TerminalLaws f64Ops F64.Normal`** — exactly the hypothesis of `mtbdd_apply_sem_f64_partial`,
now a theorem (for the bit-pattern functions the `mtbdd` driver executes) -/
theorem f64_bits_terminal_laws : TerminalLaws f64Ops F64.Normal where
  zero_ne_one := by decide
  zero_add x hx := by
    have h : fadd Ieee.zero (dec x) = dec x := f64_terminalLaws.zero_add _ (normal_dec hx).1
    show F64.add 0 x = x
    rw [add_eq, dec_zero, h, (normal_dec hx).2]
  add_zero x hx := by
    have h : fadd (dec x) Ieee.zero = dec x := f64_terminalLaws.add_zero _ (normal_dec hx).1
    show F64.add x 0 = x
    rw [add_eq, dec_zero, h, (normal_dec hx).2]
  sub_zero x hx := by
    have h : fsub (dec x) Ieee.zero = dec x := f64_terminalLaws.sub_zero _ (normal_dec hx).1
    show F64.sub x 0 = x
    rw [sub_eq, dec_zero, h, (normal_dec hx).2]
  one_mul x hx := by
    have h : fmul Ieee.one (dec x) = dec x := f64_terminalLaws.one_mul _ (normal_dec hx).1
    show F64.mul 0x3ff0000000000000 x = x
    rw [mul_eq, dec_one, h, (normal_dec hx).2]
  mul_one x hx := by
    have h : fmul (dec x) Ieee.one = dec x := f64_terminalLaws.mul_one _ (normal_dec hx).1
    show F64.mul x 0x3ff0000000000000 = x
    rw [mul_eq, dec_one, h, (normal_dec hx).2]
  div_one x hx := by
    have h : fdiv (dec x) Ieee.one = dec x := f64_terminalLaws.div_one _ (normal_dec hx).1
    show F64.div x 0x3ff0000000000000 = x
    rw [div_eq, dec_one, h, (normal_dec hx).2]
  nan_add x hx := by
    have h : fadd .nan (dec x) = .nan := f64_terminalLaws.nan_add _ (normal_dec hx).1
    show F64.add F64.NAN_BITS x = F64.NAN_BITS
    rw [add_eq, dec_nan, h]; exact enc_nan
  add_nan x hx := by
    have h : fadd (dec x) .nan = .nan := f64_terminalLaws.add_nan _ (normal_dec hx).1
    show F64.add x F64.NAN_BITS = F64.NAN_BITS
    rw [add_eq, dec_nan, h]; exact enc_nan
  nan_sub x hx := by
    have h : fsub .nan (dec x) = .nan := f64_terminalLaws.nan_sub _ (normal_dec hx).1
    show F64.sub F64.NAN_BITS x = F64.NAN_BITS
    rw [sub_eq, dec_nan, h]; exact enc_nan
  sub_nan x hx := by
    have h : fsub (dec x) .nan = .nan := f64_terminalLaws.sub_nan _ (normal_dec hx).1
    show F64.sub x F64.NAN_BITS = F64.NAN_BITS
    rw [sub_eq, dec_nan, h]; exact enc_nan
  nan_mul x hx := by
    have h : fmul .nan (dec x) = .nan := f64_terminalLaws.nan_mul _ (normal_dec hx).1
    show F64.mul F64.NAN_BITS x = F64.NAN_BITS
    rw [mul_eq, dec_nan, h]; exact enc_nan
  mul_nan x hx := by
    have h : fmul (dec x) .nan = .nan := f64_terminalLaws.mul_nan _ (normal_dec hx).1
    show F64.mul x F64.NAN_BITS = F64.NAN_BITS
    rw [mul_eq, dec_nan, h]; exact enc_nan
  nan_div x hx := by
    have h : fdiv .nan (dec x) = .nan := f64_terminalLaws.nan_div _ (normal_dec hx).1
    show F64.div F64.NAN_BITS x = F64.NAN_BITS
    rw [div_eq, dec_nan, h]; exact enc_nan
  div_nan x hx := by
    have h : fdiv (dec x) .nan = .nan := f64_terminalLaws.div_nan _ (normal_dec hx).1
    show F64.div x F64.NAN_BITS = F64.NAN_BITS
    rw [div_eq, dec_nan, h]; exact enc_nan
  nan_min x hx := by
    have h : f64ExactOps.min .nan (dec x) = .nan := f64_terminalLaws.nan_min _ (normal_dec hx).1
    show f64Ops.min F64.NAN_BITS x = F64.NAN_BITS
    rw [min_eq nan_normal hx, dec_nan, h]; exact enc_nan
  min_nan x hx := by
    have h : f64ExactOps.min (dec x) .nan = .nan := f64_terminalLaws.min_nan _ (normal_dec hx).1
    show f64Ops.min x F64.NAN_BITS = F64.NAN_BITS
    rw [min_eq hx nan_normal, dec_nan, h]; exact enc_nan
  nan_max x hx := by
    have h : f64ExactOps.max .nan (dec x) = .nan := f64_terminalLaws.nan_max _ (normal_dec hx).1
    show f64Ops.max F64.NAN_BITS x = F64.NAN_BITS
    rw [max_eq nan_normal hx, dec_nan, h]; exact enc_nan
  max_nan x hx := by
    have h : f64ExactOps.max (dec x) .nan = .nan := f64_terminalLaws.max_nan _ (normal_dec hx).1
    show f64Ops.max x F64.NAN_BITS = F64.NAN_BITS
    rw [max_eq hx nan_normal, dec_nan, h]; exact enc_nan
  min_self x hx := by
    rw [min_eq hx hx, f64_terminalLaws.min_self _ (normal_dec hx).1, (normal_dec hx).2]
  max_self x hx := by
    rw [max_eq hx hx, f64_terminalLaws.max_self _ (normal_dec hx).1, (normal_dec hx).2]

/-- normalised patterns are closed under the operations -/
theorem f64_bits_terminal_closed : TerminalClosed f64Ops F64.Normal where
  ok_zero := by show F64.ofBits 0 = 0; decide +kernel
  ok_one := by show F64.ofBits 0x3ff0000000000000 = 0x3ff0000000000000; decide +kernel
  ok_nan := nan_normal
  ok_add x y _ _ := normal_enc (normalise_normal _ (add_rep _ _))
  ok_sub x y _ _ := normal_enc (normalise_normal _ (sub_rep _ _))
  ok_mul x y _ _ := normal_enc (normalise_normal _ (mul_rep _ _))
  ok_div x y _ _ := normal_enc (normalise_normal _ (div_rep _ _))

/-- `add`, `mul`, `min`, `max` commute on normalised patterns -/
theorem f64_bits_terminal_comm : Refine.TerminalComm f64Ops F64.Normal where
  add_comm x y _ _ := by show F64.add x y = F64.add y x; rw [add_eq, add_eq, fadd, fadd, Ieee.add_comm]
  mul_comm x y _ _ := by show F64.mul x y = F64.mul y x; rw [mul_eq, mul_eq, fmul, fmul, Ieee.mul_comm]
  min_comm x y hx hy := by
    rw [min_eq hx hy, min_eq hy hx, F64Exact.min_comm (normal_dec hx).1 (normal_dec hy).1]
  max_comm x y hx hy := by
    rw [max_eq hx hy, max_eq hy hx, F64Exact.max_comm (normal_dec hx).1 (normal_dec hy).1]

/-- **the lifting for `F64` terminals on bit patterns, unconditional**: `mtbdd_apply_sem_f64_partial`
with its hypothesis discharged -/
theorem mtbdd_apply_sem_f64_bits (op : Op) (f g : MT UInt64) (hf : f.All F64.Normal)
    (hg : g.All F64.Normal) (σ : Nat → Bool) :
    (applyBin f64Ops op f g).eval σ = f64Ops.sem op (f.eval σ) (g.eval σ) ∧
    (applyBin f64Ops op f g).All F64.Normal :=
  ⟨mtbdd_apply_sem_f64_partial f64_bits_terminal_laws op f g hf hg σ,
    applyBin_all f64_bits_terminal_closed op f g hf hg⟩

namespace StoreLevel
open OxiddModel.Mtbdd.Refine OxiddModel.CachePolicy

/-- store level on bit patterns: `apply_bin::<OP>` with hash-consed terminals and the apply cache
refines `applyBin f64Ops op`, and the returned edge evaluates to the pointwise operation -/
theorem applyS_spec_f64_bits (gt : Edge → Edge → Bool) {p : APolicy} (pok : p.OK) (op : Op)
    (fuel : Nat) (st : St UInt64) (f g : Edge) (a b : MT UInt64)
    (hu : st.store.Unique) (hok : st.store.TermsOK F64.Normal)
    (hc : CacheOK f64Ops st.store st.cache)
    (hf : Denotes st.store f a) (hg : Denotes st.store g b) (hfuel : a.size + b.size ≤ fuel) :
    let R := applyS f64Ops gt tagOf p op fuel st f g
    (Denotes R.1.store R.2 (applyBin f64Ops op a b) ∧ st.store.Le R.1.store ∧
      R.1.store.Unique ∧ R.1.store.TermsOK F64.Normal ∧ CacheOK f64Ops R.1.store R.1.cache) ∧
    ∀ σ, (applyBin f64Ops op a b).eval σ = f64Ops.sem op (a.eval σ) (b.eval σ) :=
  ⟨applyS_spec f64_bits_terminal_closed f64_bits_terminal_comm gt pok op fuel st f g a b hu hok hc
      hf hg hfuel,
    fun σ => applyBin_sem f64_bits_terminal_laws op a b σ (hf.all hok) (hg.all hok)⟩

end StoreLevel

/-- the bit-pattern operations are the exact model's, through the encoding: e.g. the sum of two
normalised patterns is the pattern of the correctly rounded IEEE-754 sum of their data -/
theorem f64_bits_ops_spec (a b : UInt64) :
    F64.add a b = F64.enc (fadd (F64.dec a) (F64.dec b)) ∧
    F64.sub a b = F64.enc (fsub (F64.dec a) (F64.dec b)) ∧
    F64.mul a b = F64.enc (fmul (F64.dec a) (F64.dec b)) ∧
    F64.div a b = F64.enc (fdiv (F64.dec a) (F64.dec b)) ∧
    (F64.Normal a → F64.Normal b → F64.partialCmp a b = pcmp (F64.dec a) (F64.dec b)) ∧
    (F64.Normal a → Ieee.Normal (F64.dec a) ∧ F64.enc (F64.dec a) = a) ∧
    (∀ x, Ieee.Normal x → F64.Normal (F64.enc x) ∧ F64.dec (F64.enc x) = x) :=
  ⟨rfl, rfl, rfl, rfl, partialCmp_eq, normal_dec, fun _ h => ⟨normal_enc h, dec_enc h.1⟩⟩

-- non-vacuity: `0.1 + 0.2` on patterns, and a diagram with float terminals
example : F64.add 0x3fb999999999999a 0x3fc999999999999a = 0x3fd3333333333334 := by decide +kernel
example : F64.Normal 0x3fb999999999999a ∧ ¬ F64.Normal 0x8000000000000000 ∧
    ¬ F64.Normal 0xfff8000000000000 := by
  show F64.ofBits _ = _ ∧ ¬ F64.ofBits _ = _ ∧ ¬ F64.ofBits _ = _; decide +kernel
example : applyBin f64Ops .div (var f64Ops 0) (var f64Ops 1)
    = .node 0 (.node 1 (.leaf 0x3ff0000000000000) (.leaf 0x7ff0000000000000))
              (.node 1 (.leaf 0) (.leaf F64.NAN_BITS)) := by decide +kernel

end OxiddModel.Mtbdd
