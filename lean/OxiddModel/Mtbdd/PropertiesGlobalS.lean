import OxiddModel.Mtbdd.GlobalSReorder
import OxiddModel.Mtbdd.PropertiesQueriesS

/-!
# C01 / C03 / C05 / C08 — ONE store-level history theorem for MTBDDs

Property C01: *"two function handles compare equal if and only if they denote the same function
over the manager's variables (… the same value table for MTBDD and TDD handles) … regardless of
the sequence of operations, handle drops, garbage collections, variable additions and reorderings
through which the two handles were obtained."*

`GlobalS.lean` defines ONE manager state for MTBDDs over an arbitrary terminal type `T` (node store
with stored level numbers, **hash-consed terminal table**, one reference counter per inner slot and
per terminal slot, apply cache, `gc_count`, the order `{v2l, l2v}`, the handle table) and ONE step
function: `const` (under a terminal capacity), `var`, the six arithmetic operators, `ite` (each
under its own pair of capacities: succeeding or failing with OutOfMemory of the node store or of
the terminal store at any allocation point), `clone`, `drop`, `gc` (inner levels, then the terminal
sweep), `add_vars`, `set_var_order` (through the bridge to `Reorder/SwapStoreN.lean`). The theorems
below hold for **every history** (`List (Step T)`, no bound, no side condition) from the empty
manager, for **every configuration** `Cfg.OK` (cache policy, edge order, slot allocator and table
iteration order of the reordering) and every terminal algebra satisfying `AlgOK` (the hypotheses
of the existing spec theorems, on `L` only; proved for `I64`: `i64_algOK`):

* `global_inv`; `global_semantics` (+ `ghost_unchanged`, `handles_unchanged`); `global_canonical`
  (C01: same edge iff same value table) and the ghost-free `global_canonical_den`;
  `global_gc_exact` (C05: exactly the reachable inner nodes **and terminals** remain);
  `global_node_count` (C03).

The proofs compose the existing developments: counters `RcS*` (C05), `applyS_spec/iteS_spec`
(C06/C10) through erasure, `applyBin_sem`, `mtbdd_setVarOrder_correct` (C08, any arity),
`nodeCountS_spec` (C03), `canon` (C01 on trees). New: `RcSLemmasSem.lean` (hash consing, cache
soundness, reducedness on **failing** runs), the bridge (`GlobalSBridge.lean`,
`GlobalSTermEdges.lean`), the size bound that makes the fuel a function of `n`, `applyIte_eval`.
-/
set_option linter.unusedSectionVars false

namespace OxiddModel.Mtbdd.Global
open OxiddModel.Mtbdd OxiddModel.Mtbdd.Refine OxiddModel.Mtbdd.Rc OxiddModel.CachePolicy
open OxiddModel.Reorder

variable {T : Type} [DecidableEq T]

/-! ## the empty manager, induction over the history -/

theorem empty_termsOK (ok : T → Prop) : (Store.empty : Store T).TermsOK ok := by
  intro i v h
  simp [Store.getTerm?, Store.empty, Slots.get?] at h

theorem ginv_empty (L : TermOps T) (ok : T → Prop) : GInv L ok (GSt.empty : GSt T) where
  rc := C05R.rcinv_empty
  ord := C05R.ordinv_empty 0
  inv := ⟨Store.empty_unique, empty_termsOK ok, CacheOK.nil _ _⟩
  nored := Store.empty_nored
  perm := ordOK_empty

theorem foldl_inv {E : Alg T} {ok : T → Prop} (A : AlgOK E ok) {c : Cfg} (hc : c.OK) :
    ∀ (hist : List (Step T)) (x : GSt T × List (Expr T)), GInv E.L ok x.1 → Sem E.L x.1 x.2 →
    GInv E.L ok (hist.foldl (fun x s => (step E c x.1 s, track E c x.1 x.2 s)) x).1 ∧
    Sem E.L (hist.foldl (fun x s => (step E c x.1 s, track E c x.1 x.2 s)) x).1
      (hist.foldl (fun x s => (step E c x.1 s, track E c x.1 x.2 s)) x).2 := by
  intro hist
  induction hist with
  | nil => intro x hi hs; exact ⟨hi, hs⟩
  | cons s rest ih =>
    intro x hi hs
    obtain ⟨h1, h2⟩ := step_inv A hc hi hs s
    exact ih _ h1 h2

/-- the invariant and the meaning of all handles, after every history -/
theorem run_inv {E : Alg T} {ok : T → Prop} (A : AlgOK E ok) {c : Cfg} (hc : c.OK)
    (hist : List (Step T)) :
    GInv E.L ok (run E c hist) ∧ Sem E.L (run E c hist) (runT E c hist).2 := by
  rw [← runT_fst]
  exact foldl_inv A hc hist (GSt.empty, []) (ginv_empty _ _) .nil

theorem run_append (E : Alg T) (c : Cfg) (hist : List (Step T)) (s : Step T) :
    run E c (hist ++ [s]) = step E c (run E c hist) s := by
  simp [run, List.foldl_append]

/-! ## `global_inv` -/

/-- **`global_inv`.** After every history: (1) inner children lie on strictly larger levels
(ordered w.r.t. the stored level numbers = the current order, see `global_semantics`), (2) all
levels are `< n`, (3) no node has equal children (reduced), (4) no two node slots hold the same
node **and no two terminal slots the same value** (hash consed), (5) every stored terminal value is
admissible, (6) every cache entry is the result its key specifies, (7) `v2l` and `l2v` have `n`
entries and are mutually inverse, (8) every handle and every child edge points to a stored node or
terminal, (9) the counter of every stored inner node **and of every stored terminal** is
`1 + #handles on it + #stored parent edges` (the `1` is the unique table's / terminal table's
reference), and (10) the per-level unique tables, as the reordering code sees them, satisfy
`SwapStoreN.Inv 2`. -/
theorem global_inv {E : Alg T} {ok : T → Prop} (A : AlgOK E ok) {c : Cfg} (hc : c.OK)
    (hist : List (Step T)) :
    let g := run E c hist
    Rc.Ordered g.r.st.store ∧
    (∀ i nd, g.r.st.store.get? i = some nd → nd.level < g.n) ∧
    g.r.st.store.NoRed ∧
    (Slots.Unique g.r.st.store.nodes ∧ Slots.Unique g.r.st.store.terms) ∧
    g.r.st.store.TermsOK ok ∧
    CacheOK E.L g.r.st.store g.r.st.cache ∧
    OrdOK g.n g.v2l g.l2v ∧
    ((∀ x ∈ g.hs, Has g.r.st.store x) ∧
      ∀ i nd, g.r.st.store.get? i = some nd → Has g.r.st.store nd.t ∧ Has g.r.st.store nd.e) ∧
    (∀ x, Has g.r.st.store x → g.r.rcOf x = 1 + g.hs.count x + parents g.r.st.store x) ∧
    SwapStoreN.Inv 2 (extOfHs g.hs) (toS g.r g.n) := by
  intro g
  have h := (run_inv A hc hist).1
  exact ⟨h.ord.ord, h.ord.bound, h.nored, h.uniq, h.inv.2.1, h.inv.2.2, h.perm,
    ⟨h.rc.ext_ok, h.rc.kids_ok⟩, h.rc.rc_eq, h.sinv⟩

/-! ## `global_semantics` -/

/-- **`global_semantics`.** After every history the ghost list has one expression per handle, and
every handle denotes a tree in normal form whose value under every assignment `ρ` of the VARIABLES
(through the current `l2v`) is the value `e.fn ρ : T` of the expression that produced the handle:
constants, `x_v ↦ 1 / 0`, the scalar operation applied pointwise, and `ite` with the code's
meaning (condition `zero` → else-operand, any other terminal → then-operand). -/
theorem global_semantics {E : Alg T} {ok : T → Prop} (A : AlgOK E ok) {c : Cfg} (hc : c.OK)
    (hist : List (Step T)) :
    let g := run E c hist
    let es := (runT E c hist).2
    es.length = g.hs.length ∧
    ∀ (i : Nat) (x : Edge), g.hs[i]? = some x → ∃ (e : Expr T) (t : MT T), es[i]? = some e ∧
      Denotes g.r.st.store x t ∧ NF t ∧ ∀ ρ : Nat → Bool, evalL g.l2v ρ t = e.fn E.L ρ := by
  intro g es
  obtain ⟨hi, hs⟩ := run_inv A hc hist
  refine ⟨forall₂_length hs, fun i x hx => ?_⟩
  obtain ⟨e, he, t, hd, hev⟩ := forall₂_get hs hx
  exact ⟨e, t, he, hd, hi.nf hd, hev⟩

/-- **`ghost_unchanged`.** `gc`, `add_vars`, `set_var_order` and operations that fail with
OutOfMemory push nothing and change no handle's expression: by `global_semantics` for the longer
history every old handle still denotes the function it denoted. -/
theorem ghost_unchanged (E : Alg T) (c : Cfg) (g : GSt T) (es : List (Expr T)) :
    track E c g es .gc = es ∧ (∀ k, track E c g es (.addVars k) = es) ∧
    (∀ o, track E c g es (.setVarOrder o) = es) ∧
    (∀ s r', opRes E c g s = some (none, r') → track E c g es s = es) := by
  refine ⟨rfl, fun _ => rfl, fun _ => rfl, ?_⟩
  intro s r' h
  cases s with
  | clone a => simp [opRes] at h
  | drop a => simp [opRes] at h
  | gc => rfl
  | addVars k => rfl
  | setVarOrder o => rfl
  | const caps v => simp only [track, h]
  | var caps v => simp only [track, h]
  | bin caps op a b => simp only [track, h]
  | ite caps a b d => simp only [track, h]

/-- … and the handle list itself is the old one after these steps -/
theorem handles_unchanged (E : Alg T) (c : Cfg) (g : GSt T) :
    (step E c g .gc).hs = g.hs ∧ (∀ k, (step E c g (.addVars k)).hs = g.hs) ∧
    (∀ o, (step E c g (.setVarOrder o)).hs = g.hs) ∧
    (∀ s r', opRes E c g s = some (none, r') → (step E c g s).hs = g.hs) := by
  refine ⟨rfl, fun _ => rfl, fun o => ?_, ?_⟩
  · simp only [step, reorder]
    split <;> rfl
  · intro s r' h
    cases s with
    | clone a => simp [opRes] at h
    | drop a => simp [opRes] at h
    | gc => rfl
    | addVars k => rfl
    | setVarOrder o => simp [opRes] at h
    | const caps v => simp only [step, h, pushOp]
    | var caps v => simp only [step, h, pushOp]
    | bin caps op a b => simp only [step, h, pushOp]
    | ite caps a b d => simp only [step, h, pushOp]

/-! ## `global_canonical` (C01) -/

/-- **`global_canonical`.** After every history two handles are the same edge (`==`, and hence
`Hash`/`Ord`, which are functions of the edge) **iff** the expressions that produced them specify
the same value table: the same `T`-valued function of the variables. -/
theorem global_canonical {E : Alg T} {ok : T → Prop} (A : AlgOK E ok) {c : Cfg} (hc : c.OK)
    (hist : List (Step T)) :
    let g := run E c hist
    let es := (runT E c hist).2
    ∀ (i j : Nat) (x y : Edge) (ex ey : Expr T), g.hs[i]? = some x → g.hs[j]? = some y →
      es[i]? = some ex → es[j]? = some ey →
      (x = y ↔ ∀ ρ : Nat → Bool, ex.fn E.L ρ = ey.fn E.L ρ) := by
  intro g es i j x y ex ey hx hy hex hey
  obtain ⟨hi, hs⟩ := run_inv A hc hist
  obtain ⟨ex', hex', tx, hdx, hevx⟩ := forall₂_get hs hx
  obtain ⟨ey', hey', ty, hdy, hevy⟩ := forall₂_get hs hy
  have e1 : ex' = ex := by
    have : es[i]? = some ex' := hex'
    rw [hex] at this; cases this; rfl
  have e2 : ey' = ey := by
    have : es[j]? = some ey' := hey'
    rw [hey] at this; cases this; rfl
  subst e1 e2
  constructor
  · intro hxy ρ
    subst hxy
    rw [← hevx ρ, ← hevy ρ, hdx.functional hdy]
  · intro hfn
    have htt : tx = ty := canon tx ty (hi.nf hdx) (hi.nf hdy)
      (eval_of_evalL hi.perm (fun ρ => by rw [hevx ρ, hevy ρ, hfn ρ]))
    subst htt
    exact inj_of_unique hi.uniq _ _ _ hdx hdy

/-- the same without the ghost: for any two handles and the trees they denote, equality of the
edges is equality of the value tables (functions of the variables under the current order) -/
theorem global_canonical_den {E : Alg T} {ok : T → Prop} (A : AlgOK E ok) {c : Cfg} (hc : c.OK)
    (hist : List (Step T)) :
    let g := run E c hist
    ∀ (x y : Edge) (tx ty : MT T), x ∈ g.hs → y ∈ g.hs → Denotes g.r.st.store x tx →
      Denotes g.r.st.store y ty → (x = y ↔ ∀ ρ : Nat → Bool, evalL g.l2v ρ tx = evalL g.l2v ρ ty) := by
  intro g x y tx ty _ _ hdx hdy
  have hi := (run_inv A hc hist).1
  constructor
  · intro hxy ρ; subst hxy; rw [hdx.functional hdy]
  · intro hfn
    have htt : tx = ty := canon tx ty (hi.nf hdx) (hi.nf hdy) (eval_of_evalL hi.perm hfn)
    subst htt
    exact inj_of_unique hi.uniq _ _ _ hdx hdy

/-! ## `global_gc_exact` (C05) -/

/-- **`global_gc_exact`.** Let `g` be the state after any history and `g'` the state after one more
`gc` step (`run_append`: that is the history `hist ++ [gc]`). Then the invariant holds, the handles
are the old ones, `gc_count` is advanced, the apply cache is empty, and the stored inner nodes
**and terminals** of `g'` (`Has`: the edge names an occupied inner or terminal slot) are
**exactly** those reachable from the handles — in the store before the collection and, since every
survivor keeps its content, in the store after it; nothing else is changed; and with no handles
there is no inner node and no terminal left. -/
theorem global_gc_exact {E : Alg T} {ok : T → Prop} (A : AlgOK E ok) {c : Cfg} (hc : c.OK)
    (hist : List (Step T)) :
    let g := run E c hist
    let g' := step E c g .gc
    GInv E.L ok g' ∧ g'.hs = g.hs ∧ g'.gcCount = g.gcCount + 1 ∧ g'.r.st.cache = [] ∧
    (∀ x, Has g'.r.st.store x ↔ Reach g.r.st.store g.hs x) ∧
    (∀ x, Has g'.r.st.store x ↔ Reach g'.r.st.store g'.hs x) ∧
    Sub g'.r.st.store g.r.st.store ∧
    (g.hs = [] → g'.r.numInner = 0 ∧ g'.r.numTerms = 0) := by
  intro g g'
  obtain ⟨hi, hs⟩ := run_inv A hc hist
  have hi' : GInv E.L ok g' := (step_inv A hc hi hs .gc).1
  obtain ⟨_, hex, hsub, _⟩ := C05R.gcR_exact g.n g.r g.hs hi.rc hi.ord.ord hi.ord.bound
  have hcache := (C05R.gcR_sound g.n g.r g.hs hi.rc).2.1
  refine ⟨hi', rfl, rfl, hcache, hex, fun x => ?_, hsub, fun hnil => ?_⟩
  · constructor
    · intro h
      have hr := (hex x).mp h
      have : ∀ {y}, Reach g.r.st.store g.hs y → Reach (gcR g.n g.r).st.store g.hs y := by
        intro y hy
        induction hy with
        | root hm => exact .root hm
        | kid hp hget hkid ih =>
          exact .kid ih (has_sub_get hsub hget (gcR_keeps_reach g.n hi.rc hp)) hkid
      exact this hr
    · intro h
      exact (hex x).mpr (Reach.sub hsub h)
  · exact C05R.all_dropped_empty g.n g.r (hnil ▸ hi.rc) hi.ord.ord hi.ord.bound

/-! ## `global_node_count` (C03) -/

/-- **`global_node_count`.** After every history, for every handle: if `t` is ANY tree in normal
form (over levels) whose function of the variables **under the current order** is the function of
the handle's expression, then `node_count` of the handle (the visited-set traversal of the store,
`QueriesS.nodeCountS`) is the number of distinct nodes of `t` (inner nodes and terminals: the
length of any duplicate-free list of its subterms). Such a `t` exists (`global_semantics`) and is
unique (`canon`), so this is *the* size of the function's diagram under the current order; it may
change at a `set_var_order` step (example below). -/
theorem global_node_count {E : Alg T} {ok : T → Prop} (A : AlgOK E ok) {c : Cfg} (hc : c.OK)
    (hist : List (Step T)) :
    let g := run E c hist
    let es := (runT E c hist).2
    ∀ (i : Nat) (x : Edge) (e : Expr T), g.hs[i]? = some x → es[i]? = some e →
      ∀ t : MT T, NF t → (∀ ρ : Nat → Bool, evalL g.l2v ρ t = e.fn E.L ρ) →
        ∀ fuel, t.size < fuel → ∀ Ls : List (MT T), Ls.Nodup → (∀ u, u ∈ Ls ↔ QueriesS.Subterm u t) →
          QueriesS.nodeCountS g.r.st.store fuel x = Ls.length := by
  intro g es i x e hx he t hnf hev fuel hfuel Ls hnd hmem
  obtain ⟨hi, hs⟩ := run_inv A hc hist
  obtain ⟨e', he', t0, hd, hev0⟩ := forall₂_get hs hx
  have e1 : e' = e := by
    have : es[i]? = some e' := he'
    rw [he] at this; cases this; rfl
  subst e1
  have htt : t = t0 := canon t t0 hnf (hi.nf hd)
    (eval_of_evalL hi.perm (fun ρ => by rw [hev ρ, hev0 ρ]))
  subst htt
  exact (QueriesS.nodeCountS_spec g.r.st.store hi.uniq x t hd fuel hfuel).2 Ls hnd hmem

/-! ## non-vacuity: `I64`, one history with every kind of step -/

/-- the `I64` terminal algebra of the real manager with the executable range test -/
def i64Alg : Alg I64 := ⟨i64Ops, StoreLevel.i64ValidB⟩

/-- the hypotheses on the terminal algebra hold for `I64` -/
theorem i64_algOK : AlgOK i64Alg I64.Valid :=
  ⟨i64_terminalLaws, i64_terminalClosed, i64_terminalComm, StoreLevel.i64ValidB_sound⟩

theorem cfg_std_ok : Cfg.std.OK :=
  ⟨Policy.exact_ok, SwapStoreN.allocOK_firstFree, SwapStoreN.orderOK_id⟩

/-- another admissible configuration: no apply cache, reversed edge order, tables iterated back to
front -/
def cfgNoneRev : Cfg :=
  ⟨Policy.none, fun a b => Edge.gtIdx b a, SwapStoreN.Heap.firstFree, List.reverse⟩

theorem cfg_none_rev_ok : cfgNoneRev.OK :=
  ⟨Policy.none_ok, SwapStoreN.allocOK_firstFree, SwapStoreN.orderOK_reverse⟩

def c20 : Caps := ⟨some 20, some 20⟩

/-- Three variables. `const 1` under terminal capacity 0: OutOfMemory; `const 1` again: handle of
the terminal; `f = ite(x0, x1, x2)`; a clone; `x1 + x2` under node capacity 5 (the terminal `2` and
one inner node are created, the second inner node fails: OutOfMemory, one garbage node holding the
garbage terminal); all handles but one on `f` and the constant dropped; `gc` (the garbage node,
`x0` and the terminal `2` are freed); `set_var_order [2, 0]` (new order `x1, x2, x0`: the diagram
of `f` grows from 3 to 5 inner nodes, levels with live nodes are swapped); then the second route to
the same function with fresh variable handles: `x0·x1 + (1 − x0)·x2`; `gc`; `add_vars 1`. -/
def exHist : List (Step I64) :=
  [.addVars 3,
   .const ⟨some 20, some 0⟩ (.num 1),                    -- OutOfMemory of the terminal store
   .const c20 (.num 1),                                  -- [1]
   .var c20 0, .var c20 1, .var c20 2,                   -- [x2, x1, x0, 1]
   .ite c20 2 1 0,                                       -- [f, x2, x1, x0, 1]
   .clone 0,                                             -- [f, f, x2, x1, x0, 1]
   .bin ⟨some 5, some 20⟩ .add 3 2,                      -- OutOfMemory after one allocation
   .drop 2, .drop 2, .drop 2, .drop 0,                   -- [f, 1]
   .gc,
   .setVarOrder [2, 0],
   .var c20 0, .var c20 1, .var c20 2,                   -- [x2, x1, x0, f, 1]
   .bin c20 .mul 2 1,                                    -- [x0·x1, x2, x1, x0, f, 1]
   .bin c20 .sub 5 3,                                    -- [1−x0, x0·x1, x2, x1, x0, f, 1]
   .bin c20 .mul 0 2,                                    -- [(1−x0)·x2, 1−x0, x0·x1, …, f, 1]
   .bin c20 .add 2 0,                                    -- [x0·x1 + (1−x0)·x2, …, f, 1]
   .gc,
   .addVars 1]

/-- the failed `const`: no handle, no terminal -/
example : (run i64Alg Cfg.std (exHist.take 2)).hs = [] ∧
    (run i64Alg Cfg.std (exHist.take 2)).r.numTerms = 0 ∧
    (run i64Alg Cfg.std (exHist.take 3)).hs = [.term 0] ∧
    (run i64Alg Cfg.std (exHist.take 3)).r.trc = #[2] := by decide +kernel

/-- the failed `+`: no new handle, one inner node and one terminal of garbage -/
example : (run i64Alg Cfg.std (exHist.take 8)).hs = (run i64Alg Cfg.std (exHist.take 9)).hs ∧
    (run i64Alg Cfg.std (exHist.take 8)).r.numInner = 4 ∧
    (run i64Alg Cfg.std (exHist.take 9)).r.numInner = 5 ∧
    (run i64Alg Cfg.std (exHist.take 8)).r.numTerms = 2 ∧
    (run i64Alg Cfg.std (exHist.take 9)).r.numTerms = 3 := by decide +kernel

/-- after the drops and the collection exactly the three inner nodes of `f` and the terminals
`1`, `0` remain; the reordering rebuilds `f` with five inner nodes; the terminal counters after the
reordering are exact -/
example : (run i64Alg Cfg.std (exHist.take 14)).r.numInner = 3 ∧
    (run i64Alg Cfg.std (exHist.take 14)).r.numTerms = 2 ∧
    (run i64Alg Cfg.std (exHist.take 14)).hs = [.inner 3, .term 0] ∧
    (run i64Alg Cfg.std (exHist.take 15)).r.numInner = 5 ∧
    (run i64Alg Cfg.std (exHist.take 15)).hs = [.inner 3, .term 0] ∧
    (run i64Alg Cfg.std (exHist.take 15)).l2v = [1, 2, 0] ∧
    (run i64Alg Cfg.std (exHist.take 15)).v2l = [2, 0, 1] ∧
    (run i64Alg Cfg.std (exHist.take 15)).r.trc = #[5, 4, 1] := by decide +kernel

/-- the final state: **the two routes give the same edge** (`inner 3`, first handle and last but
one), across the reordering and two collections -/
theorem exHist_run :
    (run i64Alg Cfg.std exHist).hs =
      [.inner 3, .inner 4, .inner 1, .inner 7, .inner 6, .inner 2, .inner 5, .inner 3, .term 0] ∧
    (run i64Alg Cfg.std exHist).l2v = [1, 2, 0, 3] ∧ (run i64Alg Cfg.std exHist).v2l = [2, 0, 1, 3] ∧
    (run i64Alg Cfg.std exHist).n = 4 ∧ (run i64Alg Cfg.std exHist).gcCount = 3 ∧
    (run i64Alg Cfg.std exHist).r.rc = #[2, 3, 2, 3, 3, 4, 2, 2] ∧
    (run i64Alg Cfg.std exHist).r.trc = #[7, 7, 1] := by decide +kernel

/-- the ghost: the expressions of the nine handles -/
def exGhost : List (Expr I64) :=
  [.bin .add (.bin .mul (.var 0) (.var 1))
      (.bin .mul (.bin .sub (.const (.num 1)) (.var 0)) (.var 2)),
   .bin .mul (.bin .sub (.const (.num 1)) (.var 0)) (.var 2),
   .bin .sub (.const (.num 1)) (.var 0),
   .bin .mul (.var 0) (.var 1),
   .var 2, .var 1, .var 0,
   .ite (.var 0) (.var 1) (.var 2),
   .const (.num 1)]

/-- executable comparison of expressions (the ghost is not read by the machine; this only serves
the evaluation of the example) -/
def Expr.beq : Expr I64 → Expr I64 → Bool
  | .const a, .const b => decide (a = b)
  | .var a, .var b => decide (a = b)
  | .bin o a b, .bin o' a' b' => decide (o = o') && Expr.beq a a' && Expr.beq b b'
  | .ite a b c, .ite a' b' c' => Expr.beq a a' && Expr.beq b b' && Expr.beq c c'
  | _, _ => false

theorem Expr.beq_eq : ∀ (a b : Expr I64), Expr.beq a b = true → a = b := by
  intro a
  induction a with
  | const v => intro b h; cases b <;> simp_all [Expr.beq]
  | var v => intro b h; cases b <;> simp_all [Expr.beq]
  | bin o a1 a2 ih1 ih2 =>
    intro b h
    cases b with
    | bin o' b1 b2 =>
      simp only [Expr.beq, Bool.and_eq_true, decide_eq_true_eq] at h
      rw [h.1.1, ih1 _ h.1.2, ih2 _ h.2]
    | _ => simp [Expr.beq] at h
  | ite a1 a2 a3 ih1 ih2 ih3 =>
    intro b h
    cases b with
    | ite b1 b2 b3 =>
      simp only [Expr.beq, Bool.and_eq_true] at h
      rw [ih1 _ h.1.1, ih2 _ h.1.2, ih3 _ h.2]
    | _ => simp [Expr.beq] at h

def listBeq : List (Expr I64) → List (Expr I64) → Bool
  | [], [] => true
  | a :: l, b :: m => Expr.beq a b && listBeq l m
  | _, _ => false

theorem listBeq_eq : ∀ (l m : List (Expr I64)), listBeq l m = true → l = m
  | [], [], _ => rfl
  | a :: l, b :: m, h => by
    simp only [listBeq, Bool.and_eq_true] at h
    rw [Expr.beq_eq a b h.1, listBeq_eq l m h.2]
  | [], _ :: _, h => by simp [listBeq] at h
  | _ :: _, [], h => by simp [listBeq] at h

theorem exHist_ghost : (runT i64Alg Cfg.std exHist).2 = exGhost :=
  listBeq_eq _ _ (by decide +kernel)

/-- all theorems apply to it (no hypothesis besides `AlgOK`, `Cfg.OK`) -/
example : GInv i64Ops I64.Valid (run i64Alg Cfg.std exHist) :=
  (run_inv i64_algOK cfg_std_ok exHist).1

/-- `global_canonical` on the example: since the two handles are the same edge, the two
expressions specify the same value table — `x0·x1 + (1 − x0)·x2 = ite(x0, x1, x2)` over `I64`,
obtained from the machine, not from arithmetic -/
example : ∀ ρ : Nat → Bool,
    (exGhost.getD 0 default).fn i64Ops ρ = (exGhost.getD 7 default).fn i64Ops ρ := by
  have h := global_canonical i64_algOK cfg_std_ok exHist 0 7 (.inner 3) (.inner 3) _ _
    (by rw [exHist_run.1]; rfl) (by rw [exHist_run.1]; rfl)
    (by rw [exHist_ghost]; rfl) (by rw [exHist_ghost]; rfl)
  exact h.mp rfl

/-- and conversely two handles with different value tables are different edges -/
example : (run i64Alg Cfg.std exHist).hs[0]? ≠ (run i64Alg Cfg.std exHist).hs[1]? := by
  rw [exHist_run.1]; decide

/-- `global_node_count` on the example: `f` has 3 inner nodes (+ 2 terminals) under the initial
order and 5 (+ 2) after `set_var_order [2, 0]` -/
example : QueriesS.nodeCountS (run i64Alg Cfg.std (exHist.take 14)).r.st.store 30 (.inner 3) = 5 ∧
    QueriesS.nodeCountS (run i64Alg Cfg.std (exHist.take 15)).r.st.store 30 (.inner 3) = 7 := by
  decide +kernel

/-- dropping every handle and collecting leaves no inner node and no terminal -/
example :
    let g := run i64Alg Cfg.std (exHist ++ [.drop 0, .drop 0, .drop 0, .drop 0, .drop 0, .drop 0,
      .drop 0, .drop 0, .drop 0, .gc])
    g.hs = [] ∧ g.r.numInner = 0 ∧ g.r.numTerms = 0 := by decide +kernel

/-- the same history under the other configuration (no cache, reversed edge order, reversed table
iteration): the theorems apply as well, and the handles again coincide -/
example : (run i64Alg cfgNoneRev exHist).hs[0]? = (run i64Alg cfgNoneRev exHist).hs[7]? := by
  decide +kernel

/-- an inadmissible constant (payload outside the `i64` range) is a no-op -/
example : (run i64Alg Cfg.std [.const c20 (.num (2 ^ 63))]).hs = [] := by decide +kernel

end OxiddModel.Mtbdd.Global
