import OxiddModel.Mtbdd.QueriesS
import OxiddModel.Mtbdd.Canon

/-!
# Headline theorems: the read-only queries of the MTBDD rules at store level, under any variable
# order (C10: `eval`, `var`, cofactors; C03: `node_count`), for every terminal type
-/
set_option linter.unusedSectionVars false

namespace OxiddModel.Mtbdd.QueriesS
open OxiddModel.Mtbdd OxiddModel.Mtbdd.MT OxiddModel.Mtbdd.Refine OxiddModel.OrderS OxiddModel

variable {T : Type}

/-- **`eval`.** Table filling through `var_to_level`, then the walk to a terminal: the value
returned is the value of the denoted function under the assignment described by the argument list
(last value of a repeated variable counts), for every order with mutually inverse maps. -/
theorem evalS_spec (o : Order) (hp : PermOK o) (s : Store T) (d : T) (e : Edge) (t : MT T)
    (args : List (Nat × Bool)) (hargs : ∀ a ∈ args, a.1 < o.n) (hd : Denotes s e t)
    (fuel : Nat) (hf : t.size ≤ fuel) :
    evalS o s d fuel e args = evalV o (rhoArgs args) t :=
  walkS_eq s d _ _ (fillChoices_get o hp args hargs) hd fuel hf

/-- **`var`.** The node built at `var_to_level(v)` over the terminals `1` and `0` denotes the
0/1-valued projection on variable `v`; stores (nodes and terminals) are only extended and stay
duplicate free. -/
theorem varS_spec [DecidableEq T] (L : TermOps T) (o : Order) (hp : PermOK o) (s : Store T) (v : Nat) :
    s.Le (varS L o s v).1 ∧ (s.Unique → (varS L o s v).1.Unique) ∧
    Denotes (varS L o s v).1 (varS L o s v).2 (var L (o.lvl v)) ∧
    ∀ ρ, evalV o ρ (var L (o.lvl v)) = if ρ v then L.one else L.zero := by
  obtain ⟨h1, h2, h3⟩ := varAt_spec L s (o.lvl v)
  refine ⟨h1, h2, h3, fun ρ => ?_⟩
  simp only [evalV, var, MT.eval, hp.var_lvl]

/-- the variant with the wrong map denotes the projection on `level_to_var(v)` read as a level -/
theorem varS_l2v_denotes [DecidableEq T] (L : TermOps T) (o : Order) (s : Store T) (v : Nat) :
    Denotes (varS_l2v L o s v).1 (varS_l2v L o s v).2 (var L (o.var v)) :=
  (varAt_spec L s (o.var v)).2.2

/-- **cofactors.** A terminal has none; for an inner node the pair returned are the edges of the
two children, which denote the Shannon cofactors with respect to the top-most VARIABLE
`level_to_var(level(root))`. -/
theorem cofactorsS_spec (o : Order) (hp : PermOK o) (s : Store T) :
    (∀ i, cofactorsS s (.term i) = none) ∧
    ∀ (e : Edge) (l : Nat) (tt te : MT T), Denotes s e (.node l tt te) → Ordered (.node l tt te) →
      ∃ et ee, cofactorsS s e = some (et, ee) ∧ Denotes s et tt ∧ Denotes s ee te ∧
        ∀ ρ, evalV o ρ tt = evalV o (updV ρ (o.var l) true) (.node l tt te) ∧
             evalV o ρ te = evalV o (updV ρ (o.var l) false) (.node l tt te) := by
  refine ⟨fun _ => rfl, ?_⟩
  intro e l tt te hd hord
  cases hd with
  | @inner i _ et ee _ _ hi ht he =>
    refine ⟨et, ee, by simp [cofactorsS, hi], ht, he, fun ρ => ?_⟩
    obtain ⟨bt, be, ot, oe⟩ := hord
    have hu : ∀ b, (fun k => updV ρ (o.var l) b (o.var k)) = upd (fun k => ρ (o.var k)) l b := by
      intro b
      funext k
      simp only [updV, upd]
      by_cases e : k = l
      · subst e; simp
      · have : ¬ o.var k = o.var l := fun h => e (hp.var_inj h)
        simp [e, this]
    unfold evalV
    rw [hu, hu]
    exact ⟨(eval_node_upd_true ot bt _).symm, (eval_node_upd_false oe be _).symm⟩

/-- **`node_count` (graph reading).** The number of distinct nodes reachable from the root (every
terminal value reached is one node), i.e. the length of any duplicate-free enumeration of the
reachable ids. -/
theorem nodeCountS_reach (s : Store T) (e : Edge) (t : MT T) (hd : Denotes s e t) (fuel : Nat)
    (hf : t.size < fuel) (L : List Edge) (hL : L.Nodup)
    (hm : ∀ y, y ∈ L ↔ VisitS.Reach (kidsS s) e y) : nodeCountS s fuel e = L.length :=
  VisitS.count_unique (kidsS s) _ fuel e (ranked_of_denotes hd) (by rw [rk_eq hd]; exact hf) L hL hm

/-- … independent of the order in which the children are visited -/
theorem nodeCountS_order_independent (s : Store T) (e : Edge) (t : MT T) (hd : Denotes s e t)
    (fuel : Nat) (hf : t.size < fuel) (kids' : Edge → List Edge)
    (h : ∀ x y, y ∈ kids' x ↔ y ∈ kidsS s x) :
    VisitS.count kids' fuel e = nodeCountS s fuel e :=
  VisitS.visit_order_independent (kidsS s) kids' _ h fuel e (ranked_of_denotes hd)
    (by rw [rk_eq hd]; exact hf)

open Classical in
/-- **`node_count` (tree reading).** In a duplicate-free store the count is the number of
distinct subterms of the denoted tree. -/
theorem nodeCountS_spec (s : Store T) (hu : s.Unique) (e : Edge) (t : MT T) (hd : Denotes s e t)
    (fuel : Nat) (hf : t.size < fuel) :
    (∃ L : List (MT T), L.Nodup ∧ (∀ x, x ∈ L ↔ Subterm x t) ∧ nodeCountS s fuel e = L.length) ∧
    ∀ L : List (MT T), L.Nodup → (∀ x, x ∈ L ↔ Subterm x t) → nodeCountS s fuel e = L.length := by
  let den : Edge → MT T := fun y => if h : ∃ ty, Denotes s y ty then Classical.choose h else t
  have den_eq : ∀ {y ty}, Denotes s y ty → den y = ty := by
    intro y ty h
    have hex : ∃ ty, Denotes s y ty := ⟨ty, h⟩
    show (if h : ∃ ty, Denotes s y ty then Classical.choose h else t) = ty
    rw [dif_pos hex]
    exact Denotes.functional (Classical.choose_spec hex) h
  obtain ⟨hn, hm⟩ := VisitS.visit_count (kidsS s) _ fuel e (ranked_of_denotes hd)
    (by rw [rk_eq hd]; exact hf)
  have hden : ∀ y, y ∈ VisitS.visit (kidsS s) fuel [] e → ∃ ty, Subterm ty t ∧ Denotes s y ty :=
    fun y hy => reach_denotes ((hm y).mp hy) hd
  have hL : ((VisitS.visit (kidsS s) fuel [] e).map den).Nodup := by
    rw [List.Nodup, List.pairwise_map]
    refine List.Pairwise.imp_of_mem ?_ hn
    intro a b ha hb hab heq
    obtain ⟨ta, _, hta⟩ := hden a ha
    obtain ⟨tb, _, htb⟩ := hden b hb
    rw [den_eq hta, den_eq htb] at heq
    subst heq
    exact hab (inj_of_unique hu _ _ _ hta htb)
  have hmem : ∀ x, x ∈ (VisitS.visit (kidsS s) fuel [] e).map den ↔ Subterm x t := by
    intro x
    rw [List.mem_map]
    constructor
    · rintro ⟨y, hy, rfl⟩
      obtain ⟨ty, hs, hty⟩ := hden y hy
      rw [den_eq hty]; exact hs
    · intro hs
      obtain ⟨y, hr, hy⟩ := subterm_reach hd x hs
      exact ⟨y, (hm y).mpr hr, den_eq hy⟩
  have hlen : nodeCountS s fuel e = ((VisitS.visit (kidsS s) fuel [] e).map den).length := by
    rw [List.length_map]; rfl
  refine ⟨⟨_, hL, hmem, hlen⟩, fun L hLn hLm => ?_⟩
  rw [hlen]
  exact ((List.perm_ext_iff_of_nodup hL hLn).mpr (fun x => by rw [hmem, hLm])).length_eq

/-- **C03, last clause.** Handles of normal-form diagrams of the same function of the variables
are the same edge, hence have the same node count. -/
theorem nodeCountS_canonical (o : Order) (hp : PermOK o) (s : Store T) (hu : s.Unique)
    (e e' : Edge) (t t' : MT T) (hd : Denotes s e t) (hd' : Denotes s e' t')
    (hnf : NF t) (hnf' : NF t') (hsem : ∀ ρ, evalV o ρ t = evalV o ρ t') (fuel : Nat) :
    nodeCountS s fuel e = nodeCountS s fuel e' ∧ e = e' := by
  have htt : t = t' := canon t t' hnf hnf' (fun σ => by
    rw [← evalV_lvl o hp σ t, ← evalV_lvl o hp σ t']; exact hsem _)
  subst htt
  have := inj_of_unique hu _ _ _ hd hd'
  subst this
  exact ⟨rfl, rfl⟩

/-! ## non-vacuity (terminal type `Nat`) and the wrong map under the 3-cycle order -/

/-- terminals: slot 0 = 7, slot 1 = 3, slot 2 = 5; nodes: 0 = (level 2; 7, 3),
1 = (level 0; #0, 5): `x2 ? (x1 ? 7 : 3) : 5` under the 3-cycle order -/
def exStore : Store Nat :=
  ⟨#[some ⟨2, .term 0, .term 1⟩, some ⟨0, .inner 0, .term 2⟩], #[some 7, some 3, some 5]⟩

def exTree : MT Nat := .node 0 (.node 2 (.leaf 7) (.leaf 3)) (.leaf 5)

theorem exStore_denotes : Denotes exStore (.inner 1) exTree :=
  .inner (i := 1) rfl (.inner (i := 0) rfl (.term (i := 0) rfl) (.term (i := 1) rfl))
    (.term (i := 2) rfl)

example :
    evalS threeCycle exStore 0 6 (.inner 1) [(2, false), (1, false), (2, true)] = 3 ∧
    evalS threeCycle exStore 0 6 (.inner 1) [(2, false), (1, false)] = 5 ∧
    nodeCountS exStore 6 (.inner 1) = 5 ∧
    cofactorsS exStore (.inner 1) = some (.inner 0, .term 2) := by decide

example := evalS_spec threeCycle threeCycle_ok exStore 0 (.inner 1) exTree
  [(2, false), (1, false), (2, true)] (by decide) exStore_denotes 6 (by decide)
example := nodeCountS_reach exStore (.inner 1) exTree exStore_denotes 6 (by decide)

/-- `eval_edge` with `level_to_var` where `var_to_level` belongs -/
def evalS_l2v (o : Order) (s : Store T) (d : T) (fuel : Nat) (e : Edge) (args : List (Nat × Bool)) :
    T :=
  walkS s d (args.foldl (fun ch a => ch.setIfInBounds (o.var a.1) (!a.2))
    (Array.replicate o.n false)) fuel e

/-- under the 3-cycle order the wrong map reads the value given for another variable, and `var`
with the wrong map is the projection on another variable -/
theorem wrong_map_fails :
    let args := [(2, true), (1, false), (0, true)]
    evalS threeCycle exStore 0 6 (.inner 1) args = 3 ∧
    evalS_l2v threeCycle exStore 0 6 (.inner 1) args = 5 ∧
    (∀ (L : TermOps Nat), L.one ≠ L.zero →
      evalV threeCycle (fun v => v == 0) (var L (threeCycle.var 0))
        ≠ (if (fun v => v == 0) 0 then L.one else L.zero)) := by
  refine ⟨by decide, by decide, fun L h => ?_⟩
  simp only [evalV, var, MT.eval]
  have : threeCycle.var (threeCycle.var 0) = 1 := by decide
  rw [this]
  simpa using fun e => h e.symm

end OxiddModel.Mtbdd.QueriesS
