import OxiddModel.Mtbdd.ApplyS
import OxiddModel.Mtbdd.HistoryS
import OxiddModel.Mtbdd.CommI64
import OxiddModel.Mtbdd.Canon

/-!
# C06 / C01 / C10 — MTBDDs on the store level: hash-consed nodes and terminals, apply cache

Property texts. C06: *"The handle returned by an operation is determined by its operator, operands
and the current variable order alone: it is the same whatever operations ran before, whatever the
apply-cache capacity is, and whichever entries were evicted or overwritten. A result memoised for
one operator, operand tuple or substitution is never served for another …"* C01: *"two handles of
one manager are equal iff they denote the same function (for MTBDD handles: the same value
table) …"*.

Modelled code: `apply_bin::<OP>` (`crates/oxidd-rules-mtbdd/src/apply_rec.rs`), `terminal_bin`,
`reduce` (`lib.rs`), `Manager::get_terminal` → `DynamicTerminalManager::get_edge`
(`crates/oxidd-manager-index/src/terminal_manager/dynamic.rs`, lookup-or-allocate of hash-consed
terminal values), and the cache discipline of `crates/oxidd-cache/src/direct.rs` abstracted to a
`Policy` (`Util/CachePolicy.lean`). The store-level model is `StoreS.lean`; the refinement proof
is `ApplyS.lean`. The tree-level specification is `Mtbdd.applyBin` of `Model.lean` (whose
pointwise meaning is `mtbdd_apply_sem`, `Properties.lean`).

All theorems are generic in the terminal type `T` (only `DecidableEq T`), in the operator
record `L`, in the edge order `gt`, in the cache policy; they hold for all stores, caches and
operands, and every fuel ≥ the sum of the operand sizes. The two hypotheses about `T` are
`TerminalClosed L ok` (admissible values are closed under the operations) and `TerminalComm L ok`
(`Add/Mul/Min/Max` commute on admissible values — without this the operand normalisation of the
cache key in `terminal_bin` would be unsound); both are proved for `I64`.

Not covered here: out of memory of the terminal store (tables are unbounded), garbage collection
of terminals and nodes (slots are never freed in this model; the cache-clearing lemma is stated),
reordering.
-/
set_option linter.unusedSectionVars false

namespace OxiddModel.Mtbdd.StoreLevel
open OxiddModel.Mtbdd OxiddModel.Mtbdd.MT OxiddModel.Mtbdd.Refine OxiddModel.CachePolicy

variable {T : Type} [DecidableEq T]

/-! ## the memoised algorithm refines the tree-level operation, for every cache behaviour -/

/-- **`apply_bin::<OP>` with hash-consed terminals and the apply cache refines `applyBin L op`.**
From any state whose store is hash consed (`Unique`: no two node slots hold the same node, no two
terminal slots the same value), whose terminal values are admissible and whose cache is sound
(`CacheOK`), for every admissible cache behaviour `p`, every edge order `gt` and each of the six
operators: the returned edge denotes `applyBin L op a b`, the store is only extended, and
`Unique ∧ TermsOK ∧ CacheOK` hold afterwards. -/
theorem applyS_spec {L : TermOps T} {ok : T → Prop} (C : TerminalClosed L ok)
    (M : TerminalComm L ok) (gt : Edge → Edge → Bool) {p : APolicy} (pok : p.OK) (op : Op)
    (fuel : Nat) (st : St T) (f g : Edge) (a b : MT T)
    (hu : st.store.Unique) (hok : st.store.TermsOK ok) (hc : CacheOK L st.store st.cache)
    (hf : Denotes st.store f a) (hg : Denotes st.store g b) (hfuel : a.size + b.size ≤ fuel) :
    let R := applyS L gt tagOf p op fuel st f g
    Denotes R.1.store R.2 (applyBin L op a b) ∧ st.store.Le R.1.store ∧
    R.1.store.Unique ∧ R.1.store.TermsOK ok ∧ CacheOK L R.1.store R.1.cache :=
  have P := Refine.applyS_spec C M gt pok op fuel st f g a b ⟨hu, hok, hc⟩ hf hg hfuel
  ⟨P.den, P.le, P.inv.1, P.inv.2.1, P.inv.2.2⟩

/-- … hence the result edge evaluates to the pointwise lifting of the scalar operation
(`mtbdd_apply_sem`), for every terminal type satisfying the terminal laws. -/
theorem applyS_sem {L : TermOps T} {ok : T → Prop} (H : TerminalLaws L ok)
    (C : TerminalClosed L ok) (M : TerminalComm L ok) (gt : Edge → Edge → Bool) {p : APolicy}
    (pok : p.OK) (op : Op) (fuel : Nat) (st : St T) (f g : Edge) (a b : MT T)
    (hu : st.store.Unique) (hok : st.store.TermsOK ok) (hc : CacheOK L st.store st.cache)
    (hf : Denotes st.store f a) (hg : Denotes st.store g b) (hfuel : a.size + b.size ≤ fuel) :
    ∃ r, Denotes (applyS L gt tagOf p op fuel st f g).1.store (applyS L gt tagOf p op fuel st f g).2 r
      ∧ ∀ σ, r.eval σ = L.sem op (a.eval σ) (b.eval σ) :=
  ⟨_, (applyS_spec C M gt pok op fuel st f g a b hu hok hc hf hg hfuel).1,
    fun σ => applyBin_sem H op a b σ (hf.all hok) (hg.all hok)⟩

/-- the `I64` instance: no hypothesis about the terminal type is left -/
theorem applyS_spec_i64 (gt : Edge → Edge → Bool) {p : APolicy} (pok : p.OK) (op : Op)
    (fuel : Nat) (st : St I64) (f g : Edge) (a b : MT I64)
    (hu : st.store.Unique) (hok : st.store.TermsOK I64.Valid)
    (hc : CacheOK i64Ops st.store st.cache)
    (hf : Denotes st.store f a) (hg : Denotes st.store g b) (hfuel : a.size + b.size ≤ fuel) :
    let R := applyS i64Ops gt tagOf p op fuel st f g
    Denotes R.1.store R.2 (applyBin i64Ops op a b) ∧ st.store.Le R.1.store ∧
    R.1.store.Unique ∧ R.1.store.TermsOK I64.Valid ∧ CacheOK i64Ops R.1.store R.1.cache :=
  applyS_spec i64_terminalClosed i64_terminalComm gt pok op fuel st f g a b hu hok hc hf hg hfuel

/-! ## C01: handle equality is equality of value tables -/

/-- **Equal handles ⇔ equal value tables (MTBDD).** In a hash-consed store (unique nodes *and*
unique terminal values) two edges denoting normal-form diagrams are *equal* iff the diagrams have
the same value under every assignment. (`⇐` is `mtbdd_canonical` + injectivity of `Denotes`;
without uniqueness of the terminal table two different terminal ids could carry the same value —
see `dup_terminal_breaks_handle_eq`.) -/
theorem handle_eq_iff {s : Store T} (hu : s.Unique) {x y : Edge} {a b : MT T}
    (hx : Denotes s x a) (hy : Denotes s y b) (na : NF a) (nb : NF b) :
    x = y ↔ ∀ σ, a.eval σ = b.eval σ := by
  constructor
  · intro h σ; subst h; rw [Denotes.functional hx hy]
  · intro h
    have := canon a b na nb h
    subst this
    exact inj_of_unique hu _ _ _ hx hy

/-- results of the memoised `apply_bin` are handles to normal forms again, so `handle_eq_iff`
applies to them: the result handle equals any handle `y` of the final store exactly when `y`'s
value table is the pointwise lifting. -/
theorem applyS_handle_eq_iff {L : TermOps T} {ok : T → Prop} (H : TerminalLaws L ok)
    (C : TerminalClosed L ok) (M : TerminalComm L ok) (gt : Edge → Edge → Bool) {p : APolicy}
    (pok : p.OK) (op : Op) (fuel : Nat) (st : St T) (f g : Edge) (a b : MT T)
    (hu : st.store.Unique) (hok : st.store.TermsOK ok) (hc : CacheOK L st.store st.cache)
    (hf : Denotes st.store f a) (hg : Denotes st.store g b) (na : NF a) (nb : NF b)
    (hfuel : a.size + b.size ≤ fuel) (y : Edge) (c : MT T) (nc : NF c)
    (hy : Denotes (applyS L gt tagOf p op fuel st f g).1.store y c) :
    (applyS L gt tagOf p op fuel st f g).2 = y ↔ ∀ σ, c.eval σ = L.sem op (a.eval σ) (b.eval σ) := by
  have P := applyS_spec C M gt pok op fuel st f g a b hu hok hc hf hg hfuel
  rw [handle_eq_iff P.2.2.1 P.1 hy (applyBin_nf L op a b na nb).1 nc]
  constructor
  · intro h σ; rw [← h σ, applyBin_sem H op a b σ (hf.all hok) (hg.all hok)]
  · intro h σ; rw [h σ, applyBin_sem H op a b σ (hf.all hok) (hg.all hok)]

/-- a terminal table that is **not** hash consed breaks C01: the value `7` stored twice gives two
different handles with the same value table -/
theorem dup_terminal_breaks_handle_eq :
    let s : Store I64 := ⟨#[], #[some (.num 7), some (.num 7)]⟩
    ¬ s.Unique ∧ Denotes s (.term 0) (.leaf (.num 7)) ∧ Denotes s (.term 1) (.leaf (.num 7)) ∧
      Edge.term 0 ≠ Edge.term 1 := by
  refine ⟨fun h => ?_, .term (by decide), .term (by decide), by decide⟩
  have := h.2 0 1 (.num 7) (by decide) (by decide)
  omega

/-! ## transparency -/

/-- **The cache is transparent.** Two runs of the same operation from the same (hash-consed,
reduced) store with two *different* sound caches, different cache behaviours (capacity, hash, lock
failures), different time stamps and fuels: the returned **edges are equal and the stores
afterwards are equal** — node table and terminal table (both are `intern s (applyBin L op a b)`). -/
theorem cache_transparent {L : TermOps T} {ok : T → Prop} (C : TerminalClosed L ok)
    (M : TerminalComm L ok) (gt : Edge → Edge → Bool) {p1 p2 : APolicy} (ok1 : p1.OK)
    (ok2 : p2.OK) (op : Op) (s : Store T) (c1 c2 : ACache) (t1 t2 fuel1 fuel2 : Nat)
    (f g : Edge) (a b : MT T) (hu : s.Unique) (hok : s.TermsOK ok) (hr : s.NoRed)
    (h1 : CacheOK L s c1) (h2 : CacheOK L s c2) (hf : Denotes s f a) (hg : Denotes s g b)
    (hfuel1 : a.size + b.size ≤ fuel1) (hfuel2 : a.size + b.size ≤ fuel2) :
    (applyS L gt tagOf p1 op fuel1 ⟨s, c1, t1⟩ f g).2 = (applyS L gt tagOf p2 op fuel2 ⟨s, c2, t2⟩ f g).2 ∧
    (applyS L gt tagOf p1 op fuel1 ⟨s, c1, t1⟩ f g).1.store
      = (applyS L gt tagOf p2 op fuel2 ⟨s, c2, t2⟩ f g).1.store := by
  have P1 := (Refine.applyS_spec C M gt ok1 op fuel1 ⟨s, c1, t1⟩ f g a b ⟨hu, hok, h1⟩ hf hg hfuel1).canon hr
  have P2 := (Refine.applyS_spec C M gt ok2 op fuel2 ⟨s, c2, t2⟩ f g a b ⟨hu, hok, h2⟩ hf hg hfuel2).canon hr
  have e := P1.trans P2.symm
  exact ⟨(Prod.mk.inj e).2, (Prod.mk.inj e).1⟩

/-- … also across **edge orders** (index vs. address comparison): `gt` only orders cache keys -/
theorem cache_transparent_gt {L : TermOps T} {ok : T → Prop} (C : TerminalClosed L ok)
    (M : TerminalComm L ok) (gt1 gt2 : Edge → Edge → Bool) {p1 p2 : APolicy} (ok1 : p1.OK)
    (ok2 : p2.OK) (op : Op) (s : Store T) (c1 c2 : ACache) (t1 t2 fuel : Nat)
    (f g : Edge) (a b : MT T) (hu : s.Unique) (hok : s.TermsOK ok) (hr : s.NoRed)
    (h1 : CacheOK L s c1) (h2 : CacheOK L s c2) (hf : Denotes s f a) (hg : Denotes s g b)
    (hfuel : a.size + b.size ≤ fuel) :
    (applyS L gt1 tagOf p1 op fuel ⟨s, c1, t1⟩ f g).2 = (applyS L gt2 tagOf p2 op fuel ⟨s, c2, t2⟩ f g).2 := by
  have P1 := (Refine.applyS_spec C M gt1 ok1 op fuel ⟨s, c1, t1⟩ f g a b ⟨hu, hok, h1⟩ hf hg hfuel).canon hr
  have P2 := (Refine.applyS_spec C M gt2 ok2 op fuel ⟨s, c2, t2⟩ f g a b ⟨hu, hok, h2⟩ hf hg hfuel).canon hr
  exact (Prod.mk.inj (P1.trans P2.symm)).2

/-- without the reducedness assumption on the store: if the result tree is already present in the
initial store as edge `x`, every run returns exactly `x`, whatever the cache does -/
theorem cache_transparent_existing {L : TermOps T} {ok : T → Prop} (C : TerminalClosed L ok)
    (M : TerminalComm L ok) (gt : Edge → Edge → Bool) {p : APolicy} (pok : p.OK) (op : Op)
    (fuel : Nat) (st : St T) (f g x : Edge) (a b : MT T) (hu : st.store.Unique)
    (hok : st.store.TermsOK ok) (hc : CacheOK L st.store st.cache)
    (hf : Denotes st.store f a) (hg : Denotes st.store g b) (hfuel : a.size + b.size ≤ fuel)
    (hx : Denotes st.store x (applyBin L op a b)) : (applyS L gt tagOf p op fuel st f g).2 = x := by
  have P := Refine.applyS_spec C M gt pok op fuel st f g a b ⟨hu, hok, hc⟩ hf hg hfuel
  exact inj_of_unique P.inv.1 _ _ _ P.den (hx.mono P.le)

/-! ## keys and tags -/

/-- **A hit needs the full key.** For every admissible policy a hit for `(tag, operands)` is
backed by an entry with the *same tag and the same operand list*. -/
theorem cache_key_full {p : APolicy} (pok : p.OK) (t : Nat) (c : ACache) (tag : OpTag)
    (operands : List Edge) (r : Edge) (h : p.get t c (tag, operands) = some r) :
    ∃ x, x ∈ c ∧ x.1.1 = tag ∧ x.1.2 = operands ∧ x.2 = r :=
  ⟨_, pok.get_mem t c _ r h, rfl, rfl, rfl⟩

/-- a result memoised for one operator or operand tuple is never served for another -/
theorem no_cross_hit {p : APolicy} (pok : p.OK) (t : Nat) (c : ACache) (k : Key)
    (h : ∀ x, x ∈ c → x.1 ≠ k) : p.get t c k = none :=
  pok.no_cross_hit t c k h

/-- the model policies are admissible: ideal cache, no cache, and the direct-mapped cache for
every capacity, hash function and lock-failure pattern -/
theorem policies_admissible (cap : Nat) (hash : Key → Nat) (lock : Nat → Bool) :
    (Policy.exact : APolicy).OK ∧ (Policy.none : APolicy).OK ∧
      (Policy.dm cap hash lock : APolicy).OK :=
  ⟨Policy.exact_ok, Policy.none_ok, Policy.dm_ok cap hash lock⟩

/-- **Each operator is memoised under its own tag.** Whatever `terminal_bin::<OP>` returns as
`Binary(tag, o1, o2)` — the key `apply_bin::<OP>` uses for `get` and `add` — has `tag = OP` and
the operands `{f, g}` (swapped only for `Add/Mul/Min/Max`). -/
theorem memo_tag_ok (L : TermOps T) (gt : Edge → Edge → Bool) (op : Op) (s : Store T)
    (f g : Edge) (tag : OpTag) (o1 o2 : Edge)
    (h : (terminalBinS L gt tagOf op s f g).2 = .binary tag o1 o2) :
    tag = tagOf op ∧ ((o1 = f ∧ o2 = g) ∨ (Op.comm op = true ∧ o1 = g ∧ o2 = f)) :=
  terminalBinS_tag L gt tagOf op s f g tag o1 o2 h

/-- distinct operators have distinct tags, so their cache entries can never be confused -/
theorem tags_distinct {a b : Op} (h : tagOf a = tagOf b) : a = b := tagOf_inj h

/-- the edge-level `terminal_bin` agrees with the tree-level one (same arms in the same order;
`f == g` on edges = equality of trees; `get_terminal` allocates exactly the terminal of the tree
result) in every hash-consed store -/
theorem terminalBinS_refines (L : TermOps T) (gt : Edge → Edge → Bool) (op : Op) {s : Store T}
    (hu : s.Unique) {f g : Edge} {a b : MT T} (hf : Denotes s f a) (hg : Denotes s g b) :
    OpCorr s tagOf op f g (terminalBinS L gt tagOf op s f g) (terminalBin L op a b) :=
  terminalBinS_corr L gt tagOf op (inj_of_unique hu) hf hg

/-! ## invalidation -/

/-- clearing the cache establishes `CacheOK` for any store (what `pre_gc` does) -/
theorem cacheok_clear (L : TermOps T) (s' : Store T) : CacheOK L s' [] := CacheOK.nil L s'

/-- `CacheOK` is preserved by every store extension (new nodes, new terminals, appended levels) -/
theorem cacheok_extend {L : TermOps T} {s s' : Store T} {c : ACache} (h : CacheOK L s c)
    (hle : s.Le s') : CacheOK L s' c := h.mono hle

/-- evicting or overwriting entries keeps the cache sound -/
theorem cacheok_evict {L : TermOps T} {s : Store T} {c c' : ACache} (h : CacheOK L s c)
    (hs : ∀ x, x ∈ c' → x ∈ c) : CacheOK L s c' := h.sub hs

/-! ## non-vacuity and the historical defect: `Max` memoised under the `Min` tag -/

/-- `x0` and `x1` as 0/1-valued `I64` diagrams -/
def exX0 : MT I64 := var i64Ops 0
def exX1 : MT I64 := var i64Ops 1

/-- the store holding `x0`, `x1`: terminals `1 ↦ #0`, `0 ↦ #1` are shared by the two nodes -/
def exStore : Store I64 := (intern (intern Store.empty exX0).1 exX1).1

example : exStore.nodes = #[some ⟨0, .term 0, .term 1⟩, some ⟨1, .term 0, .term 1⟩] ∧
    exStore.terms = #[some (.num 1), some (.num 0)] := by decide +kernel

theorem empty_termsOK : (Store.empty : Store I64).TermsOK I64.Valid := by
  intro i v hi; simp [Store.getTerm?, Store.empty, Slots.get?] at hi

theorem exStore_unique : exStore.Unique :=
  intern_unique _ _ (intern_unique _ _ Store.empty_unique)
theorem exStore_nored : exStore.NoRed := intern_nored _ _ (intern_nored _ _ Store.empty_nored)
theorem exStore_termsOK : exStore.TermsOK I64.Valid :=
  intern_termsOK _ _ (intern_termsOK _ _ empty_termsOK ⟨I64.inRange_one, I64.inRange_zero⟩)
    ⟨I64.inRange_one, I64.inRange_zero⟩
theorem exStore_x0 : Denotes exStore (.inner 0) exX0 :=
  unfold_sound 2 _ _ (by decide +kernel)
theorem exStore_x1 : Denotes exStore (.inner 1) exX1 :=
  unfold_sound 2 _ _ (by decide +kernel)

/-- a warmed-up state: after `min(x0, x1)` with the ideal cache -/
def exWarm : St I64 :=
  (applyS i64Ops Edge.gtIdx tagOf Policy.exact .min 10 ⟨exStore, [], 0⟩ (.inner 0) (.inner 1)).1

/-- the warm cache holds entries for `Min` only, keyed by the full operand tuple -/
example : exWarm.cache.map (·.1) =
    [(.min, [.inner 0, .inner 1]), (.min, [.term 1, .inner 1]), (.min, [.term 0, .inner 1])] := by
  decide +kernel

/-- non-vacuity of `applyS_spec`: hypotheses hold on `exStore`; capacity-1 direct-mapped cache
whose lock fails at every odd time stamp -/
example :
    let R := applyS i64Ops Edge.gtIdx tagOf (Policy.dm 1 (fun _ => 0) (fun t => t % 2 == 0)) .add 10
      ⟨exStore, [], 0⟩ (.inner 0) (.inner 1)
    Denotes R.1.store R.2 (applyBin i64Ops .add exX0 exX1) ∧ exStore.Le R.1.store ∧
    R.1.store.Unique ∧ R.1.store.TermsOK I64.Valid ∧ CacheOK i64Ops R.1.store R.1.cache :=
  applyS_spec_i64 _ (Policy.dm_ok _ _ _) .add 10 ⟨exStore, [], 0⟩ (.inner 0) (.inner 1) exX0 exX1
    exStore_unique exStore_termsOK (CacheOK.nil _ _) exStore_x0 exStore_x1 (by decide)

/-- the concrete value: `x0 + x1` allocates the new terminal `2 ↦ #2` (hash-consed: `1` and `0`
are found again) and two nodes -/
example :
    let R := applyS i64Ops Edge.gtIdx tagOf Policy.none .add 10 ⟨exStore, [], 0⟩ (.inner 0) (.inner 1)
    R.2 = .inner 3 ∧ R.1.store.terms = #[some (.num 1), some (.num 0), some (.num 2)] ∧
    R.1.store.unfold 3 R.2 =
      some (.node 0 (.node 1 (.leaf (.num 2)) (.leaf (.num 1))) (.node 1 (.leaf (.num 1)) (.leaf (.num 0)))) := by
  decide +kernel

/-- non-vacuity of `handle_eq_iff`: `x0 + x1` and `x1 + x0` computed one after the other (second
one is a cache hit under the normalised key) are the same handle; `x0` and `x1` are not -/
example : Edge.inner 0 ≠ Edge.inner 1 ∧ ¬ (∀ σ, exX0.eval σ = exX1.eval σ) :=
  ⟨by decide, fun h => by
    have := (handle_eq_iff exStore_unique exStore_x0 exStore_x1
      ⟨⟨trivial, trivial, trivial, trivial⟩, ⟨by decide, trivial, trivial⟩⟩
      ⟨⟨trivial, trivial, trivial, trivial⟩, ⟨by decide, trivial, trivial⟩⟩).mpr h
    cases this⟩

example :
    let R1 := applyS i64Ops Edge.gtIdx tagOf Policy.exact .add 10 ⟨exStore, [], 0⟩ (.inner 0) (.inner 1)
    let R2 := applyS i64Ops Edge.gtIdx tagOf Policy.exact .add 10 R1.1 (.inner 1) (.inner 0)
    R1.2 = R2.2 ∧ R2.1.tick = R1.1.tick + 1 := by decide +kernel

/-- **The historical defect.** With the `Max` block of `terminal_bin` returning
`Binary(MTBDDOp::Min, ..)` (`tagMaxAsMin`), `max(x0, x1)` after `min(x0, x1)` hits the `Min`
entry: the returned handle is the one of `min(x0, x1)` and denotes a diagram different from
`applyBin max x0 x1`. With the tags of the current source (`tagOf`) the same history returns the
right diagram. -/
theorem max_under_min_tag_unsound :
    let R1 := applyS i64Ops Edge.gtIdx tagMaxAsMin Policy.exact .min 10 ⟨exStore, [], 0⟩ (.inner 0) (.inner 1)
    let R2 := applyS i64Ops Edge.gtIdx tagMaxAsMin Policy.exact .max 10 exWarm (.inner 0) (.inner 1)
    let G2 := applyS i64Ops Edge.gtIdx tagOf Policy.exact .max 10 exWarm (.inner 0) (.inner 1)
    -- the state after `min(x0, x1)` is `exWarm` also with the defective tags
    (R1.1.cache = exWarm.cache ∧ R1.1.store.nodes = exWarm.store.nodes ∧
      R1.1.store.terms = exWarm.store.terms ∧ R1.1.tick = exWarm.tick) ∧
    R2.2 = R1.2 ∧
    R2.1.store.unfold 3 R2.2 = some (applyBin i64Ops .min exX0 exX1) ∧
    applyBin i64Ops .min exX0 exX1 ≠ applyBin i64Ops .max exX0 exX1 ∧
    G2.1.store.unfold 3 G2.2 = some (applyBin i64Ops .max exX0 exX1) := by
  decide +kernel

/-- `exWarm` satisfies the invariant (by the spec for `Min`) -/
theorem exWarm_inv : exWarm.store.Unique ∧ exWarm.store.TermsOK I64.Valid ∧
    CacheOK i64Ops exWarm.store exWarm.cache ∧ exStore.Le exWarm.store :=
  have P := applyS_spec_i64 Edge.gtIdx Policy.exact_ok .min 10 ⟨exStore, [], 0⟩ (.inner 0) (.inner 1)
    exX0 exX1 exStore_unique exStore_termsOK (CacheOK.nil _ _) exStore_x0 exStore_x1 (by decide)
  ⟨P.2.2.1, P.2.2.2.1, P.2.2.2.2, P.2.1⟩

/-- … so the refinement theorem is **false** for that tag assignment: `applyS_spec` with
`tagMaxAsMin` in place of `tagOf` has a counterexample (`I64`, ideal cache, index order). -/
theorem applyS_spec_fails_for_max_as_min :
    ¬ (∀ (st : St I64) (f g : Edge) (a b : MT I64), st.store.Unique →
        st.store.TermsOK I64.Valid → CacheOK i64Ops st.store st.cache →
        Denotes st.store f a → Denotes st.store g b →
        Denotes (applyS i64Ops Edge.gtIdx tagMaxAsMin Policy.exact .max 10 st f g).1.store
          (applyS i64Ops Edge.gtIdx tagMaxAsMin Policy.exact .max 10 st f g).2
          (applyBin i64Ops .max a b)) := by
  intro h
  obtain ⟨hu, hok, hc, hle⟩ := exWarm_inv
  have W := max_under_min_tag_unsound
  have D := h exWarm (.inner 0) (.inner 1) exX0 exX1 hu hok hc (exStore_x0.mono hle)
    (exStore_x1.mono hle)
  exact W.2.2.2.1 (Denotes.functional (unfold_sound _ _ _ W.2.2.1) D)

/-- non-vacuity of `cache_transparent`: cold start without cache vs. warm cache, direct mapped -/
example :
    (applyS i64Ops Edge.gtIdx tagOf Policy.none .max 10 ⟨exStore, [], 0⟩ (.inner 0) (.inner 1)).2 =
    (applyS i64Ops Edge.gtIdx tagOf (Policy.dm 2 (fun k => k.2.length) (fun _ => true)) .max 12
      ⟨exStore, [((.min, [.inner 0, .inner 1]), .inner 0)], 5⟩ (.inner 0) (.inner 1)).2 := by
  decide +kernel

/-! ## `apply_ite` -/

/-- **`apply_ite` with cache refines `applyIte`** (`g == h` shortcut, terminal condition, cache
key `(Ite, [f, g, h])`, expansion at the minimum of the three levels). Its pointwise meaning for a
0-1-valued condition is `mtbdd_ite_sem`. -/
theorem iteS_spec {L : TermOps T} {ok : T → Prop} {p : APolicy} (pok : p.OK) (fuel : Nat)
    (st : St T) (f g h : Edge) (a b c : MT T)
    (hu : st.store.Unique) (hok : st.store.TermsOK ok) (hc : CacheOK L st.store st.cache)
    (hf : Denotes st.store f a) (hg : Denotes st.store g b) (hh : Denotes st.store h c)
    (hfuel : a.size + b.size + c.size ≤ fuel) :
    let R := iteS L p fuel st f g h
    Denotes R.1.store R.2 (applyIte L a b c) ∧ st.store.Le R.1.store ∧
    R.1.store.Unique ∧ R.1.store.TermsOK ok ∧ CacheOK L R.1.store R.1.cache :=
  have P := Refine.iteS_spec (L := L) (ok := ok) pok fuel st f g h a b c ⟨hu, hok, hc⟩ hf hg hh hfuel
  ⟨P.den, P.le, P.inv.1, P.inv.2.1, P.inv.2.2⟩

/-- the cache is transparent for `apply_ite` as well -/
theorem cache_transparent_ite {L : TermOps T} {ok : T → Prop} {p1 p2 : APolicy} (ok1 : p1.OK)
    (ok2 : p2.OK) (s : Store T) (c1 c2 : ACache) (t1 t2 fuel1 fuel2 : Nat) (f g h : Edge)
    (a b c : MT T) (hu : s.Unique) (hok : s.TermsOK ok) (hr : s.NoRed) (h1 : CacheOK L s c1)
    (h2 : CacheOK L s c2) (hf : Denotes s f a) (hg : Denotes s g b) (hh : Denotes s h c)
    (hfuel1 : a.size + b.size + c.size ≤ fuel1) (hfuel2 : a.size + b.size + c.size ≤ fuel2) :
    (iteS L p1 fuel1 ⟨s, c1, t1⟩ f g h).2 = (iteS L p2 fuel2 ⟨s, c2, t2⟩ f g h).2 ∧
    (iteS L p1 fuel1 ⟨s, c1, t1⟩ f g h).1.store = (iteS L p2 fuel2 ⟨s, c2, t2⟩ f g h).1.store := by
  have P1 := (Refine.iteS_spec (L := L) (ok := ok) ok1 fuel1 ⟨s, c1, t1⟩ f g h a b c ⟨hu, hok, h1⟩ hf hg hh hfuel1).canon hr
  have P2 := (Refine.iteS_spec (L := L) (ok := ok) ok2 fuel2 ⟨s, c2, t2⟩ f g h a b c ⟨hu, hok, h2⟩ hf hg hh hfuel2).canon hr
  have e := P1.trans P2.symm
  exact ⟨(Prod.mk.inj e).2, (Prod.mk.inj e).1⟩

/-! ## histories -/

/-- **C01/C10 after any history.** Start from an empty manager and run any sequence of `const`,
`var`, `bin op` (six operators), `ite` on earlier handles, with points at which the cache drops
arbitrary entries, under any cache policy and edge order. Then: the store is hash consed and the
cache sound; every handle denotes a normal-form diagram whose value under every assignment is the
*specified value function* of the history (`runAllV`: constants, 0/1 for variables, the scalar
operation applied pointwise, pointwise selection); and **two handles are equal iff their value
tables are equal**. Preconditions: the fuel bound, admissible constants (`PreAll`), and 0-1-valued
`ite` conditions (`CondAll`, the documented precondition of `ite`). -/
theorem history_spec {L : TermOps T} {ok : T → Prop} (H : TerminalLaws L ok)
    (C : TerminalClosed L ok) (M : TerminalComm L ok) (cfg : Cfg) (pok : cfg.policy.OK)
    (fuel : Nat) (cs : List (Cmd T)) (hp : PreAll L ok fuel cs []) (hc : CondAll L cs []) :
    let X := runAllS L cfg fuel cs (⟨Store.empty, [], 0⟩, [])
    let vs := runAllV L cs []
    X.1.store.Unique ∧ CacheOK L X.1.store X.1.cache ∧ X.2.length = vs.length ∧
    (∀ (k : Nat) (e : Edge) (v : Val T), X.2[k]? = some e → vs[k]? = some v →
      ∃ t, Denotes X.1.store e t ∧ NF t ∧ ∀ σ, t.eval σ = v σ) ∧
    (∀ (i j : Nat) (e e' : Edge) (v v' : Val T), X.2[i]? = some e → X.2[j]? = some e' → vs[i]? = some v → vs[j]? = some v' →
      (e = e' ↔ ∀ σ, v σ = v' σ)) := by
  intro X vs
  obtain ⟨G, _⟩ := history_ok H.zero_ne_one C M cfg pok fuel cs _ _ (good_empty L ok 0) hp
  have S := runAllT_sem H C fuel cs _ _ (sem_empty ok) hc hp
  have key : ∀ (k : Nat) (e : Edge) (v : Val T), X.2[k]? = some e → vs[k]? = some v →
      ∃ t, Denotes X.1.store e t ∧ NF t ∧ ∀ σ, t.eval σ = v σ := by
    intro k e v he hv
    obtain ⟨t, ht, dt, nt⟩ := G.handles.get he
    exact ⟨t, dt, nt, (S.den k t v ht hv).2⟩
  refine ⟨G.inv.1, G.inv.2.2, G.handles.len.trans S.len, key, ?_⟩
  intro i j e e' v v' he he' hv hv'
  obtain ⟨t, dt, nt, et⟩ := key i e v he hv
  obtain ⟨t', dt', nt', et'⟩ := key j e' v' he' hv'
  rw [handle_eq_iff G.inv.1 dt dt' nt nt']
  constructor
  · intro h σ; rw [← et, ← et', h]
  · intro h σ; rw [et, et', h]

/-- the `I64` instance of `history_spec` -/
theorem history_spec_i64 (cfg : Cfg) (pok : cfg.policy.OK) (fuel : Nat) (cs : List (Cmd I64))
    (hp : PreAll i64Ops I64.Valid fuel cs []) (hc : CondAll i64Ops cs []) :
    let X := runAllS i64Ops cfg fuel cs (⟨Store.empty, [], 0⟩, [])
    let vs := runAllV i64Ops cs []
    X.1.store.Unique ∧ CacheOK i64Ops X.1.store X.1.cache ∧ X.2.length = vs.length ∧
    (∀ (k : Nat) (e : Edge) (v : Val I64), X.2[k]? = some e → vs[k]? = some v →
      ∃ t, Denotes X.1.store e t ∧ NF t ∧ ∀ σ, t.eval σ = v σ) ∧
    (∀ (i j : Nat) (e e' : Edge) (v v' : Val I64), X.2[i]? = some e → X.2[j]? = some e' → vs[i]? = some v → vs[j]? = some v' →
      (e = e' ↔ ∀ σ, v σ = v' σ)) :=
  history_spec i64_terminalLaws i64_terminalClosed i64_terminalComm cfg pok fuel cs hp hc

/-- **History independence (C06).** Two runs of the same history from an empty manager with
different cache policies, eviction choices and edge orders return the same handles and end in the
same store (node table and terminal table). -/
theorem history_transparent {L : TermOps T} {ok : T → Prop} (hne : L.zero ≠ L.one)
    (C : TerminalClosed L ok) (M : TerminalComm L ok) (cfg1 cfg2 : Cfg) (ok1 : cfg1.policy.OK)
    (ok2 : cfg2.policy.OK) (fuel t1 t2 : Nat) (cs : List (Cmd T))
    (hp : PreAll L ok fuel cs []) :
    (runAllS L cfg1 fuel cs (⟨Store.empty, [], t1⟩, [])).2
      = (runAllS L cfg2 fuel cs (⟨Store.empty, [], t2⟩, [])).2 ∧
    (runAllS L cfg1 fuel cs (⟨Store.empty, [], t1⟩, [])).1.store
      = (runAllS L cfg2 fuel cs (⟨Store.empty, [], t2⟩, [])).1.store :=
  Refine.history_transparent hne C M cfg1 cfg2 ok1 ok2 fuel cs _ _ [] rfl rfl
    (good_empty L ok t1) (good_empty L ok t2) hp

/-- a concrete history: `x0`, `x1`, `3`, `x0 + x1`, `x1 + x0`, eviction, `min`, `max` on the same
operands, `ite(x0, 3, x0 + x1)` -/
def exHistory : List (Cmd I64) :=
  [.var 0, .var 1, .const (.num 3), .bin .add 0 1, .bin .add 1 0, .evict 0, .bin .min 0 1,
   .bin .max 0 1, .ite 0 2 3]

def exCfgA : Cfg := ⟨Edge.gtIdx, Policy.exact, fun _ _ => true⟩
def exCfgB : Cfg := ⟨fun a b => Edge.gtIdx b a, Policy.dm 1 (fun _ => 0) (fun t => t % 3 != 0),
  fun _ _ => false⟩

/-- the handles: `x0 + x1` and `x1 + x0` coincide, all others differ -/
example : (runAllS i64Ops exCfgA 20 exHistory (⟨Store.empty, [], 0⟩, [])).2 =
    [.inner 0, .inner 1, .term 2, .inner 3, .inner 3, .inner 4, .inner 5, .inner 6] := by
  decide +kernel

example : (runAllS i64Ops exCfgB 20 exHistory (⟨Store.empty, [], 0⟩, [])).2 =
    [.inner 0, .inner 1, .term 2, .inner 3, .inner 3, .inner 4, .inner 5, .inner 6] := by
  decide +kernel

/-- admissibility of an `I64` constant, decided -/
def i64ValidB : I64 → Bool
  | .num n => decide (inRange n)
  | _ => true

theorem i64ValidB_sound (v : I64) (h : i64ValidB v = true) : v.Valid := by
  cases v <;> first | trivial | (simpa [i64ValidB, I64.Valid] using h)

/-- the preconditions of `history_spec` are satisfiable (checked on the concrete history by the
executable checker `preAllB`) -/
theorem exHistory_pre : PreAll i64Ops I64.Valid 20 exHistory [] ∧ CondAll i64Ops exHistory [] :=
  preAll_of_B i64ValidB_sound i64Ops 20 exHistory [] (by decide +kernel)

example :
    let X := runAllS i64Ops exCfgB 20 exHistory (⟨Store.empty, [], 0⟩, [])
    X.1.store.Unique ∧ CacheOK i64Ops X.1.store X.1.cache :=
  have h := history_spec_i64 exCfgB (Policy.dm_ok 1 (fun _ => 0) (fun t => t % 3 != 0)) 20 exHistory exHistory_pre.1 exHistory_pre.2
  ⟨h.1, h.2.1⟩

end OxiddModel.Mtbdd.StoreLevel
