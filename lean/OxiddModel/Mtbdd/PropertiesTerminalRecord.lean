import OxiddModel.Mtbdd.PropertiesTerminalText

/-!
# The DDDMP terminal record of an MTBDD terminal is read back as that terminal (C15)

Joins the text model of `Mtbdd/TerminalText.lean` with the byte-level DDDMP model
(`Dddmp/Model.lean`): the ASCII exporter writes the terminal with node id `id` as the line

```text
<id> <AsciiDisplay of the terminal> 0 0\n          (Dddmp.asciiTermRecords)
```

and the ASCII importer (`readLine`, `importAsciiLine`: `parse_usize`, `trim_start`, split at the
first space/tab, `parse_edge_list`, "a child `0` marks a terminal", `from_utf8`,
`Terminal::parse`) hands exactly the text to the terminal parser.  With
`i64_parse_ascii_display` the record of every `I64` terminal is read back as that terminal.
-/
namespace OxiddModel.Mtbdd.TermText
open OxiddModel.Dddmp

/-! ## pieces of the importer on a well-formed record -/

theorem parseUnsigned_go_digits (max : Nat) (r : List Nat) : ∀ (ds : List Nat) (res : Nat) (num : Bool),
    IsDigits ds → valFrom res ds ≤ max → (ds ≠ [] ∨ num = true) →
    parseUnsigned.go max res num (ds ++ 32 :: r) = .ok (valFrom res ds, 32 :: r) := by
  intro ds
  induction ds with
  | nil =>
    intro res num _ _ hnum
    have hn : num = true := by rcases hnum with h | h; exact absurd rfl h; exact h
    subst hn
    simp [parseUnsigned.go, isDigit, isBlank, valFrom_nil]
  | cons c cs ih =>
    intro res num hd hv _
    have hc := hd c (by simp)
    have hcd : isDigit c = true := (isDigit_iff c).2 hc
    rw [valFrom_cons] at hv ⊢
    have hge := valFrom_ge cs (res * 10 + (c - 48))
    have hd' : IsDigits cs := fun d h => hd d (List.mem_cons_of_mem _ h)
    show parseUnsigned.go max res num (c :: (cs ++ 32 :: r)) = _
    unfold parseUnsigned.go
    simp only [hcd, if_true]
    rw [if_neg (by omega)]
    exact ih _ true hd' hv (Or.inr rfl)

theorem parseUnsigned_decBytes (max id : Nat) (h : id ≤ max) (r : List Nat) :
    parseUnsigned max (decBytes id ++ 32 :: r) = .ok (id, 32 :: r) := by
  unfold parseUnsigned
  rw [parseUnsigned_go_digits max r (decBytes id) 0 false (isDigits_decBytes id)
    (by rw [valFrom_zero, valOf_decBytes]; exact h) (Or.inl (decBytes_ne_nil id)),
    valFrom_zero, valOf_decBytes]

theorem utf8LossyGo_ascii : ∀ (s : List Nat) (fuel : Nat) (acc : List Nat), s.length < fuel →
    (∀ b ∈ s, b < 128) → utf8LossyGo fuel s acc = acc.reverse ++ s := by
  intro s
  induction s with
  | nil =>
    intro fuel acc hf _
    cases fuel with
    | zero => omega
    | succ f => simp [utf8LossyGo]
  | cons b s ih =>
    intro fuel acc hf ha
    cases fuel with
    | zero => omega
    | succ f =>
      have hb := ha b (by simp)
      unfold utf8LossyGo
      simp only [hb, if_true]
      rw [ih f (b :: acc) (by simp at hf; omega) (fun x hx => ha x (List.mem_cons_of_mem _ hx))]
      simp

theorem utf8Lossy_ascii {s : List Nat} (h : ∀ b ∈ s, b < 128) : utf8Lossy s = s := by
  unfold utf8Lossy
  rw [utf8LossyGo_ascii s _ [] (by omega) h]
  rfl

theorem safe_not_nl {tok : List Nat} (h : TokenSafe tok) : ∀ b ∈ tok, b ≠ 10 ∧ b ≠ 13 := by
  intro b hb
  have := h.2 b hb
  simp only [safeByte, Bool.not_eq_true', Bool.or_eq_false_iff, decide_eq_false_iff_not] at this
  omega

/-- the record as the exporter writes it (without the line feed) -/
def termLine (id : Nat) (tok : List Nat) : List Nat := decBytes id ++ 32 :: (tok ++ [32, 48, 32, 48])

theorem asciiTermRecords_cons (id : Nat) (tok : List Nat) (rest : List (List Nat)) :
    asciiTermRecords id (tok :: rest) = termLine id tok ++ 10 :: asciiTermRecords (id + 1) rest := by
  simp [asciiTermRecords, termLine, sp]

/-- `read_until(b'\n')` returns the record and leaves the rest -/
theorem readLine_termLine (id : Nat) {tok : List Nat} (h : TokenSafe tok) (rest : List Nat) :
    readLine (termLine id tok ++ 10 :: rest) = some (termLine id tok, rest) := by
  have hno : ∀ b ∈ termLine id tok, (b ≠ 10) := by
    intro b hb
    simp only [termLine, List.mem_append, List.mem_cons] at hb
    rcases hb with hb | hb | hb | hb
    · have := isDigits_decBytes id b hb; omega
    · omega
    · exact (safe_not_nl h b hb).1
    · simp at hb; omega
  have hne : termLine id tok ++ 10 :: rest ≠ [] := by simp [termLine]
  have htw : (termLine id tok ++ 10 :: rest).takeWhile (· ≠ 10) = termLine id tok := by
    rw [List.takeWhile_append_of_pos (by intro b hb; simpa using hno b hb)]
    simp
  have hdw : (termLine id tok ++ 10 :: rest).dropWhile (· ≠ 10) = 10 :: rest := by
    rw [List.dropWhile_append_of_pos (by intro b hb; simpa using hno b hb)]
    simp
  unfold readLine
  rw [if_neg hne]
  simp only [htw, hdw, List.drop_one, List.tail_cons]
  have hrev : (termLine id tok).reverse = 48 :: 32 :: 48 :: 32 :: (decBytes id ++ 32 :: tok).reverse := by
    simp [termLine]
  rw [hrev]
  simp only [List.dropWhile_cons]
  rw [if_neg (by decide), ← hrev, List.reverse_reverse]

/-- **terminal_record_import.** One terminal record, any terminal type: the importer passes exactly
the exported text `tok` to `Terminal::parse` and returns its result (an unparsable text is an
error, never a panic), provided the text is token-safe ASCII and the node id is a `usize`. -/
theorem terminal_record_import {E : Type} (A : Alg E) (hA : A.arity = 2) (slm : List Nat) (nodes : List E)
    (id : Nat) (hid : id < usize64) {tok : List Nat} (hs : TokenSafe tok) (hascii : ∀ b ∈ tok, b < 128) :
    importAsciiLine A 4 slm id nodes (termLine id tok)
      = match A.parseTerminal tok with
        | none => .err
        | some t => .ok t := by
  unfold importAsciiLine termLine
  rw [parseUnsigned_decBytes _ id (by omega)]
  simp only [ne_eq, not_true_eq_false, if_false]
  have ht1 : trimStart (32 :: (tok ++ [32, 48, 32, 48])) = tok ++ [32, 48, 32, 48] := by
    show (if isBlank 32 then trimStart (tok ++ [32, 48, 32, 48]) else _) = _
    rw [if_pos (by decide), trimStart_safe hs]
  rw [ht1, trimStart_safe hs]
  have hsp := splitBlank_safe hs [48, 32, 48]
  have he : tok ++ [32, 48, 32, 48] = tok ++ 32 :: [48, 32, 48] := rfl
  rw [he, hsp]
  have hel : parseEdgeList [48, 32, 48] = .ok [0, 0] := by decide
  simp only [hel]
  rw [if_neg (by rw [hA]; decide), if_pos (by decide), if_neg (by rw [utf8Lossy_ascii hascii]; simp)]
  cases A.parseTerminal tok <;> rfl

/-- **i64_terminal_record_roundtrip.** For every `I64` terminal `x` and every node id: the line the
exporter writes is read back as `x` — for any target manager whose terminal parser is
`I64`'s `parse` (`mk` turns the parsed value into an edge, e.g. `manager.get_terminal`). -/
theorem i64_terminal_record_roundtrip {E : Type} (mk : I64 → E) (A : Alg E) (hA : A.arity = 2)
    (hp : ∀ s, A.parseTerminal s = (parse s).map mk)
    (slm : List Nat) (nodes : List E) (id : Nat) (hid : id < usize64) (x : I64) (hx : x.Valid)
    (rest : List Nat) :
    readLine (termLine id (asciiDisplay x) ++ 10 :: rest) = some (termLine id (asciiDisplay x), rest)
    ∧ importAsciiLine A 4 slm id nodes (termLine id (asciiDisplay x)) = .ok (mk x) := by
  obtain ⟨_, hs, _, _, hascii⟩ := i64_display_token_safe x
  refine ⟨readLine_termLine id hs rest, ?_⟩
  rw [terminal_record_import A hA slm nodes id hid hs hascii, hp, i64_parse_ascii_display x hx]
  rfl

/-- non-vacuity: `i64::MIN` as node 7, through the free algebra on `I64` values -/
example :
    importAsciiLine (E := Option I64)
      { level := fun _ => levelMax, complement := id, reduce := fun _ _ => none,
        parseTerminal := fun s => (parse s).map some, arity := 2 }
      4 [] 7 [] (termLine 7 (asciiDisplay (.num I64_MIN))) = .ok (some (.num I64_MIN)) :=
  (i64_terminal_record_roundtrip some _ rfl (fun _ => rfl) [] [] 7 (by decide) (.num I64_MIN)
    ((inRange_iff I64_MIN).2 (by decide)) []).2

end OxiddModel.Mtbdd.TermText
