import OxiddModel.Mtbdd.LemmasTerminalText
import OxiddModel.Dddmp.Driver

/-!
# Text form of MTBDD terminals — headline theorems (C15 round trip, C10 NaN/infinity)

Property C15: *"exporting … and importing it again yields the same function"* — for MTBDDs this
needs that the text the exporter writes for a terminal is read back as the same terminal, and that
the text survives the tokeniser.  Property C10: *"documented NaN and infinity behaviour"*.

* `i64_parse_display`, `i64_parse_ascii_display`: `parse (display x) = some x` for **every** `I64`
  value: `NaN`, `±∞`, every `i64` including `i64::MIN`;
* `i64_parse_total`: `parse` is a total function whose results are valid `I64` values, and the exact
  set of texts read as numbers: optional sign, at least one digit, nothing else, value in range
  (so `-9223372036854775809`, `+`, the empty text and anything with a blank are rejected);
* `i64_display_token_safe`: the texts contain no byte that the DDDMP tokeniser splits at or the
  name sanitiser replaces, hence the importer's `splitBlank` returns exactly the text;
* `i64_parse_eq_dddmp_model`: the terminal parser of the DDDMP model (`Dddmp.algMTBDD`, stream
  `dddmp`) is this `parse`;
* `f64_parse_normalises`, `f64_special_roundtrip`, `f64_roundtrip_of_std`: `F64::parse` never
  returns `-0.0` or a non-canonical NaN whatever `f64::from_str` returns; `NaN`, `±∞` round-trip;
  finite values round-trip *if* the standard library's printing/parsing pair does (not modelled).
-/
namespace OxiddModel.Mtbdd.TermText
open OxiddModel.Dddmp (intBytes decBytes isDigit isBlank valOf IsDigits valOf_decBytes isDigits_decBytes)

/-! ## names -/

def allNames : List (List Nat) := nanNames ++ minusInfNames ++ plusInfNames

/-- the last byte of a text is a decimal digit -/
def lastIsDigit (s : List Nat) : Bool :=
  match s.getLast? with
  | some c => isDigit c
  | none => false

theorem names_last_not_digit : ∀ n ∈ allNames, lastIsDigit n = false := by decide

theorem names_no_blank : ∀ n ∈ allNames, ∀ b ∈ n, isBlank b = false := by decide

theorem names_safe : ∀ n ∈ allNames, ∀ b ∈ n, safeByte b = true := by decide

theorem names_disjoint : ∀ n ∈ allNames,
    (n ∈ nanNames → n ∉ minusInfNames ∧ n ∉ plusInfNames) ∧ (n ∈ minusInfNames → n ∉ plusInfNames) := by
  decide

theorem names_not_numbers : ∀ n ∈ allNames, fromStrSpec n = none := by decide

theorem isName_false_of_lastDigit {s : List Nat} (h : lastIsDigit s = true) :
    isName s nanNames = false ∧ isName s minusInfNames = false ∧ isName s plusInfNames = false := by
  have key : ∀ names, (∀ n ∈ names, n ∈ allNames) → isName s names = false := by
    intro names hsub
    cases hc : isName s names with
    | false => rfl
    | true =>
      unfold isName at hc
      have hm : s ∈ names := List.contains_iff_mem.mp hc
      have := names_last_not_digit s (hsub s hm)
      rw [h] at this; cases this
  refine ⟨key _ ?_, key _ ?_, key _ ?_⟩ <;> intro n hn <;> simp [allNames, hn]

theorem lastIsDigit_digits {l : List Nat} (hne : l ≠ []) (hd : IsDigits l) : lastIsDigit l = true := by
  unfold lastIsDigit
  cases h : l.getLast? with
  | none => exact absurd (List.getLast?_eq_none_iff.mp h) hne
  | some c => exact (isDigit_iff c).2 (hd c (List.mem_of_getLast? h))

theorem lastIsDigit_cons (a : Nat) {l : List Nat} (hne : l ≠ []) : lastIsDigit (a :: l) = lastIsDigit l := by
  cases l with
  | nil => exact absurd rfl hne
  | cons b l' => unfold lastIsDigit; rw [List.getLast?_cons_cons]

theorem lastIsDigit_intBytes (n : Int) : lastIsDigit (intBytes n) = true := by
  have hne := decBytes_ne_nil n.natAbs
  have hd := lastIsDigit_digits hne (isDigits_decBytes n.natAbs)
  unfold intBytes
  split
  · rw [lastIsDigit_cons 45 hne]; exact hd
  · exact hd

/-! ## I64: round trip -/

theorem parse_intBytes (n : Int) (hn : inRange n) : parse (intBytes n) = some (.num n) := by
  obtain ⟨h1, h2, h3⟩ := isName_false_of_lastDigit (lastIsDigit_intBytes n)
  unfold parse
  simp only [h1, h2, h3, Bool.false_eq_true, if_false, fromStr_intBytes n hn]

/-- **i64_parse_display.** `parse (display x) = some x` for every value of the type: `NaN`, `-∞`,
`+∞` and every `i64` (`Valid` says that the payload of `Num` is an `i64`), `i64::MIN` and
`i64::MAX` included. -/
theorem i64_parse_display (x : I64) (hx : x.Valid) : parse (display x) = some x := by
  cases x with
  | nan => decide
  | ninf => decide
  | pinf => decide
  | num n => exact parse_intBytes n hx

/-- **i64_parse_ascii_display.** The same for the text the DDDMP exporter writes
(`AsciiDisplay`: `-Inf`, `+Inf`). -/
theorem i64_parse_ascii_display (x : I64) (hx : x.Valid) : parse (asciiDisplay x) = some x := by
  cases x with
  | nan => decide
  | ninf => decide
  | pinf => decide
  | num n => exact parse_intBytes n hx

/-- non-vacuity: the boundary values, as texts -/
example : display (.num I64_MIN) = [45, 57, 50, 50, 51, 51, 55, 50, 48, 51, 54, 56, 53, 52, 55, 55, 53, 56, 48, 56]
    ∧ parse (display (.num I64_MIN)) = some (.num I64_MIN)
    ∧ parse (display (.num I64_MAX)) = some (.num I64_MAX)
    ∧ parse (asciiDisplay .ninf) = some .ninf := by
  exact ⟨by decide, i64_parse_display _ ((inRange_iff _).2 (by decide)),
    i64_parse_display _ ((inRange_iff _).2 (by decide)), by decide⟩

/-- display is injective on valid values (two terminals never share a text) -/
theorem i64_display_injective (x y : I64) (hx : x.Valid) (hy : y.Valid)
    (h : asciiDisplay x = asciiDisplay y) : x = y := by
  have := i64_parse_ascii_display x hx
  rw [h, i64_parse_ascii_display y hy] at this
  injection this with this
  exact this.symm

/-! ## I64: totality and the exact set of accepted texts -/

theorem spec_nil : fromStrSpec [] = none := by simp [fromStrSpec]

theorem spec_neg (rest : List Nat) : fromStrSpec (45 :: rest) =
    if rest = [] ∨ rest.all isDigit = false then none
    else if valOf rest ≤ 9223372036854775808 then some (-(valOf rest : Int)) else none := by
  simp [fromStrSpec]

theorem spec_plus (rest : List Nat) : fromStrSpec (43 :: rest) =
    if rest = [] ∨ rest.all isDigit = false then none
    else if valOf rest ≤ 9223372036854775807 then some (valOf rest : Int) else none := by
  simp [fromStrSpec]

theorem spec_plain (c : Nat) (rest : List Nat) (h45 : c ≠ 45) (h43 : c ≠ 43) : fromStrSpec (c :: rest) =
    if (c :: rest).all isDigit = false then none
    else if valOf (c :: rest) ≤ 9223372036854775807 then some (valOf (c :: rest) : Int) else none := by
  simp [fromStrSpec, h45, h43]

theorem fromStrSpec_some {s : List Nat} {v : Int} (h : fromStrSpec s = some v) :
    inRange v ∧
    ∃ body, body ≠ [] ∧ body.all isDigit = true ∧
      ((s = body ∧ v = (valOf body : Int)) ∨ (s = 43 :: body ∧ v = (valOf body : Int))
        ∨ (s = 45 :: body ∧ v = -(valOf body : Int))) := by
  cases s with
  | nil => rw [spec_nil] at h; cases h
  | cons c rest =>
    by_cases h45 : c = 45
    · subst h45
      rw [spec_neg] at h
      by_cases hc : rest = [] ∨ rest.all isDigit = false
      · rw [if_pos hc] at h; cases h
      · rw [if_neg hc] at h
        by_cases hv : valOf rest ≤ 9223372036854775808
        · rw [if_pos hv] at h
          injection h with h
          have hall : rest.all isDigit = true := by
            cases hh : rest.all isDigit with
            | true => rfl
            | false => exact absurd (Or.inr hh) hc
          exact ⟨(inRange_iff v).2 (by omega), rest, fun e => hc (Or.inl e), hall,
            Or.inr (Or.inr ⟨rfl, h.symm⟩)⟩
        · rw [if_neg hv] at h; cases h
    · by_cases h43 : c = 43
      · subst h43
        rw [spec_plus] at h
        by_cases hc : rest = [] ∨ rest.all isDigit = false
        · rw [if_pos hc] at h; cases h
        · rw [if_neg hc] at h
          by_cases hv : valOf rest ≤ 9223372036854775807
          · rw [if_pos hv] at h
            injection h with h
            have hall : rest.all isDigit = true := by
              cases hh : rest.all isDigit with
              | true => rfl
              | false => exact absurd (Or.inr hh) hc
            exact ⟨(inRange_iff v).2 (by omega), rest, fun e => hc (Or.inl e), hall,
              Or.inr (Or.inl ⟨rfl, h.symm⟩)⟩
          · rw [if_neg hv] at h; cases h
      · rw [spec_plain c rest h45 h43] at h
        by_cases hc : (c :: rest).all isDigit = false
        · rw [if_pos hc] at h; cases h
        · rw [if_neg hc] at h
          by_cases hv : valOf (c :: rest) ≤ 9223372036854775807
          · rw [if_pos hv] at h
            injection h with h
            have hall : (c :: rest).all isDigit = true := by
              cases hh : (c :: rest).all isDigit with
              | true => rfl
              | false => exact absurd hh hc
            exact ⟨(inRange_iff v).2 (by omega), c :: rest, by simp, hall, Or.inl ⟨rfl, h.symm⟩⟩
          · rw [if_neg hv] at h; cases h

/-- where a result of `parse` comes from -/
theorem parse_some_cases {s : List Nat} {x : I64} (h : parse s = some x) :
    (s ∈ allNames ∧ ∀ v, x ≠ .num v) ∨ (s ∉ allNames ∧ ∃ v, x = .num v ∧ fromStrSpec s = some v) := by
  unfold parse isName at h
  rw [fromStrI64_eq_spec] at h
  by_cases h1 : nanNames.contains s = true
  · rw [if_pos h1] at h
    injection h with h; subst h
    exact Or.inl ⟨by simp [allNames, List.contains_iff_mem.mp h1], fun v hv => by cases hv⟩
  · rw [if_neg h1] at h
    by_cases h2 : minusInfNames.contains s = true
    · rw [if_pos h2] at h
      injection h with h; subst h
      exact Or.inl ⟨by simp [allNames, List.contains_iff_mem.mp h2], fun v hv => by cases hv⟩
    · rw [if_neg h2] at h
      by_cases h3 : plusInfNames.contains s = true
      · rw [if_pos h3] at h
        injection h with h; subst h
        exact Or.inl ⟨by simp [allNames, List.contains_iff_mem.mp h3], fun v hv => by cases hv⟩
      · rw [if_neg h3] at h
        have hnot : s ∉ allNames := by
          intro hm
          simp only [allNames, List.mem_append] at hm
          rcases hm with (hm | hm) | hm
          · exact h1 (List.contains_iff_mem.mpr hm)
          · exact h2 (List.contains_iff_mem.mpr hm)
          · exact h3 (List.contains_iff_mem.mpr hm)
        cases hf : fromStrSpec s with
        | none => rw [hf] at h; cases h
        | some w =>
          rw [hf] at h
          injection h with h
          exact Or.inr ⟨hnot, w, h.symm, rfl⟩

/-- a text that is not a name is parsed as a number iff `i64::from_str` accepts it -/
theorem parse_of_not_name {s : List Nat} (hn : s ∉ allNames) :
    parse s = (fromStrSpec s).map I64.num := by
  have hc : ∀ names : List (List Nat), (∀ n ∈ names, n ∈ allNames) → names.contains s = false := by
    intro names hsub
    cases hh : names.contains s with
    | false => rfl
    | true => exact absurd (hsub s (List.contains_iff_mem.mp hh)) hn
  unfold parse isName
  rw [hc nanNames (by intro n h; simp [allNames, h]), hc minusInfNames (by intro n h; simp [allNames, h]),
    hc plusInfNames (by intro n h; simp [allNames, h]), fromStrI64_eq_spec]
  cases fromStrSpec s <;> rfl

/-- a text containing a byte that is neither a digit nor a sign at the front is not a number -/
theorem fromStrSpec_none_of_bad {s : List Nat} {b : Nat} (hb : b ∈ s) (hd : isDigit b = false)
    (hs : b ≠ 43 ∧ b ≠ 45) : fromStrSpec s = none := by
  cases h : fromStrSpec s with
  | none => rfl
  | some v =>
    exfalso
    obtain ⟨_, body, _, hall, hcase⟩ := fromStrSpec_some h
    rw [List.all_eq_true] at hall
    rcases hcase with ⟨e, _⟩ | ⟨e, _⟩ | ⟨e, _⟩
    · rw [e] at hb; have := hall b hb; rw [hd] at this; cases this
    · rw [e] at hb
      rcases List.mem_cons.mp hb with h1 | h1
      · exact hs.1 h1
      · have := hall b h1; rw [hd] at this; cases this
    · rw [e] at hb
      rcases List.mem_cons.mp hb with h1 | h1
      · exact hs.2 h1
      · have := hall b h1; rw [hd] at this; cases this

/-- **i64_parse_total.** `parse` is a total function on arbitrary byte strings (nothing in it can
panic: every arithmetic step is `checked_*`), and
1. every result is a valid `I64` (a number is within `i64`);
2. a text is read as the number `v` iff it is an optional sign (`+` or `-`) followed by at least
   one decimal digit and nothing else, and the value is in range;
3. a text with a blank (space or tab) anywhere is rejected — no trimming. -/
theorem i64_parse_total (s : List Nat) :
    (∀ x, parse s = some x → x.Valid)
    ∧ (∀ v, parse s = some (.num v) ↔
        (inRange v ∧ ∃ body, body ≠ [] ∧ body.all isDigit = true ∧
          ((s = body ∧ v = (valOf body : Int)) ∨ (s = 43 :: body ∧ v = (valOf body : Int))
            ∨ (s = 45 :: body ∧ v = -(valOf body : Int)))))
    ∧ ((∃ b ∈ s, isBlank b = true) → parse s = none) := by
  refine ⟨?_, ?_, ?_⟩
  · intro x hx
    rcases parse_some_cases hx with ⟨_, hnn⟩ | ⟨_, v, hv, hs⟩
    · cases x with
      | nan => trivial
      | ninf => trivial
      | pinf => trivial
      | num v => exact absurd rfl (hnn v)
    · subst hv; exact (fromStrSpec_some hs).1
  · intro v
    constructor
    · intro h
      rcases parse_some_cases h with ⟨_, hnn⟩ | ⟨_, w, hw, hs⟩
      · exact absurd rfl (hnn v)
      · injection hw with hw; subst hw; exact fromStrSpec_some hs
    · intro ⟨hr, body, hne, hall, hcase⟩
      have hspec : fromStrSpec s = some v := by
        obtain ⟨hlo, hhi⟩ := (inRange_iff v).1 hr
        have hnc : ¬ (body = [] ∨ body.all isDigit = false) := by rw [hall]; simp [hne]
        rcases hcase with ⟨e, ev⟩ | ⟨e, ev⟩ | ⟨e, ev⟩
        · cases hb : body with
          | nil => exact absurd hb hne
          | cons c rest =>
            have hcd : isDigit c = true := by
              rw [List.all_eq_true] at hall; exact hall c (by rw [hb]; simp)
            have hc := (isDigit_iff c).1 hcd
            rw [e, hb, spec_plain c rest (by omega) (by omega), ← hb, hall,
              if_neg (by simp), if_pos (by omega), ev]
        · rw [e, spec_plus, if_neg hnc, if_pos (by omega), ev]
        · rw [e, spec_neg, if_neg hnc, if_pos (by omega), ev]
      have hnn : s ∉ allNames := by
        intro hm
        have := names_not_numbers s hm
        rw [hspec] at this; cases this
      rw [parse_of_not_name hnn, hspec]; rfl
  · intro ⟨b, hb, hbl⟩
    have hnn : s ∉ allNames := by
      intro hm
      have := names_no_blank s hm b hb
      rw [hbl] at this; cases this
    have hspec : fromStrSpec s = none := by
      have hb' : b = 32 ∨ b = 9 := by simpa [isBlank] using hbl
      apply fromStrSpec_none_of_bad hb
      · rcases hb' with h | h <;> subst h <;> decide
      · rcases hb' with h | h <;> subst h <;> decide
    rw [parse_of_not_name hnn, hspec]; rfl

/-- the rejections named in the task, evaluated: one below `i64::MIN`, one above `i64::MAX`, a lone
sign, the empty text, blanks inside / in front / behind, two signs, a decimal point, and the
neighbours that are accepted (`i64::MIN`, `+5`, `-0`, leading zeros) -/
example :
    parse [45, 57, 50, 50, 51, 51, 55, 50, 48, 51, 54, 56, 53, 52, 55, 55, 53, 56, 48, 57] = none  -- -9223372036854775809
    ∧ parse [57, 50, 50, 51, 51, 55, 50, 48, 51, 54, 56, 53, 52, 55, 55, 53, 56, 48, 56] = none     -- 9223372036854775808
    ∧ parse [43] = none ∧ parse [45] = none ∧ parse [] = none
    ∧ parse [49, 32, 50] = none ∧ parse [32, 49] = none ∧ parse [49, 32] = none ∧ parse [49, 9] = none
    ∧ parse [43, 45, 53] = none ∧ parse [45, 45, 53] = none ∧ parse [49, 46, 48] = none
    ∧ parse [45, 57, 50, 50, 51, 51, 55, 50, 48, 51, 54, 56, 53, 52, 55, 55, 53, 56, 48, 56] = some (.num I64_MIN)
    ∧ parse [43, 53] = some (.num 5) ∧ parse [45, 48] = some (.num 0) ∧ parse [48, 48, 55] = some (.num 7) := by
  decide

/-! ## I64: the texts survive the DDDMP tokeniser and sanitiser -/

theorem safe_intBytes (n : Int) : TokenSafe (intBytes n) := by
  have hd := isDigits_decBytes n.natAbs
  have hne := decBytes_ne_nil n.natAbs
  unfold intBytes
  split
  · refine ⟨by simp, ?_⟩
    intro b hb
    rcases List.mem_cons.mp hb with h | h
    · subst h; decide
    · have := hd b h; simp [safeByte]; omega
  · refine ⟨hne, ?_⟩
    intro b hb
    have := hd b hb; simp [safeByte]; omega

/-- the importer's `memchr2(b' ', b'\t')` split returns exactly a token-safe text -/
theorem splitBlank_safe {tok : List Nat} (h : TokenSafe tok) (rest : List Nat) :
    Dddmp.splitBlank (tok ++ 32 :: rest) = some (tok, rest) := by
  have hnb : ∀ b ∈ tok, (!isBlank b) = true := by
    intro b hb
    have := h.2 b hb
    simp only [safeByte, Bool.not_eq_true', Bool.or_eq_false_iff, decide_eq_false_iff_not] at this
    simp only [isBlank, Bool.not_eq_true', Bool.or_eq_false_iff, decide_eq_false_iff_not]
    omega
  have htw : (tok ++ 32 :: rest).takeWhile (fun b => !isBlank b) = tok := by
    rw [List.takeWhile_append_of_pos hnb]
    simp [isBlank]
  unfold Dddmp.splitBlank
  simp only [htw]
  rw [if_pos (by simp)]
  simp

theorem trimStart_safe {tok : List Nat} (h : TokenSafe tok) (rest : List Nat) :
    Dddmp.trimStart (tok ++ rest) = tok ++ rest := by
  cases htok : tok with
  | nil => exact absurd htok h.1
  | cons c t =>
    have := h.2 c (by rw [htok]; simp)
    have hnb : isBlank c = false := by
      simp only [safeByte, Bool.not_eq_true', Bool.or_eq_false_iff, decide_eq_false_iff_not] at this
      simp only [isBlank, Bool.or_eq_false_iff, decide_eq_false_iff_not]
      omega
    simp [Dddmp.trimStart, hnb]

/-- **i64_display_token_safe.** For every `I64` value (valid or not) both texts are non-empty and
contain no space, tab, line feed, carriage return or other ASCII control byte. Hence, after the
exporter wrote `<id> <text> 0 0`, the importer's tokeniser (`trim_start`, then the split at the
first space/tab) returns exactly `<text>`; and the name sanitiser
(`replace_space_and_control`) would leave it unchanged. -/
theorem i64_display_token_safe (x : I64) :
    TokenSafe (display x) ∧ TokenSafe (asciiDisplay x)
    ∧ (∀ rest, Dddmp.splitBlank (Dddmp.trimStart (asciiDisplay x ++ 32 :: rest)) = some (asciiDisplay x, rest))
    ∧ Dddmp.replaceSpaceAndControl (asciiDisplay x) = (asciiDisplay x, false)
    ∧ (∀ b ∈ asciiDisplay x, b < 128) := by
  have h1 : TokenSafe (display x) := by
    cases x with
    | nan => exact ⟨by decide, by decide⟩
    | ninf => exact ⟨by decide, by decide⟩
    | pinf => exact ⟨by decide, by decide⟩
    | num n => exact safe_intBytes n
  have h2 : TokenSafe (asciiDisplay x) := by
    cases x with
    | nan => exact ⟨by decide, by decide⟩
    | ninf => exact ⟨by decide, by decide⟩
    | pinf => exact ⟨by decide, by decide⟩
    | num n => exact safe_intBytes n
  refine ⟨h1, h2, ?_, ?_, ?_⟩
  · intro rest
    rw [trimStart_safe h2, splitBlank_safe h2]
  · have hbad : ∀ b ∈ asciiDisplay x, (Dddmp.isAsciiControl b || decide (b = 32)) = false := by
      intro b hb
      have := h2.2 b hb
      simp only [safeByte, Bool.not_eq_true', Bool.or_eq_false_iff, decide_eq_false_iff_not] at this
      simp only [Dddmp.isAsciiControl, Bool.or_eq_false_iff, decide_eq_false_iff_not]
      omega
    unfold Dddmp.replaceSpaceAndControl
    congr 1
    · conv => rhs; rw [← List.map_id (asciiDisplay x)]
      apply List.map_congr_left
      intro b hb
      simp [hbad b hb]
    · rw [List.any_eq_false]
      intro b hb
      simp [hbad b hb]
  · intro b hb
    cases x with
    | nan => revert b; decide
    | ninf => revert b; decide
    | pinf => revert b; decide
    | num n =>
      have hd := isDigits_decBytes n.natAbs
      have hb' : b ∈ intBytes n := hb
      unfold intBytes at hb'
      split at hb'
      · rcases List.mem_cons.mp hb' with h | h
        · omega
        · have := hd b h; omega
      · have := hd b hb'; omega

/-! ## the DDDMP model's terminal parser is this `parse` -/

theorem parseI64_eq (s : List Nat) : Dddmp.parseI64 s = fromStrI64 s := by
  rw [fromStrI64_eq_spec]
  have hfold : ∀ l : List Nat, l.foldl (fun (a : Nat) (c : Nat) => a * 10 + (c - 48)) 0 = valOf l := fun _ => rfl
  have hany : ∀ l : List Nat, l.any (fun c => !isDigit c) = !l.all isDigit := by
    intro l; induction l with
    | nil => rfl
    | cons a l ih => simp [List.any_cons, List.all_cons, ih, Bool.not_and]
  cases s with
  | nil => simp [Dddmp.parseI64, spec_nil]
  | cons c rest =>
    by_cases h45 : c = 45
    · subst h45
      rw [spec_neg]
      simp only [Dddmp.parseI64, hfold, hany]
      by_cases hr : rest = [] <;> by_cases ha : rest.all isDigit = true <;>
        by_cases hv : valOf rest ≤ 9223372036854775808 <;> simp [hr, ha, hv] <;> omega
    · by_cases h43 : c = 43
      · subst h43
        rw [spec_plus]
        simp only [Dddmp.parseI64, hfold, hany]
        by_cases hr : rest = [] <;> by_cases ha : rest.all isDigit = true <;>
          by_cases hv : valOf rest ≤ 9223372036854775807 <;> simp [hr, ha, hv] <;> omega
      · rw [spec_plain c rest h45 h43]
        unfold Dddmp.parseI64
        split
        rename_i neg r h
        have hnr : neg = false ∧ r = c :: rest := by
          split at h
          · rename_i r' h'; injection h' with h1 _; exact absurd h1 h45
          · rename_i r' h'; injection h' with h1 _; exact absurd h1 h43
          · injection h with h1 h2; exact ⟨h1.symm, h2.symm⟩
        obtain ⟨hn, hr⟩ := hnr
        subst hn hr
        simp only [hfold, hany]
        by_cases ha : (c :: rest).all isDigit = true <;>
          by_cases hv : valOf (c :: rest) ≤ 9223372036854775807 <;> simp [ha, hv] <;> omega

/-! ## F64 -/

namespace F64

theorem normal_fromBits (b : Nat) (hb : b < 2 ^ 64) : Normal (fromBits b) := by
  unfold fromBits
  by_cases h1 : isNan b = true
  · rw [if_pos h1]; exact ⟨by decide, by decide, fun _ => rfl⟩
  · rw [if_neg h1]
    by_cases h2 : b = NEG_ZERO_BITS
    · rw [if_pos h2]; exact ⟨by decide, by decide, by decide⟩
    · rw [if_neg h2]; exact ⟨hb, h2, fun h => absurd h h1⟩

/-- the constructor is the identity on values that satisfy the invariant, hence idempotent -/
theorem fromBits_of_normal {b : Nat} (h : Normal b) : fromBits b = b := by
  unfold fromBits
  by_cases h1 : isNan b = true
  · rw [if_pos h1]; exact (h.2.2 h1).symm
  · rw [if_neg h1, if_neg h.2.1]

/-- **f64_parse_normalises.** Whatever `f64::from_str` returns for a text (`-0`, `-0.0`, `-nan`,
a NaN with a payload, …): the result of `F64::parse` satisfies the invariant of the type — it is
never `-0.0`, and a NaN has exactly the pattern of `f64::NAN`. (Before the repair e0f38d1 the
last arm was `Self(f64::from_str(s).ok()?)`: `parse "-0"` was `-0.0`, not equal to
`F64::from(0.0)`.) -/
theorem f64_parse_normalises (fromStr : List Nat → Option Nat)
    (hrange : ∀ s b, fromStr s = some b → b < 2 ^ 64) (s : List Nat) (b : Nat)
    (h : parse fromStr s = some b) : Normal b := by
  unfold parse at h
  by_cases h1 : isName s nanNames = true
  · rw [if_pos h1] at h; injection h with h; subst h; exact ⟨by decide, by decide, fun _ => rfl⟩
  · rw [if_neg h1] at h
    by_cases h2 : isName s minusInfNames = true
    · rw [if_pos h2] at h; injection h with h; subst h; exact ⟨by decide, by decide, by decide⟩
    · rw [if_neg h2] at h
      by_cases h3 : isName s plusInfNames = true
      · rw [if_pos h3] at h; injection h with h; subst h; exact ⟨by decide, by decide, by decide⟩
      · rw [if_neg h3] at h
        cases hf : fromStr s with
        | none => rw [hf] at h; cases h
        | some b' =>
          rw [hf] at h
          injection h with h
          subst h
          exact normal_fromBits b' (hrange s b' hf)

/-- non-vacuity and the old defect: a `from_str` that maps `-0` to the pattern of `-0.0` and
`-nan` to a negative quiet NaN -/
example :
    let fromStr : List Nat → Option Nat := fun s =>
      if s = [45, 48] then some NEG_ZERO_BITS
      else if s = [45, 110, 97, 110] then some 0xfff8000000000000 else none
    parse fromStr [45, 48] = some 0 ∧ parse fromStr [45, 110, 97, 110] = some NAN_BITS
      ∧ ¬ Normal NEG_ZERO_BITS ∧ ¬ Normal 0xfff8000000000000 := by
  refine ⟨by decide, by decide, fun h => h.2.1 rfl, fun h => ?_⟩
  have := h.2.2 (by decide)
  revert this; decide

/-- **f64_special_roundtrip.** `NaN`, `-∞`, `+∞` round-trip through `Display` and through
`AsciiDisplay` (whatever the standard library does for finite values), and every accepted
spelling of them is read as the canonical value. -/
theorem f64_special_roundtrip (fromStr : List Nat → Option Nat) (fmt : Nat → List Nat) :
    (∀ b, b = NAN_BITS ∨ b = NEG_INF_BITS ∨ b = INF_BITS →
      parse fromStr (display fmt b) = some b ∧ parse fromStr (asciiDisplay fmt b) = some b)
    ∧ (∀ s ∈ nanNames, parse fromStr s = some NAN_BITS)
    ∧ (∀ s ∈ minusInfNames, parse fromStr s = some NEG_INF_BITS)
    ∧ (∀ s ∈ plusInfNames, parse fromStr s = some INF_BITS) := by
  refine ⟨?_, ?_, ?_, ?_⟩
  · intro b hb
    have hN : ∀ t, isName t nanNames = true → parse fromStr t = some NAN_BITS := by
      intro t ht; unfold parse; rw [if_pos ht]
    have hM : ∀ t, isName t nanNames = false → isName t minusInfNames = true →
        parse fromStr t = some NEG_INF_BITS := by
      intro t h1 h2; unfold parse; rw [h1, if_pos h2]; rfl
    have hP : ∀ t, isName t nanNames = false → isName t minusInfNames = false →
        isName t plusInfNames = true → parse fromStr t = some INF_BITS := by
      intro t h1 h2 h3; unfold parse; rw [h1, h2, if_pos h3]; rfl
    have d1 : display fmt NAN_BITS = NaN_TEXT := by unfold display; rw [if_pos rfl]
    have d2 : asciiDisplay fmt NAN_BITS = NaN_TEXT := by unfold asciiDisplay; rw [if_pos rfl]
    have d3 : display fmt NEG_INF_BITS = MINUS_INF_TEXT := by
      unfold display; rw [if_neg (by decide), if_pos rfl]
    have d4 : asciiDisplay fmt NEG_INF_BITS = MINUS_INF_ASCII := by
      unfold asciiDisplay; rw [if_neg (by decide), if_pos rfl]
    have d5 : display fmt INF_BITS = PLUS_INF_TEXT := by
      unfold display; rw [if_neg (by decide), if_neg (by decide), if_pos rfl]
    have d6 : asciiDisplay fmt INF_BITS = PLUS_INF_ASCII := by
      unfold asciiDisplay; rw [if_neg (by decide), if_neg (by decide), if_pos rfl]
    rcases hb with h | h | h <;> subst h
    · rw [d1, d2]; exact ⟨hN _ (by decide), hN _ (by decide)⟩
    · rw [d3, d4]; exact ⟨hM _ (by decide) (by decide), hM _ (by decide) (by decide)⟩
    · rw [d5, d6]
      exact ⟨hP _ (by decide) (by decide) (by decide), hP _ (by decide) (by decide) (by decide)⟩
  · intro s hs
    unfold parse isName
    rw [if_pos (List.contains_iff_mem.mpr hs)]
  · intro s hs
    have h1 : isName s nanNames = false := by
      cases hc : isName s nanNames with
      | false => rfl
      | true =>
        have hm := List.contains_iff_mem.mp hc
        have := (names_disjoint s (by simp [allNames, hm])).1 hm
        exact absurd hs this.1
    unfold parse
    rw [h1]
    unfold isName
    simp only [Bool.false_eq_true, if_false]
    rw [if_pos (List.contains_iff_mem.mpr hs)]
  · intro s hs
    have h1 : isName s nanNames = false := by
      cases hc : isName s nanNames with
      | false => rfl
      | true =>
        have hm := List.contains_iff_mem.mp hc
        have := (names_disjoint s (by simp [allNames, hm])).1 hm
        exact absurd hs this.2
    have h2 : isName s minusInfNames = false := by
      cases hc : isName s minusInfNames with
      | false => rfl
      | true =>
        have hm := List.contains_iff_mem.mp hc
        have := (names_disjoint s (by simp [allNames, hm])).2 hm
        exact absurd hs this
    unfold parse
    rw [h1, h2]
    unfold isName
    simp only [Bool.false_eq_true, if_false]
    rw [if_pos (List.contains_iff_mem.mpr hs)]

/-- **f64_roundtrip_of_std.** Finite values: *if* the standard library's `Display` for `f64`
writes a text that is not one of the names (it ends in a digit) and that `f64::from_str` reads
back as the same pattern (Rust's shortest round-trip guarantee — **assumed here, not modelled**),
then `F64`'s `parse ∘ display` is the identity on every normal value. In particular `0` → `"0"` →
`0`. -/
theorem f64_roundtrip_of_std (fromStr : List Nat → Option Nat) (fmt : Nat → List Nat) (b : Nat)
    (hn : Normal b) (hstd : fromStr (fmt b) = some b) (hlast : lastIsDigit (fmt b) = true) :
    parse fromStr (display fmt b) = some b ∧ parse fromStr (asciiDisplay fmt b) = some b := by
  by_cases hs : b = NAN_BITS ∨ b = NEG_INF_BITS ∨ b = INF_BITS
  · exact (f64_special_roundtrip fromStr fmt).1 b hs
  · have h1 : b ≠ NAN_BITS := fun h => hs (Or.inl h)
    have h2 : b ≠ NEG_INF_BITS := fun h => hs (Or.inr (Or.inl h))
    have h3 : b ≠ INF_BITS := fun h => hs (Or.inr (Or.inr h))
    obtain ⟨n1, n2, n3⟩ := isName_false_of_lastDigit hlast
    have hp : parse fromStr (fmt b) = some b := by
      unfold parse
      rw [n1, n2, n3]
      simp only [Bool.false_eq_true, if_false, hstd, fromBits_of_normal hn]
    have e1 : display fmt b = fmt b := by unfold display; rw [if_neg h1, if_neg h2, if_neg h3]
    have e2 : asciiDisplay fmt b = fmt b := by unfold asciiDisplay; rw [if_neg h1, if_neg h2, if_neg h3]
    rw [e1, e2]
    exact ⟨hp, hp⟩

example : Normal 0 ∧ lastIsDigit [48] = true := ⟨⟨by decide, by decide, by decide⟩, by decide⟩

end F64

end OxiddModel.Mtbdd.TermText
