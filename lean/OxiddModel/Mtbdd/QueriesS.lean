import OxiddModel.Mtbdd.StoreS
import OxiddModel.Util.OrderS
import OxiddModel.Util.VisitS

/-!
# The read-only queries of the MTBDD rules at STORE level, under a variable order

Store-level counterparts (nodes hold LEVELS, the caller names VARIABLES, `OrderS.Order`
translates; terminals are hash-consed values with their own ids, `StoreS.lean`), generic in the
terminal type `T`, of

* `eval_edge` (`crates/oxidd-rules-mtbdd/src/apply_rec.rs`): the bit set per level filled through
  `var_to_level` with `!val`, then the walk to a terminal whose value is returned (`evalS`);
* `var_edge`: `get_terminal(one)`, `get_terminal(zero)`, `get_or_insert` of
  `(var_to_level(var); 1, 0)` (`varS`);
* `cofactors` (the two children) and `Function::node_count` (`nodeCountS`; every terminal value
  reached is one node).
-/
set_option linter.unusedSectionVars false

namespace OxiddModel.Mtbdd.QueriesS
open OxiddModel.Mtbdd OxiddModel.Mtbdd.MT OxiddModel.Mtbdd.Refine OxiddModel.OrderS OxiddModel

variable {T : Type}

/-- the function of the variables denoted by a tree over levels -/
def evalV (o : Order) (ρ : Nat → Bool) (t : MT T) : T := MT.eval (fun l => ρ (o.var l)) t

theorem evalV_lvl (o : Order) (hp : PermOK o) (σ : Nat → Bool) (t : MT T) :
    evalV o (fun v => σ (o.lvl v)) t = MT.eval σ t := by
  unfold evalV
  congr 1
  funext l
  show σ (o.lvl (o.var l)) = σ l
  rw [hp.lvl_var]

/-! ## `eval_edge` -/

/-- the loop `for (var, val) in args { choices.set(var_to_level(var), !val) }` -/
def fillChoices (o : Order) (args : List (Nat × Bool)) : Array Bool :=
  args.foldl (fun ch a => ch.setIfInBounds (o.lvl a.1) (!a.2)) (Array.replicate o.n false)

/-- `inner`; `d` is returned for a dangling edge / without fuel (excluded by `Denotes`) -/
def walkS (s : Store T) (d : T) (ch : Array Bool) : Nat → Edge → T
  | 0, _ => d
  | _+1, .term i => (s.getTerm? i).getD d
  | fuel+1, .inner i =>
    match s.get? i with
    | none => d
    | some n => walkS s d ch fuel (if ch.getD n.level false then n.e else n.t)

/-- `eval_edge(manager, edge, args)` -/
def evalS (o : Order) (s : Store T) (d : T) (fuel : Nat) (e : Edge) (args : List (Nat × Bool)) : T :=
  walkS s d (fillChoices o args) fuel e

/-- the assignment described by an argument list (last value counts; not named: `true`) -/
def rhoArgs (args : List (Nat × Bool)) : Nat → Bool := argVal true args

theorem getD_setIfInBounds (t : Array Bool) (l k : Nat) (x : Bool) (hl : l < t.size) :
    (t.setIfInBounds l x).getD k false = if k = l then x else t.getD k false := by
  simp only [Array.getD_eq_getD_getElem?, Array.getElem?_setIfInBounds]
  by_cases e : k = l
  · subst e; simp [hl]
  · have : ¬ l = k := fun h => e h.symm
    simp [e, this]

theorem fillChoices_get (o : Order) (hp : PermOK o) (args : List (Nat × Bool))
    (hargs : ∀ a ∈ args, a.1 < o.n) (l : Nat) :
    (fillChoices o args).getD l false = !(rhoArgs args (o.var l)) := by
  unfold fillChoices rhoArgs argVal
  exact table_fill o hp (fun t l x => t.setIfInBounds l (!x)) (fun t l => t.getD l false)
    (fun x => !x) (fun t => t.size = o.n)
    (fun t l x _ ht => by simpa using ht)
    (fun t l x k hl ht => getD_setIfInBounds t l k (!x) (by omega))
    args hargs (Array.replicate o.n false) true l (by simp)
    (by simp [Array.getD_eq_getD_getElem?, Array.getElem?_replicate]; split <;> rfl)

theorem walkS_eq (s : Store T) (d : T) (ch : Array Bool) (σ : Nat → Bool)
    (h : ∀ l, ch.getD l false = !σ l) {e : Edge} {t : MT T} (hd : Denotes s e t) :
    ∀ fuel, t.size ≤ fuel → walkS s d ch fuel e = MT.eval σ t := by
  induction hd with
  | term hi =>
    intro fuel hf
    cases fuel with
    | zero => simp [MT.size] at hf
    | succ fuel => simp [walkS, hi, MT.eval]
  | @inner i l t e tt te hi _ _ iht ihe =>
    intro fuel hf
    cases fuel with
    | zero => simp [MT.size] at hf
    | succ fuel =>
      simp only [MT.size] at hf
      simp only [walkS, hi, h l, MT.eval]
      cases σ l
      · simp only [Bool.not_false, if_true, Bool.false_eq_true, if_false]
        exact ihe fuel (by omega)
      · simp only [Bool.not_true, Bool.false_eq_true, if_false, if_true]
        exact iht fuel (by omega)

/-! ## `cofactors`, `node_count` -/

/-- `cofactors_edge`: `None` for a terminal, else `(child 0, child 1)` -/
def cofactorsS (s : Store T) : Edge → Option (Edge × Edge)
  | .term _ => none
  | .inner i => (s.get? i).map fun n => (n.t, n.e)

/-- ids of the children in iteration order; terminals have none -/
def kidsS (s : Store T) : Edge → List Edge
  | .term _ => []
  | .inner i =>
    match s.get? i with
    | none => []
    | some n => [n.t, n.e]

/-- `Function::node_count` -/
def nodeCountS (s : Store T) (fuel : Nat) (e : Edge) : Nat := VisitS.count (kidsS s) fuel e

/-- `x` is a node of the diagram of `t` (terminals included) -/
def Subterm (x : MT T) : MT T → Prop
  | .leaf v => x = .leaf v
  | .node l a b => x = .node l a b ∨ Subterm x a ∨ Subterm x b

theorem Subterm.refl (t : MT T) : Subterm t t := by
  cases t with
  | leaf => rfl
  | node => exact .inl rfl

open Classical in
/-- the size of the tree an edge denotes (0 if none): the rank of the traversal -/
noncomputable def rk (s : Store T) (e : Edge) : Nat :=
  if h : ∃ t, Denotes s e t then (Classical.choose h).size else 0

theorem rk_eq {s : Store T} {e : Edge} {t : MT T} (h : Denotes s e t) : rk s e = t.size := by
  have hex : ∃ t, Denotes s e t := ⟨t, h⟩
  unfold rk
  rw [dif_pos hex, Denotes.functional (Classical.choose_spec hex) h]

theorem reach_denotes {s : Store T} {e y : Edge} (hr : VisitS.Reach (kidsS s) e y) :
    ∀ {t : MT T}, Denotes s e t → ∃ ty, Subterm ty t ∧ Denotes s y ty := by
  induction hr with
  | refl => intro t hd; exact ⟨t, Subterm.refl t, hd⟩
  | @step x k z hk _ ih =>
    intro t hd
    cases hd with
    | term => simp [kidsS] at hk
    | @inner i l a b ta tb hi ha hb =>
      simp only [kidsS, hi, List.mem_cons, List.not_mem_nil, or_false] at hk
      rcases hk with rfl | rfl
      · obtain ⟨ty, hs, hy⟩ := ih ha
        exact ⟨ty, .inr (.inl hs), hy⟩
      · obtain ⟨ty, hs, hy⟩ := ih hb
        exact ⟨ty, .inr (.inr hs), hy⟩

theorem subterm_reach {s : Store T} {e : Edge} {t : MT T} (hd : Denotes s e t) :
    ∀ ty, Subterm ty t → ∃ y, VisitS.Reach (kidsS s) e y ∧ Denotes s y ty := by
  induction hd with
  | term hi => intro ty hs; cases hs; exact ⟨_, .refl, .term hi⟩
  | @inner i l a b ta tb hi ha hb iha ihb =>
    intro ty hs
    rcases hs with rfl | hs | hs
    · exact ⟨_, .refl, .inner hi ha hb⟩
    · obtain ⟨y, hr, hy⟩ := iha ty hs
      exact ⟨y, .step (by simp [kidsS, hi]) hr, hy⟩
    · obtain ⟨y, hr, hy⟩ := ihb ty hs
      exact ⟨y, .step (by simp [kidsS, hi]) hr, hy⟩

theorem ranked_of_denotes {s : Store T} {e : Edge} {t : MT T} (hd : Denotes s e t) :
    VisitS.Ranked (kidsS s) (rk s) e := by
  intro y hy z hz
  obtain ⟨ty, _, hty⟩ := reach_denotes hy hd
  cases hty with
  | term => simp [kidsS] at hz
  | @inner i l a b ta tb hi ha hb =>
    simp only [kidsS, hi, List.mem_cons, List.not_mem_nil, or_false] at hz
    rw [rk_eq (.inner hi ha hb)]
    rcases hz with rfl | rfl
    · rw [rk_eq ha]; simp only [MT.size]; omega
    · rw [rk_eq hb]; simp only [MT.size]; omega

variable [DecidableEq T]

/-! ## `var_edge` -/

/-- `var_edge` -/
def varS (L : TermOps T) (o : Order) (s : Store T) (v : Nat) : Store T × Edge :=
  let level := o.lvl v
  let t := s.getTerminal L.one
  let e := t.1.getTerminal L.zero
  let r := Slots.intern e.1.nodes ⟨level, t.2, e.2⟩
  (⟨r.1, e.1.terms⟩, .inner r.2)

/-- `var_edge` with `level_to_var` where `var_to_level` belongs (seeded) -/
def varS_l2v (L : TermOps T) (o : Order) (s : Store T) (v : Nat) : Store T × Edge :=
  let t := s.getTerminal L.one
  let e := t.1.getTerminal L.zero
  let r := Slots.intern e.1.nodes ⟨o.var v, t.2, e.2⟩
  (⟨r.1, e.1.terms⟩, .inner r.2)

/-- `var_edge` at a given level -/
theorem varAt_spec (L : TermOps T) (s : Store T) (level : Nat) :
    let t := s.getTerminal L.one
    let e := t.1.getTerminal L.zero
    let r := Slots.intern e.1.nodes ⟨level, t.2, e.2⟩
    s.Le ⟨r.1, e.1.terms⟩ ∧ (s.Unique → (⟨r.1, e.1.terms⟩ : Store T).Unique) ∧
    Denotes ⟨r.1, e.1.terms⟩ (.inner r.2) (var L level) := by
  intro t e r
  have le1 : s.Le t.1 := getTerminal_le s _
  have le2 : t.1.Le e.1 := getTerminal_le t.1 _
  have le3 : e.1.Le ⟨r.1, e.1.terms⟩ := ⟨Slots.intern_le _ _, Slots.Le.refl _⟩
  refine ⟨le1.trans (le2.trans le3), fun hu => ?_, ?_⟩
  · have u2 := getTerminal_unique t.1 L.zero (getTerminal_unique s L.one hu)
    exact ⟨Slots.intern_unique _ _ u2.1, u2.2⟩
  · exact .inner (Slots.intern_get _ _)
      (((getTerminal_denotes s L.one).mono le2).mono le3)
      ((getTerminal_denotes t.1 L.zero).mono le3)

end OxiddModel.Mtbdd.QueriesS
