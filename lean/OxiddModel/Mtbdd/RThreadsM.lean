import OxiddModel.Mtbdd.PropertiesC07TM
import OxiddModel.Mtbdd.RcSLemmasAlg

/-!
# The MTBDD interleaving machine with reference counters as shared state

`Mtbdd/ThreadsM.lean` interleaves the atomic actions of `apply_bin::<OP>` / `apply_ite` on the
shared state `St` (node table, terminal table, apply cache, time stamp). This file adds the
**counters**: the shared state is `Rc.RSt` (`St` + one counter per inner-node slot `rc` **and one
per terminal slot `trc`**, `Mtbdd/RcS.lean`), and every step of a task does to the counters what
the Rust code does at that point (reference: the sequential counted model `Rc.applyR / Rc.iteR /
Rc.forkR / Rc.finishR / Rc.mkNodeR / Rc.getTerminalR` of `Mtbdd/RcS.lean`):

* a `call` that returns at once returns an *owned* edge:
  - `terminal_bin` arm `Done(clone_edge(f|g))` (`Rc.terminalBinP … = .clone h`): `clone_edge`;
  - `terminal_bin` arm `Done(get_terminal(v)?)` (`.term v`): **`getTerminalU` = `Rc.getTerminalR`
    with a free terminal slot always available** — found: `retain(id)` on the terminal; not found:
    the new slot gets `rc = 2` (terminal unique table + returned edge); one atomic action;
  - `apply_ite`'s `g == h` / terminal condition: `clone_edge`;
  - a **cache hit**: the `retain` happens inside `ApplyCache::get`, atomically with the lookup;
* operands of recursive calls, cofactors read from operand nodes and cache keys are **borrowed**;
* `seq0 fr r1 _` owns `r1` (`EdgeDropGuard`), a finished sub-task owns its result, `made _ r` owns
  `r` (`Task.owned`);
* `reduce` consumes both owned children — one atomic action `mkNodeU` = `Rc.mkNodeR` with a free
  slot always available (`t == e`: `drop_edge(e)`; table hit: the rejected node's children are
  dropped and the found node is retained; miss: the children move into the new node, `rc = 2`);
* `apply_cache().add` stores borrowed edges: no counter operation.

`Task.rstep_erase`: forgetting the counters, a step of this machine **is** the step of
`ThreadsM.lean`. `Task.rstep_rc`: every step keeps the counters of inner nodes *and terminals*
**exact** (`Rc.RcInv r ext`). Out of memory is not modelled (as in `ThreadsM.lean`).
-/
set_option linter.unusedSectionVars false
set_option linter.unusedVariables false

namespace OxiddModel.Mtbdd.Threads
open OxiddModel.Mtbdd OxiddModel.Mtbdd.MT OxiddModel.Mtbdd.Refine OxiddModel.Mtbdd.Rc
open OxiddModel.CachePolicy OxiddModel

variable {T : Type} [DecidableEq T]

/-- the edges a task **owns** (each is counted in its target's `rc` / `trc`) -/
def Task.owned : Task → List Edge
  | .call _ => []
  | .miss _ _ => []
  | .seq1 _ _ t1 => t1.owned
  | .seq0 _ r1 t0 => r1 :: t0.owned
  | .made _ r => [r]
  | .ret r => [r]

theorem rcInv_perm {r : RSt T} {ext ext' : List Edge} (h : RcInv r ext) (hp : ext.Perm ext') :
    RcInv r ext' := h.congr (fun e => hp.count_eq e)

/-- `reduce` with a free slot always available -/
def mkNodeU (r : RSt T) (l : Nat) (t e : Edge) : Edge × RSt T :=
  (((mkNodeR none r l t e).1).getD t, (mkNodeR none r l t e).2)

/-- `get_terminal` with a free terminal slot always available -/
def getTerminalU (r : RSt T) (v : T) : Edge × RSt T :=
  (((getTerminalR none r v).1).getD (.term 0), (getTerminalR none r v).2)

theorem mkNodeU_some (r : RSt T) (l : Nat) (t e : Edge) :
    (mkNodeR none r l t e).1 = some (mkNodeU r l t e).1 := by
  unfold mkNodeU
  cases h : (mkNodeR none r l t e).1 with
  | none => exact absurd h (mkNodeR_unbounded r l t e)
  | some x => rfl

theorem getTerminalU_some (r : RSt T) (v : T) :
    (getTerminalR none r v).1 = some (getTerminalU r v).1 := by
  unfold getTerminalU
  cases h : (getTerminalR none r v).1 with
  | none => exact absurd h (getTerminalR_unbounded r v)
  | some x => rfl

theorem st_ext {a b : St T} (h1 : a.store = b.store) (h2 : a.cache = b.cache)
    (h3 : a.tick = b.tick) : a = b := by
  cases a; cases b; simp only at h1 h2 h3; subst h1 h2 h3; rfl

/-- forgetting the counters, `mkNodeU` is `Store.mkNode` -/
theorem mkNodeU_erase (r : RSt T) (l : Nat) (t e : Edge) :
    (mkNodeU r l t e).2.st = { r.st with store := (r.st.store.mkNode l t e).1 } ∧
    (mkNodeU r l t e).1 = (r.st.store.mkNode l t e).2 := by
  obtain ⟨h1, h2, h3⟩ := mkNodeR_erase none r l t e _ (mkNodeU_some r l t e)
  have hs : (mkNodeU r l t e).2 = (mkNodeR none r l t e).2 := rfl
  rw [hs]
  exact ⟨st_ext (by rw [h1]) h2 h3, by rw [h1]⟩

/-- forgetting the counters, `getTerminalU` is `Store.getTerminal` -/
theorem getTerminalU_erase (r : RSt T) (v : T) :
    (getTerminalU r v).2.st = { r.st with store := (r.st.store.getTerminal v).1 } ∧
    (getTerminalU r v).1 = (r.st.store.getTerminal v).2 := by
  obtain ⟨h1, h2, h3⟩ := getTerminalR_erase none r v _ (getTerminalU_some r v)
  have hs : (getTerminalU r v).2 = (getTerminalR none r v).2 := rfl
  rw [hs]
  exact ⟨st_ext (by rw [h1]) h2 h3, by rw [h1]⟩

/-- `mkNodeU` keeps the counters exact: the two owned children are consumed, the result is owned -/
theorem mkNodeU_rc {r : RSt T} {l : Nat} {t e : Edge} {ext : List Edge}
    (h : RcInv r (t :: e :: ext)) : RcInv (mkNodeU r l t e).2 ((mkNodeU r l t e).1 :: ext) := by
  have := mkNodeR_rc (ncap := none) (l := l) h
  have hs := mkNodeU_some r l t e
  have h2 : (mkNodeU r l t e).2 = (mkNodeR none r l t e).2 := rfl
  rw [h2]
  generalize mkNodeR none r l t e = m at this hs
  obtain ⟨o, r'⟩ := m
  simp only at hs
  subst hs
  exact this

/-- **the counted terminal find-or-insert keeps the counters exact**: the returned edge is owned
(hit: `retain`; miss: fresh slot with `rc = 2`) -/
theorem getTerminalU_rc {r : RSt T} {v : T} {ext : List Edge} (h : RcInv r ext) :
    RcInv (getTerminalU r v).2 ((getTerminalU r v).1 :: ext) := by
  have := getTerminalR_rc (tcap := none) (v := v) h
  have hs := getTerminalU_some r v
  have h2 : (getTerminalU r v).2 = (getTerminalR none r v).2 := rfl
  rw [h2]
  generalize getTerminalR none r v = m at this hs
  obtain ⟨o, r'⟩ := m
  simp only at hs
  subst hs
  exact this

/-- a cache add does not touch store or counters -/
theorem rcInv_cacheAdd {p : APolicy} (pok : p.OK) {r : RSt T} {ext : List Edge} (h : RcInv r ext)
    (key : Key) {x : Edge} (hx : Has r.st.store x) :
    RcInv ⟨⟨r.st.store, p.add r.st.tick r.st.cache key x, r.st.tick + 1⟩, r.rc, r.trc⟩ ext := by
  refine ⟨h.ext_ok, h.kids_ok, ?_, h.rc_eq⟩
  intro k v hm
  rcases pok.add_sub _ _ _ _ _ hm with h' | h'
  · exact h.cache_ok k v h'
  · cases h'; exact hx

theorem has_of_denotes {s : Store T} {e : Edge} {R : MT T} (h : Denotes s e R) : Has s e := by
  cases h with
  | term hi => exact ⟨_, hi⟩
  | inner hi _ _ => exact ⟨_, hi⟩

/-! ## the counted step -/

/-- entry of a call on the counted state (compare `Call.entry` and `Rc.applyR` / `Rc.iteR`) -/
def Call.rentry (L : TermOps T) (gt : Edge → Edge → Bool) (tg : Op → OpTag) (p : APolicy)
    (r : RSt T) : Call → RSt T × Task
  | .bin op f g =>
    match terminalBinP L gt tg op r.st.store f g with
    | .clone h => (cloneEdge r h, .ret h)
    | .term v => ((getTerminalU r v).2, .ret (getTerminalU r v).1)
    | .binary tag o1 o2 =>
      match p.get r.st.tick r.st.cache (tag, [o1, o2]) with
      | some h => (cloneEdge r.tickd h, .ret h)
      | none => (r.tickd, .miss (.bin op f g) (tag, [o1, o2]))
  | .ite f g h =>
    if g = h then (cloneEdge r g, .ret g) else
    match f with
    | .term i =>
      match r.st.store.getTerm? i with
      | some t => (cloneEdge r (if t = L.zero then h else g), .ret (if t = L.zero then h else g))
      | none => (cloneEdge r f, .ret f)
    | .inner _ =>
      match p.get r.st.tick r.st.cache (.ite, [f, g, h]) with
      | some x => (cloneEdge r.tickd x, .ret x)
      | none => (r.tickd, .miss (.ite f g h) (.ite, [f, g, h]))

/-- **one step of a task on the counted state** -/
def Task.rstep (L : TermOps T) (gt : Edge → Edge → Bool) (tg : Op → OpTag) (p : APolicy)
    (r : RSt T) : Task → RSt T × Task
  | .ret x => (r, .ret x)
  | .call c => c.rentry L gt tg p r
  | .miss c key => (r, c.expand r.st.store key)
  | .seq1 fr c0 t1 =>
    match t1.ret? with
    | some r1 => (r, .seq0 fr r1 (.call c0))
    | none => let o := t1.rstep L gt tg p r; (o.1, .seq1 fr c0 o.2)
  | .seq0 fr r1 t0 =>
    match t0.ret? with
    | some r0 => ((mkNodeU r fr.lvl r1 r0).2, .made fr.key (mkNodeU r fr.lvl r1 r0).1)
    | none => let o := t0.rstep L gt tg p r; (o.1, .seq0 fr r1 o.2)
  | .made key x =>
    (⟨⟨r.st.store, p.add r.st.tick r.st.cache key x, r.st.tick + 1⟩, r.rc, r.trc⟩, .ret x)

theorem rentry_erase (L : TermOps T) (gt : Edge → Edge → Bool) (tg : Op → OpTag) (p : APolicy)
    (r : RSt T) (c : Call) :
    (c.rentry L gt tg p r).1.st = runOpt L gt tg p (c.entry L gt tg p r.st).1 r.st ∧
    (c.rentry L gt tg p r).2 = (c.entry L gt tg p r.st).2 := by
  cases c with
  | bin op f g =>
    simp only [Call.rentry, Call.entry]
    rw [terminalBinS_plan]
    cases hP : terminalBinP L gt tg op r.st.store f g with
    | clone h =>
      simp only [PlanS.execS, runOpt, Act.run, cloneEdge_st]
      rw [terminalBinS_plan, hP]
      (refine ⟨?_, ?_⟩ <;> first | rfl | trivial)
    | term v =>
      simp only [PlanS.execS, doneT, runOpt, Act.run]
      rw [terminalBinS_plan, hP]
      obtain ⟨h1, h2⟩ := getTerminalU_erase r v
      exact ⟨h1, by rw [h2]⟩
    | binary tag o1 o2 =>
      simp only [PlanS.execS, query]
      cases p.get r.st.tick r.st.cache (tag, [o1, o2]) with
      | some h => simp only [runOpt, Act.run, cloneEdge_st]; (refine ⟨?_, ?_⟩ <;> first | rfl | trivial)
      | none => simp only [runOpt, Act.run]; (refine ⟨?_, ?_⟩ <;> first | rfl | trivial)
  | ite f g h =>
    simp only [Call.rentry, Call.entry]
    by_cases hgh : g = h
    · simp only [hgh, if_true, runOpt, cloneEdge_st]; (refine ⟨?_, ?_⟩ <;> first | rfl | trivial)
    · simp only [hgh, if_false]
      cases f with
      | term i =>
        simp only
        cases r.st.store.getTerm? i with
        | some t => simp only [runOpt, cloneEdge_st]; (refine ⟨?_, ?_⟩ <;> first | rfl | trivial)
        | none => simp only [runOpt, cloneEdge_st]; (refine ⟨?_, ?_⟩ <;> first | rfl | trivial)
      | inner i =>
        simp only [query]
        cases p.get r.st.tick r.st.cache (.ite, [.inner i, g, h]) with
        | some x => simp only [runOpt, Act.run, cloneEdge_st]; (refine ⟨?_, ?_⟩ <;> first | rfl | trivial)
        | none => simp only [runOpt, Act.run]; (refine ⟨?_, ?_⟩ <;> first | rfl | trivial)

/-- **erasure**: forgetting the counters, the counted step is the step of `ThreadsM.lean` -/
theorem Task.rstep_erase (L : TermOps T) (gt : Edge → Edge → Bool) (tg : Op → OpTag)
    (p : APolicy) (r : RSt T) : ∀ (t : Task),
    (t.rstep L gt tg p r).1.st = runOpt L gt tg p (t.step L gt tg p r.st).1 r.st ∧
    (t.rstep L gt tg p r).2 = (t.step L gt tg p r.st).2 := by
  intro t
  induction t with
  | ret x => exact ⟨rfl, rfl⟩
  | call c => exact rentry_erase L gt tg p r c
  | miss c key => exact ⟨rfl, rfl⟩
  | seq1 fr c0 t1 ih =>
    simp only [Task.rstep, Task.step]
    cases t1.ret? with
    | some r1 => exact ⟨rfl, rfl⟩
    | none => simp only; exact ⟨ih.1, by rw [ih.2]⟩
  | seq0 fr r1 t0 ih =>
    simp only [Task.rstep, Task.step]
    cases t0.ret? with
    | some r0 =>
      simp only [reduceOut, runOpt, Act.run]
      obtain ⟨h1, h2⟩ := mkNodeU_erase r fr.lvl r1 r0
      exact ⟨h1, by rw [h2]⟩
    | none => simp only; exact ⟨ih.1, by rw [ih.2]⟩
  | made key x => exact ⟨rfl, rfl⟩

/-! ## the counters stay exact -/

theorem ret?_some' {t : Task} {x : Edge} (h : t.ret? = some x) : t = .ret x := by
  cases t <;> simp only [Task.ret?] at h <;> cases h
  rfl

theorem rentry_rc {L : TermOps T} (gt : Edge → Edge → Bool) {p : APolicy} (pok : p.OK)
    {r : RSt T} {c : Call} {R : MT T} {k : Nat} (hc : CallSpec L r.st.store c R k)
    {ext : List Edge} (hrc : RcInv r ext) :
    RcInv (c.rentry L gt tagOf p r).1 ((c.rentry L gt tagOf p r).2.owned ++ ext) := by
  cases c with
  | bin op f g =>
    obtain ⟨a, b, hf, hg, _, _⟩ := hc
    have hsh := terminalBinP_shape L gt tagOf op r.st.store f g
    simp only [Call.rentry]
    cases hP : terminalBinP L gt tagOf op r.st.store f g with
    | clone h =>
      rw [hP] at hsh
      simp only [Task.owned, List.singleton_append]
      refine cloneEdge_rc hrc ?_
      rcases hsh with e | e <;> subst e
      · exact has_of_denotes hf
      · exact has_of_denotes hg
    | term v =>
      simp only [Task.owned, List.singleton_append]
      exact getTerminalU_rc hrc
    | binary tag o1 o2 =>
      simp only
      cases hget : p.get r.st.tick r.st.cache (tag, [o1, o2]) with
      | some h =>
        simp only [Task.owned, List.singleton_append]
        exact cloneEdge_rc hrc.tickd (hrc.cache_ok _ _ (pok.get_mem _ _ _ _ hget))
      | none => simp only [Task.owned, List.nil_append]; exact hrc.tickd
  | ite f g h =>
    obtain ⟨a, b, c, hf, hg, hh, _, _⟩ := hc
    simp only [Call.rentry]
    by_cases hgh : g = h
    · simp only [hgh, if_true, Task.owned, List.singleton_append]
      exact cloneEdge_rc hrc (has_of_denotes hh)
    · simp only [hgh, if_false]
      cases f with
      | term i =>
        simp only
        cases r.st.store.getTerm? i with
        | some t =>
          simp only [Task.owned, List.singleton_append]
          refine cloneEdge_rc hrc ?_
          split
          · exact has_of_denotes hh
          · exact has_of_denotes hg
        | none =>
          simp only [Task.owned, List.singleton_append]
          exact cloneEdge_rc hrc (has_of_denotes hf)
      | inner i =>
        simp only
        cases hget : p.get r.st.tick r.st.cache (.ite, [.inner i, g, h]) with
        | some x =>
          simp only [Task.owned, List.singleton_append]
          exact cloneEdge_rc hrc.tickd (hrc.cache_ok _ _ (pok.get_mem _ _ _ _ hget))
        | none => simp only [Task.owned, List.nil_append]; exact hrc.tickd

theorem expand_owned {L : TermOps T} {s : Store T} {c : Call} {key : Key} {R : MT T} {k : Nat}
    (hm : MissSpec L s c key R k) : (c.expand s key).owned = [] := by
  cases c with
  | bin op f g =>
    obtain ⟨a, b, hf, hg, hT, _, _, _⟩ := hm
    obtain ⟨l, hl⟩ := terminalBin_binary_level hT
    simp only [Call.expand]
    rw [level?_denotes hf, level?_denotes hg, hl]
    rfl
  | ite f g h =>
    obtain ⟨lf, ft, fe, b, c, hf, hg, hh, _, _, _, _⟩ := hm
    obtain ⟨l, hl⟩ := ite_level lf ft fe b c
    simp only [Call.expand]
    rw [level?_denotes hf, level?_denotes hg, level?_denotes hh, hl]
    rfl

/-- **every step of a task keeps the counters (inner nodes and terminals) exact** -/
theorem Task.rstep_rc {L : TermOps T} (gt : Edge → Edge → Bool) {p : APolicy} (pok : p.OK)
    {r : RSt T} {t : Task} {R : MT T} {n : Nat} (h : TaskOK L r.st.store t R n) :
    ∀ (ext : List Edge), t.ret? = none → RcInv r (t.owned ++ ext) →
      RcInv (t.rstep L gt tagOf p r).1 ((t.rstep L gt tagOf p r).2.owned ++ ext) := by
  induction h with
  | ret h => intro _ hr; simp [Task.ret?] at hr
  | @call c R k n hc hn =>
    intro ext _ hrc
    simp only [Task.owned, List.nil_append] at hrc
    exact rentry_rc gt pok hc hrc
  | @miss c key R k n hm hn =>
    intro ext _ hrc
    simp only [Task.rstep]
    rw [expand_owned hm]
    exact hrc
  | @seq1 fr c0 t1 R R1 R0 k0 n1 n hT hk hc h1 hn ih =>
    intro ext _ hrc
    simp only [Task.rstep]
    cases hr : t1.ret? with
    | some r1 =>
      have := ret?_some' hr
      subst this
      exact hrc
    | none => exact ih ext hr hrc
  | @seq0 fr r1 t0 R R1 R0 n0 n hT hk hr1 h0 hn ih =>
    intro ext _ hrc
    simp only [Task.rstep]
    cases hr : t0.ret? with
    | some r0 =>
      have := ret?_some' hr
      subst this
      exact mkNodeU_rc hrc
    | none =>
      simp only [Task.owned, List.cons_append] at hrc ⊢
      have h1 : RcInv r (t0.owned ++ (r1 :: ext)) := rcInv_perm hrc List.perm_middle.symm
      exact rcInv_perm (ih (r1 :: ext) hr h1) List.perm_middle
  | @made key x R n hk hr hn =>
    intro ext _ hrc
    simp only [Task.rstep]
    exact rcInv_cacheAdd pok hrc key (has_of_denotes hr)

end OxiddModel.Mtbdd.Threads
