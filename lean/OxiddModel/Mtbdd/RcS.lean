import OxiddModel.Mtbdd.HistoryS

/-!
# MTBDD store level with explicit reference counters, capacities and garbage collection

`StoreS.lean` / `IteS.lean` / `HistoryS.lean` model the index manager for MTBDDs without counters,
without capacities and without collection. This file adds what the Rust code does to the
**counters** of inner nodes *and* of terminals, the two **capacities** (inner-node store, terminal
store) and `Manager::gc`:

* `crates/oxidd-manager-index/src/terminal_manager/dynamic.rs`
  - `get_edge(v)`: lookup under the state mutex; **hit**: `retain(id)`; **miss**: if
    `next_free == store.len()` then `Err(OutOfMemory)` (no collection is attempted inline), else the
    slot is initialised with `rc = 2` (one reference for the terminal unique table, one for the
    returned edge) — `getTerminalR`;
  - `retain` / `release` — the `.term` cases of `cloneEdge` / `dropEdge`;
  - `gc`: `unique_table.retain(|id| rc(id) != 1, free the slot)` — `gcTerms`;
* `crates/oxidd-manager-index/src/manager.rs`
  - `clone_edge` / `drop_edge` (inner node: `retain`/`release` on the node, terminal: on the
    terminal manager), `LevelViewSet::get_or_insert` (hit: `drop(node)` = drop both children,
    then `clone_edge_unchecked(found)`; miss: `add_node`: slot with `rc = 2` or
    `Err(OutOfMemory)` after `node.drop_with(|e| drop_edge(e))`) — `insertR`;
  - `Manager::gc`: `pre_gc` clears the apply cache, `for level in &self.unique_table {
    level.gc(store) }` (`retain(rc != 1, free_slot)`; `free_slot` drops the children, *which
    releases terminal children*), **then** `store.terminal_manager.gc()` — `gcR`;
* `crates/oxidd-rules-mtbdd/src/lib.rs`: `reduce` (`t == e` ⇒ `drop_edge(e)`, return `t`; else
  `get_or_insert`) — `mkNodeR`; `terminal_bin::<OP>`: every arm is `Done(clone_edge(f|g))`,
  `Done(get_terminal(v)?)` or `Binary(tag, a, b)` — `terminalBinP` returns which one (the *plan*),
  arm for arm; `RcSLemmas.lean` proves that executing the plan on the counter-free store is
  `terminalBinS` of `StoreS.lean`;
* `crates/oxidd-rules-mtbdd/src/apply_rec.rs`: `apply_bin::<OP>` (`applyR`), `apply_ite` (`iteR`),
  `constant_edge` (`constR`), `var_edge` (`varR`: the two `EdgeDropGuard`s, `get_or_insert`
  without the reduction test) with every `?` path: when the second recursive call fails the guard
  of the first result drops it; when `reduce` fails `add_node` has dropped both children.

Conventions of the code: the counter of an inner node and of a terminal is the raw `rc` field,
`2` when fresh; `InnerNode::ref_count()` reports `rc - 1`; terminals expose no count through the
public API (`Node::Terminal(&T)`), `num_terminals()` is the size of the terminal unique table and
`terminals()` yields one *owned* edge (retained) per stored terminal. The apply cache stores
borrowed edges, `get` returns a clone.

Capacities are `Option Nat` (`none` = unbounded) so that the erasure to the counter-free model is
a statement about the same function.
-/
set_option linter.unusedSectionVars false

namespace OxiddModel.Mtbdd.Rc
open OxiddModel.Mtbdd OxiddModel.Mtbdd.Refine OxiddModel.CachePolicy OxiddModel

variable {T : Type}

/-! ## counter arrays, capacities -/

/-- value of the `rc` field of slot `i` (0 for slots never used) -/
def rcGet (m : Array Nat) (i : Nat) : Nat := m.getD i 0

/-- write the `rc` field of slot `i` (the array grows with the store) -/
def rcSet (m : Array Nat) (i v : Nat) : Array Nat :=
  if i < m.size then m.set! i v else (m ++ Array.replicate (i + 1 - m.size) 0).set! i v

/-- number of occupied slots -/
def slotCount {α : Type} (a : Array (Option α)) : Nat := a.countP (·.isSome)

/-- is there room for one more element? (`none` = unbounded) -/
def room : Option Nat → Nat → Bool
  | none, _ => true
  | some c, n => decide (n < c)

/-- capacity of the inner-node store and of the terminal store -/
structure Caps where
  node : Option Nat
  term : Option Nat

def Caps.unbounded : Caps := ⟨none, none⟩

/-- store + apply cache + time stamp (`Refine.St`), one counter per inner-node slot and one per
terminal slot -/
structure RSt (T : Type) where
  st : St T
  rc : Array Nat
  trc : Array Nat

def RSt.empty : RSt T := ⟨⟨Store.empty, [], 0⟩, #[], #[]⟩

/-- the state after one cache access -/
def RSt.tickd (r : RSt T) : RSt T := { r with st := r.st.tickd }

/-- the raw counter of the node / terminal an edge points to -/
def RSt.rcOf (r : RSt T) : Edge → Nat
  | .inner i => rcGet r.rc i
  | .term i => rcGet r.trc i

def RSt.setRc (r : RSt T) : Edge → Nat → RSt T
  | .inner i, v => { r with rc := rcSet r.rc i v }
  | .term i, v => { r with trc := rcSet r.trc i v }

/-- what `InnerNode::ref_count()` reports: the counter without the unique table's reference -/
def RSt.refCount (r : RSt T) (i : Nat) : Nat := rcGet r.rc i - 1

def RSt.numInner (r : RSt T) : Nat := slotCount r.st.store.nodes
def RSt.numTerms (r : RSt T) : Nat := slotCount r.st.store.terms

/-! ## `clone_edge`, `drop_edge` -/

/-- `Store::clone_edge`: `retain()` on the inner node resp. `terminal_manager.retain(id)` -/
def cloneEdge (r : RSt T) (e : Edge) : RSt T := r.setRc e (r.rcOf e + 1)

/-- `Store::drop_edge`: `release()` (never frees: the unique tables keep their reference) -/
def dropEdge (r : RSt T) (e : Edge) : RSt T := r.setRc e (r.rcOf e - 1)

variable [DecidableEq T]

/-! ## `get_terminal`, `get_or_insert`, `reduce` -/

/-- `Manager::get_terminal` → `DynamicTerminalManager::get_edge` -/
def getTerminalR (tcap : Option Nat) (r : RSt T) (v : T) : Option Edge × RSt T :=
  match Slots.find? r.st.store.terms v with
  | some i => (some (.term i), cloneEdge r (.term i)) -- `Ok(slot)`: `retain(id)`
  | none =>
    if room tcap (slotCount r.st.store.terms) then
      let a := Slots.alloc r.st.store.terms v
      (some (.term a.2),
        { r with st := { r.st with store := ⟨r.st.store.nodes, a.1⟩ }, trc := rcSet r.trc a.2 2 })
    else (none, r) -- `id == self.store.len()`: `Err(OutOfMemory)`

/-- `LevelView::get_or_insert(InnerNode::new(level, [t, e]))` with **owned** `t`, `e`:
* hit: `drop(node)` (= `drop_edge(t); drop_edge(e)`), then `clone_edge_unchecked(found)`;
* miss, slot available (`add_node`, `Ok`): the children move into the node, `rc = 2`;
* miss, store full (`add_node`, `Err(OutOfMemory)`): `node.drop_with(|e| self.drop_edge(e))`. -/
def insertR (ncap : Option Nat) (r : RSt T) (level : Nat) (t e : Edge) : Option Edge × RSt T :=
  match Slots.find? r.st.store.nodes ⟨level, t, e⟩ with
  | some i => (some (.inner i), cloneEdge (dropEdge (dropEdge r t) e) (.inner i))
  | none =>
    if room ncap (slotCount r.st.store.nodes) then
      let a := Slots.alloc r.st.store.nodes ⟨level, t, e⟩
      (some (.inner a.2),
        { r with st := { r.st with store := ⟨a.1, r.st.store.terms⟩ }, rc := rcSet r.rc a.2 2 })
    else (none, dropEdge (dropEdge r t) e)

/-- `reduce(manager, level, t, e, op)`: `if t == e { drop_edge(e); return Ok(t) }`, else
`get_or_insert` -/
def mkNodeR (ncap : Option Nat) (r : RSt T) (level : Nat) (t e : Edge) : Option Edge × RSt T :=
  if t = e then (some t, dropEdge r e) else insertR ncap r level t e

/-- the seeded defect "terminal (child) leaked on OutOfMemory of the inner node": `add_node`
returns the error without dropping the children of the rejected node -/
def mkNodeLeak (ncap : Option Nat) (r : RSt T) (level : Nat) (t e : Edge) : Option Edge × RSt T :=
  if t = e then (some t, dropEdge r e) else
  match Slots.find? r.st.store.nodes ⟨level, t, e⟩ with
  | some i => (some (.inner i), cloneEdge (dropEdge (dropEdge r t) e) (.inner i))
  | none =>
    if room ncap (slotCount r.st.store.nodes) then
      let a := Slots.alloc r.st.store.nodes ⟨level, t, e⟩
      (some (.inner a.2),
        { r with st := { r.st with store := ⟨a.1, r.st.store.terms⟩ }, rc := rcSet r.rc a.2 2 })
    else (none, r)

/-- the seeded defect "`get_edge` does not retain on a hit" -/
def getTerminalNoRetain (tcap : Option Nat) (r : RSt T) (v : T) : Option Edge × RSt T :=
  match Slots.find? r.st.store.terms v with
  | some i => (some (.term i), r)
  | none =>
    if room tcap (slotCount r.st.store.terms) then
      let a := Slots.alloc r.st.store.terms v
      (some (.term a.2),
        { r with st := { r.st with store := ⟨r.st.store.nodes, a.1⟩ }, trc := rcSet r.trc a.2 2 })
    else (none, r)

/-! ## `terminal_bin::<OP>`: which arm is taken -/

/-- what an arm of `terminal_bin` does -/
inductive PlanS (T : Type) where
  /-- `Done(m.clone_edge(h))` -/
  | clone : Edge → PlanS T
  /-- `Done(m.get_terminal(v)?)` -/
  | term : T → PlanS T
  /-- `Binary(tag, a, b)` -/
  | binary : OpTag → Edge → Edge → PlanS T

/-- `_ if f > g => Binary(tag, g, f), _ => Binary(tag, f, g)` -/
def normKeyP (gt : Edge → Edge → Bool) (tag : OpTag) (f g : Edge) : PlanS T :=
  if gt f g then .binary tag g f else .binary tag f g

/-- `terminal_bin::<OP>` (`lib.rs`), the same arms in the same order as `terminalBinS` -/
def terminalBinP (L : TermOps T) (gt : Edge → Edge → Bool) (tg : Op → OpTag) (op : Op)
    (s : Store T) (f g : Edge) : PlanS T :=
  match op with
  | .add =>
    match s.termVal? f, s.termVal? g with
    | some tf, some tg' => .term (L.add tf tg')
    | _, _ =>
      if s.termIs (· = L.zero) f then .clone g
      else if s.termIs (· = L.zero) g then .clone f
      else if s.termIs (· = L.nan) f || s.termIs (· = L.nan) g then .term L.nan
      else normKeyP gt (tg .add) f g
  | .sub =>
    match s.termVal? f, s.termVal? g with
    | some tf, some tg' => .term (L.sub tf tg')
    | _, _ =>
      if s.termIs (· = L.zero) g then .clone f
      else if s.termIs (· = L.nan) f || s.termIs (· = L.nan) g then .term L.nan
      else .binary (tg .sub) f g
  | .mul =>
    match s.termVal? f, s.termVal? g with
    | some tf, some tg' => .term (L.mul tf tg')
    | _, _ =>
      if s.termIs (· = L.one) f then .clone g
      else if s.termIs (· = L.one) g then .clone f
      else if s.termIs (· = L.nan) f || s.termIs (· = L.nan) g then .term L.nan
      else normKeyP gt (tg .mul) f g
  | .div =>
    match s.termVal? f, s.termVal? g with
    | some tf, some tg' => .term (L.div tf tg')
    | _, _ =>
      if s.termIs (· = L.one) g then .clone f
      else if s.termIs (· = L.nan) f || s.termIs (· = L.nan) g then .term L.nan
      else .binary (tg .div) f g
  | .min =>
    if f = g then .clone f else
    match s.termVal? f, s.termVal? g with
    | some tf, some tg' =>
      match L.pcmp tf tg' with
      | some .lt | some .eq => .clone f
      | some .gt => .clone g
      | none => .term L.nan
    | _, _ =>
      if s.termIs (· = L.nan) f || s.termIs (· = L.nan) g then .term L.nan
      else normKeyP gt (tg .min) f g
  | .max =>
    if f = g then .clone f else
    match s.termVal? f, s.termVal? g with
    | some tf, some tg' =>
      match L.pcmp tf tg' with
      | some .gt | some .eq => .clone f
      | some .lt => .clone g
      | none => .term L.nan
    | _, _ =>
      if s.termIs (· = L.nan) f || s.termIs (· = L.nan) g then .term L.nan
      else normKeyP gt (tg .max) f g

/-- executing a plan on the counter-free store (this is `terminalBinS`, see `RcSLemmas.lean`) -/
def PlanS.execS (s : Store T) : PlanS T → Store T × OperationS
  | .clone h => (s, .done h)
  | .term v => doneT s v
  | .binary tag a b => (s, .binary tag a b)

/-! ## the algorithms -/

/-- `let h = reduce(..)?; apply_cache().add(.., h.borrowed()); Ok(h)` -/
def finishR (ncap : Option Nat) (p : APolicy) (r : RSt T) (key : Key) (l : Nat) (e1 e0 : Edge) :
    Option Edge × RSt T :=
  match mkNodeR ncap r l e1 e0 with
  | (none, r') => (none, r')
  | (some h, r') =>
    (some h, { r' with st := ⟨r'.st.store, p.add r'.st.tick r'.st.cache key h, r'.st.tick + 1⟩ })

/-- `let t = EdgeDropGuard::new(manager, rec(f0, g0)?); let e = EdgeDropGuard::new(manager,
rec(f1, g1)?); let h = reduce(manager, level, t.into_edge(), e.into_edge(), op)?; cache.add(..)`:
when the second call fails the guard of the first result drops it -/
def forkR (ncap : Option Nat) (p : APolicy) (key : Key) (l : Nat)
    (c1 c0 : RSt T → Option Edge × RSt T) (r : RSt T) : Option Edge × RSt T :=
  match c1 r with
  | (none, r1) => (none, r1)
  | (some t, r1) =>
    match c0 r1 with
    | (none, r0) => (none, dropEdge r0 t)
    | (some e, r0) => finishR ncap p r0 key l t e

/-- `apply_bin::<OP>` (operands borrowed, result owned) -/
def applyR (L : TermOps T) (gt : Edge → Edge → Bool) (tg : Op → OpTag) (caps : Caps) (p : APolicy)
    (op : Op) : Nat → RSt T → Edge → Edge → Option Edge × RSt T
  | 0, r, f, _ => (some f, cloneEdge r f)
  | fuel+1, r, f, g =>
    match terminalBinP L gt tg op r.st.store f g with
    | .clone h => (some h, cloneEdge r h)
    | .term v => getTerminalR caps.term r v
    | .binary tag o1 o2 =>
      -- query apply cache (`get` returns a clone)
      match p.get r.st.tick r.st.cache (tag, [o1, o2]) with
      | some h => (some h, cloneEdge r.tickd h)
      | none =>
        match lmin (r.st.store.level? f) (r.st.store.level? g) with
        | none => (some f, cloneEdge r.tickd f) -- two terminals: excluded
        | some l =>
          forkR caps.node p (tag, [o1, o2]) l
            (fun s => applyR L gt tg caps p op fuel s (r.st.store.cofT l f) (r.st.store.cofT l g))
            (fun s => applyR L gt tg caps p op fuel s (r.st.store.cofE l f) (r.st.store.cofE l g))
            r.tickd

/-- `apply_ite` (operands borrowed, result owned) -/
def iteR (L : TermOps T) (caps : Caps) (p : APolicy) :
    Nat → RSt T → Edge → Edge → Edge → Option Edge × RSt T
  | 0, r, f, _, _ => (some f, cloneEdge r f)
  | fuel+1, r, f, g, h =>
    if g = h then (some g, cloneEdge r g) else
    match f with
    | .term i =>
      match r.st.store.getTerm? i with
      | some t => (some (if t = L.zero then h else g), cloneEdge r (if t = L.zero then h else g))
      | none => (some f, cloneEdge r f) -- dangling edge (excluded by the invariant)
    | .inner _ =>
      match p.get r.st.tick r.st.cache (.ite, [f, g, h]) with
      | some x => (some x, cloneEdge r.tickd x)
      | none =>
        match lmin (lmin (r.st.store.level? f) (r.st.store.level? g)) (r.st.store.level? h) with
        | none => (some f, cloneEdge r.tickd f) -- excluded: `f` is an inner node
        | some l =>
          forkR caps.node p (.ite, [f, g, h]) l
            (fun s => iteR L caps p fuel s (r.st.store.cofT l f) (r.st.store.cofT l g) (r.st.store.cofT l h))
            (fun s => iteR L caps p fuel s (r.st.store.cofE l f) (r.st.store.cofE l g) (r.st.store.cofE l h))
            r.tickd

/-- `constant_edge` = `get_terminal` -/
def constR (caps : Caps) (r : RSt T) (v : T) : Option Edge × RSt T := getTerminalR caps.term r v

/-- `var_edge`: `let t = EdgeDropGuard::new(m, m.get_terminal(T::one())?); let e =
EdgeDropGuard::new(m, m.get_terminal(T::zero())?); get_or_insert(InnerNode::new(level, [t, e]))`
(no reduction test) -/
def varR (L : TermOps T) (caps : Caps) (r : RSt T) (level : Nat) : Option Edge × RSt T :=
  match getTerminalR caps.term r L.one with
  | (none, r1) => (none, r1)
  | (some t, r1) =>
    match getTerminalR caps.term r1 L.zero with
    | (none, r0) => (none, dropEdge r0 t)
    | (some e, r0) => insertR caps.node r0 level t e

/-! ## garbage collection -/

/-- one step of `LevelViewSet::gc` (`retain`): the node in slot `i`, if it is on level `l` and
only the unique table references it (`rc == 1`), is removed from the table and `free_slot`
drops its children (inner *or terminal*) -/
def gcSlot (l : Nat) (r : RSt T) (i : Nat) : RSt T :=
  match r.st.store.get? i with
  | none => r
  | some n =>
    if n.level = l ∧ rcGet r.rc i = 1 then
      dropEdge (dropEdge
        { r with st := { r.st with store := ⟨r.st.store.nodes.set! i none, r.st.store.terms⟩ } } n.t) n.e
    else r

/-- `level.gc(store)` for the unique table of level `l` -/
def gcLevel (r : RSt T) (l : Nat) : RSt T :=
  (List.range r.st.store.nodes.size).foldl (gcSlot l) r

/-- `for level in &self.unique_table { level.gc(store) }` -/
def gcInner (numLevels : Nat) (r : RSt T) : RSt T := (List.range numLevels).foldl gcLevel r

/-- one step of `DynamicTerminalManager::gc` (`retain`): a terminal whose counter shows only the
table's reference is removed, its slot goes to the free list -/
def gcTermSlot (r : RSt T) (i : Nat) : RSt T :=
  match r.st.store.getTerm? i with
  | none => r
  | some _ =>
    if rcGet r.trc i = 1 then
      { r with st := { r.st with store := ⟨r.st.store.nodes, r.st.store.terms.set! i none⟩ } }
    else r

/-- `store.terminal_manager.gc()` -/
def gcTerms (r : RSt T) : RSt T := (List.range r.st.store.terms.size).foldl gcTermSlot r

/-- `pre_gc`: the apply cache is cleared -/
def clearCache (r : RSt T) : RSt T := { r with st := { r.st with cache := [] } }

/-- `Manager::gc`: cache cleared, inner levels from the top, **then** the terminal sweep -/
def gcR (numLevels : Nat) (r : RSt T) : RSt T := gcTerms (gcInner numLevels (clearCache r))

/-- wrong order: the terminal sweep *before* the inner levels -/
def gcTermsFirst (numLevels : Nat) (r : RSt T) : RSt T := gcInner numLevels (gcTerms (clearCache r))

/-- the seeded defect "`gc` skips the terminal sweep when no inner node was collected" -/
def gcSkipTerms (numLevels : Nat) (r : RSt T) : RSt T :=
  let r1 := gcInner numLevels (clearCache r)
  if r1.numInner = r.numInner then r1 else gcTerms r1

end OxiddModel.Mtbdd.Rc
