import OxiddModel.Mtbdd.RcSLemmasAlg
import OxiddModel.Mtbdd.RcSLemmasGc

/-!
# Histories over the MTBDD counter model

A user of the manager holds a list of handles (owned edges) and issues commands: create a
constant, create a variable, apply a binary operator / `ite` to handles (each command with **its
own pair of capacities**, so any of them may fail with OutOfMemory of either store at any
allocation point), clone a handle, drop a handle, collect garbage.
`Cmd.run_rc`: every command keeps `RcInv` for the handle list; `runAll_rc`: so does every sequence.
-/
set_option linter.unusedSectionVars false

namespace OxiddModel.Mtbdd.Rc
open OxiddModel.Mtbdd OxiddModel.Mtbdd.Refine OxiddModel.CachePolicy OxiddModel

variable {T : Type} [DecidableEq T]

/-- the manager and the user's handles -/
structure HSt (T : Type) where
  r : RSt T
  hs : List Edge

/-- what stays fixed along a history: terminal operations, edge order, tags, cache behaviour -/
structure Env (T : Type) where
  L : TermOps T
  gt : Edge → Edge → Bool
  tg : Op → OpTag
  p : APolicy

/-- operands are positions in the handle list; `caps` are the capacities during the command -/
inductive Cmd (T : Type) where
  | const (caps : Caps) (v : T)
  | var (caps : Caps) (level : Nat)
  | bin (caps : Caps) (fuel : Nat) (op : Op) (a b : Nat)
  | ite (caps : Caps) (fuel : Nat) (a b c : Nat)
  | clone (a : Nat)
  | drop (a : Nat)
  | gc (numLevels : Nat)

/-- a successful operation yields a new handle, a failed one (OutOfMemory) none -/
def pushRes (h : HSt T) (res : Option Edge × RSt T) : HSt T :=
  match res with
  | (some x, r') => ⟨r', x :: h.hs⟩
  | (none, r') => ⟨r', h.hs⟩

def Cmd.run (E : Env T) : Cmd T → HSt T → HSt T
  | .const caps v, h => pushRes h (constR caps h.r v)
  | .var caps level, h => pushRes h (varR E.L caps h.r level)
  | .bin caps fuel op a b, h =>
    match h.hs[a]?, h.hs[b]? with
    | some f, some g => pushRes h (applyR E.L E.gt E.tg caps E.p op fuel h.r f g)
    | _, _ => h
  | .ite caps fuel a b c, h =>
    match h.hs[a]?, h.hs[b]?, h.hs[c]? with
    | some f, some g, some k => pushRes h (iteR E.L caps E.p fuel h.r f g k)
    | _, _, _ => h
  | .clone a, h =>
    match h.hs[a]? with
    | some f => ⟨cloneEdge h.r f, f :: h.hs⟩
    | none => h
  | .drop a, h =>
    match h.hs[a]? with
    | some f => ⟨dropEdge h.r f, h.hs.erase f⟩
    | none => h
  | .gc n, h => ⟨gcR n h.r, h.hs⟩

def runAll (E : Env T) (cmds : List (Cmd T)) (h : HSt T) : HSt T :=
  cmds.foldl (fun h c => c.run E h) h

theorem pushRes_rc {h : HSt T} {res : Option Edge × RSt T} (hres : RcPost h.r h.hs res) :
    RcInv (pushRes h res).r (pushRes h res).hs := by
  obtain ⟨o, r'⟩ := res
  cases o <;> exact hres.2

theorem count_cons_erase {l : List Edge} {f : Edge} (hf : f ∈ l) (e : Edge) :
    (f :: l.erase f).count e = l.count e := by
  rw [List.count_cons, List.count_erase]
  by_cases h : (f == e) = true
  · have : f = e := by simpa using h
    subst this
    have : 0 < l.count f := List.count_pos_iff.mpr hf
    simp; omega
  · simp [h]

theorem Cmd.run_rc {E : Env T} (pok : E.p.OK) (c : Cmd T) (h : HSt T) (hi : RcInv h.r h.hs) :
    RcInv (c.run E h).r (c.run E h).hs := by
  cases c with
  | const caps v => exact pushRes_rc (constR_rc caps h.r v h.hs hi)
  | var caps level => exact pushRes_rc (varR_rc E.L caps h.r level h.hs hi)
  | bin caps fuel op a b =>
    simp only [Cmd.run]
    cases ha : h.hs[a]? with
    | none => exact hi
    | some f =>
      cases hb : h.hs[b]? with
      | none => exact hi
      | some g =>
        exact pushRes_rc (applyR_rc E.L E.gt E.tg pok caps op fuel h.r f g h.hs hi
          (hi.ext_ok f (List.mem_of_getElem? ha)) (hi.ext_ok g (List.mem_of_getElem? hb)))
  | ite caps fuel a b c =>
    simp only [Cmd.run]
    cases ha : h.hs[a]? with
    | none => exact hi
    | some f =>
      cases hb : h.hs[b]? with
      | none => exact hi
      | some g =>
        cases hc : h.hs[c]? with
        | none => exact hi
        | some k =>
          exact pushRes_rc (iteR_rc E.L pok caps fuel h.r f g k h.hs hi
            (hi.ext_ok f (List.mem_of_getElem? ha)) (hi.ext_ok g (List.mem_of_getElem? hb))
            (hi.ext_ok k (List.mem_of_getElem? hc)))
  | clone a =>
    simp only [Cmd.run]
    cases ha : h.hs[a]? with
    | none => exact hi
    | some f => exact cloneEdge_rc hi (hi.ext_ok f (List.mem_of_getElem? ha))
  | drop a =>
    simp only [Cmd.run]
    cases ha : h.hs[a]? with
    | none => exact hi
    | some f =>
      have hf := List.mem_of_getElem? ha
      exact dropEdge_rc (hi.congr (fun e => (count_cons_erase hf e).symm))
  | gc n => exact (gcR_rc n hi).1

theorem runAll_rc {E : Env T} (pok : E.p.OK) : ∀ (cmds : List (Cmd T)) (h : HSt T),
    RcInv h.r h.hs → RcInv (runAll E cmds h).r (runAll E cmds h).hs := by
  intro cmds
  induction cmds with
  | nil => intro h hi; exact hi
  | cons c cs ih => intro h hi; exact ih _ (Cmd.run_rc pok c h hi)

/-! ## executable tests (for concrete examples) -/

/-- executable necessary condition of `RcInv`: the counter equation on all node and terminal slots -/
def rcCheck (r : RSt T) (ext : List Edge) : Bool :=
  ((List.range r.st.store.nodes.size).all fun i =>
    match r.st.store.get? i with
    | none => true
    | some _ => rcGet r.rc i == 1 + ext.count (.inner i) + parents r.st.store (.inner i)) &&
  ((List.range r.st.store.terms.size).all fun i =>
    match r.st.store.getTerm? i with
    | none => true
    | some _ => rcGet r.trc i == 1 + ext.count (.term i) + parents r.st.store (.term i))

theorem rcCheck_of_inv {r : RSt T} {ext : List Edge} (h : RcInv r ext) : rcCheck r ext = true := by
  unfold rcCheck
  rw [Bool.and_eq_true, List.all_eq_true, List.all_eq_true]
  constructor
  · intro i _
    cases hi : r.st.store.get? i with
    | none => rfl
    | some n =>
      have := h.rc_eq (.inner i) ⟨n, hi⟩
      simp only [RSt.rcOf] at this
      simp [this]
  · intro i _
    cases hi : r.st.store.getTerm? i with
    | none => rfl
    | some v =>
      have := h.rc_eq (.term i) ⟨v, hi⟩
      simp only [RSt.rcOf] at this
      simp [this]

/-- executable test for orderedness -/
def orderedB (s : Store T) : Bool :=
  (List.range s.nodes.size).all fun i =>
    match s.get? i with
    | none => true
    | some n =>
      let ok : Edge → Bool := fun x =>
        match x with
        | .term _ => true
        | .inner j =>
          match s.get? j with
          | some m => decide (n.level < m.level)
          | none => true
      ok n.t && ok n.e

theorem ordered_of_orderedB {s : Store T} (h : orderedB s = true) : Ordered s := by
  intro i n j m hi hc hj
  have hlt : i < s.nodes.size := slots_get?_lt hi
  unfold orderedB at h
  rw [List.all_eq_true] at h
  have := h i (List.mem_range.mpr hlt)
  simp only [hi, Bool.and_eq_true] at this
  rcases hc with hc | hc
  · have h1 := this.1
    rw [hc] at h1
    simpa [hj] using h1
  · have h2 := this.2
    rw [hc] at h2
    simpa [hj] using h2

end OxiddModel.Mtbdd.Rc
