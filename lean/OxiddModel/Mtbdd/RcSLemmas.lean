import OxiddModel.Mtbdd.RcS

/-!
# Counter arrays, the plan of `terminal_bin`, erasure of counters and capacities

* `rcGet_rcSet`, `rcOf_cloneEdge`, `rcOf_dropEdge`: the counter arrays behave like function updates;
* `terminalBinS_plan`: executing the plan `terminalBinP` on the counter-free store **is**
  `terminalBinS` of `StoreS.lean` (so `applyR` and `applyS` take the same arms);
* **erasure**: a run of `getTerminalR / insertR / mkNodeR / finishR / forkR / applyR / iteR / varR`
  that does not fail is, counters forgotten, the run of `getTerminal / mkNode / finishS / applyS /
  iteS / varS` (same edge, same store, same cache, same time stamp) — for *all* capacities; and
  with unbounded capacities no run fails.
-/
set_option linter.unusedSectionVars false

namespace OxiddModel.Mtbdd.Rc
open OxiddModel.Mtbdd OxiddModel.Mtbdd.Refine OxiddModel.CachePolicy OxiddModel

variable {T : Type}

/-! ## the counter arrays -/

theorem rcGet_rcSet (m : Array Nat) (i v j : Nat) :
    rcGet (rcSet m i v) j = if j = i then v else rcGet m j := by
  have key : ∀ (a : Array Nat), i < a.size →
      (a.set! i v).getD j 0 = if j = i then v else a.getD j 0 := by
    intro a hi
    by_cases hj : j = i
    · subst hj; simp [Array.getD, hi]
    · simp only [hj, if_false]
      simp only [Array.getD_eq_getD_getElem?, Array.set!_eq_setIfInBounds,
        Array.getElem?_setIfInBounds]
      simp [Ne.symm hj]
  unfold rcGet rcSet
  by_cases hi : i < m.size
  · simp only [hi, if_true]
    exact key m hi
  · simp only [hi, if_false]
    rw [key _ (by simp; omega)]
    by_cases hj : j = i
    · simp [hj]
    · simp only [hj, if_false]
      simp only [Array.getD_eq_getD_getElem?]
      rw [Array.getElem?_append]
      by_cases hjm : j < m.size
      · simp [hjm]
      · simp only [hjm, if_false]
        have : m[j]? = none := by simp; omega
        rw [this]
        by_cases hji : j - m.size < i + 1 - m.size
        · simp [hji]
        · simp [hji]

/-- 1 if the edge `e` is the edge `x` -/
def cnt (e x : Edge) : Nat := if e = x then 1 else 0

theorem rcOf_setRc (r : RSt T) (e : Edge) (v : Nat) (x : Edge) :
    (r.setRc e v).rcOf x = if x = e then v else r.rcOf x := by
  cases e <;> cases x <;> simp [RSt.setRc, RSt.rcOf, rcGet_rcSet]

theorem rcOf_cloneEdge (r : RSt T) (e x : Edge) :
    (cloneEdge r e).rcOf x = r.rcOf x + cnt e x := by
  unfold cloneEdge cnt
  rw [rcOf_setRc]
  by_cases h : x = e
  · subst h; simp
  · simp [h, Ne.symm h]

theorem rcOf_dropEdge (r : RSt T) (e x : Edge) :
    (dropEdge r e).rcOf x = r.rcOf x - cnt e x := by
  unfold dropEdge cnt
  rw [rcOf_setRc]
  by_cases h : x = e
  · subst h; simp
  · simp [h, Ne.symm h]

/-! ## the counters do not influence anything else -/

@[simp] theorem setRc_st (r : RSt T) (e : Edge) (v : Nat) : (r.setRc e v).st = r.st := by
  cases e <;> rfl

@[simp] theorem cloneEdge_st (r : RSt T) (e : Edge) : (cloneEdge r e).st = r.st := setRc_st _ _ _

@[simp] theorem dropEdge_st (r : RSt T) (e : Edge) : (dropEdge r e).st = r.st := setRc_st _ _ _

@[simp] theorem tickd_st (r : RSt T) : r.tickd.st = r.st.tickd := rfl
@[simp] theorem tickd_rc (r : RSt T) : r.tickd.rc = r.rc := rfl
@[simp] theorem tickd_trc (r : RSt T) : r.tickd.trc = r.trc := rfl
@[simp] theorem tickd_rcOf (r : RSt T) (x : Edge) : r.tickd.rcOf x = r.rcOf x := by
  cases x <;> rfl

variable [DecidableEq T]

/-! ## the plan of `terminal_bin` -/

theorem normKeyP_exec (gt : Edge → Edge → Bool) (tag : OpTag) (f g : Edge) (s : Store T) :
    (normKeyP (T := T) gt tag f g).execS s = (s, normKey gt tag f g) := by
  unfold normKeyP normKey
  split <;> rfl

/-- **executing the plan on the counter-free store is `terminalBinS`** -/
theorem terminalBinS_plan (L : TermOps T) (gt : Edge → Edge → Bool) (tg : Op → OpTag) (op : Op)
    (s : Store T) (f g : Edge) :
    terminalBinS L gt tg op s f g = (terminalBinP L gt tg op s f g).execS s := by
  cases op with
  | add | sub | mul | div =>
    simp only [terminalBinS, terminalBinP]
    cases hf : s.termVal? f <;> cases hg : s.termVal? g <;> simp only [] <;>
      first | rfl | (simp only [apply_ite (PlanS.execS s), normKeyP_exec]; simp only [PlanS.execS])
  | min | max =>
    simp only [terminalBinS, terminalBinP]
    by_cases hfg : f = g
    · simp only [hfg, if_true, PlanS.execS]
    · simp only [hfg, if_false]
      cases hf : s.termVal? f <;> cases hg : s.termVal? g <;> simp only []
      any_goals ((simp only [apply_ite (PlanS.execS s), normKeyP_exec]; simp only [PlanS.execS]); done)
      all_goals (split <;> simp only [*, PlanS.execS])

/-- a `clone` arm returns one of the operands, a `binary` arm has the operands as key (possibly
swapped) -/
def PlanS.Shape (f g : Edge) : PlanS T → Prop
  | .clone h => h = f ∨ h = g
  | .term _ => True
  | .binary _ a b => (a = f ∧ b = g) ∨ (a = g ∧ b = f)

theorem terminalBinP_shape (L : TermOps T) (gt : Edge → Edge → Bool) (tg : Op → OpTag) (op : Op)
    (s : Store T) (f g : Edge) : (terminalBinP L gt tg op s f g).Shape f g := by
  cases op with
  | add | sub | mul | div =>
    simp only [terminalBinP, normKeyP]
    cases hf : s.termVal? f <;> cases hg : s.termVal? g <;> simp only [] <;>
      (repeat' split) <;> simp [PlanS.Shape]
  | min | max =>
    simp only [terminalBinP, normKeyP]
    by_cases hfg : f = g
    · simp [hfg, PlanS.Shape]
    · simp only [hfg, if_false]
      cases hf : s.termVal? f <;> cases hg : s.termVal? g <;> simp only [] <;>
        (repeat' split) <;> simp [PlanS.Shape]

/-! ## erasure -/

theorem getTerminalR_erase (tcap : Option Nat) (r : RSt T) (v : T) (x : Edge)
    (h : (getTerminalR tcap r v).1 = some x) :
    r.st.store.getTerminal v = ((getTerminalR tcap r v).2.st.store, x) ∧
    (getTerminalR tcap r v).2.st.cache = r.st.cache ∧ (getTerminalR tcap r v).2.st.tick = r.st.tick := by
  unfold getTerminalR at h ⊢
  unfold Store.getTerminal Slots.intern
  cases hf : Slots.find? r.st.store.terms v with
  | some i =>
    rw [hf] at h
    simp only at h ⊢
    cases h
    simp
  | none =>
    rw [hf] at h
    simp only at h ⊢
    split at h
    · simp only at h; cases h; simp [*]
    · cases h

theorem getTerminalR_unbounded (r : RSt T) (v : T) : (getTerminalR none r v).1 ≠ none := by
  unfold getTerminalR
  split
  · simp
  · simp [room]

theorem insertR_erase (ncap : Option Nat) (r : RSt T) (l : Nat) (t e : Edge) (x : Edge)
    (h : (insertR ncap r l t e).1 = some x) :
    (⟨(Slots.intern r.st.store.nodes ⟨l, t, e⟩).1, r.st.store.terms⟩,
      Edge.inner (Slots.intern r.st.store.nodes ⟨l, t, e⟩).2) = ((insertR ncap r l t e).2.st.store, x) ∧
    (insertR ncap r l t e).2.st.cache = r.st.cache ∧ (insertR ncap r l t e).2.st.tick = r.st.tick := by
  unfold insertR at h ⊢
  unfold Slots.intern
  cases hf : Slots.find? r.st.store.nodes ⟨l, t, e⟩ with
  | some i =>
    rw [hf] at h
    simp only at h ⊢
    cases h
    simp
  | none =>
    rw [hf] at h
    simp only at h ⊢
    split at h
    · simp only at h; cases h; simp [*]
    · cases h

theorem insertR_unbounded (r : RSt T) (l : Nat) (t e : Edge) : (insertR none r l t e).1 ≠ none := by
  unfold insertR
  split
  · simp
  · simp [room]

theorem mkNodeR_erase (ncap : Option Nat) (r : RSt T) (l : Nat) (t e : Edge) (x : Edge)
    (h : (mkNodeR ncap r l t e).1 = some x) :
    r.st.store.mkNode l t e = ((mkNodeR ncap r l t e).2.st.store, x) ∧
    (mkNodeR ncap r l t e).2.st.cache = r.st.cache ∧ (mkNodeR ncap r l t e).2.st.tick = r.st.tick := by
  unfold mkNodeR at h ⊢
  unfold Store.mkNode
  by_cases hte : t = e
  · simp only [hte, if_true] at h ⊢
    cases h
    simp
  · simp only [hte, if_false] at h ⊢
    exact insertR_erase ncap r l t e x h

theorem mkNodeR_unbounded (r : RSt T) (l : Nat) (t e : Edge) : (mkNodeR none r l t e).1 ≠ none := by
  unfold mkNodeR
  split
  · simp
  · exact insertR_unbounded r l t e

theorem finishR_erase (ncap : Option Nat) (p : APolicy) (r : RSt T) (key : Key) (l : Nat)
    (e1 e0 : Edge) (x : Edge) (h : (finishR ncap p r key l e1 e0).1 = some x) :
    finishS p r.st key l e1 e0 = ((finishR ncap p r key l e1 e0).2.st, x) := by
  unfold finishR at h ⊢
  unfold finishS
  cases hR : mkNodeR ncap r l e1 e0 with
  | mk o r' =>
    rw [hR] at h
    cases o with
    | none => cases h
    | some y =>
      simp only at h ⊢
      cases h
      obtain ⟨h1, h2, h3⟩ := mkNodeR_erase ncap r l e1 e0 x (by rw [hR])
      rw [hR] at h1 h2 h3
      simp only at h1 h2 h3
      rw [h1]
      simp only [h2, h3]

theorem finishR_unbounded (p : APolicy) (r : RSt T) (key : Key) (l : Nat) (e1 e0 : Edge) :
    (finishR none p r key l e1 e0).1 ≠ none := by
  unfold finishR
  have := mkNodeR_unbounded r l e1 e0
  cases hR : mkNodeR none r l e1 e0 with
  | mk o r' =>
    rw [hR] at this
    cases o with
    | none => exact absurd rfl this
    | some y => simp

/-- erasure statement for a run: if it succeeds it equals the counter-free run -/
def Erases (R : Option Edge × RSt T) (S : St T × Edge) : Prop :=
  ∀ x, R.1 = some x → S = (R.2.st, x)

theorem forkR_erase {ncap : Option Nat} {p : APolicy} {key : Key} {l : Nat}
    {c1R c0R : RSt T → Option Edge × RSt T} {c1S c0S : St T → St T × Edge}
    (h1 : ∀ r, Erases (c1R r) (c1S r.st)) (h0 : ∀ r, Erases (c0R r) (c0S r.st)) (r : RSt T) :
    Erases (forkR ncap p key l c1R c0R r)
      (finishS p (c0S (c1S r.st).1).1 key l (c1S r.st).2 (c0S (c1S r.st).1).2) := by
  intro x hx
  unfold forkR at hx ⊢
  cases hc1 : c1R r with
  | mk o1 r1 =>
    rw [hc1] at hx
    cases o1 with
    | none => cases hx
    | some t =>
      simp only at hx ⊢
      have e1 := h1 r t (by rw [hc1])
      rw [hc1] at e1
      simp only at e1
      cases hc0 : c0R r1 with
      | mk o0 r0 =>
        rw [hc0] at hx
        cases o0 with
        | none => cases hx
        | some e =>
          simp only at hx ⊢
          have e0 := h0 r1 e (by rw [hc0])
          rw [hc0] at e0
          simp only at e0
          rw [e1]
          simp only
          rw [e0]
          exact finishR_erase ncap p r0 key l t e x hx

theorem forkR_unbounded {p : APolicy} {key : Key} {l : Nat}
    {c1 c0 : RSt T → Option Edge × RSt T} (h1 : ∀ r, (c1 r).1 ≠ none) (h0 : ∀ r, (c0 r).1 ≠ none)
    (r : RSt T) : (forkR none p key l c1 c0 r).1 ≠ none := by
  unfold forkR
  cases hc1 : c1 r with
  | mk o1 r1 =>
    have := h1 r
    rw [hc1] at this
    cases o1 with
    | none => exact absurd rfl this
    | some t =>
      simp only
      cases hc0 : c0 r1 with
      | mk o0 r0 =>
        have := h0 r1
        rw [hc0] at this
        cases o0 with
        | none => exact absurd rfl this
        | some e => exact finishR_unbounded p r0 key l t e

/-- **`applyR` erases to `applyS`** (all capacities, successful runs) -/
theorem applyR_erase' (L : TermOps T) (gt : Edge → Edge → Bool) (tg : Op → OpTag) (caps : Caps)
    (p : APolicy) (op : Op) (fuel : Nat) : ∀ (r : RSt T) (f g : Edge),
    Erases (applyR L gt tg caps p op fuel r f g) (applyS L gt tg p op fuel r.st f g) := by
  induction fuel with
  | zero => intro r f g x hx; simp only [applyR] at hx; cases hx; simp [applyR, applyS]
  | succ fuel ih =>
    intro r f g x hx
    simp only [applyR] at hx ⊢
    simp only [applyS]
    rw [terminalBinS_plan]
    cases hP : terminalBinP L gt tg op r.st.store f g with
    | clone h =>
      rw [hP] at hx
      simp only at hx
      cases hx
      simp [PlanS.execS]
    | term v =>
      rw [hP] at hx
      simp only at hx
      obtain ⟨h1, h2, h3⟩ := getTerminalR_erase caps.term r v x hx
      simp only [PlanS.execS, doneT, h1]
      congr 1
      cases hS : (getTerminalR caps.term r v).2.st with
      | mk s c t =>
        rw [hS] at h2 h3
        simp only at h2 h3
        subst h2 h3
        rfl
    | binary tag o1 o2 =>
      rw [hP] at hx
      simp only [PlanS.execS] at hx ⊢
      have hst : ({ r.st with store := r.st.store } : St T) = r.st := rfl
      simp only [hst]
      cases hget : p.get r.st.tick r.st.cache (tag, [o1, o2]) with
      | some h =>
        rw [hget] at hx
        simp only at hx
        cases hx
        simp
      | none =>
        rw [hget] at hx
        simp only at hx ⊢
        cases hl : lmin (r.st.store.level? f) (r.st.store.level? g) with
        | none =>
          rw [hl] at hx
          simp only at hx
          cases hx
          simp
        | some l =>
          rw [hl] at hx
          simp only at hx ⊢
          exact forkR_erase
            (c1S := fun s => applyS L gt tg p op fuel s (r.st.store.cofT l f) (r.st.store.cofT l g))
            (c0S := fun s => applyS L gt tg p op fuel s (r.st.store.cofE l f) (r.st.store.cofE l g))
            (fun s => ih s _ _) (fun s => ih s _ _) r.tickd x hx

theorem applyR_unbounded' (L : TermOps T) (gt : Edge → Edge → Bool) (tg : Op → OpTag)
    (p : APolicy) (op : Op) (fuel : Nat) : ∀ (r : RSt T) (f g : Edge),
    (applyR L gt tg Caps.unbounded p op fuel r f g).1 ≠ none := by
  induction fuel with
  | zero => intro r f g; simp [applyR]
  | succ fuel ih =>
    intro r f g
    simp only [applyR]
    split
    · simp
    · exact getTerminalR_unbounded r _
    · split
      · simp
      · split
        · simp
        · exact forkR_unbounded (fun s => ih s _ _) (fun s => ih s _ _) _

/-- **`iteR` erases to `iteS`** -/
theorem iteR_erase' (L : TermOps T) (caps : Caps) (p : APolicy) (fuel : Nat) :
    ∀ (r : RSt T) (f g h : Edge),
    Erases (iteR L caps p fuel r f g h) (iteS L p fuel r.st f g h) := by
  induction fuel with
  | zero => intro r f g h x hx; simp only [iteR] at hx; cases hx; simp [iteR, iteS]
  | succ fuel ih =>
    intro r f g h x hx
    simp only [iteR] at hx ⊢
    simp only [iteS]
    by_cases hgh : g = h
    · simp only [hgh, if_true] at hx ⊢
      cases hx
      simp
    · simp only [hgh, if_false] at hx ⊢
      cases f with
      | term i =>
        simp only at hx ⊢
        cases hi : r.st.store.getTerm? i with
        | none => rw [hi] at hx; simp only at hx; cases hx; simp
        | some t => rw [hi] at hx; simp only at hx; cases hx; simp
      | inner i =>
        simp only at hx ⊢
        cases hget : p.get r.st.tick r.st.cache (.ite, [.inner i, g, h]) with
        | some y => rw [hget] at hx; simp only at hx; cases hx; simp
        | none =>
          rw [hget] at hx
          simp only at hx ⊢
          cases hl : lmin (lmin (r.st.store.level? (.inner i)) (r.st.store.level? g)) (r.st.store.level? h) with
          | none => rw [hl] at hx; simp only at hx; cases hx; simp
          | some l =>
            rw [hl] at hx
            simp only at hx ⊢
            exact forkR_erase
              (c1S := fun s => iteS L p fuel s (r.st.store.cofT l (.inner i)) (r.st.store.cofT l g) (r.st.store.cofT l h))
              (c0S := fun s => iteS L p fuel s (r.st.store.cofE l (.inner i)) (r.st.store.cofE l g) (r.st.store.cofE l h))
              (fun s => ih s _ _ _) (fun s => ih s _ _ _) r.tickd x hx

theorem iteR_unbounded' (L : TermOps T) (p : APolicy) (fuel : Nat) : ∀ (r : RSt T) (f g h : Edge),
    (iteR L Caps.unbounded p fuel r f g h).1 ≠ none := by
  induction fuel with
  | zero => intro r f g h; simp [iteR]
  | succ fuel ih =>
    intro r f g h
    simp only [iteR]
    split
    · simp
    · split
      · split <;> simp
      · split
        · simp
        · split
          · simp
          · exact forkR_unbounded (fun s => ih s _ _ _) (fun s => ih s _ _ _) _

/-- `varR` erases to `varS` -/
theorem varR_erase' (L : TermOps T) (caps : Caps) (r : RSt T) (l : Nat) (x : Edge)
    (h : (varR L caps r l).1 = some x) :
    varS L r.st.store l = ((varR L caps r l).2.st.store, x) ∧
    (varR L caps r l).2.st.cache = r.st.cache ∧ (varR L caps r l).2.st.tick = r.st.tick := by
  unfold varR at h ⊢
  unfold varS
  cases h1 : getTerminalR caps.term r L.one with
  | mk o1 r1 =>
    rw [h1] at h
    cases o1 with
    | none => cases h
    | some t =>
      simp only at h ⊢
      obtain ⟨a1, a2, a3⟩ := getTerminalR_erase caps.term r L.one t (by rw [h1])
      rw [h1] at a1 a2 a3
      simp only at a1 a2 a3
      cases h0 : getTerminalR caps.term r1 L.zero with
      | mk o0 r0 =>
        rw [h0] at h
        cases o0 with
        | none => cases h
        | some e =>
          simp only at h ⊢
          obtain ⟨b1, b2, b3⟩ := getTerminalR_erase caps.term r1 L.zero e (by rw [h0])
          rw [h0] at b1 b2 b3
          simp only at b1 b2 b3
          obtain ⟨c1, c2, c3⟩ := insertR_erase caps.node r0 l t e x h
          rw [a1]
          simp only
          rw [b1]
          simp only
          exact ⟨c1, by rw [c2, b2, a2], by rw [c3, b3, a3]⟩

end OxiddModel.Mtbdd.Rc
