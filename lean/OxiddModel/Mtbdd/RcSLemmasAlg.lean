import OxiddModel.Mtbdd.RcSLemmasInv

/-!
# The MTBDD apply algorithms keep the counters exact — on success and on every failure path

`RcPost r ext R`: the run `R` started in `r` by a caller owning `ext` only extended the store and
ends with exact counters (inner nodes **and** terminals) for `result :: ext` (success) resp. `ext`
(OutOfMemory of the node store *or* of the terminal store). `finishR_rc`, `forkR_rc` (the two
`EdgeDropGuard`s), `applyR_rc`, `iteR_rc`, `varR_rc`, `constR_rc`: for all capacities, fuels,
policies (`Policy.OK`), terminal types and operator records, and all operands that point to
stored nodes / terminals. No semantic hypothesis is needed.
-/
set_option linter.unusedSectionVars false

namespace OxiddModel.Mtbdd.Rc
open OxiddModel.Mtbdd OxiddModel.Mtbdd.Refine OxiddModel.CachePolicy OxiddModel

variable {T : Type} [DecidableEq T]

/-- postcondition of a run from `r` whose caller owns the edges `ext` -/
def RcPost (r : RSt T) (ext : List Edge) (R : Option Edge × RSt T) : Prop :=
  r.st.store.Le R.2.st.store ∧
  match R with
  | (some x, r') => RcInv r' (x :: ext)
  | (none, r') => RcInv r' ext

/-- returning a clone of a stored edge -/
theorem RcPost.clone {r : RSt T} {ext : List Edge} {x : Edge} (h : RcInv r ext)
    (hx : Has r.st.store x) : RcPost r ext (some x, cloneEdge r x) :=
  ⟨by rw [cloneEdge_st]; exact Store.Le.refl _, cloneEdge_rc h hx⟩

theorem RcPost.clone_tickd {r : RSt T} {ext : List Edge} {x : Edge} (h : RcInv r ext)
    (hx : Has r.st.store x) : RcPost r ext (some x, cloneEdge r.tickd x) :=
  ⟨by rw [cloneEdge_st]; exact Store.Le.refl _, cloneEdge_rc h.tickd hx⟩

theorem getTerminalR_le (tcap : Option Nat) (r : RSt T) (v : T) :
    r.st.store.Le (getTerminalR tcap r v).2.st.store := by
  unfold getTerminalR
  split
  · simp only [cloneEdge_st]; exact Store.Le.refl _
  · split
    · exact ⟨Slots.Le.refl _, Slots.alloc_le _ _⟩
    · exact Store.Le.refl _

theorem getTerminalR_cache (tcap : Option Nat) (r : RSt T) (v : T) :
    (getTerminalR tcap r v).2.st.cache = r.st.cache ∧ (getTerminalR tcap r v).2.st.tick = r.st.tick ∧
    (getTerminalR tcap r v).2.st.store.nodes = r.st.store.nodes := by
  unfold getTerminalR
  split
  · simp
  · split <;> simp

theorem getTerminalR_post {tcap : Option Nat} {r : RSt T} {v : T} {ext : List Edge}
    (h : RcInv r ext) : RcPost r ext (getTerminalR tcap r v) :=
  ⟨getTerminalR_le tcap r v, getTerminalR_rc h⟩

theorem insertR_le (ncap : Option Nat) (r : RSt T) (l : Nat) (t e : Edge) :
    r.st.store.Le (insertR ncap r l t e).2.st.store := by
  unfold insertR
  split
  · simp only [cloneEdge_st, dropEdge_st]; exact Store.Le.refl _
  · split
    · exact ⟨Slots.alloc_le _ _, Slots.Le.refl _⟩
    · simp only [dropEdge_st]; exact Store.Le.refl _

theorem insertR_cache (ncap : Option Nat) (r : RSt T) (l : Nat) (t e : Edge) :
    (insertR ncap r l t e).2.st.cache = r.st.cache ∧ (insertR ncap r l t e).2.st.tick = r.st.tick := by
  unfold insertR
  split
  · simp
  · split <;> simp

theorem mkNodeR_le (ncap : Option Nat) (r : RSt T) (l : Nat) (t e : Edge) :
    r.st.store.Le (mkNodeR ncap r l t e).2.st.store := by
  unfold mkNodeR
  split
  · simp only [dropEdge_st]; exact Store.Le.refl _
  · exact insertR_le ncap r l t e

theorem mkNodeR_cache (ncap : Option Nat) (r : RSt T) (l : Nat) (t e : Edge) :
    (mkNodeR ncap r l t e).2.st.cache = r.st.cache ∧ (mkNodeR ncap r l t e).2.st.tick = r.st.tick := by
  unfold mkNodeR
  split
  · simp
  · exact insertR_cache ncap r l t e

/-- `reduce(..)?` + cache add -/
theorem finishR_rc {p : APolicy} (pok : p.OK) {ncap : Option Nat} {r : RSt T} {key : Key} {l : Nat}
    {t e : Edge} {ext : List Edge} (h : RcInv r (t :: e :: ext)) :
    RcPost r ext (finishR ncap p r key l t e) := by
  have hm := mkNodeR_rc (ncap := ncap) (l := l) h
  have hle := mkNodeR_le ncap r l t e
  unfold finishR
  cases hR : mkNodeR ncap r l t e with
  | mk o r' =>
    rw [hR] at hm hle
    cases o with
    | none => exact ⟨hle, hm⟩
    | some x =>
      simp only at hm ⊢
      refine ⟨hle, ⟨hm.ext_ok, hm.kids_ok, ?_, fun y hy => hm.rc_eq y hy⟩⟩
      intro k v hkv
      rcases pok.add_sub _ _ _ _ _ hkv with hold | hnew
      · exact hm.cache_ok k v hold
      · cases hnew
        exact hm.ext_ok x List.mem_cons_self

/-- first call, second call (the first result is guarded), `reduce`, cache add — exact counters
whichever of the three fails -/
theorem forkR_rc {p : APolicy} (pok : p.OK) {ncap : Option Nat} {key : Key} {l : Nat}
    {c1 c0 : RSt T → Option Edge × RSt T} {r : RSt T} {ext : List Edge}
    (h1 : RcPost r ext (c1 r))
    (h0 : ∀ t r1, RcInv r1 (t :: ext) → r.st.store.Le r1.st.store → RcPost r1 (t :: ext) (c0 r1)) :
    RcPost r ext (forkR ncap p key l c1 c0 r) := by
  unfold forkR
  cases hc1 : c1 r with
  | mk o1 r1 =>
    rw [hc1] at h1
    cases o1 with
    | none => exact h1
    | some t =>
      obtain ⟨le1, i1⟩ := h1
      simp only at i1 le1 ⊢
      have h0' := h0 t r1 i1 le1
      cases hc0 : c0 r1 with
      | mk o0 r0 =>
        rw [hc0] at h0'
        obtain ⟨le0, i0⟩ := h0'
        cases o0 with
        | none =>
          simp only at i0 le0 ⊢
          refine ⟨?_, dropEdge_rc i0⟩
          simp only [dropEdge_st]
          exact le1.trans le0
        | some e =>
          simp only at i0 le0 ⊢
          have hf := finishR_rc pok (ncap := ncap) (key := key) (l := l) i0.swap
          exact ⟨le1.trans (le0.trans hf.1), hf.2⟩

/-! ## cofactors and terminal cases stay inside the store -/

theorem cofT_has {r : RSt T} {ext : List Edge} (h : RcInv r ext) (l : Nat) {f : Edge}
    (hf : Has r.st.store f) : Has r.st.store (r.st.store.cofT l f) := by
  cases f with
  | term i => exact hf
  | inner i =>
    cases hi : r.st.store.get? i with
    | none => simp only [Store.cofT, hi]; exact hf
    | some n =>
      simp only [Store.cofT, hi]
      split
      · exact (h.kids_ok i n hi).1
      · exact hf

theorem cofE_has {r : RSt T} {ext : List Edge} (h : RcInv r ext) (l : Nat) {f : Edge}
    (hf : Has r.st.store f) : Has r.st.store (r.st.store.cofE l f) := by
  cases f with
  | term i => exact hf
  | inner i =>
    cases hi : r.st.store.get? i with
    | none => simp only [Store.cofE, hi]; exact hf
    | some n =>
      simp only [Store.cofE, hi]
      split
      · exact (h.kids_ok i n hi).2
      · exact hf

/-! ## the algorithms -/

theorem applyR_rc (L : TermOps T) (gt : Edge → Edge → Bool) (tg : Op → OpTag) {p : APolicy}
    (pok : p.OK) (caps : Caps) (op : Op) (fuel : Nat) :
    ∀ (r : RSt T) (f g : Edge) (ext : List Edge), RcInv r ext → Has r.st.store f →
      Has r.st.store g → RcPost r ext (applyR L gt tg caps p op fuel r f g) := by
  induction fuel with
  | zero => intro r f g ext h hf _; exact RcPost.clone h hf
  | succ fuel ih =>
    intro r f g ext h hf hg
    simp only [applyR]
    have hshape := terminalBinP_shape L gt tg op r.st.store f g
    cases hP : terminalBinP L gt tg op r.st.store f g with
    | clone x =>
      rw [hP] at hshape
      refine RcPost.clone h ?_
      rcases hshape with rfl | rfl
      · exact hf
      · exact hg
    | term v => exact getTerminalR_post h
    | binary tag o1 o2 =>
      simp only
      cases hget : p.get r.st.tick r.st.cache (tag, [o1, o2]) with
      | some x => exact RcPost.clone_tickd h (h.cache_ok _ _ (pok.get_mem _ _ _ _ hget))
      | none =>
        cases hl : lmin (r.st.store.level? f) (r.st.store.level? g) with
        | none => exact RcPost.clone_tickd h hf
        | some l =>
          simp only
          exact forkR_rc pok (ncap := caps.node) (r := r.tickd) (ext := ext)
            (c1 := fun s => applyR L gt tg caps p op fuel s (r.st.store.cofT l f) (r.st.store.cofT l g))
            (c0 := fun s => applyR L gt tg caps p op fuel s (r.st.store.cofE l f) (r.st.store.cofE l g))
            (ih _ _ _ _ h.tickd (cofT_has h _ hf) (cofT_has h _ hg))
            (fun t r1 i1 le1 => ih _ _ _ _ i1 ((cofE_has h _ hf).mono le1) ((cofE_has h _ hg).mono le1))

theorem iteR_rc (L : TermOps T) {p : APolicy} (pok : p.OK) (caps : Caps) (fuel : Nat) :
    ∀ (r : RSt T) (f g h : Edge) (ext : List Edge), RcInv r ext → Has r.st.store f →
      Has r.st.store g → Has r.st.store h → RcPost r ext (iteR L caps p fuel r f g h) := by
  induction fuel with
  | zero => intro r f g h ext hi hf _ _; exact RcPost.clone hi hf
  | succ fuel ih =>
    intro r f g h ext hi hf hg hh
    simp only [iteR]
    by_cases hgh : g = h
    · simp only [hgh, if_true]; exact RcPost.clone hi hh
    · simp only [hgh, if_false]
      cases f with
      | term i =>
        simp only
        cases hti : r.st.store.getTerm? i with
        | none => exact RcPost.clone hi hf
        | some t =>
          simp only
          split
          · exact RcPost.clone hi hh
          · exact RcPost.clone hi hg
      | inner i =>
        simp only
        cases hget : p.get r.st.tick r.st.cache (.ite, [.inner i, g, h]) with
        | some x => exact RcPost.clone_tickd hi (hi.cache_ok _ _ (pok.get_mem _ _ _ _ hget))
        | none =>
          simp only
          cases hl : lmin (lmin (r.st.store.level? (.inner i)) (r.st.store.level? g)) (r.st.store.level? h) with
          | none => exact RcPost.clone_tickd hi hf
          | some l =>
            simp only
            exact forkR_rc pok (ncap := caps.node) (r := r.tickd) (ext := ext)
              (c1 := fun s => iteR L caps p fuel s (r.st.store.cofT l (.inner i)) (r.st.store.cofT l g) (r.st.store.cofT l h))
              (c0 := fun s => iteR L caps p fuel s (r.st.store.cofE l (.inner i)) (r.st.store.cofE l g) (r.st.store.cofE l h))
              (ih _ _ _ _ _ hi.tickd (cofT_has hi _ hf) (cofT_has hi _ hg) (cofT_has hi _ hh))
              (fun t r1 i1 le1 => ih _ _ _ _ _ i1 ((cofE_has hi _ hf).mono le1)
                ((cofE_has hi _ hg).mono le1) ((cofE_has hi _ hh).mono le1))

/-- `constant_edge` -/
theorem constR_rc (caps : Caps) (r : RSt T) (v : T) (ext : List Edge) (h : RcInv r ext) :
    RcPost r ext (constR caps r v) := getTerminalR_post h

/-- `var_edge`: first `get_terminal`, second `get_terminal` (the first result is guarded),
`get_or_insert` -/
theorem varR_rc (L : TermOps T) (caps : Caps) (r : RSt T) (level : Nat) (ext : List Edge)
    (h : RcInv r ext) : RcPost r ext (varR L caps r level) := by
  unfold varR
  have h1 := getTerminalR_post (tcap := caps.term) (v := L.one) h
  cases hc1 : getTerminalR caps.term r L.one with
  | mk o1 r1 =>
    rw [hc1] at h1
    cases o1 with
    | none => exact h1
    | some t =>
      obtain ⟨le1, i1⟩ := h1
      simp only at i1 le1 ⊢
      have h0 := getTerminalR_post (tcap := caps.term) (v := L.zero) i1
      cases hc0 : getTerminalR caps.term r1 L.zero with
      | mk o0 r0 =>
        rw [hc0] at h0
        obtain ⟨le0, i0⟩ := h0
        cases o0 with
        | none =>
          simp only at i0 le0 ⊢
          refine ⟨?_, dropEdge_rc i0⟩
          simp only [dropEdge_st]
          exact le1.trans le0
        | some e =>
          simp only at i0 le0 ⊢
          exact ⟨le1.trans (le0.trans (insertR_le _ _ _ _ _)), insertR_rc i0.swap⟩

end OxiddModel.Mtbdd.Rc
