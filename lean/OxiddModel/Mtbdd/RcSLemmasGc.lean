import OxiddModel.Mtbdd.RcSLemmasInv

/-!
# The counter-driven collection `gcR` (`Manager::gc` for MTBDDs)

`gcR` = cache cleared, inner levels from the top (`rc == 1` ⇒ remove, `free_slot` releases the
children — inner *and terminal*), then the terminal sweep (`rc == 1` ⇒ remove).

* `gcSlot_rc` / `gcTermSlot_rc` / `gcR_rc`: every single removal keeps `RcInv` (any store);
* `gcR_sub`: nothing is created or changed; `gcR_keeps_reach`: nothing reachable from the external
  edges — inner node or terminal — is removed; `gcR_denotes`: external edges denote what they did;
* `gcR_complete`: if the store is ordered and all levels are visited, every **inner node and every
  terminal** that survives is reachable from an external edge.
-/
set_option linter.unusedSectionVars false

namespace OxiddModel.Mtbdd.Rc
open OxiddModel.Mtbdd OxiddModel.Mtbdd.Refine OxiddModel.CachePolicy OxiddModel

variable {T : Type}

/-! ## reachability, orderedness -/

/-- the node / terminal `x` is reachable from the external edges through stored nodes -/
inductive Reach (s : Store T) (ext : List Edge) : Edge → Prop
  | root {x : Edge} : x ∈ ext → Reach s ext x
  | kid {p : Nat} {x : Edge} {n : Node} : Reach s ext (.inner p) → s.get? p = some n →
      (n.t = x ∨ n.e = x) → Reach s ext x

/-- inner children live on strictly larger levels (`Manager::gc` relies on it: one top-down pass) -/
def Ordered (s : Store T) : Prop :=
  ∀ i n j m, s.get? i = some n → (n.t = .inner j ∨ n.e = .inner j) → s.get? j = some m →
    n.level < m.level

/-- `s'` is `s` with some node slots and some terminal slots emptied -/
def Sub (s' s : Store T) : Prop :=
  (∀ i n, s'.get? i = some n → s.get? i = some n) ∧
  (∀ i v, s'.getTerm? i = some v → s.getTerm? i = some v)

theorem Sub.refl (s : Store T) : Sub s s := ⟨fun _ _ h => h, fun _ _ h => h⟩
theorem Sub.trans {a b c : Store T} (h1 : Sub a b) (h2 : Sub b c) : Sub a c :=
  ⟨fun i n h => h2.1 i n (h1.1 i n h), fun i v h => h2.2 i v (h1.2 i v h)⟩

theorem ordered_sub {s s' : Store T} (h : Ordered s) (hs : Sub s' s) : Ordered s' :=
  fun i n j m hi hc hj => h i n j m (hs.1 i n hi) hc (hs.1 j m hj)

theorem Reach.sub {s s' : Store T} {ext : List Edge} (hs : Sub s' s) {x : Edge}
    (h : Reach s' ext x) : Reach s ext x := by
  induction h with
  | root hm => exact .root hm
  | kid _ hp hc ih => exact .kid ih (hs.1 _ _ hp) hc

theorem Has.of_sub {s s' : Store T} (hs : Sub s' s) {x : Edge} (h : Has s' x) : Has s x := by
  cases x with
  | term i => obtain ⟨v, hv⟩ := h; exact ⟨v, hs.2 i v hv⟩
  | inner i => obtain ⟨n, hn⟩ := h; exact ⟨n, hs.1 i n hn⟩

@[simp] theorem rcOf_with_st (r : RSt T) (st' : St T) (x : Edge) :
    RSt.rcOf ({ r with st := st' } : RSt T) x = r.rcOf x := by cases x <;> rfl

/-! ## one removal of an inner node -/

/-- the state after removing slot `i` holding `n` (`free_slot`) -/
def freeSlot (r : RSt T) (i : Nat) (n : Node) : RSt T :=
  dropEdge (dropEdge
    { r with st := { r.st with store := ⟨r.st.store.nodes.set! i none, r.st.store.terms⟩ } } n.t) n.e

theorem gcSlot_eq (l : Nat) (r : RSt T) (i : Nat) :
    gcSlot l r i = match r.st.store.get? i with
      | none => r
      | some n => if n.level = l ∧ rcGet r.rc i = 1 then freeSlot r i n else r := rfl

theorem freeSlot_store (r : RSt T) (i : Nat) (n : Node) :
    (freeSlot r i n).st.store = ⟨r.st.store.nodes.set! i none, r.st.store.terms⟩ := by
  simp [freeSlot]

theorem freeSlot_cache (r : RSt T) (i : Nat) (n : Node) :
    (freeSlot r i n).st.cache = r.st.cache := by
  simp [freeSlot]

theorem freeSlot_rcOf (r : RSt T) (i : Nat) (n : Node) (x : Edge) :
    (freeSlot r i n).rcOf x = r.rcOf x - cnt n.t x - cnt n.e x := by
  simp only [freeSlot, rcOf_dropEdge, rcOf_with_st]

theorem get?_free (s : Store T) (k j : Nat) :
    (⟨s.nodes.set! k none, s.terms⟩ : Store T).get? j = if j = k then none else s.get? j :=
  slots_get?_free s.nodes k j

theorem getTerm?_freeT (s : Store T) (k j : Nat) :
    (⟨s.nodes, s.terms.set! k none⟩ : Store T).getTerm? j = if j = k then none else s.getTerm? j :=
  slots_get?_free s.terms k j

theorem has_free {s : Store T} {i : Nat} {x : Edge} (hx : Has s x) (hne : x ≠ .inner i) :
    Has (⟨s.nodes.set! i none, s.terms⟩ : Store T) x := by
  cases x with
  | term j => exact hx
  | inner j =>
    obtain ⟨m, hm⟩ := hx
    refine ⟨m, ?_⟩
    rw [get?_free]
    have : j ≠ i := fun e => hne (by rw [e])
    simp [this, hm]

theorem has_of_free {s : Store T} {i : Nat} {x : Edge}
    (hx : Has (⟨s.nodes.set! i none, s.terms⟩ : Store T) x) : Has s x ∧ x ≠ .inner i := by
  cases x with
  | term j => exact ⟨hx, fun e => by cases e⟩
  | inner j =>
    obtain ⟨m, hm⟩ := hx
    rw [get?_free] at hm
    split at hm
    · cases hm
    · rename_i hji
      exact ⟨⟨m, hm⟩, fun e => hji (by cases e; rfl)⟩

/-- removing a node that only the unique table references keeps the invariant -/
theorem freeSlot_inv {r : RSt T} {ext : List Edge} {i : Nat} {n : Node} (h : RcInv r ext)
    (hc : r.st.cache = []) (hi : r.st.store.get? i = some n) (hrc : rcGet r.rc i = 1) :
    RcInv (freeSlot r i n) ext := by
  have heq := h.rc_eq (.inner i) ⟨n, hi⟩
  simp only [RSt.rcOf] at heq
  rw [hrc] at heq
  have hcnt : ext.count (.inner i) = 0 := by omega
  have hpar : parents r.st.store (.inner i) = 0 := by omega
  have hnotmem : Edge.inner i ∉ ext := List.count_eq_zero.mp hcnt
  refine ⟨?_, ?_, ?_, ?_⟩
  · intro e he
    rw [freeSlot_store]
    exact has_free (h.ext_ok e he) (fun e' => hnotmem (e' ▸ he))
  · intro k m hk
    rw [freeSlot_store] at hk ⊢
    rw [get?_free] at hk
    split at hk
    · cases hk
    · obtain ⟨h1, h2⟩ := h.kids_ok k m hk
      obtain ⟨n1, n2⟩ := parents_zero_no_child hpar hk
      exact ⟨has_free h1 n1, has_free h2 n2⟩
  · intro k v hkv
    rw [freeSlot_cache, hc] at hkv
    cases hkv
  · intro x hx
    rw [freeSlot_store] at hx ⊢
    obtain ⟨hold, _⟩ := has_of_free hx
    have := h.rc_eq x hold
    have hp : parents (⟨r.st.store.nodes.set! i none, r.st.store.terms⟩ : Store T) x +
        (cnt n.t x + cnt n.e x) = parents r.st.store x := parentsA_free r.st.store.nodes i n x hi
    rw [freeSlot_rcOf]
    omega

theorem gcSlot_rc {l : Nat} {r : RSt T} {ext : List Edge} (i : Nat) (h : RcInv r ext)
    (hc : r.st.cache = []) : RcInv (gcSlot l r i) ext ∧ (gcSlot l r i).st.cache = [] := by
  rw [gcSlot_eq]
  cases hi : r.st.store.get? i with
  | none => exact ⟨h, hc⟩
  | some n =>
    simp only
    split
    · rename_i hcond
      exact ⟨freeSlot_inv h hc hi hcond.2, by rw [freeSlot_cache]; exact hc⟩
    · exact ⟨h, hc⟩

theorem gcSlot_sub (l : Nat) (r : RSt T) (i : Nat) : Sub (gcSlot l r i).st.store r.st.store := by
  rw [gcSlot_eq]
  cases hi : r.st.store.get? i with
  | none => exact Sub.refl _
  | some n =>
    simp only
    split
    · refine ⟨?_, ?_⟩
      · intro k m hk
        rw [freeSlot_store, get?_free] at hk
        split at hk
        · cases hk
        · exact hk
      · intro k v hk
        rw [freeSlot_store] at hk
        exact hk
    · exact Sub.refl _

theorem gcSlot_size (l : Nat) (r : RSt T) (i : Nat) :
    (gcSlot l r i).st.store.nodes.size = r.st.store.nodes.size := by
  rw [gcSlot_eq]
  cases hi : r.st.store.get? i with
  | none => rfl
  | some n =>
    simp only
    split
    · rw [freeSlot_store]; simp
    · rfl

/-! ## one removal of a terminal -/

def freeTerm (r : RSt T) (i : Nat) : RSt T :=
  { r with st := { r.st with store := ⟨r.st.store.nodes, r.st.store.terms.set! i none⟩ } }

theorem gcTermSlot_eq (r : RSt T) (i : Nat) :
    gcTermSlot r i = match r.st.store.getTerm? i with
      | none => r
      | some _ => if rcGet r.trc i = 1 then freeTerm r i else r := rfl

theorem has_freeT {s : Store T} {i : Nat} {x : Edge} (hx : Has s x) (hne : x ≠ .term i) :
    Has (⟨s.nodes, s.terms.set! i none⟩ : Store T) x := by
  cases x with
  | inner j => exact hx
  | term j =>
    obtain ⟨v, hv⟩ := hx
    refine ⟨v, ?_⟩
    rw [getTerm?_freeT]
    have : j ≠ i := fun e => hne (by rw [e])
    simp [this, hv]

theorem has_of_freeT {s : Store T} {i : Nat} {x : Edge}
    (hx : Has (⟨s.nodes, s.terms.set! i none⟩ : Store T) x) : Has s x ∧ x ≠ .term i := by
  cases x with
  | inner j => exact ⟨hx, fun e => by cases e⟩
  | term j =>
    obtain ⟨v, hv⟩ := hx
    rw [getTerm?_freeT] at hv
    split at hv
    · cases hv
    · rename_i hji
      exact ⟨⟨v, hv⟩, fun e => hji (by cases e; rfl)⟩

/-- removing a terminal that only the terminal table references keeps the invariant -/
theorem freeTerm_inv {r : RSt T} {ext : List Edge} {i : Nat} {v : T} (h : RcInv r ext)
    (hc : r.st.cache = []) (hi : r.st.store.getTerm? i = some v) (hrc : rcGet r.trc i = 1) :
    RcInv (freeTerm r i) ext := by
  have heq := h.rc_eq (.term i) ⟨v, hi⟩
  simp only [RSt.rcOf] at heq
  rw [hrc] at heq
  have hcnt : ext.count (.term i) = 0 := by omega
  have hpar : parents r.st.store (.term i) = 0 := by omega
  have hnotmem : Edge.term i ∉ ext := List.count_eq_zero.mp hcnt
  refine ⟨?_, ?_, ?_, ?_⟩
  · intro e he
    exact has_freeT (h.ext_ok e he) (fun e' => hnotmem (e' ▸ he))
  · intro k m hk
    have hk' : r.st.store.get? k = some m := hk
    obtain ⟨h1, h2⟩ := h.kids_ok k m hk'
    obtain ⟨n1, n2⟩ := parents_zero_no_child hpar hk'
    exact ⟨has_freeT h1 n1, has_freeT h2 n2⟩
  · intro k w hkw
    have : (k, w) ∈ r.st.cache := hkw
    rw [hc] at this
    cases this
  · intro x hx
    obtain ⟨hold, _⟩ := has_of_freeT hx
    have := h.rc_eq x hold
    simp only [freeTerm, rcOf_with_st]
    exact this

theorem gcTermSlot_rc {r : RSt T} {ext : List Edge} (i : Nat) (h : RcInv r ext)
    (hc : r.st.cache = []) : RcInv (gcTermSlot r i) ext ∧ (gcTermSlot r i).st.cache = [] := by
  rw [gcTermSlot_eq]
  cases hi : r.st.store.getTerm? i with
  | none => exact ⟨h, hc⟩
  | some v =>
    simp only
    split
    · rename_i hcond
      exact ⟨freeTerm_inv h hc hi hcond, hc⟩
    · exact ⟨h, hc⟩

theorem gcTermSlot_sub (r : RSt T) (i : Nat) : Sub (gcTermSlot r i).st.store r.st.store := by
  rw [gcTermSlot_eq]
  cases hi : r.st.store.getTerm? i with
  | none => exact Sub.refl _
  | some v =>
    simp only
    split
    · refine ⟨fun k m hk => hk, ?_⟩
      intro k w hk
      simp only [freeTerm] at hk
      rw [getTerm?_freeT] at hk
      split at hk
      · cases hk
      · exact hk
    · exact Sub.refl _

/-- the terminal sweep touches neither the inner nodes nor any counter -/
theorem gcTermSlot_nodes (r : RSt T) (i : Nat) :
    (gcTermSlot r i).st.store.nodes = r.st.store.nodes ∧ (gcTermSlot r i).rc = r.rc ∧
    (gcTermSlot r i).trc = r.trc ∧ (gcTermSlot r i).st.store.terms.size = r.st.store.terms.size := by
  rw [gcTermSlot_eq]
  cases hi : r.st.store.getTerm? i with
  | none => exact ⟨rfl, rfl, rfl, rfl⟩
  | some v =>
    simp only
    split
    · exact ⟨rfl, rfl, rfl, by simp [freeTerm]⟩
    · exact ⟨rfl, rfl, rfl, rfl⟩

/-! ## folds -/

theorem foldl_ind {α : Type} {P : RSt T → Prop} (f : RSt T → α → RSt T)
    (hstep : ∀ r a, P r → P (f r a)) : ∀ (as : List α) (r : RSt T), P r → P (as.foldl f r) := by
  intro as
  induction as with
  | nil => intro r h; exact h
  | cons a as ih => intro r h; exact ih _ (hstep r a h)

/-- a property that every `gcSlot` step preserves is preserved by the sweep of the inner levels -/
theorem gcInner_ind {P : RSt T → Prop} (hstep : ∀ l r i, P r → P (gcSlot l r i)) (N : Nat)
    (r : RSt T) (h : P r) : P (gcInner N r) :=
  foldl_ind gcLevel (fun r l hr => foldl_ind (gcSlot l) (hstep l) _ r hr) _ r h

/-- a property that every `gcTermSlot` step preserves is preserved by the terminal sweep -/
theorem gcTerms_ind {P : RSt T → Prop} (hstep : ∀ r i, P r → P (gcTermSlot r i))
    (r : RSt T) (h : P r) : P (gcTerms r) :=
  foldl_ind gcTermSlot hstep _ r h

/-- a property preserved by both kinds of steps is preserved by any composition of the sweeps
(`gcR`, `gcTermsFirst`, `gcSkipTerms`) -/
theorem gcR_ind {P : RSt T → Prop} (hslot : ∀ l r i, P r → P (gcSlot l r i))
    (hterm : ∀ r i, P r → P (gcTermSlot r i)) (N : Nat) (r : RSt T) (h : P (clearCache r)) :
    P (gcR N r) :=
  gcTerms_ind hterm _ (gcInner_ind hslot N _ h)

theorem clearCache_rc {r : RSt T} {ext : List Edge} (h : RcInv r ext) :
    RcInv (clearCache r) ext ∧ (clearCache r).st.cache = [] :=
  ⟨⟨h.ext_ok, h.kids_ok, fun _ _ hm => (by cases hm), fun x hx => h.rc_eq x hx⟩, rfl⟩

/-- **the collection keeps the counters exact** (no orderedness needed) -/
theorem gcR_rc {r : RSt T} {ext : List Edge} (N : Nat) (h : RcInv r ext) :
    RcInv (gcR N r) ext ∧ (gcR N r).st.cache = [] :=
  gcR_ind (P := fun r => RcInv r ext ∧ r.st.cache = [])
    (fun _ _ i ⟨h1, h2⟩ => gcSlot_rc i h1 h2) (fun _ i ⟨h1, h2⟩ => gcTermSlot_rc i h1 h2) N r
    (clearCache_rc h)

theorem gcInner_rc {r : RSt T} {ext : List Edge} (N : Nat) (h : RcInv r ext)
    (hc : r.st.cache = []) : RcInv (gcInner N r) ext ∧ (gcInner N r).st.cache = [] :=
  gcInner_ind (P := fun r => RcInv r ext ∧ r.st.cache = [])
    (fun _ _ i ⟨h1, h2⟩ => gcSlot_rc i h1 h2) N r ⟨h, hc⟩

theorem gcTerms_rc {r : RSt T} {ext : List Edge} (h : RcInv r ext)
    (hc : r.st.cache = []) : RcInv (gcTerms r) ext ∧ (gcTerms r).st.cache = [] :=
  gcTerms_ind (P := fun r => RcInv r ext ∧ r.st.cache = [])
    (fun _ i ⟨h1, h2⟩ => gcTermSlot_rc i h1 h2) r ⟨h, hc⟩

/-- nothing is created, no node or terminal changes -/
theorem gcR_sub (N : Nat) (r : RSt T) : Sub (gcR N r).st.store r.st.store :=
  gcR_ind (P := fun r' => Sub r'.st.store r.st.store)
    (fun l r' i h => (gcSlot_sub l r' i).trans h) (fun r' i h => (gcTermSlot_sub r' i).trans h) N r
    (Sub.refl _)

theorem gcInner_sub (N : Nat) (r : RSt T) : Sub (gcInner N r).st.store r.st.store :=
  gcInner_ind (P := fun r' => Sub r'.st.store r.st.store)
    (fun l r' i h => (gcSlot_sub l r' i).trans h) N r (Sub.refl _)

theorem gcTerms_nodes (r : RSt T) :
    (gcTerms r).st.store.nodes = r.st.store.nodes ∧ (gcTerms r).rc = r.rc ∧ (gcTerms r).trc = r.trc :=
  gcTerms_ind (P := fun r' => r'.st.store.nodes = r.st.store.nodes ∧ r'.rc = r.rc ∧ r'.trc = r.trc)
    (fun r' i ⟨h1, h2, h3⟩ =>
      ⟨(gcTermSlot_nodes r' i).1.trans h1, (gcTermSlot_nodes r' i).2.1.trans h2,
        (gcTermSlot_nodes r' i).2.2.1.trans h3⟩) r ⟨rfl, rfl, rfl⟩

/-! ## soundness: reachable nodes and terminals survive, denotations are kept -/

theorem gcR_keeps_reach {r : RSt T} {ext : List Edge} (N : Nat) (h : RcInv r ext) {x : Edge}
    (hr : Reach r.st.store ext x) : Has (gcR N r).st.store x := by
  have hF := (gcR_rc N h).1
  have hsub := gcR_sub N r
  induction hr with
  | root hm => exact hF.ext_ok _ hm
  | @kid p x n _ hp hc ih =>
    obtain ⟨n', hn'⟩ := ih
    have := hsub.1 p n' hn'
    rw [hp] at this; cases this
    have hk := hF.kids_ok p n hn'
    rcases hc with hc | hc
    · rw [← hc]; exact hk.1
    · rw [← hc]; exact hk.2

/-- what survives has the content it had -/
theorem has_sub_get {s s' : Store T} (hs : Sub s' s) {i : Nat} {n : Node} (hi : s.get? i = some n)
    (h : Has s' (.inner i)) : s'.get? i = some n := by
  obtain ⟨m, hm⟩ := h
  have := hs.1 i m hm
  rw [hi] at this; cases this
  exact hm

theorem has_sub_getTerm {s s' : Store T} (hs : Sub s' s) {i : Nat} {v : T}
    (hi : s.getTerm? i = some v) (h : Has s' (.term i)) : s'.getTerm? i = some v := by
  obtain ⟨w, hw⟩ := h
  have := hs.2 i w hw
  rw [hi] at this; cases this
  exact hw

theorem gcR_denotes {r : RSt T} {ext : List Edge} (N : Nat) (h : RcInv r ext) {x : Edge}
    {a : MT T} (hd : Denotes r.st.store x a) (hx : Reach r.st.store ext x) :
    Denotes (gcR N r).st.store x a := by
  have hsub := gcR_sub N r
  induction hd with
  | term hi => exact .term (has_sub_getTerm hsub hi (gcR_keeps_reach N h hx))
  | @inner i l t e tt te hi _ _ iht ihe =>
    refine .inner (has_sub_get hsub hi (gcR_keeps_reach N h hx)) (iht ?_) (ihe ?_)
    · exact .kid hx hi (.inl rfl)
    · exact .kid hx hi (.inr rfl)

/-! ## completeness under orderedness: survivors are reachable -/

/-- the nodes of the levels already visited (levels `< l`, and level `l` up to slot `j`) are all
referenced from outside the table -/
def Visited (l j : Nat) (r : RSt T) : Prop :=
  ∀ i n, r.st.store.get? i = some n → (n.level < l ∨ (n.level = l ∧ i < j)) → rcGet r.rc i ≠ 1

theorem gcSlot_visited {l j : Nat} {r : RSt T} (ho : Ordered r.st.store) (hv : Visited l j r) :
    Visited l (j + 1) (gcSlot l r j) := by
  rw [gcSlot_eq]
  cases hj : r.st.store.get? j with
  | none =>
    intro i n hi hc
    apply hv i n hi
    rcases hc with hc | ⟨h1, h2⟩
    · exact .inl hc
    · by_cases hij : i = j
      · subst hij; rw [hj] at hi; cases hi
      · exact .inr ⟨h1, by omega⟩
  | some nj =>
    simp only
    split
    · -- removed
      rename_i hcond
      intro i n hi hc
      rw [freeSlot_store, get?_free] at hi
      split at hi
      · cases hi
      · rename_i hij
        have hrc := freeSlot_rcOf r j nj (.inner i)
        simp only [RSt.rcOf] at hrc
        rw [hrc]
        -- `i` is not a child of the removed node: it is not below level `l`
        have hnt : nj.t ≠ .inner i := fun ht => by
          have := ho j nj i n hj (.inl ht) hi
          rcases hc with hc | ⟨hc, _⟩ <;> omega
        have hne : nj.e ≠ .inner i := fun he => by
          have := ho j nj i n hj (.inr he) hi
          rcases hc with hc | ⟨hc, _⟩ <;> omega
        simp only [cnt, hnt, hne, if_false, Nat.sub_zero]
        apply hv i n hi
        rcases hc with hc | ⟨h1, h2⟩
        · exact .inl hc
        · exact .inr ⟨h1, by omega⟩
    · rename_i hcond
      intro i n hi hc
      by_cases hij : i = j
      · subst hij
        rw [hj] at hi; cases hi
        rcases hc with hc | ⟨h1, _⟩
        · exact hv i nj hj (.inl hc)
        · intro h1'; exact hcond ⟨h1, h1'⟩
      · apply hv i n hi
        rcases hc with hc | ⟨h1, h2⟩
        · exact .inl hc
        · exact .inr ⟨h1, by omega⟩

theorem foldl_range_visited (l : Nat) : ∀ (k : Nat) (r : RSt T), Ordered r.st.store → Visited l 0 r →
    Ordered ((List.range k).foldl (gcSlot l) r).st.store ∧
    Sub ((List.range k).foldl (gcSlot l) r).st.store r.st.store ∧
    Visited l k ((List.range k).foldl (gcSlot l) r) := by
  intro k
  induction k with
  | zero => intro r ho hv; exact ⟨ho, Sub.refl _, hv⟩
  | succ k ih =>
    intro r ho hv
    rw [List.range_succ, List.foldl_append]
    obtain ⟨ho', hs', hv'⟩ := ih r ho hv
    simp only [List.foldl_cons, List.foldl_nil]
    exact ⟨ordered_sub ho' (gcSlot_sub _ _ _), (gcSlot_sub _ _ _).trans hs', gcSlot_visited ho' hv'⟩

theorem gcLevel_visited {l : Nat} {r : RSt T} (ho : Ordered r.st.store) (hv : Visited l 0 r) :
    Ordered (gcLevel r l).st.store ∧ Sub (gcLevel r l).st.store r.st.store ∧
    Visited (l + 1) 0 (gcLevel r l) := by
  obtain ⟨ho', hs', hv'⟩ := foldl_range_visited l r.st.store.nodes.size r ho hv
  refine ⟨ho', hs', ?_⟩
  intro i n hi hc
  apply hv' i n hi
  have hlt : i < r.st.store.nodes.size := slots_get?_lt (hs'.1 i n hi)
  rcases hc with hc | ⟨_, h2⟩
  · by_cases hl : n.level < l
    · exact .inl hl
    · exact .inr ⟨by omega, hlt⟩
  · omega

theorem gcInner_visited : ∀ (k : Nat) (r : RSt T), Ordered r.st.store →
    Ordered (gcInner k r).st.store ∧ Visited k 0 (gcInner k r) := by
  intro k
  induction k with
  | zero =>
    intro r ho
    refine ⟨ho, ?_⟩
    intro i n _ hc
    rcases hc with hc | ⟨_, hc⟩ <;> omega
  | succ k ih =>
    intro r ho
    unfold gcInner
    rw [List.range_succ, List.foldl_append]
    obtain ⟨ho', hv'⟩ := ih r ho
    simp only [List.foldl_cons, List.foldl_nil]
    obtain ⟨a, _, c⟩ := gcLevel_visited ho' hv'
    exact ⟨a, c⟩

/-- after the terminal sweep every stored terminal is referenced from outside the table -/
def TVisited (j : Nat) (r : RSt T) : Prop :=
  ∀ i v, r.st.store.getTerm? i = some v → i < j → rcGet r.trc i ≠ 1

theorem gcTermSlot_visited {j : Nat} {r : RSt T} (hv : TVisited j r) :
    TVisited (j + 1) (gcTermSlot r j) := by
  rw [gcTermSlot_eq]
  cases hj : r.st.store.getTerm? j with
  | none =>
    intro i v hi hlt
    by_cases hij : i = j
    · subst hij; rw [hj] at hi; cases hi
    · exact hv i v hi (by omega)
  | some w =>
    simp only
    split
    · intro i v hi hlt
      simp only [freeTerm] at hi
      rw [getTerm?_freeT] at hi
      split at hi
      · cases hi
      · rename_i hij
        exact hv i v hi (by omega)
    · rename_i hcond
      intro i v hi hlt
      by_cases hij : i = j
      · subst hij; exact hcond
      · exact hv i v hi (by omega)

theorem gcTerms_visited (r : RSt T) : TVisited r.st.store.terms.size (gcTerms r) := by
  unfold gcTerms
  suffices H : ∀ k (r : RSt T), TVisited k ((List.range k).foldl gcTermSlot r) from H _ r
  intro k
  induction k with
  | zero => intro r i v _ hlt; omega
  | succ k ih =>
    intro r
    rw [List.range_succ, List.foldl_append]
    simp only [List.foldl_cons, List.foldl_nil]
    exact gcTermSlot_visited (ih r)

/-- **every inner node and every terminal that survives `gcR` is reachable from an external edge** -/
theorem gcR_complete {r : RSt T} {ext : List Edge} (N : Nat) (h : RcInv r ext)
    (ho : Ordered r.st.store) (hl : ∀ i n, r.st.store.get? i = some n → n.level < N)
    {x : Edge} (hx : Has (gcR N r).st.store x) : Reach r.st.store ext x := by
  have hF := (gcR_rc N h).1
  have hsub := gcR_sub N r
  have hoF : Ordered (gcR N r).st.store := ordered_sub ho hsub
  -- after the inner sweep every stored node is externally referenced; the terminal sweep does not
  -- touch nodes and counters
  have hV : Visited N 0 (gcR N r) := by
    have hv := (gcInner_visited N (clearCache r) ho).2
    obtain ⟨e1, e2, _⟩ := gcTerms_nodes (gcInner N (clearCache r))
    intro i n hi hc
    have hi' : (gcInner N (clearCache r)).st.store.get? i = some n := by
      have : (gcR N r).st.store.get? i = Slots.get? (gcR N r).st.store.nodes i := rfl
      rw [this] at hi
      unfold gcR at hi
      rw [e1] at hi
      exact hi
    have := hv i n hi' hc
    unfold gcR
    rw [e2]
    exact this
  apply Reach.sub hsub
  -- inner nodes: strong induction on the level
  have HI : ∀ (L : Nat) (i : Nat) (n : Node), (gcR N r).st.store.get? i = some n →
      n.level ≤ L → Reach (gcR N r).st.store ext (.inner i) := by
    intro L
    induction L with
    | zero =>
      intro i n hi hle
      have hne := hV i n hi (.inl (hl i n (hsub.1 i n hi)))
      have heq := hF.rc_eq (.inner i) ⟨n, hi⟩
      simp only [RSt.rcOf] at heq
      by_cases hc : 0 < ext.count (.inner i)
      · exact .root (List.count_pos_iff.mp hc)
      · have hp : 0 < parents (gcR N r).st.store (.inner i) := by omega
        obtain ⟨k, m, hk, hch⟩ := parents_pos hp
        have := hoF k m i n hk hch hi
        omega
    | succ L ih =>
      intro i n hi hle
      have hne := hV i n hi (.inl (hl i n (hsub.1 i n hi)))
      have heq := hF.rc_eq (.inner i) ⟨n, hi⟩
      simp only [RSt.rcOf] at heq
      by_cases hc : 0 < ext.count (.inner i)
      · exact .root (List.count_pos_iff.mp hc)
      · have hp : 0 < parents (gcR N r).st.store (.inner i) := by omega
        obtain ⟨k, m, hk, hch⟩ := parents_pos hp
        have hlt := hoF k m i n hk hch hi
        exact .kid (ih k m hk (by omega)) hk hch
  cases x with
  | inner i =>
    obtain ⟨n, hn⟩ := hx
    exact HI n.level i n hn (Nat.le_refl _)
  | term i =>
    obtain ⟨v, hv⟩ := hx
    have hTV := gcTerms_visited (gcInner N (clearCache r))
    have hlt : i < (gcInner N (clearCache r)).st.store.terms.size := by
      have h1 : (gcInner N (clearCache r)).st.store.getTerm? i = some v :=
        (gcTerms_ind (P := fun r' => Sub r'.st.store (gcInner N (clearCache r)).st.store)
          (fun r' j hh => (gcTermSlot_sub r' j).trans hh) _ (Sub.refl _)).2 i v hv
      exact slots_get?_lt h1
    have hne : rcGet (gcR N r).trc i ≠ 1 := hTV i v hv hlt
    have heq := hF.rc_eq (.term i) ⟨v, hv⟩
    simp only [RSt.rcOf] at heq
    by_cases hc : 0 < ext.count (.term i)
    · exact .root (List.count_pos_iff.mp hc)
    · have hp : 0 < parents (gcR N r).st.store (.term i) := by omega
      obtain ⟨k, m, hk, hch⟩ := parents_pos hp
      exact .kid (HI m.level k m hk (Nat.le_refl _)) hk hch

end OxiddModel.Mtbdd.Rc
