import OxiddModel.Mtbdd.RcSLemmas

/-!
# The reference-count invariant (inner nodes and terminals) and the primitives

`RcInv r ext`: for every stored **inner node or terminal** `x`
`rc(x) = 1 + #(occurrences of x in ext) + #(stored parent edges to x)` — the `1` is the reference of
the (inner or terminal) unique table; this is the convention of both `InnerNode::new` (`rc = 2`)
and `DynamicTerminalManager::get_edge` (`rc: AtomicU32::new(2)`), and both collectors remove
exactly the entries with `rc == 1`. `ext` is the multiset of **externally owned** edges: the
handles of the user plus the temporaries the running algorithm owns. The invariant also contains
the closedness facts the counters rely on: external edges, child edges and cached results point to
stored nodes / terminals.

`cloneEdge_rc`, `dropEdge_rc`, `getTerminalR_rc` (hit / allocation / OutOfMemory), `insertR_rc`
(hit / allocation / OutOfMemory), `mkNodeR_rc`.
-/
set_option linter.unusedSectionVars false

namespace OxiddModel.Mtbdd.Rc
open OxiddModel.Mtbdd OxiddModel.Mtbdd.Refine OxiddModel.CachePolicy OxiddModel

variable {T : Type}

/-! ## stored parent edges -/

/-- number of child edges of a slot's content that are the edge `x` -/
def refsOpt (x : Edge) : Option Node → Nat
  | none => 0
  | some n => cnt n.t x + cnt n.e x

/-- number of stored parent edges to `x` (parents that are garbage included) -/
def parentsA (nodes : Array (Option Node)) (x : Edge) : Nat := (nodes.toList.map (refsOpt x)).sum

def parents (s : Store T) (x : Edge) : Nat := parentsA s.nodes x

/-- the edge points to an occupied slot (inner node or terminal) -/
def Has (s : Store T) : Edge → Prop
  | .term i => ∃ v, s.getTerm? i = some v
  | .inner i => ∃ n, s.get? i = some n

/-- **the reference-count invariant** -/
structure RcInv (r : RSt T) (ext : List Edge) : Prop where
  /-- every externally owned edge points to a stored node / terminal -/
  ext_ok : ∀ e ∈ ext, Has r.st.store e
  /-- the children of stored nodes are stored -/
  kids_ok : ∀ i n, r.st.store.get? i = some n → Has r.st.store n.t ∧ Has r.st.store n.e
  /-- cached results are stored (the cache is cleared at `gc`) -/
  cache_ok : ∀ k v, (k, v) ∈ r.st.cache → Has r.st.store v
  /-- counter = table's reference + external references + stored parent edges -/
  rc_eq : ∀ x, Has r.st.store x → r.rcOf x = 1 + ext.count x + parents r.st.store x

theorem Has.mono {s s' : Store T} (hle : s.Le s') {e : Edge} (h : Has s e) : Has s' e := by
  cases e with
  | term i => obtain ⟨v, hv⟩ := h; exact ⟨v, hle.2 i v hv⟩
  | inner i => obtain ⟨n, hn⟩ := h; exact ⟨n, hle.1 i n hn⟩

/-- `ext` matters only as a multiset -/
theorem RcInv.congr {r : RSt T} {ext ext' : List Edge} (h : RcInv r ext)
    (hc : ∀ e, ext.count e = ext'.count e) : RcInv r ext' where
  ext_ok e he := by
    apply h.ext_ok
    have : 0 < ext'.count e := List.count_pos_iff.mpr he
    rw [← hc] at this
    exact List.count_pos_iff.mp this
  kids_ok := h.kids_ok
  cache_ok := h.cache_ok
  rc_eq x hx := by rw [h.rc_eq x hx, hc]

theorem RcInv.swap {r : RSt T} {a b : Edge} {ext : List Edge} (h : RcInv r (a :: b :: ext)) :
    RcInv r (b :: a :: ext) :=
  h.congr (fun e => by simp only [List.count_cons]; omega)

/-- the counters are not looked at by the other components -/
theorem RcInv.tickd {r : RSt T} {ext : List Edge} (h : RcInv r ext) : RcInv r.tickd ext :=
  ⟨h.ext_ok, h.kids_ok, h.cache_ok, fun x hx => by rw [tickd_rcOf]; exact h.rc_eq x hx⟩

/-! ## `clone_edge` / `drop_edge` -/

theorem count_cons_cnt (y : Edge) (ext : List Edge) (x : Edge) :
    (y :: ext).count x = ext.count x + cnt y x := by
  simp only [List.count_cons, cnt]
  by_cases h : y = x
  · simp [h]
  · simp [h]

/-- cloning an edge to a stored node / terminal adds one external reference -/
theorem cloneEdge_rc {r : RSt T} {ext : List Edge} {x : Edge} (h : RcInv r ext)
    (hx : Has r.st.store x) : RcInv (cloneEdge r x) (x :: ext) := by
  refine ⟨?_, ?_, ?_, ?_⟩
  · intro e he
    rw [cloneEdge_st]
    rcases List.mem_cons.mp he with rfl | he
    · exact hx
    · exact h.ext_ok e he
  · rw [cloneEdge_st]; exact h.kids_ok
  · rw [cloneEdge_st]; exact h.cache_ok
  · intro y hy
    rw [cloneEdge_st] at hy ⊢
    rw [rcOf_cloneEdge, count_cons_cnt, h.rc_eq y hy]
    omega

/-- dropping an externally owned edge removes one external reference -/
theorem dropEdge_rc {r : RSt T} {ext : List Edge} {x : Edge} (h : RcInv r (x :: ext)) :
    RcInv (dropEdge r x) ext := by
  refine ⟨?_, ?_, ?_, ?_⟩
  · intro e he
    rw [dropEdge_st]
    exact h.ext_ok e (List.mem_cons_of_mem _ he)
  · rw [dropEdge_st]; exact h.kids_ok
  · rw [dropEdge_st]; exact h.cache_ok
  · intro y hy
    rw [dropEdge_st] at hy ⊢
    have := h.rc_eq y hy
    rw [count_cons_cnt] at this
    rw [rcOf_dropEdge]
    omega

/-- a dropped edge was really counted: no underflow, the node / terminal keeps the table's
reference (`debug_assert!(_old_rc > 1)` in `drop_edge` / `release` holds) -/
theorem dropEdge_no_underflow {r : RSt T} {ext : List Edge} {x : Edge}
    (h : RcInv r (x :: ext)) : 2 ≤ r.rcOf x := by
  have := h.rc_eq x (h.ext_ok x List.mem_cons_self)
  simp only [List.count_cons_self] at this
  omega

/-! ## list sums -/

theorem sum_map_set {α} (f : α → Nat) : ∀ (l : List α) (k : Nat) (x : α) (hk : k < l.length),
    ((l.set k x).map f).sum + f l[k] = (l.map f).sum + f x := by
  intro l
  induction l with
  | nil => intro k x hk; simp at hk
  | cons a as ih =>
    intro k x hk
    cases k with
    | zero => simp; omega
    | succ k =>
      simp only [List.set_cons_succ, List.map_cons, List.sum_cons, List.getElem_cons_succ]
      have := ih k x (by simpa using hk)
      omega

theorem sum_map_zero {α} (f : α → Nat) (l : List α) (h : ∀ a ∈ l, f a = 0) : (l.map f).sum = 0 := by
  induction l with
  | nil => rfl
  | cons a as ih =>
    simp only [List.map_cons, List.sum_cons]
    rw [h a List.mem_cons_self, ih (fun b hb => h b (List.mem_cons_of_mem _ hb))]

theorem le_sum_of_mem {α} (f : α → Nat) : ∀ (l : List α) (a : α), a ∈ l → f a ≤ (l.map f).sum := by
  intro l
  induction l with
  | nil => intro a h; cases h
  | cons b bs ih =>
    intro a h
    simp only [List.map_cons, List.sum_cons]
    rcases List.mem_cons.mp h with rfl | h
    · omega
    · have := ih a h; omega

/-! ## slot arrays -/

theorem slots_get?_lt {α} {a : Array (Option α)} {k : Nat} {x : α} (h : Slots.get? a k = some x) :
    k < a.size := by
  by_cases hlt : k < a.size
  · exact hlt
  · simp [Slots.get?, hlt] at h

theorem slots_get?_elem {α} {a : Array (Option α)} {k : Nat} {x : α} (h : Slots.get? a k = some x) :
    ∃ hk : k < a.size, a[k] = some x := by
  have hlt := slots_get?_lt h
  refine ⟨hlt, ?_⟩
  simpa [Slots.get?, hlt] using h

theorem slots_mem_get? {α} {a : Array (Option α)} {x : α} (h : some x ∈ a.toList) :
    ∃ k, Slots.get? a k = some x := by
  obtain ⟨k, hk, hkn⟩ := List.mem_iff_getElem.mp h
  refine ⟨k, ?_⟩
  have hk' : k < a.size := by simpa using hk
  have : a[k] = some x := by simpa using hkn
  simp [Slots.get?, hk', this]

theorem slots_get?_free {α} (a : Array (Option α)) (k j : Nat) :
    Slots.get? (a.set! k none) j = if j = k then none else Slots.get? a j := by
  simp only [Slots.get?, Array.set!_eq_setIfInBounds, Array.getElem?_setIfInBounds]
  by_cases hj : j = k
  · subst hj
    by_cases hlt : j < a.size
    · simp [hlt]
    · simp [hlt]
  · simp [hj, Ne.symm hj]

/-! ## parents under allocation and freeing -/

/-- no stored node points to `x` ⇒ no parent edges -/
theorem parents_zero {s : Store T} {x : Edge}
    (h : ∀ k n, s.get? k = some n → n.t ≠ x ∧ n.e ≠ x) : parents s x = 0 := by
  apply sum_map_zero
  intro o ho
  cases o with
  | none => rfl
  | some n =>
    obtain ⟨k, hk⟩ := slots_mem_get? ho
    obtain ⟨h1, h2⟩ := h k n hk
    simp [refsOpt, cnt, h1, h2]

theorem parents_zero_no_child {s : Store T} {x : Edge} (h : parents s x = 0) {k : Nat} {n : Node}
    (hk : s.get? k = some n) : n.t ≠ x ∧ n.e ≠ x := by
  obtain ⟨hlt, hn⟩ := slots_get?_elem hk
  have hmem : some n ∈ s.nodes.toList := by
    rw [← hn]; exact Array.getElem_mem_toList hlt
  have hle : refsOpt x (some n) ≤ parents s x := le_sum_of_mem (refsOpt x) _ _ hmem
  rw [h] at hle
  simp only [refsOpt, cnt] at hle
  constructor
  · intro ht; simp [ht] at hle
  · intro he; simp [he] at hle

/-- a positive parent count is witnessed by a stored parent -/
theorem parents_pos {s : Store T} {x : Edge} (h : 0 < parents s x) :
    ∃ k n, s.get? k = some n ∧ (n.t = x ∨ n.e = x) := by
  apply Classical.byContradiction
  intro hno
  have : parents s x = 0 := parents_zero (fun k n hk =>
    ⟨fun ht => hno ⟨k, n, hk, .inl ht⟩, fun he => hno ⟨k, n, hk, .inr he⟩⟩)
  omega

theorem parentsA_alloc (a : Array (Option Node)) (n : Node) (x : Edge) :
    parentsA (Slots.alloc a n).1 x = parentsA a x + (cnt n.t x + cnt n.e x) := by
  unfold Slots.alloc parentsA
  split
  · rename_i k hk
    obtain ⟨hlt, heq⟩ := Array.findIdx?_eq_some_iff_findIdx_eq.mp hk
    have hnone := Array.findIdx_getElem (xs := a) (p := (·.isNone)) (w := by rw [heq]; exact hlt)
    simp only [heq] at hnone
    have hn : a[k] = none := by
      cases h : a[k] with
      | none => rfl
      | some y => rw [h] at hnone; cases hnone
    have hl : k < a.toList.length := by simpa using hlt
    have := sum_map_set (refsOpt x) a.toList k (some n) hl
    have hk0 : refsOpt x a.toList[k] = 0 := by
      have : a.toList[k] = none := by simpa using hn
      rw [this]; rfl
    rw [hk0] at this
    simp only [Array.set!_eq_setIfInBounds, Array.toList_setIfInBounds]
    simpa [refsOpt] using this
  · simp [refsOpt]

theorem parentsA_free (a : Array (Option Node)) (k : Nat) (n : Node) (x : Edge)
    (h : Slots.get? a k = some n) :
    parentsA (a.set! k none) x + (cnt n.t x + cnt n.e x) = parentsA a x := by
  unfold parentsA
  obtain ⟨hlt, hn⟩ := slots_get?_elem h
  have hl : k < a.toList.length := by simpa using hlt
  have := sum_map_set (refsOpt x) a.toList k none hl
  have hk0 : refsOpt x a.toList[k] = cnt n.t x + cnt n.e x := by
    have : a.toList[k] = some n := by simpa using hn
    rw [this]; rfl
  rw [hk0] at this
  simp only [Array.set!_eq_setIfInBounds, Array.toList_setIfInBounds]
  simpa [refsOpt] using this

theorem rcOf_mk_rc (st st' : St T) (rc trc : Array Nat) (j v : Nat) (x : Edge) (hx : x ≠ .inner j) :
    RSt.rcOf (⟨st', rcSet rc j v, trc⟩ : RSt T) x = RSt.rcOf (⟨st, rc, trc⟩ : RSt T) x := by
  cases x with
  | term i => rfl
  | inner i =>
    have : i ≠ j := fun e => hx (by rw [e])
    simp [RSt.rcOf, rcGet_rcSet, this]

theorem rcOf_mk_trc (st st' : St T) (rc trc : Array Nat) (j v : Nat) (x : Edge) (hx : x ≠ .term j) :
    RSt.rcOf (⟨st', rc, rcSet trc j v⟩ : RSt T) x = RSt.rcOf (⟨st, rc, trc⟩ : RSt T) x := by
  cases x with
  | inner i => rfl
  | term i =>
    have : i ≠ j := fun e => hx (by rw [e])
    simp [RSt.rcOf, rcGet_rcSet, this]

theorem rcOf_mk_st (st st' : St T) (rc trc : Array Nat) (x : Edge) :
    RSt.rcOf (⟨st, rc, trc⟩ : RSt T) x = RSt.rcOf (⟨st', rc, trc⟩ : RSt T) x := by
  cases x <;> rfl

variable [DecidableEq T]

/-! ## `get_terminal` -/

/-- **`getTerminalR_rc`**: hit (retain), allocation (`rc = 2`) and OutOfMemory (nothing changes)
all leave exact counters; on success the caller owns the returned edge. -/
theorem getTerminalR_rc {tcap : Option Nat} {r : RSt T} {v : T} {ext : List Edge}
    (h : RcInv r ext) :
    match getTerminalR tcap r v with
    | (some x, r') => RcInv r' (x :: ext)
    | (none, r') => RcInv r' ext := by
  unfold getTerminalR
  cases hf : Slots.find? r.st.store.terms v with
  | some i =>
    simp only
    exact cloneEdge_rc h ⟨v, Slots.find?_some hf⟩
  | none =>
    simp only
    by_cases hc : room tcap (slotCount r.st.store.terms) = true
    · simp only [hc, if_true]
      have hfresh := Slots.alloc_fresh r.st.store.terms v
      have hget := Slots.get?_alloc r.st.store.terms v
      generalize hj : (Slots.alloc r.st.store.terms v).2 = j at hfresh hget
      generalize ha : (Slots.alloc r.st.store.terms v).1 = terms' at hget
      have hle : r.st.store.Le ⟨r.st.store.nodes, terms'⟩ :=
        ⟨Slots.Le.refl _, by rw [← ha]; exact Slots.alloc_le _ _⟩
      have hnot : ∀ x : Edge, Has r.st.store x → x ≠ .term j := by
        intro x hx hxe
        subst hxe
        obtain ⟨w, hw⟩ := hx
        simp only [Store.getTerm?] at hw
        rw [hfresh] at hw; cases hw
      -- `Has` in the new store: the old ones and the new terminal
      have hhas : ∀ x : Edge, Has (⟨r.st.store.nodes, terms'⟩ : Store T) x → x ≠ .term j →
          Has r.st.store x := by
        intro x hx hne
        cases x with
        | inner i => exact hx
        | term i =>
          obtain ⟨w, hw⟩ := hx
          simp only [Store.getTerm?] at hw
          rw [hget] at hw
          split at hw
          · rename_i hij; subst hij; exact absurd rfl hne
          · exact ⟨w, hw⟩
      refine ⟨?_, ?_, ?_, ?_⟩
      · intro x hx
        rcases List.mem_cons.mp hx with rfl | hx
        · exact ⟨v, by simp [Store.getTerm?, hget]⟩
        · exact (h.ext_ok x hx).mono hle
      · intro i n hi
        obtain ⟨h1, h2⟩ := h.kids_ok i n hi
        exact ⟨h1.mono hle, h2.mono hle⟩
      · intro k w hkw
        exact (h.cache_ok k w hkw).mono hle
      · intro x hx
        by_cases hxj : x = .term j
        · subst hxj
          simp only [RSt.rcOf, rcGet_rcSet, if_true, List.count_cons_self]
          have hz : parents (⟨r.st.store.nodes, terms'⟩ : Store T) (.term j) = 0 :=
            parents_zero (s := (⟨r.st.store.nodes, terms'⟩ : Store T)) (fun k n hk =>
              ⟨hnot _ (h.kids_ok k n hk).1, hnot _ (h.kids_ok k n hk).2⟩)
          have hce : ext.count (.term j) = 0 := by
            apply List.count_eq_zero.mpr
            intro hm
            exact hnot _ (h.ext_ok _ hm) rfl
          rw [hz, hce]
        · have hold := hhas x hx hxj
          have := h.rc_eq x hold
          have hne : Edge.term j ≠ x := fun e => hxj e.symm
          rw [count_cons_cnt]
          simp only [cnt, hne, if_false, Nat.add_zero]
          show RSt.rcOf _ x = 1 + ext.count x + parents r.st.store x
          rw [← this]
          cases x with
          | inner i => rfl
          | term i =>
            have : i ≠ j := fun e => hxj (by rw [e])
            simp [RSt.rcOf, rcGet_rcSet, this]
    · rw [if_neg hc]
      exact h

/-! ## `get_or_insert`, `reduce` -/

/-- **`insertR_rc`**: `get_or_insert` consumes the two owned children; on success the caller owns
the result instead, on OutOfMemory it owns nothing more — in every branch the counters are exact. -/
theorem insertR_rc {ncap : Option Nat} {r : RSt T} {l : Nat} {t e : Edge} {ext : List Edge}
    (h : RcInv r (t :: e :: ext)) :
    match insertR ncap r l t e with
    | (some x, r') => RcInv r' (x :: ext)
    | (none, r') => RcInv r' ext := by
  unfold insertR
  cases hf : Slots.find? r.st.store.nodes ⟨l, t, e⟩ with
  | some i =>
    simp only
    have h2 : RcInv (dropEdge (dropEdge r t) e) ext := dropEdge_rc (dropEdge_rc h)
    refine cloneEdge_rc h2 ?_
    simp only [dropEdge_st]
    exact ⟨_, Slots.find?_some hf⟩
  | none =>
    simp only
    by_cases hc : room ncap (slotCount r.st.store.nodes) = true
    · simp only [hc, if_true]
      have hfresh := Slots.alloc_fresh r.st.store.nodes ⟨l, t, e⟩
      have hget := Slots.get?_alloc r.st.store.nodes ⟨l, t, e⟩
      have hpar := fun x => parentsA_alloc r.st.store.nodes ⟨l, t, e⟩ x
      generalize hj : (Slots.alloc r.st.store.nodes ⟨l, t, e⟩).2 = j at hfresh hget
      generalize ha : (Slots.alloc r.st.store.nodes ⟨l, t, e⟩).1 = nodes' at hget hpar
      have hle : r.st.store.Le ⟨nodes', r.st.store.terms⟩ :=
        ⟨by rw [← ha]; exact Slots.alloc_le _ _, Slots.Le.refl _⟩
      have hnot : ∀ x : Edge, Has r.st.store x → x ≠ .inner j := by
        intro x hx hxe
        subst hxe
        obtain ⟨n, hn⟩ := hx
        simp only [Store.get?] at hn
        rw [hfresh] at hn; cases hn
      have ht := h.ext_ok t List.mem_cons_self
      have he := h.ext_ok e (List.mem_cons_of_mem _ List.mem_cons_self)
      have hgetS : ∀ i, (⟨nodes', r.st.store.terms⟩ : Store T).get? i =
          if i = j then some ⟨l, t, e⟩ else r.st.store.get? i := fun i => hget i
      refine ⟨?_, ?_, ?_, ?_⟩
      · intro x hx
        rcases List.mem_cons.mp hx with rfl | hx
        · exact ⟨⟨l, t, e⟩, by simp [hgetS]⟩
        · exact (h.ext_ok x (List.mem_cons_of_mem _ (List.mem_cons_of_mem _ hx))).mono hle
      · intro i n hi
        rw [hgetS] at hi
        split at hi
        · cases hi; exact ⟨ht.mono hle, he.mono hle⟩
        · obtain ⟨h1, h2⟩ := h.kids_ok i n hi
          exact ⟨h1.mono hle, h2.mono hle⟩
      · intro k v hkv
        exact (h.cache_ok k v hkv).mono hle
      · intro x hx
        have hp : parents (⟨nodes', r.st.store.terms⟩ : Store T) x =
            parents r.st.store x + (cnt t x + cnt e x) := hpar x
        rw [hp]
        by_cases hxj : x = .inner j
        · subst hxj
          simp only [RSt.rcOf, rcGet_rcSet, if_true, List.count_cons_self]
          have hz : parents r.st.store (.inner j) = 0 := parents_zero (fun k n hk =>
            ⟨hnot _ (h.kids_ok k n hk).1, hnot _ (h.kids_ok k n hk).2⟩)
          have hce : ext.count (.inner j) = 0 := by
            apply List.count_eq_zero.mpr
            intro hm
            exact hnot _ (h.ext_ok _ (List.mem_cons_of_mem _ (List.mem_cons_of_mem _ hm))) rfl
          simp [hz, hce, cnt, hnot t ht, hnot e he]
        · have hold : Has r.st.store x := by
            cases x with
            | term i => exact hx
            | inner i =>
              obtain ⟨n, hn⟩ := hx
              rw [hgetS] at hn
              have : i ≠ j := fun e => hxj (by rw [e])
              simp only [this, if_false] at hn
              exact ⟨n, hn⟩
          have := h.rc_eq x hold
          simp only [count_cons_cnt] at this
          have hne : Edge.inner j ≠ x := fun e => hxj e.symm
          rw [count_cons_cnt]
          simp only [cnt, hne, if_false, Nat.add_zero]
          simp only [cnt] at this
          have hrc := rcOf_mk_rc r.st (⟨⟨nodes', r.st.store.terms⟩, r.st.cache, r.st.tick⟩ : St T)
            r.rc r.trc j 2 x hxj
          change RSt.rcOf (⟨_, rcSet r.rc j 2, r.trc⟩ : RSt T) x = _
          change _ = r.rcOf x at hrc
          rw [hrc]
          omega
    · rw [if_neg hc]
      exact dropEdge_rc (dropEdge_rc h)

/-- **`mkNodeR_rc`**: `reduce` consumes the two owned children (reduction: `e` dropped; else
`get_or_insert`) -/
theorem mkNodeR_rc {ncap : Option Nat} {r : RSt T} {l : Nat} {t e : Edge} {ext : List Edge}
    (h : RcInv r (t :: e :: ext)) :
    match mkNodeR ncap r l t e with
    | (some x, r') => RcInv r' (x :: ext)
    | (none, r') => RcInv r' ext := by
  unfold mkNodeR
  by_cases hte : t = e
  · simp only [hte, if_true]
    subst hte
    exact dropEdge_rc h
  · simp only [hte, if_false]
    exact insertR_rc h

end OxiddModel.Mtbdd.Rc
