import OxiddModel.Mtbdd.RcSHistory

/-!
# The MTBDD algorithms keep the store ordered (what `gcR_exact` assumes)

`OrdInv N r`: inner children of stored nodes are on strictly larger levels, all levels are `< N`,
and every cache entry maps operands that are all at level `≥ L` to a result at level `≥ L`
(terminals count as level `∞`). `applyR_ord / iteR_ord / varR_ord / constR_ord`: with operands at
level `≥ L` the result is at level `≥ L` and `OrdInv` is kept — on success and on failure;
`Cmd.run_ord`, `runAll_ord`: along every history.
-/
set_option linter.unusedSectionVars false

namespace OxiddModel.Mtbdd.Rc
open OxiddModel.Mtbdd OxiddModel.Mtbdd.Refine OxiddModel.CachePolicy OxiddModel

variable {T : Type}

/-- the edge points to a stored terminal or to a stored node at level `≥ L` -/
def Above (s : Store T) (L : Nat) : Edge → Prop
  | .term i => ∃ v, s.getTerm? i = some v
  | .inner i => ∃ n, s.get? i = some n ∧ L ≤ n.level

theorem Above.mono {s s' : Store T} {L : Nat} {e : Edge} (hle : s.Le s') (h : Above s L e) :
    Above s' L e := by
  cases e with
  | term i => obtain ⟨v, hv⟩ := h; exact ⟨v, hle.2 i v hv⟩
  | inner i => obtain ⟨n, hn, hl⟩ := h; exact ⟨n, hle.1 i n hn, hl⟩

theorem Above.weaken {s : Store T} {L L' : Nat} {e : Edge} (hL : L' ≤ L) (h : Above s L e) :
    Above s L' e := by
  cases e with
  | term i => exact h
  | inner i => obtain ⟨n, hn, hl⟩ := h; exact ⟨n, hn, by omega⟩

theorem Above.has {s : Store T} {L : Nat} {e : Edge} (h : Above s L e) : Has s e := by
  cases e with
  | term i => exact h
  | inner i => obtain ⟨n, hn, _⟩ := h; exact ⟨n, hn⟩

theorem Above.of_le_has {s s' : Store T} {L : Nat} {e : Edge} (hle : s.Le s') (hh : Has s e)
    (h : Above s' L e) : Above s L e := by
  cases e with
  | term i => exact hh
  | inner i =>
    obtain ⟨n, hn⟩ := hh
    obtain ⟨n', hn', hl⟩ := h
    have : s'.get? i = some n := hle.1 i n hn
    rw [this] at hn'; cases hn'
    exact ⟨n, hn, hl⟩

theorem Above.level_le {s : Store T} {L i : Nat} {n : Node} (h : Above s L (.inner i))
    (hn : s.get? i = some n) : L ≤ n.level := by
  obtain ⟨n', hn', hl⟩ := h
  rw [hn] at hn'; cases hn'; exact hl

theorem has_above_zero {s : Store T} {e : Edge} (h : Has s e) : Above s 0 e := by
  cases e with
  | term i => exact h
  | inner i => obtain ⟨n, hn⟩ := h; exact ⟨n, hn, Nat.zero_le _⟩

/-- cache entries respect levels -/
def CacheLv (s : Store T) (c : ACache) : Prop :=
  ∀ k v, (k, v) ∈ c → (∀ o ∈ k.2, Has s o) ∧ ∀ L, (∀ o ∈ k.2, Above s L o) → Above s L v

theorem CacheLv.mono {s s' : Store T} {c : ACache} (h : CacheLv s c) (hle : s.Le s') :
    CacheLv s' c := by
  intro k v hkv
  obtain ⟨h1, h2⟩ := h k v hkv
  refine ⟨fun o ho => (h1 o ho).mono hle, fun L hL => ?_⟩
  exact (h2 L (fun o ho => Above.of_le_has hle (h1 o ho) (hL o ho))).mono hle

structure OrdInv (N : Nat) (r : RSt T) : Prop where
  ord : Ordered r.st.store
  bound : ∀ i n, r.st.store.get? i = some n → n.level < N
  cache : CacheLv r.st.store r.st.cache

theorem OrdInv.tickd {N : Nat} {r : RSt T} (h : OrdInv N r) : OrdInv N r.tickd :=
  ⟨h.ord, h.bound, h.cache⟩

theorem OrdInv.of_st {N : Nat} {r r' : RSt T} (h : OrdInv N r) (hs : r'.st = r.st) : OrdInv N r' := by
  refine ⟨?_, ?_, ?_⟩
  · rw [hs]; exact h.ord
  · rw [hs]; exact h.bound
  · rw [hs]; exact h.cache

/-- postcondition: invariant kept, a result is at level `≥ L` -/
def OrdPost (N L : Nat) (R : Option Edge × RSt T) : Prop :=
  OrdInv N R.2 ∧ ∀ x, R.1 = some x → Above R.2.st.store L x

theorem OrdPost.weaken {N L L' : Nat} {R : Option Edge × RSt T} (hL : L' ≤ L) (h : OrdPost N L R) :
    OrdPost N L' R := ⟨h.1, fun x hx => (h.2 x hx).weaken hL⟩

theorem OrdPost.clone {N L : Nat} {r : RSt T} {x : Edge} (h : OrdInv N r) (hx : Above r.st.store L x) :
    OrdPost N L (some x, cloneEdge r x) := by
  refine ⟨h.of_st (cloneEdge_st r x), ?_⟩
  intro y hy
  cases hy
  simp only [cloneEdge_st]
  exact hx

theorem OrdPost.clone_tickd {N L : Nat} {r : RSt T} {x : Edge} (h : OrdInv N r)
    (hx : Above r.st.store L x) : OrdPost N L (some x, cloneEdge r.tickd x) :=
  OrdPost.clone (r := r.tickd) h.tickd hx

/-- children are strictly below their parent -/
theorem child_above {r : RSt T} {ext : List Edge} {N : Nat} (hrc : RcInv r ext) (ho : OrdInv N r)
    {i : Nat} {n : Node} (hi : r.st.store.get? i = some n) :
    Above r.st.store (n.level + 1) n.t ∧ Above r.st.store (n.level + 1) n.e := by
  obtain ⟨h1, h2⟩ := hrc.kids_ok i n hi
  constructor
  · cases ht : n.t with
    | term j => rw [ht] at h1; exact h1
    | inner j =>
      rw [ht] at h1
      obtain ⟨m, hm⟩ := h1
      exact ⟨m, hm, ho.ord i n j m hi (.inl ht) hm⟩
  · cases he : n.e with
    | term j => rw [he] at h2; exact h2
    | inner j =>
      rw [he] at h2
      obtain ⟨m, hm⟩ := h2
      exact ⟨m, hm, ho.ord i n j m hi (.inr he) hm⟩

variable [DecidableEq T]

/-! ## `get_terminal`, `get_or_insert`, `reduce` -/

theorem getTerminalR_ord {N L : Nat} {tcap : Option Nat} {r : RSt T} {v : T} (ho : OrdInv N r) :
    OrdPost N L (getTerminalR tcap r v) := by
  have hle := getTerminalR_le tcap r v
  obtain ⟨hc, _, hn⟩ := getTerminalR_cache tcap r v
  refine ⟨⟨?_, ?_, ?_⟩, ?_⟩
  · intro i n j m hi hch hj
    have hi' : r.st.store.get? i = some n := by
      have : (getTerminalR tcap r v).2.st.store.get? i = Slots.get? (getTerminalR tcap r v).2.st.store.nodes i := rfl
      rw [this, hn] at hi; exact hi
    have hj' : r.st.store.get? j = some m := by
      have : (getTerminalR tcap r v).2.st.store.get? j = Slots.get? (getTerminalR tcap r v).2.st.store.nodes j := rfl
      rw [this, hn] at hj; exact hj
    exact ho.ord i n j m hi' hch hj'
  · intro i n hi
    have hi' : r.st.store.get? i = some n := by
      have : (getTerminalR tcap r v).2.st.store.get? i = Slots.get? (getTerminalR tcap r v).2.st.store.nodes i := rfl
      rw [this, hn] at hi; exact hi
    exact ho.bound i n hi'
  · rw [hc]; exact ho.cache.mono hle
  · intro x hx
    unfold getTerminalR at hx ⊢
    cases hf : Slots.find? r.st.store.terms v with
    | some i =>
      rw [hf] at hx
      simp only at hx ⊢
      cases hx
      simp only [cloneEdge_st]
      exact ⟨v, Slots.find?_some hf⟩
    | none =>
      rw [hf] at hx
      simp only at hx ⊢
      split at hx
      · rename_i hroom
        simp only at hx
        cases hx
        simp only [hroom, if_true]
        exact ⟨v, by simp [Store.getTerm?, Slots.get?_alloc]⟩
      · cases hx

theorem insertR_ord {N : Nat} {ncap : Option Nat} {r : RSt T} {l : Nat} {t e : Edge}
    {ext : List Edge} (hrc : RcInv r (t :: e :: ext)) (ho : OrdInv N r) (hl : l < N)
    (ht : Above r.st.store (l + 1) t) (he : Above r.st.store (l + 1) e) :
    OrdPost N l (insertR ncap r l t e) := by
  unfold insertR
  cases hf : Slots.find? r.st.store.nodes ⟨l, t, e⟩ with
  | some i =>
    simp only
    refine ⟨ho.of_st (by simp), ?_⟩
    intro x hx; cases hx
    simp only [cloneEdge_st, dropEdge_st]
    exact ⟨_, Slots.find?_some hf, Nat.le_refl _⟩
  | none =>
    simp only
    by_cases hc : room ncap (slotCount r.st.store.nodes) = true
    · simp only [hc, if_true]
      have hfresh := Slots.alloc_fresh r.st.store.nodes ⟨l, t, e⟩
      have hget := Slots.get?_alloc r.st.store.nodes ⟨l, t, e⟩
      generalize hj : (Slots.alloc r.st.store.nodes ⟨l, t, e⟩).2 = j at hfresh hget
      generalize ha : (Slots.alloc r.st.store.nodes ⟨l, t, e⟩).1 = nodes' at hget
      have hle : r.st.store.Le ⟨nodes', r.st.store.terms⟩ :=
        ⟨by rw [← ha]; exact Slots.alloc_le _ _, Slots.Le.refl _⟩
      have hnot : ∀ x : Edge, Has r.st.store x → x ≠ .inner j := by
        intro x hx hxe
        subst hxe
        obtain ⟨n, hn⟩ := hx
        simp only [Store.get?] at hn
        rw [hfresh] at hn; cases hn
      have hgetS : ∀ i, (⟨nodes', r.st.store.terms⟩ : Store T).get? i =
          if i = j then some ⟨l, t, e⟩ else r.st.store.get? i := fun i => hget i
      refine ⟨⟨?_, ?_, ?_⟩, ?_⟩
      · -- ordered
        intro i n k m hi hch hk
        change (⟨nodes', r.st.store.terms⟩ : Store T).get? i = some n at hi
        change (⟨nodes', r.st.store.terms⟩ : Store T).get? k = some m at hk
        rw [hgetS] at hi hk
        split at hi
        · cases hi
          have hkj : k ≠ j := by
            intro hkj; subst hkj
            rcases hch with hch | hch
            · exact hnot t ht.has hch
            · exact hnot e he.has hch
          simp only [hkj, if_false] at hk
          rcases hch with hch | hch
          · simp only at hch; rw [hch] at ht
            have := ht.level_le hk; simp only; omega
          · simp only at hch; rw [hch] at he
            have := he.level_le hk; simp only; omega
        · have hk' := hrc.kids_ok i n hi
          have hkj : k ≠ j := by
            intro hkj; subst hkj
            rcases hch with hch | hch
            · exact hnot _ hk'.1 hch
            · exact hnot _ hk'.2 hch
          simp only [hkj, if_false] at hk
          exact ho.ord i n k m hi hch hk
      · intro i n hi
        change (⟨nodes', r.st.store.terms⟩ : Store T).get? i = some n at hi
        rw [hgetS] at hi
        split at hi
        · cases hi; exact hl
        · exact ho.bound i n hi
      · exact ho.cache.mono hle
      · intro x hx; cases hx
        exact ⟨⟨l, t, e⟩, by simp [hgetS], Nat.le_refl _⟩
    · rw [if_neg hc]
      refine ⟨ho.of_st (by simp), ?_⟩
      intro x hx; cases hx

theorem mkNodeR_ord {N : Nat} {ncap : Option Nat} {r : RSt T} {l : Nat} {t e : Edge}
    {ext : List Edge} (hrc : RcInv r (t :: e :: ext)) (ho : OrdInv N r) (hl : l < N)
    (ht : Above r.st.store (l + 1) t) (he : Above r.st.store (l + 1) e) :
    OrdPost N l (mkNodeR ncap r l t e) := by
  unfold mkNodeR
  by_cases hte : t = e
  · simp only [hte, if_true]
    refine ⟨ho.of_st (dropEdge_st r e), ?_⟩
    intro x hx; cases hx
    simp only [dropEdge_st]
    exact he.weaken (by omega)
  · simp only [hte, if_false]
    exact insertR_ord hrc ho hl ht he

/-- `reduce(..)?` + cache add; the key's operands bound the level from above -/
theorem finishR_ord {p : APolicy} (pok : p.OK) {N : Nat} {ncap : Option Nat} {r : RSt T} {key : Key}
    {l : Nat} {t e : Edge} {ext : List Edge} (hrc : RcInv r (t :: e :: ext)) (ho : OrdInv N r)
    (hl : l < N) (ht : Above r.st.store (l + 1) t) (he : Above r.st.store (l + 1) e)
    (hkey : ∀ o ∈ key.2, Has r.st.store o)
    (hlev : ∀ L, (∀ o ∈ key.2, Above r.st.store L o) → L ≤ l) :
    OrdPost N l (finishR ncap p r key l t e) := by
  have hm := mkNodeR_ord (ncap := ncap) hrc ho hl ht he
  have hle := mkNodeR_le ncap r l t e
  unfold finishR
  cases hR : mkNodeR ncap r l t e with
  | mk o r' =>
    rw [hR] at hm hle
    cases o with
    | none => exact ⟨hm.1, fun x hx => by cases hx⟩
    | some x =>
      simp only at hle ⊢
      have hx := hm.2 x rfl
      simp only at hx
      refine ⟨⟨hm.1.ord, hm.1.bound, ?_⟩, ?_⟩
      · intro k v hkv
        simp only at hkv ⊢
        rcases pok.add_sub _ _ _ _ _ hkv with hold | hnew
        · exact hm.1.cache k v hold
        · cases hnew
          refine ⟨fun o ho' => (hkey o ho').mono hle, fun L hL => ?_⟩
          have : L ≤ l := hlev L (fun o ho' => Above.of_le_has hle (hkey o ho') (hL o ho'))
          exact hx.weaken this
      · intro y hy; cases hy; exact hx

theorem forkR_ord {p : APolicy} (pok : p.OK) {N : Nat} {ncap : Option Nat} {key : Key} {l : Nat}
    {c1 c0 : RSt T → Option Edge × RSt T} {r : RSt T} {ext : List Edge} (hl : l < N)
    (h1 : RcPost r ext (c1 r)) (h1o : OrdPost N (l + 1) (c1 r))
    (h0 : ∀ t r1, RcInv r1 (t :: ext) → r.st.store.Le r1.st.store → OrdInv N r1 →
      RcPost r1 (t :: ext) (c0 r1) ∧ OrdPost N (l + 1) (c0 r1))
    (hkey : ∀ o ∈ key.2, Has r.st.store o)
    (hlev : ∀ L, (∀ o ∈ key.2, Above r.st.store L o) → L ≤ l) :
    OrdPost N l (forkR ncap p key l c1 c0 r) := by
  unfold forkR
  cases hc1 : c1 r with
  | mk o1 r1 =>
    rw [hc1] at h1 h1o
    cases o1 with
    | none => exact ⟨h1o.1, fun x hx => by cases hx⟩
    | some t =>
      obtain ⟨le1, i1⟩ := h1
      simp only at i1 le1 ⊢
      have ht1 := h1o.2 t rfl
      simp only at ht1
      obtain ⟨h0r, h0o⟩ := h0 t r1 i1 le1 h1o.1
      cases hc0 : c0 r1 with
      | mk o0 r0 =>
        rw [hc0] at h0r h0o
        obtain ⟨le0, i0⟩ := h0r
        cases o0 with
        | none =>
          simp only
          exact ⟨h0o.1.of_st (dropEdge_st r0 t), fun x hx => by cases hx⟩
        | some e =>
          simp only at i0 le0 ⊢
          have he0 := h0o.2 e rfl
          simp only at he0
          have hle := le1.trans le0
          exact finishR_ord pok i0.swap h0o.1 hl (ht1.mono le0) he0
            (fun o ho' => (hkey o ho').mono hle)
            (fun L hL => hlev L (fun o ho' => Above.of_le_has hle (hkey o ho') (hL o ho')))

/-! ## cofactors, levels -/

theorem level?_some {s : Store T} {f : Edge} {lf : Nat} (h : s.level? f = some lf) :
    ∃ i n, f = .inner i ∧ s.get? i = some n ∧ n.level = lf := by
  cases f with
  | term b => simp [Store.level?] at h
  | inner i =>
    simp only [Store.level?] at h
    cases hi : s.get? i with
    | none => rw [hi] at h; cases h
    | some n => rw [hi] at h; simp at h; exact ⟨i, n, rfl, hi, h⟩

theorem above_level? {s : Store T} {f : Edge} {L lf : Nat} (h : Above s L f)
    (hlf : s.level? f = some lf) : L ≤ lf := by
  obtain ⟨i, n, rfl, hi, hn⟩ := level?_some hlf
  have := h.level_le hi
  omega

/-- the expansion level is below the level of every operand -/
theorem lmin_le {a b : Option Nat} {l : Nat} (h : lmin a b = some l) :
    (∀ x, a = some x → l ≤ x) ∧ (∀ x, b = some x → l ≤ x) := by
  cases a <;> cases b <;> simp only [lmin] at h <;> cases h <;>
    constructor <;> intro x hx <;> cases hx <;> omega

theorem cofT_above {r : RSt T} {ext : List Edge} {N : Nat} (hrc : RcInv r ext) (ho : OrdInv N r)
    {f : Edge} {l : Nat} (hf : Has r.st.store f) (hle : ∀ lf, r.st.store.level? f = some lf → l ≤ lf) :
    Above r.st.store (l + 1) (r.st.store.cofT l f) := by
  cases f with
  | term i => exact hf
  | inner i =>
    obtain ⟨n, hi⟩ := hf
    have hl := hle n.level (by simp [Store.level?, hi])
    simp only [Store.cofT, hi]
    split
    · rename_i heq
      have := (child_above hrc ho hi).1
      rw [heq] at this; exact this
    · rename_i hne
      exact ⟨n, hi, by omega⟩

theorem cofE_above {r : RSt T} {ext : List Edge} {N : Nat} (hrc : RcInv r ext) (ho : OrdInv N r)
    {f : Edge} {l : Nat} (hf : Has r.st.store f) (hle : ∀ lf, r.st.store.level? f = some lf → l ≤ lf) :
    Above r.st.store (l + 1) (r.st.store.cofE l f) := by
  cases f with
  | term i => exact hf
  | inner i =>
    obtain ⟨n, hi⟩ := hf
    have hl := hle n.level (by simp [Store.level?, hi])
    simp only [Store.cofE, hi]
    split
    · rename_i heq
      have := (child_above hrc ho hi).2
      rw [heq] at this; exact this
    · rename_i hne
      exact ⟨n, hi, by omega⟩

/-! ## the algorithms -/

theorem applyR_ord (L : TermOps T) (gt : Edge → Edge → Bool) (tg : Op → OpTag) {p : APolicy}
    (pok : p.OK) (N : Nat) (caps : Caps) (op : Op) (fuel : Nat) :
    ∀ (r : RSt T) (f g : Edge) (ext : List Edge) (L' : Nat), RcInv r ext → OrdInv N r →
      Above r.st.store L' f → Above r.st.store L' g →
      OrdPost N L' (applyR L gt tg caps p op fuel r f g) := by
  induction fuel with
  | zero => intro r f g ext L' _ ho hf _; exact OrdPost.clone ho hf
  | succ fuel ih =>
    intro r f g ext L' hrc ho hf hg
    simp only [applyR]
    have hshape := terminalBinP_shape L gt tg op r.st.store f g
    cases hP : terminalBinP L gt tg op r.st.store f g with
    | clone x =>
      rw [hP] at hshape
      refine OrdPost.clone ho ?_
      rcases hshape with rfl | rfl
      · exact hf
      · exact hg
    | term v => exact getTerminalR_ord ho
    | binary tag o1 o2 =>
      rw [hP] at hshape
      simp only
      have hkeyA : ∀ L'', (∀ o ∈ [o1, o2], Above r.st.store L'' o) →
          Above r.st.store L'' f ∧ Above r.st.store L'' g := by
        intro L'' h
        have h1 := h o1 (by simp)
        have h2 := h o2 (by simp)
        rcases hshape with ⟨rfl, rfl⟩ | ⟨rfl, rfl⟩
        · exact ⟨h1, h2⟩
        · exact ⟨h2, h1⟩
      have hkeyAll : ∀ o ∈ [o1, o2], Above r.st.store L' o := by
        intro o ho'
        simp only [List.mem_cons, List.mem_nil_iff, or_false] at ho'
        rcases hshape with ⟨rfl, rfl⟩ | ⟨rfl, rfl⟩ <;> rcases ho' with rfl | rfl <;> assumption
      cases hget : p.get r.st.tick r.st.cache (tag, [o1, o2]) with
      | some x =>
        exact OrdPost.clone_tickd ho ((ho.cache _ _ (pok.get_mem _ _ _ _ hget)).2 L' hkeyAll)
      | none =>
        cases hl : lmin (r.st.store.level? f) (r.st.store.level? g) with
        | none => exact OrdPost.clone_tickd ho hf
        | some l =>
          simp only
          obtain ⟨hlf, hlg⟩ := lmin_le hl
          -- `l` is the level of one of the operands
          have hlN : l < N ∧ L' ≤ l ∧ (∀ L'', Above r.st.store L'' f → Above r.st.store L'' g → L'' ≤ l) := by
            rcases lmin_eq_some hl with h1 | h1
            · obtain ⟨i, n, _, hi, hn⟩ := level?_some h1
              exact ⟨hn ▸ ho.bound i n hi, above_level? hf h1, fun L'' a _ => above_level? a h1⟩
            · obtain ⟨i, n, _, hi, hn⟩ := level?_some h1
              exact ⟨hn ▸ ho.bound i n hi, above_level? hg h1, fun L'' _ b => above_level? b h1⟩
          refine OrdPost.weaken hlN.2.1 ?_
          refine forkR_ord pok (N := N) (ncap := caps.node) (r := r.tickd) (ext := ext) hlN.1
            (c1 := fun s => applyR L gt tg caps p op fuel s (r.st.store.cofT l f) (r.st.store.cofT l g))
            (c0 := fun s => applyR L gt tg caps p op fuel s (r.st.store.cofE l f) (r.st.store.cofE l g))
            (applyR_rc L gt tg pok caps op fuel _ _ _ _ hrc.tickd (cofT_has hrc _ hf.has) (cofT_has hrc _ hg.has))
            (ih _ _ _ _ _ hrc.tickd ho.tickd (cofT_above hrc ho hf.has hlf) (cofT_above hrc ho hg.has hlg))
            (fun t r1 i1 le1 o1' =>
              ⟨applyR_rc L gt tg pok caps op fuel _ _ _ _ i1 ((cofE_has hrc _ hf.has).mono le1)
                ((cofE_has hrc _ hg.has).mono le1),
               ih _ _ _ _ _ i1 o1' ((cofE_above hrc ho hf.has hlf).mono le1)
                ((cofE_above hrc ho hg.has hlg).mono le1)⟩)
            ?_ ?_
          · intro o ho'
            exact (hkeyAll o ho').has
          · intro L'' hL''
            obtain ⟨a, b⟩ := hkeyA L'' hL''
            exact hlN.2.2 L'' a b

theorem iteR_ord (L : TermOps T) {p : APolicy} (pok : p.OK) (N : Nat) (caps : Caps) (fuel : Nat) :
    ∀ (r : RSt T) (f g h : Edge) (ext : List Edge) (L' : Nat), RcInv r ext → OrdInv N r →
      Above r.st.store L' f → Above r.st.store L' g → Above r.st.store L' h →
      OrdPost N L' (iteR L caps p fuel r f g h) := by
  induction fuel with
  | zero => intro r f g h ext L' _ ho hf _ _; exact OrdPost.clone ho hf
  | succ fuel ih =>
    intro r f g h ext L' hrc ho hf hg hh
    simp only [iteR]
    by_cases hgh : g = h
    · simp only [hgh, if_true]; exact OrdPost.clone ho hh
    · simp only [hgh, if_false]
      cases f with
      | term i =>
        simp only
        cases hti : r.st.store.getTerm? i with
        | none => exact OrdPost.clone ho hf
        | some t =>
          simp only
          split
          · exact OrdPost.clone ho hh
          · exact OrdPost.clone ho hg
      | inner i =>
        simp only
        have hkeyAll : ∀ o ∈ [Edge.inner i, g, h], Above r.st.store L' o := by
          intro o ho'
          simp only [List.mem_cons, List.mem_nil_iff, or_false] at ho'
          rcases ho' with rfl | rfl | rfl <;> assumption
        cases hget : p.get r.st.tick r.st.cache (.ite, [.inner i, g, h]) with
        | some x =>
          exact OrdPost.clone_tickd ho ((ho.cache _ _ (pok.get_mem _ _ _ _ hget)).2 L' hkeyAll)
        | none =>
          simp only
          cases hl : lmin (lmin (r.st.store.level? (.inner i)) (r.st.store.level? g)) (r.st.store.level? h) with
          | none => exact OrdPost.clone_tickd ho hf
          | some l =>
            simp only
            obtain ⟨hlfg, hlh⟩ := lmin_le hl
            have hlf : ∀ x, r.st.store.level? (.inner i) = some x → l ≤ x := by
              intro x hx
              cases hfg : lmin (r.st.store.level? (.inner i)) (r.st.store.level? g) with
              | none => rw [hx] at hfg; cases hg' : r.st.store.level? g <;> rw [hg'] at hfg <;> simp [lmin] at hfg
              | some m =>
                have := (lmin_le hfg).1 x hx
                have := hlfg m hfg
                omega
            have hlg : ∀ x, r.st.store.level? g = some x → l ≤ x := by
              intro x hx
              cases hfg : lmin (r.st.store.level? (.inner i)) (r.st.store.level? g) with
              | none => rw [hx] at hfg; cases hf' : r.st.store.level? (.inner i) <;> rw [hf'] at hfg <;> simp [lmin] at hfg
              | some m =>
                have := (lmin_le hfg).2 x hx
                have := hlfg m hfg
                omega
            have hlN : l < N ∧ L' ≤ l ∧ (∀ L'', Above r.st.store L'' (.inner i) → Above r.st.store L'' g →
                Above r.st.store L'' h → L'' ≤ l) := by
              rcases lmin_eq_some hl with h12 | h3
              · rcases lmin_eq_some h12 with h1 | h1
                · obtain ⟨j, n, _, hj, hn⟩ := level?_some h1
                  exact ⟨hn ▸ ho.bound j n hj, above_level? hf h1, fun L'' a _ _ => above_level? a h1⟩
                · obtain ⟨j, n, _, hj, hn⟩ := level?_some h1
                  exact ⟨hn ▸ ho.bound j n hj, above_level? hg h1, fun L'' _ b _ => above_level? b h1⟩
              · obtain ⟨j, n, _, hj, hn⟩ := level?_some h3
                exact ⟨hn ▸ ho.bound j n hj, above_level? hh h3, fun L'' _ _ c => above_level? c h3⟩
            refine OrdPost.weaken hlN.2.1 ?_
            refine forkR_ord pok (N := N) (ncap := caps.node) (r := r.tickd) (ext := ext) hlN.1
              (c1 := fun s => iteR L caps p fuel s (r.st.store.cofT l (.inner i)) (r.st.store.cofT l g) (r.st.store.cofT l h))
              (c0 := fun s => iteR L caps p fuel s (r.st.store.cofE l (.inner i)) (r.st.store.cofE l g) (r.st.store.cofE l h))
              (iteR_rc L pok caps fuel _ _ _ _ _ hrc.tickd (cofT_has hrc _ hf.has)
                (cofT_has hrc _ hg.has) (cofT_has hrc _ hh.has))
              (ih _ _ _ _ _ _ hrc.tickd ho.tickd (cofT_above hrc ho hf.has hlf)
                (cofT_above hrc ho hg.has hlg) (cofT_above hrc ho hh.has hlh))
              (fun t r1 i1 le1 o1' =>
                ⟨iteR_rc L pok caps fuel _ _ _ _ _ i1 ((cofE_has hrc _ hf.has).mono le1)
                  ((cofE_has hrc _ hg.has).mono le1) ((cofE_has hrc _ hh.has).mono le1),
                 ih _ _ _ _ _ _ i1 o1' ((cofE_above hrc ho hf.has hlf).mono le1)
                  ((cofE_above hrc ho hg.has hlg).mono le1)
                  ((cofE_above hrc ho hh.has hlh).mono le1)⟩)
              ?_ ?_
            · intro o ho'
              exact (hkeyAll o ho').has
            · intro L'' hL''
              exact hlN.2.2 L'' (hL'' _ (by simp)) (hL'' _ (by simp)) (hL'' _ (by simp))

theorem varR_ord (L : TermOps T) {N : Nat} (caps : Caps) (r : RSt T) (level : Nat)
    (ext : List Edge) (hrc : RcInv r ext) (ho : OrdInv N r) (hl : level < N) :
    OrdPost N level (varR L caps r level) := by
  unfold varR
  have h1 := getTerminalR_post (tcap := caps.term) (v := L.one) hrc
  have o1 := getTerminalR_ord (L := level + 1) (tcap := caps.term) (v := L.one) ho
  cases hc1 : getTerminalR caps.term r L.one with
  | mk o1' r1 =>
    rw [hc1] at h1 o1
    cases o1' with
    | none => exact ⟨o1.1, fun x hx => by cases hx⟩
    | some t =>
      obtain ⟨le1, i1⟩ := h1
      simp only at i1 le1 ⊢
      have ht := o1.2 t rfl
      simp only at ht
      have h0 := getTerminalR_post (tcap := caps.term) (v := L.zero) i1
      have o0 := getTerminalR_ord (L := level + 1) (tcap := caps.term) (v := L.zero) o1.1
      cases hc0 : getTerminalR caps.term r1 L.zero with
      | mk o0' r0 =>
        rw [hc0] at h0 o0
        obtain ⟨le0, i0⟩ := h0
        cases o0' with
        | none =>
          simp only
          exact ⟨o0.1.of_st (dropEdge_st r0 t), fun x hx => by cases hx⟩
        | some e =>
          simp only at i0 le0 ⊢
          have he := o0.2 e rfl
          simp only at he
          exact insertR_ord i0.swap o0.1 hl (ht.mono le0) he

/-! ## histories -/

/-- variables are created on existing levels -/
def Cmd.OK (N : Nat) : Cmd T → Prop
  | .var _ level => level < N
  | _ => True

theorem pushRes_ord {N L : Nat} {h : HSt T} {res : Option Edge × RSt T} (ho : OrdPost N L res) :
    OrdInv N (pushRes h res).r := by
  obtain ⟨o, r'⟩ := res
  cases o <;> exact ho.1

theorem gcR_ord {N : Nat} {r : RSt T} (n : Nat) (ho : OrdInv N r) : OrdInv N (gcR n r) := by
  have hsub := gcR_sub n r
  refine ⟨ordered_sub ho.ord hsub, fun i m hi => ho.bound i m (hsub.1 i m hi), ?_⟩
  have : (gcR n r).st.cache = [] :=
    gcR_ind (P := fun r' => r'.st.cache = [])
      (fun l r' i h => by
        rw [gcSlot_eq]
        cases r'.st.store.get? i with
        | none => exact h
        | some m =>
          simp only
          split
          · rw [freeSlot_cache]; exact h
          · exact h)
      (fun r' i h => by
        rw [gcTermSlot_eq]
        cases r'.st.store.getTerm? i with
        | none => exact h
        | some v =>
          simp only
          split
          · exact h
          · exact h) n r rfl
  rw [this]
  intro k v hkv; cases hkv

theorem Cmd.run_ord {E : Env T} (pok : E.p.OK) {N : Nat} (c : Cmd T) (hc : c.OK N) (h : HSt T)
    (hi : RcInv h.r h.hs) (ho : OrdInv N h.r) : OrdInv N (c.run E h).r := by
  cases c with
  | const caps v => exact pushRes_ord (getTerminalR_ord (L := 0) (tcap := caps.term) (v := v) ho)
  | var caps level => exact pushRes_ord (varR_ord E.L caps h.r level h.hs hi ho hc)
  | bin caps fuel op a b =>
    simp only [Cmd.run]
    cases ha : h.hs[a]? with
    | none => exact ho
    | some f =>
      cases hb : h.hs[b]? with
      | none => exact ho
      | some g =>
        exact pushRes_ord (applyR_ord E.L E.gt E.tg pok N caps op fuel h.r f g h.hs 0 hi ho
          (has_above_zero (hi.ext_ok f (List.mem_of_getElem? ha)))
          (has_above_zero (hi.ext_ok g (List.mem_of_getElem? hb))))
  | ite caps fuel a b c =>
    simp only [Cmd.run]
    cases ha : h.hs[a]? with
    | none => exact ho
    | some f =>
      cases hb : h.hs[b]? with
      | none => exact ho
      | some g =>
        cases hc' : h.hs[c]? with
        | none => exact ho
        | some k =>
          exact pushRes_ord (iteR_ord E.L pok N caps fuel h.r f g k h.hs 0 hi ho
            (has_above_zero (hi.ext_ok f (List.mem_of_getElem? ha)))
            (has_above_zero (hi.ext_ok g (List.mem_of_getElem? hb)))
            (has_above_zero (hi.ext_ok k (List.mem_of_getElem? hc'))))
  | clone a =>
    simp only [Cmd.run]
    cases ha : h.hs[a]? with
    | none => exact ho
    | some f => exact ho.of_st (cloneEdge_st _ _)
  | drop a =>
    simp only [Cmd.run]
    cases ha : h.hs[a]? with
    | none => exact ho
    | some f => exact ho.of_st (dropEdge_st _ _)
  | gc n => exact gcR_ord n ho

theorem runAll_ord {E : Env T} (pok : E.p.OK) {N : Nat} : ∀ (cmds : List (Cmd T)) (h : HSt T),
    (∀ c ∈ cmds, c.OK N) → RcInv h.r h.hs → OrdInv N h.r →
    RcInv (runAll E cmds h).r (runAll E cmds h).hs ∧ OrdInv N (runAll E cmds h).r := by
  intro cmds
  induction cmds with
  | nil => intro h _ hi ho; exact ⟨hi, ho⟩
  | cons c cs ih =>
    intro h hok hi ho
    exact ih _ (fun c' hc' => hok c' (List.mem_cons_of_mem _ hc'))
      (Cmd.run_rc pok c h hi) (Cmd.run_ord pok c (hok c List.mem_cons_self) h hi ho)

end OxiddModel.Mtbdd.Rc
