import OxiddModel.Mtbdd.RcSLemmasOrd

/-!
# The semantic invariant along counted, bounded runs — failures included (MTBDD)

`Refine.Inv L ok st` (`ApplyS.lean`) = the store is hash consed (inner nodes **and** the terminal
table), every stored terminal value is admissible, the apply cache is sound. The store-level specs
(`applyS_spec`, `iteS_spec`) show it is kept by every *successful* run (through erasure
`applyR_erase'`/`iteR_erase'`). Here, as in `Tdd/RcSLemmasSem.lean`:

* `getTerminalR_sem`, `constR_sem`, `varR_sem`, `applyR_sem`, `iteR_sem`: **every** run of the
  counted algorithms under any pair of capacities — successful or failing with OutOfMemory of the
  node store or of the terminal store at any allocation point — keeps `Inv`, only extends the
  store, and keeps the store free of redundant nodes (`NoRed`: a failed operation leaves the nodes
  and terminals of the sub-results it completed; they are hash consed, reduced, and their cache
  entries are sound);
* `gcR_inv`: a collection keeps `Inv` and `NoRed` (slots are only emptied, the cache is cleared).
-/
set_option linter.unusedSectionVars false

namespace OxiddModel.Mtbdd.Rc
open OxiddModel.Mtbdd OxiddModel.Mtbdd.Refine OxiddModel.CachePolicy OxiddModel

variable {T : Type} [DecidableEq T]

/-- what every run guarantees for the semantic invariant -/
def SemStep (L : TermOps T) (ok : T → Prop) (r : RSt T) (R : Option Edge × RSt T) : Prop :=
  Refine.Inv L ok R.2.st ∧ r.st.store.Le R.2.st.store ∧
    (r.st.store.NoRed → R.2.st.store.NoRed)

theorem SemStep.trans {L : TermOps T} {ok : T → Prop} {r r1 : RSt T} {o1 : Option Edge}
    {R : Option Edge × RSt T} (h1 : SemStep L ok r (o1, r1)) (h2 : SemStep L ok r1 R) :
    SemStep L ok r R :=
  ⟨h2.1, h1.2.1.trans h2.2.1, fun h => h2.2.2 (h1.2.2 h)⟩

/-- a result with the same `st` component -/
theorem SemStep.of_st {L : TermOps T} {ok : T → Prop} {r : RSt T} {R : Option Edge × RSt T}
    (h : Refine.Inv L ok r.st) (hs : R.2.st = r.st) : SemStep L ok r R := by
  refine ⟨?_, ?_, ?_⟩
  · rw [hs]; exact h
  · rw [hs]; exact Store.Le.refl _
  · rw [hs]; exact id

theorem SemStep.reshape {L : TermOps T} {ok : T → Prop} {r : RSt T} {R R' : Option Edge × RSt T}
    (h : SemStep L ok r R) (hs : R'.2.st = R.2.st) : SemStep L ok r R' := by
  unfold SemStep at h ⊢
  rw [hs]; exact h

/-- a successful run inherits the guarantee of the counter-free run it erases to -/
theorem SemStep.of_erase {L : TermOps T} {ok : T → Prop} {r : RSt T} {R : Option Edge × RSt T}
    {S : St T × Edge} {Tr : MT T} (he : Erases R S) (P : Post L ok r.st.store Tr S) {x : Edge}
    (hx : R.1 = some x) : SemStep L ok r R := by
  have := he x hx
  rw [this] at P
  exact ⟨P.inv, P.le, fun hr => P.nored hr⟩

/-! ## the primitives -/

theorem getTerminalR_none {tcap : Option Nat} {r : RSt T} {v : T}
    (h : (getTerminalR tcap r v).1 = none) : (getTerminalR tcap r v).2 = r := by
  unfold getTerminalR at h ⊢
  split
  · rename_i i hf; rw [hf] at h; cases h
  · rename_i hf
    rw [hf] at h
    split
    · rename_i hc; simp only [hc, if_true] at h; cases h
    · rfl

theorem nored_of_nodes {s s' : Store T} (h : s'.nodes = s.nodes) (hr : s.NoRed) : s'.NoRed := by
  intro i n hi
  apply hr i n
  unfold Store.get? at hi ⊢
  rw [← h]; exact hi

/-- `get_terminal` of an admissible value: hit, allocation or OutOfMemory -/
theorem getTerminalR_sem {L : TermOps T} {ok : T → Prop} (tcap : Option Nat) (r : RSt T) (v : T)
    (hv : ok v) (hinv : Refine.Inv L ok r.st) :
    SemStep L ok r (getTerminalR tcap r v) ∧
    ∀ x, (getTerminalR tcap r v).1 = some x → Denotes (getTerminalR tcap r v).2.st.store x (.leaf v) := by
  cases hres : (getTerminalR tcap r v).1 with
  | none =>
    refine ⟨SemStep.of_st hinv (by rw [getTerminalR_none hres]), fun x hx => by cases hx⟩
  | some x =>
    obtain ⟨e1, e2, _⟩ := getTerminalR_erase tcap r v x hres
    have hs : (getTerminalR tcap r v).2.st.store = (r.st.store.getTerminal v).1 := by rw [e1]
    have hx : x = (r.st.store.getTerminal v).2 := by rw [e1]
    refine ⟨⟨⟨?_, ?_, ?_⟩, getTerminalR_le tcap r v, ?_⟩, fun y hy => ?_⟩
    · rw [hs]; exact getTerminal_unique _ _ hinv.1
    · rw [hs]; exact getTerminal_termsOK _ _ hinv.2.1 hv
    · rw [e2]; exact hinv.2.2.mono (getTerminalR_le tcap r v)
    · exact nored_of_nodes (getTerminalR_cache tcap r v).2.2
    · cases hy
      rw [hs, hx]; exact getTerminal_denotes _ _

theorem constR_sem {L : TermOps T} {ok : T → Prop} (caps : Caps) (r : RSt T) (v : T)
    (hv : ok v) (hinv : Refine.Inv L ok r.st) :
    SemStep L ok r (constR caps r v) ∧
    ∀ x, (constR caps r v).1 = some x → Denotes (constR caps r v).2.st.store x (.leaf v) :=
  getTerminalR_sem caps.term r v hv hinv

theorem insertR_none_st {ncap : Option Nat} {r : RSt T} {l : Nat} {t e : Edge}
    (h : (insertR ncap r l t e).1 = none) : (insertR ncap r l t e).2.st = r.st := by
  unfold insertR at h ⊢
  split
  · rename_i i hf; rw [hf] at h; cases h
  · rename_i hf
    rw [hf] at h
    split
    · rename_i hc; simp only [hc, if_true] at h; cases h
    · simp

theorem mkNodeR_none_st {ncap : Option Nat} {r : RSt T} {l : Nat} {t e : Edge}
    (h : (mkNodeR ncap r l t e).1 = none) : (mkNodeR ncap r l t e).2.st = r.st := by
  unfold mkNodeR at h ⊢
  split
  · rename_i hte; simp only [hte, if_true] at h; cases h
  · rename_i hte
    simp only [hte, if_false] at h
    exact insertR_none_st h

theorem finishR_none_st {ncap : Option Nat} {p : APolicy} {r : RSt T} {key : Key} {l : Nat}
    {t e : Edge} (h : (finishR ncap p r key l t e).1 = none) :
    (finishR ncap p r key l t e).2.st = r.st := by
  unfold finishR at h ⊢
  cases hR : mkNodeR ncap r l t e with
  | mk o r' =>
    rw [hR] at h
    cases o with
    | some x => cases h
    | none =>
      simp only
      have := mkNodeR_none_st (ncap := ncap) (r := r) (l := l) (t := t) (e := e) (by rw [hR])
      rw [hR] at this
      exact this

/-- a failing two-way expansion keeps the invariant, whichever of the three steps fails -/
theorem forkR_sem {L : TermOps T} {ok : T → Prop} {ncap : Option Nat} {p : APolicy} {key : Key}
    {l : Nat} {c1 c0 : RSt T → Option Edge × RSt T} {r : RSt T}
    (h1 : SemStep L ok r (c1 r))
    (h0 : ∀ r1, Refine.Inv L ok r1.st → r.st.store.Le r1.st.store → SemStep L ok r1 (c0 r1))
    (hfail : (forkR ncap p key l c1 c0 r).1 = none) :
    SemStep L ok r (forkR ncap p key l c1 c0 r) := by
  unfold forkR at hfail ⊢
  cases hc1 : c1 r with
  | mk o1 r1 =>
    rw [hc1] at h1 hfail
    cases o1 with
    | none => exact h1
    | some t =>
      simp only at hfail ⊢
      have h0' := h0 r1 h1.1 h1.2.1
      cases hc0 : c0 r1 with
      | mk o0 r0 =>
        rw [hc0] at h0' hfail
        cases o0 with
        | none =>
          simp only
          exact (h1.trans h0').reshape (by simp only [dropEdge_st])
        | some e =>
          simp only at hfail ⊢
          exact (h1.trans h0').reshape (finishR_none_st hfail)

/-! ## every run keeps the invariant -/

theorem applyR_sem {L : TermOps T} {ok : T → Prop} (C : TerminalClosed L ok)
    (M : TerminalComm L ok) (gt : Edge → Edge → Bool) {p : APolicy} (pok : p.OK) (caps : Caps)
    (op : Op) (fuel : Nat) : ∀ (r : RSt T) (f g : Edge) (a b : MT T),
      Refine.Inv L ok r.st → Denotes r.st.store f a → Denotes r.st.store g b →
      a.size + b.size ≤ fuel → SemStep L ok r (applyR L gt tagOf caps p op fuel r f g) := by
  induction fuel with
  | zero => intro r f g a b _ _ _ hsz; have := MT.size_pos a; omega
  | succ fuel ih =>
    intro r f g a b hinv hf hg hsz
    cases hres : (applyR L gt tagOf caps p op (fuel + 1) r f g).1 with
    | some x =>
      exact SemStep.of_erase (applyR_erase' L gt tagOf caps p op (fuel + 1) r f g)
        (applyS_spec C M gt pok op (fuel + 1) r.st f g a b hinv hf hg hsz) hres
    | none =>
      simp only [applyR] at hres ⊢
      cases hP : terminalBinP L gt tagOf op r.st.store f g with
      | clone h => rw [hP] at hres; simp at hres
      | term v =>
        rw [hP] at hres
        simp only at hres ⊢
        exact SemStep.of_st hinv (by rw [getTerminalR_none hres])
      | binary tag o1 o2 =>
        rw [hP] at hres
        simp only at hres ⊢
        cases hget : p.get r.st.tick r.st.cache (tag, [o1, o2]) with
        | some h => rw [hget] at hres; simp at hres
        | none =>
          rw [hget] at hres
          simp only at hres ⊢
          cases hl : lmin (r.st.store.level? f) (r.st.store.level? g) with
          | none => rw [hl] at hres; simp at hres
          | some l =>
            rw [hl] at hres
            simp only at hres ⊢
            have hl' : lmin (tlevel a) (tlevel b) = some l := by
              rw [← level?_denotes hf, ← level?_denotes hg]; exact hl
            have sz : (tcofT l a).size + (tcofT l b).size ≤ fuel ∧
                (tcofE l a).size + (tcofE l b).size ≤ fuel := by
              have := tcofT_size_le l a; have := tcofT_size_le l b
              have := tcofE_size_le l a; have := tcofE_size_le l b
              rcases lmin_eq_some hl' with h | h
              · have := tcofT_size_lt h; have := tcofE_size_lt h; omega
              · have := tcofT_size_lt h; have := tcofE_size_lt h; omega
            exact forkR_sem (L := L) (ok := ok)
              (ih _ _ _ _ _ hinv.tickd (cofT_denotes l hf) (cofT_denotes l hg) sz.1)
              (fun r1 i1 le1 => ih _ _ _ _ _ i1 ((cofE_denotes l hf).mono le1)
                ((cofE_denotes l hg).mono le1) sz.2) hres

theorem iteR_sem {L : TermOps T} {ok : T → Prop} {p : APolicy} (pok : p.OK) (caps : Caps)
    (fuel : Nat) : ∀ (r : RSt T) (f g h : Edge) (a b c : MT T),
      Refine.Inv L ok r.st → Denotes r.st.store f a → Denotes r.st.store g b →
      Denotes r.st.store h c → a.size + b.size + c.size ≤ fuel →
      SemStep L ok r (iteR L caps p fuel r f g h) := by
  induction fuel with
  | zero => intro r f g h a b c _ _ _ _ hsz; have := MT.size_pos a; omega
  | succ fuel ih =>
    intro r f g h a b c hinv hf hg hh hsz
    cases hres : (iteR L caps p (fuel + 1) r f g h).1 with
    | some x =>
      exact SemStep.of_erase (iteR_erase' L caps p (fuel + 1) r f g h)
        (iteS_spec pok (fuel + 1) r.st f g h a b c hinv hf hg hh hsz) hres
    | none =>
      simp only [iteR] at hres ⊢
      by_cases hgh : g = h
      · simp [hgh] at hres
      · simp only [hgh, if_false] at hres ⊢
        cases hf with
        | @term i x hi => simp [hi] at hres
        | @inner i lf t e tt te hi hft hfe =>
          have hdf : Denotes r.st.store (.inner i) (.node lf tt te) := .inner hi hft hfe
          simp only at hres ⊢
          cases hget : p.get r.st.tick r.st.cache (.ite, [.inner i, g, h]) with
          | some y => rw [hget] at hres; simp at hres
          | none =>
            rw [hget] at hres
            simp only at hres ⊢
            cases hl : lmin (lmin (r.st.store.level? (.inner i)) (r.st.store.level? g))
                (r.st.store.level? h) with
            | none => rw [hl] at hres; simp at hres
            | some l =>
              rw [hl] at hres
              simp only at hres ⊢
              have hl' : lmin (lmin (tlevel (MT.node lf tt te)) (tlevel b)) (tlevel c) = some l := by
                rw [← level?_denotes hdf, ← level?_denotes hg, ← level?_denotes hh]; exact hl
              have ha1 := tcofT_size_le l (MT.node lf tt te)
              have hb1 := tcofT_size_le l b
              have hc1 := tcofT_size_le l c
              have ha0 := tcofE_size_le l (MT.node lf tt te)
              have hb0 := tcofE_size_le l b
              have hc0 := tcofE_size_le l c
              have sz : (tcofT l (MT.node lf tt te)).size + (tcofT l b).size + (tcofT l c).size ≤ fuel ∧
                  (tcofE l (MT.node lf tt te)).size + (tcofE l b).size + (tcofE l c).size ≤ fuel := by
                rcases lmin_eq_some hl' with h12 | h3
                · rcases lmin_eq_some h12 with h1 | h2
                  · have := tcofT_size_lt h1; have := tcofE_size_lt h1; omega
                  · have := tcofT_size_lt h2; have := tcofE_size_lt h2; omega
                · have := tcofT_size_lt h3; have := tcofE_size_lt h3; omega
              exact forkR_sem (L := L) (ok := ok)
                (ih _ _ _ _ _ _ _ hinv.tickd (cofT_denotes l hdf) (cofT_denotes l hg)
                  (cofT_denotes l hh) sz.1)
                (fun r1 i1 le1 => ih _ _ _ _ _ _ _ i1 ((cofE_denotes l hdf).mono le1)
                  ((cofE_denotes l hg).mono le1) ((cofE_denotes l hh).mono le1) sz.2) hres

/-- `var_edge`: whichever of the three steps fails -/
theorem varR_sem {L : TermOps T} {ok : T → Prop} (hne : L.zero ≠ L.one)
    (C : TerminalClosed L ok) (caps : Caps) (r : RSt T) (level : Nat)
    (hinv : Refine.Inv L ok r.st) : SemStep L ok r (varR L caps r level) := by
  cases hres : (varR L caps r level).1 with
  | some x =>
    obtain ⟨e1, e2, _⟩ := varR_erase' L caps r level x hres
    have hs : (varR L caps r level).2.st.store = (intern r.st.store (Mtbdd.var L level)).1 := by
      rw [← varS_eq_intern hne _ hinv.1, e1]
    have hle : r.st.store.Le (varR L caps r level).2.st.store := by rw [hs]; exact intern_le _ _
    refine ⟨⟨?_, ?_, ?_⟩, hle, ?_⟩
    · rw [hs]; exact intern_unique _ _ hinv.1
    · rw [hs]; exact intern_termsOK _ _ hinv.2.1 ⟨C.ok_one, C.ok_zero⟩
    · rw [e2]; exact hinv.2.2.mono hle
    · intro hr; rw [hs]; exact intern_nored _ _ hr
  | none =>
    unfold varR at hres ⊢
    have h1 := (getTerminalR_sem (L := L) caps.term r L.one C.ok_one hinv).1
    cases hc1 : getTerminalR caps.term r L.one with
    | mk o1 r1 =>
      rw [hc1] at h1 hres
      cases o1 with
      | none => exact h1
      | some t =>
        simp only at hres ⊢
        have h0 := (getTerminalR_sem (L := L) caps.term r1 L.zero C.ok_zero h1.1).1
        cases hc0 : getTerminalR caps.term r1 L.zero with
        | mk o0 r0 =>
          rw [hc0] at h0 hres
          cases o0 with
          | none =>
            simp only
            exact (h1.trans h0).reshape (by simp only [dropEdge_st])
          | some e =>
            simp only at hres ⊢
            exact (h1.trans h0).reshape (insertR_none_st hres)

/-! ## collection -/

theorem unique_sub {s s' : Store T} (hs : Sub s' s) (hu : s.Unique) : s'.Unique :=
  ⟨fun i j x hi hj => hu.1 i j x (hs.1 i x hi) (hs.1 j x hj),
   fun i j x hi hj => hu.2 i j x (hs.2 i x hi) (hs.2 j x hj)⟩

theorem nored_sub {s s' : Store T} (hs : Sub s' s) (hr : s.NoRed) : s'.NoRed :=
  fun i n hi => hr i n (hs.1 i n hi)

theorem termsOK_sub {ok : T → Prop} {s s' : Store T} (hs : Sub s' s) (h : s.TermsOK ok) :
    s'.TermsOK ok := fun i v hi => h i v (hs.2 i v hi)

/-- `Manager::gc` keeps the store hash consed and the terminals admissible; the cleared cache is
trivially sound -/
theorem gcR_inv {L : TermOps T} {ok : T → Prop} (N : Nat) (r : RSt T) (ext : List Edge)
    (hrc : RcInv r ext) (hinv : Refine.Inv L ok r.st) : Refine.Inv L ok (gcR N r).st := by
  refine ⟨unique_sub (gcR_sub N r) hinv.1, termsOK_sub (gcR_sub N r) hinv.2.1, ?_⟩
  rw [(gcR_rc N hrc).2]
  exact CacheOK.nil _ _

end OxiddModel.Mtbdd.Rc
