import OxiddModel.Mtbdd.Lemmas
import OxiddModel.Util.Slots
import OxiddModel.Util.CachePolicy

/-!
# MTBDD store level: hash-consed inner nodes *and* hash-consed terminals, memoised `apply_bin`

This is the store level below the tree model of `Model.lean`, the counterpart of
`OxiddModel/Bdd/StoreRefine.lean` + `CacheS.lean` + `ApplyS.lean` for MTBDDs:

* a manager is a table of inner-node slots `(level, t, e)` and a **terminal table** of value slots
  (`DynamicTerminalManager`, `crates/oxidd-manager-index/src/terminal_manager/dynamic.rs`: terminal
  values are hash consed too — `get_edge` looks the value up and allocates on a miss);
* an edge is `inner id` or `term id`; `Denotes s e t` relates an edge to the tree it unfolds to;
* `Store.getTerminal v` = `Manager::get_terminal` (lookup-or-allocate in the terminal table),
  `Store.mkNode` = `reduce` of `crates/oxidd-rules-mtbdd/src/lib.rs` (`t == e` ⇒ `t`, else
  `get_or_insert`);
* `terminalBinS` = `terminal_bin::<OP>` on edges, arm for arm, threading the store (its
  `Done(get_terminal(..))` arms allocate), returning `Binary(tag, op1, op2)` with the operands
  swapped when `f > g` for `Add/Mul/Min/Max`. The tag is taken from a parameter `tg : Op → OpTag`;
  the code's assignment is `tagOf` (each operator its own tag); the historical defect "`Max`
  memoised under `Min`" is `tagMaxAsMin` (`PropertiesS.lean` has the witness);
* `applyS` = `apply_bin::<OP>` of `apply_rec.rs`: `terminal_bin` first, cache lookup under the key
  `(tag, [op1, op2])` *it* returned, cofactors by level comparison, two recursive calls
  (then-branch first), `reduce`, cache add under the same key. Recursion by fuel.

The edge order `f > g` is a parameter `gt` (index comparison in the index manager: `Edge.gtIdx`;
address comparison in the pointer manager): every theorem holds for every `gt`.

Out of memory (`get_edge` returns `Err(OutOfMemory)` when the terminal store is full) is not
modelled here: the tables are unbounded.
-/
set_option linter.unusedSectionVars false

namespace OxiddModel.Mtbdd.Refine
open OxiddModel.Mtbdd OxiddModel.Mtbdd.MT OxiddModel.CachePolicy

/-! ## store level -/

inductive Edge where
  | term : Nat → Edge
  | inner : Nat → Edge
deriving DecidableEq, Repr, Inhabited

structure Node where
  level : Nat
  t : Edge
  e : Edge
deriving DecidableEq, Repr

/-- inner-node slots and terminal-value slots -/
structure Store (T : Type) where
  nodes : Array (Option Node)
  terms : Array (Option T)
deriving Repr

variable {T : Type}

def Store.empty : Store T := ⟨#[], #[]⟩

def Store.get? (s : Store T) (i : Nat) : Option Node := Slots.get? s.nodes i
def Store.getTerm? (s : Store T) (i : Nat) : Option T := Slots.get? s.terms i

/-- the tree an edge unfolds to -/
inductive Denotes (s : Store T) : Edge → MT T → Prop
  | term : s.getTerm? i = some v → Denotes s (.term i) (.leaf v)
  | inner : s.get? i = some ⟨l, t, e⟩ → Denotes s t tt → Denotes s e te →
      Denotes s (.inner i) (.node l tt te)

theorem Denotes.functional {s : Store T} {x : Edge} {a b : MT T}
    (ha : Denotes s x a) (hb : Denotes s x b) : a = b := by
  induction ha generalizing b with
  | term hi => cases hb with | term hi' => rw [hi] at hi'; cases hi'; rfl
  | inner hi _ _ iht ihe =>
    cases hb with
    | inner hi' ht' he' =>
      rw [hi] at hi'; cases hi'
      rw [iht ht', ihe he']

/-- store extension: every occupied slot (node or terminal) keeps its content -/
def Store.Le (s s' : Store T) : Prop := Slots.Le s.nodes s'.nodes ∧ Slots.Le s.terms s'.terms

theorem Store.Le.refl (s : Store T) : s.Le s := ⟨Slots.Le.refl _, Slots.Le.refl _⟩
theorem Store.Le.trans {a b c : Store T} (h1 : a.Le b) (h2 : b.Le c) : a.Le c :=
  ⟨h1.1.trans h2.1, h1.2.trans h2.2⟩

theorem Denotes.mono {s s' : Store T} (h : s.Le s') {x : Edge} {a : MT T}
    (ha : Denotes s x a) : Denotes s' x a := by
  induction ha with
  | term hi => exact .term (h.2 _ _ hi)
  | inner hi _ _ iht ihe => exact .inner (h.1 _ _ hi) iht ihe

/-- hash consing: no two node slots hold the same node, no two terminal slots the same value -/
def Store.Unique (s : Store T) : Prop := Slots.Unique s.nodes ∧ Slots.Unique s.terms

theorem Store.empty_unique : (Store.empty : Store T).Unique :=
  ⟨Slots.unique_empty, Slots.unique_empty⟩

/-- denotation is injective: the hash-consing invariant at the semantic level -/
def Store.Inj (s : Store T) : Prop := ∀ x y a, Denotes s x a → Denotes s y a → x = y

theorem inj_of_unique {s : Store T} (hu : s.Unique) : s.Inj := by
  intro x y a hx hy
  induction hx generalizing y with
  | term hi => cases hy with | term hj => rw [hu.2 _ _ _ hi hj]
  | @inner i l t e tt te hi _ _ iht ihe =>
    cases hy with
    | @inner j _ t' e' _ _ hj ht' he' =>
      have h1 := iht _ ht'
      have h2 := ihe _ he'
      subst h1 h2
      rw [hu.1 i j _ hi hj]

/-- no stored node has two identical children (the reduction rule, as a store invariant) -/
def Store.NoRed (s : Store T) : Prop := ∀ i n, s.get? i = some n → n.t ≠ n.e

theorem Store.empty_nored : (Store.empty : Store T).NoRed := by
  intro i n hi; simp [Store.get?, Store.empty, Slots.get?] at hi

/-- every stored terminal value is admissible (`ok` = "the payload of `Num` is an `i64`", "the
bit pattern is normalised", or `fun _ => True`) -/
def Store.TermsOK (ok : T → Prop) (s : Store T) : Prop := ∀ i v, s.getTerm? i = some v → ok v

theorem Denotes.all {ok : T → Prop} {s : Store T} (h : s.TermsOK ok) {x : Edge} {a : MT T}
    (ha : Denotes s x a) : a.All ok := by
  induction ha with
  | term hi => exact h _ _ hi
  | inner _ _ _ iht ihe => exact ⟨iht, ihe⟩

variable [DecidableEq T]

/-! ## `get_terminal` and `reduce` -/

/-- `Manager::get_terminal` → `DynamicTerminalManager::get_edge`: look the value up in the
terminal unique table, allocate a slot on a miss -/
def Store.getTerminal (s : Store T) (v : T) : Store T × Edge :=
  let r := Slots.intern s.terms v
  (⟨s.nodes, r.1⟩, .term r.2)

/-- `reduce` (`lib.rs`): `if t == e { return t }`, else `get_or_insert` -/
def Store.mkNode (s : Store T) (level : Nat) (t e : Edge) : Store T × Edge :=
  if t = e then (s, t) else
  let r := Slots.intern s.nodes ⟨level, t, e⟩
  (⟨r.1, s.terms⟩, .inner r.2)

theorem getTerminal_le (s : Store T) (v : T) : s.Le (s.getTerminal v).1 :=
  ⟨Slots.Le.refl _, Slots.intern_le _ _⟩

theorem getTerminal_unique (s : Store T) (v : T) (hu : s.Unique) : (s.getTerminal v).1.Unique :=
  ⟨hu.1, Slots.intern_unique _ _ hu.2⟩

theorem getTerminal_denotes (s : Store T) (v : T) :
    Denotes (s.getTerminal v).1 (s.getTerminal v).2 (.leaf v) :=
  .term (Slots.intern_get _ _)

theorem getTerminal_nored (s : Store T) (v : T) (hr : s.NoRed) : (s.getTerminal v).1.NoRed := hr

theorem getTerminal_termsOK {ok : T → Prop} (s : Store T) (v : T) (h : s.TermsOK ok) (hv : ok v) :
    (s.getTerminal v).1.TermsOK ok := by
  intro i w hi
  rcases Slots.intern_get_inv _ _ _ _ hi with h' | h'
  · exact h i w h'
  · exact h' ▸ hv

/-- a value that is already stored is found again: same store, same edge -/
theorem getTerminal_of_get {s : Store T} (hu : s.Unique) {i : Nat} {v : T}
    (h : s.getTerm? i = some v) : s.getTerminal v = (s, .term i) := by
  simp only [Store.getTerminal, Slots.intern_of_get hu.2 h]

theorem mkNode_le (s : Store T) (l : Nat) (t e : Edge) : s.Le (s.mkNode l t e).1 := by
  unfold Store.mkNode
  split
  · exact Store.Le.refl _
  · exact ⟨Slots.intern_le _ _, Slots.Le.refl _⟩

theorem mkNode_unique (s : Store T) (l : Nat) (t e : Edge) (hu : s.Unique) :
    (s.mkNode l t e).1.Unique := by
  unfold Store.mkNode
  split
  · exact hu
  · exact ⟨Slots.intern_unique _ _ hu.1, hu.2⟩

theorem mkNode_termsOK {ok : T → Prop} (s : Store T) (l : Nat) (t e : Edge) (h : s.TermsOK ok) :
    (s.mkNode l t e).1.TermsOK ok := by
  unfold Store.mkNode
  split
  · exact h
  · exact h

theorem mkNode_nored (s : Store T) (l : Nat) (t e : Edge) (hr : s.NoRed) :
    (s.mkNode l t e).1.NoRed := by
  unfold Store.mkNode
  split
  · exact hr
  · rename_i hte
    intro i n hi
    rcases Slots.intern_get_inv _ _ _ _ hi with h' | h'
    · exact hr i n h'
    · subst h'; exact hte

/-- `mkNode` refines `mk` -/
theorem mkNode_denotes (s : Store T) (l : Nat) (t e : Edge) (tt te : MT T)
    (ht : Denotes s t tt) (he : Denotes s e te) (inj : s.Inj) :
    Denotes (s.mkNode l t e).1 (s.mkNode l t e).2 (mk l tt te) := by
  have hle := mkNode_le s l t e
  unfold Store.mkNode at *
  unfold mk
  by_cases hte : t = e
  · subst hte
    have := Denotes.functional ht he
    simp [this]; exact he
  · have hne : tt ≠ te := fun h => hte (inj _ _ _ ht (h ▸ he))
    simp only [hte, hne, if_false] at *
    exact .inner (Slots.intern_get _ _) (ht.mono hle) (he.mono hle)

/-! ## canonical interning -/

/-- enter a tree into the store bottom-up, then-child first (the order in which `apply_bin`
creates terminals and nodes) -/
def intern (s : Store T) : MT T → Store T × Edge
  | .leaf v => s.getTerminal v
  | .node l t e =>
    let r1 := intern s t
    let r0 := intern r1.1 e
    r0.1.mkNode l r1.2 r0.2

theorem intern_le (s : Store T) (a : MT T) : s.Le (intern s a).1 := by
  induction a generalizing s with
  | leaf v => exact getTerminal_le _ _
  | node l t e iht ihe =>
    simp only [intern]
    exact (iht s).trans ((ihe _).trans (mkNode_le _ _ _ _))

theorem intern_unique (s : Store T) (a : MT T) (hu : s.Unique) : (intern s a).1.Unique := by
  induction a generalizing s with
  | leaf v => exact getTerminal_unique _ _ hu
  | node l t e iht ihe =>
    simp only [intern]
    exact mkNode_unique _ _ _ _ (ihe _ (iht s hu))

theorem intern_nored (s : Store T) (a : MT T) (hr : s.NoRed) : (intern s a).1.NoRed := by
  induction a generalizing s with
  | leaf v => exact hr
  | node l t e iht ihe =>
    simp only [intern]
    exact mkNode_nored _ _ _ _ (ihe _ (iht s hr))

/-- a tree that is already present is found again: nothing is allocated and the very same edge is
returned -/
theorem intern_of_denotes {s : Store T} (hu : s.Unique) (hr : s.NoRed) {x : Edge} {a : MT T}
    (h : Denotes s x a) : intern s a = (s, x) := by
  induction h with
  | term hi => exact getTerminal_of_get hu hi
  | @inner i l t e tt te hi _ _ iht ihe =>
    simp only [intern, iht, ihe]
    have hte : t ≠ e := hr i _ hi
    unfold Store.mkNode
    simp only [hte, if_false]
    rw [Slots.intern_of_get hu.1 hi]

/-- interning a reduced tree yields an edge denoting it -/
theorem intern_denotes (s : Store T) (a : MT T) (hu : s.Unique) (ha : Reduced a) :
    Denotes (intern s a).1 (intern s a).2 a := by
  induction a generalizing s with
  | leaf v => exact getTerminal_denotes _ _
  | node l t e iht ihe =>
    simp only [intern]
    have h1 := iht s hu ha.2.1
    have u1 := intern_unique s t hu
    have h0 := ihe _ u1 ha.2.2
    have u0 := intern_unique _ e u1
    have := mkNode_denotes _ l _ _ _ _ (h1.mono (intern_le _ e)) h0 (inj_of_unique u0)
    simpa [mk, ha.1] using this

theorem intern_termsOK {ok : T → Prop} (s : Store T) (a : MT T) (h : s.TermsOK ok)
    (ha : a.All ok) : (intern s a).1.TermsOK ok := by
  induction a generalizing s with
  | leaf v => exact getTerminal_termsOK _ _ h ha
  | node l t e iht ihe =>
    simp only [intern]
    exact mkNode_termsOK _ _ _ _ (ihe _ (iht s h ha.1) ha.2)

/-! ## reading nodes -/

/-- `get_node(e)` for the terminal case: the value of a terminal edge -/
def Store.termVal? (s : Store T) : Edge → Option T
  | .term i => s.getTerm? i
  | .inner _ => none

/-- `matches!(get_node(e), Terminal(t) if p(t))` -/
def Store.termIs (s : Store T) (p : T → Bool) (e : Edge) : Bool :=
  match s.termVal? e with
  | some v => p v
  | none => false

/-- level of the node an edge points to (`none` = `LevelNo::MAX` for terminals) -/
def Store.level? (s : Store T) : Edge → Option Nat
  | .term _ => none
  | .inner i => (s.get? i).map (·.level)

/-- `min` on levels where `none` is `LevelNo::MAX` -/
def lmin : Option Nat → Option Nat → Option Nat
  | none, b => b
  | a, none => a
  | some a, some b => some (min a b)

/-- then-cofactor for the expansion at level `l`: the then-child if the node is at level `l`,
the edge itself otherwise -/
def Store.cofT (s : Store T) (l : Nat) : Edge → Edge
  | .term i => .term i
  | .inner i =>
    match s.get? i with
    | some n => if n.level = l then n.t else .inner i
    | none => .inner i

/-- else-cofactor for the expansion at level `l` -/
def Store.cofE (s : Store T) (l : Nat) : Edge → Edge
  | .term i => .term i
  | .inner i =>
    match s.get? i with
    | some n => if n.level = l then n.e else .inner i
    | none => .inner i

/-- executable unfolding of an edge (fuel = depth bound), sound for `Denotes` -/
def Store.unfold (s : Store T) : Nat → Edge → Option (MT T)
  | _, .term i => (s.getTerm? i).map .leaf
  | 0, .inner _ => none
  | n+1, .inner i =>
    match s.get? i with
    | none => none
    | some nd =>
      match s.unfold n nd.t, s.unfold n nd.e with
      | some a, some b => some (.node nd.level a b)
      | _, _ => none

theorem unfold_sound {s : Store T} : ∀ (n : Nat) (e : Edge) (t : MT T),
    s.unfold n e = some t → Denotes s e t := by
  intro n
  induction n with
  | zero =>
    intro e t h
    cases e with
    | term i =>
      simp only [Store.unfold, Option.map_eq_some_iff] at h
      obtain ⟨v, hv, rfl⟩ := h; exact .term hv
    | inner i => simp [Store.unfold] at h
  | succ n ih =>
    intro e t h
    cases e with
    | term i =>
      simp only [Store.unfold, Option.map_eq_some_iff] at h
      obtain ⟨v, hv, rfl⟩ := h; exact .term hv
    | inner i =>
      simp only [Store.unfold] at h
      split at h
      · cases h
      · rename_i nd hnd
        split at h
        · rename_i a b ha hb
          cases h
          obtain ⟨l, t', e'⟩ := nd
          exact .inner hnd (ih _ _ ha) (ih _ _ hb)
        · cases h

/-! ## operator tags, keys -/

/-- `MTBDDOp`: the values used as apply-cache operators -/
inductive OpTag where
  | add | sub | mul | div | min | max | ite | restrict
deriving DecidableEq, Repr, Inhabited

/-- the tag each `terminal_bin::<OP>` block puts into `Operation::Binary` in the current source:
its own -/
def tagOf : Op → OpTag
  | .add => .add
  | .sub => .sub
  | .mul => .mul
  | .div => .div
  | .min => .min
  | .max => .max

theorem tagOf_inj {a b : Op} (h : tagOf a = tagOf b) : a = b := by
  cases a <;> cases b <;> first | rfl | cases h

/-- the historical defect: the `Max` block returned `Binary(MTBDDOp::Min, ..)` -/
def tagMaxAsMin : Op → OpTag
  | .max => .min
  | op => tagOf op

/-- the operators for which `terminal_bin` normalises the operand order -/
def Op.comm : Op → Bool
  | .add | .mul | .min | .max => true
  | .sub | .div => false

abbrev Key := OpTag × List Edge
abbrev ACache := Cache Key Edge
abbrev APolicy := Policy Key Edge

/-- the order `f > g` of the index-based manager: by id, terminals below inner nodes -/
def Edge.gtIdx : Edge → Edge → Bool
  | .inner i, .inner j => decide (j < i)
  | .inner _, .term _ => true
  | .term _, .inner _ => false
  | .term i, .term j => decide (j < i)

/-! ## `terminal_bin` on edges -/

/-- `enum Operation { Binary(op, f, g), Done(edge) }` -/
inductive OperationS where
  | done : Edge → OperationS
  | binary : OpTag → Edge → Edge → OperationS
deriving Repr, DecidableEq

/-- `Done(m.get_terminal(v)?)` -/
def doneT (s : Store T) (v : T) : Store T × OperationS :=
  let r := s.getTerminal v
  (r.1, .done r.2)

/-- `_ if f > g => Binary(tag, g, f), _ => Binary(tag, f, g)` -/
def normKey (gt : Edge → Edge → Bool) (tag : OpTag) (f g : Edge) : OperationS :=
  if gt f g then .binary tag g f else .binary tag f g

/-- `terminal_bin::<OP>` (`lib.rs`) on edges, the same arms in the same order. `tg` is the tag
written in the `Binary(..)` of each block. -/
def terminalBinS (L : TermOps T) (gt : Edge → Edge → Bool) (tg : Op → OpTag) (op : Op)
    (s : Store T) (f g : Edge) : Store T × OperationS :=
  match op with
  | .add =>
    match s.termVal? f, s.termVal? g with
    | some tf, some tg' => doneT s (L.add tf tg')
    | _, _ =>
      if s.termIs (· = L.zero) f then (s, .done g)
      else if s.termIs (· = L.zero) g then (s, .done f)
      else if s.termIs (· = L.nan) f || s.termIs (· = L.nan) g then doneT s L.nan
      else (s, normKey gt (tg .add) f g)
  | .sub =>
    match s.termVal? f, s.termVal? g with
    | some tf, some tg' => doneT s (L.sub tf tg')
    | _, _ =>
      if s.termIs (· = L.zero) g then (s, .done f)
      else if s.termIs (· = L.nan) f || s.termIs (· = L.nan) g then doneT s L.nan
      else (s, .binary (tg .sub) f g)
  | .mul =>
    match s.termVal? f, s.termVal? g with
    | some tf, some tg' => doneT s (L.mul tf tg')
    | _, _ =>
      if s.termIs (· = L.one) f then (s, .done g)
      else if s.termIs (· = L.one) g then (s, .done f)
      else if s.termIs (· = L.nan) f || s.termIs (· = L.nan) g then doneT s L.nan
      else (s, normKey gt (tg .mul) f g)
  | .div =>
    match s.termVal? f, s.termVal? g with
    | some tf, some tg' => doneT s (L.div tf tg')
    | _, _ =>
      if s.termIs (· = L.one) g then (s, .done f)
      else if s.termIs (· = L.nan) f || s.termIs (· = L.nan) g then doneT s L.nan
      else (s, .binary (tg .div) f g)
  | .min =>
    if f = g then (s, .done f) else
    match s.termVal? f, s.termVal? g with
    | some tf, some tg' =>
      match L.pcmp tf tg' with
      | some .lt | some .eq => (s, .done f)
      | some .gt => (s, .done g)
      | none => doneT s L.nan
    | _, _ =>
      if s.termIs (· = L.nan) f || s.termIs (· = L.nan) g then doneT s L.nan
      else (s, normKey gt (tg .min) f g)
  | .max =>
    if f = g then (s, .done f) else
    match s.termVal? f, s.termVal? g with
    | some tf, some tg' =>
      match L.pcmp tf tg' with
      | some .gt | some .eq => (s, .done f)
      | some .lt => (s, .done g)
      | none => doneT s L.nan
    | _, _ =>
      if s.termIs (· = L.nan) f || s.termIs (· = L.nan) g then doneT s L.nan
      else (s, normKey gt (tg .max) f g)

/-! ## `apply_bin` -/

structure St (T : Type) where
  store : Store T
  cache : ACache
  tick : Nat

/-- the state after one cache access -/
def St.tickd (st : St T) : St T := { st with tick := st.tick + 1 }

@[simp] theorem St.tickd_store (st : St T) : st.tickd.store = st.store := rfl
@[simp] theorem St.tickd_cache (st : St T) : st.tickd.cache = st.cache := rfl

/-- the common tail: `reduce`, then `apply_cache().add(..)` -/
def finishS (p : APolicy) (st : St T) (key : Key) (l : Nat) (e1 e0 : Edge) : St T × Edge :=
  let m := st.store.mkNode l e1 e0
  (⟨m.1, p.add st.tick st.cache key m.2, st.tick + 1⟩, m.2)

/-- `apply_bin::<OP>` (`apply_rec.rs`) -/
def applyS (L : TermOps T) (gt : Edge → Edge → Bool) (tg : Op → OpTag) (p : APolicy) (op : Op) :
    Nat → St T → Edge → Edge → St T × Edge
  | 0, st, f, _ => (st, f)
  | fuel+1, st, f, g =>
    let tb := terminalBinS L gt tg op st.store f g
    let st : St T := { st with store := tb.1 }
    match tb.2 with
    | .done h => (st, h)
    | .binary tag o1 o2 =>
      -- query apply cache
      match p.get st.tick st.cache (tag, [o1, o2]) with
      | some h => (st.tickd, h)
      | none =>
        match lmin (st.store.level? f) (st.store.level? g) with
        | none => (st.tickd, f) -- two terminals: excluded, `terminal_bin` is `Done` on them
        | some l =>
          let r1 := applyS L gt tg p op fuel st.tickd (st.store.cofT l f) (st.store.cofT l g)
          let r0 := applyS L gt tg p op fuel r1.1 (st.store.cofE l f) (st.store.cofE l g)
          finishS p r0.1 (tag, [o1, o2]) l r1.2 r0.2

end OxiddModel.Mtbdd.Refine
