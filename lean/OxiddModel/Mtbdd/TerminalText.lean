import OxiddModel.Mtbdd.Model
import OxiddModel.Dddmp.Model

/-!
# Text form of MTBDD terminals (C15 round trip for MTBDDs, C10 "documented NaN and infinity")

`crates/oxidd-rules-mtbdd/src/terminal/i64.rs` and `f64.rs`: `Display`, `oxidd_dump::AsciiDisplay`
(what the DDDMP exporter writes: `writeln!(file, "{node_id} {desc} 0 0")` with
`desc = Ascii(terminal)`) and `oxidd_dump::ParseTagged::parse` (what the importer calls on the
token between the node id and the two `0` children).

Texts are UTF-8 **byte** lists (`List Nat`), like everything in `OxiddModel.Dddmp`; the names below
are the bytes of the string literals of the Rust `match` (the driver `termtext` checks them
against `String.toUTF8` of the literals on every run: operation `selfcheck`).

`I64`:
* `Display`: `NaN`, `-∞`, `+∞`, and `i64`'s `Display` (no flags reach it: an optional `-` and the
  decimal digits without leading zeros) — `Dddmp.intBytes`, the same function the exporter model
  uses for node ids;
* `AsciiDisplay`: the same with `-Inf` / `+Inf`;
* `parse`: three lists of accepted names, otherwise `i64::from_str`, modelled as written in
  `core::num::from_ascii_radix` (radix 10, signed): empty → error; a lone sign → error; one optional
  sign; then per byte `checked_mul(10)`, `to_digit`, `checked_add` / `checked_sub` (the negative
  branch accumulates downwards, which is why `i64::MIN` parses). The unchecked fast path for at
  most 15 digits computes the same value without the checks and is not modelled separately. No
  trimming anywhere: a token with a blank is never a number.

`F64` (a bit pattern, `Nat` below `2^64`): `From<f64>` (the normalising constructor), the three
name lists, `Display`/`AsciiDisplay` of the special values. `f64::from_str` and the decimal
printing of finite values (Rust's shortest round-trip algorithm, `core::fmt::float` /
`core::num::dec2flt`) are **parameters** of the model: nothing is assumed about them except where
a theorem says so.
-/
namespace OxiddModel.Mtbdd.TermText
open OxiddModel.Dddmp (intBytes decBytes isDigit isBlank)

/-! ## the accepted names (bytes of the Rust string literals) -/

def nanNames : List (List Nat) := [
  [110, 97, 110],                                   -- nan
  [78, 97, 78],                                     -- NaN
  [78, 65, 78]]                                     -- NAN

def minusInfNames : List (List Nat) := [
  [45, 226, 136, 158],                              -- -∞
  [45, 105, 110, 102],                              -- -inf
  [45, 105, 110, 102, 105, 110, 105, 116, 121],     -- -infinity
  [45, 73, 110, 102],                               -- -Inf
  [45, 73, 110, 102, 105, 110, 105, 116, 121],      -- -Infinity
  [45, 73, 78, 70],                                 -- -INF
  [45, 73, 78, 70, 73, 78, 73, 84, 89],             -- -INFINITY
  [77, 105, 110, 117, 115, 73, 110, 102]]           -- MinusInf

def plusInfNames : List (List Nat) := [
  [226, 136, 158],                                  -- ∞
  [105, 110, 102],                                  -- inf
  [105, 110, 102, 105, 110, 105, 116, 121],         -- infinity
  [73, 110, 102],                                   -- Inf
  [73, 110, 102, 105, 110, 105, 116, 121],          -- Infinity
  [73, 78, 70],                                     -- INF
  [73, 78, 70, 73, 78, 73, 84, 89],                 -- INFINITY
  [43, 226, 136, 158],                              -- +∞
  [43, 105, 110, 102],                              -- +inf
  [43, 105, 110, 102, 105, 110, 105, 116, 121],     -- +infinity
  [43, 73, 110, 102],                               -- +Inf
  [43, 73, 110, 102, 105, 110, 105, 116, 121],      -- +Infinity
  [43, 73, 78, 70],                                 -- +INF
  [43, 73, 78, 70, 73, 78, 73, 84, 89],             -- +INFINITY
  [80, 108, 117, 115, 73, 110, 102]]                -- PlusInf

/-- the string literals, for the run-time self check of the byte lists above -/
def nameLiterals : List String × List String × List String :=
  (["nan", "NaN", "NAN"],
   ["-∞", "-inf", "-infinity", "-Inf", "-Infinity", "-INF", "-INFINITY", "MinusInf"],
   ["∞", "inf", "infinity", "Inf", "Infinity", "INF", "INFINITY", "+∞", "+inf", "+infinity", "+Inf",
    "+Infinity", "+INF", "+INFINITY", "PlusInf"])

def isName (s : List Nat) (names : List (List Nat)) : Bool := names.contains s

/-! ## `I64` -/

def NaN_TEXT : List Nat := [78, 97, 78]                 -- "NaN"
def MINUS_INF_TEXT : List Nat := [45, 226, 136, 158]     -- "-∞"
def PLUS_INF_TEXT : List Nat := [43, 226, 136, 158]      -- "+∞"
def MINUS_INF_ASCII : List Nat := [45, 73, 110, 102]     -- "-Inf"
def PLUS_INF_ASCII : List Nat := [43, 73, 110, 102]      -- "+Inf"

/-- `impl Display for I64` -/
def display : I64 → List Nat
  | .nan => NaN_TEXT
  | .ninf => MINUS_INF_TEXT
  | .num n => intBytes n
  | .pinf => PLUS_INF_TEXT

/-- `impl AsciiDisplay for I64` (the DDDMP exporter and the visualiser use this one) -/
def asciiDisplay : I64 → List Nat
  | .nan => NaN_TEXT
  | .ninf => MINUS_INF_ASCII
  | .num n => intBytes n
  | .pinf => PLUS_INF_ASCII

/-- `(c as char).to_digit(10)` on a byte -/
def toDigit (c : Nat) : Option Int := if isDigit c then some ((c - 48 : Nat) : Int) else none

/-- `run_checked_loop!(checked_add, PosOverflow)` -/
def accPos : List Nat → Int → Option Int
  | [], r => some r
  | c :: cs, r =>
    match toDigit c with
    | none => none
    | some x =>
      match I64.checkedMul r 10 with
      | none => none
      | some m =>
        match I64.checkedAdd m x with
        | none => none
        | some r' => accPos cs r'

/-- `run_checked_loop!(checked_sub, NegOverflow)` -/
def accNeg : List Nat → Int → Option Int
  | [], r => some r
  | c :: cs, r =>
    match toDigit c with
    | none => none
    | some x =>
      match I64.checkedMul r 10 with
      | none => none
      | some m =>
        match I64.checkedSub m x with
        | none => none
        | some r' => accNeg cs r'

/-- `i64::from_str(s).ok()` -/
def fromStrI64 (src : List Nat) : Option Int :=
  match src with
  | [] => none                                           -- Empty
  | c :: rest =>
    if (c = 43 ∨ c = 45) ∧ rest = [] then none           -- a lone sign: InvalidDigit
    else if c = 43 then accPos rest 0
    else if c = 45 then accNeg rest 0
    else accPos (c :: rest) 0

/-- `impl ParseTagged<Tag> for I64` (the tag is `Tag::default()`) -/
def parse (s : List Nat) : Option I64 :=
  if isName s nanNames then some .nan
  else if isName s minusInfNames then some .ninf
  else if isName s plusInfNames then some .pinf
  else match fromStrI64 s with
    | some n => some (.num n)
    | none => none

/-! ## what the DDDMP tokeniser and the name sanitiser leave alone -/

/-- a byte that neither ends a token (`memchr2(b' ', b'\t')`), nor a line (`\n`, and `\r` is
stripped at the end of a line), nor is replaced by `replace_space_and_control` /
`write_replacing_control` (ASCII control characters and the space) -/
def safeByte (b : Nat) : Bool := !(b ≤ 32 || b = 127)

/-- a text that survives as one token -/
def TokenSafe (s : List Nat) : Prop := s ≠ [] ∧ ∀ b ∈ s, safeByte b = true

/-! ## `F64` on bit patterns -/

namespace F64

def NAN_BITS : Nat := 0x7ff8000000000000
def INF_BITS : Nat := 0x7ff0000000000000
def NEG_INF_BITS : Nat := 0xfff0000000000000
def NEG_ZERO_BITS : Nat := 0x8000000000000000

/-- `f64::is_nan` on the pattern: all exponent bits set and a non-zero fraction -/
def isNan (b : Nat) : Bool := (b / 2 ^ 52) % 2048 == 2047 && b % 2 ^ 52 != 0

/-- `impl From<f64> for F64` -/
def fromBits (b : Nat) : Nat :=
  if isNan b then NAN_BITS else if b = NEG_ZERO_BITS then 0 else b

/-- the invariant of the type (`Eq`/`Hash` by bit pattern are sound because of it): a NaN has the
pattern of `f64::NAN`, there is no `-0.0` -/
def Normal (b : Nat) : Prop := b < 2 ^ 64 ∧ b ≠ NEG_ZERO_BITS ∧ (isNan b = true → b = NAN_BITS)

/-- `impl ParseTagged<Tag> for F64`; `fromStr` stands for `f64::from_str(s).ok()` as a pattern -/
def parse (fromStr : List Nat → Option Nat) (s : List Nat) : Option Nat :=
  if isName s nanNames then some NAN_BITS
  else if isName s minusInfNames then some NEG_INF_BITS
  else if isName s plusInfNames then some INF_BITS
  else match fromStr s with
    | some b => some (fromBits b)
    | none => none

def MINUS_INF_ASCII : List Nat := [45, 73, 78, 70]      -- "-INF"
def PLUS_INF_ASCII : List Nat := [43, 73, 78, 70]       -- "+INF"

/-- `impl Display for F64`; `fmtFinite` stands for `f64`'s `Display` -/
def display (fmtFinite : Nat → List Nat) (b : Nat) : List Nat :=
  if b = NAN_BITS then NaN_TEXT
  else if b = NEG_INF_BITS then MINUS_INF_TEXT
  else if b = INF_BITS then PLUS_INF_TEXT
  else fmtFinite b

/-- `impl AsciiDisplay for F64` -/
def asciiDisplay (fmtFinite : Nat → List Nat) (b : Nat) : List Nat :=
  if b = NAN_BITS then NaN_TEXT
  else if b = NEG_INF_BITS then MINUS_INF_ASCII
  else if b = INF_BITS then PLUS_INF_ASCII
  else fmtFinite b

end F64

end OxiddModel.Mtbdd.TermText
