import OxiddModel.Mtbdd.PropertiesC07TM

/-!
# Why find-or-insert must be one atomic action, for terminals and for inner nodes (negative witnesses)

The machine of `Mtbdd/ThreadsM.lean` treats `get_terminal` (`Store.getTerminal` = `Slots.intern` on
the terminal table) and `reduce`'s `get_or_insert` (`Slots.intern` on the node table) as *single*
atomic actions. If the lookup (`Slots.find?`) and the insertion (`Slots.alloc`) were two separate
actions, two threads could both look up the same absent value, both miss, and both insert:

* `split_get_terminal_breaks_unique` — threads 0 and 2 of the example (`x0 + x1`, `x1 + x0`) both
  need the terminal `2`, absent from the start store: lookup, lookup, insert, insert leaves the
  value `2` in two terminal slots; `Store.Unique` is lost, and with it "equal handles ⇔ equal
  functions": the two threads return *different* edges `t2 ≠ t3` for the same value;
* `split_reduce_breaks_unique` — the same for an inner node.

With the atomic actions the second thread finds what the first one inserted
(`atomic_get_terminal_twice`).
-/
namespace OxiddModel.Mtbdd.Threads
open OxiddModel.Mtbdd OxiddModel.Mtbdd.MT OxiddModel.Mtbdd.Refine OxiddModel.CachePolicy
open OxiddModel.Mtbdd.StoreLevel

/-- the non-atomic insertion of a terminal: allocate a slot without looking -/
def allocTerm {T : Type} (s : Store T) (v : T) : Store T × Edge :=
  let r := Slots.alloc s.terms v
  (⟨s.nodes, r.1⟩, .term r.2)

/-- the non-atomic insertion of an inner node -/
def allocNode {T : Type} (s : Store T) (n : Node) : Store T × Edge :=
  let r := Slots.alloc s.nodes n
  (⟨r.1, s.terms⟩, .inner r.2)

/-- lookup, lookup, insert, insert of the terminal `2` -/
def badT : Store I64 × Edge := allocTerm (allocTerm exStore (I64.num 2)).1 (I64.num 2)

/-- **`get_terminal` must be atomic.** Both threads looked the value `2` up in `exStore` (miss),
then both insert: the value is stored twice, the two threads hold different edges for it. -/
theorem split_get_terminal_breaks_unique :
    exStore.Unique ∧ Slots.find? exStore.terms (I64.num 2) = none ∧
    ¬ badT.1.Unique ∧
    (allocTerm exStore (I64.num 2)).2 ≠ badT.2 ∧
    Denotes badT.1 (.term 2) (.leaf (.num 2)) ∧
    Denotes badT.1 (.term 3) (.leaf (.num 2)) ∧
    ¬ badT.1.Inj := by
  have h2 : badT.1.getTerm? 2 = some (.num 2) := by
    decide +kernel
  have h3 : badT.1.getTerm? 3 = some (.num 2) := by
    decide +kernel
  refine ⟨exStore_unique, by decide +kernel, ?_, by decide +kernel, .term h2, .term h3, ?_⟩
  · intro h
    have := h.2 2 3 (.num 2) h2 h3
    omega
  · intro h
    have := h _ _ _ (.term h2) (.term h3)
    cases this

/-- whereas two *atomic* `get_terminal`s keep both tables hash consed and return the same edge:
the second thread finds the slot the first one filled -/
theorem atomic_get_terminal_twice :
    ((exStore.getTerminal (I64.num 2)).1.getTerminal (I64.num 2)).1.Unique ∧
    ((exStore.getTerminal (I64.num 2)).1.getTerminal (I64.num 2)).2 =
      (exStore.getTerminal (I64.num 2)).2 ∧
    ((exStore.getTerminal (I64.num 2)).1.getTerminal (I64.num 2)).1.terms =
      (exStore.getTerminal (I64.num 2)).1.terms :=
  ⟨getTerminal_unique _ _ (getTerminal_unique _ _ exStore_unique), by decide +kernel,
    by decide +kernel⟩

/-- a node absent from `exStore` that two threads are about to create: `(0, t1, t0)` (`1 - x0`) -/
def exNew : Node := ⟨0, .term 1, .term 0⟩

/-- lookup, lookup, insert, insert of the node `exNew` -/
def badN : Store I64 × Edge := allocNode (allocNode exStore exNew).1 exNew

/-- **`get_or_insert` of `reduce` must be atomic.** -/
theorem split_reduce_breaks_unique :
    Slots.find? exStore.nodes exNew = none ∧
    ¬ badN.1.Unique ∧
    ((exStore.mkNode 0 (.term 1) (.term 0)).1.mkNode 0 (.term 1) (.term 0)).1.Unique ∧
    ((exStore.mkNode 0 (.term 1) (.term 0)).1.mkNode 0 (.term 1) (.term 0)).2 =
      (exStore.mkNode 0 (.term 1) (.term 0)).2 := by
  refine ⟨by decide +kernel, ?_, mkNode_unique _ _ _ _ (mkNode_unique _ _ _ _ exStore_unique),
    by decide +kernel⟩
  intro h
  have := h.1 2 3 exNew (by decide +kernel) (by decide +kernel)
  omega

end OxiddModel.Mtbdd.Threads
