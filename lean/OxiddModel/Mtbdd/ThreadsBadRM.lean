import OxiddModel.Mtbdd.PropertiesC07RM

/-!
# Why the counter operations of the counted MTBDD machine are needed (negative witnesses)

* `no_free_ownership` — every owned edge has to be paid for by a `retain`: from exact counters, a
  task that starts owning an edge to a stored node **or terminal** *without* a counter increment (a
  cache hit, a `terminal_bin` arm or a `get_terminal` hit that returns the edge without
  `clone_edge` / `retain`) makes the counters inexact, for every state and every edge. This is the
  class of defect the `cloneEdge` / `getTerminalU` in `Call.rentry` stand for.
* `double_release_breaks` — dually, releasing an edge that is not owned breaks exactness.
-/
namespace OxiddModel.Mtbdd.Threads
open OxiddModel.Mtbdd OxiddModel.Mtbdd.MT OxiddModel.Mtbdd.Refine OxiddModel.Mtbdd.Rc
open OxiddModel.CachePolicy OxiddModel

variable {T : Type}

/-- **No ownership without a retain** (inner nodes and terminals). -/
theorem no_free_ownership {r : RSt T} {ext : List Edge} (h : RcInv r ext) (x : Edge)
    (hx : Has r.st.store x) : ¬ RcInv r (x :: ext) := by
  intro h'
  have e1 := h.rc_eq x hx
  have e2 := h'.rc_eq x hx
  rw [List.count_cons_self] at e2
  omega

/-- **No release without ownership**: after `drop_edge` of an edge nobody owns the counters are
too small — for every state with exact counters and every edge to a stored node or terminal. -/
theorem double_release_breaks {r : RSt T} {ext : List Edge} (h : RcInv r ext) (x : Edge)
    (hx : Has r.st.store x) : ¬ RcInv (dropEdge r x) ext := by
  intro h'
  have e1 := h.rc_eq x hx
  have hx' : Has (dropEdge r x).st.store x := by rw [dropEdge_st]; exact hx
  have e2 := h'.rc_eq x hx'
  rw [rcOf_dropEdge, dropEdge_st] at e2
  simp only [cnt, if_true] at e2
  omega

/-- non-vacuity on the example state: the terminal `1` (`t0`) and the node `x1` (`#1`) -/
example := no_free_ownership exR_rc (.term 0) ⟨.num 1, by decide +kernel⟩
example := no_free_ownership exR_rc (.inner 1) ⟨⟨1, .term 0, .term 1⟩, by decide +kernel⟩
example := double_release_breaks exR_rc (.term 0) ⟨.num 1, by decide +kernel⟩
example := double_release_breaks exR_rc (.inner 1) ⟨⟨1, .term 0, .term 1⟩, by decide +kernel⟩

end OxiddModel.Mtbdd.Threads
