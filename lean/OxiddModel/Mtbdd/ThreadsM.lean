import OxiddModel.Mtbdd.IteS

/-!
# An interleaving machine for the MTBDD `apply_bin` and `apply_ite` (two hash-consed tables: nodes and terminals)

Counterpart of `Bcdd/Threads.lean` for `crates/oxidd-rules-mtbdd/src/apply_rec.rs`
(`apply_bin::<OP>`, all six operators of `Op`, and `apply_ite`) on the store-level model of `Mtbdd/StoreS.lean`
(`Store` = inner-node slots + terminal-value slots, `St` = store + apply cache + time stamp).

**The MTBDD crate has no `ParallelRecursor`**: `apply_bin` never forks (the `mt` module is commented
out in `crates/oxidd-rules-mtbdd/src/lib.rs` and `crates/oxidd/src/mtbdd.rs`). Concurrency for
MTBDDs therefore means: several user threads, each running a *sequential* operation in one manager
under the shared manager lock. Hence the machine has no `par` frame and a scheduling decision is
just a task id.

## control state of a running operation: `Task`

* `call c` — at the entry of the recursive call `c` = `bin op f g` or `ite f g h`;
* `miss c key` — `terminal_bin` returned `Binary(tag, o1, o2)`, the cache query under
  `key = (tag, [o1, o2])` missed;
* `seq1 fr c0 t1` — then-branch `t1` running, else-call `c0` pending;
* `seq0 fr r1 t0` — then-result `r1` held, else-branch `t0` running;
* `made key r` — `reduce` done, before `apply_cache().add`;
* `ret r` — finished with result edge `r`.

One step of a task (`Task.step`) performs at most one atomic action `Act` on the shared state:

* `Act.getTerm op f g` — the `get_terminal` call (if any) inside `terminal_bin::<OP>(f, g)`:
  **find-or-insert in the terminal table** (`Store.getTerminal`), one atomic action;
  `getTerm_is_getTerminal` below: its effect on the store is either nothing or exactly
  `Store.getTerminal v` for one value `v`;
* `Act.cacheGet` — the cache query (`apply_cache().get`);
* `Act.mk l t e` — `reduce`: `if t == e {return t}`, else find-or-insert in the unique table of
  inner nodes (`Store.mkNode`), one atomic action;
* `Act.cacheAdd key r` — `apply_cache().add`.

Reading the level, the children and the terminal value of operand nodes is thread-local: stored
nodes and terminals are immutable. The program text is that of `applyS` (`StoreS.lean`) and `iteS`
(`IteS.lean`):
`terminalBinS` first, the key it returns, lookup before recursion, then-branch first, `mkNode`,
add.

## the machine

`Cfg` = shared state + the list of running operations (one per user thread); a schedule is a list
of task ids. Every interleaving of the atomic actions of all operations is a schedule, and vice
versa.

**Assumptions of the model (not proved here):** the four actions are atomic (the terminal manager's
and the unique table's find-or-insert run under their locks; cache buckets have a `try_lock`, a
failing one is a `Policy` that misses/drops); sequentially consistent memory; no collection and no
reordering while an operation runs (the manager's shared lock), so nothing is freed; tables are
unbounded (no out-of-memory).
-/
set_option linter.unusedSectionVars false
set_option linter.unusedVariables false

namespace OxiddModel.Mtbdd.Threads
open OxiddModel.Mtbdd OxiddModel.Mtbdd.MT OxiddModel.Mtbdd.Refine OxiddModel.CachePolicy

/-- a (recursive) call of `apply_bin::<op>(f, g)` or of `apply_ite(f, g, h)` -/
inductive Call where
  | bin (op : Op) (f g : Edge)
  | ite (f g h : Edge)
deriving DecidableEq, Repr

/-- what a frame keeps across its recursive calls: the cache key and the level of the new node -/
structure Frame where
  key : Key
  lvl : Nat
deriving DecidableEq, Repr

inductive Task where
  | call (c : Call)
  | miss (c : Call) (key : Key)
  | seq1 (fr : Frame) (c0 : Call) (t1 : Task)
  | seq0 (fr : Frame) (r1 : Edge) (t0 : Task)
  | made (key : Key) (r : Edge)
  | ret (r : Edge)
deriving DecidableEq, Repr

/-- the result of a finished task -/
def Task.ret? : Task → Option Edge
  | .ret r => some r
  | _ => none

/-- the atomic actions on the shared state -/
inductive Act where
  | getTerm (op : Op) (f g : Edge)
  | cacheGet
  | mk (l : Nat) (t e : Edge)
  | cacheAdd (key : Key) (r : Edge)
deriving DecidableEq, Repr

variable {T : Type} [DecidableEq T]

/-- effect of an action on the shared state; compare `applyS`/`finishS`: a cache access advances
the time stamp, `get_terminal` and `reduce` change the store only -/
def Act.run (L : TermOps T) (gt : Edge → Edge → Bool) (tg : Op → OpTag) (p : APolicy) :
    Act → St T → St T
  | .getTerm op f g, st => { st with store := (terminalBinS L gt tg op st.store f g).1 }
  | .cacheGet, st => st.tickd
  | .mk l t e, st => { st with store := (st.store.mkNode l t e).1 }
  | .cacheAdd key r, st => ⟨st.store, p.add st.tick st.cache key r, st.tick + 1⟩

def runOpt (L : TermOps T) (gt : Edge → Edge → Bool) (tg : Op → OpTag) (p : APolicy) :
    Option Act → St T → St T
  | some a, st => a.run L gt tg p st
  | none, st => st

/-- `Act.getTerm` is a no-op or exactly one `get_terminal(v)`; the edge `terminal_bin` returns is
then the one `get_terminal` returned -/
theorem getTerm_is_getTerminal (L : TermOps T) (gt : Edge → Edge → Bool) (tg : Op → OpTag)
    (op : Op) (s : Store T) (f g : Edge) :
    (terminalBinS L gt tg op s f g).1 = s ∨
      ∃ v, terminalBinS L gt tg op s f g = ((s.getTerminal v).1, .done (s.getTerminal v).2) := by
  cases op <;> simp only [terminalBinS] <;> (repeat' split) <;>
    first
      | exact .inl rfl
      | exact .inr ⟨_, rfl⟩

abbrev Out := Option Act × Task

/-- the cache query of a call that is not a terminal case -/
def query (p : APolicy) (st : St T) (c : Call) (key : Key) : Out :=
  match p.get st.tick st.cache key with
  | some h => (some .cacheGet, .ret h)
  | none => (some .cacheGet, .miss c key)

/-- entry of a call. `apply_bin`: `terminal_bin::<OP>` — on a `Done` arm that calls `get_terminal`
this is the atomic terminal find-or-insert — otherwise (store unchanged) the cache query under the
key `terminal_bin` returned. `apply_ite` (same text as `iteS`): `g == h`, a terminal condition
selects a branch (thread-local reads, no terminal is created), else the cache query. -/
def Call.entry (L : TermOps T) (gt : Edge → Edge → Bool) (tg : Op → OpTag) (p : APolicy)
    (st : St T) : Call → Out
  | .bin op f g =>
    match (terminalBinS L gt tg op st.store f g).2 with
    | .done h => (some (.getTerm op f g), .ret h)
    | .binary tag o1 o2 => query p st (.bin op f g) (tag, [o1, o2])
  | .ite f g h =>
    if g = h then (none, .ret g) else
    match f with
    | .term i =>
      match st.store.getTerm? i with
      | some t => (none, .ret (if t = L.zero then h else g))
      | none => (none, .ret f)
    | .inner _ => query p st (.ite f g h) (.ite, [f, g, h])

/-- after a miss: read levels and children, start the then-call; the else-call is pending -/
def Call.expand (s : Store T) (key : Key) : Call → Task
  | .bin op f g =>
    match lmin (s.level? f) (s.level? g) with
    | none => .ret f
    | some l =>
      .seq1 ⟨key, l⟩ (.bin op (s.cofE l f) (s.cofE l g)) (.call (.bin op (s.cofT l f) (s.cofT l g)))
  | .ite f g h =>
    match lmin (lmin (s.level? f) (s.level? g)) (s.level? h) with
    | none => .ret f
    | some l =>
      .seq1 ⟨key, l⟩ (.ite (s.cofE l f) (s.cofE l g) (s.cofE l h))
        (.call (.ite (s.cofT l f) (s.cofT l g) (s.cofT l h)))

/-- `reduce` as one atomic action; the task remembers the edge it got back -/
def reduceOut (st : St T) (fr : Frame) (r1 r0 : Edge) : Out :=
  (some (.mk fr.lvl r1 r0), .made fr.key (st.store.mkNode fr.lvl r1 r0).2)

/-- **one step of a task** in shared state `st`. A finished task stutters. -/
def Task.step (L : TermOps T) (gt : Edge → Edge → Bool) (tg : Op → OpTag) (p : APolicy)
    (st : St T) : Task → Out
  | .ret r => (none, .ret r)
  | .call c => c.entry L gt tg p st
  | .miss c key => (none, c.expand st.store key)
  | .seq1 fr c0 t1 =>
    match t1.ret? with
    | some r1 => (none, .seq0 fr r1 (.call c0))
    | none => let o := t1.step L gt tg p st; (o.1, .seq1 fr c0 o.2)
  | .seq0 fr r1 t0 =>
    match t0.ret? with
    | some r0 => reduceOut st fr r1 r0
    | none => let o := t0.step L gt tg p st; (o.1, .seq0 fr r1 o.2)
  | .made key r => (some (.cacheAdd key r), .ret r)

/-! ## the machine -/

structure Cfg (T : Type) where
  st : St T
  tasks : List Task

/-- the selection names a live (existing, unfinished) task -/
def Cfg.enabled (c : Cfg T) (i : Nat) : Bool :=
  match c.tasks[i]? with
  | some t => t.ret?.isNone
  | none => false

/-- **one step of the machine**; a selection that is not enabled does nothing -/
def Cfg.step (L : TermOps T) (gt : Edge → Edge → Bool) (tg : Op → OpTag) (p : APolicy)
    (c : Cfg T) (i : Nat) : Cfg T :=
  match c.tasks[i]? with
  | none => c
  | some t =>
    match t.ret? with
    | some _ => c
    | none =>
      let o := t.step L gt tg p c.st
      ⟨runOpt L gt tg p o.1 c.st, c.tasks.set i o.2⟩

def Cfg.run (L : TermOps T) (gt : Edge → Edge → Bool) (tg : Op → OpTag) (p : APolicy)
    (c : Cfg T) : List Nat → Cfg T
  | [] => c
  | i :: is => (c.step L gt tg p i).run L gt tg p is

def Cfg.allDone (c : Cfg T) : Bool := c.tasks.all (fun t => t.ret?.isSome)

/-- every selection of the schedule is enabled when it is taken -/
def Cfg.allEnabled (L : TermOps T) (gt : Edge → Edge → Bool) (tg : Op → OpTag) (p : APolicy)
    (c : Cfg T) : List Nat → Bool
  | [] => true
  | i :: is => c.enabled i && (c.step L gt tg p i).allEnabled L gt tg p is

/-- the `made` frames of a task: the cache entries it is about to insert -/
def Task.mades : Task → List (Key × Edge)
  | .call _ => []
  | .miss _ _ => []
  | .seq1 _ _ t1 => t1.mades
  | .seq0 _ _ t0 => t0.mades
  | .made key r => [(key, r)]
  | .ret _ => []

end OxiddModel.Mtbdd.Threads
