import OxiddModel.Mtbdd.ThreadsM

/-!
# The invariant of the MTBDD interleaving machine and its preservation by every step

`TaskOK L s t R n`: in store `s` the task `t` is *computing the tree `R`* and needs at most `n`
more steps of its own: every operand it holds denotes a tree, the frames' keys are sound for what
the frame computes, results already obtained denote the right trees. The predicate is monotone in
the store (`TaskOK.mono`), so steps of *other* tasks — which only extend the two tables — do not
disturb it; `Task.step_ok` shows that a step of the task itself keeps the shared-state invariant
(`Inv` of `ApplyS.lean` = both tables hash consed + admissible terminals + sound cache, and
`NoRed`), extends the store, keeps `TaskOK` for the same `R` and strictly decreases the bound.

The case that is new with respect to BDD/BCDD is the terminal case of `Call.entry`: it may perform
`get_terminal` (a find-or-insert in the terminal table), which changes the store.
-/
set_option linter.unusedSectionVars false
set_option linter.unusedVariables false

namespace OxiddModel.Mtbdd.Threads
open OxiddModel.Mtbdd OxiddModel.Mtbdd.MT OxiddModel.Mtbdd.Refine OxiddModel.CachePolicy

variable {T : Type} [DecidableEq T]

/-- bound on the number of own steps of a call whose operand trees have total size `≤ k` -/
def W : Nat → Nat
  | 0 => 1
  | k + 1 => 2 * W k + 8

theorem W_pos (k : Nat) : 1 ≤ W k := by
  cases k <;> simp only [W] <;> omega

theorem W_mono {k k' : Nat} (h : k ≤ k') : W k ≤ W k' := by
  induction h with
  | refl => exact Nat.le_refl _
  | step _ ih => simp only [W]; omega

/-- the key is sound for a frame that computes `R` -/
def KeyOK (L : TermOps T) (s : Store T) (key : Key) (R : MT T) : Prop :=
  ∃ ts, DenotesL s key.2 ts ∧ specOf L key.1 ts = some R

theorem KeyOK.mono {L : TermOps T} {s s' : Store T} (hle : s.Le s') {key : Key} {R : MT T}
    (h : KeyOK L s key R) : KeyOK L s' key R := by
  obtain ⟨ts, h1, h2⟩ := h
  exact ⟨ts, h1.mono hle, h2⟩

/-- the call computes `R`; its operand trees have total size `≤ k` -/
def CallSpec (L : TermOps T) (s : Store T) (c : Call) (R : MT T) (k : Nat) : Prop :=
  match c with
  | .bin op f g =>
    ∃ a b, Denotes s f a ∧ Denotes s g b ∧ R = applyBin L op a b ∧ a.size + b.size ≤ k
  | .ite f g h =>
    ∃ a b c, Denotes s f a ∧ Denotes s g b ∧ Denotes s h c ∧ R = applyIte L a b c ∧
      a.size + b.size + c.size ≤ k

theorem CallSpec.mono {L : TermOps T} {s s' : Store T} (hle : s.Le s') {c : Call} {R : MT T}
    {k : Nat} (h : CallSpec L s c R k) : CallSpec L s' c R k := by
  cases c with
  | bin op f g =>
    obtain ⟨a, b, h1, h2, h3, h4⟩ := h
    exact ⟨a, b, h1.mono hle, h2.mono hle, h3, h4⟩
  | ite f g h' =>
    obtain ⟨a, b, c, h1, h2, h3, h4, h5⟩ := h
    exact ⟨a, b, c, h1.mono hle, h2.mono hle, h3.mono hle, h4, h5⟩

/-- after the miss: `terminal_bin` is `Binary` on the operands (`apply_bin`) / the branches differ
and the condition is an inner node (`apply_ite`); the key is sound -/
def MissSpec (L : TermOps T) (s : Store T) (c : Call) (key : Key) (R : MT T) (k : Nat) : Prop :=
  match c with
  | .bin op f g =>
    ∃ a b, Denotes s f a ∧ Denotes s g b ∧ terminalBin L op a b = .binary ∧
      R = applyBin L op a b ∧ a.size + b.size ≤ k + 1 ∧ KeyOK L s key R
  | .ite f g h =>
    ∃ lf ft fe b c, Denotes s f (.node lf ft fe) ∧ Denotes s g b ∧ Denotes s h c ∧ b ≠ c ∧
      R = applyIte L (.node lf ft fe) b c ∧ (MT.node lf ft fe).size + b.size + c.size ≤ k + 1 ∧
      KeyOK L s key R

theorem MissSpec.mono {L : TermOps T} {s s' : Store T} (hle : s.Le s') {c : Call} {key : Key}
    {R : MT T} {k : Nat} (h : MissSpec L s c key R k) : MissSpec L s' c key R k := by
  cases c with
  | bin op f g =>
    obtain ⟨a, b, h1, h2, h3, h4, h5, h6⟩ := h
    exact ⟨a, b, h1.mono hle, h2.mono hle, h3, h4, h5, h6.mono hle⟩
  | ite f g h' =>
    obtain ⟨lf, ft, fe, b, c, h1, h2, h3, h4, h5, h6, h7⟩ := h
    exact ⟨lf, ft, fe, b, c, h1.mono hle, h2.mono hle, h3.mono hle, h4, h5, h6, h7.mono hle⟩

inductive TaskOK (L : TermOps T) (s : Store T) : Task → MT T → Nat → Prop
  | ret {r R n} : Denotes s r R → TaskOK L s (.ret r) R n
  | call {c R k n} : CallSpec L s c R k → W k ≤ n → TaskOK L s (.call c) R n
  | miss {c key R k n} : MissSpec L s c key R k → 2 * W k + 7 ≤ n → TaskOK L s (.miss c key) R n
  | seq1 {fr c0 t1 R R1 R0 k0 n1 n} : R = mk fr.lvl R1 R0 → KeyOK L s fr.key R →
      CallSpec L s c0 R0 k0 → TaskOK L s t1 R1 n1 → n1 + W k0 + 4 ≤ n →
      TaskOK L s (.seq1 fr c0 t1) R n
  | seq0 {fr r1 t0 R R1 R0 n0 n} : R = mk fr.lvl R1 R0 → KeyOK L s fr.key R → Denotes s r1 R1 →
      TaskOK L s t0 R0 n0 → n0 + 3 ≤ n → TaskOK L s (.seq0 fr r1 t0) R n
  | made {key r R n} : KeyOK L s key R → Denotes s r R → 1 ≤ n → TaskOK L s (.made key r) R n

theorem TaskOK.mono {L : TermOps T} {s s' : Store T} (hle : s.Le s') {t : Task} {R : MT T}
    {n : Nat} (h : TaskOK L s t R n) : TaskOK L s' t R n := by
  induction h with
  | ret h => exact .ret (h.mono hle)
  | call h hn => exact .call (h.mono hle) hn
  | miss h hn => exact .miss (h.mono hle) hn
  | seq1 hT hk hc _ hn ih => exact .seq1 hT (hk.mono hle) (hc.mono hle) ih hn
  | seq0 hT hk hr _ hn ih => exact .seq0 hT (hk.mono hle) (hr.mono hle) ih hn
  | made hk hr hn => exact .made (hk.mono hle) (hr.mono hle) hn

theorem TaskOK.weaken {L : TermOps T} {s : Store T} {t : Task} {R : MT T} {n n' : Nat}
    (h : TaskOK L s t R n) (hn : n ≤ n') : TaskOK L s t R n' := by
  cases h with
  | ret h => exact .ret h
  | call h h' => exact .call h (by omega)
  | miss h h' => exact .miss h (by omega)
  | seq1 hT hk hc h1 h' => exact .seq1 hT hk hc h1 (by omega)
  | seq0 hT hk hr h0 h' => exact .seq0 hT hk hr h0 (by omega)
  | made hk hr h' => exact .made hk hr (by omega)

/-- a finished task holds the edge of its tree -/
theorem TaskOK.ret_den {L : TermOps T} {s : Store T} {t : Task} {R : MT T} {n : Nat} {r : Edge}
    (h : TaskOK L s t R n) (hr : t.ret? = some r) : Denotes s r R := by
  cases h <;> simp only [Task.ret?] at hr <;> (try cases hr)
  assumption

/-! ## the actions keep the shared-state invariant -/

/-- what a step guarantees about the shared state -/
structure StOK (L : TermOps T) (ok : T → Prop) (st st' : St T) : Prop where
  inv : Inv L ok st'
  le : st.store.Le st'.store
  nored : st.store.NoRed → st'.store.NoRed

theorem StOK.refl {L : TermOps T} {ok : T → Prop} {st : St T} (h : Inv L ok st) :
    StOK L ok st st := ⟨h, Store.Le.refl _, id⟩

theorem StOK.tickd {L : TermOps T} {ok : T → Prop} {st : St T} (h : Inv L ok st) :
    StOK L ok st st.tickd := ⟨h.tickd, Store.Le.refl _, id⟩

theorem StOK.mkNode {L : TermOps T} {ok : T → Prop} {st : St T} (h : Inv L ok st) (l : Nat)
    (t e : Edge) (gt : Edge → Edge → Bool) (tg : Op → OpTag) (p : APolicy) :
    StOK L ok st ((Act.mk l t e).run L gt tg p st) :=
  ⟨⟨mkNode_unique _ _ _ _ h.1, mkNode_termsOK _ _ _ _ h.2.1, h.2.2.mono (mkNode_le _ _ _ _)⟩,
    mkNode_le _ _ _ _, fun hr => mkNode_nored _ _ _ _ hr⟩

/-- **terminal find-or-insert as one atomic action keeps both tables hash consed** -/
theorem StOK.getTerminal {L : TermOps T} {ok : T → Prop} {st : St T} (h : Inv L ok st) (v : T)
    (hv : ok v) : StOK L ok st { st with store := (st.store.getTerminal v).1 } :=
  ⟨⟨getTerminal_unique _ _ h.1, getTerminal_termsOK _ _ h.2.1 hv,
    h.2.2.mono (getTerminal_le _ _)⟩, getTerminal_le _ _, fun hr => getTerminal_nored _ _ hr⟩

theorem StOK.add {L : TermOps T} {ok : T → Prop} {p : APolicy} (pok : p.OK) {st : St T}
    (h : Inv L ok st) {key : Key} {r : Edge} {R : MT T} (hk : KeyOK L st.store key R)
    (hr : Denotes st.store r R) (gt : Edge → Edge → Bool) (tg : Op → OpTag) :
    StOK L ok st ((Act.cacheAdd key r).run L gt tg p st) := by
  refine ⟨⟨h.1, h.2.1, ?_⟩, Store.Le.refl _, id⟩
  obtain ⟨ts, h1, h2⟩ := hk
  exact CacheOK.add pok h.2.2 ⟨ts, R, h1, h2, hr⟩ _

/-! ## entry and expansion of a call -/

/-- the result of a step: new shared state fine, task still computing `R`, bound decreased -/
def StepOK (L : TermOps T) (ok : T → Prop) (gt : Edge → Edge → Bool) (p : APolicy) (st : St T)
    (o : Out) (R : MT T) (n : Nat) : Prop :=
  StOK L ok st (runOpt L gt tagOf p o.1 st) ∧
    ∃ n', n' < n ∧ TaskOK L (runOpt L gt tagOf p o.1 st).store o.2 R n'

theorem entry_ok_bin {L : TermOps T} {ok : T → Prop} (C : TerminalClosed L ok)
    (M : TerminalComm L ok) (gt : Edge → Edge → Bool) {p : APolicy} (pok : p.OK) {st : St T}
    (hinv : Inv L ok st) {op : Op} {f g : Edge} {a b : MT T} {k n : Nat}
    (hf : Denotes st.store f a) (hg : Denotes st.store g b) (hsz : a.size + b.size ≤ k)
    (hn : W k ≤ n) :
    StepOK L ok gt p st ((Call.bin op f g).entry L gt tagOf p st) (applyBin L op a b) n := by
  have hinj := inj_of_unique hinv.1
  have hcorr := terminalBinS_corr L gt tagOf op hinj hf hg
  have aok := hf.all hinv.2.1
  have bok := hg.all hinv.2.1
  have hW := W_pos k
  simp only [Call.entry, StepOK]
  generalize hS : terminalBinS L gt tagOf op st.store f g = tb at hcorr
  obtain ⟨s', os⟩ := tb
  cases os with
  | done e =>
    simp only [runOpt, Act.run, hS]
    cases hT : terminalBin L op a b with
    | binary => rw [hT] at hcorr; exact hcorr.elim
    | done t =>
      rw [hT] at hcorr
      rw [applyBin_done hT]
      rcases hcorr with ⟨rfl, hd⟩ | ⟨v, rfl, hgt⟩
      · exact ⟨StOK.refl hinv, 0, by omega, .ret hd⟩
      · have hs' : s' = (st.store.getTerminal v).1 := congrArg Prod.fst hgt
        have he : e = (st.store.getTerminal v).2 := congrArg Prod.snd hgt
        have vok : ok v := by
          have := applyBin_all C op a b aok bok
          rw [applyBin_done hT] at this; exact this
        subst hs' he
        exact ⟨StOK.getTerminal hinv v vok, 0, by omega, .ret (getTerminal_denotes _ _)⟩
  | binary tag o1 o2 =>
    cases hT : terminalBin L op a b with
    | done t => rw [hT] at hcorr; exact hcorr.elim
    | binary =>
      rw [hT] at hcorr
      obtain ⟨rfl, htag, hkey⟩ := hcorr
      subst htag
      have hkd : KeyOK L st.store (tagOf op, [o1, o2]) (applyBin L op a b) := by
        rcases hkey with ⟨h1, h2⟩ | ⟨hcm, h1, h2⟩
        · subst h1 h2; exact ⟨_, DenotesL.two hf hg, specOf_tagOf L op a b⟩
        · subst h1 h2
          exact ⟨_, DenotesL.two hg hf, by
            rw [specOf_tagOf, applyBin_comm M op hcm _ b a (Nat.le_refl _) bok aok]⟩
      simp only [query]
      split
      · rename_i r hr
        have hent := hinv.2.2 _ _ (pok.get_mem _ _ _ _ hr)
        obtain ⟨ts, hd, hs⟩ := hkd
        exact ⟨StOK.tickd hinv, 0, by omega, .ret (hent.hit hd hs)⟩
      · refine ⟨StOK.tickd hinv, ?_⟩
        have hpa := size_pos a
        have hpb := size_pos b
        cases k with
        | zero => omega
        | succ k' =>
          refine ⟨2 * W k' + 7, by simp only [W] at hn; omega, ?_⟩
          exact .miss ⟨a, b, hf, hg, hT, rfl, hsz, hkd⟩ (Nat.le_refl _)

theorem entry_ok_ite {L : TermOps T} {ok : T → Prop} (gt : Edge → Edge → Bool) {p : APolicy}
    (pok : p.OK) {st : St T} (hinv : Inv L ok st) {f g h : Edge} {a b c : MT T} {k n : Nat}
    (hf : Denotes st.store f a) (hg : Denotes st.store g b) (hh : Denotes st.store h c)
    (hsz : a.size + b.size + c.size ≤ k) (hn : W k ≤ n) :
    StepOK L ok gt p st ((Call.ite f g h).entry L gt tagOf p st) (applyIte L a b c) n := by
  have hinj := inj_of_unique hinv.1
  have hW := W_pos k
  simp only [Call.entry, StepOK]
  by_cases hgh : g = h
  · subst hgh
    have := Denotes.functional hg hh
    subst this
    simp only [if_true, runOpt]
    rw [applyIte_same]
    exact ⟨StOK.refl hinv, 0, by omega, .ret hg⟩
  · have hbc : b ≠ c := fun e => hgh (hinj _ _ _ hg (e ▸ hh))
    simp only [hgh, if_false]
    cases hf with
    | @term i x hi =>
      simp only [hi, runOpt]
      rw [applyIte_leaf L x hbc]
      refine ⟨StOK.refl hinv, 0, by omega, .ret ?_⟩
      split
      · exact hh
      · exact hg
    | @inner i lf t e tt te hi hft hfe =>
      have hdf : Denotes st.store (.inner i) (.node lf tt te) := .inner hi hft hfe
      have hkd : KeyOK L st.store (.ite, [.inner i, g, h]) (applyIte L (.node lf tt te) b c) :=
        ⟨_, DenotesL.three hdf hg hh, rfl⟩
      simp only [query]
      split
      · rename_i r hr
        have hent := hinv.2.2 _ _ (pok.get_mem _ _ _ _ hr)
        obtain ⟨ts, hd, hs⟩ := hkd
        exact ⟨StOK.tickd hinv, 0, by omega, .ret (hent.hit hd hs)⟩
      · refine ⟨StOK.tickd hinv, ?_⟩
        have hpa := size_pos (MT.node lf tt te)
        have hpb := size_pos b
        cases k with
        | zero => omega
        | succ k' =>
          refine ⟨2 * W k' + 7, by simp only [W] at hn; omega, ?_⟩
          exact .miss ⟨lf, tt, te, b, c, hdf, hg, hh, hbc, rfl, hsz, hkd⟩ (Nat.le_refl _)

theorem entry_ok {L : TermOps T} {ok : T → Prop} (C : TerminalClosed L ok)
    (M : TerminalComm L ok) (gt : Edge → Edge → Bool) {p : APolicy} (pok : p.OK) {st : St T}
    (hinv : Inv L ok st) {c : Call} {R : MT T} {k n : Nat} (hc : CallSpec L st.store c R k)
    (hn : W k ≤ n) : StepOK L ok gt p st (c.entry L gt tagOf p st) R n := by
  cases c with
  | bin op f g =>
    obtain ⟨a, b, hf, hg, hR, hsz⟩ := hc
    subst hR
    exact entry_ok_bin C M gt pok hinv hf hg hsz hn
  | ite f g h =>
    obtain ⟨a, b, c, hf, hg, hh, hR, hsz⟩ := hc
    subst hR
    exact entry_ok_ite gt pok hinv hf hg hh hsz hn

theorem expand_ok {L : TermOps T} {s : Store T} {c : Call} {key : Key} {R : MT T} {k : Nat}
    (hm : MissSpec L s c key R k) : TaskOK L s (c.expand s key) R (2 * W k + 4) := by
  cases c with
  | bin op f g =>
    obtain ⟨a, b, hf, hg, hT, hR, hsz, hkey⟩ := hm
    obtain ⟨l, hl⟩ := terminalBin_binary_level hT
    simp only [Call.expand]
    rw [level?_denotes hf, level?_denotes hg, hl]
    simp only
    have sz : (tcofT l a).size + (tcofT l b).size ≤ k ∧
        (tcofE l a).size + (tcofE l b).size ≤ k := by
      have := tcofT_size_le l a; have := tcofT_size_le l b
      have := tcofE_size_le l a; have := tcofE_size_le l b
      rcases lmin_eq_some hl with h | h
      · have := tcofT_size_lt h; have := tcofE_size_lt h; omega
      · have := tcofT_size_lt h; have := tcofE_size_lt h; omega
    refine .seq1 (R1 := applyBin L op (tcofT l a) (tcofT l b))
      (R0 := applyBin L op (tcofE l a) (tcofE l b)) (k0 := k) (n1 := W k) ?_ hkey ?_ ?_ (by omega)
    · rw [hR, applyBin_binary hT hl]
    · exact ⟨_, _, cofE_denotes l hf, cofE_denotes l hg, rfl, sz.2⟩
    · exact .call ⟨_, _, cofT_denotes l hf, cofT_denotes l hg, rfl, sz.1⟩ (Nat.le_refl _)
  | ite f g h =>
    obtain ⟨lf, ft, fe, b, c, hf, hg, hh, hbc, hR, hsz, hkey⟩ := hm
    obtain ⟨l, hl⟩ := ite_level lf ft fe b c
    simp only [Call.expand]
    rw [level?_denotes hf, level?_denotes hg, level?_denotes hh, hl]
    simp only
    have sz := ite_cof_sizes hl
    refine .seq1 (R1 := applyIte L (tcofT l (.node lf ft fe)) (tcofT l b) (tcofT l c))
      (R0 := applyIte L (tcofE l (.node lf ft fe)) (tcofE l b) (tcofE l c)) (k0 := k) (n1 := W k)
      ?_ hkey ?_ ?_ (by omega)
    · rw [hR, applyIte_node L hbc hl]
    · exact ⟨_, _, _, cofE_denotes l hf, cofE_denotes l hg, cofE_denotes l hh, rfl, by omega⟩
    · exact .call ⟨_, _, _, cofT_denotes l hf, cofT_denotes l hg, cofT_denotes l hh, rfl, by omega⟩
        (Nat.le_refl _)

theorem reduce_ok {L : TermOps T} {ok : T → Prop} (gt : Edge → Edge → Bool) {p : APolicy}
    {st : St T} (hinv : Inv L ok st) {fr : Frame} {r1 r0 : Edge} {R R1 R0 : MT T} {n : Nat}
    (hT : R = mk fr.lvl R1 R0) (hk : KeyOK L st.store fr.key R) (h1 : Denotes st.store r1 R1)
    (h0 : Denotes st.store r0 R0) (hn : 2 ≤ n) :
    StepOK L ok gt p st (reduceOut st fr r1 r0) R n := by
  refine ⟨StOK.mkNode hinv _ _ _ gt tagOf p, 1, by omega, ?_⟩
  subst hT
  exact .made (hk.mono (mkNode_le _ _ _ _))
    (mkNode_denotes st.store fr.lvl r1 r0 R1 R0 h1 h0 (inj_of_unique hinv.1)) (Nat.le_refl _)

/-! ## every step of a task keeps everything -/

theorem Task.step_ok {L : TermOps T} {ok : T → Prop} (C : TerminalClosed L ok)
    (M : TerminalComm L ok) (gt : Edge → Edge → Bool) {p : APolicy} (pok : p.OK) {st : St T}
    (hinv : Inv L ok st) {t : Task} {R : MT T} {n : Nat} (h : TaskOK L st.store t R n) :
    t.ret? = none → StepOK L ok gt p st (t.step L gt tagOf p st) R n := by
  induction h with
  | ret h => intro hr; simp [Task.ret?] at hr
  | call hc hn => intro _; exact entry_ok C M gt pok hinv hc hn
  | @miss c key R k n hm hn =>
    intro _
    exact ⟨StOK.refl hinv, 2 * W k + 4, by omega, expand_ok hm⟩
  | @seq1 fr c0 t1 R R1 R0 k0 n1 n hT hk hc h1 hn ih =>
    intro _
    simp only [Task.step]
    cases hr : t1.ret? with
    | some r1 =>
      simp only
      refine ⟨StOK.refl hinv, W k0 + 3, by omega, ?_⟩
      exact .seq0 hT hk (h1.ret_den hr) (.call hc (Nat.le_refl _)) (Nat.le_refl _)
    | none =>
      simp only
      obtain ⟨hst, n', hlt, hok⟩ := ih hr
      exact ⟨hst, n' + W k0 + 4, by omega,
        .seq1 hT (hk.mono hst.le) (hc.mono hst.le) hok (Nat.le_refl _)⟩
  | @seq0 fr r1 t0 R R1 R0 n0 n hT hk hr1 h0 hn ih =>
    intro _
    simp only [Task.step]
    cases hr : t0.ret? with
    | some r0 =>
      simp only
      exact reduce_ok gt hinv hT hk hr1 (h0.ret_den hr) (by omega)
    | none =>
      simp only
      obtain ⟨hst, n', hlt, hok⟩ := ih hr
      exact ⟨hst, n' + 3, by omega,
        .seq0 hT (hk.mono hst.le) (hr1.mono hst.le) hok (Nat.le_refl _)⟩
  | @made key r R n hk hr hn =>
    intro _
    simp only [Task.step]
    exact ⟨StOK.add pok hinv hk hr gt tagOf, 0, by omega, .ret hr⟩

end OxiddModel.Mtbdd.Threads
