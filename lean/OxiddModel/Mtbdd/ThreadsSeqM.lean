import OxiddModel.Mtbdd.PropertiesC07TM

/-!
# An MTBDD task running alone *is* `applyS` / `iteS`

The program text of the machine (`ThreadsM.lean`) is meant to be that of the store-level model
`applyS` (`StoreS.lean`), which the store-level streams tie to the real code. This file proves it:
a task `call (bin op f g)` that is the only one scheduled goes, step by step, through exactly the
shared states of `applyS L gt tagOf p op fuel st f g` and ends in `ret` of exactly its result edge —
same store (both tables, slot for slot), same cache, same time stamp, same edge
(`steps_applyS`, `sequential_schedule_is_model`); likewise `call (ite f g h)` and `iteS`
(`steps_iteS`).
-/
set_option linter.unusedSectionVars false
set_option linter.unusedVariables false

namespace OxiddModel.Mtbdd.Threads
open OxiddModel.Mtbdd OxiddModel.Mtbdd.MT OxiddModel.Mtbdd.Refine OxiddModel.CachePolicy

variable {T : Type} [DecidableEq T]

/-- one step of a task running alone -/
def step1 (L : TermOps T) (gt : Edge → Edge → Bool) (p : APolicy) (x : Task × St T) :
    Task × St T :=
  ((x.1.step L gt tagOf p x.2).2, runOpt L gt tagOf p (x.1.step L gt tagOf p x.2).1 x.2)

/-- finitely many steps of an unfinished task running alone -/
inductive Steps (L : TermOps T) (gt : Edge → Edge → Bool) (p : APolicy) :
    Task × St T → Task × St T → Prop
  | refl (x) : Steps L gt p x x
  | step {x y} : x.1.ret? = none → Steps L gt p (step1 L gt p x) y → Steps L gt p x y

theorem Steps.trans {L : TermOps T} {gt : Edge → Edge → Bool} {p : APolicy} {x y z : Task × St T}
    (h1 : Steps L gt p x y) (h2 : Steps L gt p y z) : Steps L gt p x z := by
  induction h1 with
  | refl => exact h2
  | step hr _ ih => exact .step hr (ih h2)

theorem Steps.one {L : TermOps T} {gt : Edge → Edge → Bool} {p : APolicy} {x : Task × St T}
    (hr : x.1.ret? = none) : Steps L gt p x (step1 L gt p x) := .step hr (.refl _)

/-- steps of the then-branch are steps of the `seq1` frame -/
theorem Steps.seq1 {L : TermOps T} {gt : Edge → Edge → Bool} {p : APolicy} (fr : Frame)
    (c0 : Call) {x y : Task × St T} (h : Steps L gt p x y) :
    Steps L gt p (.seq1 fr c0 x.1, x.2) (.seq1 fr c0 y.1, y.2) := by
  induction h with
  | refl => exact .refl _
  | @step x y hr _ ih =>
    refine .step rfl ?_
    have : step1 L gt p (.seq1 fr c0 x.1, x.2) =
        (.seq1 fr c0 (step1 L gt p x).1, (step1 L gt p x).2) := by
      simp only [step1, Task.step, hr]
    rw [this]; exact ih

theorem Steps.seq0 {L : TermOps T} {gt : Edge → Edge → Bool} {p : APolicy} (fr : Frame)
    (r1 : Edge) {x y : Task × St T} (h : Steps L gt p x y) :
    Steps L gt p (.seq0 fr r1 x.1, x.2) (.seq0 fr r1 y.1, y.2) := by
  induction h with
  | refl => exact .refl _
  | @step x y hr _ ih =>
    refine .step rfl ?_
    have : step1 L gt p (.seq0 fr r1 x.1, x.2) =
        (.seq0 fr r1 (step1 L gt p x).1, (step1 L gt p x).2) := by
      simp only [step1, Task.step, hr]
    rw [this]; exact ih

/-- `terminal_bin` changes the store only on a `Done` arm -/
theorem terminalBinS_binary_store (L : TermOps T) (gt : Edge → Edge → Bool) (tg : Op → OpTag)
    (op : Op) (s : Store T) (f g : Edge) {s' : Store T} {tag : OpTag} {o1 o2 : Edge}
    (h : terminalBinS L gt tg op s f g = (s', .binary tag o1 o2)) : s' = s := by
  rcases getTerm_is_getTerminal L gt tg op s f g with h1 | ⟨v, hv⟩
  · rw [h] at h1; exact h1
  · rw [h] at hv
    have := congrArg Prod.snd hv
    cases this

/-- **the machine's sequential instance is `applyS`** -/
theorem steps_applyS {L : TermOps T} {ok : T → Prop} (C : TerminalClosed L ok)
    (M : TerminalComm L ok) (gt : Edge → Edge → Bool) {p : APolicy} (pok : p.OK) (op : Op)
    (fuel : Nat) : ∀ (st : St T) (f g : Edge) (a b : MT T),
    Inv L ok st → Denotes st.store f a → Denotes st.store g b → a.size + b.size ≤ fuel →
    Steps L gt p (.call (.bin op f g), st)
      (.ret (applyS L gt tagOf p op fuel st f g).2, (applyS L gt tagOf p op fuel st f g).1) := by
  induction fuel with
  | zero =>
    intro st f g a b _ _ _ hsz
    have := size_pos a
    omega
  | succ fuel ih =>
    intro st f g a b hinv hf hg hsz
    have hinj := inj_of_unique hinv.1
    have hc := terminalBinS_corr L gt tagOf op hinj hf hg
    generalize hS : terminalBinS L gt tagOf op st.store f g = tb at hc
    obtain ⟨s', os⟩ := tb
    cases os with
    | done e =>
      have e1 : step1 L gt p (.call (.bin op f g), st) = (.ret e, { st with store := s' }) := by
        simp only [step1, Task.step, Call.entry, hS, runOpt, Act.run]
      have e2 : applyS L gt tagOf p op (fuel + 1) st f g = ({ st with store := s' }, e) := by
        simp only [applyS, hS]
      rw [e2, ← e1]; exact Steps.one rfl
    | binary tag o1 o2 =>
      have hs' := terminalBinS_binary_store L gt tagOf op st.store f g hS
      subst hs'
      cases hT : terminalBin L op a b with
      | done t => rw [hT] at hc; exact hc.elim
      | binary =>
      cases hget : p.get st.tick st.cache (tag, [o1, o2]) with
      | some r =>
        have e1 : step1 L gt p (.call (.bin op f g), st) = (.ret r, st.tickd) := by
          simp only [step1, Task.step, Call.entry, query, hS, hget, runOpt, Act.run]
        have e2 : applyS L gt tagOf p op (fuel + 1) st f g = (st.tickd, r) := by
          simp only [applyS, hS, hget]
        rw [e2, ← e1]; exact Steps.one rfl
      | none =>
        obtain ⟨l, hl⟩ := terminalBin_binary_level hT
        have hl' : lmin (st.store.level? f) (st.store.level? g) = some l := by
          rw [level?_denotes hf, level?_denotes hg, hl]
        have sz : (tcofT l a).size + (tcofT l b).size ≤ fuel ∧
            (tcofE l a).size + (tcofE l b).size ≤ fuel := by
          have := tcofT_size_le l a; have := tcofT_size_le l b
          have := tcofE_size_le l a; have := tcofE_size_le l b
          rcases lmin_eq_some hl with h | h
          · have := tcofT_size_lt h; have := tcofE_size_lt h; omega
          · have := tcofT_size_lt h; have := tcofE_size_lt h; omega
        have p1 := applyS_spec C M gt pok op fuel st.tickd _ _ _ _ hinv.tickd
          (cofT_denotes l hf) (cofT_denotes l hg) sz.1
        have s1 := ih st.tickd _ _ _ _ hinv.tickd (cofT_denotes l hf) (cofT_denotes l hg) sz.1
        have s0 := ih _ _ _ _ _ p1.inv ((cofE_denotes l hf).mono p1.le)
          ((cofE_denotes l hg).mono p1.le) sz.2
        simp only [St.tickd_store] at s1 s0
        have e2 : applyS L gt tagOf p op (fuel + 1) st f g =
            finishS p (applyS L gt tagOf p op fuel
                (applyS L gt tagOf p op fuel st.tickd (st.store.cofT l f) (st.store.cofT l g)).1
                (st.store.cofE l f) (st.store.cofE l g)).1 (tag, [o1, o2]) l
              (applyS L gt tagOf p op fuel st.tickd (st.store.cofT l f) (st.store.cofT l g)).2
              (applyS L gt tagOf p op fuel
                (applyS L gt tagOf p op fuel st.tickd (st.store.cofT l f) (st.store.cofT l g)).1
                (st.store.cofE l f) (st.store.cofE l g)).2 := by
          simp only [applyS, hS, hget, hl']
        rw [e2]
        generalize applyS L gt tagOf p op fuel st.tickd (st.store.cofT l f) (st.store.cofT l g)
          = R1 at s1 s0 ⊢
        generalize applyS L gt tagOf p op fuel R1.1 (st.store.cofE l f) (st.store.cofE l g)
          = R0 at s0 ⊢
        have e1 : step1 L gt p (.call (.bin op f g), st) =
            (.miss (.bin op f g) (tag, [o1, o2]), st.tickd) := by
          simp only [step1, Task.step, Call.entry, query, hS, hget, runOpt, Act.run]
        refine .step rfl ?_
        rw [e1]
        have e3 : step1 L gt p (.miss (.bin op f g) (tag, [o1, o2]), st.tickd) =
            (.seq1 ⟨(tag, [o1, o2]), l⟩ (.bin op (st.store.cofE l f) (st.store.cofE l g))
              (.call (.bin op (st.store.cofT l f) (st.store.cofT l g))), st.tickd) := by
          simp only [step1, Task.step, Call.expand, St.tickd_store, hl', runOpt]
        refine .step rfl ?_
        rw [e3]
        refine (Steps.seq1 _ _ s1).trans ?_
        refine .step rfl ?_
        have e4 : step1 L gt p (.seq1 ⟨(tag, [o1, o2]), l⟩
              (.bin op (st.store.cofE l f) (st.store.cofE l g)) (.ret R1.2), R1.1) =
            (.seq0 ⟨(tag, [o1, o2]), l⟩ R1.2
              (.call (.bin op (st.store.cofE l f) (st.store.cofE l g))), R1.1) := by
          simp only [step1, Task.step, Task.ret?, runOpt]
        rw [e4]
        refine (Steps.seq0 _ _ s0).trans ?_
        refine .step rfl ?_
        have e5 : step1 L gt p (.seq0 ⟨(tag, [o1, o2]), l⟩ R1.2 (.ret R0.2), R0.1) =
            (.made (tag, [o1, o2]) (R0.1.store.mkNode l R1.2 R0.2).2,
             { R0.1 with store := (R0.1.store.mkNode l R1.2 R0.2).1 }) := by
          simp only [step1, Task.step, Task.ret?, reduceOut, runOpt, Act.run]
        rw [e5]
        refine .step rfl ?_
        have e6 : step1 L gt p (.made (tag, [o1, o2]) (R0.1.store.mkNode l R1.2 R0.2).2,
             { R0.1 with store := (R0.1.store.mkNode l R1.2 R0.2).1 }) =
            (.ret (finishS p R0.1 (tag, [o1, o2]) l R1.2 R0.2).2,
             (finishS p R0.1 (tag, [o1, o2]) l R1.2 R0.2).1) := by
          simp only [step1, Task.step, runOpt, Act.run, finishS]
        rw [e6]
        exact .refl _

/-- **the machine's sequential instance of `apply_ite` is `iteS`** -/
theorem steps_iteS {L : TermOps T} {ok : T → Prop} (gt : Edge → Edge → Bool) {p : APolicy}
    (pok : p.OK) (fuel : Nat) : ∀ (st : St T) (f g h : Edge) (a b c : MT T),
    Inv L ok st → Denotes st.store f a → Denotes st.store g b → Denotes st.store h c →
    a.size + b.size + c.size ≤ fuel →
    Steps L gt p (.call (.ite f g h), st)
      (.ret (iteS L p fuel st f g h).2, (iteS L p fuel st f g h).1) := by
  induction fuel with
  | zero =>
    intro st f g h a b c _ _ _ _ hsz
    have := size_pos a
    omega
  | succ fuel ih =>
    intro st f g h a b c hinv hf hg hh hsz
    by_cases hgh : g = h
    · have e1 : step1 L gt p (.call (.ite f g h), st) = (.ret g, st) := by
        simp only [step1, Task.step, Call.entry, hgh, if_true, runOpt]
      have e2 : iteS L p (fuel + 1) st f g h = (st, g) := by simp only [iteS, hgh, if_true]
      rw [e2, ← e1]; exact Steps.one rfl
    · cases hf with
      | @term i x hi =>
        have e1 : step1 L gt p (.call (.ite (.term i) g h), st) =
            (.ret (if x = L.zero then h else g), st) := by
          simp only [step1, Task.step, Call.entry, hgh, if_false, hi, runOpt]
        have e2 : iteS L p (fuel + 1) st (.term i) g h = (st, if x = L.zero then h else g) := by
          simp only [iteS, hgh, if_false, hi]
        rw [e2, ← e1]; exact Steps.one rfl
      | @inner i lf t e tt te hi hft hfe =>
        have hdf : Denotes st.store (.inner i) (.node lf tt te) := .inner hi hft hfe
        cases hget : p.get st.tick st.cache (.ite, [.inner i, g, h]) with
        | some r =>
          have e1 : step1 L gt p (.call (.ite (.inner i) g h), st) = (.ret r, st.tickd) := by
            simp only [step1, Task.step, Call.entry, hgh, if_false, query, hget, runOpt, Act.run]
          have e2 : iteS L p (fuel + 1) st (.inner i) g h = (st.tickd, r) := by
            simp only [iteS, hgh, if_false, hget]
          rw [e2, ← e1]; exact Steps.one rfl
        | none =>
          obtain ⟨l, hl⟩ := ite_level lf tt te b c
          have hl' : lmin (lmin (st.store.level? (.inner i)) (st.store.level? g))
              (st.store.level? h) = some l := by
            rw [level?_denotes hdf, level?_denotes hg, level?_denotes hh, hl]
          have sz := ite_cof_sizes hl
          have p1 := iteS_spec (L := L) (ok := ok) pok fuel st.tickd _ _ _ _ _ _ hinv.tickd
            (cofT_denotes l hdf) (cofT_denotes l hg) (cofT_denotes l hh) (by omega)
          have s1 := ih st.tickd _ _ _ _ _ _ hinv.tickd (cofT_denotes l hdf) (cofT_denotes l hg)
            (cofT_denotes l hh) (by omega)
          have s0 := ih _ _ _ _ _ _ _ p1.inv ((cofE_denotes l hdf).mono p1.le)
            ((cofE_denotes l hg).mono p1.le) ((cofE_denotes l hh).mono p1.le) (by omega)
          simp only [St.tickd_store] at s1 s0
          have e2 : iteS L p (fuel + 1) st (.inner i) g h =
              finishS p (iteS L p fuel
                  (iteS L p fuel st.tickd (st.store.cofT l (.inner i)) (st.store.cofT l g)
                    (st.store.cofT l h)).1
                  (st.store.cofE l (.inner i)) (st.store.cofE l g) (st.store.cofE l h)).1
                (.ite, [.inner i, g, h]) l
                (iteS L p fuel st.tickd (st.store.cofT l (.inner i)) (st.store.cofT l g)
                  (st.store.cofT l h)).2
                (iteS L p fuel
                  (iteS L p fuel st.tickd (st.store.cofT l (.inner i)) (st.store.cofT l g)
                    (st.store.cofT l h)).1
                  (st.store.cofE l (.inner i)) (st.store.cofE l g) (st.store.cofE l h)).2 := by
            simp only [iteS, hgh, if_false, hget, hl']
          rw [e2]
          generalize iteS L p fuel st.tickd (st.store.cofT l (.inner i)) (st.store.cofT l g)
            (st.store.cofT l h) = R1 at s1 s0 ⊢
          generalize iteS L p fuel R1.1 (st.store.cofE l (.inner i)) (st.store.cofE l g)
            (st.store.cofE l h) = R0 at s0 ⊢
          have e1 : step1 L gt p (.call (.ite (.inner i) g h), st) =
              (.miss (.ite (.inner i) g h) (.ite, [.inner i, g, h]), st.tickd) := by
            simp only [step1, Task.step, Call.entry, hgh, if_false, query, hget, runOpt, Act.run]
          refine .step rfl ?_
          rw [e1]
          have e3 : step1 L gt p (.miss (.ite (.inner i) g h) (.ite, [.inner i, g, h]), st.tickd) =
              (.seq1 ⟨(.ite, [.inner i, g, h]), l⟩
                (.ite (st.store.cofE l (.inner i)) (st.store.cofE l g) (st.store.cofE l h))
                (.call (.ite (st.store.cofT l (.inner i)) (st.store.cofT l g) (st.store.cofT l h))),
               st.tickd) := by
            simp only [step1, Task.step, Call.expand, St.tickd_store, hl', runOpt]
          refine .step rfl ?_
          rw [e3]
          refine (Steps.seq1 _ _ s1).trans ?_
          refine .step rfl ?_
          have e4 : step1 L gt p (.seq1 ⟨(.ite, [.inner i, g, h]), l⟩
                (.ite (st.store.cofE l (.inner i)) (st.store.cofE l g) (st.store.cofE l h))
                (.ret R1.2), R1.1) =
              (.seq0 ⟨(.ite, [.inner i, g, h]), l⟩ R1.2
                (.call (.ite (st.store.cofE l (.inner i)) (st.store.cofE l g) (st.store.cofE l h))),
               R1.1) := by
            simp only [step1, Task.step, Task.ret?, runOpt]
          rw [e4]
          refine (Steps.seq0 _ _ s0).trans ?_
          refine .step rfl ?_
          have e5 : step1 L gt p (.seq0 ⟨(.ite, [.inner i, g, h]), l⟩ R1.2 (.ret R0.2), R0.1) =
              (.made (.ite, [.inner i, g, h]) (R0.1.store.mkNode l R1.2 R0.2).2,
               { R0.1 with store := (R0.1.store.mkNode l R1.2 R0.2).1 }) := by
            simp only [step1, Task.step, Task.ret?, reduceOut, runOpt, Act.run]
          rw [e5]
          refine .step rfl ?_
          have e6 : step1 L gt p (.made (.ite, [.inner i, g, h]) (R0.1.store.mkNode l R1.2 R0.2).2,
               { R0.1 with store := (R0.1.store.mkNode l R1.2 R0.2).1 }) =
              (.ret (finishS p R0.1 (.ite, [.inner i, g, h]) l R1.2 R0.2).2,
               (finishS p R0.1 (.ite, [.inner i, g, h]) l R1.2 R0.2).1) := by
            simp only [step1, Task.step, runOpt, Act.run, finishS]
          rw [e6]
          exact .refl _

theorem Steps.run {L : TermOps T} {gt : Edge → Edge → Bool} {p : APolicy} {x y : Task × St T}
    (h : Steps L gt p x y) :
    ∃ n, Cfg.run L gt tagOf p ⟨x.2, [x.1]⟩ (List.replicate n 0) = ⟨y.2, [y.1]⟩ ∧
      Cfg.allEnabled L gt tagOf p ⟨x.2, [x.1]⟩ (List.replicate n 0) = true := by
  induction h with
  | refl => exact ⟨0, rfl, rfl⟩
  | @step x y hr _ ih =>
    obtain ⟨n, hn, hen⟩ := ih
    have hs : Cfg.step L gt tagOf p ⟨x.2, [x.1]⟩ 0 =
        ⟨(step1 L gt p x).2, [(step1 L gt p x).1]⟩ := by
      simp [Cfg.step, hr, step1]
    refine ⟨n + 1, ?_, ?_⟩
    · simp only [List.replicate_succ, Cfg.run, hs]; exact hn
    · simp only [List.replicate_succ, Cfg.allEnabled, hs, Bool.and_eq_true]
      exact ⟨by simp [Cfg.enabled, hr], hen⟩

/-- **The machine's sequential instance is the model.** One operation, selected again and again:
after some number of (all enabled) selections the configuration is exactly the model's result —
`Call.seq`'s (= `applyS`'s / `iteS`'s) store (both tables, slot for slot), cache, time stamp, and
the task is `ret` of the model's edge. -/
theorem sequential_schedule_is_model {L : TermOps T} {ok : T → Prop} (C : TerminalClosed L ok)
    (M : TerminalComm L ok) (gt : Edge → Edge → Bool) {p : APolicy} (pok : p.OK) (st : St T)
    (j : Call) (hinv : Inv L ok st) (ts : List (MT T)) (hts : DenotesL st.store j.operands ts)
    (fuel : Nat) (hfuel : sizeSum ts ≤ fuel) :
    ∃ n, (Cfg.init st [j]).run L gt tagOf p (List.replicate n 0) =
        ⟨(j.seq L gt p fuel st).1, [.ret (j.seq L gt p fuel st).2]⟩ ∧
      (Cfg.init st [j]).allEnabled L gt tagOf p (List.replicate n 0) = true := by
  cases j with
  | bin op f g =>
    obtain ⟨a, b, rfl, ha, hb⟩ := denotesL_two_inv hts
    exact (steps_applyS C M gt pok op fuel st f g a b hinv ha hb
      (by simp [sizeSum] at hfuel; omega)).run
  | ite f g h =>
    obtain ⟨a, b, c, rfl, ha, hb, hc⟩ := denotesL_three_inv hts
    exact (steps_iteS gt pok fuel st f g h a b c hinv ha hb hc
      (by simp [sizeSum] at hfuel; omega)).run

/-- non-vacuity on the example state of `PropertiesC07TM.lean` -/
example := sequential_schedule_is_model i64_terminalClosed i64_terminalComm Edge.gtIdx exPol_ok exSt
  (.bin .add x0 x1) exSt_inv _ ex01 6 (by decide)
example := sequential_schedule_is_model i64_terminalClosed i64_terminalComm Edge.gtIdx exPol_ok exSt
  (.ite x0 x1 x0) exSt_inv _ ex010 9 (by decide)

end OxiddModel.Mtbdd.Threads
