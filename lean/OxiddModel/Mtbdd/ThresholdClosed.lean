import OxiddModel.Mtbdd.PropertiesC14T
import OxiddModel.Mtbdd.PropertiesS

/-!
# C14 for MTBDDs: the two `needed` numbers in closed form

For `apply_bin::<OP>` and `apply_ite` the final store of the capacity-free run is `intern s R` for
the specified result tree `R` (`Post.canon` of `ApplyS.lean`; node table *and* terminal table: no
intermediate garbage, no intermediate terminal). Hence from a hash-consed, reduced store with a
sound cache, valid terminals and sufficient fuel

  `neededNodes = freshN s R`, `neededTerms = freshT s R`

(the inner nodes / terminal values of the result that `s` does not hold yet) — independent of the
cache policy, the cache content, the fuel and the edge order `gt`.
-/
set_option linter.unusedSectionVars false

namespace OxiddModel.Mtbdd.C14T
open OxiddModel.Mtbdd OxiddModel.Mtbdd.Refine OxiddModel.Mtbdd.Rc OxiddModel.CachePolicy OxiddModel

variable {T : Type} [DecidableEq T]

/-- inner-node slots that entering the tree `R` into store `s` takes -/
def freshN (s : Store T) (R : MT T) : Nat := slotCount (intern s R).1.nodes - slotCount s.nodes
/-- terminal slots it takes -/
def freshT (s : Store T) (R : MT T) : Nat := slotCount (intern s R).1.terms - slotCount s.terms

theorem growth_eq_fresh {L : TermOps T} {ok : T → Prop} {s : Store T} {R : MT T}
    {r : St T × Edge} (h : Post L ok s R r) (hr : s.NoRed) :
    growthN s r = freshN s R ∧ growthT s r = freshT s R := by
  have := congrArg Prod.fst (h.canon hr)
  simp only at this
  unfold growthN growthT freshN freshT
  rw [this]
  exact ⟨rfl, rfl⟩

/-- **`neededNodes`, `neededTerms` of `apply_bin` depend on the store and the result tree only** -/
theorem neededApply_eq_fresh {L : TermOps T} {ok : T → Prop} (C : TerminalClosed L ok)
    (M : TerminalComm L ok) (gt : Edge → Edge → Bool) {p : APolicy} (pok : p.OK) (op : Op)
    (fuel : Nat) (st : St T) (f g : Edge) (a b : MT T) (hu : st.store.Unique)
    (hok : st.store.TermsOK ok) (hr : st.store.NoRed) (hc : CacheOK L st.store st.cache)
    (hf : Denotes st.store f a) (hg : Denotes st.store g b) (hfuel : a.size + b.size ≤ fuel) :
    neededNodesApply L gt tagOf p op fuel st f g = freshN st.store (applyBin L op a b) ∧
    neededTermsApply L gt tagOf p op fuel st f g = freshT st.store (applyBin L op a b) :=
  growth_eq_fresh (applyS_spec C M gt pok op fuel st f g a b ⟨hu, hok, hc⟩ hf hg hfuel) hr

theorem neededIte_eq_fresh {L : TermOps T} {ok : T → Prop} {p : APolicy} (pok : p.OK)
    (fuel : Nat) (st : St T) (f g h : Edge) (a b c : MT T) (hu : st.store.Unique)
    (hok : st.store.TermsOK ok) (hr : st.store.NoRed) (hc : CacheOK L st.store st.cache)
    (hf : Denotes st.store f a) (hg : Denotes st.store g b) (hh : Denotes st.store h c)
    (hfuel : a.size + b.size + c.size ≤ fuel) :
    neededNodesIte L p fuel st f g h = freshN st.store (applyIte L a b c) :=
  (growth_eq_fresh (iteS_spec pok fuel st f g h a b c ⟨hu, hok, hc⟩ hf hg hh hfuel) hr).1

/-- **the two thresholds in closed form** (numeric capacities): OutOfMemory iff the result has
inner nodes that are not stored and the node capacity is below `nodes + (their number)`, or it has
terminal values that are not stored and the terminal capacity is below `terms + (their number)` -/
theorem apply_oom_iff_fresh {L : TermOps T} {ok : T → Prop} (C : TerminalClosed L ok)
    (M : TerminalComm L ok) (gt : Edge → Edge → Bool) {p : APolicy} (pok : p.OK) (cn ct : Nat)
    (op : Op) (fuel : Nat) (r : RSt T) (f g : Edge) (a b : MT T) (hu : r.st.store.Unique)
    (hok : r.st.store.TermsOK ok) (hr : r.st.store.NoRed) (hc : CacheOK L r.st.store r.st.cache)
    (hf : Denotes r.st.store f a) (hg : Denotes r.st.store g b) (hfuel : a.size + b.size ≤ fuel) :
    (applyR L gt tagOf ⟨some cn, some ct⟩ p op fuel r f g).1 = none ↔
      (0 < freshN r.st.store (applyBin L op a b) ∧
        cn < r.numInner + freshN r.st.store (applyBin L op a b)) ∨
      (0 < freshT r.st.store (applyBin L op a b) ∧
        ct < r.numTerms + freshT r.st.store (applyBin L op a b)) := by
  obtain ⟨e1, e2⟩ := neededApply_eq_fresh C M gt pok op fuel r.st f g a b hu hok hr hc hf hg hfuel
  rw [apply_oom_iff_needed_num, e1, e2]

/-- the instance for the manager's `I64` terminals -/
theorem apply_oom_iff_fresh_i64 (gt : Edge → Edge → Bool) {p : APolicy} (pok : p.OK) (cn ct : Nat)
    (op : Op) (fuel : Nat) (r : RSt I64) (f g : Edge) (a b : MT I64) (hu : r.st.store.Unique)
    (hok : r.st.store.TermsOK I64.Valid) (hr : r.st.store.NoRed)
    (hc : CacheOK i64Ops r.st.store r.st.cache) (hf : Denotes r.st.store f a)
    (hg : Denotes r.st.store g b) (hfuel : a.size + b.size ≤ fuel) :
    (applyR i64Ops gt tagOf ⟨some cn, some ct⟩ p op fuel r f g).1 = none ↔
      (0 < freshN r.st.store (applyBin i64Ops op a b) ∧
        cn < r.numInner + freshN r.st.store (applyBin i64Ops op a b)) ∨
      (0 < freshT r.st.store (applyBin i64Ops op a b) ∧
        ct < r.numTerms + freshT r.st.store (applyBin i64Ops op a b)) :=
  apply_oom_iff_fresh i64_terminalClosed i64_terminalComm gt pok cn ct op fuel r f g a b hu hok hr hc
    hf hg hfuel

open OxiddModel.Mtbdd.StoreLevel in
/-- non-vacuity (`StoreLevel.exStore` holds `x0`, `x1` and the terminals `1`, `0`): `x0 + x1` has
two inner nodes and one terminal value (`2`) that are not stored — with and without a cache -/
example : freshN exStore (applyBin i64Ops .add exX0 exX1) = 2 ∧
    freshT exStore (applyBin i64Ops .add exX0 exX1) = 1 ∧
    neededNodesApply i64Ops Edge.gtIdx tagOf Policy.exact .add 10 ⟨exStore, [], 0⟩ (.inner 0) (.inner 1) = 2 ∧
    neededTermsApply i64Ops Edge.gtIdx tagOf Policy.none .add 10 ⟨exStore, [], 0⟩ (.inner 0) (.inner 1) = 1 := by
  decide +kernel

end OxiddModel.Mtbdd.C14T
