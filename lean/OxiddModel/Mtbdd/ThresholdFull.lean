import OxiddModel.Mtbdd.PropertiesC14T

/-!
# After a failed MTBDD operation one of the two stores is exactly full; no capacity is exceeded

Capped side alone: every run of `applyR / iteR` under capacities `caps` never removes an inner node
or a terminal, keeps each store within its capacity if it started within it, and reports
OutOfMemory only when the inner-node store **or** the terminal store holds at least its capacity.
Hence (`C14T.apply_failed_full`, `apply_success_counts`) after a failure from stores within their
capacities `numInner = nodeCap ∨ numTerms = termCap`, after a success
`numInner = nodes + neededNodes` and `numTerms = terms + neededTerms`.
-/
set_option linter.unusedSectionVars false

namespace OxiddModel.Mtbdd.Rc
open OxiddModel.Mtbdd OxiddModel.Mtbdd.Refine OxiddModel.CachePolicy OxiddModel

variable {T : Type}

/-- at least `cap` slots are occupied (never for an unbounded store) -/
def atCap : Option Nat → Nat → Prop
  | none, _ => False
  | some c, n => c ≤ n

structure Full (caps : Caps) (s : Store T) (R : Option Edge × RSt T) : Prop where
  mono : Grows s R.2.st.store
  boundN : within caps.node (slotCount s.nodes) → within caps.node (slotCount R.2.st.store.nodes)
  boundT : within caps.term (slotCount s.terms) → within caps.term (slotCount R.2.st.store.terms)
  err : R.1 = none → atCap caps.node (slotCount R.2.st.store.nodes) ∨
    atCap caps.term (slotCount R.2.st.store.terms)

theorem Full.pure {caps : Caps} {s : Store T} {x : Edge} {r : RSt T} (h : r.st.store = s) :
    Full caps s (some x, r) := by
  refine ⟨?_, fun hc => ?_, fun hc => ?_, fun h => by cases h⟩
  · show Grows s r.st.store; rw [h]; exact Grows.refl _
  · show within caps.node (slotCount r.st.store.nodes); rw [h]; exact hc
  · show within caps.term (slotCount r.st.store.terms); rw [h]; exact hc

theorem Full.seq {caps : Caps} {s : Store T} {r1 : RSt T} {o1 : Option Edge}
    {R : Option Edge × RSt T} (h1 : Full caps s (o1, r1)) (h : Full caps r1.st.store R) :
    Full caps s R :=
  ⟨h1.mono.trans h.mono, fun hc => h.boundN (h1.boundN hc), fun hc => h.boundT (h1.boundT hc), h.err⟩

theorem Full.fail {caps : Caps} {s : Store T} {r1 r' : RSt T} (h1 : Full caps s (none, r1))
    (hs : r'.st.store = r1.st.store) : Full caps s (none, r') := by
  refine ⟨?_, fun hc => ?_, fun hc => ?_, fun _ => ?_⟩
  · show Grows s r'.st.store; rw [hs]; exact h1.mono
  · show within caps.node (slotCount r'.st.store.nodes); rw [hs]; exact h1.boundN hc
  · show within caps.term (slotCount r'.st.store.terms); rw [hs]; exact h1.boundT hc
  · show atCap caps.node (slotCount r'.st.store.nodes) ∨ atCap caps.term (slotCount r'.st.store.terms)
    rw [hs]; exact h1.err rfl

theorem not_room (cap : Option Nat) (n : Nat) (h : ¬ room cap n = true) : atCap cap n := by
  cases cap with
  | none => simp [room] at h
  | some c => simp only [room, decide_eq_true_eq] at h; simp only [atCap]; omega

variable [DecidableEq T]

theorem getTerminalR_full (caps : Caps) (r : RSt T) (v : T) :
    Full caps r.st.store (getTerminalR caps.term r v) := by
  unfold getTerminalR
  cases hf : Slots.find? r.st.store.terms v with
  | some i => exact Full.pure (by simp)
  | none =>
    simp only
    by_cases hc : room caps.term (slotCount r.st.store.terms) = true
    · simp only [hc, if_true]
      refine ⟨⟨Nat.le_refl _, ?_⟩, fun h => h, fun _ => ?_, fun h => by cases h⟩
      · show slotCount r.st.store.terms ≤ slotCount (Slots.alloc r.st.store.terms v).1
        rw [slotCount_alloc]; omega
      · show within caps.term (slotCount (Slots.alloc r.st.store.terms v).1)
        rw [slotCount_alloc]; exact (room_iff _ _).mp hc
    · simp only [hc, Bool.false_eq_true, if_false]
      exact ⟨Grows.refl _, fun h => h, fun h => h, fun _ => .inr (not_room _ _ hc)⟩

theorem insertR_full (caps : Caps) (r : RSt T) (l : Nat) (t e : Edge) :
    Full caps r.st.store (insertR caps.node r l t e) := by
  unfold insertR
  cases hf : Slots.find? r.st.store.nodes ⟨l, t, e⟩ with
  | some i => exact Full.pure (by simp)
  | none =>
    simp only
    by_cases hc : room caps.node (slotCount r.st.store.nodes) = true
    · simp only [hc, if_true]
      refine ⟨⟨?_, Nat.le_refl _⟩, fun _ => ?_, fun h => h, fun h => by cases h⟩
      · show slotCount r.st.store.nodes ≤ slotCount (Slots.alloc r.st.store.nodes ⟨l, t, e⟩).1
        rw [slotCount_alloc]; omega
      · show within caps.node (slotCount (Slots.alloc r.st.store.nodes ⟨l, t, e⟩).1)
        rw [slotCount_alloc]; exact (room_iff _ _).mp hc
    · simp only [hc, Bool.false_eq_true, if_false]
      refine ⟨?_, fun h => ?_, fun h => ?_, fun _ => .inl ?_⟩
      · simp only [dropEdge_st]; exact Grows.refl _
      · simp only [dropEdge_st]; exact h
      · simp only [dropEdge_st]; exact h
      · simp only [dropEdge_st]; exact not_room _ _ hc

theorem mkNodeR_full (caps : Caps) (r : RSt T) (l : Nat) (t e : Edge) :
    Full caps r.st.store (mkNodeR caps.node r l t e) := by
  unfold mkNodeR
  split
  · exact Full.pure (by simp)
  · exact insertR_full caps r l t e

theorem finishR_full (caps : Caps) (p : APolicy) (r : RSt T) (key : Key) (l : Nat)
    (e1 e0 : Edge) : Full caps r.st.store (finishR caps.node p r key l e1 e0) := by
  unfold finishR
  have h := mkNodeR_full caps r l e1 e0
  cases hR : mkNodeR caps.node r l e1 e0 with
  | mk o r' =>
    rw [hR] at h
    cases o with
    | none => exact h
    | some x => exact ⟨h.mono, h.boundN, h.boundT, fun e => by cases e⟩

theorem forkR_full {caps : Caps} {p : APolicy} {key : Key} {l : Nat}
    {c1 c0 : RSt T → Option Edge × RSt T} (h1 : ∀ r, Full caps r.st.store (c1 r))
    (h0 : ∀ r, Full caps r.st.store (c0 r)) (r : RSt T) :
    Full caps r.st.store (forkR caps.node p key l c1 c0 r) := by
  unfold forkR
  have a := h1 r
  cases hc1 : c1 r with
  | mk o1 r1 =>
    rw [hc1] at a
    cases o1 with
    | none => exact a
    | some x1 =>
      simp only
      have b := h0 r1
      cases hc0 : c0 r1 with
      | mk o0 r0 =>
        rw [hc0] at b
        cases o0 with
        | none => exact a.seq (Full.fail b (by simp))
        | some x0 => exact a.seq (b.seq (finishR_full caps p r0 key l x1 x0))

/-- **`applyR` never exceeds a capacity and fails only when one of the stores is full** -/
theorem applyR_full (L : TermOps T) (gt : Edge → Edge → Bool) (tg : Op → OpTag) (caps : Caps)
    (p : APolicy) (op : Op) (fuel : Nat) : ∀ (r : RSt T) (f g : Edge),
    Full caps r.st.store (applyR L gt tg caps p op fuel r f g) := by
  induction fuel with
  | zero => intro r f g; simp only [applyR]; exact Full.pure (by simp)
  | succ fuel ih =>
    intro r f g
    simp only [applyR]
    cases hP : terminalBinP L gt tg op r.st.store f g with
    | clone h => exact Full.pure (by simp)
    | term v => exact getTerminalR_full caps r v
    | binary tag o1 o2 =>
      simp only
      cases hget : p.get r.st.tick r.st.cache (tag, [o1, o2]) with
      | some h => exact Full.pure (by simp)
      | none =>
        simp only
        cases hl : lmin (r.st.store.level? f) (r.st.store.level? g) with
        | none => exact Full.pure (by simp)
        | some l => exact forkR_full (fun s => ih s _ _) (fun s => ih s _ _) r.tickd

theorem iteR_full (L : TermOps T) (caps : Caps) (p : APolicy) (fuel : Nat) :
    ∀ (r : RSt T) (f g h : Edge), Full caps r.st.store (iteR L caps p fuel r f g h) := by
  induction fuel with
  | zero => intro r f g h; simp only [iteR]; exact Full.pure (by simp)
  | succ fuel ih =>
    intro r f g h
    simp only [iteR]
    by_cases hgh : g = h
    · simp only [hgh, if_true]; exact Full.pure (by simp)
    · simp only [hgh, if_false]
      cases f with
      | term i =>
        simp only
        cases hi : r.st.store.getTerm? i with
        | none => exact Full.pure (by simp)
        | some t => exact Full.pure (by simp)
      | inner i =>
        simp only
        cases hget : p.get r.st.tick r.st.cache (.ite, [.inner i, g, h]) with
        | some y => exact Full.pure (by simp)
        | none =>
          simp only
          cases hl : lmin (lmin (r.st.store.level? (.inner i)) (r.st.store.level? g)) (r.st.store.level? h) with
          | none => exact Full.pure (by simp)
          | some l => exact forkR_full (fun s => ih s _ _ _) (fun s => ih s _ _ _) r.tickd

end OxiddModel.Mtbdd.Rc

namespace OxiddModel.Mtbdd.C14T
open OxiddModel.Mtbdd OxiddModel.Mtbdd.Refine OxiddModel.Mtbdd.Rc OxiddModel.CachePolicy OxiddModel

variable {T : Type} [DecidableEq T]

/-- **after a failed `apply_bin` one of the two stores is exactly full, and neither capacity is
exceeded** (started within both capacities) -/
theorem apply_failed_full (L : TermOps T) (gt : Edge → Edge → Bool) (tg : Op → OpTag)
    (cn ct : Nat) (p : APolicy) (op : Op) (fuel : Nat) (r : RSt T) (f g : Edge)
    (hn : r.numInner ≤ cn) (ht : r.numTerms ≤ ct) :
    (applyR L gt tg ⟨some cn, some ct⟩ p op fuel r f g).2.numInner ≤ cn ∧
    (applyR L gt tg ⟨some cn, some ct⟩ p op fuel r f g).2.numTerms ≤ ct ∧
    ((applyR L gt tg ⟨some cn, some ct⟩ p op fuel r f g).1 = none →
      (applyR L gt tg ⟨some cn, some ct⟩ p op fuel r f g).2.numInner = cn ∨
      (applyR L gt tg ⟨some cn, some ct⟩ p op fuel r f g).2.numTerms = ct) := by
  have h := applyR_full L gt tg ⟨some cn, some ct⟩ p op fuel r f g
  have a : (applyR L gt tg ⟨some cn, some ct⟩ p op fuel r f g).2.numInner ≤ cn := h.boundN hn
  have b : (applyR L gt tg ⟨some cn, some ct⟩ p op fuel r f g).2.numTerms ≤ ct := h.boundT ht
  refine ⟨a, b, fun herr => ?_⟩
  rcases h.err herr with e | e
  · exact .inl (Nat.le_antisymm a e)
  · exact .inr (Nat.le_antisymm b e)

/-- after a successful `apply_bin` exactly `neededNodes` / `neededTerms` more slots are in use -/
theorem apply_success_counts (L : TermOps T) (gt : Edge → Edge → Bool) (tg : Op → OpTag)
    (caps : Caps) (p : APolicy) (op : Op) (fuel : Nat) (r : RSt T) (f g x : Edge)
    (hx : (applyR L gt tg caps p op fuel r f g).1 = some x) :
    (applyR L gt tg caps p op fuel r f g).2.numInner =
      r.numInner + neededNodesApply L gt tg p op fuel r.st f g ∧
    (applyR L gt tg caps p op fuel r f g).2.numTerms =
      r.numTerms + neededTermsApply L gt tg p op fuel r.st f g := by
  have e := applyR_erase' L gt tg caps p op fuel r f g x hx
  have m := (applyR_full L gt tg caps p op fuel r f g).mono
  unfold neededNodesApply neededTermsApply growthN growthT
  rw [e]
  simp only [RSt.numInner, RSt.numTerms]
  unfold Grows at m
  omega

theorem ite_failed_full (L : TermOps T) (cn ct : Nat) (p : APolicy) (fuel : Nat) (r : RSt T)
    (f g h : Edge) (hn : r.numInner ≤ cn) (ht : r.numTerms ≤ ct)
    (herr : (iteR L ⟨some cn, some ct⟩ p fuel r f g h).1 = none) :
    (iteR L ⟨some cn, some ct⟩ p fuel r f g h).2.numInner = cn ∨
    (iteR L ⟨some cn, some ct⟩ p fuel r f g h).2.numTerms = ct := by
  have hf := iteR_full L ⟨some cn, some ct⟩ p fuel r f g h
  have a : (iteR L ⟨some cn, some ct⟩ p fuel r f g h).2.numInner ≤ cn := hf.boundN hn
  have b : (iteR L ⟨some cn, some ct⟩ p fuel r f g h).2.numTerms ≤ ct := hf.boundT ht
  rcases hf.err herr with e | e
  · exact .inl (Nat.le_antisymm a e)
  · exact .inr (Nat.le_antisymm b e)

open OxiddModel.Mtbdd.C05R in
/-- non-vacuity: `x1 + x0` under (3, 3) fails with the node store full (3 nodes, 3 terminals: the
terminal `2` and one node stay as garbage); under (4, 2) it fails with the terminal store full and
nothing allocated -/
example :
    (applyR i64Ops Edge.gtIdx tagOf ⟨some 3, some 3⟩ Policy.exact .add 10 (exRun 2).r (.inner 1) (.inner 0)).2.numInner = 3 ∧
    (applyR i64Ops Edge.gtIdx tagOf ⟨some 3, some 3⟩ Policy.exact .add 10 (exRun 2).r (.inner 1) (.inner 0)).2.numTerms = 3 ∧
    (applyR i64Ops Edge.gtIdx tagOf ⟨some 4, some 2⟩ Policy.exact .add 10 (exRun 2).r (.inner 1) (.inner 0)).2.numInner = 2 ∧
    (applyR i64Ops Edge.gtIdx tagOf ⟨some 4, some 2⟩ Policy.exact .add 10 (exRun 2).r (.inner 1) (.inner 0)).2.numTerms = 2 := by
  decide +kernel

end OxiddModel.Mtbdd.C14T
