import OxiddModel.Mtbdd.RcSLemmas

/-!
# The out-of-memory thresholds of the MTBDD operations — exactly, for both capacities

`Mtbdd/RcS.lean` runs `apply_bin::<OP>`, `apply_ite`, `constant_edge` and `var_edge` on the store
with counters and **two capacities**: the inner-node store (`add_node` fails when a fresh slot is
needed and `slotCount nodes = caps.node`) and the terminal store (`get_edge` fails when a fresh
terminal is needed and `slotCount terms = caps.term`). `RcSLemmas.lean` proves that a *successful*
capped run is the capacity-free run of `StoreS.lean`/`IteS.lean` (`Erases`). This file proves the
converse, which makes it a prediction:

  the capped run succeeds **iff** the capacity-free run `Fits` **both** capacities

where `Fits caps s s'` says for each of the two stores that the final number of occupied slots is
within its capacity or that nothing was allocated in it. The capacity-free run only adds slots
(`applyS_grows`, `iteS_grows`), so there are two separate thresholds:

  OutOfMemory  iff  (0 < neededNodes ∧ caps.node < nodes + neededNodes)
                  ∨ (0 < neededTerms ∧ caps.term < terms + neededTerms).

Structural: for every store, counters, cache, policy, fuel, all operands and all capacities
(`none` = unbounded).
-/
set_option linter.unusedSectionVars false

namespace OxiddModel.Mtbdd.Rc
open OxiddModel.Mtbdd OxiddModel.Mtbdd.Refine OxiddModel.CachePolicy OxiddModel

variable {T : Type}

/-! ## counting -/

theorem slotCount_alloc {α : Type} (a : Array (Option α)) (x : α) :
    slotCount (Slots.alloc a x).1 = slotCount a + 1 := by
  unfold Slots.alloc
  split
  · rename_i i hi
    obtain ⟨hlt, heq⟩ := Array.findIdx?_eq_some_iff_findIdx_eq.mp hi
    have hnone := Array.findIdx_getElem (xs := a) (p := (·.isNone)) (w := by rw [heq]; exact hlt)
    simp only [heq] at hnone
    simp only [slotCount, Array.set!_eq_setIfInBounds, Array.setIfInBounds_def, hlt, dite_true]
    rw [Array.countP_set]
    cases h : a[i] with
    | none => simp
    | some y => rw [h] at hnone; cases hnone
  · simp [slotCount]

theorem slotCount_intern {α : Type} [DecidableEq α] (a : Array (Option α)) (x : α) :
    slotCount (Slots.intern a x).1 =
      if Slots.find? a x = none then slotCount a + 1 else slotCount a := by
  unfold Slots.intern
  cases h : Slots.find? a x with
  | some i => simp
  | none => simp [slotCount_alloc]

/-- `n'` occupied slots are within the capacity (`none` = unbounded) -/
def within : Option Nat → Nat → Prop
  | none, _ => True
  | some c, n => n ≤ c

/-- one store: the final count is within the capacity, or nothing was allocated -/
def FitsO (cap : Option Nat) (n n' : Nat) : Prop := within cap n' ∨ n' = n

theorem FitsO.refl (cap : Option Nat) (n : Nat) : FitsO cap n n := .inr rfl

theorem FitsO.trans {cap : Option Nat} {a b c : Nat} (h1 : FitsO cap a b) (h2 : FitsO cap b c) :
    FitsO cap a c := by
  unfold FitsO at *
  cases cap with
  | none => exact .inl trivial
  | some k => simp only [within] at *; omega

theorem FitsO.split {cap : Option Nat} {a b c : Nat} (h : FitsO cap a c) (h1 : a ≤ b)
    (h2 : b ≤ c) : FitsO cap a b ∧ FitsO cap b c := by
  unfold FitsO at *
  cases cap with
  | none => exact ⟨.inl trivial, .inl trivial⟩
  | some k => simp only [within] at *; omega

/-- `cap ≤ cap'` for optional capacities -/
def capLe : Option Nat → Option Nat → Prop
  | _, none => True
  | none, some _ => False
  | some a, some b => a ≤ b

theorem FitsO.mono {c c' : Option Nat} {a b : Nat} (h : FitsO c a b) (hc : capLe c c') :
    FitsO c' a b := by
  unfold FitsO at *
  cases c' with
  | none => exact .inl trivial
  | some k' =>
    cases c with
    | none => cases hc
    | some k => simp only [within, capLe] at *; omega

/-- both stores -/
def Fits (caps : Caps) (s s' : Store T) : Prop :=
  FitsO caps.node (slotCount s.nodes) (slotCount s'.nodes) ∧
  FitsO caps.term (slotCount s.terms) (slotCount s'.terms)

/-- the run from `s` to `s'` removed no slot -/
def Grows (s s' : Store T) : Prop :=
  slotCount s.nodes ≤ slotCount s'.nodes ∧ slotCount s.terms ≤ slotCount s'.terms

theorem Grows.refl (s : Store T) : Grows s s := ⟨Nat.le_refl _, Nat.le_refl _⟩
theorem Grows.trans {a b c : Store T} (h1 : Grows a b) (h2 : Grows b c) : Grows a c :=
  ⟨Nat.le_trans h1.1 h2.1, Nat.le_trans h1.2 h2.2⟩

theorem Fits.refl (caps : Caps) (s : Store T) : Fits caps s s := ⟨FitsO.refl _ _, FitsO.refl _ _⟩
theorem Fits.of_eq {caps : Caps} {a b : Store T} (h : b = a) : Fits caps a b := by
  subst h; exact Fits.refl _ _
theorem Fits.trans {caps : Caps} {a b c : Store T} (h1 : Fits caps a b) (h2 : Fits caps b c) :
    Fits caps a c := ⟨h1.1.trans h2.1, h1.2.trans h2.2⟩
theorem Fits.split {caps : Caps} {a b c : Store T} (h : Fits caps a c) (h1 : Grows a b)
    (h2 : Grows b c) : Fits caps a b ∧ Fits caps b c :=
  ⟨⟨(h.1.split h1.1 h2.1).1, (h.2.split h1.2 h2.2).1⟩, ⟨(h.1.split h1.1 h2.1).2, (h.2.split h1.2 h2.2).2⟩⟩
theorem Fits.mono {c c' : Caps} {a b : Store T} (h : Fits c a b) (hn : capLe c.node c'.node)
    (ht : capLe c.term c'.term) : Fits c' a b := ⟨h.1.mono hn, h.2.mono ht⟩

theorem room_iff (cap : Option Nat) (n : Nat) : room cap n = true ↔ within cap (n + 1) := by
  cases cap with
  | none => simp [room, within]
  | some c => simp only [room, within, decide_eq_true_eq]; omega

variable [DecidableEq T]

/-! ## the capacity-free algorithms only add slots -/

theorem getTerminal_grows (s : Store T) (v : T) : Grows s (s.getTerminal v).1 := by
  refine ⟨Nat.le_refl _, ?_⟩
  show slotCount s.terms ≤ slotCount (Slots.intern s.terms v).1
  rw [slotCount_intern]; split <;> omega

theorem mkNode_grows (s : Store T) (l : Nat) (t e : Edge) : Grows s (s.mkNode l t e).1 := by
  unfold Store.mkNode
  split
  · exact Grows.refl _
  · refine ⟨?_, Nat.le_refl _⟩
    show slotCount s.nodes ≤ slotCount (Slots.intern s.nodes ⟨l, t, e⟩).1
    rw [slotCount_intern]; split <;> omega

theorem finishS_grows (p : APolicy) (st : St T) (key : Key) (l : Nat) (e1 e0 : Edge) :
    Grows st.store (finishS p st key l e1 e0).1.store := mkNode_grows st.store l e1 e0

theorem execS_grows (s : Store T) (P : PlanS T) : Grows s (P.execS s).1 := by
  cases P with
  | clone h => exact Grows.refl _
  | term v => exact getTerminal_grows s v
  | binary tag a b => exact Grows.refl _

/-- **`apply_bin` (capacity-free) never removes a slot** -/
theorem applyS_grows (L : TermOps T) (gt : Edge → Edge → Bool) (tg : Op → OpTag) (p : APolicy)
    (op : Op) (fuel : Nat) : ∀ (st : St T) (f g : Edge),
    Grows st.store (applyS L gt tg p op fuel st f g).1.store := by
  induction fuel with
  | zero => intro st f g; exact Grows.refl _
  | succ fuel ih =>
    intro st f g
    simp only [applyS]
    rw [terminalBinS_plan]
    cases hP : terminalBinP L gt tg op st.store f g with
    | clone h => exact Grows.refl _
    | term v => simp only [PlanS.execS, doneT]; exact getTerminal_grows st.store v
    | binary tag o1 o2 =>
      simp only [PlanS.execS]
      cases hget : p.get st.tick st.cache (tag, [o1, o2]) with
      | some h => exact Grows.refl _
      | none =>
        simp only
        cases hl : lmin (st.store.level? f) (st.store.level? g) with
        | none => exact Grows.refl _
        | some l =>
          simp only
          exact (ih st.tickd _ _).trans ((ih _ _ _).trans (finishS_grows _ _ _ _ _ _))

/-- **`apply_ite` (capacity-free) never removes a slot** -/
theorem iteS_grows (L : TermOps T) (p : APolicy) (fuel : Nat) : ∀ (st : St T) (f g h : Edge),
    Grows st.store (iteS L p fuel st f g h).1.store := by
  induction fuel with
  | zero => intro st f g h; exact Grows.refl _
  | succ fuel ih =>
    intro st f g h
    simp only [iteS]
    by_cases hgh : g = h
    · simp only [hgh, if_true]; exact Grows.refl _
    · simp only [hgh, if_false]
      cases f with
      | term i =>
        simp only
        cases hi : st.store.getTerm? i with
        | none => exact Grows.refl _
        | some t => exact Grows.refl _
      | inner i =>
        simp only
        cases hget : p.get st.tick st.cache (.ite, [.inner i, g, h]) with
        | some y => exact Grows.refl _
        | none =>
          simp only
          cases hl : lmin (lmin (st.store.level? (.inner i)) (st.store.level? g)) (st.store.level? h) with
          | none => exact Grows.refl _
          | some l =>
            simp only
            exact (ih st.tickd _ _ _).trans ((ih _ _ _ _).trans (finishS_grows _ _ _ _ _ _))

theorem mkNode_terms (s : Store T) (l : Nat) (t e : Edge) : (s.mkNode l t e).1.terms = s.terms := by
  unfold Store.mkNode; split <;> rfl

/-- **`apply_ite` creates no terminal** -/
theorem iteS_terms (L : TermOps T) (p : APolicy) (fuel : Nat) : ∀ (st : St T) (f g h : Edge),
    (iteS L p fuel st f g h).1.store.terms = st.store.terms := by
  induction fuel with
  | zero => intro st f g h; rfl
  | succ fuel ih =>
    intro st f g h
    simp only [iteS]
    by_cases hgh : g = h
    · simp only [hgh, if_true]
    · simp only [hgh, if_false]
      cases f with
      | term i =>
        simp only
        cases hi : st.store.getTerm? i with
        | none => rfl
        | some t => rfl
      | inner i =>
        simp only
        cases hget : p.get st.tick st.cache (.ite, [.inner i, g, h]) with
        | some y => rfl
        | none =>
          simp only
          cases hl : lmin (lmin (st.store.level? (.inner i)) (st.store.level? g)) (st.store.level? h) with
          | none => rfl
          | some l =>
            simp only
            show (Store.mkNode _ _ _ _).1.terms = _
            rw [mkNode_terms, ih, ih]
            rfl

/-! ## `get_terminal`, `get_or_insert`, `reduce`: success iff the slot is there -/

theorem getTerminalR_isSome (caps : Caps) (r : RSt T) (v : T) :
    (getTerminalR caps.term r v).1.isSome = true ↔
      Fits caps r.st.store (r.st.store.getTerminal v).1 := by
  have key : (getTerminalR caps.term r v).1.isSome = true ↔
      FitsO caps.term (slotCount r.st.store.terms) (slotCount (Slots.intern r.st.store.terms v).1) := by
    rw [slotCount_intern]
    unfold getTerminalR FitsO
    cases hf : Slots.find? r.st.store.terms v with
    | some i => simp
    | none =>
      simp only [if_true]
      by_cases hc : room caps.term (slotCount r.st.store.terms) = true
      · simp only [hc, if_true, Option.isSome_some, true_iff]
        exact .inl ((room_iff _ _).mp hc)
      · simp only [hc, Bool.false_eq_true, if_false, Option.isSome_none, false_iff]
        rintro (h | h)
        · exact hc ((room_iff _ _).mpr h)
        · omega
  rw [key]
  exact ⟨fun h => ⟨FitsO.refl _ _, h⟩, fun h => h.2⟩

theorem insertR_isSome (caps : Caps) (r : RSt T) (l : Nat) (t e : Edge) :
    (insertR caps.node r l t e).1.isSome = true ↔
      FitsO caps.node (slotCount r.st.store.nodes)
        (slotCount (Slots.intern r.st.store.nodes ⟨l, t, e⟩).1) := by
  rw [slotCount_intern]
  unfold insertR FitsO
  cases hf : Slots.find? r.st.store.nodes ⟨l, t, e⟩ with
  | some i => simp
  | none =>
    simp only [if_true]
    by_cases hc : room caps.node (slotCount r.st.store.nodes) = true
    · simp only [hc, if_true, Option.isSome_some, true_iff]
      exact .inl ((room_iff _ _).mp hc)
    · simp only [hc, Bool.false_eq_true, if_false, Option.isSome_none, false_iff]
      rintro (h | h)
      · exact hc ((room_iff _ _).mpr h)
      · omega

theorem mkNodeR_isSome (caps : Caps) (r : RSt T) (l : Nat) (t e : Edge) :
    (mkNodeR caps.node r l t e).1.isSome = true ↔
      Fits caps r.st.store (r.st.store.mkNode l t e).1 := by
  unfold mkNodeR Store.mkNode
  by_cases hte : t = e
  · simp only [hte, if_true, Option.isSome_some, true_iff]; exact Fits.refl _ _
  · simp only [hte, if_false]
    rw [insertR_isSome]
    unfold Fits
    exact ⟨fun h => ⟨h, FitsO.refl _ _⟩, fun h => h.1⟩

theorem finishR_isSome (caps : Caps) (p : APolicy) (r : RSt T) (key : Key) (l : Nat)
    (e1 e0 : Edge) :
    (finishR caps.node p r key l e1 e0).1.isSome = true ↔
      Fits caps r.st.store (finishS p r.st key l e1 e0).1.store := by
  show _ ↔ Fits caps r.st.store (r.st.store.mkNode l e1 e0).1
  rw [← mkNodeR_isSome]
  unfold finishR
  cases hR : mkNodeR caps.node r l e1 e0 with
  | mk o r' => cases o <;> rfl

/-! ## the threshold relation -/

/-- the capped run `R` started in store `s` succeeds **iff** the capacity-free run `S` fits both
capacities -/
def Thr (caps : Caps) (s : Store T) (R : Option Edge × RSt T) (S : St T × Edge) : Prop :=
  R.1.isSome = true ↔ Fits caps s S.1.store

theorem Thr.pure {caps : Caps} {s : Store T} {x : Edge} {r : RSt T} {S : St T × Edge}
    (h : S.1.store = s) : Thr caps s (some x, r) S := by
  unfold Thr
  simp only [Option.isSome_some, true_iff]
  exact Fits.of_eq h

/-- the two recursive calls, `reduce`, cache add -/
theorem Thr.fork {caps : Caps} {p : APolicy} {key : Key} {l : Nat}
    {c1 c0 : RSt T → Option Edge × RSt T} {r : RSt T} {S1 S0 : St T × Edge}
    (h1 : Thr caps r.st.store (c1 r) S1) (e1 : Erases (c1 r) S1)
    (m1 : Grows r.st.store S1.1.store)
    (h0 : ∀ r1, r1.st = S1.1 → Thr caps S1.1.store (c0 r1) S0 ∧ Erases (c0 r1) S0)
    (m0 : Grows S1.1.store S0.1.store) :
    Thr caps r.st.store (forkR caps.node p key l c1 c0 r) (finishS p S0.1 key l S1.2 S0.2) := by
  unfold Thr at h1 ⊢
  have mk := finishS_grows p S0.1 key l S1.2 S0.2
  cases hc1 : c1 r with
  | mk o1 r1 =>
    rw [hc1] at h1 e1
    cases o1 with
    | none =>
      simp only [forkR, hc1, Option.isSome_none, Bool.false_eq_true, false_iff]
      intro hf
      have := (hf.split m1 (m0.trans mk)).1
      have := h1.mpr this
      cases this
    | some hi =>
      have hS1 := e1 hi rfl
      simp only at hS1
      subst hS1
      have hf1 : Fits caps r.st.store r1.st.store := h1.mp rfl
      obtain ⟨h0', e0'⟩ := h0 r1 rfl
      unfold Thr at h0'
      cases hc0 : c0 r1 with
      | mk o0 r0 =>
        rw [hc0] at h0' e0'
        cases o0 with
        | none =>
          simp only [forkR, hc1, hc0, Option.isSome_none, Bool.false_eq_true, false_iff]
          intro hf
          have := ((hf.split m1 (m0.trans mk)).2.split m0 mk).1
          have := h0'.mpr this
          cases this
        | some lo =>
          have hS0 := e0' lo rfl
          simp only at hS0
          subst hS0
          simp only [forkR, hc1, hc0]
          rw [finishR_isSome]
          have hf0 : Fits caps r1.st.store r0.st.store := h0'.mp rfl
          constructor
          · intro h; exact (hf1.trans hf0).trans h
          · intro h; exact ((h.split m1 (m0.trans mk)).2.split m0 mk).2

/-- **`applyR caps` succeeds iff `applyS` fits `caps`** -/
theorem applyR_thr (L : TermOps T) (gt : Edge → Edge → Bool) (tg : Op → OpTag) (caps : Caps)
    (p : APolicy) (op : Op) (fuel : Nat) : ∀ (r : RSt T) (f g : Edge),
    Thr caps r.st.store (applyR L gt tg caps p op fuel r f g) (applyS L gt tg p op fuel r.st f g) := by
  induction fuel with
  | zero => intro r f g; simp only [applyR, applyS]; exact Thr.pure rfl
  | succ fuel ih =>
    intro r f g
    simp only [applyR, applyS]
    rw [terminalBinS_plan]
    cases hP : terminalBinP L gt tg op r.st.store f g with
    | clone h => exact Thr.pure rfl
    | term v =>
      simp only [PlanS.execS, doneT]
      exact getTerminalR_isSome caps r v
    | binary tag o1 o2 =>
      simp only [PlanS.execS]
      have hst : ({ r.st with store := r.st.store } : St T) = r.st := rfl
      simp only [hst]
      cases hget : p.get r.st.tick r.st.cache (tag, [o1, o2]) with
      | some h => exact Thr.pure rfl
      | none =>
        simp only
        cases hl : lmin (r.st.store.level? f) (r.st.store.level? g) with
        | none => exact Thr.pure rfl
        | some l =>
          simp only
          exact Thr.fork (r := r.tickd) (ih r.tickd _ _) (applyR_erase' L gt tg caps p op fuel r.tickd _ _)
            (applyS_grows L gt tg p op fuel _ _ _)
            (fun r1 h1 => by
              have a := ih r1 (r.st.store.cofE l f) (r.st.store.cofE l g)
              have b := applyR_erase' L gt tg caps p op fuel r1 (r.st.store.cofE l f) (r.st.store.cofE l g)
              rw [h1] at a b
              exact ⟨a, b⟩)
            (applyS_grows L gt tg p op fuel _ _ _)

/-- **`iteR caps` succeeds iff `iteS` fits `caps`** -/
theorem iteR_thr (L : TermOps T) (caps : Caps) (p : APolicy) (fuel : Nat) :
    ∀ (r : RSt T) (f g h : Edge),
    Thr caps r.st.store (iteR L caps p fuel r f g h) (iteS L p fuel r.st f g h) := by
  induction fuel with
  | zero => intro r f g h; simp only [iteR, iteS]; exact Thr.pure rfl
  | succ fuel ih =>
    intro r f g h
    simp only [iteR, iteS]
    by_cases hgh : g = h
    · simp only [hgh, if_true]; exact Thr.pure rfl
    · simp only [hgh, if_false]
      cases f with
      | term i =>
        simp only
        cases hi : r.st.store.getTerm? i with
        | none => exact Thr.pure rfl
        | some t => exact Thr.pure rfl
      | inner i =>
        simp only
        cases hget : p.get r.st.tick r.st.cache (.ite, [.inner i, g, h]) with
        | some y => exact Thr.pure rfl
        | none =>
          simp only
          cases hl : lmin (lmin (r.st.store.level? (.inner i)) (r.st.store.level? g)) (r.st.store.level? h) with
          | none => exact Thr.pure rfl
          | some l =>
            simp only
            exact Thr.fork (r := r.tickd) (ih r.tickd _ _ _) (iteR_erase' L caps p fuel r.tickd _ _ _)
              (iteS_grows L p fuel _ _ _ _)
              (fun r1 h1 => by
                have a := ih r1 (r.st.store.cofE l (.inner i)) (r.st.store.cofE l g) (r.st.store.cofE l h)
                have b := iteR_erase' L caps p fuel r1 (r.st.store.cofE l (.inner i)) (r.st.store.cofE l g) (r.st.store.cofE l h)
                rw [h1] at a b
                exact ⟨a, b⟩)
              (iteS_grows L p fuel _ _ _ _)

end OxiddModel.Mtbdd.Rc
