import OxiddModel.NnfParse.LemmasAcyclic

/-!
# `find_cycle` on a topologically ordered circuit reports no cycle (n-ary gates)
-/
namespace OxiddModel.NnfParse

open OxiddModel.Circuit
open OxiddModel.AigerParse (Bytes Visited)

/-- every gate among the inputs of gate `i` has a smaller number -/
def Topo (gates : List Gate) : Prop :=
  ∀ (i : Nat) (k : Kind) (ins : List Lit), gates[i]? = some (k, ins) →
    ∀ (n : Bool) (g : Nat), Lit.gate n g ∈ ins → g < i

/-- what a call that must not find a cycle returns -/
structure TopoPost (gates : List Gate) (vis v : Visited) : Prop where
  dlen : v.discovered.length = gates.length
  flen : v.finished.length = gates.length
  undisc : undisc v ≤ undisc vis
  stack : ∀ j, Unfin v j → Unfin vis j

theorem fcInputs_topo {gates : List Gate} {rc : Visited → Nat → Res (Bool × Visited)} {idx bnd : Nat}
    (hrc : ∀ (v : Visited) (g : Nat), g < idx → v.discovered.length = gates.length →
      v.finished.length = gates.length → undisc v ≤ bnd → (∀ j, Unfin v j → g < j) →
      ∃ v', rc v g = .ok (false, v') ∧ TopoPost gates v v') :
    ∀ (ls : List Lit) (v : Visited), (∀ (n : Bool) (g : Nat), Lit.gate n g ∈ ls → g < idx) →
    v.discovered.length = gates.length → v.finished.length = gates.length → undisc v ≤ bnd →
    (∀ j, Unfin v j → idx ≤ j) →
    ∃ v', fcInputs rc v ls = .ok (false, v') ∧ TopoPost gates v v' := by
  intro ls
  induction ls with
  | nil =>
    intro v _ hd hf _ _
    exact ⟨v, rfl, hd, hf, Nat.le_refl _, fun _ h => h⟩
  | cons l ls ih =>
    intro v hls hd hf hb hst
    have hrest : ∀ (n : Bool) (g : Nat), Lit.gate n g ∈ ls → g < idx :=
      fun n g hm => hls n g (by simp [hm])
    cases l with
    | const b => simp only [fcInputs]; exact ih v hrest hd hf hb hst
    | input ng i => simp only [fcInputs]; exact ih v hrest hd hf hb hst
    | gate ng g =>
      have hg : g < idx := hls ng g (by simp)
      obtain ⟨v1, e1, hp1⟩ := hrc v g hg hd hf hb (fun j hj => by have := hst j hj; omega)
      simp only [fcInputs, e1]
      obtain ⟨v2, e2, hp2⟩ := ih v1 hrest hp1.dlen hp1.flen (by have := hp1.undisc; omega)
        (fun j hj => hst j (hp1.stack j hj))
      exact ⟨v2, e2, hp2.dlen, hp2.flen, by have := hp1.undisc; have := hp2.undisc; omega,
        fun j hj => hp1.stack j (hp2.stack j hj)⟩

theorem fcInner_topo {gates : List Gate} (ht : Topo gates) :
    ∀ (fuel : Nat) (vis : Visited) (idx : Nat),
    vis.discovered.length = gates.length → vis.finished.length = gates.length →
    undisc vis < fuel → idx < gates.length → (∀ j, Unfin vis j → idx < j) →
    ∃ v, fcInner gates fuel vis idx = .ok (false, v) ∧ TopoPost gates vis v := by
  intro fuel
  induction fuel with
  | zero => intro vis idx _ _ h _ _; omega
  | succ fuel ih =>
    intro vis idx hdl hfl hfuel hidx hstack
    simp only [fcInner]
    by_cases hfin : vis.finished.getD idx false = true
    · rw [if_pos hfin]
      exact ⟨vis, rfl, hdl, hfl, Nat.le_refl _, fun _ h => h⟩
    · rw [if_neg hfin]
      have hfin' : vis.finished.getD idx false = false := by simpa using hfin
      by_cases hdisc : vis.discovered.getD idx false = true
      · have := hstack idx ⟨hdisc, hfin'⟩
        omega
      · rw [if_neg hdisc, if_neg (by omega)]
        have hd : vis.discovered.getD idx false = false := by simpa using hdisc
        rw [List.getElem?_eq_getElem hidx]
        have htopo := ht idx gates[idx].1 gates[idx].2 (List.getElem?_eq_getElem hidx)
        generalize gates[idx] = kg at htopo
        obtain ⟨k, ins⟩ := kg
        dsimp only at htopo ⊢
        have hcount := count_false_set vis.discovered idx (by omega) hd
        have hu1 : undisc (⟨vis.discovered.set idx true, vis.finished⟩ : Visited) + 1 = undisc vis :=
          hcount
        have hst1 : ∀ j, Unfin (⟨vis.discovered.set idx true, vis.finished⟩ : Visited) j → idx ≤ j := by
          intro j hj
          rcases (getD_set_true vis.discovered idx j).mp hj.1 with h | h
          · omega
          · exact Nat.le_of_lt (hstack j ⟨h, hj.2⟩)
        obtain ⟨v3, e3, hp3⟩ := fcInputs_topo (gates := gates) (rc := fcInner gates fuel) (idx := idx)
          (bnd := fuel - 1)
          (fun v g hg hvd hvf hb hs => ih v g hvd hvf (by omega) (by omega) hs) ins
          (⟨vis.discovered.set idx true, vis.finished⟩ : Visited) htopo (by simpa using hdl) hfl
          (by omega) hst1
        rw [e3]
        dsimp only
        refine ⟨_, rfl, hp3.dlen, by simpa using hp3.flen, ?_, ?_⟩
        · show undisc v3 ≤ undisc vis
          have := hp3.undisc; omega
        · intro j hj
          have hjd : v3.discovered.getD j false = true := hj.1
          have hjf : (v3.finished.set idx true).getD j false = false := hj.2
          have hne : idx ≠ j := by
            intro he
            have : (v3.finished.set idx true).getD j false = true :=
              (getD_set_true v3.finished idx j).mpr (Or.inl ⟨he, by have := hp3.flen; omega⟩)
            rw [this] at hjf; cases hjf
          have hf3 : v3.finished.getD j false = false := by
            cases hc : v3.finished.getD j false with
            | false => rfl
            | true =>
              have : (v3.finished.set idx true).getD j false = true :=
                (getD_set_true v3.finished idx j).mpr (Or.inr hc)
              rw [this] at hjf; cases hjf
          have h1 := hp3.stack j ⟨hjd, hf3⟩
          refine ⟨?_, h1.2⟩
          rcases (getD_set_true vis.discovered idx j).mp h1.1 with h | h
          · exact absurd h.1 hne
          · exact h

theorem fcRoots_topo {gates : List Gate} (ht : Topo gates) :
    ∀ (n index : Nat) (vis : Visited), index + n = gates.length →
    vis.discovered.length = gates.length → vis.finished.length = gates.length →
    (∀ j, ¬ Unfin vis j) → fcRoots gates (gates.length + 1) n index vis = .ok none := by
  intro n
  induction n with
  | zero => intro index vis _ _ _ _; rfl
  | succ n ih =>
    intro index vis hi hd hf hs
    simp only [fcRoots]
    have hu : undisc vis < gates.length + 1 := by
      have : undisc vis ≤ vis.discovered.length := List.count_le_length
      omega
    obtain ⟨v, e, hp⟩ := fcInner_topo ht (gates.length + 1) vis index hd hf hu (by omega)
      (fun j hj => absurd hj (hs j))
    rw [e]
    dsimp only
    exact ih (index + 1) v (by omega) hp.dlen hp.flen (fun j hj => hs j (hp.stack j hj))

/-- **find_cycle does not reject a topologically ordered circuit** -/
theorem findCycle_topo {gates : List Gate} (ht : Topo gates) : findCycle gates = .ok none := by
  unfold findCycle
  refine fcRoots_topo ht gates.length 0 _ (by omega) (by simp) (by simp) ?_
  intro j hj
  have h1 : (List.replicate gates.length false).getD j false = true := hj.1
  rw [getD_replicate_false] at h1
  cases h1

theorem cycleCheck_topo {gates : List Gate} (ht : Topo gates) (c : Bool) (n : Nat) :
    cycleCheck c gates n = .ok () := by
  unfold cycleCheck
  rw [findCycle_topo ht]
  cases c <;> rfl

end OxiddModel.NnfParse
