import OxiddModel.Util.Proto
import OxiddModel.NnfParse.Model

/-!
Line protocol `nnfparse` (see `harness/src/bin/c18_nnfparse.rs`):

`p <var_order: 0|1> <check_acyclic: 0|1> <input bytes as hex | ->` and
`v <var_order> <check_acyclic> <truth table | -> <hex>` (a generated valid file; the truth table
is an oracle of the Rust side and ignored here) ↦
`OK <canonical problem>` | `ERR` | `PANIC <kind>` | `SKIP`.

`SKIP`: the input contains a decimal number in `10000 ..= usize::MAX/16`, i.e. a number the parser
may accept as a count / variable number and reserve memory for (known finding `KF-parser-alloc`);
both sides decide this by the same scan of the raw bytes and do not run the parser.
-/
namespace OxiddModel.NnfParse

open OxiddModel.Circuit
open OxiddModel.AigerParse (Bytes isDigit maxCap)

def hexVal (c : Char) : Option Nat :=
  if '0' ≤ c ∧ c ≤ '9' then some (c.toNat - '0'.toNat)
  else if 'a' ≤ c ∧ c ≤ 'f' then some (c.toNat - 'a'.toNat + 10)
  else none

def unhex : List Char → Option Bytes
  | [] => some []
  | a :: b :: r =>
    match hexVal a, hexVal b, unhex r with
    | some x, some y, some bs => some ((16 * x + y) :: bs)
    | _, _, _ => none
  | _ => none

def hexDigit (n : Nat) : Char := if n < 10 then Char.ofNat (48 + n) else Char.ofNat (87 + n)

def hex (bs : Bytes) : String :=
  String.ofList (bs.flatMap fun b => [hexDigit (b / 16), hexDigit (b % 16)])

/-- value of the maximal digit run at the head (leading zeros are harmless) -/
def digitRun (acc : Nat) : Bytes → Nat × Bytes
  | [] => (acc, [])
  | b :: r => if isDigit b then digitRun (acc * 10 + (b - 48)) r else (acc, b :: r)

/-- the resource rule: some decimal number of the input lies in `10000 ..= maxCap` -/
def tooBig : (fuel : Nat) → Bytes → Bool
  | 0, _ => false
  | _ + 1, [] => false
  | fuel + 1, b :: r =>
    if isDigit b then
      let (v, r') := digitRun 0 (b :: r)
      if 10000 ≤ v ∧ v ≤ maxCap then true else tooBig fuel r'
    else tooBig fuel r

def showLit : Lit → String
  | .const false => "F"
  | .const true => "T"
  | .input neg i => (if neg then "!" else "") ++ "i" ++ toString i
  | .gate neg g => (if neg then "!" else "") ++ "g" ++ toString g

mutual
def showTree : Tree → String
  | .leaf n => toString n
  | .inner cs => "[" ++ showTrees cs ++ "]"
def showTrees : List Tree → String
  | [] => ""
  | [t] => showTree t
  | t :: ts => showTree t ++ "," ++ showTrees ts
end

def showNames (ns : List (Option Bytes)) : String :=
  "[" ++ ",".intercalate (ns.map fun
    | none => "~"
    | some b => "x" ++ hex b) ++ "]"

def showKind : Kind → String
  | .and => "A"
  | .or => "O"
  | .xor => "X"

def showProblem (p : Problem') : String :=
  s!"OK n={p.vars.len} ord=[" ++ ",".intercalate (p.vars.order.map toString) ++ "] tree=" ++
    (match p.vars.tree with
      | none => "-"
      | some t => showTree t) ++
    " names=" ++ showNames p.vars.names ++ " g=[" ++
    ";".intercalate (p.gates.map fun (k, ins) =>
      showKind k ++ "(" ++ ",".intercalate (ins.map showLit) ++ ")") ++
    "] root=" ++ showLit p.root

def showPanic : PanicKind → String
  | .index => "index"
  | .unwrap => "unwrap"
  | .arith => "arith"
  | .debugAssert => "debug-assert"
  | .fuel => "fuel"
  | .validLen => "valid-len"
  | .validTree => "valid-tree"
  | .validNames => "valid-names"

def showRes : Res Problem' → String
  | .ok p => showProblem p
  | .error .syntax => "ERR"
  | .error (.fail _) => "ERR"
  | .error (.panic k) => "PANIC " ++ showPanic k

def flag (s : String) : Option Bool :=
  if s = "0" then some false else if s = "1" then some true else none

def runLine (cfg : Cfg) (skip : Bool) (vo acyc h : String) : String :=
  let bytes? := if h = "-" then some [] else unhex h.toList
  match bytes?, flag vo, flag acyc with
  | some bytes, some v, some a =>
    if skip && tooBig (bytes.length + 1) bytes then "SKIP" else showRes (parse cfg ⟨v, a⟩ bytes)
  | _, _, _ => "bad-op"

def stepLine (cfg : Cfg) (skip : Bool) (line : String) : String :=
  match words line with
  | ["p", vo, acyc, h] => runLine cfg skip vo acyc h
  | ["v", vo, acyc, _tt, h] => runLine cfg skip vo acyc h
  | _ => "bad-op"

/-- the parser as it is in `/repo` -/
def proto : Proto := { σ := Unit, init := (), step := fun s l => (s, stepLine Cfg.asIs true l) }

/-- with both proposed repairs (names clean-up, empty order tree rejected) -/
def protoFixed : Proto := { σ := Unit, init := (), step := fun s l => (s, stepLine Cfg.fixed true l) }

/-- with the names clean-up repair only -/
def protoFixedNames : Proto :=
  { σ := Unit, init := (), step := fun s l => (s, stepLine ⟨true, false⟩ true l) }

/-- without the resource rule (for `run --no-skip 1`, used to confirm findings by hand) -/
def protoNoSkip : Proto := { σ := Unit, init := (), step := fun s l => (s, stepLine Cfg.asIs false l) }

end OxiddModel.NnfParse
