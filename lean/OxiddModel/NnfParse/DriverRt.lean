import OxiddModel.NnfParse.Driver
import OxiddModel.NnfParse.RoundtripFile

/-!
Protocol `nnfparse` = the lines of `Driver.lean` plus the round-trip lines

`s <var_order> <check_acyclic> <#inputs> <#edges> <node> …` with one token per node line:
`lp<v>` / `ln<v>` (positive / negated literal of input `v`, 0-based), `a<kids>`, `x<kids>`,
`o<conflict>:<kids>`, `<kids>` = child node numbers separated by `.` (possibly empty) ↦
`RT <hex of printNnf S> <what the round-trip theorem says parse returns>`: `OK <canon S>` if the
acyclicity check (when requested) passes on `canon S`, else `ERR`
(`parse_printNnf_of_cycleCheck`). The Rust side prints the source with its own printer, runs the
real parser on it and renders the result; so these lines tie `printNnf` and `canon` to the code.
Sources that are not admissible give `bad-op` (`admissibleB_sound`).
-/
namespace OxiddModel.NnfParse

open OxiddModel.Circuit
open OxiddModel.AigerParse (Bytes maxCap)

def kidsOKB (numNodes : Nat) (cs : List Nat) : Bool :=
  decide (cs.length < 2 ^ 64) && cs.all (fun c => decide (c < numNodes))

def Node.okB (numInputs numNodes : Nat) : Node → Bool
  | .lit _ v => decide (v < numInputs)
  | .and cs => kidsOKB numNodes cs
  | .or j cs => decide (j ≤ numInputs) && (j == 0 || cs.length == 2) && kidsOKB numNodes cs
  | .xor cs => kidsOKB numNodes cs

def Src.admissibleB (S : Src) : Bool :=
  decide (S.numInputs ≤ maxCap) && decide (S.numEdges ≤ maxCap) && decide (S.nodes.length ≤ maxCap) &&
    !S.nodes.isEmpty && S.nodes.all (fun n => n.okB S.numInputs S.nodes.length)

theorem kidsOKB_sound {numNodes : Nat} {cs : List Nat} (h : kidsOKB numNodes cs = true) :
    KidsOK numNodes cs := by
  simp only [kidsOKB, Bool.and_eq_true, decide_eq_true_eq, List.all_eq_true] at h
  exact ⟨h.1, h.2⟩

theorem Node.okB_sound {numInputs numNodes : Nat} {n : Node} (h : n.okB numInputs numNodes = true) :
    n.OK numInputs numNodes := by
  cases n with
  | lit neg v => simpa [Node.okB, Node.OK] using h
  | and cs => exact kidsOKB_sound h
  | xor cs => exact kidsOKB_sound h
  | or j cs =>
    simp only [Node.okB, Bool.and_eq_true, decide_eq_true_eq, Bool.or_eq_true, beq_iff_eq] at h
    refine ⟨h.1.1, ?_, kidsOKB_sound h.2⟩
    intro hj
    rcases h.1.2 with h0 | h2
    · exact absurd h0 hj
    · exact h2

/-- the check of the driver implies the hypothesis of the round-trip theorems -/
theorem admissibleB_sound {S : Src} (h : S.admissibleB = true) : S.Admissible := by
  simp only [Src.admissibleB, Bool.and_eq_true, decide_eq_true_eq, Bool.not_eq_true',
    List.all_eq_true] at h
  obtain ⟨⟨⟨⟨h1, h2⟩, h3⟩, h4⟩, h5⟩ := h
  refine ⟨h1, h2, h3, ?_, fun n hn => Node.okB_sound (h5 n hn)⟩
  intro hnil; rw [hnil] at h4; simp at h4

def parseKids (s : String) : Option (List Nat) :=
  if s.isEmpty then some [] else (s.splitOn ".").mapM String.toNat?

def parseNode (t : String) : Option Node :=
  match t.toList with
  | 'l' :: 'p' :: r => (String.ofList r).toNat?.map (Node.lit false)
  | 'l' :: 'n' :: r => (String.ofList r).toNat?.map (Node.lit true)
  | 'a' :: r => (parseKids (String.ofList r)).map Node.and
  | 'x' :: r => (parseKids (String.ofList r)).map Node.xor
  | 'o' :: r =>
    match (String.ofList r).splitOn ":" with
    | [j, ks] =>
      match j.toNat?, parseKids ks with
      | some j, some cs => some (Node.or j cs)
      | _, _ => none
    | _ => none
  | _ => none

def rtLine (cfg : Cfg) (vo acyc ni ne : String) (toks : List String) : String :=
  match flag vo, flag acyc, ni.toNat?, ne.toNat?, toks.mapM parseNode with
  | some _, some a, some ni, some ne, some nodes =>
    let S : Src := ⟨ni, ne, nodes⟩
    if S.admissibleB then
      let p := canon S
      let _ := cfg
      "RT " ++ hex (printNnf S) ++ " " ++
        (match cycleCheck a p.gates p.gates.length with
          | .ok _ => showProblem p
          | .error _ => "ERR")
    else "bad-op"
  | _, _, _, _, _ => "bad-op"

def stepLineRt (cfg : Cfg) (skip : Bool) (line : String) : String :=
  match words line with
  | "s" :: vo :: acyc :: ni :: ne :: toks => rtLine cfg vo acyc ni ne toks
  | _ => stepLine cfg skip line

/-- the parser as it is in `/repo`, plus the round-trip lines -/
def protoRt : Proto := { σ := Unit, init := (), step := fun s l => (s, stepLineRt Cfg.asIs true l) }

/-- with both proposed repairs -/
def protoRtFixed : Proto :=
  { σ := Unit, init := (), step := fun s l => (s, stepLineRt Cfg.fixed true l) }

/-- with the names clean-up repair only -/
def protoRtFixedNames : Proto :=
  { σ := Unit, init := (), step := fun s l => (s, stepLineRt ⟨true, false⟩ true l) }

end OxiddModel.NnfParse
