import OxiddModel.NnfParse.LemmasCycle

/-!
# `Circuit::find_cycle` is sound: if it reports no cycle, the circuit is acyclic

The depth-first search marks a gate *finished* only after all the gates among its inputs are
finished; numbering the gates in the order in which they finish gives a rank that strictly
decreases along every edge.
-/
namespace OxiddModel.NnfParse

open OxiddModel.Circuit
open OxiddModel.AigerParse (Bytes Visited)

/-- there is a rank on the gates that strictly decreases from every gate to the gates among its
inputs (so no gate depends on itself, directly or indirectly) -/
def Acyclic (gates : List Gate) : Prop :=
  ∃ rank : Nat → Nat, ∀ (i : Nat) (k : Kind) (ins : List Lit), gates[i]? = some (k, ins) →
    ∀ (n : Bool) (g : Nat), Lit.gate n g ∈ ins → rank g < rank i

def Fin (vis : Visited) (j : Nat) : Prop := vis.finished.getD j false = true

/-- on the recursion stack: discovered, not finished -/
def Unfin (vis : Visited) (j : Nat) : Prop :=
  vis.discovered.getD j false = true ∧ vis.finished.getD j false = false

theorem getD_set_true (l : List Bool) (i j : Nat) :
    (l.set i true).getD j false = true ↔ (i = j ∧ i < l.length) ∨ l.getD j false = true := by
  rw [List.getD_eq_getElem?_getD, List.getD_eq_getElem?_getD, List.getElem?_set]
  by_cases hij : i = j
  · subst hij
    by_cases hl : i < l.length
    · simp [hl]
    · have : l[i]? = none := List.getElem?_eq_none (Nat.le_of_not_lt hl)
      simp [hl]
  · simp [hij]

/-- the finished part of the graph is closed under taking inputs and ranked -/
def Inv (gates : List Gate) (vis : Visited) : Prop :=
  ∃ (rank : Nat → Nat) (B : Nat), ∀ (i : Nat) (k : Kind) (ins : List Lit),
    gates[i]? = some (k, ins) → Fin vis i →
    rank i ≤ B ∧ ∀ (n : Bool) (g : Nat), Lit.gate n g ∈ ins → Fin vis g ∧ rank g < rank i

/-- what a call of `inner` that returns `false` guarantees -/
structure Post (gates : List Gate) (vis v : Visited) : Prop where
  dlen : v.discovered.length = gates.length
  flen : v.finished.length = gates.length
  mono : ∀ j, Fin vis j → Fin v j
  stack : ∀ j, Unfin vis j → Unfin v j
  inv : Inv gates v

theorem fcInputs_sound {gates : List Gate} {rc : Visited → Nat → Res (Bool × Visited)}
    (hrc : ∀ (vis : Visited) (g : Nat) (v : Visited), vis.discovered.length = gates.length →
      vis.finished.length = gates.length → Inv gates vis → g < gates.length →
      rc vis g = .ok (false, v) → Post gates vis v ∧ Fin v g) :
    ∀ (ls : List Lit) (vis v : Visited), (∀ l ∈ ls, GateRef gates.length l) →
    vis.discovered.length = gates.length → vis.finished.length = gates.length → Inv gates vis →
    fcInputs rc vis ls = .ok (false, v) →
    Post gates vis v ∧ ∀ (n : Bool) (g : Nat), Lit.gate n g ∈ ls → Fin v g := by
  intro ls
  induction ls with
  | nil =>
    intro vis v _ hd hf hi h
    simp only [fcInputs] at h
    cases h
    exact ⟨⟨hd, hf, fun _ h => h, fun _ h => h, hi⟩, fun n g hm => by cases hm⟩
  | cons l ls ih =>
    intro vis v hls hd hf hi h
    have hrest : ∀ x ∈ ls, GateRef gates.length x := fun x hx => hls x (by simp [hx])
    cases l with
    | const b =>
      simp only [fcInputs] at h
      obtain ⟨hp, hfin⟩ := ih vis v hrest hd hf hi h
      exact ⟨hp, fun n g hm => hfin n g (by simpa using hm)⟩
    | input ng i =>
      simp only [fcInputs] at h
      obtain ⟨hp, hfin⟩ := ih vis v hrest hd hf hi h
      exact ⟨hp, fun n g hm => hfin n g (by simpa using hm)⟩
    | gate ng g0 =>
      simp only [fcInputs] at h
      have hg0 : g0 < gates.length := hls (.gate ng g0) (by simp)
      cases hr : rc vis g0 with
      | error e => rw [hr] at h; cases h
      | ok p =>
        obtain ⟨b, v1⟩ := p
        rw [hr] at h
        cases b with
        | true => cases h
        | false =>
          dsimp only at h
          obtain ⟨hp1, hf1⟩ := hrc vis g0 v1 hd hf hi hg0 hr
          obtain ⟨hp2, hfin⟩ := ih v1 v hrest hp1.dlen hp1.flen hp1.inv h
          refine ⟨⟨hp2.dlen, hp2.flen, fun j hj => hp2.mono j (hp1.mono j hj),
            fun j hj => hp2.stack j (hp1.stack j hj), hp2.inv⟩, ?_⟩
          intro n g hm
          rcases List.mem_cons.mp hm with heq | hm
          · cases heq; exact hp2.mono g0 hf1
          · exact hfin n g hm

theorem fcInner_sound {gates : List Gate}
    (hg : ∀ g ∈ gates, ∀ l ∈ g.2, GateRef gates.length l) :
    ∀ (fuel : Nat) (vis : Visited) (index : Nat) (v : Visited),
    vis.discovered.length = gates.length → vis.finished.length = gates.length → Inv gates vis →
    index < gates.length → fcInner gates fuel vis index = .ok (false, v) →
    Post gates vis v ∧ Fin v index := by
  intro fuel
  induction fuel with
  | zero => intro vis index v _ _ _ _ h; simp [fcInner] at h
  | succ fuel ih =>
    intro vis index v hd hf hi hidx h
    simp only [fcInner] at h
    split at h
    · rename_i hfin
      cases h
      exact ⟨⟨hd, hf, fun _ h => h, fun _ h => h, hi⟩, hfin⟩
    · rename_i hnfin
      split at h
      · cases h
      · rename_i hndisc
        split at h
        · cases h
        · rw [List.getElem?_eq_getElem hidx] at h
          have hmem := hg _ (List.getElem_mem hidx)
          have hget : gates[index]? = some gates[index] := List.getElem?_eq_getElem hidx
          generalize gates[index] = kg at hmem hget h
          obtain ⟨k, ins⟩ := kg
          dsimp only at hmem h
          have hnf : vis.finished.getD index false = false := by simpa using hnfin
          have hnd : vis.discovered.getD index false = false := by simpa using hndisc
          -- the state with `index` discovered
          have hi1 : Inv gates { vis with discovered := vis.discovered.set index true } := hi
          cases hr : fcInputs (fcInner gates fuel)
              { vis with discovered := vis.discovered.set index true } ins with
          | error e => rw [hr] at h; cases h
          | ok p =>
            obtain ⟨b, v1⟩ := p
            rw [hr] at h
            cases b with
            | true => cases h
            | false =>
              dsimp only at h
              cases h
              obtain ⟨hp, hch⟩ := fcInputs_sound (gates := gates) (rc := fcInner gates fuel)
                (fun vis' g v' h1 h2 h3 h4 h5 => ih vis' g v' h1 h2 h3 h4 h5) ins
                (⟨vis.discovered.set index true, vis.finished⟩ : Visited) v1 hmem
                (by simpa using hd) hf hi1 hr
              -- `index` is still on the stack after the loop
              have hun : Unfin v1 index := hp.stack index
                ⟨(getD_set_true vis.discovered index index).mpr (Or.inl ⟨rfl, by omega⟩), hnf⟩
              have hfin' : ∀ j, Fin { v1 with finished := v1.finished.set index true } j ↔
                  (j = index ∨ Fin v1 j) := by
                intro j
                show (v1.finished.set index true).getD j false = true ↔ _
                rw [getD_set_true]
                constructor
                · rintro (⟨h, _⟩ | h)
                  · exact Or.inl h.symm
                  · exact Or.inr h
                · rintro (h | h)
                  · exact Or.inl ⟨h.symm, by have := hp.flen; omega⟩
                  · exact Or.inr h
              refine ⟨⟨hp.dlen, by simpa using hp.flen, ?_, ?_, ?_⟩, (hfin' index).mpr (Or.inl rfl)⟩
              · intro j hj
                exact (hfin' j).mpr (Or.inr (hp.mono j hj))
              · intro j hj
                have hne : j ≠ index := by
                  intro he
                  have h1 := hj.1
                  rw [he, hnd] at h1
                  cases h1
                have h1 : Unfin (⟨vis.discovered.set index true, vis.finished⟩ : Visited) j :=
                  ⟨(getD_set_true vis.discovered index j).mpr (Or.inr hj.1), hj.2⟩
                have h2 := hp.stack j h1
                refine ⟨h2.1, ?_⟩
                cases hc : (v1.finished.set index true).getD j false with
                | false => rfl
                | true =>
                  rcases (getD_set_true _ _ _).mp hc with ⟨h, _⟩ | h
                  · exact absurd h.symm hne
                  · rw [h2.2] at h; cases h
              · obtain ⟨rank, B, hinv⟩ := hp.inv
                refine ⟨fun x => if x = index then B + 1 else rank x, B + 1, ?_⟩
                intro i k' ins' hgi hfi
                have hnotfin : ¬ Fin v1 index := by
                  intro hc; rw [Fin, hun.2] at hc; cases hc
                by_cases hie : i = index
                · subst hie
                  rw [hget] at hgi
                  cases hgi
                  refine ⟨by simp, ?_⟩
                  intro n g hm
                  have hfg : Fin v1 g := hch n g hm
                  have hgne : g ≠ i := fun he => hnotfin (he ▸ hfg)
                  refine ⟨(hfin' g).mpr (Or.inr hfg), ?_⟩
                  have hgl : g < gates.length := hmem _ hm
                  have := (hinv g gates[g].1 gates[g].2 (List.getElem?_eq_getElem hgl) hfg).1
                  simp only [if_neg hgne, if_true]
                  omega
                · have hfi1 : Fin v1 i := by
                    rcases (hfin' i).mp hfi with h | h
                    · exact absurd h hie
                    · exact h
                  obtain ⟨hb, hc⟩ := hinv i k' ins' hgi hfi1
                  refine ⟨by simp only [if_neg hie]; omega, ?_⟩
                  intro n g hm
                  obtain ⟨hfg, hlt⟩ := hc n g hm
                  have hgne : g ≠ index := fun he => hnotfin (he ▸ hfg)
                  exact ⟨(hfin' g).mpr (Or.inr hfg), by simp only [if_neg hgne, if_neg hie]; exact hlt⟩

theorem getD_replicate_false (n i : Nat) : (List.replicate n false).getD i false = false := by
  rw [List.getD_eq_getElem?_getD, List.getElem?_replicate]
  split <;> rfl

theorem fcRoots_sound {gates : List Gate}
    (hg : ∀ g ∈ gates, ∀ l ∈ g.2, GateRef gates.length l) (fuel : Nat) :
    ∀ (n index : Nat) (vis : Visited), index + n = gates.length →
    vis.discovered.length = gates.length → vis.finished.length = gates.length → Inv gates vis →
    (∀ j, j < index → Fin vis j) → fcRoots gates fuel n index vis = .ok none →
    ∃ v, Inv gates v ∧ ∀ j, j < gates.length → Fin v j := by
  intro n
  induction n with
  | zero =>
    intro index vis hi _ _ hinv hall _
    exact ⟨vis, hinv, fun j hj => hall j (by omega)⟩
  | succ n ih =>
    intro index vis hi hd hf hinv hall h
    simp only [fcRoots] at h
    cases hr : fcInner gates fuel vis index with
    | error e => rw [hr] at h; cases h
    | ok p =>
      obtain ⟨b, v⟩ := p
      rw [hr] at h
      cases b with
      | true => cases h
      | false =>
        dsimp only at h
        obtain ⟨hp, hfi⟩ := fcInner_sound hg fuel vis index v hd hf hinv (by omega) hr
        refine ih (index + 1) v (by omega) hp.dlen hp.flen hp.inv ?_ h
        intro j hj
        by_cases hje : j = index
        · subst hje; exact hfi
        · exact hp.mono j (hall j (by omega))

/-- **find_cycle is sound** -/
theorem findCycle_sound {gates : List Gate}
    (hg : ∀ g ∈ gates, ∀ l ∈ g.2, GateRef gates.length l) (h : findCycle gates = .ok none) :
    Acyclic gates := by
  unfold findCycle at h
  obtain ⟨v, ⟨rank, B, hinv⟩, hall⟩ := fcRoots_sound hg _ gates.length 0 _ (by omega) (by simp)
    (by simp) ⟨fun _ => 0, 0, fun i k ins _ hf => by
      have hf' : (List.replicate gates.length false).getD i false = true := hf
      rw [getD_replicate_false] at hf'; cases hf'⟩
    (fun j hj => by omega) h
  refine ⟨rank, ?_⟩
  intro i k ins hgi n g hm
  have hil : i < gates.length := by
    rcases Nat.lt_or_ge i gates.length with h | h
    · exact h
    · rw [List.getElem?_eq_none h] at hgi; cases hgi
  exact ((hinv i k ins hgi (hall i hil)).2 n g hm).2

theorem cycleCheck_sat' {gates : List Gate} (c : Bool) {nspans : Nat}
    (hg : ∀ g ∈ gates, ∀ l ∈ g.2, GateRef gates.length l) (hs : nspans = gates.length) :
    Sat NP (cycleCheck c gates nspans) (fun _ => c = true → Acyclic gates) := by
  have h0 := cycleCheck_sat c hg hs
  cases hr : cycleCheck c gates nspans with
  | error e => rw [hr] at h0; exact h0
  | ok u =>
    refine Sat.ok ?_
    intro hc
    subst hc
    unfold cycleCheck at hr
    simp only [if_true] at hr
    cases hf : findCycle gates with
    | error e => rw [hf] at hr; cases hr
    | ok o =>
      cases o with
      | none => exact findCycle_sound hg hf
      | some g =>
        rw [hf] at hr
        dsimp only at hr
        split at hr <;> cases hr

end OxiddModel.NnfParse
