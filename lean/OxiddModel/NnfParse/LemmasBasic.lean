import OxiddModel.NnfParse.Model
import OxiddModel.AigerParse.LemmasBasic

/-!
# A small program logic for the NNF parser model, and the specifications of the primitives

`Sat ar r Q`: if `r` is a value it satisfies `Q`; if `r` is a model panic of kind `k` then `ar k`
holds (`ar = fun _ => False`: no panic at all).
-/
namespace OxiddModel.NnfParse

open OxiddModel.Circuit
open OxiddModel.AigerParse (Bytes isDigit isSpace u64Loop maxCap space0 trimEnd Visited u64Loop_len
  space0_len)

def Sat {α : Type} (ar : PanicKind → Prop) (r : Res α) (Q : α → Prop) : Prop :=
  match r with
  | .ok a => Q a
  | .error d => ∀ k, d = .panic k → ar k

/-- no panic allowed -/
abbrev NP : PanicKind → Prop := fun _ => False

theorem Sat.ok {α : Type} {ar : PanicKind → Prop} {Q : α → Prop} {a : α} (h : Q a) :
    Sat ar (.ok a) Q := h

theorem Sat.pure {α : Type} {ar : PanicKind → Prop} {Q : α → Prop} {a : α} (h : Q a) :
    Sat ar (pure a : Res α) Q := h

theorem Sat.syntax {α : Type} {ar : PanicKind → Prop} {Q : α → Prop} :
    Sat ar (.error .syntax : Res α) Q := by
  intro k hk; cases hk

theorem Sat.fail {α : Type} {ar : PanicKind → Prop} {Q : α → Prop} {c : Cls} :
    Sat ar (.error (.fail c) : Res α) Q := by
  intro k hk; cases hk

theorem Sat.throwFail {α : Type} {ar : PanicKind → Prop} {Q : α → Prop} {c : Cls} :
    Sat ar (throw (.fail c) : Res α) Q := by
  intro k hk; cases hk

theorem Sat.throwSyntax {α : Type} {ar : PanicKind → Prop} {Q : α → Prop} :
    Sat ar (throw .syntax : Res α) Q := by
  intro k hk; cases hk

theorem Sat.panic {α : Type} {ar : PanicKind → Prop} {Q : α → Prop} {k : PanicKind} (h : ar k) :
    Sat ar (.error (.panic k) : Res α) Q := by
  intro k' hk; cases hk; exact h

theorem Sat.bind {α β : Type} {ar : PanicKind → Prop} {x : Res α} {f : α → Res β} {Q : α → Prop}
    {R : β → Prop} (hx : Sat ar x Q) (hf : ∀ a, Q a → Sat ar (f a) R) : Sat ar (x >>= f) R := by
  cases x with
  | ok a => exact hf a hx
  | error d => exact hx

theorem Sat.mono {α : Type} {ar : PanicKind → Prop} {r : Res α} {Q Q' : α → Prop} (h : Sat ar r Q)
    (hq : ∀ a, Q a → Q' a) : Sat ar r Q' := by
  cases r with
  | ok a => exact hq a h
  | error d => exact h

theorem Sat.weaken {α : Type} {ar ar' : PanicKind → Prop} {r : Res α} {Q : α → Prop}
    (h : Sat ar r Q) (har : ∀ k, ar k → ar' k) : Sat ar' r Q := by
  cases r with
  | ok a => exact h
  | error d => intro k hk; exact har k (h k hk)

theorem Sat.of_ok {α : Type} {ar : PanicKind → Prop} {r : Res α} {Q : α → Prop} {a : α}
    (h : Sat ar r Q) (hr : r = .ok a) : Q a := by
  subst hr; exact h

theorem Sat.of_panic {α : Type} {ar : PanicKind → Prop} {r : Res α} {Q : α → Prop} {k : PanicKind}
    (h : Sat ar r Q) (hr : r = .error (.panic k)) : ar k := by
  subst hr; exact h k rfl

theorem Sat.no_panic {α : Type} {r : Res α} {Q : α → Prop} (h : Sat NP r Q) (k : PanicKind) :
    r ≠ .error (.panic k) := by
  intro hr; exact h.of_panic hr

/-- the error of the first statement is the error of the sequence -/
theorem bind_error {α β : Type} {x : Res α} {f : α → Res β} {d : Diag} (h : x = .error d) :
    (x >>= f) = .error d := by
  subst h; rfl

theorem bind_ok {α β : Type} {x : Res α} {f : α → Res β} {a : α} (h : x = .ok a) :
    (x >>= f) = f a := by
  subst h; rfl

/-! ## Literal constructors -/

theorem mkGate_sat {ar : PanicKind → Prop} {neg : Bool} {g : Nat} (h : g ≤ 2 ^ 62 - 1) :
    Sat ar (mkGate neg g) (fun l => l = .gate neg g) := by
  unfold mkGate; rw [if_pos h]; exact rfl

theorem mkInput_sat {ar : PanicKind → Prop} {neg : Bool} {i : Nat} (h : i ≤ 2 ^ 62 - 3) :
    Sat ar (mkInput neg i) (fun l => l = .input neg i) := by
  unfold mkInput; rw [if_pos h]; exact rfl

/-! ## primitives: no panic, the rest of the input is not longer -/

theorem u64_sat {ar : PanicKind → Prop} (inp : Bytes) :
    Sat ar (u64 inp) (fun p => p.2.length < inp.length) := by
  cases inp with
  | nil => exact Sat.syntax
  | cons b rest =>
    simp only [u64]
    split
    · split
      · rename_i r hr
        have := u64Loop_len _ _ _ hr
        show r.2.length < (b :: rest).length
        simp; omega
      · exact Sat.syntax
    · exact Sat.syntax

theorem usize_sat {ar : PanicKind → Prop} (inp : Bytes) :
    Sat ar (usize inp) (fun p => p.1 ≤ maxCap ∧ p.2.length < inp.length) := by
  unfold usize
  apply Sat.bind (u64_sat inp)
  rintro ⟨v, rest⟩ h
  dsimp only
  split
  · exact Sat.throwFail
  · exact Sat.pure ⟨by omega, h⟩

theorem magLoop_len (bound : Nat) : ∀ (inp : Bytes) (v : Nat) (r : Nat × Bytes),
    magLoop bound v inp = some r → r.2.length ≤ inp.length := by
  intro inp
  induction inp with
  | nil => intro v r h; simp [magLoop] at h; subst h; simp
  | cons b rest ih =>
    intro v r h
    simp only [magLoop] at h
    split at h
    · split at h
      · have := ih _ _ h; simp; omega
      · cases h
    · cases h; simp

theorem magLoop_bound (bound : Nat) : ∀ (inp : Bytes) (v : Nat) (r : Nat × Bytes), v ≤ bound →
    magLoop bound v inp = some r → r.1 ≤ bound := by
  intro inp
  induction inp with
  | nil => intro v r hv h; simp [magLoop] at h; subst h; exact hv
  | cons b rest ih =>
    intro v r hv h
    simp only [magLoop] at h
    split at h
    · split at h
      · rename_i hb; exact ih _ _ hb h
      · cases h
    · cases h; exact hv

theorem sign_len (inp : Bytes) : (sign inp).2.length ≤ inp.length := by
  unfold sign
  split <;> simp

theorem i64_sat {ar : PanicKind → Prop} (inp : Bytes) :
    Sat ar (i64 inp) (fun p => p.1.natAbs ≤ 2 ^ 63 ∧ p.2.length < inp.length) := by
  unfold i64
  have hs := sign_len inp
  split
  · exact Sat.syntax
  · rename_i sg b rest heq
    rw [heq] at hs
    split
    · rename_i hd
      have hb : b - 48 ≤ 9 := by
        simp only [isDigit, Bool.and_eq_true, decide_eq_true_eq] at hd; omega
      split
      · rename_i m r hm
        have h1 := magLoop_len _ _ _ _ hm
        have h2 := magLoop_bound _ _ _ _ (by split <;> omega) hm
        refine Sat.ok ⟨?_, ?_⟩
        · dsimp only at h2 ⊢
          split <;> rename_i hsg
          · rw [if_pos hsg] at h2; simp only [Int.natAbs_natCast]; omega
          · rw [if_neg hsg] at h2; simp only [Int.natAbs_neg, Int.natAbs_natCast]; omega
        · dsimp only at h1 hs ⊢
          simp only [List.length_cons] at hs; omega
      · exact Sat.syntax
    · exact Sat.syntax

theorem space1_sat {ar : PanicKind → Prop} (inp : Bytes) :
    Sat ar (space1 inp) (fun p => p.2.length < inp.length) := by
  cases inp with
  | nil => exact Sat.syntax
  | cons b rest =>
    simp only [space1]
    split
    · have := space0_len rest
      show (space0 rest).length < (b :: rest).length
      simp; omega
    · exact Sat.syntax

theorem lineEnding_sat {ar : PanicKind → Prop} (inp : Bytes) :
    Sat ar (lineEnding inp) (fun p => p.2.length < inp.length) := by
  unfold lineEnding
  split
  · show _ < _; simp
  · show _ < _; simp; omega
  · exact Sat.syntax

theorem eol_sat {ar : PanicKind → Prop} (inp : Bytes) :
    Sat ar (eol inp) (fun p => p.2.length < inp.length) := by
  unfold eol
  exact (lineEnding_sat (space0 inp)).mono
    (fun p hp => Nat.lt_of_lt_of_le hp (space0_len inp))

theorem spaceU64_sat {ar : PanicKind → Prop} (inp : Bytes) :
    Sat ar (spaceU64 inp) (fun p => p.2.length < inp.length) := by
  unfold spaceU64
  apply Sat.bind (space1_sat inp)
  rintro ⟨_, r⟩ h
  exact (u64_sat r).mono (fun p hp => Nat.lt_trans hp h)

theorem notLineEnding_sat {ar : PanicKind → Prop} : ∀ (inp : Bytes),
    Sat ar (notLineEnding inp) (fun p => p.2.length ≤ inp.length) := by
  intro inp
  induction inp with
  | nil => exact Sat.ok (Nat.le_refl _)
  | cons b rest ih =>
    simp only [notLineEnding]
    split
    · exact Sat.ok (Nat.le_refl _)
    · split
      · split
        · split
          · exact Sat.ok (Nat.le_refl _)
          · exact Sat.syntax
        · exact Sat.syntax
      · split
        · rename_i e he
          rw [he] at ih
          exact ih
        · rename_i name r he
          rw [he] at ih
          have : r.length ≤ rest.length := ih
          show r.length ≤ (b :: rest).length
          simp; omega

theorem headIs_len {c : Nat} {inp r : Bytes} (h : headIs c inp = some r) :
    r.length + 1 = inp.length := by
  cases inp with
  | nil => simp [headIs] at h
  | cons b t =>
    simp only [headIs] at h
    split at h
    · cases h; simp
    · cases h

theorem afterNewline_len : ∀ (inp : Bytes), (afterNewline inp).length ≤ inp.length := by
  intro inp
  induction inp with
  | nil => simp [afterNewline]
  | cons b r ih => simp only [afterNewline]; split <;> simp <;> omega

theorem skipComments_sat {ar : PanicKind → Prop} : ∀ (fuel : Nat) (inp : Bytes),
    inp.length < fuel → Sat ar (skipComments fuel inp) (fun r => r.length ≤ inp.length) := by
  intro fuel
  induction fuel with
  | zero => intro inp h; omega
  | succ fuel ih =>
    intro inp h
    simp only [skipComments]
    split
    · rename_i r hr
      have h1 := headIs_len hr
      have h2 := afterNewline_len r
      exact (ih (afterNewline r) (by omega)).mono (fun x hx => by omega)
    · exact Sat.ok (Nat.le_refl _)

/-! ## `problem_line` -/

theorem problemLineInner_sat {ar : PanicKind → Prop} (inp : Bytes) :
    Sat ar (problemLineInner inp)
      (fun p => p.1.1 ≤ maxCap ∧ p.1.2.1 ≤ maxCap ∧ p.1.2.2 ≤ maxCap ∧ p.2.length < inp.length) := by
  unfold problemLineInner
  refine Sat.bind (Q := fun p => p.2.length ≤ inp.length) ?_ ?_
  · unfold nnfTagCut
    split
    · exact Sat.ok (by simp)
    · exact Sat.fail
  rintro ⟨_, r0⟩ h0
  apply Sat.bind (space1_sat r0)
  rintro ⟨_, r1⟩ h1
  apply Sat.bind (usize_sat r1)
  rintro ⟨a, r2⟩ ⟨ha, h2⟩
  apply Sat.bind (space1_sat r2)
  rintro ⟨_, r3⟩ h3
  apply Sat.bind (usize_sat r3)
  rintro ⟨b, r4⟩ ⟨hb, h4⟩
  apply Sat.bind (space1_sat r4)
  rintro ⟨_, r5⟩ h5
  apply Sat.bind (usize_sat r5)
  rintro ⟨c, r6⟩ ⟨hc, h6⟩
  apply Sat.bind (lineEnding_sat r6)
  rintro ⟨_, r7⟩ h7
  exact Sat.pure ⟨ha, hb, hc, by dsimp only at *; omega⟩

theorem problemLine_sat {ar : PanicKind → Prop} (inp : Bytes) :
    Sat ar (problemLine inp)
      (fun p => p.1.1 ≤ maxCap ∧ p.1.2.1 ≤ maxCap ∧ p.1.2.2 ≤ maxCap ∧ p.2.length < inp.length) := by
  unfold problemLine
  have h := problemLineInner_sat (ar := ar) inp
  split
  · exact Sat.fail
  · exact h

end OxiddModel.NnfParse
