import OxiddModel.NnfParse.LemmasNodes

/-!
# `Circuit::find_cycle` on n-ary gates: the recursion depth never exceeds the number of gates, no
index leaves the tables
-/
namespace OxiddModel.NnfParse

open OxiddModel.Circuit
open OxiddModel.AigerParse (Bytes Visited)

/-- number of gates not yet discovered -/
def undisc (vis : Visited) : Nat := vis.discovered.count false

theorem count_false_set : ∀ (l : List Bool) (i : Nat), i < l.length → l.getD i false = false →
    (l.set i true).count false + 1 = l.count false := by
  intro l
  induction l with
  | nil => intro i hi; simp at hi
  | cons b l ih =>
    intro i hi hg
    cases i with
    | zero =>
      simp at hg; subst hg; simp
    | succ i =>
      simp only [List.set_cons_succ, List.count_cons]
      have := ih i (by simpa using hi) (by simpa using hg)
      omega

/-- a gate literal names an existing gate -/
def GateRef (n : Nat) : Lit → Prop
  | .gate _ g => g < n
  | _ => True

theorem LitIn.gateRef {nin ng : Nat} {l : Lit} (h : LitIn nin ng l) : GateRef ng l := by
  cases l <;> first | trivial | exact h

/-- the loop over the inputs of one gate, for any `rc` that behaves like `inner` -/
theorem fcInputs_sat {n : Nat} {rc : Visited → Nat → Res (Bool × Visited)} {bnd : Nat}
    (hrc : ∀ (v : Visited) (g : Nat), v.discovered.length = n → undisc v ≤ bnd → g < n →
      Sat NP (rc v g) (fun p => p.2.discovered.length = n ∧ undisc p.2 ≤ undisc v)) :
    ∀ (ls : List Lit) (vis : Visited), (∀ l ∈ ls, GateRef n l) → vis.discovered.length = n →
    undisc vis ≤ bnd →
    Sat NP (fcInputs rc vis ls) (fun p => p.2.discovered.length = n ∧ undisc p.2 ≤ undisc vis) := by
  intro ls
  induction ls with
  | nil => intro vis _ hl _; exact Sat.ok ⟨hl, Nat.le_refl _⟩
  | cons l ls ih =>
    intro vis hls hl hb
    have hrest : ∀ x ∈ ls, GateRef n x := fun x hx => hls x (by simp [hx])
    cases l with
    | const b => simp only [fcInputs]; exact ih vis hrest hl hb
    | input ng i => simp only [fcInputs]; exact ih vis hrest hl hb
    | gate ng g =>
      simp only [fcInputs]
      have hg : g < n := hls (.gate ng g) (by simp)
      have h1 := hrc vis g hl hb hg
      generalize rc vis g = res at h1
      match res, h1 with
      | .error e, h1 => exact h1
      | .ok (true, v), h1 => exact Sat.ok h1
      | .ok (false, v), h1 =>
        obtain ⟨hv1, hv2⟩ : v.discovered.length = n ∧ undisc v ≤ undisc vis := h1
        dsimp only
        exact (ih v hrest hv1 (by omega)).mono (fun p hp => ⟨hp.1, by have := hp.2; omega⟩)

theorem fcInner_sat {gates : List Gate}
    (hg : ∀ g ∈ gates, ∀ l ∈ g.2, GateRef gates.length l) :
    ∀ (fuel : Nat) (vis : Visited) (index : Nat),
    vis.discovered.length = gates.length → undisc vis < fuel → index < gates.length →
    Sat NP (fcInner gates fuel vis index)
      (fun p => p.2.discovered.length = gates.length ∧ undisc p.2 ≤ undisc vis) := by
  intro fuel
  induction fuel with
  | zero => intro vis index _ h _; omega
  | succ fuel ih =>
    intro vis index hlen hfuel hidx
    simp only [fcInner]
    split
    · exact Sat.ok ⟨hlen, Nat.le_refl _⟩
    · split
      · exact Sat.ok ⟨hlen, Nat.le_refl _⟩
      · rename_i hfin hdisc
        split
        · omega
        · rw [List.getElem?_eq_getElem hidx]
          have hmem := hg _ (List.getElem_mem hidx)
          generalize gates[index] = kg at hmem
          obtain ⟨k, ins⟩ := kg
          dsimp only at hmem ⊢
          have hd : vis.discovered.getD index false = false := by simpa using hdisc
          have hcount := count_false_set vis.discovered index (by omega) hd
          have hlen1 : (vis.discovered.set index true).length = gates.length := by simpa using hlen
          have hu1 : undisc { vis with discovered := vis.discovered.set index true } + 1 = undisc vis :=
            hcount
          have h1 := fcInputs_sat (n := gates.length) (rc := fcInner gates fuel) (bnd := fuel - 1)
            (fun v g hv hb hgl => ih v g hv (by omega) hgl) ins
            { vis with discovered := vis.discovered.set index true } hmem hlen1 (by omega)
          generalize fcInputs (fcInner gates fuel)
            { vis with discovered := vis.discovered.set index true } ins = r1 at h1
          match r1, h1 with
          | .error e, h1 => exact h1
          | .ok (true, v), h1 => exact Sat.ok ⟨h1.1, by have := h1.2; dsimp only at this ⊢; omega⟩
          | .ok (false, v), h1 =>
            dsimp only
            have h1a : v.discovered.length = gates.length := h1.1
            have h1b : undisc v ≤ undisc { vis with discovered := vis.discovered.set index true } :=
              h1.2
            exact Sat.ok ⟨h1a, by
              show undisc { v with finished := v.finished.set index true } ≤ undisc vis
              have : undisc { v with finished := v.finished.set index true } = undisc v := rfl
              omega⟩

theorem fcRoots_sat {gates : List Gate}
    (hg : ∀ g ∈ gates, ∀ l ∈ g.2, GateRef gates.length l) :
    ∀ (n index : Nat) (vis : Visited), index + n = gates.length →
    vis.discovered.length = gates.length →
    Sat NP (fcRoots gates (gates.length + 1) n index vis)
      (fun o => ∀ g, o = some g → g < gates.length) := by
  intro n
  induction n with
  | zero => intro index vis _ _; simp only [fcRoots]; exact Sat.ok (by simp)
  | succ n ih =>
    intro index vis hi hlen
    simp only [fcRoots]
    have hu : undisc vis < gates.length + 1 := by
      have : undisc vis ≤ vis.discovered.length := List.count_le_length
      omega
    have h1 := fcInner_sat hg (gates.length + 1) vis index hlen hu (by omega)
    generalize fcInner gates (gates.length + 1) vis index = res at h1
    match res, h1 with
    | .error e, h1 => exact h1
    | .ok (true, v), _ => exact Sat.ok (fun g hg' => by cases hg'; omega)
    | .ok (false, v), h1 => exact ih (index + 1) v (by omega) h1.1

theorem findCycle_sat {gates : List Gate}
    (hg : ∀ g ∈ gates, ∀ l ∈ g.2, GateRef gates.length l) :
    Sat NP (findCycle gates) (fun o => ∀ g, o = some g → g < gates.length) := by
  unfold findCycle
  exact fcRoots_sat hg gates.length 0 _ (by omega) (by simp)

theorem cycleCheck_sat {gates : List Gate} (c : Bool) {nspans : Nat}
    (hg : ∀ g ∈ gates, ∀ l ∈ g.2, GateRef gates.length l) (hs : nspans = gates.length) :
    Sat NP (cycleCheck c gates nspans) (fun _ => True) := by
  unfold cycleCheck
  split
  · have h1 := findCycle_sat hg
    generalize findCycle gates = res at h1
    match res, h1 with
    | .error e, h1 => exact h1
    | .ok none, _ => exact Sat.ok trivial
    | .ok (some g), h1 =>
      have : g < gates.length := h1 g rfl
      dsimp only
      rw [if_pos (by omega)]
      exact Sat.fail
  · exact Sat.ok trivial

end OxiddModel.NnfParse
