import OxiddModel.NnfParse.LemmasBasic

/-!
# The node lines: no panic, every child number and every literal is in range
-/
namespace OxiddModel.NnfParse

open OxiddModel.Circuit
open OxiddModel.AigerParse (Bytes isDigit isSpace u64Loop maxCap space0 trimEnd Visited u64Loop_len
  space0_len)

/-- the literal names a constant, one of `nin` inputs or one of `ng` gates -/
def LitIn (nin ng : Nat) : Lit → Prop
  | .const _ => True
  | .input _ i => i < nin
  | .gate _ g => g < ng

theorem LitIn.mono {nin ng ng' : Nat} {l : Lit} (h : LitIn nin ng l) (hg : ng ≤ ng') :
    LitIn nin ng' l := by
  cases l with
  | const b => trivial
  | input n i => exact h
  | gate n g => exact Nat.lt_of_lt_of_le h hg

theorem children_sat {ar : PanicKind → Prop} (numNodes : Nat) : ∀ (k : Nat) (inp : Bytes),
    Sat ar (children numNodes k inp)
      (fun p => p.1.length = k ∧ (∀ c ∈ p.1, c < numNodes) ∧ p.2.length ≤ inp.length) := by
  intro k
  induction k with
  | zero => intro inp; exact Sat.ok ⟨rfl, by simp, Nat.le_refl _⟩
  | succ k ih =>
    intro inp
    simp only [children]
    apply Sat.bind (space1_sat inp)
    rintro ⟨_, r0⟩ h0
    apply Sat.bind (u64_sat r0)
    rintro ⟨c, r1⟩ h1
    dsimp only at h0 h1 ⊢
    split
    · exact Sat.throwFail
    · rename_i hc
      apply Sat.bind (ih r1)
      rintro ⟨cs, r2⟩ ⟨hl, hcs, hr⟩
      refine Sat.pure ⟨by simp [hl], ?_, by dsimp only at hr ⊢; omega⟩
      intro x hx
      rcases List.mem_cons.mp hx with rfl | hx
      · omega
      · exact hcs x hx

/-- invariant of the node loop -/
structure NInv (numNodes numInputs : Nat) (st : NState) : Prop where
  spans : st.nspans = st.gates.length
  ngates : st.gates.length ≤ st.nodes.length
  gates : ∀ g ∈ st.gates, g.2 ≠ [] ∧ ∀ c ∈ g.2, c < numNodes
  nodes : ∀ l ∈ st.nodes, LitIn numInputs st.gates.length l

/-- what one node line guarantees -/
structure StepOK (numNodes numInputs : Nat) (st : NState) (inp : Bytes)
    (p : Lit × NState × Bytes) : Prop where
  nodes : p.2.1.nodes = st.nodes
  spans : p.2.1.nspans = p.2.1.gates.length
  mono : st.gates.length ≤ p.2.1.gates.length
  ngates : p.2.1.gates.length ≤ st.nodes.length + 1
  gates : ∀ g ∈ p.2.1.gates, g.2 ≠ [] ∧ ∀ c ∈ g.2, c < numNodes
  lit : LitIn numInputs p.2.1.gates.length p.1

theorem gateLine_sat {numNodes numInputs : Nat} {st : NState} (hst : NInv numNodes numInputs st)
    (hcap : st.nodes.length < 2 ^ 62) (kind : Kind) {k : Nat} (hk : k ≠ 0) (inp : Bytes) :
    Sat NP (gateLine numNodes st kind k inp) (StepOK numNodes numInputs st inp) := by
  unfold gateLine
  have hng := hst.ngates
  apply Sat.bind (mkGate_sat (neg := false) (g := st.gates.length) (by omega))
  intro l hl
  apply Sat.bind (children_sat numNodes k inp)
  rintro ⟨cs, r⟩ ⟨hlen, hcs, _⟩
  dsimp only at hlen hcs
  refine Sat.pure ⟨rfl, ?_, ?_, ?_, ?_, ?_⟩
  · dsimp only; rw [hst.spans]; simp
  · dsimp only; simp
  · dsimp only; simp; omega
  · dsimp only
    intro g hg
    rcases List.mem_append.mp hg with hg | hg
    · exact hst.gates g hg
    · have : g = (kind, cs) := by simpa using hg
      subst this
      refine ⟨?_, hcs⟩
      intro hnil
      dsimp only at hnil
      rw [hnil] at hlen
      exact hk hlen.symm
  · dsimp only; subst hl; show st.gates.length < _; simp

theorem LitIn_emptyGate (nin ng : Nat) (k : Kind) : LitIn nin ng (emptyGate k) := by
  cases k <;> trivial

theorem nodeBody_sat {numNodes numInputs : Nat} {st : NState} (hst : NInv numNodes numInputs st)
    (hcap : st.nodes.length < 2 ^ 62) (hin : numInputs ≤ maxCap) (inp : Bytes) :
    Sat NP (nodeBody numNodes numInputs st inp) (StepOK numNodes numInputs st inp) := by
  have hsame : ∀ (l : Lit) (r : Bytes), LitIn numInputs st.gates.length l →
      StepOK numNodes numInputs st inp (l, st, r) := fun l r hl =>
    ⟨rfl, hst.spans, Nat.le_refl _, by have := hst.ngates; dsimp only; omega, hst.gates, hl⟩
  cases inp with
  | nil => exact Sat.fail
  | cons b inp =>
    simp only [nodeBody]
    split
    · unfold axLine
      apply Sat.bind (spaceU64_sat inp)
      rintro ⟨k, r⟩ _
      dsimp only
      split
      · exact Sat.pure (hsame _ _ (LitIn_emptyGate _ _ _))
      · rename_i hk
        exact (gateLine_sat hst hcap _ hk r).mono (fun p hp =>
          ⟨hp.nodes, hp.spans, hp.mono, hp.ngates, hp.gates, hp.lit⟩)
    · split
      · unfold orLine
        apply Sat.bind (spaceU64_sat inp)
        rintro ⟨conflict, r0⟩ _
        dsimp only
        split
        · exact Sat.throwFail
        · apply Sat.bind (spaceU64_sat r0)
          rintro ⟨k, r1⟩ _
          dsimp only
          split
          · exact Sat.throwFail
          · split
            · exact Sat.pure (hsame _ _ trivial)
            · rename_i hk
              exact (gateLine_sat hst hcap _ hk r1).mono (fun p hp =>
                ⟨hp.nodes, hp.spans, hp.mono, hp.ngates, hp.gates, hp.lit⟩)
      · split
        · unfold litLine
          apply Sat.bind (space1_sat inp)
          rintro ⟨_, r0⟩ _
          apply Sat.bind (i64_sat r0)
          rintro ⟨lit, r1⟩ _
          dsimp only
          split
          · exact Sat.throwFail
          · rename_i hv
            have hle : lit.natAbs - 1 ≤ 2 ^ 62 - 3 := by unfold maxCap at hin; omega
            apply Sat.bind (mkInput_sat (neg := decide (lit < 0)) hle)
            intro l hl
            subst hl
            exact Sat.pure (hsame _ _ (by show lit.natAbs - 1 < numInputs; omega))
        · exact Sat.fail

theorem nodesLoop_sat {numNodes numInputs : Nat} (hn : numNodes ≤ maxCap) (hin : numInputs ≤ maxCap) :
    ∀ (n : Nat) (st : NState) (inp : Bytes), NInv numNodes numInputs st →
    st.nodes.length + n = numNodes →
    Sat NP (nodesLoop numNodes numInputs n st inp)
      (fun p => NInv numNodes numInputs p.1 ∧ p.1.nodes.length = numNodes) := by
  intro n
  induction n with
  | zero => intro st inp hst hl; exact Sat.ok ⟨hst, by simpa using hl⟩
  | succ n ih =>
    intro st inp hst hl
    simp only [nodesLoop]
    have hcap : st.nodes.length < 2 ^ 62 := by unfold maxCap at hn; omega
    apply Sat.bind (nodeBody_sat hst hcap hin inp)
    rintro ⟨l, st', r⟩ hs
    apply Sat.bind (eol_sat r)
    rintro ⟨_, r'⟩ _
    have hnodes : st'.nodes = st.nodes := hs.nodes
    apply ih
    · refine ⟨hs.spans, ?_, hs.gates, ?_⟩
      · have := hs.ngates; dsimp only at this ⊢; rw [hnodes]; simp; omega
      · intro x hx
        dsimp only at hx ⊢
        rw [hnodes] at hx
        rcases List.mem_append.mp hx with hx | hx
        · exact (hst.nodes x hx).mono hs.mono
        · have : x = l := by simpa using hx
          subst this; exact hs.lit
    · dsimp only; rw [hnodes]; simp; omega

/-! ## the translation of the child numbers -/

theorem mapChildren_sat {nodes : List Lit} : ∀ (cs : List Nat), (∀ c ∈ cs, c < nodes.length) →
    Sat NP (mapChildren nodes cs) (fun ls => ls.length = cs.length ∧ ∀ l ∈ ls, l ∈ nodes) := by
  intro cs
  induction cs with
  | nil => intro _; exact Sat.ok ⟨rfl, by simp⟩
  | cons c cs ih =>
    intro h
    simp only [mapChildren]
    have hc : c < nodes.length := h c (by simp)
    rw [List.getElem?_eq_getElem hc]
    dsimp only
    have h1 := ih (fun x hx => h x (by simp [hx]))
    generalize mapChildren nodes cs = res at h1
    match res, h1 with
    | .error e, h1 => exact h1
    | .ok ls, h1 =>
      obtain ⟨hl, hm⟩ : ls.length = cs.length ∧ ∀ l ∈ ls, l ∈ nodes := h1
      refine Sat.ok ⟨by simp [hl], ?_⟩
      intro l hl'
      rcases List.mem_cons.mp hl' with rfl | hl'
      · exact List.getElem_mem hc
      · exact hm l hl'

theorem mapGates_sat {nodes : List Lit} : ∀ (gs : List (Kind × List Nat)),
    (∀ g ∈ gs, g.2 ≠ [] ∧ ∀ c ∈ g.2, c < nodes.length) →
    Sat NP (mapGates nodes gs)
      (fun gs' => gs'.length = gs.length ∧ ∀ g ∈ gs', g.2 ≠ [] ∧ ∀ l ∈ g.2, l ∈ nodes) := by
  intro gs
  induction gs with
  | nil => intro _; exact Sat.ok ⟨rfl, by simp⟩
  | cons g gs ih =>
    intro h
    obtain ⟨k, cs⟩ := g
    simp only [mapGates]
    have hg := h (k, cs) (by simp)
    have h0 := mapChildren_sat (nodes := nodes) cs hg.2
    generalize mapChildren nodes cs = res0 at h0
    match res0, h0 with
    | .error e, h0 => exact h0
    | .ok ls, h0 =>
      obtain ⟨hl0, hm0⟩ : ls.length = cs.length ∧ ∀ l ∈ ls, l ∈ nodes := h0
      dsimp only
      have h1 := ih (fun x hx => h x (by simp [hx]))
      generalize mapGates nodes gs = res at h1
      match res, h1 with
      | .error e, h1 => exact h1
      | .ok gs', h1 =>
        obtain ⟨hl, hm⟩ : gs'.length = gs.length ∧
          ∀ g ∈ gs', g.2 ≠ [] ∧ ∀ l ∈ g.2, l ∈ nodes := h1
        refine Sat.ok ⟨by simp [hl], ?_⟩
        intro g' hg'
        rcases List.mem_cons.mp hg' with rfl | hg'
        · refine ⟨?_, hm0⟩
          intro hnil
          dsimp only at hnil
          rw [hnil] at hl0
          exact hg.1 (List.eq_nil_of_length_eq_zero hl0.symm)
        · exact hm g' hg'

end OxiddModel.NnfParse
