import OxiddModel.NnfParse.LemmasPreamble
import OxiddModel.NnfParse.LemmasAcyclic

/-!
# `parse`: the only reachable panics are the two assertions of `VarSet::check_valid`; an accepted
problem is internally consistent
-/
namespace OxiddModel.NnfParse

open OxiddModel.Circuit
open OxiddModel.AigerParse (Bytes maxCap)

/-- the panics that are reachable in configuration `cfg` with `var_order = vo` -/
def Allowed (cfg : Cfg) (vo : Bool) (k : PanicKind) : Prop :=
  vo = true ∧ ((k = .validTree ∧ cfg.rejectEmptyTree = false) ∨
    (k = .validNames ∧ cfg.namesCleanup = false))

/-- a consistent `VarSet` (`check_valid` and the documented invariants) -/
structure VarSet.WF (v : VarSet) : Prop where
  orderLen : v.order = [] ∨ v.order.length = v.len
  tree : ∀ t, v.tree = some t → v.order = t.flatten ∧ v.order ≠ []
  names : v.names.getLast? ≠ some none
  namesLen : v.names.length ≤ v.len
  cap : v.len ≤ maxCap
  /-- the linear order, if present, is a permutation of the variables -/
  nodup : v.order.Nodup
  range : ∀ x ∈ v.order, x < v.len

theorem checkValid_sat {cfg : Cfg} {inp : Bytes} {p : (VarSet × Nat × Nat × Nat) × Bytes}
    (h : PreOK cfg inp p) : Sat (Allowed cfg true) p.1.1.checkValid (fun _ => p.1.1.WF) := by
  unfold VarSet.checkValid
  split
  · rename_i h1
    exfalso
    rcases h.orderLen with ho | ho
    · simp [ho] at h1
    · simp [ho] at h1
  · split
    · rename_i h2
      have ho : p.1.1.order = [] := by
        cases hh : p.1.1.order with
        | nil => rfl
        | cons a t => simp [hh] at h2
      have ht : p.1.1.tree.isSome = true := by
        cases hh : p.1.1.tree with
        | none => simp [ho, hh] at h2
        | some t => rfl
      exact Sat.panic ⟨rfl, Or.inl ⟨rfl, h.emptyTree ht ho⟩⟩
    · rename_i h2
      split
      · rename_i h3
        have h3' : p.1.1.names.getLast? = some none := by simpa using h3
        refine Sat.panic ⟨rfl, Or.inr ⟨rfl, ?_⟩⟩
        cases hc : cfg.namesCleanup with
        | false => rfl
        | true => exact absurd h3' (h.namesFixed hc)
      · rename_i h3
        refine Sat.ok ⟨h.orderLen, ?_, by simpa using h3, h.namesLen, by rw [h.len]; exact h.capVars,
          h.nodup, h.range⟩
        intro t ht
        refine ⟨h.treeFlat t ht, ?_⟩
        intro ho
        simp [ho, ht] at h2

/-- what `preamble` guarantees -/
structure PreambleOK (inp : Bytes) (p : (VarSet × Nat × Nat × Nat) × Bytes) : Prop where
  wf : p.1.1.WF
  len : p.1.1.len = p.1.2.2.2
  capNodes : p.1.2.1 ≤ maxCap
  capVars : p.1.2.2.2 ≤ maxCap

theorem preamble_sat (cfg : Cfg) (vo : Bool) (inp : Bytes) :
    Sat (Allowed cfg vo) (preamble cfg vo inp) (PreambleOK inp) := by
  unfold preamble
  cases vo with
  | true =>
    simp only [if_true]
    apply Sat.bind ((preambleOrder_sat cfg inp).weaken (fun _ h => h.elim))
    rintro ⟨x, r⟩ hx
    apply Sat.bind (checkValid_sat hx)
    intro _ hwf
    exact Sat.pure ⟨hwf, hx.len, hx.capNodes, hx.capVars⟩
  | false =>
    simp only [Bool.false_eq_true, if_false]
    apply Sat.bind ((skipComments_sat (ar := NP) (inp.length + 1) inp (by omega)).weaken
      (fun _ h => h.elim))
    intro r0 _
    apply Sat.bind (problemLine_sat r0)
    rintro ⟨⟨numNodes, numEdges, numVars⟩, r1⟩ ⟨hn, _, hv, _⟩
    exact Sat.pure ⟨⟨Or.inl rfl, fun t h => (by cases h), by simp [VarSet.new],
      by simp [VarSet.new], hv, List.nodup_nil, fun x hx => (by cases hx)⟩, rfl, hn, hv⟩

/-- an internally consistent problem: the variable set is valid, every gate has at least one input,
every gate input and the root name a constant, an existing input or an existing gate -/
structure Problem'.WF (p : Problem') : Prop where
  vars : p.vars.WF
  gates : ∀ g ∈ p.gates, g.2 ≠ [] ∧ ∀ l ∈ g.2, LitIn p.vars.len p.gates.length l
  root : LitIn p.vars.len p.gates.length p.root

theorem parse_sat (cfg : Cfg) (o : Opts) (inp : Bytes) :
    Sat (Allowed cfg o.varOrder) (parse cfg o inp)
      (fun p => p.WF ∧ (o.checkAcyclic = true → Acyclic p.gates)) := by
  unfold parse
  apply Sat.bind (preamble_sat cfg o.varOrder inp)
  rintro ⟨⟨vars, numNodes, numEdges, numInputs⟩, r0⟩ hp
  have hlen : vars.len = numInputs := hp.len
  have hcn : numNodes ≤ maxCap := hp.capNodes
  have hci : numInputs ≤ maxCap := hp.capVars
  dsimp only
  split
  · exact Sat.throwFail
  · rename_i hz
    apply Sat.bind ((nodesLoop_sat hcn hci numNodes ⟨[], [], 0⟩ r0
      ⟨rfl, Nat.le_refl _, by simp, by simp⟩ (by simp)).weaken (fun _ h => h.elim))
    rintro ⟨st, r1⟩ ⟨hst, hnl⟩
    dsimp only at hnl ⊢
    split
    · exact Sat.throwSyntax
    · have hgs : ∀ g ∈ st.gates, g.2 ≠ [] ∧ ∀ c ∈ g.2, c < st.nodes.length := by
        intro g hg; rw [hnl]; exact hst.gates g hg
      apply Sat.bind ((mapGates_sat st.gates hgs).weaken (fun _ h => h.elim))
      rintro gates ⟨hgl, hgm⟩
      have hlit : ∀ g ∈ gates, g.2 ≠ [] ∧ ∀ l ∈ g.2, LitIn vars.len gates.length l := by
        intro g hg
        refine ⟨(hgm g hg).1, fun l hl => ?_⟩
        rw [hgl, hlen]
        exact hst.nodes l ((hgm g hg).2 l hl)
      apply Sat.bind ((cycleCheck_sat' o.checkAcyclic
        (fun g hg l hl => ((hlit g hg).2 l hl).gateRef) (by rw [hgl]; exact hst.spans)).weaken
        (fun _ h => h.elim))
      intro _ hacyc
      split
      · rename_i hnone
        have : st.nodes = [] := by simpa using hnone
        rw [this] at hnl
        exact absurd hnl.symm hz
      · rename_i root hroot
        refine Sat.pure ⟨⟨hp.wf, hlit, ?_⟩, hacyc⟩
        dsimp only
        rw [hgl, hlen]
        exact hst.nodes root (List.mem_of_getLast? hroot)

/-! ## the exact condition -/

/-- a panic of `parse` is a panic of `check_valid` on the variable set the preamble built -/
theorem parse_panic_iff (cfg : Cfg) (o : Opts) (inp : Bytes) (k : PanicKind) :
    parse cfg o inp = .error (.panic k) ↔
      o.varOrder = true ∧ ∃ x r, preambleOrder cfg inp = .ok (x, r) ∧
        x.1.checkValid = .error (.panic k) := by
  constructor
  · intro h
    have hvo : o.varOrder = true := ((parse_sat cfg o inp).of_panic h).1
    refine ⟨hvo, ?_⟩
    -- the panic is raised by `preamble`: everything after it is panic free
    have hpre : preamble cfg true inp = .error (.panic k) := by
      unfold parse at h
      rw [hvo] at h
      cases hp : preamble cfg true inp with
      | error e =>
        rw [hp] at h
        have : e = .panic k := by simpa [bind, Except.bind] using h
        rw [this]
      | ok y =>
        exfalso
        -- re-run the proof of `parse_sat` after the preamble without allowing any panic
        have hpok : PreambleOK inp y := (preamble_sat cfg true inp).of_ok hp
        obtain ⟨⟨vars, numNodes, numEdges, numInputs⟩, r0⟩ := y
        have hs : Sat NP (parse cfg ⟨true, o.checkAcyclic⟩ inp) (fun _ => True) := by
          unfold parse
          dsimp only
          rw [hp]
          have hlen : vars.len = numInputs := hpok.len
          have hcn : numNodes ≤ maxCap := hpok.capNodes
          have hci : numInputs ≤ maxCap := hpok.capVars
          show Sat NP (_ >>= _) _
          simp only [bind, Except.bind]
          split
          · exact Sat.throwFail
          · rename_i hz
            have h1 := nodesLoop_sat hcn hci numNodes ⟨[], [], 0⟩ r0
              ⟨rfl, Nat.le_refl _, by simp, by simp⟩ (by simp)
            generalize nodesLoop numNodes numInputs numNodes ⟨[], [], 0⟩ r0 = res1 at h1
            match res1, h1 with
            | .error e, h1 => exact h1
            | .ok (st, r1), h1 =>
              obtain ⟨hst, hnl⟩ : NInv numNodes numInputs st ∧ st.nodes.length = numNodes := h1
              dsimp only
              split
              · exact Sat.throwSyntax
              · have hgs : ∀ g ∈ st.gates, g.2 ≠ [] ∧ ∀ c ∈ g.2, c < st.nodes.length := by
                  intro g hg; rw [hnl]; exact hst.gates g hg
                have h2 := mapGates_sat st.gates hgs
                generalize mapGates st.nodes st.gates = res2 at h2
                match res2, h2 with
                | .error e, h2 => exact h2
                | .ok gates, h2 =>
                  obtain ⟨hgl, hgm⟩ : gates.length = st.gates.length ∧
                    ∀ g ∈ gates, g.2 ≠ [] ∧ ∀ l ∈ g.2, l ∈ st.nodes := h2
                  dsimp only
                  have h3 := cycleCheck_sat (gates := gates) o.checkAcyclic (nspans := st.nspans)
                    (fun g hg l hl => by
                      have := hst.nodes l ((hgm g hg).2 l hl)
                      rw [hgl]; exact this.gateRef) (by rw [hgl]; exact hst.spans)
                  generalize cycleCheck o.checkAcyclic gates st.nspans = res3 at h3
                  match res3, h3 with
                  | .error e, h3 => exact h3
                  | .ok _, _ =>
                    dsimp only
                    split
                    · rename_i hnone
                      have : st.nodes = [] := by simpa using hnone
                      rw [this] at hnl
                      exact absurd hnl.symm hz
                    · exact Sat.pure trivial
        have ho : o = ⟨true, o.checkAcyclic⟩ := by cases o; simp_all
        rw [ho] at h
        exact hs.no_panic k h
    unfold preamble at hpre
    simp only [if_true] at hpre
    cases hq : preambleOrder cfg inp with
    | error e =>
      rw [hq] at hpre
      have he : e = .panic k := by simpa [bind, Except.bind] using hpre
      rw [he] at hq
      exact absurd hq ((preambleOrder_sat cfg inp).no_panic k)
    | ok y =>
      obtain ⟨x, r⟩ := y
      refine ⟨x, r, rfl, ?_⟩
      rw [hq] at hpre
      simp only [bind, Except.bind] at hpre
      cases hc : x.1.checkValid with
      | error e =>
        rw [hc] at hpre
        have : e = .panic k := by simpa [bind, Except.bind] using hpre
        rw [this]
      | ok u =>
        rw [hc] at hpre
        simp [pure, Except.pure] at hpre
  · rintro ⟨hvo, x, r, hq, hc⟩
    unfold parse preamble
    rw [hvo]
    simp only [if_true]
    rw [hq]
    simp only [bind, Except.bind]
    rw [hc]

end OxiddModel.NnfParse
