import OxiddModel.NnfParse.LemmasTreeNodup

/-!
# `preamble`: the order lines, the problem line, the clean-up, `check_valid`
-/
namespace OxiddModel.NnfParse

open OxiddModel.Circuit
open OxiddModel.AigerParse (Bytes isDigit isSpace u64Loop maxCap space0 trimEnd Visited u64Loop_len
  space0_len)

/-- number of variables seen in order records -/
def present (names : List (Option Bytes)) : Nat := names.countP (fun n => n.isSome)

theorem present_append_none (names : List (Option Bytes)) (k : Nat) :
    present (names ++ List.replicate k none) = present names := by
  unfold present
  rw [List.countP_append]
  have : List.countP (fun n : Option Bytes => n.isSome) (List.replicate k none) = 0 := by
    rw [List.countP_eq_zero]; intro a ha; rw [List.mem_replicate] at ha; simp [ha.2]
  omega

theorem present_set : ∀ (names : List (Option Bytes)) (v : Nat) (x : Bytes),
    names[v]? = some none → present (names.set v (some x)) = present names + 1 := by
  intro names
  induction names with
  | nil => intro v x h; simp at h
  | cons a t ih =>
    intro v x h
    cases v with
    | zero =>
      simp only [List.getElem?_cons_zero, Option.some.injEq] at h
      subst h
      simp [present]
    | succ v =>
      simp only [List.getElem?_cons_succ] at h
      have := ih v x h
      simp only [present, List.set_cons_succ, List.countP_cons] at this ⊢
      omega

theorem present_le (names : List (Option Bytes)) : present names ≤ names.length :=
  List.countP_le_length

theorem present_eq_length {names : List (Option Bytes)} (h : present names = names.length) :
    ∀ n ∈ names, n ≠ none := by
  induction names with
  | nil => intro n hn; cases hn
  | cons a t ih =>
    intro n hn
    have hle := present_le t
    simp only [present, List.countP_cons, List.length_cons] at h hle
    cases a with
    | none => simp at h; omega
    | some x =>
      simp only [Option.isSome_some, if_true] at h
      rcases List.mem_cons.mp hn with rfl | hn
      · simp
      · exact ih (by simp only [present]; omega) n hn

/-- invariant of the loop state of `preamble` -/
structure PInv (cfg : Cfg) (st : PState) : Prop where
  noTree : st.tree = none → st.order.length = present st.names
  withTree : ∀ t, st.tree = some t → st.order = t.flatten ∧
    (t.flatten = [] ∨ t.flatten.length = st.treeMax + 1) ∧
    (t.flatten = [] → cfg.rejectEmptyTree = false)
  cap : st.treeMax ≤ maxCap
  ordNodup : st.tree = none → st.order.Nodup ∧ ∀ x ∈ st.order, ∃ b, st.names[x]? = some (some b)
  treeNodup : ∀ t, st.tree = some t → t.flatten.Nodup ∧ ∀ x ∈ t.flatten, x ≤ st.treeMax

theorem recordSlot_sat {names : List (Option Bytes)} {numVars : Nat} (h : 1 ≤ numVars) :
    Sat NP (recordSlot names numVars) (fun ns => ns[numVars - 1]? = some none ∧
      present ns = present names ∧ numVars - 1 < ns.length ∧
      ∀ (x : Nat) (y : Option Bytes), names[x]? = some y → ns[x]? = some y) := by
  unfold recordSlot
  split
  · rename_i hgt
    refine Sat.ok ⟨?_, present_append_none _ _, by simp; omega, ?_⟩
    · rw [List.getElem?_append_right (by omega), List.getElem?_replicate]
      rw [if_pos (by omega)]
    · intro x y hxy
      have hx : x < names.length := by
        rcases Nat.lt_or_ge x names.length with h | h
        · exact h
        · rw [List.getElem?_eq_none h] at hxy; cases hxy
      rw [List.getElem?_append_left hx]; exact hxy
  · rename_i hle
    have hlt : numVars - 1 < names.length := by omega
    split
    · rename_i hn; rw [List.getElem?_eq_none_iff] at hn; omega
    · exact Sat.fail
    · rename_i hn; exact Sat.ok ⟨hn, rfl, hlt, fun _ _ h => h⟩

theorem recordName_sat (nameSet : List Bytes) (name : Option Bytes) :
    Sat NP (recordName nameSet name) (fun _ => True) := by
  unfold recordName
  split
  · split
    · exact Sat.fail
    · split
      · exact Sat.fail
      · exact Sat.ok trivial
  · exact Sat.ok trivial

theorem orderRecord_sat {cfg : Cfg} {st : PState} (hst : PInv cfg st) (var : Nat)
    (name : Option Bytes) : Sat NP (orderRecord st var name) (PInv cfg) := by
  unfold orderRecord
  split
  · exact Sat.fail
  · rename_i hz
    split
    · exact Sat.fail
    · have h1 := recordSlot_sat (names := st.names) (numVars := var) (by omega)
      generalize recordSlot st.names var = res at h1
      match res, h1 with
      | .error e, h1 => exact h1
      | .ok names, h1 =>
        obtain ⟨hslot, hpres, hlen, hkeep⟩ : names[var - 1]? = some none ∧
          present names = present st.names ∧ var - 1 < names.length ∧
          ∀ (x : Nat) (y : Option Bytes), st.names[x]? = some y → names[x]? = some y := h1
        dsimp only
        have h2 := recordName_sat st.nameSet name
        generalize recordName st.nameSet name = res2 at h2
        match res2, h2 with
        | .error e, h2 => exact h2
        | .ok (nm, nameSet), _ =>
          dsimp only
          split
          · omega
          · refine Sat.ok ⟨?_, ?_, hst.cap, ?_, ?_⟩
            rotate_left 2
            · intro ht
              have ht' : st.tree = none := ht
              obtain ⟨hnd, hpr⟩ := hst.ordNodup ht'
              have hnotin : var - 1 ∉ st.order := by
                intro hin
                obtain ⟨b, hb⟩ := hpr _ hin
                rw [hkeep _ _ hb] at hslot; cases hslot
              show (if st.tree.isNone then st.order ++ [var - 1] else st.order).Nodup ∧
                ∀ x ∈ (if st.tree.isNone then st.order ++ [var - 1] else st.order),
                  ∃ b, (names.set (var - 1) (some nm))[x]? = some (some b)
              rw [ht']
              simp only [Option.isNone_none, if_true]
              refine ⟨?_, ?_⟩
              · rw [List.nodup_append]
                refine ⟨hnd, by simp, ?_⟩
                intro a ha b hb hab
                simp only [List.mem_singleton] at hb
                subst hb; subst hab; exact hnotin ha
              · intro x hx
                rcases List.mem_append.mp hx with hx | hx
                · obtain ⟨b, hb⟩ := hpr x hx
                  have hne : var - 1 ≠ x := fun he => hnotin (he ▸ hx)
                  exact ⟨b, by rw [List.getElem?_set_ne hne]; exact hkeep _ _ hb⟩
                · simp only [List.mem_singleton] at hx
                  subst hx
                  exact ⟨nm, by rw [List.getElem?_set_self hlen]⟩
            · intro t ht
              have ht' : st.tree = some t := ht
              exact hst.treeNodup t ht'
            · intro ht
              have ht' : st.tree = none := ht
              have := hst.noTree ht'
              show (if st.tree.isNone then st.order ++ [var - 1] else st.order).length =
                present (names.set (var - 1) (some nm))
              rw [present_set _ _ _ hslot, hpres, ht']
              simp; omega
            · intro t ht
              have ht' : st.tree = some t := ht
              obtain ⟨h1, h2, h3⟩ := hst.withTree t ht'
              refine ⟨?_, h2, h3⟩
              show (if st.tree.isNone then st.order ++ [var - 1] else st.order) = t.flatten
              rw [ht']; simpa using h1

theorem varOrderRecord_sat {ar : PanicKind → Prop} (inp : Bytes) :
    Sat ar (varOrderRecord inp) (fun p => p.2.length < inp.length) := by
  unfold varOrderRecord
  apply Sat.bind (u64_sat inp)
  rintro ⟨var, r0⟩ h0
  apply Sat.bind (notLineEnding_sat r0)
  rintro ⟨name, r1⟩ h1
  apply Sat.bind (lineEnding_sat r1)
  rintro ⟨_, r2⟩ h2
  dsimp only at *
  split
  · exact Sat.pure (by dsimp only; omega)
  · split
    · exact Sat.pure (by dsimp only; omega)
    · exact Sat.throwSyntax

theorem cSpace_len {inp r : Bytes} (h : cSpace inp = some r) : r.length < inp.length := by
  unfold cSpace at h
  split at h
  · rename_i r0 hr
    have h0 := headIs_len hr
    split at h
    · rename_i u r' hs
      cases h
      have : r.length < r0.length := (space1_sat (ar := NP) r0).of_ok hs
      omega
    · cases h
  · cases h

theorem voSpace_len {inp r : Bytes} (h : voSpace inp = some r) : r.length < inp.length := by
  unfold voSpace at h
  split at h
  · rename_i r0
    split at h
    · rename_i u r' hs
      cases h
      have : r.length < r0.length := (space1_sat (ar := NP) r0).of_ok hs
      simp only [List.length_cons]; omega
    · cases h
  · cases h

theorem orderLoop_sat (cfg : Cfg) : ∀ (fuel : Nat) (st : PState) (inp : Bytes),
    inp.length < fuel → PInv cfg st →
    Sat NP (orderLoop cfg fuel st inp) (fun p => PInv cfg p.1 ∧ p.2.length ≤ inp.length) := by
  intro fuel
  induction fuel with
  | zero => intro _ inp h; omega
  | succ fuel ih =>
    intro st inp hfuel hst
    simp only [orderLoop]
    split
    · exact Sat.ok ⟨hst, Nat.le_refl _⟩
    · rename_i next hc
      have hnext := cSpace_len hc
      split
      · rename_i next2 hv
        have hnext2 := voSpace_len hv
        split
        · exact Sat.fail
        · rename_i hnone
          have ht := tree_sat cfg true next2
          generalize hres : tree cfg true true next2 = res at ht
          match res, ht with
          | .error e, ht => exact ht
          | .ok ((t, mx), r), ht =>
            have hk : TreeTop cfg next2 ((t, mx), r) := ht
            dsimp only
            have he := eol_sat (ar := NP) r
            generalize eol r = res2 at he
            match res2, he with
            | .error e, he => exact he
            | .ok (_, r'), he =>
              have hr' : r'.length < r.length := he
              have hrr : r.length ≤ next2.length := hk.rest'
              have hcap : mx ≤ maxCap := hk.cap
              dsimp only
              split
              · rename_i hbig; unfold maxCap at hcap; omega
              · refine (ih _ r' (by omega) ⟨?_, ?_, hcap, ?_, ?_⟩).mono (fun p hp => ⟨hp.1, by omega⟩)
                · intro h; cases h
                · intro t' ht'
                  cases ht'
                  exact ⟨rfl, hk.leaves, hk.empty⟩
                · intro h; cases h
                · intro t' ht'
                  cases ht'
                  exact ⟨tree_nodup cfg true next2 t mx r hres, hk.range⟩
      · have hv := varOrderRecord_sat (ar := NP) next
        generalize varOrderRecord next = res at hv
        match res, hv with
        | .ok ((var, name), r), hv =>
          have hr : r.length < next.length := hv
          dsimp only
          have ho := orderRecord_sat hst var name
          generalize orderRecord st var name = res2 at ho
          match res2, ho with
          | .error e, ho => exact ho
          | .ok st', ho =>
            exact (ih st' r (by omega) ho).mono (fun p hp => ⟨hp.1, by omega⟩)
        | .error (.panic k), hv => exact hv
        | .error .syntax, _ => exact Sat.fail
        | .error (.fail c), _ => exact Sat.fail

/-! ## the clean-up -/

/-- the predicate of the first clean-up loop -/
def isMark (cfg : Cfg) (n : Option Bytes) : Bool := n == some [] || (cfg.namesCleanup && n == none)

theorem popMarks_eq (cfg : Cfg) (names : List (Option Bytes)) :
    popMarks cfg names = (names.reverse.dropWhile (isMark cfg)).reverse := rfl

theorem popMarks_getLast (cfg : Cfg) (names : List (Option Bytes)) (x : Option Bytes)
    (h : (popMarks cfg names).getLast? = some x) : isMark cfg x = false ∧ x ∈ names := by
  rw [popMarks_eq, List.getLast?_reverse] at h
  have h1 := List.head?_dropWhile_not (isMark cfg) names.reverse
  rw [h] at h1
  refine ⟨by simpa using h1, ?_⟩
  have hm : x ∈ names.reverse.dropWhile (isMark cfg) := List.mem_of_mem_head? h
  have := (List.dropWhile_suffix (isMark cfg)).subset hm
  simpa using this

theorem popMarks_length (cfg : Cfg) (names : List (Option Bytes)) :
    (popMarks cfg names).length ≤ names.length := by
  rw [popMarks_eq, List.length_reverse]
  have := (List.dropWhile_suffix (l := names.reverse) (isMark cfg)).length_le
  simpa using this

theorem unmark_getLast (l : List (Option Bytes)) :
    (unmark l).getLast? = l.getLast?.map (fun n => if n == some [] then none else n) := by
  unfold unmark; rw [List.getLast?_map]

/-- the last entry of the cleaned-up `names` is `None` iff the last entry that is not popped is -/
theorem cleanup_last_none (cfg : Cfg) (names : List (Option Bytes)) :
    (unmark (popMarks cfg names)).getLast? = some none ↔
      (popMarks cfg names).getLast? = some none := by
  rw [unmark_getLast]
  cases hl : (popMarks cfg names).getLast? with
  | none => simp
  | some x =>
    have hx := (popMarks_getLast cfg names x hl).1
    simp only [Option.map_some, Option.some.injEq]
    cases x with
    | none => simp
    | some b =>
      have hb : b ≠ [] := by
        intro hb; subst hb; simp [isMark] at hx
      simp [hb]

theorem cleanup_fixed (cfg : Cfg) (names : List (Option Bytes)) (h : cfg.namesCleanup = true) :
    (unmark (popMarks cfg names)).getLast? ≠ some none := by
  rw [Ne, cleanup_last_none]
  intro hl
  have := (popMarks_getLast cfg names none hl).1
  simp [isMark, h] at this

theorem cleanup_all_some (cfg : Cfg) (names : List (Option Bytes)) (h : ∀ n ∈ names, n ≠ none) :
    (unmark (popMarks cfg names)).getLast? ≠ some none := by
  rw [Ne, cleanup_last_none]
  intro hl
  exact h none (popMarks_getLast cfg names none hl).2 rfl

/-! ## `preamble` -/

/-- what the `parse_var_order` branch guarantees before `check_valid` -/
structure PreOK (cfg : Cfg) (inp : Bytes) (p : (VarSet × Nat × Nat × Nat) × Bytes) : Prop where
  rest : p.2.length < inp.length
  capNodes : p.1.2.1 ≤ maxCap
  capEdges : p.1.2.2.1 ≤ maxCap
  capVars : p.1.2.2.2 ≤ maxCap
  len : p.1.1.len = p.1.2.2.2
  orderLen : p.1.1.order = [] ∨ p.1.1.order.length = p.1.1.len
  treeFlat : ∀ t, p.1.1.tree = some t → p.1.1.order = t.flatten
  emptyTree : p.1.1.tree.isSome = true → p.1.1.order = [] → cfg.rejectEmptyTree = false
  namesNoTree : p.1.1.tree = none → p.1.1.names.getLast? ≠ some none
  namesFixed : cfg.namesCleanup = true → p.1.1.names.getLast? ≠ some none
  namesLen : p.1.1.names.length ≤ p.1.1.len
  nodup : p.1.1.order.Nodup
  range : ∀ x ∈ p.1.1.order, x < p.1.1.len

theorem numVarsCheck_sat {cfg : Cfg} {st : PState} (hst : PInv cfg st) (numVars : Nat) :
    Sat NP (numVarsCheck st numVars) (fun _ =>
      (st.tree = none → st.order = [] ∨ numVars = st.order.length) ∧
      (∀ t, st.tree = some t → numVars = st.treeMax + 1 ∧ st.names.length ≤ numVars)) := by
  unfold numVarsCheck
  cases htree : st.tree with
  | none =>
    simp only [Option.isNone_none, if_true]
    split
    · exact Sat.fail
    · rename_i hchk
      refine Sat.ok ⟨fun _ => ?_, fun t h => (by cases h)⟩
      cases ho : st.order with
      | nil => exact Or.inl rfl
      | cons a t => right; rw [ho] at hchk; simpa using hchk
  | some t =>
    simp only [Option.isNone_some, Bool.false_eq_true, if_false]
    split
    · have := hst.cap; unfold maxCap at this; omega
    · split
      · exact Sat.fail
      · rename_i hnv
        split
        · exact Sat.fail
        · refine Sat.ok ⟨fun h => (by cases h), fun t' _ => ⟨by simpa using hnv, by omega⟩⟩

theorem preambleOrder_sat (cfg : Cfg) (inp : Bytes) :
    Sat NP (preambleOrder cfg inp) (PreOK cfg inp) := by
  unfold preambleOrder
  have h0 := orderLoop_sat cfg (inp.length + 1) ⟨[], [], none, 0, []⟩ inp (by omega)
    ⟨fun _ => rfl, fun t h => (by cases h), Nat.zero_le _,
      fun _ => ⟨List.nodup_nil, fun x hx => (by cases hx)⟩, fun t h => (by cases h)⟩
  generalize orderLoop cfg (inp.length + 1) ⟨[], [], none, 0, []⟩ inp = res0 at h0
  match res0, h0 with
  | .error e, h0 => exact h0
  | .ok (st, r0), h0 =>
  obtain ⟨hst, hr0⟩ : PInv cfg st ∧ r0.length ≤ inp.length := h0
  dsimp only
  split
  · exact Sat.fail
  · rename_i hinc
    have h1 := problemLine_sat (ar := NP) r0
    generalize problemLine r0 = res1 at h1
    match res1, h1 with
    | .error e, h1 => exact h1
    | .ok ((numNodes, numEdges, numVars), r1), h1 =>
    obtain ⟨hn, he, hv, hr1⟩ : numNodes ≤ maxCap ∧ numEdges ≤ maxCap ∧ numVars ≤ maxCap ∧
      r1.length < r0.length := h1
    dsimp only
    have h2 := numVarsCheck_sat hst numVars
    generalize numVarsCheck st numVars = res2 at h2
    match res2, h2 with
    | .error e, h2 => exact h2
    | .ok _, h2 =>
    obtain ⟨hA, hB⟩ : (st.tree = none → st.order = [] ∨ numVars = st.order.length) ∧
      (∀ t, st.tree = some t → numVars = st.treeMax + 1 ∧ st.names.length ≤ numVars) := h2
    dsimp only
    have hp1 := popMarks_length cfg st.names
    have hp2 : (unmark (popMarks cfg st.names)).length = (popMarks cfg st.names).length := by
      simp [unmark]
    cases htree : st.tree with
    | none =>
      have hlen : st.names.length = st.order.length := by
        simpa [htree] using hinc
      have hpres := hst.noTree htree
      have hall := present_eq_length (names := st.names) (by omega)
      refine Sat.ok ⟨by dsimp only; omega, hn, he, hv, rfl,
        ?_, fun t h => (by cases h), fun h => (by cases h), fun _ => cleanup_all_some cfg _ hall,
        fun _ => cleanup_all_some cfg _ hall, ?_, (hst.ordNodup htree).1, ?_⟩
      · dsimp only
        rcases hA htree with h | h
        · exact Or.inl h
        · exact Or.inr h.symm
      · dsimp only
        rcases hA htree with h | h
        · rw [h] at hlen
          have : st.names.length = 0 := by simpa using hlen
          omega
        · omega
      · intro x hx
        dsimp only at hx ⊢
        obtain ⟨b, hb⟩ := (hst.ordNodup htree).2 x hx
        have hxl : x < st.names.length := by
          rcases Nat.lt_or_ge x st.names.length with h | h
          · exact h
          · rw [List.getElem?_eq_none h] at hb; cases hb
        rcases hA htree with h | h
        · rw [h] at hx; cases hx
        · omega
    | some t =>
      obtain ⟨hflat, hleaves, hempty⟩ := hst.withTree t htree
      obtain ⟨hnv', hnl⟩ := hB t htree
      refine Sat.ok ⟨by dsimp only; omega, hn, he, hv,
        rfl, ?_, ?_, ?_, fun h => (by cases h), fun h => cleanup_fixed cfg _ h, ?_,
        by dsimp only; rw [hflat]; exact (hst.treeNodup t htree).1, ?_⟩
      · dsimp only
        rcases hleaves with h | h
        · left; rw [hflat, h]
        · right; rw [hflat, h, hnv']
      · intro t' ht'; cases ht'; exact hflat
      · intro _ ho; exact hempty (by rw [← hflat]; exact ho)
      · dsimp only; omega
      · intro x hx
        dsimp only at hx ⊢
        rw [hflat] at hx
        have := (hst.treeNodup t htree).2 x hx
        omega

end OxiddModel.NnfParse
