import OxiddModel.NnfParse.LemmasBasic

/-!
# `util::tree`: no panic, the fuel suffices, and what the bit set says about the leaves
-/
namespace OxiddModel.NnfParse

open OxiddModel.Circuit
open OxiddModel.AigerParse (Bytes isDigit isSpace u64Loop maxCap space0 trimEnd Visited u64Loop_len
  space0_len)

/-- number of set bits -/
def countT (l : Bits) : Nat := l.count true

/-- one more than the largest element (0 for the empty list) -/
def bound : List Nat → Nat
  | [] => 0
  | x :: xs => max (x + 1) (bound xs)

theorem bound_append (a b : List Nat) : bound (a ++ b) = max (bound a) (bound b) := by
  induction a with
  | nil => simp [bound]
  | cons x xs ih => simp only [List.cons_append, bound, ih]; omega

theorem bound_pos {l : List Nat} (h : l ≠ []) : 0 < bound l := by
  cases l with
  | nil => exact absurd rfl h
  | cons x xs => simp only [bound]; omega

theorem mem_lt_bound {l : List Nat} {x : Nat} (h : x ∈ l) : x < bound l := by
  induction l with
  | nil => cases h
  | cons y ys ih =>
    simp only [bound]
    rcases List.mem_cons.mp h with h | h
    · subst h; omega
    · have := ih h; omega

/-- `mx` is the largest leaf (0 without leaves) -/
def MxOK (mx : Nat) (f : List Nat) : Prop := (f = [] ∧ mx = 0) ∨ (f ≠ [] ∧ mx + 1 = bound f)

theorem MxOK.append {m1 m2 : Nat} {f1 f2 : List Nat} (h1 : MxOK m1 f1) (h2 : MxOK m2 f2) :
    MxOK (if m2 ≥ m1 then m2 else m1) (f1 ++ f2) := by
  rcases h1 with ⟨e1, z1⟩ | ⟨n1, b1⟩ <;> rcases h2 with ⟨e2, z2⟩ | ⟨n2, b2⟩
  · subst e1 e2 z1 z2; left; simp
  · subst e1 z1; right; refine ⟨by simpa using n2, ?_⟩; simp only [List.nil_append]; split <;> omega
  · subst e2 z2; right; refine ⟨by simpa using n1, ?_⟩
    simp only [List.append_nil]; split <;> omega
  · right; refine ⟨by simp [n1], ?_⟩; rw [bound_append]; split <;> omega

theorem count_true_set : ∀ (l : List Bool) (i : Nat), i < l.length → l.getD i false = false →
    (l.set i true).count true = l.count true + 1 := by
  intro l
  induction l with
  | nil => intro i hi; simp at hi
  | cons b l ih =>
    intro i hi hg
    cases i with
    | zero => simp at hg; subst hg; simp
    | succ i =>
      simp only [List.set_cons_succ, List.count_cons]
      have := ih i (by simpa using hi) (by simpa using hg)
      omega

theorem growInsert_length (ins : Bits) (n : Nat) :
    (growInsert ins n).length = max ins.length (n + 1) := by
  simp only [growInsert, List.length_set, List.length_append, List.length_replicate]; omega

theorem getD_append_replicate (ins : Bits) (k n : Nat) :
    (ins ++ List.replicate k false).getD n false = ins.getD n false := by
  simp only [List.getD_eq_getElem?_getD, List.getElem?_append, List.getElem?_replicate]
  split
  · rfl
  · rename_i h
    rw [List.getElem?_eq_none (Nat.le_of_not_lt h)]
    split <;> rfl

theorem growInsert_count (ins : Bits) (n : Nat) (h : ins.getD n false = false) :
    countT (growInsert ins n) = countT ins + 1 := by
  unfold growInsert countT
  rw [count_true_set]
  · simp [List.count_append, List.count_replicate]
  · simp only [List.length_append, List.length_replicate]; omega
  · rw [getD_append_replicate]; exact h

theorem flatten_single (x : Tree) : Tree.flattenList [x] = x.flatten := by
  simp [Tree.flattenList]

theorem flattenList_append (a b : List Tree) :
    Tree.flattenList (a ++ b) = Tree.flattenList a ++ Tree.flattenList b := by
  induction a with
  | nil => simp [Tree.flattenList]
  | cons x xs ih => simp [Tree.flattenList, ih]

/-- `[42]` is flattened to `42`: the leaves stay the same -/
theorem flatten_collapse (buf : List Tree) : (collapse buf).flatten = Tree.flattenList buf := by
  unfold collapse
  split
  · rw [flatten_single]
  · simp [Tree.flatten]

/-- the input does not begin with a blank or a tab -/
def NoSp (inp : Bytes) : Prop := startsSp inp = false

theorem space0_noSp : ∀ (inp : Bytes), NoSp (space0 inp) := by
  intro inp
  induction inp with
  | nil => simp [space0, NoSp, startsSp]
  | cons b r ih =>
    simp only [space0]
    split
    · exact ih
    · rename_i h; simp only [NoSp, startsSp]; simpa using h

/-- what one call of `rec` (with `unique_leaves`) guarantees -/
structure TreeOK (inp : Bytes) (ins : Bits) (p : TreeRes) : Prop where
  rest : p.2.2.2.length < inp.length
  count : countT p.2.2.1 = countT ins + p.1.flatten.length
  len : p.2.2.1.length = max ins.length (bound p.1.flatten)
  mx : MxOK p.2.1 p.1.flatten
  cap : p.2.1 ≤ maxCap

/-- what the loop of the `[` branch guarantees -/
structure LoopOKf (inp : Bytes) (ins : Bits) (buf : List Tree)
    (p : List Tree × Nat × Bits × Bytes) (f : List Nat) : Prop where
  rest : p.2.2.2.length < inp.length
  flat : Tree.flattenList p.1 = Tree.flattenList buf ++ f
  count : countT p.2.2.1 = countT ins + f.length
  len : p.2.2.1.length = max ins.length (bound f)
  mx : MxOK p.2.1 (Tree.flattenList p.1)
  cap : p.2.1 ≤ maxCap

def LoopOK (inp : Bytes) (ins : Bits) (buf : List Tree) (p : List Tree × Nat × Bits × Bytes) : Prop :=
  ∃ f, LoopOKf inp ins buf p f

theorem treeLoop_sat {rc : Bytes → Bits → Res TreeRes} {lim : Nat}
    (hrc : ∀ (i : Bytes) (ins : Bits), i.length < lim → NoSp i → Sat NP (rc i ins) (TreeOK i ins)) :
    ∀ (fuel : Nat) (inp : Bytes) (ins : Bits) (buf : List Tree) (mx : Nat),
    inp.length < fuel → inp.length < lim → MxOK mx (Tree.flattenList buf) → mx ≤ maxCap →
    Sat NP (treeLoop rc fuel inp ins buf mx) (LoopOK inp ins buf) := by
  intro fuel
  induction fuel with
  | zero => intro inp _ _ _ h; omega
  | succ fuel ih =>
    intro inp ins buf mx hfuel hlim hmx hcap
    simp only [treeLoop]
    have hs0 := space0_len inp
    split
    · rename_i r hr
      have := headIs_len hr
      exact Sat.ok ⟨[], by dsimp only; omega, by simp, by simp, by simp [bound], hmx, hcap⟩
    · have h1 := hrc (space0 inp) ins (by omega) (space0_noSp inp)
      generalize rc (space0 inp) ins = res at h1
      match res, h1 with
      | .error e, h1 => exact h1
      | .ok (sub, subMax, ins', i1), h1 =>
        dsimp only
        have hk : TreeOK (space0 inp) ins (sub, subMax, ins', i1) := h1
        have hr1 : i1.length < (space0 inp).length := hk.rest
        have hs1 := space0_len i1
        have hmx' : MxOK (if subMax ≥ mx then subMax else mx) (Tree.flattenList (buf ++ [sub])) := by
          rw [flattenList_append, flatten_single]
          exact hmx.append hk.mx
        have hcap' : (if subMax ≥ mx then subMax else mx) ≤ maxCap := by
          have := hk.cap; dsimp only at this; split <;> omega
        split
        · rename_i r hr
          have := headIs_len hr
          refine Sat.ok ⟨sub.flatten, by dsimp only; omega, ?_, hk.count, hk.len, hmx', hcap'⟩
          dsimp only; rw [flattenList_append, flatten_single]
        · split
          · rename_i r hr
            have hl := headIs_len hr
            have h2 := ih r ins' (buf ++ [sub]) _ (by omega) (by omega) hmx' hcap'
            generalize treeLoop rc fuel r ins' (buf ++ [sub]) _ = res2 at h2
            match res2, h2 with
            | .error e, h2 => exact h2
            | .ok q, h2 =>
              obtain ⟨f2, hq⟩ : LoopOK r ins' (buf ++ [sub]) q := h2
              have hc1 : countT ins' = countT ins + sub.flatten.length := hk.count
              have hl1 : ins'.length = max ins.length (bound sub.flatten) := hk.len
              refine Sat.ok ⟨sub.flatten ++ f2, by have := hq.rest; omega, ?_, ?_, ?_, hq.mx, hq.cap⟩
              · rw [hq.flat, flattenList_append, flatten_single, List.append_assoc]
              · rw [hq.count, hc1, List.length_append]; omega
              · rw [hq.len, hl1, bound_append]; omega
          · exact Sat.fail

theorem treeLeaf_sat (ob : Bool) (ins : Bits) (n : Nat) (r : Bytes) :
    Sat NP (treeLeaf ob true ins n r) (fun p => p.2.2.2.length = r.length ∧
      countT p.2.2.1 = countT ins + p.1.flatten.length ∧
      p.2.2.1.length = max ins.length (bound p.1.flatten) ∧ MxOK p.2.1 p.1.flatten ∧
      p.2.1 ≤ maxCap) := by
  unfold treeLeaf
  by_cases hcap : n > maxCap
  · rw [if_pos hcap]; exact Sat.fail
  rw [if_neg hcap]
  by_cases hz : (ob && decide (n = 0)) = true
  · rw [if_pos hz]; exact Sat.fail
  rw [if_neg hz]
  dsimp only
  generalize hn' : (if ob = true then n - 1 else n) = n'
  by_cases hdup : (true && decide (n' < ins.length) && ins.getD n' false) = true
  · rw [if_pos hdup]; exact Sat.fail
  rw [if_neg hdup]
  have hfree : ins.getD n' false = false := by
    cases hg : ins.getD n' false with
    | false => rfl
    | true =>
      exfalso; apply hdup
      have hlt : n' < ins.length := by
        rcases Nat.lt_or_ge n' ins.length with h | h
        · exact h
        · rw [List.getD_eq_getElem?_getD, List.getElem?_eq_none h] at hg; simp at hg
      simp only [Bool.true_and, Bool.and_eq_true, decide_eq_true_eq]; exact ⟨hlt, hg⟩
  refine Sat.ok ⟨rfl, ?_, ?_, ?_, ?_⟩
  · dsimp only; rw [growInsert_count _ _ hfree]; simp [Tree.flatten]
  · dsimp only; rw [growInsert_length]; simp [Tree.flatten, bound]
  · right; simp [Tree.flatten, bound]
  · dsimp only; subst hn'; split <;> omega

theorem treeRec_sat (ob : Bool) : ∀ (fuel : Nat) (inp : Bytes) (ins : Bits),
    inp.length < fuel → NoSp inp → Sat NP (treeRec ob true fuel inp ins) (TreeOK inp ins) := by
  intro fuel
  induction fuel with
  | zero => intro inp _ h; omega
  | succ fuel ih =>
    intro inp ins hfuel hsp
    simp only [treeRec]
    have hsp' : startsSp inp = false := hsp
    rw [if_neg (by simp [hsp'])]
    split
    · rename_i n r0 hu
      have hr0 : r0.length < inp.length := (u64_sat (ar := NP) inp).of_ok hu
      have hs := space0_len r0
      exact (treeLeaf_sat ob ins n (space0 r0)).mono (fun p hp =>
        ⟨by have := hp.1; omega, hp.2.1, hp.2.2.1, hp.2.2.2.1, hp.2.2.2.2⟩)
    · split
      · rename_i r0 hr
        have hl := headIs_len hr
        have hs := space0_len r0
        have h1 := treeLoop_sat (rc := treeRec ob true fuel) (lim := fuel)
          (fun i ins' hi hn => ih i ins' hi hn) (r0.length + 1) (space0 r0) ins [] 0
          (by omega) (by omega) (Or.inl ⟨by simp [Tree.flattenList], rfl⟩) (Nat.zero_le _)
        generalize treeLoop (treeRec ob true fuel) (r0.length + 1) (space0 r0) ins [] 0 = res at h1
        match res, h1 with
        | .error e, h1 => exact h1
        | .ok (buf, mx, ins', r), h1 =>
          obtain ⟨f, hq⟩ : LoopOK (space0 r0) ins [] (buf, mx, ins', r) := h1
          have hflat : Tree.flattenList buf = f := by
            have := hq.flat; simpa [Tree.flattenList] using this
          dsimp only
          refine Sat.ok ⟨by have := hq.rest; dsimp only at this ⊢; omega, ?_, ?_, ?_, hq.cap⟩
          · dsimp only; rw [flatten_collapse, hflat]; exact hq.count
          · dsimp only; rw [flatten_collapse, hflat]; exact hq.len
          · dsimp only; rw [flatten_collapse]; exact hq.mx
      · exact Sat.fail

theorem hasZero_false {ins : Bits} (h : hasZero ins = false) : countT ins = ins.length := by
  unfold hasZero at h
  unfold countT
  induction ins with
  | nil => rfl
  | cons b t ih =>
    simp only [List.any_cons, Bool.or_eq_false_iff] at h
    have hb : b = true := by simpa using h.1
    subst hb
    simp [ih h.2]

/-- what `util::tree(one_based, true)` returns: the rest is shorter; the number of leaves is 0 or
one more than the maximal number; with the proposed repair there is at least one leaf -/
structure TreeTop (cfg : Cfg) (inp : Bytes) (p : (Tree × Nat) × Bytes) : Prop where
  rest : p.2.length < inp.length ∨ (p.2.length ≤ inp.length ∧ p.1.1.flatten = [])
  rest' : p.2.length ≤ inp.length
  leaves : p.1.1.flatten = [] ∨ p.1.1.flatten.length = p.1.2 + 1
  empty : p.1.1.flatten = [] → cfg.rejectEmptyTree = false
  cap : p.1.2 ≤ maxCap
  range : ∀ x ∈ p.1.1.flatten, x ≤ p.1.2

theorem tree_sat (cfg : Cfg) (ob : Bool) (inp : Bytes) :
    Sat NP (tree cfg ob true inp) (TreeTop cfg inp) := by
  unfold tree
  dsimp only
  have hs := space0_len inp
  have h1 := treeRec_sat ob ((space0 inp).length + 1) (space0 inp) [] (by omega) (space0_noSp inp)
  generalize treeRec ob true ((space0 inp).length + 1) (space0 inp) [] = res at h1
  match res, h1 with
  | .error .syntax, _ => exact Sat.fail
  | .error (.fail c), _ => exact Sat.fail
  | .error (.panic k), h1 => exact h1
  | .ok (t, mx, ins, r), h1 =>
    have hk : TreeOK (space0 inp) [] (t, mx, ins, r) := h1
    dsimp only
    split
    · exact Sat.fail
    · rename_i hz
      have hc := hasZero_false (by simpa using hz)
      have hcount : countT ins = t.flatten.length := by
        have := hk.count; simpa [countT] using this
      have hlen : ins.length = bound t.flatten := by
        have := hk.len; simpa using this
      have hleaves : t.flatten = [] ∨ t.flatten.length = mx + 1 := by
        rcases hk.mx with ⟨e, _⟩ | ⟨_, hb⟩
        · exact Or.inl e
        · right; dsimp only at hb; omega
      have hrest : r.length < (space0 inp).length := hk.rest
      split
      · exact Sat.fail
      · rename_i he
        refine Sat.ok ⟨Or.inl (by dsimp only; omega), by dsimp only; omega, hleaves, ?_, hk.cap, ?_⟩
        rotate_left
        · intro x hx
          dsimp only at hx ⊢
          rcases hk.mx with ⟨e, _⟩ | ⟨_, hb⟩
          · dsimp only at e; rw [e] at hx; cases hx
          · have := mem_lt_bound hx; dsimp only at hb; omega
        intro hempty
        dsimp only at hempty
        cases hre : cfg.rejectEmptyTree with
        | false => rfl
        | true =>
          exfalso; apply he
          have : ins.length = 0 := by rw [hlen, hempty]; rfl
          simp [hre, List.eq_nil_of_length_eq_zero this]

end OxiddModel.NnfParse
