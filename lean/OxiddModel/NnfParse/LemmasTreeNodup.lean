import OxiddModel.NnfParse.LemmasTree

/-!
# `util::tree(_, true)`: the leaves are pairwise different (what the bit set `inserted` enforces)
-/
namespace OxiddModel.NnfParse

open OxiddModel.Circuit
open OxiddModel.AigerParse (Bytes isDigit isSpace u64Loop maxCap space0)

theorem getD_set_true' (l : List Bool) (i j : Nat) :
    (l.set i true).getD j false = true ↔ (i = j ∧ i < l.length) ∨ l.getD j false = true := by
  rw [List.getD_eq_getElem?_getD, List.getD_eq_getElem?_getD, List.getElem?_set]
  by_cases hij : i = j
  · subst hij
    by_cases hl : i < l.length
    · simp [hl]
    · have : l[i]? = none := List.getElem?_eq_none (Nat.le_of_not_lt hl)
      simp [hl]
  · simp [hij]

theorem growInsert_getD (ins : Bits) (n x : Nat) :
    (growInsert ins n).getD x false = true ↔ (x = n ∨ ins.getD x false = true) := by
  unfold growInsert
  rw [getD_set_true', getD_append_replicate]
  constructor
  · rintro (⟨h, _⟩ | h)
    · exact Or.inl h.symm
    · exact Or.inr h
  · rintro (h | h)
    · refine Or.inl ⟨h.symm, ?_⟩
      simp only [List.length_append, List.length_replicate]; omega
    · exact Or.inr h

/-- the set bits after a call are the set bits before it and the leaves of the subtree, which
were not set before and are pairwise different -/
structure Fresh (ins ins' : Bits) (f : List Nat) : Prop where
  bits : ∀ x, ins'.getD x false = true ↔ (x ∈ f ∨ ins.getD x false = true)
  fresh : ∀ x ∈ f, ins.getD x false = false
  nodup : f.Nodup

theorem Fresh.nil (ins : Bits) : Fresh ins ins [] :=
  ⟨fun x => (by simp), fun x hx => (by cases hx), List.nodup_nil⟩

theorem Fresh.append {a b c : Bits} {f1 f2 : List Nat} (h1 : Fresh a b f1) (h2 : Fresh b c f2) :
    Fresh a c (f1 ++ f2) := by
  refine ⟨?_, ?_, ?_⟩
  · intro x
    rw [h2.bits, h1.bits, List.mem_append]
    constructor
    · rintro (h | h | h)
      · exact Or.inl (Or.inr h)
      · exact Or.inl (Or.inl h)
      · exact Or.inr h
    · rintro ((h | h) | h)
      · exact Or.inr (Or.inl h)
      · exact Or.inl h
      · exact Or.inr (Or.inr h)
  · intro x hx
    rcases List.mem_append.mp hx with h | h
    · exact h1.fresh x h
    · have hb := h2.fresh x h
      cases ha : a.getD x false with
      | false => rfl
      | true =>
        have := (h1.bits x).mpr (Or.inr ha)
        rw [this] at hb; cases hb
  · rw [List.nodup_append]
    refine ⟨h1.nodup, h2.nodup, ?_⟩
    intro x hx1 y hy2 hxy
    subst hxy
    have hb := h2.fresh x hy2
    have := (h1.bits x).mpr (Or.inl hx1)
    rw [this] at hb; cases hb

theorem treeLeaf_fresh (ob : Bool) (ins : Bits) (n : Nat) (r : Bytes) (p : TreeRes)
    (h : treeLeaf ob true ins n r = .ok p) : Fresh ins p.2.2.1 p.1.flatten := by
  unfold treeLeaf at h
  split at h
  · cases h
  · split at h
    · cases h
    · dsimp only at h
      generalize hn' : (if ob = true then n - 1 else n) = n' at h
      split at h
      · cases h
      · rename_i hdup
        cases h
        have hfree : ins.getD n' false = false := by
          cases hg : ins.getD n' false with
          | false => rfl
          | true =>
            exfalso; apply hdup
            have hlt : n' < ins.length := by
              rcases Nat.lt_or_ge n' ins.length with h | h
              · exact h
              · rw [List.getD_eq_getElem?_getD, List.getElem?_eq_none h] at hg; simp at hg
            simp only [Bool.true_and, Bool.and_eq_true, decide_eq_true_eq]; exact ⟨hlt, hg⟩
        refine ⟨?_, ?_, ?_⟩
        · intro x
          dsimp only
          rw [growInsert_getD]
          simp [Tree.flatten]
        · intro x hx
          simp only [Tree.flatten, List.mem_singleton] at hx
          subst hx; exact hfree
        · simp [Tree.flatten]

theorem treeLoop_fresh {rc : Bytes → Bits → Res TreeRes}
    (hrc : ∀ (i : Bytes) (ins : Bits) (p : TreeRes), rc i ins = .ok p →
      Fresh ins p.2.2.1 p.1.flatten) :
    ∀ (fuel : Nat) (inp : Bytes) (ins : Bits) (buf : List Tree) (mx : Nat)
      (q : List Tree × Nat × Bits × Bytes),
    treeLoop rc fuel inp ins buf mx = .ok q →
    ∃ f, Tree.flattenList q.1 = Tree.flattenList buf ++ f ∧ Fresh ins q.2.2.1 f := by
  intro fuel
  induction fuel with
  | zero => intro inp ins buf mx q h; simp [treeLoop] at h
  | succ fuel ih =>
    intro inp ins buf mx q h
    simp only [treeLoop] at h
    split at h
    · cases h
      exact ⟨[], by simp, Fresh.nil ins⟩
    · cases hr : rc (space0 inp) ins with
      | error e => rw [hr] at h; cases h
      | ok p =>
        obtain ⟨sub, subMax, ins', i1⟩ := p
        rw [hr] at h
        dsimp only at h
        have hf1 : Fresh ins ins' sub.flatten := hrc _ _ _ hr
        split at h
        · cases h
          refine ⟨sub.flatten, ?_, hf1⟩
          dsimp only; rw [flattenList_append, flatten_single]
        · split at h
          · obtain ⟨f2, hflat, hf2⟩ := ih _ _ _ _ _ h
            refine ⟨sub.flatten ++ f2, ?_, hf1.append hf2⟩
            rw [hflat, flattenList_append, flatten_single, List.append_assoc]
          · cases h

theorem treeRec_fresh (ob : Bool) : ∀ (fuel : Nat) (inp : Bytes) (ins : Bits) (p : TreeRes),
    treeRec ob true fuel inp ins = .ok p → Fresh ins p.2.2.1 p.1.flatten := by
  intro fuel
  induction fuel with
  | zero => intro inp ins p h; simp [treeRec] at h
  | succ fuel ih =>
    intro inp ins p h
    simp only [treeRec] at h
    split at h
    · cases h
    · split at h
      · exact treeLeaf_fresh ob ins _ _ p h
      · split at h
        · rename_i r0 _
          cases hl : treeLoop (treeRec ob true fuel) (r0.length + 1) (space0 r0) ins [] 0 with
          | error e => rw [hl] at h; cases h
          | ok q =>
            obtain ⟨buf, mx, ins', r⟩ := q
            rw [hl] at h
            dsimp only at h
            cases h
            obtain ⟨f, hflat, hf⟩ := treeLoop_fresh (rc := treeRec ob true fuel)
              (fun i ins p hp => ih i ins p hp) _ _ _ _ _ _ hl
            dsimp only at hflat hf ⊢
            rw [flatten_collapse, hflat]
            simpa [Tree.flattenList] using hf
        · cases h

/-- **tree_nodup**: a tree accepted by `util::tree(_, true)` has pairwise different leaves -/
theorem tree_nodup (cfg : Cfg) (ob : Bool) (inp : Bytes) (t : Tree) (mx : Nat) (r : Bytes)
    (h : tree cfg ob true inp = .ok ((t, mx), r)) : t.flatten.Nodup := by
  unfold tree at h
  dsimp only at h
  cases hr : treeRec ob true ((space0 inp).length + 1) (space0 inp) [] with
  | error e =>
    rw [hr] at h
    cases e <;> cases h
  | ok p =>
    obtain ⟨t', mx', ins, r'⟩ := p
    rw [hr] at h
    dsimp only at h
    split at h
    · cases h
    · split at h
      · cases h
      · cases h
        exact (treeRec_fresh ob _ _ _ _ hr).nodup

end OxiddModel.NnfParse
