import OxiddModel.AigerParse.Model

/-!
# Byte-level model of the NNF parser (`crates/oxidd-parser/src/nnf.rs`)

`parse cfg opts bytes` mirrors `oxidd_parser::nnf::parse(&options)(bytes)` on raw bytes
(`Bytes = List Nat`, every element `< 256`) statement by statement:

* the `nom` layer: `u64`, `i64` (sign, `checked_mul`/`checked_add`/`checked_sub`), `util::usize`,
  `space0/1`, `multispace0`, `line_ending`, `not_line_ending`, `tag`, `char`, `eof`, `cut`,
  `many0_count(util::comment)`, `util::eol`, `util::trim`, `std::str::from_utf8`;
  the pure helpers (`isDigit`, `isSpace`, `u64Loop`, `space0`, `trimEnd`, `maxCap`) are those of
  `OxiddModel.AigerParse`;
* `problem_line` (`nnf <#nodes> <#edges> <#inputs>` + `line_ending`, everything under `cut`);
* `preamble`: without `var_order` comment lines are skipped; with `var_order` every `c …` line must
  be an order record `c <var> [<name>]` (`util::var_order_record`: presence marks `Some("")`,
  duplicate variables / names, invalid UTF-8) or the order tree `c vo <tree>` (`util::tree(true,
  true)`: recursive descent with the `FixedBitSet` of inserted leaves, `[42]` flattened to `42`,
  uniqueness, "number n missing"), then the consistency checks against `#inputs`, the clean-up of
  the presence marks and `VarSet::check_valid` (three `assert!`s, compiled in under
  `cfg(debug_assertions)`);
* the node lines `A|a|B|b|X|x k c…`, `O|o j k c…`, `L|l lit` with all their range checks
  (`unsigned_abs`), the end of the file (`multispace0`, `eof`), the translation of the child node
  numbers (`*l = nodes[l.0]`), `Circuit::find_cycle` on n-ary gates, the root `nodes.last().unwrap()`.

What the model makes explicit:

* every place where the Rust code can **panic** returns `Diag.panic k`: `Vec`/slice indexing
  (`names[var]`, `nodes[l.0]`, `gate_spans[..]`, the bit set of `find_cycle`; `.index`), `unwrap`
  (`.unwrap`), `usize` arithmetic with overflow checks (`.arith`), `debug_assert!`s (`Literal`
  constructors, `rec`'s `space1(input).is_err()`; `.debugAssert`), the three assertions of
  `VarSet::check_valid` (`.validLen`, `.validTree`, `.validNames`); `.fuel` is the model's own
  artefact for the loops/recursions that are bounded by the input only.
* `Err::Error` (`Diag.syntax`) and `Err::Failure` (`Diag.fail cls`) are kept apart although the NNF
  parser reacts to both in the same way wherever it inspects a result (`if let Ok(..)`).

`Cfg`: one flag per *proposed* repair (see REPORT.md of `ext-c18-nnf`); `Cfg.asIs` = `/repo` as it
is (what the driver `proto` runs), `Cfg.fixed` = both repairs applied.

Out of scope (resource behaviour, see `known_findings.json`: KF-parser-alloc,
KF-parser-deep-nesting, KF-parser-deep-chain): `Vec::with_capacity` / `reserve` / `resize` /
`FixedBitSet::grow` are modelled as always succeeding, recursion depth is unbounded in the model.
`usize` is 64 bit.
-/
namespace OxiddModel.NnfParse

open OxiddModel.Circuit
open OxiddModel.AigerParse (Bytes isDigit isSpace u64Loop maxCap space0 trimEnd Visited)

/-- kinds of Rust panics made explicit in the model -/
inductive PanicKind where
  | index | unwrap | arith | debugAssert | fuel
  /-- `assert!(self.order.is_empty() || self.order.len() == self.len)` -/
  | validLen
  /-- `assert!(!self.order.is_empty() || self.order_tree.is_none())` -/
  | validTree
  /-- `assert_ne!(self.names.last(), Some(&None))` -/
  | validNames
  deriving DecidableEq, Repr, Inhabited

/-- message classes of `fail` / `fail_with_contexts` / `cut` -/
inductive Cls where
  | numTooLarge      -- util::usize, util::tree "number too large"
  | preambleTag      -- "all lines in the preamble must begin with 'c' or 'nnf'"
  | problemLine      -- "problem line must have format …" (anything under its `cut`)
  | treeTwice        -- "variable order tree may only be given once"
  | varZero          -- "variable number must be greater than 0"
  | varTooLarge      -- "variable number too large"
  | varTwice         -- "second occurrence of variable in order"
  | nameUtf8         -- "invalid UTF-8"
  | nameTwice        -- "second occurrence of variable name"
  | orderLine        -- "expected a variable order record … or a variable order tree …"
  | orderIncomplete  -- "expected another variable order line"
  | numVars          -- "number of variables does not match"
  | nameNoVar        -- "name assigned to non-existing variable"
  | treeZero         -- "numbers must be greater than 0"
  | treeDup          -- "second occurrence in tree"
  | treeSep          -- "expected ',' or ']'"
  | treeStart        -- "expected '[' or a number"
  | treeMissing      -- "number {n} missing in tree"
  | treeEmpty        -- (proposed repair) a tree without leaves
  | treeCut          -- `cut` around `rec`
  | noNodes          -- "NNF must have at least one node"
  | nodeNo           -- "invalid node number"
  | conflictVar      -- "invalid variable"
  | twoChildren      -- "expected 2 children, since a conflict variable is given"
  | badLit           -- "invalid literal"
  | badNode          -- "expected a node ('A', 'B', 'O', 'X', or 'L')"
  | cycle            -- "node depends on itself"
  deriving DecidableEq, Repr, Inhabited

inductive Diag where
  /-- `nom::Err::Error` -/
  | syntax
  /-- `nom::Err::Failure` with a message of class `c` -/
  | fail (c : Cls)
  /-- the real code would panic here -/
  | panic (k : PanicKind)
  deriving DecidableEq, Repr, Inhabited

abbrev Res (α : Type) := Except Diag α
abbrev P (α : Type) := Bytes → Res (α × Bytes)

/-- which of the proposed repairs are applied -/
structure Cfg where
  /-- the clean-up of the presence marks also pops `None` entries (so that `names` has minimal
  length as `VarSet` documents) -/
  namesCleanup : Bool
  /-- `util::tree` rejects a tree without leaves -/
  rejectEmptyTree : Bool
  deriving DecidableEq, Repr

/-- `/repo` as it is -/
def Cfg.asIs : Cfg := ⟨false, false⟩
/-- both proposed repairs applied -/
def Cfg.fixed : Cfg := ⟨true, true⟩

/-- `ParseOptions` (`clause_tree` is not read by the NNF parser) -/
structure Opts where
  varOrder : Bool
  checkAcyclic : Bool
  deriving DecidableEq, Repr

/-! ## the `nom` primitives -/

/-- `nom::character::complete::u64` -/
def u64 : P Nat
  | [] => .error .syntax
  | b :: rest =>
    if isDigit b then
      match u64Loop (b - 48) rest with
      | some r => .ok r
      | none => .error .syntax
    else .error .syntax

/-- `util::usize` -/
def usize : P Nat := fun inp => do
  let (v, rest) ← u64 inp
  if v > maxCap then throw (.fail .numTooLarge) else pure (v, rest)

/-- the digit loop of `nom`'s signed integers on the magnitude: `checked_mul(10)` followed by
`checked_add(d)` (bound `i64::MAX`) resp. `checked_sub(d)` (bound `2^63`) -/
def magLoop (bound : Nat) (value : Nat) : Bytes → Option (Nat × Bytes)
  | [] => some (value, [])
  | b :: rest =>
    if isDigit b then
      let v := value * 10 + (b - 48)
      if v ≤ bound then magLoop bound v rest else none
    else some (value, b :: rest)

/-- `sign`: `opt(alt((value(false, tag("-")), value(true, tag("+")))))`, default `true` -/
def sign : Bytes → Bool × Bytes
  | 45 :: r => (false, r)
  | 43 :: r => (true, r)
  | inp => (true, inp)

/-- `nom::character::complete::i64` -/
def i64 : P Int := fun inp =>
  match sign inp with
  | (_, []) => .error .syntax
  | (sg, b :: rest) =>
    if isDigit b then
      match magLoop (if sg then 2 ^ 63 - 1 else 2 ^ 63) (b - 48) rest with
      | some (m, r) => .ok (if sg then (m : Int) else -(m : Int), r)
      | none => .error .syntax
    else .error .syntax

/-- `space1` -/
def space1 : P Unit
  | [] => .error .syntax
  | b :: rest => if isSpace b then .ok ((), space0 rest) else .error .syntax

/-- `line_ending`: `\n` or `\r\n` -/
def lineEnding : P Unit
  | 10 :: rest => .ok ((), rest)
  | 13 :: 10 :: rest => .ok ((), rest)
  | _ => .error .syntax

/-- `util::eol = preceded(space0, line_ending)` -/
def eol : P Unit := fun inp => lineEnding (space0 inp)

/-- `multispace0` -/
def multispace0 : Bytes → Bytes
  | [] => []
  | b :: rest => if b = 32 ∨ b = 9 ∨ b = 13 ∨ b = 10 then multispace0 rest else b :: rest

/-- `[b, r @ ..]` -/
def headIs (c : Nat) : Bytes → Option Bytes
  | [] => none
  | b :: r => if b = c then some r else none

/-- `not_line_ending`: up to the first `\r` or `\n`; a `\r` that is not followed by `\n` is an
error -/
def notLineEnding : Bytes → Res (Bytes × Bytes)
  | [] => .ok ([], [])
  | b :: rest =>
    if b = 10 then .ok ([], b :: rest)
    else if b = 13 then
      match rest with
      | c :: _ => if c = 10 then .ok ([], b :: rest) else .error .syntax
      | [] => .error .syntax
    else
      match notLineEnding rest with
      | .error e => .error e
      | .ok (name, r) => .ok (b :: name, r)

/-- `util::trim` -/
def trim (s : Bytes) : Bytes := trimEnd (space0 s)

def isCont (b : Nat) : Bool := 128 ≤ b && b ≤ 191

/-- `std::str::from_utf8(..).is_ok()` (well-formed UTF-8: no overlong forms, no surrogates,
at most U+10FFFF). The recursion is on the list; the fuel equals the length. -/
def utf8ValidF : Nat → Bytes → Bool
  | _, [] => true
  | 0, _ :: _ => false
  | fuel + 1, b :: rest =>
    if b < 128 then utf8ValidF fuel rest
    else if 194 ≤ b && b ≤ 223 then
      match rest with
      | c :: r1 => isCont c && utf8ValidF fuel r1
      | [] => false
    else if 224 ≤ b && b ≤ 239 then
      match rest with
      | c :: d :: r2 =>
        ((b == 224 && 160 ≤ c && c ≤ 191) || (225 ≤ b && b ≤ 236 && isCont c) ||
          (b == 237 && 128 ≤ c && c ≤ 159) || (238 ≤ b && b ≤ 239 && isCont c)) &&
        isCont d && utf8ValidF fuel r2
      | _ => false
    else if 240 ≤ b && b ≤ 244 then
      match rest with
      | c :: d :: e :: r3 =>
        ((b == 240 && 144 ≤ c && c ≤ 191) || (241 ≤ b && b ≤ 243 && isCont c) ||
          (b == 244 && 128 ≤ c && c ≤ 143)) &&
        isCont d && isCont e && utf8ValidF fuel r3
      | _ => false
    else false

def utf8Valid (s : Bytes) : Bool := utf8ValidF s.length s

/-! ## `problem_line` -/

/-- `nnf` -/
def nnfTag : Bytes := [110, 110, 102]

/-- `context("all lines in the preamble must begin with 'c' or 'nnf'", cut(tag("nnf")))` -/
def nnfTagCut : P Unit := fun inp =>
  if nnfTag.isPrefixOf inp then .ok ((), inp.drop 3) else .error (.fail .preambleTag)

/-- the closure `inner` of `problem_line` -/
def problemLineInner : P (Nat × Nat × Nat) := fun inp => do
  let (_, r0) ← nnfTagCut inp
  let (_, r1) ← space1 r0
  let (numNodes, r2) ← usize r1
  let (_, r3) ← space1 r2
  let (numEdges, r4) ← usize r3
  let (_, r5) ← space1 r4
  let (numInputs, r6) ← usize r5
  let (_, r7) ← lineEnding r6
  pure ((numNodes, numEdges, numInputs), r7)

/-- `problem_line`: `context_loc(.., cut(inner))` -/
def problemLine : P (Nat × Nat × Nat) := fun inp =>
  match problemLineInner inp with
  | .error .syntax => .error (.fail .problemLine)
  | r => r

/-! ## `util::comment`, `many0_count` -/

/-- the input after the next `\n` (`memchr`), or the empty input -/
def afterNewline : Bytes → Bytes
  | [] => []
  | b :: r => if b = 10 then r else afterNewline r

/-- `many0_count(util::comment)`: a comment is a `c` and everything up to and including the next
`\n`. (`many0_count`'s "parser did not consume" error cannot arise: `c` is consumed.) -/
def skipComments : (fuel : Nat) → Bytes → Res Bytes
  | 0, _ => .error (.panic .fuel)
  | fuel + 1, inp =>
    match headIs 99 inp with
    | some r => skipComments fuel (afterNewline r)
    | none => .ok inp

/-! ## `util::tree` -/

/-- `Tree<usize>` -/
inductive Tree where
  | inner (cs : List Tree)
  | leaf (n : Nat)
  deriving Repr, Inhabited

mutual
/-- `Tree::flatten_into` -/
def Tree.flatten : Tree → List Nat
  | .leaf n => [n]
  | .inner cs => Tree.flattenList cs
def Tree.flattenList : List Tree → List Nat
  | [] => []
  | t :: ts => t.flatten ++ Tree.flattenList ts
end

mutual
def Tree.beq : Tree → Tree → Bool
  | .leaf a, .leaf b => a == b
  | .inner as, .inner bs => Tree.beqList as bs
  | _, _ => false
def Tree.beqList : List Tree → List Tree → Bool
  | [], [] => true
  | a :: as, b :: bs => a.beq b && Tree.beqList as bs
  | _, _ => false
end

instance : BEq Tree := ⟨Tree.beq⟩

/-- the `FixedBitSet` `inserted` -/
abbrev Bits := List Bool

/-- `FixedBitSet::grow_and_insert` -/
def growInsert (ins : Bits) (n : Nat) : Bits :=
  (ins ++ List.replicate (n + 1 - ins.length) false).set n true

/-- what `rec` returns: the tree, the maximal number (its span is not modelled), the bit set, the
rest of the input -/
abbrev TreeRes := Tree × Nat × Bits × Bytes

/-- the `loop` of the `[` branch of `rec` (`rec` itself is passed as `rc`); `buf` is the part of
`buffer` above `buffer_pos`; `fuel` bounds the number of iterations -/
def treeLoop (rc : Bytes → Bits → Res TreeRes) :
    (fuel : Nat) → Bytes → Bits → List Tree → Nat → Res (List Tree × Nat × Bits × Bytes)
  | 0, _, _, _, _ => .error (.panic .fuel)
  | fuel + 1, inp, ins, buf, max =>
    let i0 := space0 inp
    match headIs 93 i0 with
    | some r => .ok (buf, max, ins, r)
    | none =>
      match rc i0 ins with
      | .error e => .error e
      | .ok (sub, subMax, ins', i1) =>
        let buf' := buf ++ [sub]
        let max' := if subMax ≥ max then subMax else max
        let i2 := space0 i1
        match headIs 93 i2 with
        | some r => .ok (buf', max', ins', r)
        | none =>
          match headIs 44 i2 with
          | some r => treeLoop rc fuel r ins' buf' max'
          | none => .error (.fail .treeSep)

/-- `space1(input).is_ok()` as far as the first byte decides it -/
def startsSp : Bytes → Bool
  | b :: _ => isSpace b
  | [] => false

/-- the number branch of `rec` after `consumed(u64)` and `space0` -/
def treeLeaf (oneBased uniqueLeaves : Bool) (ins : Bits) (n : Nat) (r : Bytes) : Res TreeRes :=
  if n > maxCap then .error (.fail .numTooLarge)
  else if oneBased && n = 0 then .error (.fail .treeZero)
  else
    let n' := if oneBased then n - 1 else n
    if uniqueLeaves && decide (n' < ins.length) && ins.getD n' false then .error (.fail .treeDup)
    else .ok (.leaf n', n', growInsert ins n', r)

/-- flatten `[42]` into `42` -/
def collapse (buf : List Tree) : Tree :=
  match buf with
  | [x] => x
  | _ => Tree.inner buf

/-- `rec`; `fuel` bounds the nesting depth -/
def treeRec (oneBased uniqueLeaves : Bool) : (fuel : Nat) → Bytes → Bits → Res TreeRes
  | 0, _, _ => .error (.panic .fuel)
  | fuel + 1, inp, ins =>
    -- `debug_assert!(space1::<_, E>(input).is_err())`
    if startsSp inp then .error (.panic .debugAssert)
    else
      match u64 inp with
      | .ok (n, r0) => treeLeaf oneBased uniqueLeaves ins n (space0 r0)
      | .error _ =>
        match headIs 91 inp with
        | some r0 =>
          match treeLoop (treeRec oneBased uniqueLeaves fuel) (r0.length + 1) (space0 r0) ins [] 0 with
          | .error e => .error e
          | .ok (buf, max, ins', r) => .ok (collapse buf, max, ins', r)
        | none => .error (.fail .treeStart)

/-- `inserted.zeroes().next().is_some()` -/
def hasZero (ins : Bits) : Bool := ins.any (fun b => !b)

/-- `util::tree(one_based, unique_leaves)`: the tree and the maximal number -/
def tree (cfg : Cfg) (oneBased uniqueLeaves : Bool) : P (Tree × Nat) := fun inp =>
  let i0 := space0 inp
  -- `cut(consumed(rec))`
  match treeRec oneBased uniqueLeaves (i0.length + 1) i0 [] with
  | .error .syntax => .error (.fail .treeCut)
  | .error e => .error e
  | .ok (t, max, ins, r) =>
    if hasZero ins then .error (.fail .treeMissing)
    else if cfg.rejectEmptyTree && ins.isEmpty then .error (.fail .treeEmpty)
    else .ok ((t, max), r)

/-! ## `util::var_order_record` -/

/-- `consumed(u64)`, `not_line_ending`, `line_ending`; the name is present when the trimmed rest of
the line is not empty, and must then be separated from the number by a blank -/
def varOrderRecord : P (Nat × Option Bytes) := fun inp => do
  let (var, r0) ← u64 inp
  let (name, r1) ← notLineEnding r0
  let (_, r2) ← lineEnding r1
  let trimmed := trim name
  if trimmed.isEmpty then pure ((var, none), r2)
  else if startsSp name then pure ((var, some trimmed), r2)
  else throw .syntax

/-! ## `VarSet`, `preamble` -/

/-- `VarSet`; a name is a UTF-8 byte string, `some []` is the presence mark `Some(String::new())` -/
structure VarSet where
  len : Nat
  order : List Nat
  tree : Option Tree
  names : List (Option Bytes)
  deriving Repr

/-- `VarSet::new` -/
def VarSet.new (n : Nat) : VarSet := ⟨n, [], none, []⟩

/-- `VarSet::check_valid` -/
def VarSet.checkValid (v : VarSet) : Res Unit :=
  if !(v.order.isEmpty || v.order.length == v.len) then .error (.panic .validLen)
  else if !(!v.order.isEmpty || v.tree.isNone) then .error (.panic .validTree)
  else if v.names.getLast? == some none then .error (.panic .validNames)
  else .ok ()

/-- the first clean-up loop: pop the trailing presence marks `Some("")` (with the proposed repair
also trailing `None`s) -/
def popMarks (cfg : Cfg) (names : List (Option Bytes)) : List (Option Bytes) :=
  (names.reverse.dropWhile (fun n => n == some [] || (cfg.namesCleanup && n == none))).reverse

/-- the second clean-up loop: the remaining presence marks become `None` -/
def unmark (names : List (Option Bytes)) : List (Option Bytes) :=
  names.map (fun n => if n == some [] then none else n)

/-- the loop state of `preamble` (`parse_var_order` branch) -/
structure PState where
  names : List (Option Bytes)
  order : List Nat
  tree : Option Tree
  /-- `tree_max_var.1` -/
  treeMax : Nat
  /-- `name_set` -/
  nameSet : List Bytes
  deriving Repr

/-- `preceded(char('c'), space1)` as the loop inspects it -/
def cSpace (inp : Bytes) : Option Bytes :=
  match headIs 99 inp with
  | some r =>
    match space1 r with
    | .ok (_, r') => some r'
    | .error _ => none
  | none => none

/-- `preceded(tag("vo"), space1)` as the loop inspects it -/
def voSpace (inp : Bytes) : Option Bytes :=
  match inp with
  | 118 :: 111 :: r =>
    match space1 r with
    | .ok (_, r') => some r'
    | .error _ => none
  | _ => none

/-- `if num_vars > names.len() { names.resize(num_vars, None); order.reserve(num_vars -
names.len()) /* 0 after the resize */ } else if names[var].is_some() { fail }` -/
def recordSlot (names : List (Option Bytes)) (numVars : Nat) : Res (List (Option Bytes)) :=
  if numVars > names.length then .ok (names ++ List.replicate (numVars - names.length) none)
  else
    match names[numVars - 1]? with
    | none => .error (.panic .index)
    | some (some _) => .error (.fail .varTwice)
    | some none => .ok names

/-- the value stored for the variable (`Some(name)` or the presence mark `Some("")`) and the new
`name_set` -/
def recordName (nameSet : List Bytes) : Option Bytes → Res (Bytes × List Bytes)
  | some n =>
    if !utf8Valid n then .error (.fail .nameUtf8)
    else if nameSet.contains n then .error (.fail .nameTwice)
    else .ok (n, n :: nameSet)
  | none => .ok ([], nameSet)

/-- the order-record branch of the loop after `var_order_record` succeeded (`num_vars = var`,
`var = num_vars - 1`) -/
def orderRecord (st : PState) (var : Nat) (name : Option Bytes) : Res PState :=
  if var = 0 then .error (.fail .varZero)
  else if var > maxCap then .error (.fail .varTooLarge)
  else
    match recordSlot st.names var with
    | .error e => .error e
    | .ok names =>
      match recordName st.nameSet name with
      | .error e => .error e
      | .ok (nm, nameSet) =>
        -- `vars.names[var] = Some(..)`
        if names.length ≤ var - 1 then .error (.panic .index)
        else
          .ok { st with names := names.set (var - 1) (some nm), nameSet,
                        order := if st.tree.isNone then st.order ++ [var - 1] else st.order }

/-- the `loop` of `preamble`; `fuel` bounds the number of lines -/
def orderLoop (cfg : Cfg) : (fuel : Nat) → PState → Bytes → Res (PState × Bytes)
  | 0, _, _ => .error (.panic .fuel)
  | fuel + 1, st, inp =>
    match cSpace inp with
    | none => .ok (st, inp)
    | some next =>
      match voSpace next with
      | some next2 =>
        if st.tree.isSome then .error (.fail .treeTwice)
        else
          match tree cfg true true next2 with
          | .error e => .error e
          | .ok ((t, max), r) =>
            match eol r with
            | .error e => .error e
            | .ok (_, r') =>
              -- `order.clear(); order.reserve(tree_max_var.1 + 1); t.flatten_into(&mut order)`
              if max + 1 ≥ 2 ^ 64 then .error (.panic .arith)
              else orderLoop cfg fuel
                { st with order := t.flatten, tree := some t, treeMax := max } r'
      | none =>
        match varOrderRecord next with
        | .ok ((var, name), r) =>
          match orderRecord st var name with
          | .error e => .error e
          | .ok st' => orderLoop cfg fuel st' r
        | .error (.panic k) => .error (.panic k)
        | .error _ => .error (.fail .orderLine)

/-- the comparison of `#inputs` of the problem line with the order lines -/
def numVarsCheck (st : PState) (numVars : Nat) : Res Unit :=
  if st.tree.isNone then
    if !st.order.isEmpty && numVars != st.order.length then .error (.fail .numVars) else .ok ()
  -- `tree_max_var.1 + 1`
  else if st.treeMax + 1 ≥ 2 ^ 64 then .error (.panic .arith)
  else if numVars != st.treeMax + 1 then .error (.fail .numVars)
  else if st.names.length > numVars then .error (.fail .nameNoVar)
  else .ok ()

/-- the `parse_var_order` branch of `preamble` up to (not including) `vars.check_valid()` -/
def preambleOrder (cfg : Cfg) : P (VarSet × Nat × Nat × Nat) := fun inp =>
  match orderLoop cfg (inp.length + 1) ⟨[], [], none, 0, []⟩ inp with
  | .error e => .error e
  | .ok (st, r0) =>
    if st.tree.isNone && st.names.length != st.order.length then .error (.fail .orderIncomplete)
    else
      match problemLine r0 with
      | .error e => .error e
      | .ok ((numNodes, numEdges, numVars), r1) =>
        match numVarsCheck st numVars with
        | .error e => .error e
        | .ok _ =>
          .ok (({ len := numVars, order := st.order, tree := st.tree,
                  names := unmark (popMarks cfg st.names) }, numNodes, numEdges, numVars), r1)

/-- `preamble(parse_var_order)`: the variable set and the three numbers of the problem line -/
def preamble (cfg : Cfg) (varOrder : Bool) : P (VarSet × Nat × Nat × Nat) := fun inp =>
  if varOrder then do
    let (x, r) ← preambleOrder cfg inp
    -- `#[cfg(debug_assertions)] vars.check_valid();`
    x.1.checkValid
    pure (x, r)
  else do
    let r0 ← skipComments (inp.length + 1) inp
    let ((numNodes, numEdges, numVars), r1) ← problemLine r0
    pure ((VarSet.new numVars, numNodes, numEdges, numVars), r1)

/-! ## node lines -/

/-- `Literal::from_gate` (`debug_assert!(gate <= MAX_GATE)`) -/
def mkGate (neg : Bool) (g : Nat) : Res Lit :=
  if g ≤ 2 ^ 62 - 1 then .ok (.gate neg g) else .error (.panic .debugAssert)

/-- `Literal::from_input` (`debug_assert!(input <= MAX_INPUT)`) -/
def mkInput (neg : Bool) (i : Nat) : Res Lit :=
  if i ≤ 2 ^ 62 - 3 then .ok (.input neg i) else .error (.panic .debugAssert)

/-- `for _ in 0..children { preceded(space1, consumed(u64)); range check; push_gate_input }`: the
raw child node numbers -/
def children (numNodes : Nat) : (k : Nat) → P (List Nat)
  | 0, inp => .ok ([], inp)
  | k + 1, inp => do
    let (_, r0) ← space1 inp
    let (c, r1) ← u64 r0
    if c ≥ numNodes then throw (.fail .nodeNo)
    let (cs, r2) ← children numNodes k r1
    pure (c :: cs, r2)

/-- the loop state of `parse`: the gates with raw child node numbers (`Literal(child as usize)`),
`nodes`, `gate_spans.len()` -/
structure NState where
  gates : List (Kind × List Nat)
  nodes : List Lit
  nspans : Nat
  deriving Repr

/-- `preceded(space1, u64)` -/
def spaceU64 : P Nat := fun inp => do
  let (_, r) ← space1 inp
  u64 r

/-- a gate line after its arity is known: `push_gate`, the children, `gate_spans.push` -/
def gateLine (numNodes : Nat) (st : NState) (kind : Kind) (k : Nat) (inp : Bytes) :
    Res (Lit × NState × Bytes) := do
  let l ← mkGate false st.gates.length
  let (cs, r) ← children numNodes k inp
  pure (l, { st with gates := st.gates ++ [(kind, cs)], nspans := st.nspans + 1 }, r)

/-- the arm `[kind @ (b'A' | b'a' | b'B' | b'b' | b'X' | b'x'), inp @ ..]` -/
def axLine (numNodes : Nat) (st : NState) (kind : Kind) (inp : Bytes) : Res (Lit × NState × Bytes) := do
  let (k, r) ← spaceU64 inp
  if k = 0 then pure (emptyGate kind, st, r)
  else gateLine numNodes st kind k r

/-- the arm `[b'O' | b'o', inp @ ..]` -/
def orLine (numNodes numInputs : Nat) (st : NState) (inp : Bytes) : Res (Lit × NState × Bytes) := do
  let (conflict, r0) ← spaceU64 inp
  if conflict > numInputs then throw (.fail .conflictVar)
  let (k, r1) ← spaceU64 r0
  if conflict ≠ 0 ∧ k ≠ 2 then throw (.fail .twoChildren)
  if k = 0 then pure (Lit.const false, st, r1)
  else gateLine numNodes st Kind.or k r1

/-- the arm `[b'L' | b'l', inp @ ..]` -/
def litLine (numInputs : Nat) (st : NState) (inp : Bytes) : Res (Lit × NState × Bytes) := do
  let (_, r0) ← space1 inp
  let (lit, r1) ← i64 r0
  -- `lit.1.unsigned_abs()`
  let var := lit.natAbs
  if var = 0 ∨ var > numInputs then throw (.fail .badLit)
  let l ← mkInput (decide (lit < 0)) (var - 1)
  pure (l, st, r1)

/-- the `match input { … }` of the node loop: the node's literal, the state, the rest -/
def nodeBody (numNodes numInputs : Nat) (st : NState) : Bytes → Res (Lit × NState × Bytes)
  | [] => .error (.fail .badNode)
  | b :: inp =>
    if b = 65 ∨ b = 97 ∨ b = 66 ∨ b = 98 ∨ b = 88 ∨ b = 120 then
      axLine numNodes st (if b = 88 ∨ b = 120 then Kind.xor else Kind.and) inp
    else if b = 79 ∨ b = 111 then orLine numNodes numInputs st inp
    else if b = 76 ∨ b = 108 then litLine numInputs st inp
    else .error (.fail .badNode)

/-- `for _ in 0..num_nodes.1 { …; nodes.push(l); input = preceded(space0, line_ending)(inp)?.0 }` -/
def nodesLoop (numNodes numInputs : Nat) : (n : Nat) → NState → Bytes → Res (NState × Bytes)
  | 0, st, inp => .ok (st, inp)
  | n + 1, st, inp => do
    let (l, st', r) ← nodeBody numNodes numInputs st inp
    let (_, r') ← eol r
    nodesLoop numNodes numInputs n { st' with nodes := st'.nodes ++ [l] } r'

/-! ## `Circuit::find_cycle` on n-ary gates -/

/-- `for &l in inputs { if l.is_gate() && inner(..) { return true } }` (`inner` passed as `rc`) -/
def fcInputs (rc : Visited → Nat → Res (Bool × Visited)) : Visited → List Lit → Res (Bool × Visited)
  | vis, [] => .ok (false, vis)
  | vis, .gate _ g :: ls =>
    match rc vis g with
    | .error e => .error e
    | .ok (true, v) => .ok (true, v)
    | .ok (false, v) => fcInputs rc v ls
  | vis, _ :: ls => fcInputs rc vis ls

/-- `inner(gates, visited, index)`; `fuel` bounds the recursion depth -/
def fcInner (gates : List Gate) : (fuel : Nat) → Visited → Nat → Res (Bool × Visited)
  | 0, _, _ => .error (.panic .fuel)
  | fuel + 1, vis, index =>
    if vis.finished.getD index false then .ok (false, vis)
    else if vis.discovered.getD index false then .ok (true, vis)
    -- `visited.insert(index * 2)` panics when the bit is out of range
    else if gates.length ≤ index then .error (.panic .index)
    else
      match gates[index]? with
      | none => .error (.panic .unwrap)
      | some (_, ins) =>
        let vis1 : Visited := { vis with discovered := vis.discovered.set index true }
        match fcInputs (fcInner gates fuel) vis1 ins with
        | .error e => .error e
        | .ok (true, v) => .ok (true, v)
        | .ok (false, v) => .ok (false, { v with finished := v.finished.set index true })

/-- `for index in 0..self.gates.len()` -/
def fcRoots (gates : List Gate) (fuel : Nat) : (n : Nat) → (index : Nat) → Visited →
    Res (Option Nat)
  | 0, _, _ => .ok none
  | n + 1, index, vis =>
    match fcInner gates fuel vis index with
    | .error e => .error e
    | .ok (true, _) => .ok (some index)
    | .ok (false, vis') => fcRoots gates fuel n (index + 1) vis'

def findCycle (gates : List Gate) : Res (Option Nat) :=
  let n := gates.length
  fcRoots gates (n + 1) n 0 ⟨List.replicate n false, List.replicate n false⟩

/-! ## `parse` -/

/-- canonical rendering of `Problem { circuit, details: Root(root) }` -/
structure Problem' where
  vars : VarSet
  gates : List Gate
  root : Lit
  deriving Repr

/-- `*l = nodes[l.0]` for the inputs of one gate -/
def mapChildren (nodes : List Lit) : List Nat → Res (List Lit)
  | [] => .ok []
  | c :: cs =>
    match nodes[c]? with
    | none => .error (.panic .index)
    | some l =>
      match mapChildren nodes cs with
      | .error e => .error e
      | .ok ls => .ok (l :: ls)

/-- `for l in circuit.gates.all_elements_mut() { *l = nodes[l.0]; }` -/
def mapGates (nodes : List Lit) : List (Kind × List Nat) → Res (List Gate)
  | [] => .ok []
  | (k, cs) :: gs =>
    match mapChildren nodes cs with
    | .error e => .error e
    | .ok ls =>
      match mapGates nodes gs with
      | .error e => .error e
      | .ok gs' => .ok ((k, ls) :: gs')

/-- `if check_acyclic && let Some(l) = circuit.find_cycle() { fail(gate_spans[gate_no], …) }` -/
def cycleCheck (checkAcyclic : Bool) (gates : List Gate) (nspans : Nat) : Res Unit :=
  if checkAcyclic then
    match findCycle gates with
    | .error e => .error e
    | .ok none => .ok ()
    | .ok (some g) => if g < nspans then .error (.fail .cycle) else .error (.panic .index)
  else .ok ()

/-- `oxidd_parser::nnf::parse(&ParseOptions { var_order, check_acyclic, .. })`, parametric in the
repairs -/
def parse (cfg : Cfg) (o : Opts) (inp : Bytes) : Res Problem' := do
  let ((vars, numNodes, _numEdges, numInputs), r0) ← preamble cfg o.varOrder inp
  if numNodes = 0 then throw (.fail .noNodes)
  let (st, r1) ← nodesLoop numNodes numInputs numNodes ⟨[], [], 0⟩ r0
  -- `preceded(multispace0, eof)`
  match multispace0 r1 with
  | _ :: _ => throw .syntax
  | [] =>
    let gates ← mapGates st.nodes st.gates
    cycleCheck o.checkAcyclic gates st.nspans
    match st.nodes.getLast? with
    | none => throw (.panic .unwrap)
    | some root => pure { vars, gates, root }

end OxiddModel.NnfParse
