import OxiddModel.NnfParse.LemmasParse

/-!
# Property C18 (second sentence) for the NNF parser, on raw bytes

"The DIMACS, AIGER (ASCII and binary) and NNF parsers return a problem or a diagnostic for
arbitrary input bytes without panicking".

`parse cfg opts bytes` (`Model.lean`) is total by construction; what the theorems add is that the
places where the *Rust code* can panic — made explicit in the model as `Diag.panic k` — are
unreachable for every byte string and every option setting, with exactly two exceptions, both
assertions of `VarSet::check_valid` at the end of the preamble (compiled in with debug
assertions; without them the parser returns a `VarSet` that violates its documented invariants):

* `validTree` — an order tree without leaves (`c vo []`): known finding KF-parser-empty-order-tree;
* `validNames` — an order tree together with order records such that, after the trailing presence
  marks are popped, `names` ends with `None` (`c vo [1,2]` + `c 2`): found by this model.

Both are characterised exactly (`parse_panic_iff`, `checkValid_panic_iff`), witnessed by `decide`,
and vanish under the proposed repairs (`parse_no_panic_fixed`).

Out of scope (see `Model.lean`): memory reservation by numbers in the input and recursion depth
(KF-parser-alloc, KF-parser-deep-nesting, KF-parser-deep-chain).
-/
namespace OxiddModel.NnfParse

open OxiddModel.Circuit
open OxiddModel.AigerParse (Bytes maxCap)

/-- checks a property of an accepted problem (for the `decide`d examples) -/
def okWith (r : Res Problem') (f : Problem' → Bool) : Bool :=
  match r with
  | .ok p => f p
  | .error _ => false

/-- `r` is the given diagnostic -/
def isErr (r : Res Problem') (d : Diag) : Bool :=
  match r with
  | .ok _ => false
  | .error e => e == d

theorem isErr_eq {r : Res Problem'} {d : Diag} (h : isErr r d = true) : r = .error d := by
  cases r with
  | ok p => simp [isErr] at h
  | error e => simp [isErr] at h; rw [h]

/-- `c vo []\nnnf 1 0 1\nL 1\n` -/
def emptyTreeWitness : Bytes :=
  [99, 32, 118, 111, 32, 91, 93, 10, 110, 110, 102, 32, 49, 32, 48, 32, 49, 10, 76, 32, 49, 10]

/-- `c vo [1,2]\nc 2\nnnf 1 0 2\nL 1\n` -/
def namesWitness : Bytes :=
  [99, 32, 118, 111, 32, 91, 49, 44, 50, 93, 10, 99, 32, 50, 10, 110, 110, 102, 32, 49, 32, 48, 32,
    50, 10, 76, 32, 49, 10]

/-- `c 2 b\nc 1\nnnf 4 3 2\nL -1\nL 2\nA 2 0 1\nO 1 2 2 3\n`… a file with order records -/
def exRecords : Bytes :=
  [99, 32, 50, 32, 98, 10, 99, 32, 49, 10, 110, 110, 102, 32, 52, 32, 52, 32, 50, 10, 76, 32, 45,
    49, 10, 76, 32, 50, 10, 65, 32, 50, 32, 48, 32, 49, 10, 79, 32, 49, 32, 50, 32, 50, 32, 48, 10]

/-- `c vo [2, [1]]\nnnf 2 1 2\nX 1 1\nL -1\n`: an order tree, a forward reference -/
def exTree : Bytes :=
  [99, 32, 118, 111, 32, 91, 50, 44, 32, 91, 49, 93, 93, 10, 110, 110, 102, 32, 50, 32, 49, 32, 50,
    10, 88, 32, 49, 32, 49, 10, 76, 32, 45, 49, 10]

/-- `nnf 2 2 1\nA 1 1\nA 1 0\n`: two gates that depend on each other -/
def exCycle : Bytes :=
  [110, 110, 102, 32, 50, 32, 50, 32, 49, 10, 65, 32, 49, 32, 49, 10, 65, 32, 49, 32, 48, 10]

/-- `nnf 1 0 1\nL -9223372036854775808\n` (the historical `abs` overflow) -/
def exMinI64 : Bytes :=
  [110, 110, 102, 32, 49, 32, 48, 32, 49, 10, 76, 32, 45, 57, 50, 50, 51, 51, 55, 50, 48, 51, 54,
    56, 53, 52, 55, 55, 53, 56, 48, 56, 10]

/-! ## (a) totality: which panics are reachable -/

/-- **parse_panic_only_check_valid**: for every byte string, every option setting and every
configuration, the only panics the model can report are the second and the third assertion of
`VarSet::check_valid`, only with `var_order`, and each only when its repair is not applied. In
particular every `Vec`/slice index (`names[var]`, `nodes[l.0]`, `gate_spans[..]`, the bit set of
`find_cycle`), every `unwrap`, every debug assertion (`Literal::from_input/from_gate`,
`rec`'s `space1(input).is_err()`), the first assertion of `check_valid` and all `usize` arithmetic
are safe, and the model's fuel (comment lines, order lines, tree nesting and length, recursion of
`find_cycle`) is never exhausted. -/
theorem parse_panic_only_check_valid (cfg : Cfg) (o : Opts) (bytes : Bytes) (k : PanicKind)
    (h : parse cfg o bytes = .error (.panic k)) :
    o.varOrder = true ∧ ((k = .validTree ∧ cfg.rejectEmptyTree = false) ∨
      (k = .validNames ∧ cfg.namesCleanup = false)) :=
  (parse_sat cfg o bytes).of_panic h

/-- **parse_no_panic_without_var_order**: without the `var_order` option the parser never panics -/
theorem parse_no_panic_without_var_order (cfg : Cfg) (c : Bool) (bytes : Bytes) (k : PanicKind) :
    parse cfg ⟨false, c⟩ bytes ≠ .error (.panic k) := by
  intro h
  have := (parse_panic_only_check_valid cfg ⟨false, c⟩ bytes k h).1
  cases this

/-- **parse_no_panic_fixed**: with both proposed repairs the parser never panics, whatever the
bytes and the options -/
theorem parse_no_panic_fixed (o : Opts) (bytes : Bytes) (k : PanicKind) :
    parse Cfg.fixed o bytes ≠ .error (.panic k) := by
  intro h
  rcases (parse_panic_only_check_valid Cfg.fixed o bytes k h).2 with ⟨_, h⟩ | ⟨_, h⟩ <;> cases h

/-- **parse_panic_iff** (restated from `LemmasParse`): `parse` panics exactly when the option is
set, the preamble up to `check_valid` succeeds, and `check_valid` fails on the variable set it
built -/
theorem parse_panic_exact (cfg : Cfg) (o : Opts) (bytes : Bytes) (k : PanicKind) :
    parse cfg o bytes = .error (.panic k) ↔
      o.varOrder = true ∧ ∃ x r, preambleOrder cfg bytes = .ok (x, r) ∧
        x.1.checkValid = .error (.panic k) :=
  parse_panic_iff cfg o bytes k

/-- **checkValid_panic_iff**: on a variable set built by the preamble, `check_valid` fails its
second assertion iff there is an order tree and it has no leaves, and its third assertion iff
that is not the case and the cleaned-up `names` ends with `None`; it never fails the first. -/
theorem checkValid_panic_iff (cfg : Cfg) (bytes : Bytes) (x : VarSet × Nat × Nat × Nat) (r : Bytes)
    (h : preambleOrder cfg bytes = .ok (x, r)) (k : PanicKind) :
    x.1.checkValid = .error (.panic k) ↔
      (k = .validTree ∧ ∃ t, x.1.tree = some t ∧ t.flatten = []) ∨
      (k = .validNames ∧ ¬ (∃ t, x.1.tree = some t ∧ t.flatten = []) ∧
        x.1.names.getLast? = some none) := by
  have hp : PreOK cfg bytes (x, r) := (preambleOrder_sat cfg bytes).of_ok h
  have hol := hp.orderLen
  have htf := hp.treeFlat
  dsimp only at hol htf
  unfold VarSet.checkValid
  have h1 : (!(x.1.order.isEmpty || x.1.order.length == x.1.len)) = false := by
    rcases hol with ho | ho <;> simp [ho]
  rw [if_neg (by simp [h1])]
  cases htree : x.1.tree with
  | none =>
    simp only [Option.isNone_none, Bool.or_true, Bool.not_true, Bool.false_eq_true, if_false]
    by_cases hn : x.1.names.getLast? = some none
    · simp [hn]; exact eq_comm
    · have : (x.1.names.getLast? == some none) = false := by simpa using hn
      simp [this, hn]
  | some t =>
    have hflat := htf t htree
    by_cases he : t.flatten = []
    · have : x.1.order.isEmpty = true := by rw [hflat, he]; rfl
      simp [this, he]; exact eq_comm
    · have : x.1.order.isEmpty = false := by
        rw [hflat]; cases hh : t.flatten with
        | nil => exact absurd hh he
        | cons a l => rfl
      by_cases hn : x.1.names.getLast? = some none
      · simp [this, he, hn]; exact eq_comm
      · have hn' : (x.1.names.getLast? == some none) = false := by simpa using hn
        simp [this, he, hn, hn']

/-- the statement "`parse cfg o bytes ≠ .error (.panic k)` for all `bytes`" is **false** of the
faithful model of `/repo` as it is: an order tree without leaves (known finding
KF-parser-empty-order-tree; confirmed on the real parser) … -/
theorem parse_no_panic_fails_empty_tree :
    parse Cfg.asIs ⟨true, true⟩ emptyTreeWitness = .error (.panic .validTree) :=
  isErr_eq (by decide)

/-- … and an order tree with an unnamed record for the highest recorded variable while a lower
one has no record: `names = [None]` after the clean-up (new finding; confirmed on the real
parser, see REPORT.md of `ext-c18-nnf`) -/
theorem parse_no_panic_fails_names :
    parse Cfg.asIs ⟨true, true⟩ namesWitness = .error (.panic .validNames) :=
  isErr_eq (by decide)

/-- under the repairs the first witness is rejected with a diagnostic and the second is accepted
with no names -/
example : isErr (parse Cfg.fixed ⟨true, true⟩ emptyTreeWitness) (.fail .treeEmpty) = true := by decide
example : okWith (parse Cfg.fixed ⟨true, true⟩ namesWitness)
    (fun p => p.vars.names == [] && p.vars.order == [0, 1] && p.root == .input false 0) = true := by
  decide

/-- non-vacuity of the no-panic theorems: files they apply to that are accepted -/
example : okWith (parse Cfg.asIs ⟨true, true⟩ exRecords)
    (fun p => p.vars.len == 2 && p.vars.order == [1, 0] && p.vars.names == [none, some [98]] &&
      p.gates == [(.and, [.input true 0, .input false 1]), (.or, [.gate false 0, .input true 0])] &&
      p.root == .gate false 1) = true := by decide
example : okWith (parse Cfg.asIs ⟨false, true⟩ exRecords)
    (fun p => p.vars.len == 2 && p.vars.order == [] && p.vars.names == []) = true := by decide
example : okWith (parse Cfg.fixed ⟨true, true⟩ exTree)
    (fun p => p.vars.order == [1, 0] && p.vars.tree == some (.inner [.leaf 1, .leaf 0]) &&
      p.gates == [(.xor, [.input true 0])] && p.root == .input true 0) = true := by decide
/-- the historical defect: a diagnostic, not a panic -/
example : isErr (parse Cfg.asIs ⟨false, true⟩ exMinI64) (.fail .badLit) = true := by decide

/-! ## (b) an accepted problem is internally consistent -/

/-- **parse_ok_wellformed**: the variable set satisfies `check_valid` and the documented
invariants (the linear order is empty or a permutation of the variables — as long as their number,
duplicate free, every entry below it —, equal to the flattened tree and non-empty when a tree is
present, `names` minimal and not longer than the number of variables, at most `usize::MAX/16`
variables); every gate has at least one input; every gate input and the
root is a constant, an input below the declared number of variables, or an existing gate. -/
theorem parse_ok_wellformed (cfg : Cfg) (o : Opts) (bytes : Bytes) (p : Problem')
    (h : parse cfg o bytes = .ok p) : p.WF :=
  ((parse_sat cfg o bytes).of_ok h).1

/-- **parse_ok_acyclic**: with `check_acyclic` an accepted circuit is acyclic — there is a rank on
the gates that strictly decreases from every gate to the gates among its inputs (`find_cycle`,
a depth-first search with discovered / finished marks, is sound; the rank is the finishing
order). -/
theorem parse_ok_acyclic (cfg : Cfg) (vo : Bool) (bytes : Bytes) (p : Problem')
    (h : parse cfg ⟨vo, true⟩ bytes = .ok p) : Acyclic p.gates :=
  ((parse_sat cfg ⟨vo, true⟩ bytes).of_ok h).2 rfl

/-- without the check a cyclic circuit is accepted (`exCycle` below): the statement needs the
option -/
theorem acyclic_needs_check : ¬ Acyclic [(Kind.and, [Lit.gate false 1]), (Kind.and, [Lit.gate false 0])] := by
  rintro ⟨rank, h⟩
  have h0 := h 0 _ _ rfl false 1 (by simp)
  have h1 := h 1 _ _ rfl false 0 (by simp)
  omega

/-- a cyclic file is rejected with the cycle diagnostic when `check_acyclic` is set and accepted
otherwise -/
example : isErr (parse Cfg.asIs ⟨false, true⟩ exCycle) (.fail .cycle) = true := by decide
example : okWith (parse Cfg.asIs ⟨false, false⟩ exCycle)
    (fun p => p.gates == [(.and, [.gate false 1]), (.and, [.gate false 0])]) = true := by decide

end OxiddModel.NnfParse
