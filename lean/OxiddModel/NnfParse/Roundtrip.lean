import OxiddModel.NnfParse.RoundtripFile
import OxiddModel.NnfParse.CycleTopo

/-!
# Round trip with the acyclicity check: sources in topological order

If every node line refers to earlier node lines only (the order the c2d format prescribes), the
meaning of the source is a topologically ordered circuit, `find_cycle` accepts it, and the printed
file parses to the meaning under every option setting.
-/
namespace OxiddModel.NnfParse

open OxiddModel.Circuit
open OxiddModel.AigerParse (Bytes maxCap)

def Node.children : Node → List Nat
  | .lit _ _ => []
  | .and cs => cs
  | .or _ cs => cs
  | .xor cs => cs

/-- every node line (the first one has number `p`) refers to earlier lines only -/
def TopoFrom : Nat → List Node → Prop
  | _, [] => True
  | p, n :: ns => (∀ c ∈ n.children, c < p) ∧ TopoFrom (p + 1) ns

def Src.Topo (S : Src) : Prop := TopoFrom 0 S.nodes

theorem kids_children {n : Node} {kc : Kind × List Nat} (h : n.kids = some kc) :
    kc.2 = n.children := by
  cases n with
  | lit neg v => simp [Node.kids] at h
  | and cs => cases cs <;> simp [Node.kids] at h; subst h; rfl
  | or j cs => cases cs <;> simp [Node.kids] at h; subst h; rfl
  | xor cs => cases cs <;> simp [Node.kids] at h; subst h; rfl

theorem rawGates_append (a b : List Node) : rawGates (a ++ b) = rawGates a ++ rawGates b := by
  induction a with
  | nil => rfl
  | cons n ns ih =>
    simp only [List.cons_append, rawGates]
    split <;> simp [ih]

theorem nodeLits_append : ∀ (a b : List Node) (g : Nat),
    nodeLits g (a ++ b) = nodeLits g a ++ nodeLits (g + (rawGates a).length) b := by
  intro a
  induction a with
  | nil => intro b g; simp [nodeLits, rawGates]
  | cons n ns ih =>
    intro b g
    simp only [List.cons_append, nodeLits, rawGates]
    rw [ih]
    cases hk : n.kids with
    | none => simp
    | some kc => simp [Nat.add_assoc, Nat.add_comm 1]

/-- a gate literal of a node is the gate its line opens -/
theorem litAt_gate {n : Node} {g : Nat} {ng : Bool} {x : Nat} (h : n.litAt g = .gate ng x) :
    x = g ∧ n.kids.isSome = true := by
  cases n with
  | lit neg v => simp [Node.litAt] at h
  | and cs => cases cs <;> simp [Node.litAt, Node.kids] at h ⊢; exact h.2.symm
  | or j cs => cases cs <;> simp [Node.litAt, Node.kids] at h ⊢; exact h.2.symm
  | xor cs => cases cs <;> simp [Node.litAt, Node.kids] at h ⊢; exact h.2.symm

theorem nodeLits_gate_bound : ∀ (ns : List Node) (g : Nat) (l : Lit), l ∈ nodeLits g ns →
    ∀ (ng : Bool) (x : Nat), l = .gate ng x → x < g + (rawGates ns).length := by
  intro ns
  induction ns with
  | nil => intro g l h; simp [nodeLits] at h
  | cons n ns ih =>
    intro g l h ng x hl
    simp only [nodeLits] at h
    rcases List.mem_cons.mp h with h | h
    · subst hl
      obtain ⟨hx, hk⟩ := litAt_gate h.symm
      simp only [rawGates]
      cases hkk : n.kids with
      | none => rw [hkk] at hk; cases hk
      | some kc => simp; omega
    · have := ih _ l h ng x hl
      simp only [rawGates]
      cases hkk : n.kids with
      | none => simpa [hkk] using this
      | some kc => simp [hkk] at this ⊢; omega

theorem getD_mem_or_default (l : List Lit) (c : Nat) (d : Lit) : l.getD c d ∈ l ∨ l.getD c d = d := by
  rw [List.getD_eq_getElem?_getD]
  cases h : l[c]? with
  | none => right; rfl
  | some x => left; exact List.mem_of_getElem? h

/-- the gates opened by `post` (which follows `pre`) only refer to gates with smaller numbers -/
theorem topo_aux : ∀ (post pre : List Node), TopoFrom pre.length post →
    ∀ (i : Nat) (k : Kind) (cs : List Nat), (rawGates post)[i]? = some (k, cs) →
    ∀ c ∈ cs, ∀ (ng : Bool) (x : Nat),
      (nodeLits 0 (pre ++ post)).getD c (.const false) = .gate ng x →
      x < (rawGates pre).length + i := by
  intro post
  induction post with
  | nil => intro pre _ i k cs h; simp [rawGates] at h
  | cons n ns ih =>
    intro pre ht i k cs hg c hc ng x hl
    obtain ⟨hn, hrest⟩ := ht
    have hassoc : pre ++ n :: ns = (pre ++ [n]) ++ ns := by simp
    have hrest' : TopoFrom (pre ++ [n]).length ns := by simpa using hrest
    have hlen' : (rawGates (pre ++ [n])).length =
        (rawGates pre).length + (if n.kids.isSome then 1 else 0) := by
      rw [rawGates_append]
      simp only [List.length_append, rawGates]
      cases n.kids <;> simp
    simp only [rawGates] at hg
    cases hk : n.kids with
    | none =>
      rw [hk] at hg
      dsimp only at hg
      have := ih (pre ++ [n]) hrest' i k cs hg c hc ng x (by rw [← hassoc]; exact hl)
      rw [hlen', hk] at this
      simpa using this
    | some kc =>
      rw [hk] at hg
      dsimp only at hg
      cases i with
      | zero =>
        simp only [List.getElem?_cons_zero, Option.some.injEq] at hg
        subst hg
        have hch : c ∈ n.children := by rw [← kids_children hk]; exact hc
        have hcp : c < pre.length := hn c hch
        -- the literal of an earlier node
        rw [nodeLits_append] at hl
        have hcl : c < (nodeLits 0 pre).length := by rw [nodeLits_length]; exact hcp
        rw [List.getD_eq_getElem?_getD, List.getElem?_append_left hcl,
          List.getElem?_eq_getElem hcl] at hl
        simp only [Option.getD_some] at hl
        have := nodeLits_gate_bound pre 0 _ (List.getElem_mem hcl) ng x hl
        omega
      | succ i =>
        simp only [List.getElem?_cons_succ] at hg
        have := ih (pre ++ [n]) hrest' i k cs hg c hc ng x (by rw [← hassoc]; exact hl)
        rw [hlen', hk] at this
        simp at this
        omega

/-- the meaning of a topologically ordered source is a topologically ordered circuit -/
theorem canon_topo (S : Src) (hT : S.Topo) : Topo (canon S).gates := by
  intro i k ins hg ng x hm
  simp only [canon, List.getElem?_map] at hg
  cases hr : (rawGates S.nodes)[i]? with
  | none => rw [hr] at hg; cases hg
  | some kc =>
    obtain ⟨k', cs⟩ := kc
    rw [hr] at hg
    simp only [Option.map_some, resolve, Option.some.injEq, Prod.mk.injEq] at hg
    obtain ⟨rfl, rfl⟩ := hg
    obtain ⟨c, hc, hl⟩ := List.mem_map.mp hm
    have hT' : TopoFrom ([] : List Node).length S.nodes := hT
    have := topo_aux S.nodes [] hT' i k' cs hr c hc ng x (by simpa using hl)
    simpa [rawGates] using this

/-- **parse_printNnf_topo** (round trip with every option setting): the printed file of an
admissible source in topological order parses to its meaning -/
theorem parse_printNnf_topo (cfg : Cfg) (o : Opts) (S : Src) (hS : S.Admissible) (hT : S.Topo) :
    parse cfg o (printNnf S) = .ok (canon S) :=
  parse_printNnf_of_cycleCheck cfg o S hS (cycleCheck_topo (canon_topo S hT) _ _)

/-! ## non-vacuity: the example of the c2d manual -/

/-- the 15 nodes of the d-DNNF of the c2d manual -/
def c2dExample : Src :=
  { numInputs := 4, numEdges := 17,
    nodes := [.lit true 2, .lit true 1, .lit false 0, .and [2, 1, 0], .lit false 2, .or 3 [4, 3],
      .lit true 3, .and [6, 5], .lit false 3, .and [2, 8], .and [1, 4], .lit false 1,
      .or 2 [11, 10], .and [12, 9], .or 4 [13, 7]] }

theorem c2dExample_admissible : c2dExample.Admissible := by
  refine ⟨by decide, by decide, by decide, by decide, ?_⟩
  intro n hn
  simp only [c2dExample, List.mem_cons, List.mem_nil_iff, or_false] at hn
  rcases hn with h | h | h | h | h | h | h | h | h | h | h | h | h | h | h <;> subst h <;>
    simp [Node.OK, KidsOK, c2dExample]

theorem c2dExample_topo : c2dExample.Topo := by
  simp [Src.Topo, TopoFrom, c2dExample, Node.children]

/-- the root of the manual's example is its last `O` line, gate 7 of 8 -/
example : (canon c2dExample).root = .gate false 7 ∧ (canon c2dExample).gates.length = 8 := by
  decide

end OxiddModel.NnfParse

namespace OxiddModel.NnfParse

open OxiddModel.AigerParse (printNat)

theorem printNat_small (n : Nat) (h : n < 10) : printNat n = [48 + n] := by
  rw [printNat, if_pos h]

/-- non-vacuity of the printer: `nnf 2 1 1\nL -1\nA 1 0\n` -/
example : printNnf { numInputs := 1, numEdges := 1, nodes := [.lit true 0, .and [0]] } =
    [110, 110, 102, 32, 50, 32, 49, 32, 49, 10, 76, 32, 45, 49, 10, 65, 32, 49, 32, 48, 10] := by
  simp [printNnf, printNodes, printNode, printKids, printNat_small]

end OxiddModel.NnfParse
