import OxiddModel.NnfParse.RoundtripTokens

/-!
# Round trip, whole files: `parse (printNnf S) = ok (canon S)`

`Src` is a structured NNF problem (number of inputs, the edge count of the problem line — which
the parser only uses as a reservation hint —, node lines `L`, `A`, `O`, `X` with arbitrary,
possibly forward, child references); `printNnf` writes it in the canonical form (single blanks,
`\n`, upper-case letters, no preamble); `canon` is its meaning stated without reference to the
parser: node `i` is a constant (empty gate), an input literal, or the gate whose number is the
count of non-empty gate lines before it; the gates are the non-empty gate lines with every child
number replaced by that node's literal; the root is the last node.
-/
namespace OxiddModel.NnfParse

open OxiddModel.Circuit
open OxiddModel.AigerParse (Bytes isDigit isSpace u64Loop maxCap space0 printNat NoDigitHead)

/-- one node line -/
inductive Node where
  /-- `L [-]<v+1>` -/
  | lit (neg : Bool) (v : Nat)
  /-- `A k c1 … ck` -/
  | and (cs : List Nat)
  /-- `O j k c1 … ck` -/
  | or (conflict : Nat) (cs : List Nat)
  /-- `X k c1 … ck` -/
  | xor (cs : List Nat)
  deriving Repr

structure Src where
  numInputs : Nat
  numEdges : Nat
  nodes : List Node
  deriving Repr

/-! ## the printer -/

def printKids : List Nat → Bytes → Bytes
  | [], rest => rest
  | c :: cs, rest => 32 :: (printNat c ++ printKids cs rest)

def printNode (n : Node) (rest : Bytes) : Bytes :=
  match n with
  | .lit false v => 76 :: 32 :: (printNat (v + 1) ++ 10 :: rest)
  | .lit true v => 76 :: 32 :: 45 :: (printNat (v + 1) ++ 10 :: rest)
  | .and cs => 65 :: 32 :: (printNat cs.length ++ printKids cs (10 :: rest))
  | .or j cs => 79 :: 32 :: (printNat j ++ 32 :: (printNat cs.length ++ printKids cs (10 :: rest)))
  | .xor cs => 88 :: 32 :: (printNat cs.length ++ printKids cs (10 :: rest))

def printNodes : List Node → Bytes → Bytes
  | [], rest => rest
  | n :: ns, rest => printNode n (printNodes ns rest)

/-- `nnf <#nodes> <#edges> <#inputs>\n` followed by the node lines -/
def printNnf (S : Src) : Bytes :=
  110 :: 110 :: 102 :: 32 :: (printNat S.nodes.length ++ 32 :: (printNat S.numEdges ++
    32 :: (printNat S.numInputs ++ 10 :: printNodes S.nodes [])))

/-! ## the meaning -/

/-- the gate a node line opens (none for literals and empty gates) -/
def Node.kids : Node → Option (Kind × List Nat)
  | .and (c :: cs) => some (.and, c :: cs)
  | .or _ (c :: cs) => some (.or, c :: cs)
  | .xor (c :: cs) => some (.xor, c :: cs)
  | _ => none

/-- the literal of a node line that is preceded by `g` non-empty gate lines -/
def Node.litAt (g : Nat) : Node → Lit
  | .lit neg v => .input neg v
  | .and [] => .const true
  | .or _ [] => .const false
  | .xor [] => .const false
  | _ => .gate false g

def nodeLits : Nat → List Node → List Lit
  | _, [] => []
  | g, n :: ns => n.litAt g :: nodeLits (if n.kids.isSome then g + 1 else g) ns

def rawGates : List Node → List (Kind × List Nat)
  | [] => []
  | n :: ns =>
    match n.kids with
    | some kc => kc :: rawGates ns
    | none => rawGates ns

def resolve (lits : List Lit) (g : Kind × List Nat) : Gate :=
  (g.1, g.2.map (fun c => lits.getD c (.const false)))

def canon (S : Src) : Problem' :=
  { vars := VarSet.new S.numInputs,
    gates := (rawGates S.nodes).map (resolve (nodeLits 0 S.nodes)),
    root := (nodeLits 0 S.nodes).getLast?.getD (.const false) }

/-! ## admissible sources -/

def KidsOK (numNodes : Nat) (cs : List Nat) : Prop := cs.length < 2 ^ 64 ∧ ∀ c ∈ cs, c < numNodes

def Node.OK (numInputs numNodes : Nat) : Node → Prop
  | .lit _ v => v < numInputs
  | .and cs => KidsOK numNodes cs
  | .or j cs => j ≤ numInputs ∧ (j ≠ 0 → cs.length = 2) ∧ KidsOK numNodes cs
  | .xor cs => KidsOK numNodes cs

structure Src.Admissible (S : Src) : Prop where
  inputs : S.numInputs ≤ maxCap
  edges : S.numEdges ≤ maxCap
  nodesCap : S.nodes.length ≤ maxCap
  nonempty : S.nodes ≠ []
  nodes : ∀ n ∈ S.nodes, n.OK S.numInputs S.nodes.length

/-! ## lines -/

theorem noDigit_printKids (cs : List Nat) (r : Bytes) : NoDigitHead (printKids cs (10 :: r)) := by
  cases cs with
  | nil => exact noDigit10 r
  | cons c cs => exact noDigit32 _

theorem children_print {numNodes : Nat} (hn : numNodes ≤ maxCap) : ∀ (cs : List Nat) (r : Bytes),
    (∀ c ∈ cs, c < numNodes) →
    children numNodes cs.length (printKids cs (10 :: r)) = .ok (cs, 10 :: r) := by
  intro cs
  induction cs with
  | nil => intro r _; rfl
  | cons c cs ih =>
    intro r h
    have hc : c < numNodes := h c (by simp)
    have := maxCap_lt
    simp only [List.length_cons, children, printKids]
    rw [space1_print]
    simp only [bind, Except.bind]
    rw [u64_print c (by omega) _ (noDigit_printKids cs r)]
    dsimp only
    rw [if_neg (by omega)]
    rw [ih r (fun x hx => h x (by simp [hx]))]
    rfl

/-- the state after a node line -/
def NState.after (st : NState) (n : Node) : NState :=
  match n.kids with
  | some kc => { st with gates := st.gates ++ [kc], nspans := st.nspans + 1 }
  | none => st

theorem gateLine_print {numNodes : Nat} (hn : numNodes ≤ maxCap) (st : NState)
    (hg : st.gates.length ≤ 2 ^ 62 - 1) (kind : Kind) (cs : List Nat) (r : Bytes)
    (h : ∀ c ∈ cs, c < numNodes) :
    gateLine numNodes st kind cs.length (printKids cs (10 :: r)) =
      .ok (.gate false st.gates.length,
        { st with gates := st.gates ++ [(kind, cs)], nspans := st.nspans + 1 }, 10 :: r) := by
  unfold gateLine mkGate
  rw [if_pos hg]
  simp only [bind, Except.bind]
  rw [children_print hn cs r h]
  rfl

theorem litLine_print_pos {numInputs : Nat} (hi : numInputs ≤ maxCap) (st : NState) (v : Nat)
    (hv : v < numInputs) (r : Bytes) :
    litLine numInputs st (32 :: (printNat (v + 1) ++ 10 :: r)) =
      .ok (.input false v, st, 10 :: r) := by
  have hv63 : v + 1 ≤ 2 ^ 63 - 1 := by unfold maxCap at hi; omega
  unfold litLine
  rw [space1_print]
  simp only [bind, Except.bind]
  rw [i64_print_pos (v + 1) hv63 _ (noDigit10 r)]
  dsimp only
  rw [if_neg (by simp only [Int.natAbs_natCast]; omega)]
  have : mkInput (decide (((v + 1 : Nat) : Int) < 0)) (((v + 1 : Nat) : Int).natAbs - 1) =
      .ok (.input false v) := by
    simp only [Int.natAbs_natCast, Nat.add_sub_cancel]
    unfold mkInput
    rw [if_pos (by unfold maxCap at hi; omega)]
    have : decide (((v + 1 : Nat) : Int) < 0) = false := by
      simp only [decide_eq_false_iff_not]; omega
    rw [this]
  rw [this]
  rfl

theorem litLine_print_neg {numInputs : Nat} (hi : numInputs ≤ maxCap) (st : NState) (v : Nat)
    (hv : v < numInputs) (r : Bytes) :
    litLine numInputs st (32 :: 45 :: (printNat (v + 1) ++ 10 :: r)) =
      .ok (.input true v, st, 10 :: r) := by
  have hv63 : v + 1 ≤ 2 ^ 63 - 1 := by unfold maxCap at hi; omega
  unfold litLine
  have hsp : space1 (32 :: 45 :: (printNat (v + 1) ++ 10 :: r)) =
      .ok ((), 45 :: (printNat (v + 1) ++ 10 :: r)) := by
    simp [space1, isSpace, space0]
  rw [hsp]
  simp only [bind, Except.bind]
  rw [i64_print_neg (v + 1) (by omega) _ (noDigit10 r)]
  dsimp only
  rw [if_neg (by simp only [Int.natAbs_neg, Int.natAbs_natCast]; omega)]
  have : mkInput (decide (-((v + 1 : Nat) : Int) < 0)) ((-((v + 1 : Nat) : Int)).natAbs - 1) =
      .ok (.input true v) := by
    simp only [Int.natAbs_neg, Int.natAbs_natCast, Nat.add_sub_cancel]
    unfold mkInput
    rw [if_pos (by unfold maxCap at hi; omega)]
    have : decide (-((v + 1 : Nat) : Int) < 0) = true := by
      simp only [decide_eq_true_eq]; omega
    rw [this]
  rw [this]
  rfl

/-- the state and literal after a gate line with children `cs` -/
theorem axLine_print {numNodes : Nat} (hn : numNodes ≤ maxCap) (st : NState)
    (hg : st.gates.length ≤ 2 ^ 62 - 1) (kind : Kind) (cs : List Nat) (hok : KidsOK numNodes cs)
    (r : Bytes) :
    axLine numNodes st kind (32 :: (printNat cs.length ++ printKids cs (10 :: r))) =
      .ok (match cs with
        | [] => (emptyGate kind, st, 10 :: r)
        | _ :: _ => (.gate false st.gates.length,
            { st with gates := st.gates ++ [(kind, cs)], nspans := st.nspans + 1 }, 10 :: r)) := by
  obtain ⟨hl, hcs⟩ := hok
  unfold axLine
  rw [spaceU64_print cs.length hl _ (noDigit_printKids cs r)]
  simp only [bind, Except.bind]
  cases cs with
  | nil => rfl
  | cons c cs =>
    rw [if_neg (by simp)]
    rw [gateLine_print hn st hg _ (c :: cs) r hcs]

theorem orLine_print {numNodes numInputs : Nat} (hn : numNodes ≤ maxCap) (hi : numInputs ≤ maxCap)
    (st : NState) (hg : st.gates.length ≤ 2 ^ 62 - 1) (j : Nat) (cs : List Nat) (hj : j ≤ numInputs)
    (hj2 : j ≠ 0 → cs.length = 2) (hok : KidsOK numNodes cs) (r : Bytes) :
    orLine numNodes numInputs st
      (32 :: (printNat j ++ 32 :: (printNat cs.length ++ printKids cs (10 :: r)))) =
      .ok (match cs with
        | [] => (.const false, st, 10 :: r)
        | _ :: _ => (.gate false st.gates.length,
            { st with gates := st.gates ++ [(Kind.or, cs)], nspans := st.nspans + 1 }, 10 :: r)) := by
  obtain ⟨hl, hcs⟩ := hok
  have hcap := maxCap_lt
  unfold orLine
  rw [spaceU64_print j (by omega) _ (noDigit32 _)]
  simp only [bind, Except.bind]
  rw [if_neg (by omega)]
  rw [spaceU64_print cs.length hl _ (noDigit_printKids cs r)]
  dsimp only
  rw [if_neg (by intro h; exact h.2 (hj2 h.1))]
  cases cs with
  | nil => rfl
  | cons c cs =>
    rw [if_neg (by simp)]
    rw [gateLine_print hn st hg _ (c :: cs) r hcs]

theorem nodeBody_print {numNodes numInputs : Nat} (hn : numNodes ≤ maxCap)
    (hi : numInputs ≤ maxCap) (st : NState) (hg : st.gates.length ≤ 2 ^ 62 - 1) (n : Node)
    (hok : n.OK numInputs numNodes) (r : Bytes) :
    nodeBody numNodes numInputs st (printNode n r) =
      .ok (n.litAt st.gates.length, st.after n, 10 :: r) := by
  cases n with
  | lit neg v =>
    have hv : v < numInputs := hok
    cases neg with
    | false =>
      have h1 : nodeBody numNodes numInputs st (printNode (.lit false v) r) =
          litLine numInputs st (32 :: (printNat (v + 1) ++ 10 :: r)) := by
        simp [printNode, nodeBody]
      rw [h1, litLine_print_pos hi st v hv r]; rfl
    | true =>
      have h1 : nodeBody numNodes numInputs st (printNode (.lit true v) r) =
          litLine numInputs st (32 :: 45 :: (printNat (v + 1) ++ 10 :: r)) := by
        simp [printNode, nodeBody]
      rw [h1, litLine_print_neg hi st v hv r]; rfl
  | and cs =>
    have h1 : nodeBody numNodes numInputs st (printNode (.and cs) r) =
        axLine numNodes st Kind.and (32 :: (printNat cs.length ++ printKids cs (10 :: r))) := by
      simp [printNode, nodeBody]
    rw [h1, axLine_print hn st hg _ cs hok r]
    cases cs <;> rfl
  | xor cs =>
    have h1 : nodeBody numNodes numInputs st (printNode (.xor cs) r) =
        axLine numNodes st Kind.xor (32 :: (printNat cs.length ++ printKids cs (10 :: r))) := by
      simp [printNode, nodeBody]
    rw [h1, axLine_print hn st hg _ cs hok r]
    cases cs <;> rfl
  | or j cs =>
    obtain ⟨hj, hj2, hk⟩ : j ≤ numInputs ∧ (j ≠ 0 → cs.length = 2) ∧ KidsOK numNodes cs := hok
    have h1 : nodeBody numNodes numInputs st (printNode (.or j cs) r) =
        orLine numNodes numInputs st
          (32 :: (printNat j ++ 32 :: (printNat cs.length ++ printKids cs (10 :: r)))) := by
      simp [printNode, nodeBody]
    rw [h1, orLine_print hn hi st hg j cs hj hj2 hk r]
    cases cs <;> rfl

theorem after_gates_length (st : NState) (n : Node) :
    (st.after n).gates.length = if n.kids.isSome then st.gates.length + 1 else st.gates.length := by
  unfold NState.after
  cases n.kids <;> simp

theorem nodesLoop_print {numNodes numInputs : Nat} (hn : numNodes ≤ maxCap)
    (hi : numInputs ≤ maxCap) : ∀ (ns : List Node) (st : NState) (r : Bytes),
    (∀ n ∈ ns, n.OK numInputs numNodes) → st.gates.length + ns.length ≤ 2 ^ 62 - 1 →
    nodesLoop numNodes numInputs ns.length st (printNodes ns r) =
      .ok ({ gates := st.gates ++ rawGates ns,
             nodes := st.nodes ++ nodeLits st.gates.length ns,
             nspans := st.nspans + (rawGates ns).length }, r) := by
  intro ns
  induction ns with
  | nil => intro st r _ _; simp [nodesLoop, printNodes, rawGates, nodeLits]
  | cons n ns ih =>
    intro st r hok hcap
    simp only [List.length_cons] at hcap
    simp only [List.length_cons, nodesLoop, printNodes]
    rw [nodeBody_print hn hi st (by omega) n (hok n (by simp))]
    simp only [bind, Except.bind]
    rw [eol_nl]
    dsimp only
    have hlen := after_gates_length st n
    rw [ih _ r (fun x hx => hok x (by simp [hx])) (by dsimp only; rw [hlen]; split <;> omega)]
    dsimp only
    rw [hlen]
    cases hk : n.kids with
    | none => simp [NState.after, hk, rawGates, nodeLits]
    | some kc => simp [NState.after, hk, rawGates, nodeLits, Nat.add_assoc, Nat.add_comm 1]

/-! ## the translation of the child numbers, the header -/

theorem mapChildren_eq {nodes : List Lit} : ∀ (cs : List Nat), (∀ c ∈ cs, c < nodes.length) →
    mapChildren nodes cs = .ok (cs.map (fun c => nodes.getD c (.const false))) := by
  intro cs
  induction cs with
  | nil => intro _; rfl
  | cons c cs ih =>
    intro h
    have hc : c < nodes.length := h c (by simp)
    simp only [mapChildren, List.map_cons]
    rw [List.getElem?_eq_getElem hc]
    dsimp only
    rw [ih (fun x hx => h x (by simp [hx]))]
    simp [List.getD_eq_getElem?_getD, List.getElem?_eq_getElem hc]

theorem mapGates_eq {nodes : List Lit} : ∀ (gs : List (Kind × List Nat)),
    (∀ g ∈ gs, ∀ c ∈ g.2, c < nodes.length) →
    mapGates nodes gs = .ok (gs.map (resolve nodes)) := by
  intro gs
  induction gs with
  | nil => intro _; rfl
  | cons g gs ih =>
    intro h
    obtain ⟨k, cs⟩ := g
    simp only [mapGates, List.map_cons]
    rw [mapChildren_eq cs (h (k, cs) (by simp))]
    dsimp only
    rw [ih (fun x hx => h x (by simp [hx]))]
    rfl

theorem problemLine_print (n e v : Nat) (hn : n ≤ maxCap) (he : e ≤ maxCap) (hv : v ≤ maxCap)
    (r : Bytes) :
    problemLine (110 :: 110 :: 102 :: 32 :: (printNat n ++ 32 :: (printNat e ++
      32 :: (printNat v ++ 10 :: r)))) = .ok ((n, e, v), r) := by
  unfold problemLine problemLineInner
  have h0 : nnfTagCut (110 :: 110 :: 102 :: 32 :: (printNat n ++ 32 :: (printNat e ++
      32 :: (printNat v ++ 10 :: r)))) =
      .ok ((), 32 :: (printNat n ++ 32 :: (printNat e ++ 32 :: (printNat v ++ 10 :: r)))) := by
    simp [nnfTagCut, nnfTag, List.isPrefixOf]
  rw [h0]
  simp only [bind, Except.bind]
  rw [space1_print]
  dsimp only
  rw [usize_print n hn _ (noDigit32 _)]
  dsimp only
  rw [space1_print]
  dsimp only
  rw [usize_print e he _ (noDigit32 _)]
  dsimp only
  rw [space1_print]
  dsimp only
  rw [usize_print v hv _ (noDigit10 _)]
  dsimp only
  rw [lineEnding_nl]
  rfl

theorem rawGates_length_le (ns : List Node) : (rawGates ns).length ≤ ns.length := by
  induction ns with
  | nil => simp [rawGates]
  | cons n ns ih =>
    simp only [rawGates]
    split <;> simp <;> omega

theorem nodeLits_length : ∀ (ns : List Node) (g : Nat), (nodeLits g ns).length = ns.length := by
  intro ns
  induction ns with
  | nil => intro g; rfl
  | cons n ns ih => intro g; simp [nodeLits, ih]

theorem kids_ok {numInputs numNodes : Nat} {n : Node} (h : n.OK numInputs numNodes) (kc : Kind × List Nat)
    (hk : n.kids = some kc) : ∀ c ∈ kc.2, c < numNodes := by
  cases n with
  | lit neg v => simp [Node.kids] at hk
  | and cs =>
    cases cs with
    | nil => simp [Node.kids] at hk
    | cons c cs => simp only [Node.kids, Option.some.injEq] at hk; subst hk; exact h.2
  | or j cs =>
    cases cs with
    | nil => simp [Node.kids] at hk
    | cons c cs => simp only [Node.kids, Option.some.injEq] at hk; subst hk; exact h.2.2.2
  | xor cs =>
    cases cs with
    | nil => simp [Node.kids] at hk
    | cons c cs => simp only [Node.kids, Option.some.injEq] at hk; subst hk; exact h.2

theorem rawGates_ok {numInputs numNodes : Nat} : ∀ (ns : List Node),
    (∀ n ∈ ns, n.OK numInputs numNodes) → ∀ g ∈ rawGates ns, ∀ c ∈ g.2, c < numNodes := by
  intro ns
  induction ns with
  | nil => intro _ g hg; simp [rawGates] at hg
  | cons n ns ih =>
    intro h g hg
    have hrest := ih (fun x hx => h x (by simp [hx]))
    simp only [rawGates] at hg
    split at hg
    · rename_i kc hk
      rcases List.mem_cons.mp hg with rfl | hg
      · exact kids_ok (h n (by simp)) _ hk
      · exact hrest g hg
    · exact hrest g hg

/-! ## whole files -/

/-- the preamble of a file without comment / order lines, for both settings of `var_order` -/
theorem preamble_print (cfg : Cfg) (vo : Bool) (n e v : Nat) (hn : n ≤ maxCap) (he : e ≤ maxCap)
    (hv : v ≤ maxCap) (r : Bytes) :
    preamble cfg vo (110 :: 110 :: 102 :: 32 :: (printNat n ++ 32 :: (printNat e ++
      32 :: (printNat v ++ 10 :: r)))) = .ok ((VarSet.new v, n, e, v), r) := by
  cases vo with
  | false =>
    simp only [preamble, Bool.false_eq_true, if_false, List.length_cons, skipComments, headIs]
    rw [if_neg (by omega)]
    simp only [bind, Except.bind]
    rw [problemLine_print n e v hn he hv r]
    rfl
  | true =>
    simp only [preamble, if_true, preambleOrder, List.length_cons, orderLoop, cSpace, headIs]
    rw [if_neg (by omega)]
    dsimp only
    rw [if_neg (by simp)]
    rw [problemLine_print n e v hn he hv r]
    simp only [numVarsCheck, Option.isNone_none, if_true, List.isEmpty_nil, Bool.not_true,
      Bool.false_and, Bool.false_eq_true, if_false, bind, Except.bind]
    rfl

/-- **parse_printNnf_of_cycleCheck**: the printed file of an admissible source parses to its
meaning, for every configuration and both settings of `var_order`, provided the acyclicity check
(if requested) passes on the meaning -/
theorem parse_printNnf_of_cycleCheck (cfg : Cfg) (o : Opts) (S : Src) (hS : S.Admissible)
    (hc : cycleCheck o.checkAcyclic (canon S).gates (canon S).gates.length = .ok ()) :
    parse cfg o (printNnf S) = .ok (canon S) := by
  have hcap : S.nodes.length ≤ 2 ^ 62 - 1 := by have := hS.nodesCap; unfold maxCap at this; omega
  unfold parse printNnf
  rw [preamble_print cfg o.varOrder _ _ _ hS.nodesCap hS.edges hS.inputs]
  simp only [bind, Except.bind]
  have hne : S.nodes.length ≠ 0 := by
    intro h; exact hS.nonempty (List.eq_nil_of_length_eq_zero h)
  rw [if_neg hne]
  rw [nodesLoop_print hS.nodesCap hS.inputs S.nodes ⟨[], [], 0⟩ [] hS.nodes (by simp; omega)]
  dsimp only
  simp only [List.nil_append, List.length_nil, Nat.zero_add, multispace0]
  have hmg := mapGates_eq (nodes := nodeLits 0 S.nodes) (rawGates S.nodes) (by
    intro g hg c hcm
    rw [nodeLits_length]
    exact rawGates_ok S.nodes hS.nodes g hg c hcm)
  rw [hmg]
  dsimp only
  have hlen : (canon S).gates.length = (rawGates S.nodes).length := by simp [canon]
  rw [hlen] at hc
  have hc' : cycleCheck o.checkAcyclic ((rawGates S.nodes).map (resolve (nodeLits 0 S.nodes)))
      (rawGates S.nodes).length = .ok () := hc
  rw [hc']
  dsimp only
  cases hl : (nodeLits 0 S.nodes).getLast? with
  | none =>
    exfalso
    have : nodeLits 0 S.nodes = [] := by simpa using hl
    have h2 := nodeLits_length S.nodes 0
    rw [this] at h2
    exact hne h2.symm
  | some root =>
    simp [canon, hl, pure, Except.pure]

/-- **parse_printNnf** (round trip without the acyclicity check): any admissible source, cyclic or
not -/
theorem parse_printNnf (cfg : Cfg) (vo : Bool) (S : Src) (hS : S.Admissible) :
    parse cfg ⟨vo, false⟩ (printNnf S) = .ok (canon S) :=
  parse_printNnf_of_cycleCheck cfg ⟨vo, false⟩ S hS rfl

end OxiddModel.NnfParse
