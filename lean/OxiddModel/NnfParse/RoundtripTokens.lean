import OxiddModel.NnfParse.Model
import OxiddModel.AigerParse.Roundtrip

/-!
# Round trip, token level: printed numbers, signed literals, separators and line ends are read back
-/
namespace OxiddModel.NnfParse

open OxiddModel.Circuit
open OxiddModel.AigerParse (Bytes isDigit isSpace u64Loop maxCap space0 printNat NoDigitHead
  digitsVal u64Loop_digits printNat_digits digitsVal_printNat printNat_ne_nil le_digitsVal)

theorem noDigit10 (r : Bytes) : NoDigitHead (10 :: r) := by simp [NoDigitHead, isDigit]
theorem noDigit32 (r : Bytes) : NoDigitHead (32 :: r) := by simp [NoDigitHead, isDigit]

theorem maxCap_lt : maxCap < 2 ^ 64 := by decide

/-- a printed number starts with a digit -/
theorem printNat_head (n : Nat) : ∃ d t, printNat n = d :: t ∧ isDigit d = true := by
  have hd := printNat_digits n
  have hne := printNat_ne_nil n
  cases h : printNat n with
  | nil => exact absurd h hne
  | cons d t => exact ⟨d, t, rfl, hd d (by rw [h]; exact List.mem_cons_self ..)⟩

theorem digit_not_space {d : Nat} (h : isDigit d = true) : isSpace d = false := by
  simp only [isDigit, Bool.and_eq_true, decide_eq_true_eq] at h
  simp only [isSpace, Bool.or_eq_false_iff, beq_eq_false_iff_ne]
  omega

theorem space0_printNat (n : Nat) (r : Bytes) : space0 (printNat n ++ r) = printNat n ++ r := by
  obtain ⟨d, t, h, hd⟩ := printNat_head n
  rw [h]
  simp [space0, digit_not_space hd]

/-- **u64_print**: `nom`'s `u64` reads a printed 64-bit number back -/
theorem u64_print (n : Nat) (hn : n < 2 ^ 64) (rest : Bytes) (hr : NoDigitHead rest) :
    u64 (printNat n ++ rest) = .ok (n, rest) := by
  have hd := printNat_digits n
  have hv := digitsVal_printNat n
  have hne := printNat_ne_nil n
  generalize printNat n = ds at hd hv hne
  cases ds with
  | nil => exact absurd rfl hne
  | cons d ds =>
    have hdd : isDigit d = true := hd d (List.mem_cons_self ..)
    have hv' : digitsVal (d - 48) ds = n := by
      simpa [digitsVal] using hv
    simp only [List.cons_append, u64, hdd, if_true]
    rw [u64Loop_digits ds (d - 48) rest (fun x hx => hd x (List.mem_cons_of_mem _ hx)) hr
      (by rw [hv']; exact hn), hv']

theorem usize_print (n : Nat) (hn : n ≤ maxCap) (rest : Bytes) (hr : NoDigitHead rest) :
    usize (printNat n ++ rest) = .ok (n, rest) := by
  have := maxCap_lt
  unfold usize
  rw [u64_print n (by omega) rest hr]
  simp only [bind, Except.bind]
  rw [if_neg (by omega)]
  rfl

/-- ` <n>` -/
theorem space1_print (n : Nat) (r : Bytes) :
    space1 (32 :: (printNat n ++ r)) = .ok ((), printNat n ++ r) := by
  simp only [space1, isSpace, beq_self_eq_true, Bool.true_or, if_true]
  rw [space0_printNat]

theorem spaceU64_print (n : Nat) (hn : n < 2 ^ 64) (rest : Bytes) (hr : NoDigitHead rest) :
    spaceU64 (32 :: (printNat n ++ rest)) = .ok (n, rest) := by
  unfold spaceU64
  rw [space1_print]
  simp only [bind, Except.bind]
  exact u64_print n hn rest hr

theorem magLoop_digits (bound : Nat) : ∀ (ds : Bytes) (v : Nat) (rest : Bytes),
    (∀ d ∈ ds, isDigit d = true) → NoDigitHead rest → digitsVal v ds ≤ bound →
    magLoop bound v (ds ++ rest) = some (digitsVal v ds, rest) := by
  intro ds
  induction ds with
  | nil =>
    intro v rest _ hr _
    cases rest with
    | nil => simp [magLoop, digitsVal]
    | cons b r =>
      have hb : isDigit b = false := hr
      simp [magLoop, digitsVal, hb]
  | cons d ds ih =>
    intro v rest hd hr hv
    have hdd : isDigit d = true := hd d (List.mem_cons_self ..)
    have hv' : digitsVal (v * 10 + (d - 48)) ds ≤ bound := by
      simpa [digitsVal] using hv
    have hle := le_digitsVal ds (v * 10 + (d - 48))
    simp only [List.cons_append, magLoop, hdd, if_true]
    rw [if_pos (by omega)]
    rw [ih _ rest (fun x hx => hd x (List.mem_cons_of_mem _ hx)) hr hv']
    simp [digitsVal]

theorem digit_not_sign {d : Nat} (h : isDigit d = true) : d ≠ 45 ∧ d ≠ 43 := by
  simp only [isDigit, Bool.and_eq_true, decide_eq_true_eq] at h
  omega

/-- the magnitude part of `i64` on a printed number -/
theorem mag_print (bound n : Nat) (hn : n ≤ bound) (rest : Bytes) (hr : NoDigitHead rest) :
    ∃ d t, printNat n ++ rest = d :: t ∧ isDigit d = true ∧
      magLoop bound (d - 48) t = some (n, rest) := by
  have hd := printNat_digits n
  have hv := digitsVal_printNat n
  have hne := printNat_ne_nil n
  generalize printNat n = ds at hd hv hne
  cases ds with
  | nil => exact absurd rfl hne
  | cons d ds =>
    have hdd : isDigit d = true := hd d (List.mem_cons_self ..)
    have hv' : digitsVal (d - 48) ds = n := by
      simpa [digitsVal] using hv
    refine ⟨d, ds ++ rest, rfl, hdd, ?_⟩
    rw [magLoop_digits bound ds (d - 48) rest (fun x hx => hd x (List.mem_cons_of_mem _ hx)) hr
      (by rw [hv']; exact hn), hv']

/-- **i64_print_pos**: an unsigned printed number is read back by `nom`'s `i64` -/
theorem i64_print_pos (n : Nat) (hn : n ≤ 2 ^ 63 - 1) (rest : Bytes) (hr : NoDigitHead rest) :
    i64 (printNat n ++ rest) = .ok ((n : Int), rest) := by
  obtain ⟨d, t, h, hd, hm⟩ := mag_print (2 ^ 63 - 1) n hn rest hr
  rw [h]
  obtain ⟨h45, h43⟩ := digit_not_sign hd
  have hs : sign (d :: t) = (true, d :: t) := by
    unfold sign
    split
    · rename_i heq; cases heq; exact absurd rfl h45
    · rename_i heq; cases heq; exact absurd rfl h43
    · rfl
  simp only [i64, hs, hd, if_true, hm]

/-- **i64_print_neg**: `-<n>` is read back as `-n` -/
theorem i64_print_neg (n : Nat) (hn : n ≤ 2 ^ 63) (rest : Bytes) (hr : NoDigitHead rest) :
    i64 (45 :: (printNat n ++ rest)) = .ok (-(n : Int), rest) := by
  obtain ⟨d, t, h, hd, hm⟩ := mag_print (2 ^ 63) n hn rest hr
  rw [h]
  have hs : sign (45 :: d :: t) = (false, d :: t) := rfl
  simp only [i64, hs, hd, if_true, Bool.false_eq_true, if_false, hm]

theorem eol_nl (r : Bytes) : eol (10 :: r) = .ok ((), r) := by
  simp [eol, space0, isSpace, lineEnding]

theorem lineEnding_nl (r : Bytes) : lineEnding (10 :: r) = .ok ((), r) := rfl

end OxiddModel.NnfParse
