import OxiddModel.Util.Proto
import OxiddModel.Num.Model
import Std.Data.HashMap

/-!
Line-protocol driver `nat` for the number model (see `harness/src/bin/c12_nat.rs` for the
protocol).  Every value-producing line prints the *representation* of the result.
-/
namespace OxiddModel.Num.Driver
open OxiddModel OxiddModel.Num

structure St where
  nat : Std.HashMap String Natural := {}
  s64 : Std.HashMap String (Sat 64) := {}
  s128 : Std.HashMap String (Sat 128) := {}

def hex (n : Nat) : String := String.ofList (Nat.toDigits 16 n)

def hexPad16 (n : Nat) : String :=
  let s := Nat.toDigits 16 n
  String.ofList (List.replicate (16 - s.length) '0' ++ s)

def hexDigit? (c : Char) : Option Nat :=
  if '0' ≤ c ∧ c ≤ '9' then some (c.toNat - 48)
  else if 'a' ≤ c ∧ c ≤ 'f' then some (c.toNat - 87)
  else if 'A' ≤ c ∧ c ≤ 'F' then some (c.toNat - 55)
  else none

def parseHex? (s : String) : Option Nat :=
  if s.isEmpty then none
  else s.toList.foldl (fun acc c => match acc, hexDigit? c with
    | some a, some d => some (16 * a + d)
    | _, _ => none) (some 0)

def parseDec? (s : String) : Option Nat :=
  if s.isEmpty then none
  else s.toList.foldl (fun acc c =>
    match acc with
    | some a => if '0' ≤ c ∧ c ≤ '9' then some (10 * a + (c.toNat - 48)) else none
    | none => none) (some 0)

/-- decimal or `0x…`, at most `u128::MAX` -/
def parseU128? (s : String) : Option Nat :=
  let r := if s.startsWith "0x" then parseHex? (s.drop 2).toString else parseDec? s
  match r with
  | some v => if v ≤ MAX128 then some v else none
  | none => none

def parseBounded? (s : String) (max : Nat) : Option Nat :=
  match parseDec? s with
  | some v => if v ≤ max then some v else none
  | none => none

def showNat (n : Natural) : String :=
  let ds := n.mantissaRaw
  let tag := match n.mant with | .inl _ => "i" | .heap _ => "h"
  (if n.shl = MAX64 then "NAN:" else "") ++ tag ++ ",".intercalate (ds.map hex) ++ "p" ++ toString n.shl

def ordStr : Option Natural.Ord3 → String
  | none => "none"
  | some .lt => "lt"
  | some .eq => "eq"
  | some .gt => "gt"

def specOf? (s : String) : Option Natural.FmtSpec :=
  match s with
  | "" => some {}
  | "#" => some { alternate := true }
  | "+" => some { plus := true }
  | "24" => some { width := some 24 }
  | "<24" => some { align := some .left, width := some 24 }
  | "^25" => some { align := some .center, width := some 25 }
  | "*>24" => some { fill := '*', align := some .right, width := some 24 }
  | "#030" => some { alternate := true, zeroPad := true, width := some 30 }
  | "+#9" => some { plus := true, alternate := true, width := some 9 }
  | "_^+#031" => some { fill := '_', align := some .center, plus := true, alternate := true, zeroPad := true, width := some 31 }
  | "1" => some { width := some 1 }
  | "*<2" => some { fill := '*', align := some .left, width := some 2 }
  | "*^6" => some { fill := '*', align := some .center, width := some 6 }
  | _ => none

def tooWide (a b : Natural) : Bool :=
  if a.isNan || b.isNan || a.mantissa == [0] || b.mantissa == [0] then false
  else
    let top := fun (n : Natural) => n.exp + 64 * n.mantissa.length
    let lo := min a.exp b.exp
    decide (max (top a) (top b) - lo > 4194304)

def put (s : St) (z : String) (n : Natural) : St × String :=
  ({ s with nat := s.nat.insert z n }, showNat n)

def natStep (s : St) (w : List String) : Option (St × String) :=
  match w with
  | ["from32", x, v] => do
    let v ← parseU128? v
    if v > 4294967295 then none else pure (put s x (Natural.ofU64 v))
  | ["from64", x, v] => do
    let v ← parseU128? v
    if v > MAX64 then none else pure (put s x (Natural.ofU64 v))
  | ["from128", x, v] => do
    let v ← parseU128? v
    pure (put s x (Natural.ofU128 v))
  | "fromle" :: x :: ds => do
    let digits ← ds.mapM (fun d => match parseHex? d with
      | some v => if v ≤ MAX64 then some v else none
      | none => none)
    pure (put s x (Natural.fromLeDigits digits))
  | ["clonefrom", z, x, y] => do
    -- `z := x.clone(); z.clone_from(&y)`: the value is `y`'s, whatever `x` was
    let _ ← s.nat[x]?
    let b ← s.nat[y]?
    pure (put s z b)
  | ["add", z, x, y] => do
    let a ← s.nat[x]?
    let b ← s.nat[y]?
    if tooWide a b then pure (s, "too-wide") else pure (put s z (Natural.add a b))
  | [op, z, x, k] =>
    if op == "shl" || op == "shl32" || op == "shr" || op == "shr32" then do
      let a ← s.nat[x]?
      let k ← parseBounded? k (if op == "shl32" || op == "shr32" then 4294967295 else MAX64)
      pure (put s z (if op.startsWith "shl" then a.shiftLeft k else a.shiftRight k))
    else if op == "fmt" then
      -- ["fmt", x, kind, spec]
      fmtStep s z x k
    else none
  | ["fmt", x, kind] => fmtStep s x kind ""
  | ["cmp", x, y] => do
    let a ← s.nat[x]?
    let b ← s.nat[y]?
    pure (s, ordStr (a.partialCmp b))
  | ["eq", x, y] => do
    let a ← s.nat[x]?
    let b ← s.nat[y]?
    pure (s, if a.eq b then "1" else "0")
  | ["f64", x] => do
    let a ← s.nat[x]?
    pure (s, match a.toF64Bits with | none => "nan" | some b => hexPad16 b)
  | ["u64", x] => do
    let a ← s.nat[x]?
    pure (s, match a.toU64 with | none => "err" | some v => hex v)
  | ["u128", x] => do
    let a ← s.nat[x]?
    pure (s, match a.toU128 with | none => "err" | some v => hex v)
  | ["bw", x] => do
    let a ← s.nat[x]?
    pure (s, toString a.bitWidth)
  | ["isnan", x] => do
    let a ← s.nat[x]?
    pure (s, if a.isNan then "1" else "0")
  | _ => none
where
  fmtStep (s : St) (x kind spec : String) : Option (St × String) := do
    let a ← s.nat[x]?
    let f ← specOf? spec
    if !(kind == "b" || kind == "o" || kind == "x" || kind == "X" || kind == "d") then none
    else if !a.isNan && decide (a.bitWidth > 1048576) && !(kind == "d" && decide (a.exp > 1099511627776)) then
      pure (s, "too-wide")
    else
      let cs := match kind with
        | "b" => a.fmtBinary f
        | "o" => a.fmtOctal f
        | "x" => a.fmtLowerHex f
        | "X" => a.fmtUpperHex f
        | _ => a.fmtDisplay f
      pure (s, String.ofList (cs.map (fun c => if c == ' ' then '~' else c)))

def satOrd (a b : Nat) : String := if a < b then "lt" else if a = b then "eq" else "gt"

def satStep (bits : Nat) (get : String → Option (Sat bits)) (set : String → Sat bits → St)
    (s : St) (w : List String) : Option (St × String) :=
  match w with
  | ["from", x, v] => do
    let v ← parseU128? v
    if v > Sat.max bits then none else pure (set x ⟨v⟩, hex v)
  | ["from32", x, v] => do
    let v ← parseU128? v
    if v > 4294967295 then none else pure (set x (Sat.ofU32 v), hex v)
  | ["add", z, x, y] => do
    let a ← get x
    let b ← get y
    let r := a.add b
    pure (set z r, hex r.val)
  | ["sub", z, x, y] => do
    let a ← get x
    let b ← get y
    match a.sub b with
    | some r => pure (set z r, hex r.val)
    | none => pure (s, "PANIC")
  | ["shl", z, x, k] => do
    let a ← get x
    let k ← parseBounded? k 4294967295
    let r := a.shl k
    pure (set z r, hex r.val)
  | ["shr", z, x, k] => do
    let a ← get x
    let k ← parseBounded? k 4294967295
    match a.shr k with
    | some r => pure (set z r, hex r.val)
    | none => pure (s, "PANIC")
  | ["cmp", x, y] => do
    let a ← get x
    let b ← get y
    pure (s, satOrd a.val b.val)
  | _ => none

def step (s : St) (line : String) : St × String :=
  let w := words line
  let r := match w with
    | "s64" :: rest => satStep 64 (fun x => s.s64[x]?) (fun x v => { s with s64 := s.s64.insert x v }) s rest
    | "s128" :: rest => satStep 128 (fun x => s.s128[x]?) (fun x v => { s with s128 := s.s128.insert x v }) s rest
    | _ => natStep s w
  match r with
  | some r => r
  | none => (s, "bad-op")

def proto : Proto := { σ := St, init := {}, step := step }

end OxiddModel.Num.Driver
