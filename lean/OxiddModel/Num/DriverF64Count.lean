import OxiddModel.Util.Proto
import OxiddModel.Num.F64Count

/-!
# Driver of the protocol `f64count` (C12, floating-point half)

Runs the dyadic model of `F64Count.lean` on the operation lines of
`harness/src/bin/c12_f64count.rs` and prints **bit patterns** (16 hex digits, `nan` for a NaN);
the comparison with the hardware results of the Rust side is exact, no tolerance.

```
count bdd|bcdd|zbdd <n> <tt-hex> <vars>
    -> r=<bits> k=<number of distinct memoised values> h=<hash of the sorted distinct values> [v=<b1>,<b2>,…]
dag bdd|bcdd|zbdd <n> <vars> <l,t,e> …
    -> the same for the function given as a diagram: node `i` is `ite(x_l, t, e)`, `t`/`e` an
       earlier node (index) or `T`/`F`, levels strictly increasing towards the children
zdag <n> <vars> <l,hi,lo> …
    -> the node list read as ZBDD nodes (`make_node`; `T` = Base, `F` = Empty), kind `zbdd`
scalar from <u32>          -> <bits>
scalar add <bitsA> <bitsB> -> <bits>
scalar shl <bits> <k>      -> <bits>
scalar shr <bits> <k>      -> <bits>
```

`<tt-hex>`: digit `i` holds the values under the assignments `4i … 4i+3` (bit `v` of an assignment
is variable `v`); the diagram is the canonical one in the identity order (level = variable), built
by Shannon expansion with the reduction rule of the kind. The memoised values are those of a count
with `cache_all = true`: one per inner node (BCDD: per node and incoming tag); they are printed as a
sorted duplicate-free list (`v=` only up to 24 values, the hash always).
-/
namespace OxiddModel.Num.F64C.Driver
open OxiddModel OxiddModel.Num.F64C OxiddModel.Num.F64C.F

def hexVal (c : Char) : Option Nat :=
  if '0' ≤ c ∧ c ≤ '9' then some (c.toNat - '0'.toNat)
  else if 'a' ≤ c ∧ c ≤ 'f' then some (c.toNat - 'a'.toNat + 10)
  else none

/-- little-endian digit string (truth tables) -/
def parseTT (hex : String) (n : Nat) : Option Nat :=
  let cs := hex.toList
  let rec go : List Char → Nat → Nat → Option Nat
    | [], _, acc => some acc
    | c :: cs, i, acc =>
      match hexVal c with
      | none => none
      | some d => go cs (i + 1) (acc + (d <<< (4 * i)))
  match go cs 0 0 with
  | none => none
  | some tt => if cs.length * 4 < 2 ^ n ∨ tt ≥ 2 ^ (2 ^ n) then none else some tt

/-- big-endian hexadecimal number (bit patterns) -/
def parseHex (s : String) : Option Nat :=
  if s.isEmpty then none else
  s.toList.foldl (fun acc c => match acc, hexVal c with
    | some a, some d => some (a * 16 + d)
    | _, _ => none) (some 0)

def hexDigit (d : Nat) : Char :=
  if d < 10 then Char.ofNat ('0'.toNat + d) else Char.ofNat ('a'.toNat + d - 10)

def hex16 (b : Nat) : String :=
  String.ofList ((List.range 16).reverse.map fun i => hexDigit ((b >>> (4 * i)) % 16))

def tok (x : F) : String :=
  match x.toBits with
  | some b => hex16 b
  | none => "nan"

/-- sort key: NaN last -/
def key (x : F) : Nat := (x.toBits).getD (2 ^ 64 - 1)

def shannonB (tt : Nat) : Nat → Nat → Nat → Bdd.BDD
  | 0, _, a => .leaf (tt.testBit a)
  | c + 1, l, a => Bdd.mk l (shannonB tt c (l + 1) (a ||| (1 <<< l))) (shannonB tt c (l + 1) a)

def shannonC (tt : Nat) : Nat → Nat → Nat → Bcdd.Edge
  | 0, _, a => Bcdd.terminal (tt.testBit a)
  | c + 1, l, a => Bcdd.mk l (shannonC tt c (l + 1) (a ||| (1 <<< l))) (shannonC tt c (l + 1) a)

def shannonZ (tt : Nat) : Nat → Nat → Nat → Zbdd.ZDD
  | 0, _, a => if tt.testBit a then .base else .empty
  | c + 1, l, a => Zbdd.mk l (shannonZ tt c (l + 1) (a ||| (1 <<< l))) (shannonZ tt c (l + 1) a)


/-! ## functions given as diagrams (`dag` lines) -/

inductive Ref where
  | tt | ff | n (i : Nat)

def parseRef (s : String) : Option Ref :=
  if s = "T" then some .tt else if s = "F" then some .ff else s.toNat?.map .n

/-- `(level, then, else)` per node; `none` unless every reference points to an earlier node of a
greater level and every level is `< n` -/
def parseDag (n : Nat) : List String → List (Nat × Ref × Ref) → Option (List (Nat × Ref × Ref))
  | [], acc => if acc.isEmpty then none else some acc.reverse
  | w :: ws, acc =>
    match w.splitOn "," with
    | [l, t, e] =>
      match l.toNat?, parseRef t, parseRef e with
      | some l, some t, some e =>
        let ok (r : Ref) : Bool := match r with
          | .n i => match acc.reverse[i]? with
            | some (li, _, _) => li > l
            | none => false
          | _ => true
        if l < n ∧ ok t ∧ ok e then parseDag n ws ((l, t, e) :: acc) else none
      | _, _, _ => none
    | _ => none

def dagB (nodes : List (Nat × Ref × Ref)) : Bdd.BDD :=
  let arr := nodes.foldl (fun (arr : Array Bdd.BDD) (l, t, e) =>
    let get (r : Ref) : Bdd.BDD := match r with
      | .tt => .leaf true | .ff => .leaf false | .n i => arr[i]?.getD (.leaf false)
    arr.push (Bdd.mk l (get t) (get e))) #[]
  arr.back?.getD (.leaf false)

def dagC (nodes : List (Nat × Ref × Ref)) : Bcdd.Edge :=
  let arr := nodes.foldl (fun (arr : Array Bcdd.Edge) (l, t, e) =>
    let get (r : Ref) : Bcdd.Edge := match r with
      | .tt => Bcdd.terminal true | .ff => Bcdd.terminal false
      | .n i => arr[i]?.getD (Bcdd.terminal false)
    arr.push (Bcdd.mk l (get t) (get e))) #[]
  arr.back?.getD (Bcdd.terminal false)

/-- don't-care nodes for the levels `lo, …, lo + c - 1` above `z` (a Boolean function that does
not depend on a variable has, as a ZBDD, a node with two equal children there) -/
def dcLift : Nat → Nat → Zbdd.ZDD → Zbdd.ZDD
  | 0, _, z => z
  | c + 1, lo, z => Zbdd.mk1 lo (dcLift c (lo + 1) z)

/-- every node is kept as the ZBDD of its function over the levels from its own level on -/
def dagZ (n : Nat) (nodes : List (Nat × Ref × Ref)) : Zbdd.ZDD :=
  let arr := nodes.foldl (fun (arr : Array (Nat × Zbdd.ZDD)) (l, t, e) =>
    let get (r : Ref) : Zbdd.ZDD :=
      let (lc, z) : Nat × Zbdd.ZDD := match r with
        | .tt => (n, .base) | .ff => (n, .empty) | .n i => arr[i]?.getD (n, .empty)
      dcLift (lc - (l + 1)) (l + 1) z
    arr.push (l, Zbdd.mk l (get t) (get e))) #[]
  match arr.back? with
  | some (l, z) => dcLift l 0 z
  | none => .empty

/-- the node list as ZBDD nodes (`oxidd::zbdd::make_node` = `reduce`) -/
def zdagZ (nodes : List (Nat × Ref × Ref)) : Zbdd.ZDD :=
  let arr := nodes.foldl (fun (arr : Array Zbdd.ZDD) (l, t, e) =>
    let get (r : Ref) : Zbdd.ZDD := match r with
      | .tt => .base | .ff => .empty | .n i => arr[i]?.getD .empty
    arr.push (Zbdd.mk l (get t) (get e))) #[]
  arr.back?.getD .empty

/-! ## one pass: the value of a diagram together with every memoised value

`sat_count_edge::inner` with `cache_all` stores the value of every inner node it returns from
(BCDD: per node and incoming tag). The functions below are `bddGo`/`bcddGo`/`zbddGo` that also
collect these values (`*_fst`: the first component *is* the model's recursion). -/

def bddAll (tv : F) : Bdd.BDD → List F → F × List F
  | .leaf b, acc => (if b then tv else fromU32 0, acc)
  | .node _ t e, acc =>
    let r1 := bddAll tv t acc
    let r2 := bddAll tv e r1.2
    let v := shr (add r1.1 r2.1) 1
    (v, v :: r2.2)

theorem bddAll_fst (tv : F) (f : Bdd.BDD) (acc : List F) : (bddAll tv f acc).1 = bddGo tv f := by
  induction f generalizing acc with
  | leaf b => simp only [bddAll, bddGo]
  | node l t e iht ihe => simp only [bddAll, bddGo, iht, ihe]

def bcddAll (tv : F) : Bool → Bcdd.CNode → List F → F × List F
  | tag, .top, acc => (if tag then fromU32 0 else tv, acc)
  | tag, .node _ t en e, acc =>
    let r1 := bcddAll tv tag t acc
    let r2 := bcddAll tv (tag != en) e r1.2
    let v := shr (add r1.1 r2.1) 1
    (v, v :: r2.2)

theorem bcddAll_fst (tv : F) (n : Bcdd.CNode) (tag : Bool) (acc : List F) :
    (bcddAll tv tag n acc).1 = bcddGo tv tag n := by
  induction n generalizing tag acc with
  | top => simp only [bcddAll, bcddGo]
  | node l t en e iht ihe => simp only [bcddAll, bcddGo, iht, ihe]

def zbddAll : Zbdd.ZDD → List F → F × List F
  | .empty, acc => (fromU32 0, acc)
  | .base, acc => (fromU32 1, acc)
  | .node _ hi lo, acc =>
    let r1 := zbddAll hi acc
    let r2 := zbddAll lo r1.2
    let v := add r1.1 r2.1
    (v, v :: r2.2)

theorem zbddAll_fst (f : Zbdd.ZDD) (acc : List F) : (zbddAll f acc).1 = zbddGo f := by
  induction f generalizing acc with
  | empty => simp only [zbddAll, zbddGo]
  | base => simp only [zbddAll, zbddGo]
  | node l hi lo ih1 ih2 => simp only [zbddAll, zbddGo, ih1, ih2]

def bddVals (tv : F) (f : Bdd.BDD) : List F := (bddAll tv f []).2
def bcddVals (tv : F) (tag : Bool) (n : Bcdd.CNode) : List F := (bcddAll tv tag n []).2
def zbddVals (f : Zbdd.ZDD) : List F := (zbddAll f []).2

def insertSorted (x : Nat) : List Nat → List Nat
  | [] => [x]
  | y :: ys => if x < y then x :: y :: ys else if x = y then y :: ys else y :: insertSorted x ys

def sortDedup (l : List Nat) : List Nat := l.foldl (fun acc x => insertSorted x acc) []

def fnv (l : List Nat) : Nat :=
  l.foldl (fun h x => ((h ^^^ x) * 0x100000001b3) % 2 ^ 64) 0xcbf29ce484222325

def showCount (r : F) (vals : List F) : String :=
  let ks := sortDedup (vals.map key)
  let base := s!"r={tok r} k={ks.length} h={hex16 (fnv ks)}"
  if ks.length ≤ 24 then
    base ++ " v=" ++ ",".intercalate (ks.map fun k => if k = 2 ^ 64 - 1 then "nan" else hex16 k)
  else base

def step (_ : Unit) (line : String) : Unit × String :=
  match words line with
  | ["count", kind, n, tt, vars] =>
    match n.toNat?, vars.toNat? with
    | some n, some vars =>
      if n > 16 ∨ vars ≥ 2 ^ 32 then ((), "bad-op") else
      match parseTT tt n with
      | none => ((), "bad-op")
      | some tt =>
        match kind with
        | "bdd" =>
          if vars < n then ((), "bad-op") else
          let f := shannonB tt n 0 0
          ((), showCount (bddCount vars f) (bddVals (termVal false vars) f))
        | "bcdd" =>
          if vars < n then ((), "bad-op") else
          let f := shannonC tt n 0 0
          ((), showCount (bcddCount vars f) (bcddVals (termVal false vars) f.neg f.n))
        | "zbdd" =>
          let f := shannonZ tt n 0 0
          ((), showCount (zbddCount n vars f) (zbddVals f))
        | _ => ((), "bad-op")
    | _, _ => ((), "bad-op")
  | "dag" :: kind :: n :: vars :: rest =>
    match n.toNat?, vars.toNat? with
    | some n, some vars =>
      if n > 4096 ∨ vars ≥ 2 ^ 32 then ((), "bad-op") else
      match parseDag n rest [] with
      | none => ((), "bad-op")
      | some nodes =>
        match kind with
        | "bdd" =>
          if vars < n then ((), "bad-op") else
          let f := dagB nodes
          ((), showCount (bddCount vars f) (bddVals (termVal false vars) f))
        | "bcdd" =>
          if vars < n then ((), "bad-op") else
          let f := dagC nodes
          ((), showCount (bcddCount vars f) (bcddVals (termVal false vars) f.neg f.n))
        | "zbdd" =>
          let f := dagZ n nodes
          ((), showCount (zbddCount n vars f) (zbddVals f))
        | _ => ((), "bad-op")
    | _, _ => ((), "bad-op")
  | "zdag" :: n :: vars :: rest =>
    match n.toNat?, vars.toNat? with
    | some n, some vars =>
      if n > 4096 ∨ vars ≥ 2 ^ 32 then ((), "bad-op") else
      match parseDag n rest [] with
      | none => ((), "bad-op")
      | some nodes =>
        let f := zdagZ nodes
        ((), showCount (zbddCount n vars f) (zbddVals f))
    | _, _ => ((), "bad-op")
  | ["scalar", "from", x] =>
    match x.toNat? with
    | some x => if x < 2 ^ 32 then ((), tok (fromU32 x)) else ((), "bad-op")
    | none => ((), "bad-op")
  | ["scalar", "add", a, b] =>
    match (parseHex a).bind ofBits, (parseHex b).bind ofBits with
    | some a, some b => ((), tok (add a b))
    | _, _ => ((), "bad-op")
  | ["scalar", "shl", a, k] =>
    match (parseHex a).bind ofBits, k.toNat? with
    | some a, some k => if k < 2 ^ 32 then ((), tok (shl a k)) else ((), "bad-op")
    | _, _ => ((), "bad-op")
  | ["scalar", "shr", a, k] =>
    match (parseHex a).bind ofBits, k.toNat? with
    | some a, some k => if k < 2 ^ 32 then ((), tok (shr a k)) else ((), "bad-op")
    | _, _ => ((), "bad-op")
  | _ => ((), "bad-op")

def proto : Proto := { σ := Unit, init := (), step := step }

end OxiddModel.Num.F64C.Driver
