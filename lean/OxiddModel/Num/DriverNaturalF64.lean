import OxiddModel.Util.Proto
import OxiddModel.Num.Driver
import OxiddModel.Num.NaturalF64

/-!
# Driver of the protocol `natf64` (C12: `Natural → f64`)

The operations of the protocol `nat` (`fromle`, `add`, `shl`, …) are delegated unchanged to
`Num.Driver.step`; only `f64 x` is different: it prints **two** bit patterns,

1. `Natural.toF64Bits` — the digit-level model of `impl From<&Natural> for f64`
   (what the protocol `nat` prints), and
2. `NatF64.spec` — the bit pattern of `round53 ⟨x, 0⟩` for the denoted number `x` in the exact dyadic
   model of binary64 (`Num/F64Count.lean`, no Lean `Float`),

which `natural_to_f64_spec` proves equal for every normal form.  The Rust side prints the
implementation's result and the correctly rounded pattern computed by its own reference
arithmetic, so one line comparison ties code = digit model and reference = specification.

Guard (only to keep the driver from materialising astronomically large numbers): for a non-zero
value with exponent above 4096 the specification side prints the pattern of `+∞` without computing
`x` — `x ≥ 2^4096 ≥ 2^1024 − 2^970`, so this *is* `round53 ⟨x, 0⟩` by `natural_to_f64_inf_iff`.
-/
namespace OxiddModel.Num.NatF64.Driver
open OxiddModel OxiddModel.Num

def specBits (a : Natural) : Option Nat :=
  if a.isNan then none
  else if a.shl > 4096 ∧ a.mantissa ≠ [0] then some INF_BITS
  else spec a

def showBits : Option Nat → String
  | none => "nan"
  | some b => Num.Driver.hexPad16 b

def step (s : Num.Driver.St) (line : String) : Num.Driver.St × String :=
  match words line with
  | ["f64", x] =>
    match s.nat[x]? with
    | some a => (s, showBits a.toF64Bits ++ " " ++ showBits (specBits a))
    | none => (s, "bad-op")
  | _ => Num.Driver.step s line

def proto : Proto := { σ := Num.Driver.St, init := {}, step := step }

end OxiddModel.Num.NatF64.Driver
