import OxiddModel.Bdd.Model
import OxiddModel.Bcdd.Model
import OxiddModel.Zbdd.Model

/-!
# C12, floating-point half: `sat_count` over the number type `F64`, on exact dyadics

`crates/oxidd-core/src/util/num/mod.rs` wraps `f64` as `F64` with

* `From<u32>`: `value as f64`,
* `Add`: the IEEE-754 addition,
* `Shl<u32>`: `if self == 0.0 { self } else { self * (rhs as f64).exp2() }`,
* `Shr<u32>`: `self * (-(rhs as f64)).exp2()`,
* `IsFloatingPoint::MIN_EXP = f64::MIN_EXP = -1021`,

and `sat_count_edge` of the three Boolean rule sets uses it through

* BDD (`simple/apply_rec.rs`): `scale_exp = 1021`; terminal value `1 << (vars - 1021)` if
  `scale_exp != 0 && vars >= scale_exp`, else `1 << vars`; inner node `(c_t + c_e) >> 1`; finally
  `res << 1021` under the same condition;
* BCDD (`complement_edge/apply_rec.rs`): the same with the complement tag pushed into the
  cofactors (terminal reached through a complemented edge counts `0`), condition `vars >= scale_exp`;
* ZBDD (`oxidd-rules-zbdd/src/apply_rec.rs`): path counting (`0`/`1` at the terminals, `+` at inner
  nodes, no scaling), then `count << (vars - num_levels)` or `count >> (num_levels - vars)`.

This file models binary64 **without Lean's `Float`**: a non-negative binary64 value is an exact
dyadic rational. Every finite binary64 value is an integer multiple of `2^-1074` (the smallest
subnormal), so a finite value is stored as its number of *units* `u`, value `u · 2^-1074`
(`F.fin u`; `F.toD` gives the mantissa/exponent view `D = (m, e)`, value `m · 2^e`, and `F.toBits`
the 64-bit pattern). Every IEEE operation is the exact operation on dyadics followed by the
explicit rounding `round53` (to nearest, ties to even, 53 significant bits, gradual underflow:
never finer than one unit, overflow to `inf` from `2^1024` on). Negative numbers and `-0.0` do not
occur in counting (all operands are sums/products of non-negative values) and are not modelled.

`exp2` is modelled on integral arguments only, as the correctly rounded power of two (what glibc's
and LLVM's `exp2` return for integral arguments; the tie `f64count` checks this bit for bit on the
shift amounts `0 … 2200`).
-/
namespace OxiddModel.Num.F64C

/-! ## exact dyadics and binary64 values -/

/-- an exact non-negative dyadic rational `m · 2^e` -/
structure D where
  m : Nat
  e : Int
deriving DecidableEq, Repr

/-- a non-negative binary64 value: `fin u` is the finite value `u · 2^-1074` (so `fin 1` is the
smallest subnormal, `fin (2^52)` the smallest normal number `2^-1022`, `fin (2^1074)` is `1.0`),
`inf` is `+∞`, `nan` any NaN. Not every `u` is representable, see `F.Rep`. -/
inductive F where
  | fin (u : Nat)
  | inf
  | nan
deriving DecidableEq, Repr, Inhabited

/-- number of binary digits (`0` for `0`) -/
def bitlen (m : Nat) : Nat := if m = 0 then 0 else m.log2 + 1

/-- `m / 2^s` rounded to the nearest integer, ties to even -/
def rne (m s : Nat) : Nat :=
  let q := m / 2 ^ s
  let r := m % 2 ^ s
  if 2 ^ s < 2 * r ∨ (2 * r = 2 ^ s ∧ q % 2 = 1) then q + 1 else q

/-- exponent of the unit: finite values are multiples of `2^-1074` -/
def UNIT : Nat := 1074

/-- `f64::MAX_EXP`: values from `2^1024` on overflow -/
def EMAX : Nat := 1024

/-- `2^1024` in units: the first value that overflows -/
def OVF : Nat := EMAX + UNIT

/-- overflow check after rounding: a rounded value `≥ 2^1024` becomes `+∞` -/
def mk (u : Nat) : F := if u < 2 ^ OVF then .fin u else .inf

/-- round the exact value `m · 2^-t` *units* (i.e. `m · 2^(-1074-t)`) to binary64: keep 53
significant bits but never go below one unit (gradual underflow), ties to even, then the overflow
check. `s` is the number of low bits of `m` that are rounded away. -/
def roundU (m t : Nat) : F :=
  let s := max t (bitlen m - 53)
  mk (rne m s * 2 ^ (s - t))

/-- round an integer number of units to 53 significant bits (no overflow check) -/
def rnd (u : Nat) : Nat := rne u (bitlen u - 53) * 2 ^ (bitlen u - 53)

/-- IEEE-754 rounding of an exact dyadic to binary64 (round to nearest even, 53 significant bits,
subnormals below `2^-1022`, `+∞` from `2^1024` on) -/
def round53 (d : D) : F :=
  if -1074 ≤ d.e then roundU (d.m * 2 ^ (d.e + 1074).toNat) 0
  else roundU d.m (-1074 - d.e).toNat

namespace F

/-- the value is representable in binary64: at most 53 significant bits, below `2^1024` -/
def Rep : F → Prop
  | fin u => u % 2 ^ (bitlen u - 53) = 0 ∧ u < 2 ^ OVF
  | _ => True

/-- mantissa/exponent view of a finite value: `m · 2^e` with `m < 2^53`, `e ≥ -1074`, and
`m ≥ 2^52` unless `e = -1074` (the IEEE normal form) -/
def toD : F → Option D
  | fin u => some ⟨u >>> (bitlen u - 53), ((bitlen u - 53 : Nat) : Int) - 1074⟩
  | _ => none

/-- the 64-bit pattern of a representable value (`none` for NaN: the payload/sign of a NaN produced
by the hardware is not modelled) -/
def toBits : F → Option Nat
  | fin u => some ((bitlen u - 53) * 2 ^ 52 + u >>> (bitlen u - 53))
  | inf => some 0x7FF0000000000000
  | nan => none

/-- the value of a 64-bit pattern with sign bit `0` (`none` for a negative sign) -/
def ofBits (b : Nat) : Option F :=
  if b ≥ 2 ^ 63 then none else
  let ex := b / 2 ^ 52
  let mant := b % 2 ^ 52
  if ex = 0 then some (fin mant)
  else if ex = 2047 then some (if mant = 0 then inf else nan)
  else some (fin ((2 ^ 52 + mant) * 2 ^ (ex - 1)))

/-- the exact natural number denoted, if the value is a finite integer -/
def toNat? : F → Option Nat
  | fin u => if u % 2 ^ UNIT = 0 then some (u / 2 ^ UNIT) else none
  | _ => none

/-! ## IEEE operations: exact result, then `round53` -/

/-- IEEE addition of non-negative operands -/
def add : F → F → F
  | fin a, fin b => roundU (a + b) 0
  | nan, _ => nan
  | _, nan => nan
  | _, _ => inf

/-- IEEE multiplication of non-negative operands (`∞ · 0 = NaN`) -/
def mul : F → F → F
  | fin a, fin b => roundU (a * b) UNIT
  | nan, _ => nan
  | _, nan => nan
  | inf, fin b => if b = 0 then nan else inf
  | fin a, inf => if a = 0 then nan else inf
  | inf, inf => inf

/-- `f64::exp2` on the integral argument `k`: the correctly rounded `2^k` (`+∞` for `k ≥ 1024`,
subnormal for `-1074 ≤ k < -1022`, `0` for `k ≤ -1075`) -/
def exp2 (k : Int) : F :=
  -- the two guards only keep the model executable for huge `|k|` (no `2^(2^31)` is computed);
  -- `exp2_eq_round53` (F64CountLemmasOps) proves that they do not change the value
  if 1024 ≤ k then inf else if k < -1075 then fin 0 else round53 ⟨1, k⟩

/-! ## the number type `F64` of `oxidd_core::util::num` -/

/-- `impl From<u32> for F64`: `value as f64` (exact below `2^53`) -/
def fromU32 (n : Nat) : F := round53 ⟨n, 0⟩

/-- `impl Shl<u32> for F64` -/
def shl (x : F) (k : Nat) : F :=
  if x = fin 0 then x  -- `0 * 2^rhs` would be NaN once `2^rhs` is infinite
  else mul x (exp2 (k : Int))

/-- `impl Shr<u32> for F64` -/
def shr (x : F) (k : Nat) : F := mul x (exp2 (-(k : Int)))

end F

open F

/-! ## `sat_count_edge` over `F64` -/

/-- `-N::MIN_EXP` for `N = F64` -/
def SCALE_EXP : Nat := 1021

/-- the exponent of the terminal value; `strict = false` is the code (`vars >= scale_exp`),
`strict = true` the seeded variant `vars > scale_exp` (kept as a negative witness) -/
def termExp (strict : Bool) (vars : Nat) : Nat :=
  if SCALE_EXP ≠ 0 ∧ (if strict then vars > SCALE_EXP else vars ≥ SCALE_EXP)
  then vars - SCALE_EXP else vars

/-- `terminal_val = N::from(1u32) << …` -/
def termVal (strict : Bool) (vars : Nat) : F := shl (fromU32 1) (termExp strict vars)

/-- `if scale_exp != 0 && vars >= scale_exp { res << scale_exp } else { res }` -/
def scaleUp (vars : Nat) (res : F) : F :=
  if SCALE_EXP ≠ 0 ∧ vars ≥ SCALE_EXP then shl res SCALE_EXP else res

/-- BDD `sat_count_edge::inner` (the count cache memoises this function of the node, it does not
change any value) -/
def bddGo (tv : F) : Bdd.BDD → F
  | .leaf b => if b then tv else fromU32 0
  | .node _ t e => shr (add (bddGo tv t) (bddGo tv e)) 1

/-- BDD `sat_count_edge::<F64>` -/
def bddCountG (strict : Bool) (vars : Nat) (f : Bdd.BDD) : F :=
  scaleUp vars (bddGo (termVal strict vars) f)

def bddCount (vars : Nat) (f : Bdd.BDD) : F := bddCountG false vars f

/-- BCDD `sat_count_edge::inner`: the tag is pushed into the cofactors; the cache key is
(node, tag) -/
def bcddGo (tv : F) : Bool → Bcdd.CNode → F
  | tag, .top => if tag then fromU32 0 else tv
  | tag, .node _ t en e => shr (add (bcddGo tv tag t) (bcddGo tv (tag != en) e)) 1

/-- BCDD `sat_count_edge::<F64>` -/
def bcddCountG (strict : Bool) (vars : Nat) (f : Bcdd.Edge) : F :=
  scaleUp vars (bcddGo (termVal strict vars) f.neg f.n)

def bcddCount (vars : Nat) (f : Bcdd.Edge) : F := bcddCountG false vars f

/-- ZBDD `sat_count_edge::inner`: path counting -/
def zbddGo : Zbdd.ZDD → F
  | .empty => fromU32 0
  | .base => fromU32 1
  | .node _ hi lo => add (zbddGo hi) (zbddGo lo)

/-- ZBDD `sat_count_edge::<F64>` with `n = num_levels` -/
def zbddCount (n vars : Nat) (f : Zbdd.ZDD) : F :=
  if vars ≥ n then shl (zbddGo f) (vars - n) else shr (zbddGo f) (n - vars)

end OxiddModel.Num.F64C
