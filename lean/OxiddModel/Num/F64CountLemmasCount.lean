import OxiddModel.Num.F64CountLemmasTree

/-!
# `sat_count_edge::<F64>` with the scaling, on call trees

`ctCount vars g` is `sat_count_edge` (terminal value, recursion, final scaling) on the call tree
`g`. `ct_master`: for every call tree of height `≤ n ≤ vars ≤ 2043` the result is
`mk (a0 · 2^(vars - n + SCALE_EXP))` (`SCALE_EXP = 1021`) where `a0` — the float value computed for the terminal value
`2^(n+53)` units — does **not depend on `vars`**. `ct_exact`: the exact count if every exact
intermediate count has at most 53 significant bits.
-/
namespace OxiddModel.Num.F64C
open F

def ctCount (vars : Nat) (g : CT) : F := scaleUp vars (ctGo (termVal false vars) g)

theorem scale_exp_eq : SCALE_EXP = 1021 := rfl

theorem termExp_lt {vars : Nat} (h : vars < 1021) : termExp false vars = vars := by
  have hS := scale_exp_eq
  simp only [termExp, Bool.false_eq_true, ↓reduceIte]
  split
  · omega
  · rfl

theorem termExp_ge {vars : Nat} (h : 1021 ≤ vars) : termExp false vars = vars - 1021 := by
  have hS := scale_exp_eq
  simp only [termExp, Bool.false_eq_true, ↓reduceIte]
  split
  · rw [hS]
  · omega

theorem termVal_of_exp {strict : Bool} {vars : Nat} (h : termExp strict vars ≤ 1023) :
    termVal strict vars = fin (2 ^ (termExp strict vars + UNIT)) := by
  have hne : (2 : Nat) ^ UNIT ≠ 0 := by have := Nat.two_pow_pos UNIT; omega
  rw [termVal, fromU32_one, shl_fin hne h, rnd_of_fits (fits_two_pow _), ← Nat.pow_add,
    Nat.add_comm, mk_of_lt]
  exact Nat.pow_lt_pow_right (by omega) (by simp only [OVF, EMAX, UNIT]; omega)

theorem scaleUp_lt {vars : Nat} (h : vars < 1021) (x : F) : scaleUp vars x = x := by
  unfold scaleUp
  have hS := scale_exp_eq
  split
  · rename_i hc; omega
  · rfl

theorem scaleUp_ge {vars a : Nat} (h : 1021 ≤ vars) (hf : Fits a) :
    scaleUp vars (fin a) = mk (a * 2 ^ SCALE_EXP) := by
  unfold scaleUp
  have hS := scale_exp_eq
  rw [if_pos (by omega)]
  by_cases ha : a = 0
  · subst ha; rw [shl_zero, Nat.zero_mul, mk_zero]
  · rw [shl_fin ha (by omega), rnd_of_fits hf]

theorem AllFits.scale {p : Nat} (j : Nat) : ∀ {g : CT}, g.height ≤ p → AllFits p g → AllFits (p + j) g := by
  intro g
  induction g with
  | z => intro _ _; trivial
  | t => intro _ _; trivial
  | n a b iha ihb =>
    intro hh hf
    have hh' := hh
    simp only [CT.height] at hh'
    obtain ⟨f1, f2, f3⟩ := hf
    refine ⟨iha (by omega) f1, ihb (by omega) f2, ?_⟩
    rw [ctX_scale p j _ hh]
    exact fits_mul_pow f3 j

/-- the result as a function of `vars`: a mantissa that depends only on the diagram, times
`2^vars` — across the scaling boundary and up to `vars = 2043` -/
theorem ct_master (n vars : Nat) (g : CT) (hg : g.height ≤ n) (hn : n ≤ vars) (hv : vars ≤ 2043) :
    ∃ a0, Inv (n + 53) g a0 ∧ ctGo (fin (2 ^ (n + 53))) g = fin a0 ∧
      ctCount vars g = mk (a0 * 2 ^ (vars - n + SCALE_EXP)) := by
  obtain ⟨a0, inv, hs⟩ := ctGo_inv (n + 53) g (by omega)
  have h0 := hs 0 (by simp only [OVF, EMAX, UNIT]; omega)
  rw [Nat.add_zero, Nat.pow_zero, Nat.mul_one] at h0
  refine ⟨a0, inv, h0, ?_⟩
  have hS := scale_exp_eq
  by_cases hsc : vars < 1021
  · -- unscaled
    have hT : termExp false vars ≤ 1023 := by rw [termExp_lt hsc]; omega
    have e : termExp false vars + UNIT = n + 53 + (vars - n + SCALE_EXP) := by
      rw [termExp_lt hsc]; simp only [UNIT]; omega
    have hj : n + 53 + (vars - n + SCALE_EXP) + 1 < OVF := by simp only [OVF, EMAX, UNIT]; omega
    rw [ctCount, scaleUp_lt hsc, termVal_of_exp hT, e, hs _ hj, mk_of_lt]
    have h1 : a0 * 2 ^ (vars - n + SCALE_EXP) ≤ 2 ^ (n + 53) * 2 ^ (vars - n + SCALE_EXP) :=
      Nat.mul_le_mul_right _ inv.up
    rw [← Nat.pow_add] at h1
    exact Nat.lt_of_le_of_lt h1 (two_pow_lt_ovf (by simp only [OVF, EMAX, UNIT]; omega))
  · -- scaled
    have hge : 1021 ≤ vars := by omega
    have hT : termExp false vars ≤ 1023 := by rw [termExp_ge hge]; omega
    have e : termExp false vars + UNIT = n + 53 + (vars - n) := by
      rw [termExp_ge hge]; simp only [UNIT]; omega
    have hj : n + 53 + (vars - n) + 1 < OVF := by simp only [OVF, EMAX, UNIT]; omega
    rw [ctCount, termVal_of_exp hT, e, hs _ hj, scaleUp_ge hge (fits_mul_pow inv.fits _),
      Nat.mul_assoc, ← Nat.pow_add]

theorem ct_exact (vars : Nat) (g : CT) (hg : g.height ≤ vars) (hv : vars ≤ 2043)
    (hf : AllFits vars g) : ctCount vars g = mk (ctX vars g * 2 ^ UNIT) := by
  by_cases hsc : vars < 1021
  · have hT : termExp false vars ≤ 1023 := by rw [termExp_lt hsc]; omega
    have hp : vars + UNIT + 1 < OVF := by simp only [OVF, EMAX, UNIT]; omega
    rw [ctCount, scaleUp_lt hsc, termVal_of_exp hT, termExp_lt hsc,
      ctGo_exact (vars + UNIT) hp g (by omega) (hf.scale UNIT hg), ctX_scale vars UNIT g hg, mk_of_lt]
    have := ctX_le (vars + UNIT) g
    rw [ctX_scale vars UNIT g hg] at this
    exact Nat.lt_of_le_of_lt this (two_pow_lt_ovf (by omega))
  · have hge : 1021 ≤ vars := by omega
    have hT : termExp false vars ≤ 1023 := by rw [termExp_ge hge]; omega
    have e : termExp false vars + UNIT = vars + 53 := by
      rw [termExp_ge hge]; simp only [UNIT]; omega
    have hp : vars + 53 + 1 < OVF := by simp only [OVF, EMAX, UNIT]; omega
    have hF := hf.scale 53 hg
    have hroot : Fits (ctX (vars + 53) g) := by
      cases g with
      | z => exact fits_zero
      | t => exact fits_two_pow _
      | n a b => exact hF.2.2
    have e2 : (53 : Nat) + SCALE_EXP = UNIT := by simp only [UNIT, SCALE_EXP]
    rw [ctCount, termVal_of_exp hT, e, ctGo_exact (vars + 53) hp g (by omega) hF,
      scaleUp_ge hge hroot, ctX_scale vars 53 g hg, Nat.mul_assoc, ← Nat.pow_add, e2]

end OxiddModel.Num.F64C
