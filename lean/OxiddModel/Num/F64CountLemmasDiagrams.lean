import OxiddModel.Num.F64CountLemmasCount
import OxiddModel.Bdd.PropertiesC12
import OxiddModel.Bcdd.SatCount
import OxiddModel.Zbdd.Count

/-!
# The three diagram kinds as call trees; ZBDD path counting over `F64`
-/
namespace OxiddModel.Num.F64C
open F

/-! ## BDD -/

def skelB : Bdd.BDD → CT
  | .leaf b => if b then .t else .z
  | .node _ t e => .n (skelB t) (skelB e)

theorem bddGo_skel (tv : F) (f : Bdd.BDD) : bddGo tv f = ctGo tv (skelB f) := by
  induction f with
  | leaf b => cases b <;> simp [bddGo, skelB, ctGo]
  | node l t e iht ihe => simp only [bddGo, skelB, ctGo, iht, ihe]

theorem bddCount_skel (vars : Nat) (f : Bdd.BDD) : bddCount vars f = ctCount vars (skelB f) := by
  simp only [bddCount, bddCountG, ctCount, bddGo_skel]

theorem satCount_skel (vars : Nat) (f : Bdd.BDD) : Bdd.satCount vars f = ctX vars (skelB f) := by
  induction f with
  | leaf b => cases b <;> simp [Bdd.satCount, skelB, ctX]
  | node l t e iht ihe =>
    simp only [Bdd.satCount, skelB, ctX, iht, ihe, Nat.shiftRight_eq_div_pow, Nat.pow_one]

theorem height_skelB {k vars : Nat} {f : Bdd.BDD} (ho : Bdd.BDD.Ordered k f) (hl : Bdd.LevelsLt vars f)
    (hk : k ≤ vars) : (skelB f).height + k ≤ vars := by
  induction ho with
  | leaf => rename_i n b; cases b <;> simp [skelB, CT.height] <;> omega
  | node hnl _ _ iht ihe =>
    have := iht hl.2.1 (by have := hl.1; omega)
    have := ihe hl.2.2 (by have := hl.1; omega)
    simp only [skelB, CT.height]
    omega

/-- every exact intermediate count of the diagram has at most 53 significant bits -/
def BddFits (vars : Nat) : Bdd.BDD → Prop
  | .leaf _ => True
  | .node l t e => BddFits vars t ∧ BddFits vars e ∧ Fits (Bdd.satCount vars (.node l t e))

def BddFits.dec (vars : Nat) : (f : Bdd.BDD) → Decidable (BddFits vars f)
  | .leaf _ => isTrue trivial
  | .node l t e =>
    match BddFits.dec vars t, BddFits.dec vars e with
    | isTrue h1, isTrue h2 =>
      if h3 : Fits (Bdd.satCount vars (.node l t e)) then isTrue ⟨h1, h2, h3⟩
      else isFalse (fun h => h3 h.2.2)
    | isFalse h1, _ => isFalse (fun h => h1 h.1)
    | _, isFalse h2 => isFalse (fun h => h2 h.2.1)

instance (vars : Nat) (f : Bdd.BDD) : Decidable (BddFits vars f) := BddFits.dec vars f

theorem allFits_skelB (vars : Nat) (f : Bdd.BDD) (h : BddFits vars f) : AllFits vars (skelB f) := by
  induction f with
  | leaf b => cases b <;> simp [skelB, AllFits]
  | node l t e iht ihe =>
    refine ⟨iht h.1, ihe h.2.1, ?_⟩
    have := h.2.2
    rw [satCount_skel] at this
    exact this

theorem fits_of_le_pow53 {c : Nat} (h : c ≤ 2 ^ 53) : Fits c := by
  by_cases he : c = 2 ^ 53
  · rw [he]; exact fits_two_pow _
  · exact fits_of_lt (by omega)

/-- with at most 53 variables every count fits -/
theorem bddFits_small {vars : Nat} (hv : vars ≤ 53) (f : Bdd.BDD) : BddFits vars f := by
  induction f with
  | leaf b => trivial
  | node l t e iht ihe =>
    refine ⟨iht, ihe, fits_of_le_pow53 ?_⟩
    rw [satCount_skel]
    exact Nat.le_trans (ctX_le _ _) (Nat.pow_le_pow_right (by omega) hv)

/-! ## BCDD -/

def skelC : Bool → Bcdd.CNode → CT
  | tag, .top => if tag then .z else .t
  | tag, .node _ t en e => .n (skelC tag t) (skelC (tag != en) e)

theorem bcddGo_skel (tv : F) (n : Bcdd.CNode) (tag : Bool) : bcddGo tv tag n = ctGo tv (skelC tag n) := by
  induction n generalizing tag with
  | top => cases tag <;> simp [bcddGo, skelC, ctGo]
  | node l t en e iht ihe => simp only [bcddGo, skelC, ctGo, iht, ihe]

theorem bcddCount_skel (vars : Nat) (f : Bcdd.Edge) :
    bcddCount vars f = ctCount vars (skelC f.neg f.n) := by
  simp only [bcddCount, bcddCountG, ctCount, bcddGo_skel]

theorem satCountGo_skel (vars : Nat) (n : Bcdd.CNode) (tag : Bool) :
    Bcdd.satCountGo vars tag n = ctX vars (skelC tag n) := by
  induction n generalizing tag with
  | top => cases tag <;> simp [Bcdd.satCountGo, skelC, ctX]
  | node l t en e iht ihe =>
    simp only [Bcdd.satCountGo, skelC, ctX, iht, ihe, Nat.shiftRight_eq_div_pow, Nat.pow_one]

theorem height_skelC {k N : Nat} {n : Bcdd.CNode} (ho : Bcdd.CNode.Ordered k n) (hb : Bcdd.Below N n)
    (hk : k ≤ N) (tag : Bool) : (skelC tag n).height + k ≤ N := by
  induction ho generalizing tag with
  | top => cases tag <;> simp [skelC, CT.height] <;> omega
  | @node n' l t e en hnl _ _ iht ihe =>
    have := iht hb.2.1 (by have := hb.1; omega) tag
    have := ihe hb.2.2 (by have := hb.1; omega) (tag != en)
    simp only [skelC, CT.height]
    omega

def BcddFits (vars : Nat) : Bool → Bcdd.CNode → Prop
  | _, .top => True
  | tag, .node l t en e => BcddFits vars tag t ∧ BcddFits vars (tag != en) e ∧
      Fits (Bcdd.satCountGo vars tag (.node l t en e))

theorem allFits_skelC (vars : Nat) (n : Bcdd.CNode) (tag : Bool) (h : BcddFits vars tag n) :
    AllFits vars (skelC tag n) := by
  induction n generalizing tag with
  | top => cases tag <;> simp [skelC, AllFits]
  | node l t en e iht ihe =>
    refine ⟨iht tag h.1, ihe _ h.2.1, ?_⟩
    have := h.2.2
    rw [satCountGo_skel] at this
    exact this

theorem bcddFits_small {vars : Nat} (hv : vars ≤ 53) (n : Bcdd.CNode) (tag : Bool) :
    BcddFits vars tag n := by
  induction n generalizing tag with
  | top => trivial
  | node l t en e iht ihe =>
    refine ⟨iht tag, ihe _, fits_of_le_pow53 ?_⟩
    rw [satCountGo_skel]
    exact Nat.le_trans (ctX_le _ _) (Nat.pow_le_pow_right (by omega) hv)

/-! ## ZBDD: path counting, no halving, no scaling -/

def ZFits : Zbdd.ZDD → Prop
  | .node l hi lo => ZFits hi ∧ ZFits lo ∧ Fits (Zbdd.pathCount (.node l hi lo))
  | _ => True

def ZFits.dec : (f : Zbdd.ZDD) → Decidable (ZFits f)
  | .empty => isTrue trivial
  | .base => isTrue trivial
  | .node l hi lo =>
    match ZFits.dec hi, ZFits.dec lo with
    | isTrue h1, isTrue h2 =>
      if h3 : Fits (Zbdd.pathCount (.node l hi lo)) then isTrue ⟨h1, h2, h3⟩
      else isFalse (fun h => h3 h.2.2)
    | isFalse h1, _ => isFalse (fun h => h1 h.1)
    | _, isFalse h2 => isFalse (fun h => h2 h.2.1)

instance (f : Zbdd.ZDD) : Decidable (ZFits f) := ZFits.dec f

theorem two_pow_1024_units : 2 ^ EMAX * 2 ^ UNIT = 2 ^ OVF := by
  unfold OVF
  exact (Nat.pow_add 2 EMAX UNIT).symm

theorem emax_eq : EMAX = 1024 := rfl

theorem zbddGo_exact (f : Zbdd.ZDD) (hf : ZFits f) (hlt : Zbdd.pathCount f < 2 ^ EMAX) :
    zbddGo f = fin (Zbdd.pathCount f * 2 ^ UNIT) := by
  induction f with
  | empty => simp only [zbddGo, Zbdd.pathCount, fromU32_zero, Nat.zero_mul]
  | base => simp only [zbddGo, Zbdd.pathCount, fromU32_one, Nat.one_mul]
  | node l hi lo ih1 ih2 =>
    simp only [Zbdd.pathCount] at hlt
    obtain ⟨f1, f2, f3⟩ := hf
    simp only [zbddGo, ih1 f1 (by omega), ih2 f2 (by omega), add_fin, Zbdd.pathCount]
    simp only [Zbdd.pathCount] at f3
    rw [← Nat.add_mul, rnd_mul_pow, rnd_of_fits f3, mk_of_lt]
    rw [← two_pow_1024_units]
    exact Nat.mul_lt_mul_of_pos_right hlt (Nat.two_pow_pos _)

theorem zbddCount_exact (n vars : Nat) (f : Zbdd.ZDD) (hv : n ≤ vars) (hf : ZFits f)
    (hlt : Zbdd.pathCount f < 2 ^ EMAX) :
    zbddCount n vars f = mk (Zbdd.satCount n vars f * 2 ^ UNIT) := by
  have hroot : Fits (Zbdd.pathCount f) := by
    cases f with
    | empty => exact fits_zero
    | base => exact fits_of_lt (by simp [Zbdd.pathCount])
    | node l hi lo => exact hf.2.2
  have hge : vars ≥ n := hv
  simp only [zbddCount, Zbdd.satCount, hge, if_true, zbddGo_exact f hf hlt, Nat.shiftLeft_eq]
  generalize Zbdd.pathCount f = c at *
  generalize vars - n = k
  by_cases hc : c = 0
  · subst hc; simp only [Nat.zero_mul, shl_zero, mk_zero]
  · have hne : c * 2 ^ UNIT ≠ 0 := by
      have := Nat.two_pow_pos UNIT
      exact Nat.mul_ne_zero hc (by omega)
    by_cases hk : k ≤ 1023
    · rw [shl_fin hne hk, rnd_of_fits (fits_mul_pow hroot _), Nat.mul_assoc, Nat.mul_assoc,
        Nat.mul_comm (2 ^ UNIT)]
    · rw [shl_big hne (by omega), mk_of_ge]
      rw [← two_pow_1024_units]
      apply Nat.mul_le_mul_right
      calc 2 ^ EMAX ≤ 2 ^ k := Nat.pow_le_pow_right (by omega) (by have := emax_eq; omega)
        _ ≤ c * 2 ^ k := Nat.le_mul_of_pos_left _ (by omega)

end OxiddModel.Num.F64C
