import OxiddModel.Num.F64CountLemmasTree

/-!
# From the multiplicative error bound to a linear one

`Within d a c` (`(1-2^-53)^d ≤ a/c ≤ (1+2^-53)^d`) implies `|a - c| ≤ d · 2^-52 · c` for
`d ≤ 2^52` (Bernoulli's inequality, in integer form).
-/
namespace OxiddModel.Num.F64C

theorem eb_eq : EB = 9007199254740992 := by simp only [EB]

/-- `(1 + u)^d (1 - d u) ≤ 1` with `u = 1/EB` -/
theorem bernoulli_up (d : Nat) (hd : d ≤ EB) : (EB + 1) ^ d * (EB - d) ≤ EB ^ (d + 1) := by
  induction d with
  | zero => simp
  | succ d ih =>
    have ih' := ih (by omega)
    have key : (EB + 1) * (EB - (d + 1)) ≤ (EB - d) * EB := by
      have h := eb_eq
      rw [h] at hd ⊢
      omega
    calc (EB + 1) ^ (d + 1) * (EB - (d + 1))
        = (EB + 1) ^ d * ((EB + 1) * (EB - (d + 1))) := by rw [Nat.pow_succ, Nat.mul_assoc]
      _ ≤ (EB + 1) ^ d * ((EB - d) * EB) := Nat.mul_le_mul_left _ key
      _ = (EB + 1) ^ d * (EB - d) * EB := by rw [Nat.mul_assoc]
      _ ≤ EB ^ (d + 1) * EB := Nat.mul_le_mul_right _ ih'
      _ = EB ^ (d + 1 + 1) := by rw [← Nat.pow_succ]

/-- `1 - d u ≤ (1 - u)^d` -/
theorem bernoulli_down (d : Nat) (hd : d ≤ EB) : EB ^ d * (EB - d) ≤ (EB - 1) ^ d * EB := by
  induction d with
  | zero => simp
  | succ d ih =>
    have ih' := ih (by omega)
    have key : EB * (EB - (d + 1)) ≤ (EB - 1) * (EB - d) := by
      have h := eb_eq
      rw [h] at hd ⊢
      omega
    calc EB ^ (d + 1) * (EB - (d + 1))
        = EB ^ d * (EB * (EB - (d + 1))) := by rw [Nat.pow_succ, Nat.mul_assoc]
      _ ≤ EB ^ d * ((EB - 1) * (EB - d)) := Nat.mul_le_mul_left _ key
      _ = (EB - 1) * (EB ^ d * (EB - d)) := by
          rw [← Nat.mul_assoc, Nat.mul_comm (EB ^ d) (EB - 1), Nat.mul_assoc]
      _ ≤ (EB - 1) * ((EB - 1) ^ d * EB) := Nat.mul_le_mul_left _ ih'
      _ = (EB - 1) ^ (d + 1) * EB := by
          rw [← Nat.mul_assoc, Nat.mul_comm (EB - 1) ((EB - 1) ^ d), ← Nat.pow_succ]

/-- relative error at most `d · 2^-52` -/
theorem Within.linear {d a c : Nat} (h : Within d a c) (hd : d ≤ 2 ^ 52) :
    (a - c) * 2 ^ 52 ≤ c * d ∧ (c - a) * 2 ^ 52 ≤ c * d := by
  obtain ⟨h1, h2⟩ := h
  have hE := eb_eq
  have hdE : d ≤ EB := by rw [hE]; omega
  have hpos : 0 < EB ^ d := Nat.pow_pos (by rw [hE]; omega)
  generalize hK : EB - d = K at *
  have hKd : K + d = EB := by omega
  have hK52 : 2 ^ 52 ≤ K := by rw [hE] at hKd; omega
  -- a * K ≤ c * EB
  have up : a * K ≤ c * EB := by
    have b := bernoulli_up d hdE
    rw [hK] at b
    have : a * K * EB ^ d ≤ c * EB * EB ^ d :=
      calc a * K * EB ^ d = a * EB ^ d * K := by rw [Nat.mul_assoc, Nat.mul_comm K, ← Nat.mul_assoc]
        _ ≤ c * (EB + 1) ^ d * K := Nat.mul_le_mul_right _ h2
        _ = c * ((EB + 1) ^ d * K) := Nat.mul_assoc _ _ _
        _ ≤ c * EB ^ (d + 1) := Nat.mul_le_mul_left _ b
        _ = c * EB * EB ^ d := by rw [Nat.pow_succ, Nat.mul_comm (EB ^ d) EB, Nat.mul_assoc]
    exact Nat.le_of_mul_le_mul_right this hpos
  -- c * K ≤ a * EB
  have down : c * K ≤ a * EB := by
    have b := bernoulli_down d hdE
    rw [hK] at b
    have : c * K * EB ^ d ≤ a * EB * EB ^ d :=
      calc c * K * EB ^ d = c * (EB ^ d * K) := by rw [Nat.mul_assoc, Nat.mul_comm K]
        _ ≤ c * ((EB - 1) ^ d * EB) := Nat.mul_le_mul_left _ b
        _ = c * (EB - 1) ^ d * EB := by rw [Nat.mul_assoc]
        _ ≤ a * EB ^ d * EB := Nat.mul_le_mul_right _ h1
        _ = a * EB * EB ^ d := by rw [Nat.mul_assoc, Nat.mul_comm (EB ^ d) EB, ← Nat.mul_assoc]
    exact Nat.le_of_mul_le_mul_right this hpos
  rw [← hKd, Nat.mul_add] at up down
  constructor
  · calc (a - c) * 2 ^ 52 ≤ (a - c) * K := Nat.mul_le_mul_left _ hK52
      _ = a * K - c * K := Nat.sub_mul _ _ _
      _ ≤ c * d := by omega
  · by_cases hac : c ≤ a
    · have : c - a = 0 := by omega
      rw [this, Nat.zero_mul]; exact Nat.zero_le _
    · have had : a * d ≤ c * d := Nat.mul_le_mul_right _ (by omega)
      calc (c - a) * 2 ^ 52 ≤ (c - a) * K := Nat.mul_le_mul_left _ hK52
        _ = c * K - a * K := Nat.sub_mul _ _ _
        _ ≤ c * d := by omega

end OxiddModel.Num.F64C
