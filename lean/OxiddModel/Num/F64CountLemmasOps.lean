import OxiddModel.Num.F64CountLemmasRound

/-!
# The operations of `F64` on the dyadic model: closed forms

`fromU32`, `exp2` (with the proof that the two guards in its definition do not change its value),
`add`, `shl`, `shr 1` in terms of `mk`/`rnd` on units.
-/
namespace OxiddModel.Num.F64C
open F

theorem round53_nonneg (m : Nat) (k : Nat) : round53 ⟨m, (k : Int)⟩ = mk (rnd (m * 2 ^ (k + UNIT))) := by
  have h : (-1074 : Int) ≤ (k : Int) := by omega
  have e : ((k : Int) + 1074).toNat = k + UNIT := by simp only [UNIT]; omega
  simp only [round53, h, if_true, e, roundU_zero_t]

theorem fromU32_eq (n : Nat) : fromU32 n = mk (rnd (n * 2 ^ UNIT)) := by
  have := round53_nonneg n 0
  simpa [fromU32] using this

theorem fromU32_zero : fromU32 0 = fin 0 := by
  rw [fromU32_eq, Nat.zero_mul, rnd_zero, mk_zero]

theorem two_pow_unit_lt : 2 ^ UNIT < 2 ^ OVF :=
  Nat.pow_lt_pow_right (by omega) (by simp only [OVF, EMAX]; omega)

theorem fromU32_one : fromU32 1 = fin (2 ^ UNIT) := by
  rw [fromU32_eq, Nat.one_mul, rnd_of_fits (fits_two_pow _), mk_of_lt two_pow_unit_lt]

/-- `exp2` of a non-negative integer below 1024: the exact power of two -/
theorem exp2_nat {k : Nat} (h : k ≤ 1023) : exp2 (k : Int) = fin (2 ^ (k + UNIT)) := by
  have h1 : ¬ (1024 : Int) ≤ (k : Int) := by omega
  have h2 : ¬ (k : Int) < -1075 := by omega
  simp only [exp2, h1, h2, if_false]
  rw [round53_nonneg, Nat.one_mul, rnd_of_fits (fits_two_pow _), mk_of_lt]
  exact Nat.pow_lt_pow_right (by omega) (by simp only [OVF, EMAX, UNIT]; omega)

theorem exp2_big {k : Nat} (h : 1024 ≤ k) : exp2 (k : Int) = inf := by
  have h1 : (1024 : Int) ≤ (k : Int) := by omega
  simp only [exp2, h1, if_true]

theorem exp2_neg_one : exp2 (-1) = fin (2 ^ (UNIT - 1)) := by
  have h1 : ¬ (1024 : Int) ≤ -1 := by omega
  have h2 : ¬ (-1 : Int) < -1075 := by omega
  have h3 : (-1074 : Int) ≤ -1 := by omega
  have e : ((-1 : Int) + 1074).toNat = UNIT - 1 := by simp only [UNIT]; omega
  simp only [exp2, h1, h2, if_false, round53, h3, if_true, e, roundU_zero_t, Nat.one_mul]
  rw [rnd_of_fits (fits_two_pow _), mk_of_lt]
  exact Nat.pow_lt_pow_right (by omega) (by simp only [OVF, EMAX, UNIT]; omega)

/-- the guards in the definition of `exp2` are only there to keep the model executable: `exp2 k`
is the correctly rounded `2^k` for every integer `k` -/
theorem exp2_eq_round53 (k : Int) : exp2 k = round53 ⟨1, k⟩ := by
  unfold exp2
  split
  · rename_i h
    obtain ⟨n, rfl⟩ : ∃ n : Nat, k = (n : Int) := ⟨k.toNat, by omega⟩
    rw [round53_nonneg, Nat.one_mul, rnd_of_fits (fits_two_pow _), mk_of_ge]
    exact Nat.pow_le_pow_right (by omega) (by simp only [OVF, EMAX, UNIT]; omega)
  · split
    · rename_i h1 h2
      have h3 : ¬ (-1074 : Int) ≤ k := by omega
      simp only [round53, h3, if_false]
      generalize ht : (-1074 - k).toNat = t
      have ht2 : 2 ≤ t := by omega
      have hb : bitlen 1 = 1 := bitlen_two_pow 0
      have hmax : max t (bitlen 1 - 53) = t := by rw [hb]; simp
      simp only [roundU, hmax, Nat.sub_self, Nat.pow_zero, Nat.mul_one]
      have h4 : 4 ≤ 2 ^ t := by
        have := Nat.pow_le_pow_right (n := 2) (by omega) ht2
        simpa using this
      have hq : 1 / 2 ^ t = 0 := Nat.div_eq_of_lt (by omega)
      have hr : 1 % 2 ^ t = 1 := Nat.mod_eq_of_lt (by omega)
      have : rne 1 t = 0 := by
        simp only [rne, hq, hr]
        rw [if_neg]
        omega
      rw [this, mk_zero]
    · rfl

theorem add_fin (a b : Nat) : add (fin a) (fin b) = mk (rnd (a + b)) := by
  simp only [add, roundU_zero_t]

theorem mul_fin (a b : Nat) : mul (fin a) (fin b) = roundU (a * b) UNIT := rfl

theorem shl_zero (k : Nat) : shl (fin 0) k = fin 0 := by simp [shl]

/-- a left shift by at most 1023 positions multiplies by `2^k` (rounding only if the result leaves
the 53-bit range of `a`, which it does not for a representable `a`; overflow to `+∞` by `mk`) -/
theorem shl_fin {a k : Nat} (ha : a ≠ 0) (hk : k ≤ 1023) : shl (fin a) k = mk (rnd a * 2 ^ k) := by
  have hne : fin a ≠ fin 0 := by intro h; cases h; exact ha rfl
  simp only [shl, hne, if_false]
  rw [exp2_nat hk, mul_fin, Nat.pow_add, ← Nat.mul_assoc, roundU_units, rnd_mul_pow]

/-- from 1024 positions on the factor `2^k` is `+∞` -/
theorem shl_big {a k : Nat} (ha : a ≠ 0) (hk : 1024 ≤ k) : shl (fin a) k = inf := by
  have hne : fin a ≠ fin 0 := by intro h; cases h; exact ha rfl
  simp only [shl, hne, if_false]
  rw [exp2_big hk]
  simp only [mul, ha, if_false]

/-- halving an even number of units: only the rounding of the half remains -/
theorem shr_one_double (b : Nat) : shr (fin (2 * b)) 1 = mk (rnd b) := by
  show mul (fin (2 * b)) (exp2 (-1)) = _
  rw [exp2_neg_one, mul_fin]
  have hU : UNIT = (UNIT - 1) + 1 := by simp only [UNIT]
  have e2 : 2 * b * 2 ^ (UNIT - 1) = b * 2 ^ UNIT :=
    calc 2 * b * 2 ^ (UNIT - 1) = b * (2 ^ (UNIT - 1) * 2) := by
          rw [Nat.mul_comm 2 b, Nat.mul_assoc, Nat.mul_comm 2]
      _ = b * 2 ^ ((UNIT - 1) + 1) := by rw [Nat.pow_succ]
      _ = b * 2 ^ UNIT := by rw [← hU]
  rw [e2, roundU_units]

end OxiddModel.Num.F64C
