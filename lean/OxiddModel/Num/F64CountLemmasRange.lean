import OxiddModel.Num.F64CountLemmasDiagrams

/-!
# Beyond the range of the scaling trick: `vars ≥ 2045`

From `vars = 2045 = 1021 + 1024` on the scaled terminal value `2^(vars-1021)` is itself `+∞`, and
`sat_count::<F64>` of the BDD and BCDD rules returns `+∞` for every call tree that reaches the
terminal value at all — whatever the count.
-/
set_option linter.unusedSimpArgs false

namespace OxiddModel.Num.F64C
open F

namespace CT
/-- the call tree returns the terminal value somewhere -/
def sat : CT → Bool
  | z => false
  | t => true
  | n a b => a.sat || b.sat
end CT

theorem shr_inf_one : shr inf 1 = inf := by
  show mul inf (exp2 (-1)) = inf
  rw [exp2_neg_one]
  have : (2 : Nat) ^ (UNIT - 1) ≠ 0 := by have := Nat.two_pow_pos (UNIT - 1); omega
  simp only [mul, this, if_false]

theorem shr_zero_one : shr (fin 0) 1 = fin 0 := by
  have := shr_one_double 0
  rwa [Nat.mul_zero, rnd_zero, mk_zero] at this

theorem ctGo_inf (g : CT) : ctGo inf g = if g.sat then inf else fin 0 := by
  induction g with
  | z => simp only [ctGo, CT.sat, fromU32_zero]; rfl
  | t => simp only [ctGo, CT.sat]; rfl
  | n a b iha ihb =>
    simp only [ctGo, CT.sat, iha, ihb, Bool.or_eq_true]
    by_cases ha : a.sat = true <;> by_cases hb : b.sat = true <;>
      simp only [ha, hb, Bool.false_eq_true, ↓reduceIte, or_self, or_false, false_or]
    · exact shr_inf_one
    · exact shr_inf_one
    · exact shr_inf_one
    · rw [add_fin, Nat.add_zero, rnd_zero, mk_zero, shr_zero_one]

theorem ct_beyond_range (vars : Nat) (hv : 2045 ≤ vars) (g : CT) :
    ctCount vars g = if g.sat then inf else fin 0 := by
  have hge : 1021 ≤ vars := by omega
  have hne : (2 : Nat) ^ UNIT ≠ 0 := by have := Nat.two_pow_pos UNIT; omega
  have htv : termVal false vars = inf := by
    rw [termVal, fromU32_one, termExp_ge hge, shl_big hne (by omega)]
  have hS := scale_exp_eq
  rw [ctCount, htv, ctGo_inf]
  unfold scaleUp
  rw [if_pos (by omega)]
  by_cases hg : g.sat = true
  case neg => simp only [hg, Bool.false_eq_true, ↓reduceIte, shl_zero]
  case pos =>
    simp only [hg, ↓reduceIte]
    have h1 : inf ≠ fin 0 := by intro h; cases h
    simp only [shl, h1, if_false]
    rw [exp2_nat (by omega)]
    have : (2 : Nat) ^ (SCALE_EXP + UNIT) ≠ 0 := by have := Nat.two_pow_pos (SCALE_EXP + UNIT); omega
    simp only [mul, this, if_false]

theorem skelB_sat {f : Bdd.BDD} (hr : Bdd.BDD.Reduced f) (hne : f ≠ .leaf false) :
    (skelB f).sat = true := by
  induction f with
  | leaf b => cases b <;> simp_all [skelB, CT.sat]
  | node l t e iht ihe =>
    simp only [skelB, CT.sat, Bool.or_eq_true]
    obtain ⟨hte, hrt, hre⟩ := hr
    by_cases ht : t = .leaf false
    · right
      exact ihe hre (by intro he; exact hte (ht.trans he.symm))
    · left; exact iht hrt ht

/-- the conjunction of the `m` variables `k, …, k+m-1` -/
def andChain : Nat → Nat → Bdd.BDD
  | _, 0 => .leaf true
  | k, m + 1 => .node k (andChain (k + 1) m) (.leaf false)

theorem andChain_ne_false (k m : Nat) : andChain k m ≠ .leaf false := by
  cases m <;> simp [andChain]

theorem andChain_reduced (k m : Nat) : Bdd.BDD.Reduced (andChain k m) := by
  induction m generalizing k with
  | zero => simp [andChain, Bdd.BDD.Reduced]
  | succ m ih => exact ⟨andChain_ne_false _ _, ih _, by simp [Bdd.BDD.Reduced]⟩

theorem andChain_ordered (k m : Nat) : Bdd.BDD.Ordered k (andChain k m) := by
  induction m generalizing k with
  | zero => exact .leaf
  | succ m ih => exact .node (Nat.le_refl _) (ih _) .leaf

theorem satCount_andChain (vars k m : Nat) (h : m ≤ vars) :
    Bdd.satCount vars (andChain k m) = 2 ^ (vars - m) := by
  induction m generalizing k with
  | zero => simp [andChain, Bdd.satCount]
  | succ m ih =>
    simp only [andChain, Bdd.satCount, ih (k + 1) (by omega), Bool.false_eq_true, if_false,
      Nat.add_zero, Nat.shiftRight_eq_div_pow, Nat.pow_one]
    have e : vars - m = (vars - (m + 1)) + 1 := by omega
    rw [e, Nat.pow_succ, Nat.mul_div_cancel _ (by omega)]

end OxiddModel.Num.F64C
