import OxiddModel.Num.F64Count

/-!
# Rounding lemmas for the dyadic model of binary64 (`F64Count.lean`)

`bitlen`, `rne` (round to nearest even of `m / 2^s`), `rnd` (round an integer number of units to 53
significant bits) and `roundU`: value invariance (`roundU (m·2^j) (t+j) = roundU m t`), exactness on
representable values, commutation with powers of two, the half-ulp error bound, monotonicity at
powers of two.
-/
namespace OxiddModel.Num.F64C

/-! ## `bitlen` -/

theorem bitlen_zero : bitlen 0 = 0 := by simp [bitlen]

theorem bitlen_pos {m : Nat} (h : m ≠ 0) : bitlen m = m.log2 + 1 := by simp [bitlen, h]

theorem lt_two_pow_bitlen (m : Nat) : m < 2 ^ bitlen m := by
  by_cases h : m = 0
  · subst h; simp [bitlen]
  · rw [bitlen_pos h]; exact Nat.lt_log2_self

theorem two_pow_bitlen_le {m : Nat} (h : m ≠ 0) : 2 ^ (bitlen m - 1) ≤ m := by
  rw [bitlen_pos h]; exact Nat.log2_self_le h

theorem bitlen_unique {m L : Nat} (h1 : 2 ^ L ≤ m) (h2 : m < 2 ^ (L + 1)) : bitlen m = L + 1 := by
  have hm : m ≠ 0 := by
    have := Nat.two_pow_pos L
    omega
  rw [bitlen_pos hm, (Nat.log2_eq_iff hm).mpr ⟨h1, h2⟩]

theorem bitlen_ne_zero {m : Nat} (h : m ≠ 0) : bitlen m ≠ 0 := by rw [bitlen_pos h]; omega

theorem bitlen_le {m k : Nat} (h : m < 2 ^ k) : bitlen m ≤ k := by
  by_cases hm : m = 0
  · subst hm; simp [bitlen]
  · rw [bitlen_pos hm]
    have := (Nat.log2_lt hm).mpr h
    omega

theorem le_bitlen {m k : Nat} (h : 2 ^ k ≤ m) : k + 1 ≤ bitlen m := by
  have hm : m ≠ 0 := by
    have := Nat.two_pow_pos k
    omega
  rw [bitlen_pos hm]
  have := (Nat.le_log2 hm).mpr h
  omega

theorem bitlen_two_pow (k : Nat) : bitlen (2 ^ k) = k + 1 :=
  bitlen_unique (Nat.le_refl _) (Nat.pow_lt_pow_right (by omega) (by omega))

theorem bitlen_mul_pow {m : Nat} (h : m ≠ 0) (j : Nat) : bitlen (m * 2 ^ j) = bitlen m + j := by
  have h1 := two_pow_bitlen_le h
  have h2 := lt_two_pow_bitlen m
  have hb := bitlen_ne_zero h
  have e : bitlen m + j = (bitlen m - 1 + j) + 1 := by omega
  rw [e]
  apply bitlen_unique
  · rw [Nat.pow_add]; exact Nat.mul_le_mul_right _ h1
  · have : bitlen m - 1 + j + 1 = bitlen m + j := by omega
    rw [this, Nat.pow_add]
    exact Nat.mul_lt_mul_of_pos_right h2 (Nat.two_pow_pos j)

/-! ## `rne` -/

theorem rne_zero_left (s : Nat) : rne 0 s = 0 := by
  have := Nat.two_pow_pos s
  simp only [rne, Nat.zero_div, Nat.zero_mod, Nat.mul_zero, Nat.zero_mod]
  rw [if_neg]
  omega

theorem rne_zero_right (m : Nat) : rne m 0 = m := by
  simp only [rne, Nat.pow_zero, Nat.div_one, Nat.mod_one, Nat.mul_zero]
  rw [if_neg]
  omega

theorem rne_exact {m s : Nat} (h : m % 2 ^ s = 0) : rne m s = m / 2 ^ s := by
  have := Nat.two_pow_pos s
  simp only [rne, h, Nat.mul_zero]
  rw [if_neg]
  omega

/-- value invariance: rounding `m·2^j / 2^(s+j)` is rounding `m / 2^s` -/
theorem rne_mul_pow (m s j : Nat) : rne (m * 2 ^ j) (s + j) = rne m s := by
  have hK := Nat.two_pow_pos j
  have e1 : m * 2 ^ j / 2 ^ (s + j) = m / 2 ^ s := by
    rw [Nat.pow_add]; exact Nat.mul_div_mul_right _ _ hK
  have e2 : m * 2 ^ j % 2 ^ (s + j) = m % 2 ^ s * 2 ^ j := by
    rw [Nat.pow_add]; exact Nat.mul_mod_mul_right _ _ _
  simp only [rne, e1, e2]
  have c1 : (2 ^ (s + j) < 2 * (m % 2 ^ s * 2 ^ j)) ↔ (2 ^ s < 2 * (m % 2 ^ s)) := by
    rw [Nat.pow_add, ← Nat.mul_assoc]
    exact Nat.mul_lt_mul_right hK
  have c2 : (2 * (m % 2 ^ s * 2 ^ j) = 2 ^ (s + j)) ↔ (2 * (m % 2 ^ s) = 2 ^ s) := by
    rw [Nat.pow_add, ← Nat.mul_assoc]
    exact Nat.mul_right_cancel_iff hK
  simp only [c1, c2]

theorem rne_mul_pow_self (m s : Nat) : rne (m * 2 ^ s) s = m := by
  have := rne_mul_pow m 0 s
  rw [Nat.zero_add] at this
  rw [this, rne_zero_right]

/-- the two cases of `rne`, with the Euclidean decomposition -/
theorem rne_cases (m s : Nat) :
    (rne m s = m / 2 ^ s ∧ 2 * (m % 2 ^ s) ≤ 2 ^ s) ∨
    (rne m s = m / 2 ^ s + 1 ∧ 2 ^ s ≤ 2 * (m % 2 ^ s)) := by
  simp only [rne]
  split
  · rename_i h; right; exact ⟨rfl, by omega⟩
  · rename_i h; left; exact ⟨rfl, by omega⟩

/-- half-ulp error bound: `|rne m s · 2^s − m| ≤ 2^s / 2` -/
theorem rne_err (m s : Nat) :
    2 * (rne m s * 2 ^ s) ≤ 2 * m + 2 ^ s ∧ 2 * m ≤ 2 * (rne m s * 2 ^ s) + 2 ^ s := by
  have hd := Nat.div_add_mod m (2 ^ s)
  have hr := Nat.mod_lt m (Nat.two_pow_pos s)
  rw [Nat.mul_comm] at hd
  rcases rne_cases m s with ⟨h, hc⟩ | ⟨h, hc⟩
  · rw [h]; omega
  · rw [h, Nat.add_mul, Nat.one_mul]; omega

theorem div_le_rne (m s : Nat) : m / 2 ^ s ≤ rne m s := by
  rcases rne_cases m s with ⟨h, _⟩ | ⟨h, _⟩ <;> omega

theorem rne_le_div_succ (m s : Nat) : rne m s ≤ m / 2 ^ s + 1 := by
  rcases rne_cases m s with ⟨h, _⟩ | ⟨h, _⟩ <;> omega

/-- monotone at powers of two (from below) -/
theorem pow_le_rne {m s k : Nat} (hk : s ≤ k) (h : 2 ^ k ≤ m) : 2 ^ (k - s) ≤ rne m s := by
  have h1 : 2 ^ k / 2 ^ s ≤ m / 2 ^ s := Nat.div_le_div_right h
  rw [Nat.pow_div hk (by omega)] at h1
  exact Nat.le_trans h1 (div_le_rne m s)

/-- monotone at powers of two (from above) -/
theorem rne_le_pow {m s k : Nat} (hk : s ≤ k) (h : m ≤ 2 ^ k) : rne m s ≤ 2 ^ (k - s) := by
  have hP := Nat.two_pow_pos s
  have e : 2 ^ k = 2 ^ (k - s) * 2 ^ s := by rw [← Nat.pow_add]; congr 1; omega
  by_cases hm : m = 2 ^ k
  · rw [hm, e, rne_mul_pow_self]; exact Nat.le_refl _
  · have hlt : m < 2 ^ (k - s) * 2 ^ s := by omega
    have : m / 2 ^ s < 2 ^ (k - s) := (Nat.div_lt_iff_lt_mul hP).mpr hlt
    have := rne_le_div_succ m s
    omega

/-! ## `Fits` and `rnd` -/

/-- at most 53 significant bits -/
def Fits (u : Nat) : Prop := u % 2 ^ (bitlen u - 53) = 0

instance (u : Nat) : Decidable (Fits u) := by unfold Fits; infer_instance

theorem fits_of_lt {u : Nat} (h : u < 2 ^ 53) : Fits u := by
  have := bitlen_le h
  have e : bitlen u - 53 = 0 := by omega
  simp [Fits, e, Nat.mod_one]

theorem fits_zero : Fits 0 := fits_of_lt (by omega)

theorem fits_two_pow (k : Nat) : Fits (2 ^ k) := by
  unfold Fits
  rw [bitlen_two_pow]
  exact Nat.mod_eq_zero_of_dvd (Nat.pow_dvd_pow 2 (by omega))

theorem fits_mul_pow {u : Nat} (h : Fits u) (j : Nat) : Fits (u * 2 ^ j) := by
  by_cases hu : u = 0
  · subst hu; simpa using fits_zero
  unfold Fits at *
  rw [bitlen_mul_pow hu]
  by_cases hL : 53 ≤ bitlen u
  · have e : bitlen u + j - 53 = (bitlen u - 53) + j := by omega
    rw [e, Nat.pow_add, Nat.mul_mod_mul_right, h, Nat.zero_mul]
  · have hle : bitlen u + j - 53 ≤ j := by omega
    apply Nat.mod_eq_zero_of_dvd
    exact Nat.dvd_trans (Nat.pow_dvd_pow 2 hle) (Nat.dvd_mul_left _ _)

theorem rnd_of_fits {u : Nat} (h : Fits u) : rnd u = u := by
  unfold rnd
  rw [rne_exact h]
  exact Nat.div_mul_cancel (Nat.dvd_of_mod_eq_zero h)

theorem rnd_zero : rnd 0 = 0 := rnd_of_fits fits_zero

/-- rounding commutes with multiplication by a power of two (there is no lower exponent bound
above the unit: subnormal rounding is rounding to integer units, which `rnd` never needs) -/
theorem rnd_mul_pow (u j : Nat) : rnd (u * 2 ^ j) = rnd u * 2 ^ j := by
  by_cases hu : u = 0
  · subst hu; simp [rnd_zero]
  by_cases hL : 53 ≤ bitlen u
  · unfold rnd
    rw [bitlen_mul_pow hu]
    have e : bitlen u + j - 53 = (bitlen u - 53) + j := by omega
    rw [e, rne_mul_pow, Nat.pow_add, Nat.mul_assoc]
  · have hf : Fits u := by
      have e : bitlen u - 53 = 0 := by omega
      simp [Fits, e, Nat.mod_one]
    rw [rnd_of_fits (fits_mul_pow hf j), rnd_of_fits hf]

/-- the rounded value is representable -/
theorem fits_rnd (u : Nat) : Fits (rnd u) := by
  by_cases hL : bitlen u ≤ 53
  · have hf : Fits u := by
      have e : bitlen u - 53 = 0 := by omega
      simp [Fits, e, Nat.mod_one]
    rw [rnd_of_fits hf]; exact hf
  · have hu : u ≠ 0 := by
      intro h; subst h; simp [bitlen] at hL
    have h1 := two_pow_bitlen_le hu
    have h2 := lt_two_pow_bitlen u
    generalize hs : bitlen u - 53 = s at *
    have hLs : bitlen u = s + 53 := by omega
    have e1 : bitlen u - 1 = s + 52 := by omega
    rw [e1] at h1
    rw [hLs] at h2
    -- 2^52 ≤ rne u s ≤ 2^53
    have lo : 2 ^ 52 ≤ rne u s := by
      have := pow_le_rne (m := u) (s := s) (k := s + 52) (by omega) h1
      have e : s + 52 - s = 52 := by omega
      rwa [e] at this
    have hi : rne u s ≤ 2 ^ 53 := by
      have := rne_le_pow (m := u) (s := s) (k := s + 53) (by omega) (Nat.le_of_lt h2)
      have e : s + 53 - s = 53 := by omega
      rwa [e] at this
    have hr : rnd u = rne u s * 2 ^ s := by unfold rnd; rw [hs]
    rw [hr]
    by_cases htop : rne u s = 2 ^ 53
    · rw [htop, ← Nat.pow_add]; exact fits_two_pow _
    · have hv : rne u s ≠ 0 := by omega
      unfold Fits
      rw [bitlen_mul_pow hv]
      have hb : bitlen (rne u s) = 53 := by
        have : bitlen (rne u s) = 52 + 1 := bitlen_unique lo (by omega)
        omega
      have e : bitlen (rne u s) + s - 53 = s := by omega
      rw [e]
      exact Nat.mul_mod_left _ _

/-- relative error of rounding in the normal range: at most `2^-53` -/
theorem rnd_err {u : Nat} (h : 2 ^ 52 ≤ u) :
    rnd u * 2 ^ 53 ≤ u * (2 ^ 53 + 1) ∧ u * (2 ^ 53 - 1) ≤ rnd u * 2 ^ 53 := by
  have hu : u ≠ 0 := by omega
  have hL := le_bitlen h
  have h1 := two_pow_bitlen_le hu
  generalize hs : bitlen u - 53 = s at *
  have e1 : bitlen u - 1 = 52 + s := by omega
  rw [e1, Nat.pow_add] at h1
  have hr : rnd u = rne u s * 2 ^ s := by unfold rnd; rw [hs]
  obtain ⟨ha, hb⟩ := rne_err u s
  rw [← hr] at ha hb
  generalize rnd u = A at *
  generalize 2 ^ s = P at *
  omega

theorem pow_le_rnd {u k : Nat} (h : 2 ^ k ≤ u) : 2 ^ k ≤ rnd u := by
  by_cases hL : bitlen u ≤ 53
  · have hf : Fits u := by
      have e : bitlen u - 53 = 0 := by omega
      simp [Fits, e, Nat.mod_one]
    rw [rnd_of_fits hf]; exact h
  · have h2 := lt_two_pow_bitlen u
    have hk : k < bitlen u := by
      have := Nat.lt_of_le_of_lt h h2
      exact (Nat.pow_lt_pow_iff_right (by omega)).mp this
    by_cases hks : bitlen u - 53 ≤ k
    · have := pow_le_rne hks h
      unfold rnd
      have e : 2 ^ k = 2 ^ (k - (bitlen u - 53)) * 2 ^ (bitlen u - 53) := by
        rw [← Nat.pow_add]; congr 1; omega
      rw [e]
      exact Nat.mul_le_mul_right _ this
    · -- k below the rounding position: the quotient is at least 2^52 ≥ 1
      have hu : u ≠ 0 := by intro h0; subst h0; simp [bitlen] at hL
      have h1 := two_pow_bitlen_le hu
      have := pow_le_rne (m := u) (s := bitlen u - 53) (k := bitlen u - 1) (by omega) h1
      unfold rnd
      have hpos : 1 ≤ rne u (bitlen u - 53) := Nat.le_trans (Nat.two_pow_pos _) this
      have hkk : 2 ^ k ≤ 2 ^ (bitlen u - 53) := Nat.pow_le_pow_right (by omega) (by omega)
      calc 2 ^ k ≤ 1 * 2 ^ (bitlen u - 53) := by omega
        _ ≤ rne u (bitlen u - 53) * 2 ^ (bitlen u - 53) := Nat.mul_le_mul_right _ hpos

theorem rnd_le_pow {u k : Nat} (h : u ≤ 2 ^ k) : rnd u ≤ 2 ^ k := by
  by_cases hL : bitlen u ≤ 53
  · have hf : Fits u := by
      have e : bitlen u - 53 = 0 := by omega
      simp [Fits, e, Nat.mod_one]
    rw [rnd_of_fits hf]; exact h
  · have hu : u ≠ 0 := by intro h0; subst h0; simp [bitlen] at hL
    have h1 := two_pow_bitlen_le hu
    have hk : bitlen u - 1 ≤ k := by
      have := Nat.le_trans h1 h
      exact (Nat.pow_le_pow_iff_right (by omega)).mp this
    have := rne_le_pow (m := u) (s := bitlen u - 53) (k := k) (by omega) h
    unfold rnd
    have e : 2 ^ k = 2 ^ (k - (bitlen u - 53)) * 2 ^ (bitlen u - 53) := by
      rw [← Nat.pow_add]; congr 1; omega
    rw [e]
    exact Nat.mul_le_mul_right _ this

theorem rnd_eq_zero_iff (u : Nat) : rnd u = 0 ↔ u = 0 := by
  constructor
  · intro h
    by_cases hu : u = 0
    · exact hu
    · have : 2 ^ 0 ≤ u := by simp; omega
      have := pow_le_rnd this
      simp at this; omega
  · rintro rfl; exact rnd_zero

/-- a representable value of at least 55 bits is even and its half is representable -/
theorem fits_half {a : Nat} (hf : Fits a) (h : 2 ^ 54 ≤ a) : ∃ b, a = 2 * b ∧ Fits b := by
  have hL := le_bitlen h
  have ha : a ≠ 0 := by omega
  unfold Fits at hf
  generalize hs : bitlen a - 53 = s at *
  obtain ⟨s', rfl⟩ : ∃ s', s = s' + 1 := ⟨s - 1, by omega⟩
  obtain ⟨c, hc⟩ := Nat.dvd_of_mod_eq_zero hf
  refine ⟨2 ^ s' * c, by rw [hc, Nat.pow_succ]; ac_rfl, ?_⟩
  have hc0 : c ≠ 0 := by intro h0; subst h0; simp at hc; omega
  have hb : bitlen (2 ^ s' * c) = bitlen a - 1 := by
    have e : a = (2 ^ s' * c) * 2 ^ 1 := by rw [hc, Nat.pow_succ, Nat.pow_one]; ac_rfl
    have hne : 2 ^ s' * c ≠ 0 := by
      have := Nat.two_pow_pos s'
      exact Nat.mul_ne_zero (by omega) hc0
    have := bitlen_mul_pow hne 1
    rw [← e] at this
    omega
  unfold Fits
  rw [hb]
  have e : bitlen a - 1 - 53 = s' := by omega
  rw [e]
  exact Nat.mul_mod_right _ _

theorem fits_double {b : Nat} (h : Fits b) : Fits (2 * b) := by
  have := fits_mul_pow h 1
  rwa [Nat.pow_one, Nat.mul_comm] at this

/-! ## `roundU` and `mk` -/

theorem roundU_zero_t (u : Nat) : roundU u 0 = mk (rnd u) := by
  simp only [roundU, rnd, Nat.zero_max, Nat.sub_zero]

/-- value invariance of the rounding function -/
theorem roundU_mul_pow (m t j : Nat) : roundU (m * 2 ^ j) (t + j) = roundU m t := by
  by_cases hm : m = 0
  · subst hm
    simp only [roundU, Nat.zero_mul, rne_zero_left, bitlen_zero]
  · simp only [roundU]
    rw [bitlen_mul_pow hm]
    have e : max (t + j) (bitlen m + j - 53) = max t (bitlen m - 53) + j := by
      simp only [Nat.max_def]
      split <;> split <;> omega
    have e3 : max t (bitlen m - 53) + j - (t + j) = max t (bitlen m - 53) - t := by omega
    rw [e, rne_mul_pow, e3]

theorem roundU_units (u t : Nat) : roundU (u * 2 ^ t) t = mk (rnd u) := by
  have := roundU_mul_pow u 0 t
  rw [Nat.zero_add] at this
  rw [this, roundU_zero_t]

theorem mk_of_lt {u : Nat} (h : u < 2 ^ OVF) : mk u = .fin u := by simp [mk, h]

theorem mk_of_ge {u : Nat} (h : 2 ^ OVF ≤ u) : mk u = .inf := by
  simp only [mk]; rw [if_neg]; omega

theorem mk_zero : mk 0 = .fin 0 := mk_of_lt (Nat.two_pow_pos _)

theorem mk_ne_nan (u : Nat) : mk u ≠ .nan := by
  simp only [mk]; split <;> simp

end OxiddModel.Num.F64C
