import OxiddModel.Num.F64CountLemmasOps

/-!
# The halving recursion `(c_t + c_e) >> 1` over `F64`, on the skeleton of the recursion

`CT` is the call tree of `sat_count_edge::inner` of the BDD and BCDD rules: a call returns `0`, the
terminal value, or `(left + right) >> 1`. `ctGo` runs it over the dyadic model of `F64`, `ctX` over
exact naturals (`ctX p` starts from `2^p` and halves with `/ 2`, exactly as `satCount` does).

Main results, for a terminal value `2^p` units with `height + 53 ≤ p` (the scaling of
`sat_count_edge` guarantees exactly this: the smallest non-zero intermediate value `2^(p-height)`
stays in the normal range) and `p + 1 < 2098` (no overflow):

* `ctGo_inv`: the float result is finite and representable, zero iff the exact value is, bounded
  below by `2^(p - height)`, within `(1 ± 2^-53)^height` of the exact value, and **homogeneous**:
  multiplying the terminal value by `2^j` multiplies every intermediate value by `2^j`;
* `ctGo_exact`: if every exact intermediate value has at most 53 significant bits the float
  result is the exact value (needs only `height ≤ p`).
-/
namespace OxiddModel.Num.F64C
open F

inductive CT where
  | z : CT
  | t : CT
  | n : CT → CT → CT
deriving DecidableEq, Repr

namespace CT
def height : CT → Nat
  | z => 0
  | t => 0
  | n a b => max a.height b.height + 1
end CT

/-- the recursion over `F64` -/
def ctGo (tv : F) : CT → F
  | .z => fromU32 0
  | .t => tv
  | .n a b => shr (add (ctGo tv a) (ctGo tv b)) 1

/-- the recursion over exact naturals, terminal value `2^p` -/
def ctX (p : Nat) : CT → Nat
  | .z => 0
  | .t => 2 ^ p
  | .n a b => (ctX p a + ctX p b) / 2

/-! ## the exact recursion -/

theorem ctX_le (p : Nat) (g : CT) : ctX p g ≤ 2 ^ p := by
  induction g with
  | z => exact Nat.zero_le _
  | t => exact Nat.le_refl _
  | n a b iha ihb => simp only [ctX]; omega

theorem ctX_dvd (p : Nat) (g : CT) (h : g.height ≤ p) : 2 ^ (p - g.height) ∣ ctX p g := by
  induction g with
  | z => exact Nat.dvd_zero _
  | t => simp only [ctX, CT.height, Nat.sub_zero]; exact Nat.dvd_refl _
  | n a b iha ihb =>
    simp only [CT.height] at h ⊢
    have ha : a.height ≤ p := by omega
    have hb : b.height ≤ p := by omega
    have e : 2 ^ (p - (max a.height b.height + 1)) * 2 = 2 ^ (p - max a.height b.height) := by
      rw [← Nat.pow_succ]; congr 1; omega
    have da : 2 ^ (p - max a.height b.height) ∣ ctX p a :=
      Nat.dvd_trans (Nat.pow_dvd_pow 2 (by omega)) (iha ha)
    have db : 2 ^ (p - max a.height b.height) ∣ ctX p b :=
      Nat.dvd_trans (Nat.pow_dvd_pow 2 (by omega)) (ihb hb)
    obtain ⟨k, hk⟩ := Nat.dvd_add da db
    simp only [ctX]
    rw [hk, ← e, Nat.mul_assoc, Nat.mul_comm 2 k, ← Nat.mul_assoc, Nat.mul_div_cancel _ (by omega)]
    exact Nat.dvd_mul_right _ _

/-- every halving is exact -/
theorem ctX_even (p : Nat) (a b : CT) (h : (CT.n a b).height ≤ p) :
    ctX p a + ctX p b = 2 * ctX p (.n a b) := by
  simp only [CT.height] at h
  have ha : a.height ≤ p := by omega
  have hb : b.height ≤ p := by omega
  have da : 2 ∣ ctX p a := Nat.dvd_trans (by
    have := Nat.pow_dvd_pow 2 (show 1 ≤ p - a.height by omega); simpa using this) (ctX_dvd p a ha)
  have db : 2 ∣ ctX p b := Nat.dvd_trans (by
    have := Nat.pow_dvd_pow 2 (show 1 ≤ p - b.height by omega); simpa using this) (ctX_dvd p b hb)
  simp only [ctX]
  omega

theorem ctX_scale (p j : Nat) (g : CT) (h : g.height ≤ p) : ctX (p + j) g = ctX p g * 2 ^ j := by
  induction g with
  | z => simp [ctX]
  | t => simp [ctX, Nat.pow_add]
  | n a b iha ihb =>
    have hh := h
    simp only [CT.height] at hh
    have e := ctX_even p a b h
    simp only [ctX] at e ⊢
    rw [iha (by omega), ihb (by omega), ← Nat.add_mul, e, Nat.mul_assoc,
      Nat.mul_div_cancel_left _ (by omega), Nat.mul_div_cancel_left _ (by omega)]

theorem ctX_low (p : Nat) (g : CT) (h : g.height ≤ p) : ctX p g = 0 ∨ 2 ^ (p - g.height) ≤ ctX p g := by
  obtain ⟨k, hk⟩ := ctX_dvd p g h
  by_cases hk0 : k = 0
  · left; rw [hk, hk0, Nat.mul_zero]
  · right; rw [hk]; exact Nat.le_mul_of_pos_right _ (by omega)

/-! ## relative error, multiplicatively: `(1 - 2^-53)^d ≤ a / c ≤ (1 + 2^-53)^d` -/

def EB : Nat := 2 ^ 53

def Within (d a c : Nat) : Prop := c * (EB - 1) ^ d ≤ a * EB ^ d ∧ a * EB ^ d ≤ c * (EB + 1) ^ d

theorem within_zero (d : Nat) : Within d 0 0 := by simp [Within]

theorem within_refl (a : Nat) : Within 0 a a := by simp [Within]

theorem Within.succ {d a c : Nat} (h : Within d a c) : Within (d + 1) a c := by
  obtain ⟨h1, h2⟩ := h
  constructor
  · calc c * (EB - 1) ^ (d + 1) = c * (EB - 1) ^ d * (EB - 1) := by rw [Nat.pow_succ, Nat.mul_assoc]
      _ ≤ a * EB ^ d * (EB - 1) := Nat.mul_le_mul_right _ h1
      _ ≤ a * EB ^ d * EB := Nat.mul_le_mul_left _ (by omega)
      _ = a * EB ^ (d + 1) := by rw [Nat.pow_succ, Nat.mul_assoc]
  · calc a * EB ^ (d + 1) = a * EB ^ d * EB := by rw [Nat.pow_succ, Nat.mul_assoc]
      _ ≤ c * (EB + 1) ^ d * EB := Nat.mul_le_mul_right _ h2
      _ ≤ c * (EB + 1) ^ d * (EB + 1) := Nat.mul_le_mul_left _ (by omega)
      _ = c * (EB + 1) ^ (d + 1) := by rw [Nat.pow_succ, Nat.mul_assoc]

theorem Within.mono {d d' a c : Nat} (h : Within d a c) (hd : d ≤ d') : Within d' a c := by
  obtain ⟨k, rfl⟩ : ∃ k, d' = d + k := ⟨d' - d, by omega⟩
  clear hd
  induction k with
  | zero => exact h
  | succ k ih => exact ih.succ

theorem Within.add {d a c a' c' : Nat} (h : Within d a c) (h' : Within d a' c') :
    Within d (a + a') (c + c') := by
  obtain ⟨h1, h2⟩ := h
  obtain ⟨h1', h2'⟩ := h'
  constructor
  · rw [Nat.add_mul, Nat.add_mul]; omega
  · rw [Nat.add_mul, Nat.add_mul]; omega

theorem Within.round {d s c : Nat} (h : Within d s c) (hs : s = 0 ∨ 2 ^ 52 ≤ s) :
    Within (d + 1) (rnd s) c := by
  rcases hs with rfl | hs
  · rw [rnd_zero]; exact h.succ
  · obtain ⟨r1, r2⟩ := rnd_err hs
    have e1 : 2 ^ 53 + 1 = EB + 1 := rfl
    have e2 : 2 ^ 53 - 1 = EB - 1 := rfl
    have e3 : 2 ^ 53 = EB := rfl
    rw [e1, e3] at r1
    rw [e2, e3] at r2
    obtain ⟨h1, h2⟩ := h
    constructor
    · calc c * (EB - 1) ^ (d + 1) = c * (EB - 1) ^ d * (EB - 1) := by rw [Nat.pow_succ, Nat.mul_assoc]
        _ ≤ s * EB ^ d * (EB - 1) := Nat.mul_le_mul_right _ h1
        _ = s * (EB - 1) * EB ^ d := by rw [Nat.mul_assoc, Nat.mul_comm (EB ^ d), ← Nat.mul_assoc]
        _ ≤ rnd s * EB * EB ^ d := Nat.mul_le_mul_right _ r2
        _ = rnd s * EB ^ (d + 1) := by rw [Nat.pow_succ, Nat.mul_assoc, Nat.mul_comm EB]
    · calc rnd s * EB ^ (d + 1) = rnd s * EB * EB ^ d := by
            rw [Nat.pow_succ, Nat.mul_assoc, Nat.mul_comm EB]
        _ ≤ s * (EB + 1) * EB ^ d := Nat.mul_le_mul_right _ r1
        _ = s * EB ^ d * (EB + 1) := by rw [Nat.mul_assoc, Nat.mul_comm (EB + 1), ← Nat.mul_assoc]
        _ ≤ c * (EB + 1) ^ d * (EB + 1) := Nat.mul_le_mul_right _ h2
        _ = c * (EB + 1) ^ (d + 1) := by rw [Nat.pow_succ, Nat.mul_assoc]

theorem Within.half {d b x : Nat} (h : Within d (2 * b) (2 * x)) : Within d b x := by
  obtain ⟨h1, h2⟩ := h
  rw [Nat.mul_assoc, Nat.mul_assoc] at h1 h2
  constructor <;> omega

theorem Within.scale {d a c : Nat} (h : Within d a c) (k : Nat) : Within d (a * k) (c * k) := by
  obtain ⟨h1, h2⟩ := h
  constructor
  · calc c * k * (EB - 1) ^ d = c * (EB - 1) ^ d * k := by
          rw [Nat.mul_assoc, Nat.mul_comm k, ← Nat.mul_assoc]
      _ ≤ a * EB ^ d * k := Nat.mul_le_mul_right _ h1
      _ = a * k * EB ^ d := by rw [Nat.mul_assoc, Nat.mul_comm (EB ^ d), ← Nat.mul_assoc]
  · calc a * k * EB ^ d = a * EB ^ d * k := by rw [Nat.mul_assoc, Nat.mul_comm k, ← Nat.mul_assoc]
      _ ≤ c * (EB + 1) ^ d * k := Nat.mul_le_mul_right _ h2
      _ = c * k * (EB + 1) ^ d := by rw [Nat.mul_assoc, Nat.mul_comm ((EB + 1) ^ d), ← Nat.mul_assoc]

/-! ## the float recursion -/

/-- what is known of the float value `a` (units) of the call tree `g` for the terminal value `2^p` -/
structure Inv (p : Nat) (g : CT) (a : Nat) : Prop where
  fits : Fits a
  low : a = 0 ∨ 2 ^ (p - g.height) ≤ a
  up : a ≤ 2 ^ p
  within : Within g.height a (ctX p g)
  zero : a = 0 ↔ ctX p g = 0

theorem two_pow_lt_ovf {k : Nat} (h : k < OVF) : 2 ^ k < 2 ^ OVF :=
  Nat.pow_lt_pow_right (by omega) h

/-- one inner node: `(fin a1 + fin a2) >> 1` when the rounded sum is even with representable half -/
theorem node_step {a1 a2 b : Nat} (hA : rnd (a1 + a2) = 2 * b) (hb : Fits b) (hlt : 2 * b < 2 ^ OVF) :
    shr (add (fin a1) (fin a2)) 1 = fin b := by
  rw [add_fin, hA, mk_of_lt hlt, shr_one_double, rnd_of_fits hb, mk_of_lt (by omega)]

theorem ctGo_inv (p : Nat) : ∀ g : CT, g.height + 53 ≤ p →
    ∃ a, Inv p g a ∧ ∀ j, p + j + 1 < OVF → ctGo (fin (2 ^ (p + j))) g = fin (a * 2 ^ j) := by
  intro g
  induction g with
  | z =>
    intro _
    refine ⟨0, ⟨fits_zero, .inl rfl, Nat.zero_le _, within_zero _, by simp [ctX]⟩, fun j _ => ?_⟩
    simp only [ctGo, fromU32_zero, Nat.zero_mul]
  | t =>
    intro _
    have hp : 0 < 2 ^ p := Nat.two_pow_pos p
    refine ⟨2 ^ p, ⟨fits_two_pow _, .inr (by simp [CT.height]), Nat.le_refl _, within_refl _,
      by simp only [ctX]⟩, fun j _ => ?_⟩
    simp only [ctGo, Nat.pow_add]
  | n g1 g2 ih1 ih2 =>
    intro hh
    have hh' := hh
    simp only [CT.height] at hh'
    obtain ⟨a1, i1, s1⟩ := ih1 (by omega)
    obtain ⟨a2, i2, s2⟩ := ih2 (by omega)
    have hev := ctX_even p g1 g2 (by omega)
    by_cases hS : a1 + a2 = 0
    · -- both children are zero
      have h1 : a1 = 0 := by omega
      have h2 : a2 = 0 := by omega
      have x1 := i1.zero.mp h1
      have x2 := i2.zero.mp h2
      have hx : ctX p (.n g1 g2) = 0 := by omega
      refine ⟨0, ⟨fits_zero, .inl rfl, Nat.zero_le _, by rw [hx]; exact within_zero _, by simp [hx]⟩,
        fun j hj => ?_⟩
      simp only [ctGo, s1 j hj, s2 j hj, h1, h2, Nat.zero_mul]
      exact node_step (b := 0) (by simp [rnd_zero]) fits_zero (Nat.two_pow_pos _)
    · -- the sum is at least 2^(p - h + 1) ≥ 2^54
      generalize hk : p - (max g1.height g2.height + 1) = k at *
      have hk53 : 53 ≤ k := by omega
      have hSlow : 2 ^ (k + 1) ≤ a1 + a2 := by
        have m1 : 2 ^ (k + 1) ≤ 2 ^ (p - g1.height) := Nat.pow_le_pow_right (by omega) (by omega)
        have m2 : 2 ^ (k + 1) ≤ 2 ^ (p - g2.height) := Nat.pow_le_pow_right (by omega) (by omega)
        rcases i1.low with h | h <;> rcases i2.low with h' | h' <;> omega
      have hSup : a1 + a2 ≤ 2 ^ (p + 1) := by
        have := i1.up; have := i2.up; rw [Nat.pow_succ]; omega
      have hAlow : 2 ^ (k + 1) ≤ rnd (a1 + a2) := pow_le_rnd hSlow
      have hAup : rnd (a1 + a2) ≤ 2 ^ (p + 1) := rnd_le_pow hSup
      have h54 : 2 ^ 54 ≤ rnd (a1 + a2) :=
        Nat.le_trans (Nat.pow_le_pow_right (by omega) (by omega)) hAlow
      obtain ⟨b, hb2, hbf⟩ := fits_half (fits_rnd _) h54
      have hblow : 2 ^ k ≤ b := by rw [hb2, Nat.pow_succ] at hAlow; omega
      have hbup : b ≤ 2 ^ p := by rw [hb2, Nat.pow_succ] at hAup; omega
      have hbpos : b ≠ 0 := by have := Nat.two_pow_pos k; omega
      have h52 : 2 ^ 52 ≤ a1 + a2 :=
        Nat.le_trans (Nat.pow_le_pow_right (by omega) (by omega)) hSlow
      have hw : Within (max g1.height g2.height + 1) b (ctX p (.n g1 g2)) := by
        have w1 := i1.within.mono (Nat.le_max_left g1.height g2.height)
        have w2 := i2.within.mono (Nat.le_max_right g1.height g2.height)
        have w := (w1.add w2).round (.inr h52)
        rw [hb2, hev] at w
        exact w.half
      have hxne : ctX p (.n g1 g2) ≠ 0 := by
        intro hx
        rw [hx] at hev
        have := i1.zero.mpr (by omega)
        have := i2.zero.mpr (by omega)
        omega
      refine ⟨b, ⟨hbf, .inr (by simp only [CT.height]; rw [hk]; exact hblow), hbup,
        by simp only [CT.height]; exact hw, by constructor <;> intro h <;> contradiction⟩,
        fun j hj => ?_⟩
      simp only [ctGo, s1 j hj, s2 j hj]
      apply node_step
      · rw [← Nat.add_mul, rnd_mul_pow, hb2, Nat.mul_assoc]
      · exact fits_mul_pow hbf j
      · have : 2 * (b * 2 ^ j) ≤ 2 ^ (p + j + 1) := by
          rw [Nat.pow_succ, Nat.pow_add, Nat.mul_comm _ 2]
          exact Nat.mul_le_mul_left _ (Nat.mul_le_mul_right _ hbup)
        exact Nat.lt_of_le_of_lt this (two_pow_lt_ovf hj)

/-- exactness: every exact intermediate value has at most 53 significant bits -/
def AllFits (p : Nat) : CT → Prop
  | .z => True
  | .t => True
  | .n a b => AllFits p a ∧ AllFits p b ∧ Fits (ctX p (.n a b))

theorem ctGo_exact (p : Nat) (hp : p + 1 < OVF) : ∀ g : CT, g.height ≤ p → AllFits p g →
    ctGo (fin (2 ^ p)) g = fin (ctX p g) := by
  intro g
  induction g with
  | z => intro _ _; simp only [ctGo, ctX, fromU32_zero]
  | t => intro _ _; simp only [ctGo, ctX]
  | n g1 g2 ih1 ih2 =>
    intro hh hf
    have hh' := hh
    simp only [CT.height] at hh'
    obtain ⟨f1, f2, f3⟩ := hf
    have hev := ctX_even p g1 g2 hh
    simp only [ctGo, ih1 (by omega) f1, ih2 (by omega) f2]
    apply node_step
    · rw [hev, rnd_of_fits (fits_double f3)]
    · exact f3
    · have := ctX_le p (.n g1 g2)
      have : 2 * ctX p (.n g1 g2) ≤ 2 ^ (p + 1) := by rw [Nat.pow_succ]; omega
      exact Nat.lt_of_le_of_lt this (two_pow_lt_ovf hp)

end OxiddModel.Num.F64C
