import OxiddModel.Num.F64CountLemmasDiagrams

/-!
# ZBDD path counting over `F64`: error bound

No halving and no scaling: values are sums of ones, so they are `0` or at least `1.0`, never
subnormal; the only hazards are rounding (relative error `2^-53` per addition) and overflow.
`ZRes d c r`: the float result `r` is a representable value within `(1 ± 2^-53)^d` of the exact
value `c` (in units), zero iff `c` is — or it is `+∞` and `c · (1+2^-53)^d ≥ 2^1024`.
-/
namespace OxiddModel.Num.F64C
open F

def zheight : Zbdd.ZDD → Nat
  | .node _ hi lo => max (zheight hi) (zheight lo) + 1
  | _ => 0

/-- `c · (1 + 2^-53)^d ≥ 2^1024` (in units): an overflow is justified -/
def Ovf (d c : Nat) : Prop := 2 ^ OVF * EB ^ d ≤ c * (EB + 1) ^ d

theorem Ovf.succ {d c : Nat} (h : Ovf d c) : Ovf (d + 1) c := by
  unfold Ovf at *
  calc 2 ^ OVF * EB ^ (d + 1) = 2 ^ OVF * EB ^ d * EB := by rw [Nat.pow_succ, Nat.mul_assoc]
    _ ≤ c * (EB + 1) ^ d * EB := Nat.mul_le_mul_right _ h
    _ ≤ c * (EB + 1) ^ d * (EB + 1) := Nat.mul_le_mul_left _ (by omega)
    _ = c * (EB + 1) ^ (d + 1) := by rw [Nat.pow_succ, Nat.mul_assoc]

theorem Ovf.mono {d d' c c' : Nat} (h : Ovf d c) (hd : d ≤ d') (hc : c ≤ c') : Ovf d' c' := by
  obtain ⟨k, rfl⟩ : ∃ k, d' = d + k := ⟨d' - d, by omega⟩
  clear hd
  induction k with
  | zero => exact Nat.le_trans h (Nat.mul_le_mul_right _ hc)
  | succ k ih => exact ih.succ

theorem Ovf.of_within {d a c : Nat} (h : Within d a c) (ha : 2 ^ OVF ≤ a) : Ovf d c :=
  Nat.le_trans (Nat.mul_le_mul_right _ ha) h.2

inductive ZRes (d c : Nat) : F → Prop
  | fin (a : Nat) : Fits a → a < 2 ^ OVF → Within d a c → (a = 0 ↔ c = 0) → (a = 0 ∨ 2 ^ UNIT ≤ a) →
      ZRes d c (.fin a)
  | inf : Ovf d c → ZRes d c .inf

theorem ZRes.of_mk {d a c : Nat} (hf : Fits a) (hw : Within d a c) (hz : a = 0 ↔ c = 0)
    (hl : a = 0 ∨ 2 ^ UNIT ≤ a) : ZRes d c (mk a) := by
  by_cases hlt : a < 2 ^ OVF
  · rw [mk_of_lt hlt]; exact .fin a hf hlt hw hz hl
  · rw [mk_of_ge (by omega)]; exact .inf (Ovf.of_within hw (by omega))

theorem unit_ge_52 : 2 ^ 52 ≤ 2 ^ UNIT := Nat.pow_le_pow_right (by omega) (by simp only [UNIT]; omega)

theorem zbddGo_res (f : Zbdd.ZDD) : ZRes (zheight f) (Zbdd.pathCount f * 2 ^ UNIT) (zbddGo f) := by
  induction f with
  | empty =>
    simp only [zbddGo, fromU32_zero, Zbdd.pathCount, Nat.zero_mul, zheight]
    exact .fin 0 fits_zero (Nat.two_pow_pos _) (within_zero _) Iff.rfl (.inl rfl)
  | base =>
    simp only [zbddGo, fromU32_one, Zbdd.pathCount, Nat.one_mul, zheight]
    have hp := Nat.two_pow_pos UNIT
    exact .fin _ (fits_two_pow _) two_pow_unit_lt (within_refl _) (by constructor <;> intro h <;> omega)
      (.inr (Nat.le_refl _))
  | node l hi lo ih1 ih2 =>
    simp only [zbddGo, Zbdd.pathCount, zheight, Nat.add_mul]
    generalize Zbdd.pathCount hi * 2 ^ UNIT = c1 at *
    generalize Zbdd.pathCount lo * 2 ^ UNIT = c2 at *
    have m1 := Nat.le_max_left (zheight hi) (zheight lo)
    have m2 := Nat.le_max_right (zheight hi) (zheight lo)
    generalize max (zheight hi) (zheight lo) = h at *
    generalize zbddGo hi = r1 at *
    generalize zbddGo lo = r2 at *
    cases ih1 with
    | inf o1 =>
      cases ih2 with
      | inf o2 => exact .inf (o1.mono (by omega) (by omega))
      | fin a2 _ _ _ _ _ => exact .inf (o1.mono (by omega) (by omega))
    | fin a1 f1 l1 w1 z1 lo1 =>
      cases ih2 with
      | inf o2 => exact .inf (o2.mono (by omega) (by omega))
      | fin a2 f2 l2 w2 z2 lo2 =>
        rw [add_fin]
        have hs : a1 + a2 = 0 ∨ 2 ^ 52 ≤ a1 + a2 := by
          have := unit_ge_52
          rcases lo1 with h | h <;> rcases lo2 with h' | h' <;> omega
        have hw := ((w1.mono m1).add (w2.mono m2)).round hs
        apply ZRes.of_mk (fits_rnd _) hw
        · rw [rnd_eq_zero_iff]; omega
        · by_cases h0 : a1 + a2 = 0
          · left; rw [h0, rnd_zero]
          · right
            apply pow_le_rnd
            rcases lo1 with h | h <;> rcases lo2 with h' | h' <;> omega

theorem shl_inf (k : Nat) : shl inf k = inf := by
  have h1 : inf ≠ fin 0 := by intro h; cases h
  simp only [shl, h1, if_false]
  by_cases hk : k ≤ 1023
  · rw [exp2_nat hk]
    have : (2 : Nat) ^ (k + UNIT) ≠ 0 := by have := Nat.two_pow_pos (k + UNIT); omega
    simp only [mul, this, if_false]
  · rw [exp2_big (by omega)]; rfl

/-- C12 "floats within their precision", ZBDD: for `vars ≥ num_levels` the `F64` count is within
`(1 ± 2^-53)^height` of the exact count `satCount n vars f` (in units), `0` iff the count is `0`,
never NaN, and `+∞` only if `count · (1 + 2^-53)^height ≥ 2^1024`. No bound on the number of
levels or on `vars`. -/
theorem zbddCount_res (n vars : Nat) (f : Zbdd.ZDD) (hv : n ≤ vars) :
    ZRes (zheight f) (Zbdd.satCount n vars f * 2 ^ UNIT) (zbddCount n vars f) := by
  have hge : vars ≥ n := hv
  have hres := zbddGo_res f
  simp only [zbddCount, Zbdd.satCount, hge, if_true, Nat.shiftLeft_eq]
  generalize vars - n = k
  have e : Zbdd.pathCount f * 2 ^ k * 2 ^ UNIT = Zbdd.pathCount f * 2 ^ UNIT * 2 ^ k := by
    rw [Nat.mul_assoc, Nat.mul_assoc, Nat.mul_comm (2 ^ k)]
  rw [e]
  have hkpos := Nat.two_pow_pos k
  have hle : Zbdd.pathCount f * 2 ^ UNIT ≤ Zbdd.pathCount f * 2 ^ UNIT * 2 ^ k :=
    Nat.le_mul_of_pos_right _ hkpos
  generalize Zbdd.pathCount f * 2 ^ UNIT = c at *
  generalize zheight f = d at *
  generalize zbddGo f = r at *
  cases hres with
  | inf o => rw [shl_inf]; exact .inf (o.mono (Nat.le_refl _) hle)
  | fin a hf hlt hw hz hlo =>
    by_cases ha : a = 0
    · subst ha
      have hc : c = 0 := hz.mp rfl
      rw [shl_zero, hc, Nat.zero_mul]
      exact .fin 0 fits_zero (Nat.two_pow_pos _) (within_zero _) Iff.rfl (.inl rfl)
    · have hlow : 2 ^ UNIT ≤ a := by omega
      by_cases hk : k ≤ 1023
      · rw [shl_fin ha hk, rnd_of_fits hf]
        apply ZRes.of_mk (fits_mul_pow hf k) (hw.scale _)
        · constructor
          · intro h; rcases Nat.mul_eq_zero.mp h with h | h <;> omega
          · intro h
            rcases Nat.mul_eq_zero.mp h with h | h
            · exact absurd (hz.mpr h) ha
            · omega
        · right; exact Nat.le_trans hlow (Nat.le_mul_of_pos_right _ hkpos)
      · rw [shl_big ha (by omega)]
        apply ZRes.inf
        -- a ≥ 1.0 and the factor is at least 2^1024
        have hcpos : c ≠ 0 := fun h => ha (hz.mpr h)
        have h1 : 2 ^ OVF ≤ a * 2 ^ k := by
          rw [← two_pow_1024_units, Nat.mul_comm]
          exact Nat.mul_le_mul hlow (Nat.pow_le_pow_right (by omega) (by have := emax_eq; omega))
        exact Ovf.of_within (hw.scale _) h1

end OxiddModel.Num.F64C
