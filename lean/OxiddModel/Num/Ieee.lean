import OxiddModel.Num.F64Count

/-!
# IEEE-754 binary64 arithmetic on exact values (signed), without Lean's `Float`

`F64Count.lean` models the *non-negative* binary64 values as integer multiples of the unit
`2^-1074` (`F.fin u`), with `roundU m t` = the exact value `m · 2^-t` units rounded to nearest, ties
to even, 53 significant bits, never finer than one unit (gradual underflow), `+∞` from `2^1024` on.
This file adds what the terminal arithmetic of `F64` MTBDDs (C10) needs on top of it:

* `V`: a binary64 datum — `fin neg u` (the value `(-1)^neg · u · 2^-1074`, so `fin true 0` is
  `-0.0`), `inf neg`, `nan` (the payload and sign of a NaN are not part of the value: the hardware
  propagates payloads in a platform-specific way and `F64::from` maps every NaN to `f64::NAN`);
* total decoding `ofBits : Nat → V` (the low 64 bits) and encoding `toBits`;
* `add`, `sub`, `mul`, `div`: the special cases of IEEE-754 §6/§7.2 (NaN propagation,
  `∞ − ∞`, `0 · ∞`, `0/0`, `∞/∞` ↦ NaN, `x/0 = ±∞`, signed zeros in round-to-nearest), otherwise the
  **exact** result rounded once by `roundU`; for `div` the exact quotient is not a dyadic: the
  rational `a · 2^1074 / b` is rounded directly by integer division with remainder (`roundQ`, `divU`;
  `IeeeLemmasRound.lean` proves that `roundQ` is the nearest-even rounding of a rational and that
  `roundU` is the instance for a power-of-two denominator);
* `pcmp`: `f64::partial_cmp` (`-0 = +0`, NaN unordered) with the `F64` wrapper's "NaN = NaN".

Everything is kernel-reducible (`Nat` arithmetic only).
-/
namespace OxiddModel.Num.Ieee
open OxiddModel.Num.F64C

/-- a binary64 datum; `fin neg u` is `(-1)^neg · u · 2^-1074` -/
inductive V where
  | fin (neg : Bool) (u : Nat)
  | inf (neg : Bool)
  | nan
deriving DecidableEq, Repr, Inhabited

/-- attach a sign to a rounded magnitude -/
def signed (neg : Bool) : F → V
  | .fin u => .fin neg u
  | .inf => .inf neg
  | .nan => .nan

namespace V

/-- representable: at most 53 significant bits, below `2^1024` -/
def Rep : V → Prop
  | fin _ u => u % 2 ^ (bitlen u - 53) = 0 ∧ u < 2 ^ OVF
  | _ => True

instance (x : V) : Decidable x.Rep := by cases x <;> unfold Rep <;> infer_instance

/-- unary minus (flips the sign bit; a NaN stays a NaN) -/
def neg : V → V
  | fin s u => fin (!s) u
  | inf s => inf (!s)
  | nan => nan

/-- the value as an integer number of units, for the order -/
def sInt (s : Bool) (u : Nat) : Int := if s then -(u : Int) else (u : Int)

end V

open V

/-! ## decoding and encoding of bit patterns -/

def NAN_BITS : Nat := 0x7FF8000000000000
def INF_BITS : Nat := 0x7FF0000000000000

/-- the datum of the 64-bit pattern `b % 2^64` (total) -/
def ofBits (b : Nat) : V :=
  let neg : Bool := b / 2 ^ 63 % 2 = 1
  let ex := b / 2 ^ 52 % 2 ^ 11
  let mant := b % 2 ^ 52
  if ex = 0 then .fin neg mant
  else if ex = 2047 then (if mant = 0 then .inf neg else .nan)
  else .fin neg ((2 ^ 52 + mant) * 2 ^ (ex - 1))

def signBit (neg : Bool) : Nat := if neg then 2 ^ 63 else 0

/-- the bit pattern of a representable datum; a NaN is encoded as `f64::NAN` (positive quiet NaN
with empty payload) -/
def toBits : V → Nat
  | .fin neg u => signBit neg + ((bitlen u - 53) * 2 ^ 52 + u >>> (bitlen u - 53))
  | .inf neg => signBit neg + INF_BITS
  | .nan => NAN_BITS

/-! ## the four operations -/

/-- sum of two finite values: like signs add magnitudes (so `(-0) + (-0) = -0`), unlike signs
subtract; an exact zero difference is `+0` in round-to-nearest -/
def addFin (sa : Bool) (a : Nat) (sb : Bool) (b : Nat) : V :=
  if sa = sb then signed sa (roundU (a + b) 0)
  else if a = b then .fin false 0
  else if b < a then signed sa (roundU (a - b) 0)
  else signed sb (roundU (b - a) 0)

/-- IEEE-754 addition -/
def add (x y : V) : V :=
  match x with
  | .nan => .nan
  | .inf s =>
    match y with
    | .nan => .nan
    | .inf s' => if s = s' then .inf s else .nan
    | .fin _ _ => .inf s
  | .fin sa a =>
    match y with
    | .nan => .nan
    | .inf s => .inf s
    | .fin sb b => addFin sa a sb b

/-- IEEE-754 subtraction: `x − y = x + (−y)` (exactly, including the signs of zeros) -/
def sub (x y : V) : V := add x y.neg

/-- IEEE-754 multiplication: the sign is the exclusive or of the signs; `0 · ∞ = NaN` -/
def mul (x y : V) : V :=
  match x with
  | .nan => .nan
  | .inf s =>
    match y with
    | .nan => .nan
    | .inf s' => .inf (s != s')
    | .fin sb b => if b = 0 then .nan else .inf (s != sb)
  | .fin sa a =>
    match y with
    | .nan => .nan
    | .inf s => if a = 0 then .nan else .inf (sa != s)
    | .fin sb b => signed (sa != sb) (roundU (a * b) UNIT)

/-- `p / P` rounded to the nearest integer, ties to even (`rne m s = rneQ m (2^s)`): the decision
compares twice the remainder with the divisor -/
def rneQ (p P : Nat) : Nat :=
  let k := p / P
  let r := p % P
  if P < 2 * r ∨ (2 * r = P ∧ k % 2 = 1) then k + 1 else k

/-- the rational `p / q` (in units) rounded to 53 significant bits, never finer than one unit
(no overflow check): the rounding position `s` is read off the length of the integer part, then
`p / q` is rounded to the nearest even multiple of `2^s`.  `roundU m t = mk (roundQ m (2^t))`
(`IeeeLemmasRound.roundU_eq_roundQ`). -/
def roundQ (p q : Nat) : Nat :=
  let s := bitlen (p / q) - 53
  rneQ p (q * 2 ^ s) * 2 ^ s

/-- the quotient `a / b` (`b ≠ 0`) of two magnitudes given in units, correctly rounded: the exact
value is the rational `a · 2^1074 / b` units — in general not a dyadic — rounded by `roundQ` (integer
division with remainder), then the overflow check -/
def divU (a b : Nat) : F := mk (roundQ (a * 2 ^ UNIT) b)

/-- IEEE-754 division: `0/0 = ∞/∞ = NaN`, `x/0 = ±∞`, `x/∞ = ±0` -/
def div (x y : V) : V :=
  match x with
  | .nan => .nan
  | .inf s =>
    match y with
    | .nan => .nan
    | .inf _ => .nan
    | .fin sb _ => .inf (s != sb)
  | .fin sa a =>
    match y with
    | .nan => .nan
    | .inf s => .fin (sa != s) 0
    | .fin sb b =>
      if b = 0 then (if a = 0 then .nan else .inf (sa != sb))
      else signed (sa != sb) (divU a b)

/-! ## comparison -/

/-- `f64::partial_cmp` on non-NaN operands (`-0.0 == 0.0`); the `F64` wrapper of
`terminal/f64.rs` first tests for the canonical NaN: `NaN = NaN`, NaN unordered otherwise -/
def pcmp (x y : V) : Option Ordering :=
  match x with
  | .nan => (match y with | .nan => some .eq | _ => none)
  | .inf s =>
    match y with
    | .nan => none
    | .inf s' => some (if s = s' then .eq else if s then .lt else .gt)
    | .fin _ _ => some (if s then .lt else .gt)
  | .fin sa a =>
    match y with
    | .nan => none
    | .inf s => some (if s then .gt else .lt)
    | .fin sb b => some (compare (sInt sa a) (sInt sb b))

/-! ## the `F64` layer of `terminal/f64.rs` -/

/-- `impl From<f64> for F64`: every NaN becomes `f64::NAN` (there is only one `nan` here), `-0.0`
becomes `0.0` -/
def normalise (x : V) : V := if x = .fin true 0 then .fin false 0 else x

/-- a value that an `F64` can hold: representable, and not `-0.0` -/
def Normal (x : V) : Prop := x.Rep ∧ x ≠ .fin true 0

instance (x : V) : Decidable (Normal x) := by unfold Normal; infer_instance

def zero : V := .fin false 0
/-- `1.0 = 2^1074` units -/
def one : V := .fin false (2 ^ UNIT)

/-- `NumberBase::add` of `F64`: `Self::from(self.0 + rhs.0)` -/
def fadd (x y : V) : V := normalise (add x y)
def fsub (x y : V) : V := normalise (sub x y)
def fmul (x y : V) : V := normalise (mul x y)
def fdiv (x y : V) : V := normalise (div x y)

/-- `F64::from(f64::from_bits(b))` -/
def fromBits (b : Nat) : V := normalise (ofBits b)

end OxiddModel.Num.Ieee
