import OxiddModel.Num.Ieee
import OxiddModel.Num.F64CountLemmasRound
import OxiddModel.Num.IeeeLemmasRound

/-!
# Basic facts about the signed binary64 model: results are representable, neutral elements,
commutativity, the order
-/
set_option exponentiation.threshold 3000
namespace OxiddModel.Num.Ieee
open OxiddModel.Num.F64C V

-- the overflow test `· < 2^2098` inside `mk` must never be evaluated by the elaborator
attribute [local irreducible] OxiddModel.Num.F64C.mk

theorem bne_comm' (a b : Bool) : (a != b) = (b != a) := by cases a <;> cases b <;> rfl

/-! ## `roundU` returns representable values and is the identity on them -/

theorem rne_le_pow53 (m s : Nat) (h : bitlen m - 53 ≤ s) : rne m s ≤ 2 ^ 53 := by
  have h1 : m ≤ 2 ^ (s + 53) := by
    have := lt_two_pow_bitlen m
    have : 2 ^ bitlen m ≤ 2 ^ (s + 53) := Nat.pow_le_pow_right (by omega) (by omega)
    omega
  have := rne_le_pow (m := m) (s := s) (k := s + 53) (by omega) h1
  rwa [Nat.add_sub_cancel_left] at this

theorem fits_le_pow53 {u : Nat} (h : u ≤ 2 ^ 53) : Fits u := by
  by_cases e : u = 2 ^ 53
  · subst e; exact fits_two_pow 53
  · exact fits_of_lt (by omega)

/-- the value `roundU` builds before the overflow check fits into 53 bits -/
theorem fits_roundU_val (m t : Nat) :
    Fits (rne m (max t (bitlen m - 53)) * 2 ^ (max t (bitlen m - 53) - t)) :=
  fits_mul_pow (fits_le_pow53 (rne_le_pow53 m _ (Nat.le_max_right ..))) _

theorem roundU_cases (m t : Nat) :
    roundU m t = .inf ∨ ∃ u, roundU m t = .fin u ∧ Fits u ∧ u < 2 ^ OVF := by
  by_cases h : rne m (max t (bitlen m - 53)) * 2 ^ (max t (bitlen m - 53) - t) < 2 ^ OVF
  · exact Or.inr ⟨_, mk_of_lt h, fits_roundU_val m t, h⟩
  · exact Or.inl (mk_of_ge (by omega))

theorem roundU_ne_nan (m t : Nat) : roundU m t ≠ .nan := by
  rcases roundU_cases m t with h | ⟨u, h, _⟩ <;> rw [h] <;> simp

theorem roundU_id {u : Nat} (hf : Fits u) (hlt : u < 2 ^ OVF) (t : Nat) :
    roundU (u * 2 ^ t) t = .fin u := by
  rw [roundU_units, rnd_of_fits hf, mk_of_lt hlt]

theorem roundU_id0 {u : Nat} (hf : Fits u) (hlt : u < 2 ^ OVF) : roundU u 0 = .fin u := by
  have := roundU_id hf hlt 0
  rwa [Nat.pow_zero, Nat.mul_one] at this

theorem roundU_zero (t : Nat) : roundU 0 t = .fin 0 := by
  have := roundU_id fits_zero (Nat.two_pow_pos OVF) t
  rwa [Nat.zero_mul] at this

theorem signed_rep (s : Bool) (m t : Nat) : (signed s (roundU m t)).Rep := by
  rcases roundU_cases m t with h | ⟨u, h, hf, hlt⟩ <;> rw [h]
  · exact True.intro
  · exact ⟨hf, hlt⟩

theorem signed_ne_nan (s : Bool) (m t : Nat) : signed s (roundU m t) ≠ .nan := by
  rcases roundU_cases m t with h | ⟨u, h, _⟩ <;> rw [h] <;> simp [signed]

/-- a rounded non-zero magnitude of at least one unit is not zero -/
theorem roundU_pos {m : Nat} (h : 0 < m) : roundU m 0 ≠ .fin 0 := by
  rw [roundU_zero_t]
  intro e
  by_cases hlt : rnd m < 2 ^ OVF
  · rw [mk_of_lt hlt] at e
    have := (rnd_eq_zero_iff m).1 (F.fin.inj e); omega
  · rw [mk_of_ge (by omega)] at e; cases e

theorem divU_rep (s : Bool) (a b : Nat) (hb : 0 < b) : (signed s (divU a b)).Rep := by
  simp only [divU]
  by_cases h : roundQ (a * 2 ^ UNIT) b < 2 ^ OVF
  · rw [mk_of_lt h]; exact ⟨fits_roundQ _ _ hb, h⟩
  · rw [mk_of_ge (by omega)]; exact True.intro

/-! ## results of the four operations are representable -/

theorem addFin_rep (sa : Bool) (a : Nat) (sb : Bool) (b : Nat) : (addFin sa a sb b).Rep := by
  unfold addFin
  split
  · exact signed_rep ..
  split
  · exact ⟨fits_zero, Nat.two_pow_pos _⟩
  split
  · exact signed_rep ..
  · exact signed_rep ..

theorem rep_nan : (V.nan).Rep := True.intro
theorem rep_inf (s : Bool) : (V.inf s).Rep := True.intro
theorem rep_zero (s : Bool) : (V.fin s 0).Rep := ⟨fits_zero, Nat.two_pow_pos _⟩

theorem add_rep (x y : V) : (add x y).Rep := by
  cases x with
  | nan => exact rep_nan
  | inf s =>
    cases y with
    | nan => exact rep_nan
    | inf s' => simp only [add]; split; exact rep_inf _; exact rep_nan
    | fin sb b => exact rep_inf _
  | fin sa a =>
    cases y with
    | nan => exact rep_nan
    | inf s' => exact rep_inf _
    | fin sb b => exact addFin_rep ..

theorem neg_neg (x : V) : x.neg.neg = x := by cases x <;> simp [V.neg]

theorem sub_rep (x y : V) : (sub x y).Rep := add_rep _ _

theorem mul_rep (x y : V) : (mul x y).Rep := by
  cases x with
  | nan => exact rep_nan
  | inf s =>
    cases y with
    | nan => exact rep_nan
    | inf s' => exact rep_inf _
    | fin sb b => simp only [mul]; split; exact rep_nan; exact rep_inf _
  | fin sa a =>
    cases y with
    | nan => exact rep_nan
    | inf s' => simp only [mul]; split; exact rep_nan; exact rep_inf _
    | fin sb b => simp only [mul]; exact signed_rep (sa != sb) (a * b) UNIT

theorem div_rep (x y : V) : (div x y).Rep := by
  cases x with
  | nan => exact rep_nan
  | inf s =>
    cases y with
    | nan => exact rep_nan
    | inf s' => exact rep_nan
    | fin sb b => exact rep_inf _
  | fin sa a =>
    cases y with
    | nan => exact rep_nan
    | inf s' => exact rep_zero _
    | fin sb b =>
      simp only [div]
      split
      · split
        · exact rep_nan
        · exact rep_inf _
      · exact divU_rep _ _ _ (by omega)

/-! ## `normalise` -/

theorem normalise_of_ne {x : V} (h : x ≠ .fin true 0) : normalise x = x := by
  simp [normalise, h]

theorem normalise_normal (x : V) (h : x.Rep) : Normal (normalise x) := by
  unfold normalise
  split
  · exact ⟨⟨fits_zero, Nat.two_pow_pos _⟩, by simp⟩
  · exact ⟨h, by assumption⟩

theorem normalise_idem (x : V) : normalise (normalise x) = normalise x := by
  unfold normalise; split <;> simp_all

theorem normal_of_normalise {x : V} (h : Normal x) : normalise x = x := normalise_of_ne h.2

theorem normalise_nan : normalise .nan = .nan := rfl
theorem normalise_inf (s : Bool) : normalise (.inf s) = .inf s := rfl

/-! ## neutral elements -/

theorem add_zero_left {x : V} (h : Normal x) : add zero x = x := by
  obtain ⟨hr, hz⟩ := h
  cases x with
  | nan => rfl
  | inf s => rfl
  | fin s u =>
    obtain ⟨hf, hlt⟩ := hr
    simp only [add, zero, addFin]
    cases s
    · simp only [if_true, Nat.zero_add]
      rw [roundU_id0 hf hlt]; rfl
    · have hu : u ≠ 0 := fun e => hz (by rw [e])
      simp only [Bool.false_eq_true, if_false]
      rw [if_neg (by omega), if_neg (by omega), Nat.sub_zero, roundU_id0 hf hlt]; rfl

theorem add_zero_right {x : V} (h : Normal x) : add x zero = x := by
  obtain ⟨hr, hz⟩ := h
  cases x with
  | nan => rfl
  | inf s => rfl
  | fin s u =>
    obtain ⟨hf, hlt⟩ := hr
    simp only [add, zero, addFin]
    cases s
    · simp only [if_true, Nat.add_zero]
      rw [roundU_id0 hf hlt]; rfl
    · have hu : u ≠ 0 := fun e => hz (by rw [e])
      simp only [Bool.true_eq_false, if_false]
      rw [if_neg hu, if_pos (by omega), Nat.sub_zero, roundU_id0 hf hlt]; rfl

theorem sub_zero_right {x : V} (h : Normal x) : sub x zero = x := by
  obtain ⟨hr, hz⟩ := h
  cases x with
  | nan => rfl
  | inf s => rfl
  | fin s u =>
    obtain ⟨hf, hlt⟩ := hr
    simp only [sub, add, zero, V.neg, addFin, Bool.not_false]
    cases s
    · have hu : u = 0 ∨ 0 < u := by omega
      simp only [Bool.false_eq_true, if_false]
      rcases hu with rfl | hu
      · simp
      · rw [if_neg (by omega), if_pos hu, Nat.sub_zero, roundU_id0 hf hlt]; rfl
    · simp only [if_true, Nat.add_zero]
      rw [roundU_id0 hf hlt]; rfl

theorem mul_one_left {x : V} (h : x.Rep) : mul one x = x := by
  cases x with
  | nan => rfl
  | inf s =>
    simp only [mul, one]
    rw [if_neg (by have := Nat.two_pow_pos UNIT; omega)]; simp
  | fin s u =>
    obtain ⟨hf, hlt⟩ := h
    simp only [mul, one]
    rw [Nat.mul_comm, roundU_id hf hlt]; simp [signed]

theorem mul_one_right {x : V} (h : x.Rep) : mul x one = x := by
  cases x with
  | nan => rfl
  | inf s =>
    simp only [mul, one]
    rw [if_neg (by have := Nat.two_pow_pos UNIT; omega)]; simp
  | fin s u =>
    obtain ⟨hf, hlt⟩ := h
    simp only [mul, one]
    rw [roundU_id hf hlt]; simp [signed]

theorem divU_one {u : Nat} (hf : Fits u) (hlt : u < 2 ^ OVF) : divU u (2 ^ UNIT) = .fin u := by
  simp only [divU]
  rw [roundQ_units hf _ (Nat.two_pow_pos _), mk_of_lt hlt]

theorem div_one_right {x : V} (h : x.Rep) : div x one = x := by
  cases x with
  | nan => rfl
  | inf s => simp [div, one]
  | fin s u =>
    obtain ⟨hf, hlt⟩ := h
    simp only [div, one]
    rw [if_neg (by have := Nat.two_pow_pos UNIT; omega), divU_one hf hlt]; simp [signed]

/-! ## NaN is absorbing -/

theorem add_nan_left (x : V) : add .nan x = .nan := rfl
theorem add_nan_right (x : V) : add x .nan = .nan := by cases x <;> rfl
theorem sub_nan_left (x : V) : sub .nan x = .nan := rfl
theorem sub_nan_right (x : V) : sub x .nan = .nan := by cases x <;> rfl
theorem mul_nan_left (x : V) : mul .nan x = .nan := rfl
theorem mul_nan_right (x : V) : mul x .nan = .nan := by cases x <;> rfl
theorem div_nan_left (x : V) : div .nan x = .nan := rfl
theorem div_nan_right (x : V) : div x .nan = .nan := by cases x <;> rfl

/-! ## commutativity -/

theorem addFin_comm (sa : Bool) (a : Nat) (sb : Bool) (b : Nat) :
    addFin sa a sb b = addFin sb b sa a := by
  unfold addFin
  by_cases hs : sa = sb
  · subst hs; simp only [if_true, Nat.add_comm]
  · have hs' : ¬ sb = sa := fun e => hs e.symm
    simp only [hs, hs', if_false]
    by_cases hab : a = b
    · subst hab; simp
    · have hba : ¬ b = a := fun e => hab e.symm
      simp only [hab, hba, if_false]
      by_cases hlt : b < a
      · rw [if_pos hlt, if_neg (by omega)]
      · rw [if_neg hlt, if_pos (by omega)]

theorem add_comm (x y : V) : add x y = add y x := by
  cases x <;> cases y <;> simp only [add]
  · exact addFin_comm ..
  · rename_i s s'
    by_cases h : s = s'
    · subst h; rfl
    · have h' : ¬ s' = s := fun e => h e.symm
      simp [h, h']

theorem mul_comm (x y : V) : mul x y = mul y x := by
  cases x <;> cases y <;> simp only [mul, Nat.mul_comm, bne_comm']

/-! ## the order -/

/-- the order of the extended reals on non-NaN data, `-0 = +0` -/
def lt : V → V → Prop
  | .nan, _ => False
  | _, .nan => False
  | .inf s, .inf s' => s = true ∧ s' = false
  | .inf s, .fin _ _ => s = true
  | .fin _ _, .inf s => s = false
  | .fin sa a, .fin sb b => sInt sa a < sInt sb b

instance (x y : V) : Decidable (lt x y) := by
  cases x <;> cases y <;> unfold lt <;> infer_instance

theorem pcmp_self (x : V) : pcmp x x = some .eq := by
  cases x with
  | nan => rfl
  | inf s => simp [pcmp]
  | fin s u => simp only [pcmp]; rw [Int.compare_eq_eq.2 rfl]

theorem pcmp_swap (x y : V) : pcmp y x = (pcmp x y).map Ordering.swap := by
  cases x <;> cases y <;> simp only [pcmp, Option.map_some, Option.map_none]
  · rw [Int.compare_swap]
  · rename_i s u s'; cases s' <;> rfl
  · rename_i s s' u; cases s <;> rfl
  · rename_i s s'; cases s <;> cases s' <;> rfl
  · rfl

theorem pcmp_lt_iff (x y : V) : pcmp x y = some .lt ↔ lt x y := by
  cases x <;> cases y <;> simp only [pcmp, lt, Option.some.injEq, reduceCtorEq]
  · exact Int.compare_eq_lt
  · rename_i s s' u; cases u <;> simp
  · rename_i s s'; cases s <;> simp
  · rename_i s s'; cases s <;> cases s' <;> simp

theorem pcmp_gt_iff (x y : V) : pcmp x y = some .gt ↔ lt y x := by
  rw [← pcmp_lt_iff, pcmp_swap x y]
  cases pcmp x y with
  | none => simp
  | some o => cases o <;> simp [Ordering.swap]

theorem pcmp_none_iff (x y : V) :
    pcmp x y = none ↔ (x = .nan ∧ y ≠ .nan) ∨ (x ≠ .nan ∧ y = .nan) := by
  cases x <;> cases y <;> simp [pcmp]

theorem sInt_eq {sa sb : Bool} {a b : Nat} (h : sInt sa a = sInt sb b) :
    a = b ∧ (sa = sb ∨ a = 0) := by
  cases sa <;> cases sb <;> simp only [sInt, Bool.false_eq_true, if_false, if_true] at h <;>
    simp <;> omega

/-- on values an `F64` can hold, `partial_cmp` says `Equal` exactly for identical data (this is
where the normalisation of `-0.0` matters: `pcmp (+0) (-0) = Equal`) -/
theorem pcmp_eq_iff {x y : V} (hx : Normal x) (hy : Normal y) : pcmp x y = some .eq ↔ x = y := by
  constructor
  · intro h
    cases x <;> cases y <;> simp only [pcmp, Option.some.injEq, reduceCtorEq] at h
    · rename_i sa a sb b
      obtain ⟨rfl, hs | rfl⟩ := sInt_eq (Int.compare_eq_eq.1 h)
      · rw [hs]
      · cases sa
        · cases sb
          · rfl
          · exact absurd rfl hy.2
        · exact absurd rfl hx.2
    · rename_i s s'; cases s' <;> simp at h
    · rename_i s s' u; cases s <;> simp at h
    · rename_i s s'; cases s <;> cases s' <;> simp at h <;> rfl
    · rfl
  · rintro rfl; exact pcmp_self x

theorem lt_irrefl (x : V) : ¬ lt x x := by
  cases x <;> simp [lt]

theorem lt_trans {x y z : V} (h1 : lt x y) (h2 : lt y z) : lt x z := by
  cases x <;> cases y <;> cases z <;> simp only [lt] at h1 h2 ⊢ <;>
    first | exact Int.lt_trans h1 h2 | simp_all

theorem lt_total {x y : V} (hx : Normal x) (hy : Normal y) (nx : x ≠ .nan) (ny : y ≠ .nan) :
    lt x y ∨ x = y ∨ lt y x := by
  cases h : pcmp x y with
  | none =>
    rcases (pcmp_none_iff x y).1 h with ⟨e, _⟩ | ⟨_, e⟩
    · exact absurd e nx
    · exact absurd e ny
  | some o =>
    cases o
    · exact Or.inl ((pcmp_lt_iff x y).1 h)
    · exact Or.inr (Or.inl ((pcmp_eq_iff hx hy).1 h))
    · exact Or.inr (Or.inr ((pcmp_gt_iff x y).1 h))

end OxiddModel.Num.Ieee
