import OxiddModel.Num.IeeeLemmas

/-!
# Encoding and decoding of bit patterns are inverse to each other on representable data
-/
namespace OxiddModel.Num.Ieee
open OxiddModel.Num.F64C V

attribute [local irreducible] OxiddModel.Num.F64C.mk

theorem bitlen_53 {m : Nat} (h1 : 2 ^ 52 ≤ m) (h2 : m < 2 ^ 53) : bitlen m = 53 :=
  bitlen_unique h1 h2

/-- the three fields of a 64-bit pattern -/
theorem bits_split (b : Nat) (hb : b < 2 ^ 64) :
    b = (b / 2 ^ 63 % 2) * 2 ^ 63 + (b / 2 ^ 52 % 2 ^ 11) * 2 ^ 52 + b % 2 ^ 52 := by omega

theorem signBit_decide (b : Nat) :
    signBit (decide (b / 2 ^ 63 % 2 = 1)) = (b / 2 ^ 63 % 2) * 2 ^ 63 := by
  by_cases h : b / 2 ^ 63 % 2 = 1
  · simp [signBit, h]
  · have : b / 2 ^ 63 % 2 = 0 := by omega
    simp [signBit, this]

/-- decoding then encoding gives the pattern back (NaN patterns are all encoded as `f64::NAN`) -/
theorem toBits_ofBits (b : Nat) (hb : b < 2 ^ 64) (hn : ofBits b ≠ .nan) : toBits (ofBits b) = b := by
  have hs := bits_split b hb
  have hm : b % 2 ^ 52 < 2 ^ 52 := Nat.mod_lt _ (by omega)
  have he : b / 2 ^ 52 % 2 ^ 11 < 2 ^ 11 := Nat.mod_lt _ (by omega)
  simp only [ofBits] at hn ⊢
  generalize hmant : b % 2 ^ 52 = mant at *
  generalize hex : b / 2 ^ 52 % 2 ^ 11 = ex at *
  by_cases h0 : ex = 0
  · rw [if_pos h0]
    have hbl := bitlen_le hm
    have e0 : bitlen mant - 53 = 0 := by omega
    simp only [toBits, e0, Nat.zero_mul, Nat.shiftRight_zero, Nat.zero_add, signBit_decide]
    omega
  · rw [if_neg h0] at hn ⊢
    by_cases h1 : ex = 2047
    · rw [if_pos h1] at hn ⊢
      by_cases hm0 : mant = 0
      · rw [if_pos hm0]
        simp only [toBits, signBit_decide, INF_BITS]
        omega
      · rw [if_neg hm0] at hn; exact absurd rfl hn
    · rw [if_neg h1]
      have hM : bitlen (2 ^ 52 + mant) = 53 := bitlen_53 (by omega) (by omega)
      have hbl : bitlen ((2 ^ 52 + mant) * 2 ^ (ex - 1)) = 53 + (ex - 1) := by
        rw [bitlen_mul_pow (by omega), hM]
      simp only [toBits, hbl, Nat.add_sub_cancel_left, Nat.shiftRight_eq_div_pow,
        Nat.mul_div_cancel _ (Nat.two_pow_pos _), signBit_decide]
      omega

theorem toBits_lt (x : V) (h : x.Rep) : toBits x < 2 ^ 64 := by
  cases x with
  | nan => decide
  | inf s => cases s <;> decide
  | fin s u =>
    obtain ⟨hf, hlt⟩ := h
    have hS : signBit s ≤ 2 ^ 63 := by cases s <;> simp [signBit]
    simp only [toBits, Nat.shiftRight_eq_div_pow]
    by_cases hu : u < 2 ^ 52
    · have := bitlen_le hu
      have e0 : bitlen u - 53 = 0 := by omega
      simp only [e0, Nat.zero_mul, Nat.pow_zero, Nat.div_one, Nat.zero_add]
      omega
    · have hu0 : u ≠ 0 := by omega
      have hb1 := le_bitlen (show 2 ^ 52 ≤ u by omega)
      have hb2 : bitlen u ≤ OVF := bitlen_le hlt
      have h2 := lt_two_pow_bitlen u
      have hq : u / 2 ^ (bitlen u - 53) < 2 ^ 53 := by
        rw [Nat.div_lt_iff_lt_mul (Nat.two_pow_pos _), ← Nat.pow_add]
        have : 53 + (bitlen u - 53) = bitlen u := by omega
        rw [this]; exact h2
      have he : bitlen u - 53 ≤ 2045 := by simp only [OVF, EMAX, UNIT] at hb2; omega
      omega

/-- encoding then decoding gives a representable datum back: the encoding is injective, so the
bitwise `==`/`Hash` of `F64` are equality of data -/
theorem ofBits_toBits (x : V) (h : x.Rep) : ofBits (toBits x) = x := by
  cases x with
  | nan => decide
  | inf s => cases s <;> decide
  | fin s u =>
    obtain ⟨hf, hlt⟩ := h
    have hS : signBit s = (if s then 1 else 0) * 2 ^ 63 := by cases s <;> simp [signBit]
    have hsd : ∀ B : Nat, B / 2 ^ 63 % 2 = (if s then 1 else 0) → decide (B / 2 ^ 63 % 2 = 1) = s := by
      intro B hB; cases s <;> simp_all
    simp only [toBits, Nat.shiftRight_eq_div_pow]
    by_cases hu : u < 2 ^ 52
    · have := bitlen_le hu
      have e0 : bitlen u - 53 = 0 := by omega
      simp only [e0, Nat.zero_mul, Nat.pow_zero, Nat.div_one, Nat.zero_add]
      generalize hB : signBit s + u = B
      have h1 : B / 2 ^ 63 % 2 = (if s then 1 else 0) := by
        rw [← hB, hS]; split <;> omega
      have h2 : B / 2 ^ 52 % 2 ^ 11 = 0 := by rw [← hB, hS]; split <;> omega
      have h3 : B % 2 ^ 52 = u := by rw [← hB, hS]; split <;> omega
      simp only [ofBits, h2, if_true, h3, hsd B h1]
    · have hu0 : u ≠ 0 := by omega
      have hb1 := le_bitlen (show 2 ^ 52 ≤ u by omega)
      have hb2 : bitlen u ≤ OVF := bitlen_le hlt
      have h1' := two_pow_bitlen_le hu0
      have h2' := lt_two_pow_bitlen u
      generalize he : bitlen u - 53 = e at *
      have hbe : bitlen u = 53 + e := by omega
      have hq2 : u / 2 ^ e < 2 ^ 53 := by
        rw [Nat.div_lt_iff_lt_mul (Nat.two_pow_pos _), ← Nat.pow_add, ← hbe]; exact h2'
      have hq1 : 2 ^ 52 ≤ u / 2 ^ e := by
        rw [Nat.le_div_iff_mul_le (Nat.two_pow_pos _), ← Nat.pow_add]
        have : 52 + e = bitlen u - 1 := by omega
        rw [this]; exact h1'
      have hE : e ≤ 2045 := by simp only [OVF, EMAX, UNIT] at hb2; omega
      have hval : u / 2 ^ e * 2 ^ e = u := Nat.div_mul_cancel (Nat.dvd_of_mod_eq_zero (he ▸ hf))
      generalize hmm : u / 2 ^ e = mm at *
      generalize hB : signBit s + (e * 2 ^ 52 + mm) = B
      have h1 : B / 2 ^ 63 % 2 = (if s then 1 else 0) := by
        rw [← hB, hS]; split <;> omega
      have h2 : B / 2 ^ 52 % 2 ^ 11 = e + 1 := by rw [← hB, hS]; split <;> omega
      have h3 : B % 2 ^ 52 = mm - 2 ^ 52 := by rw [← hB, hS]; split <;> omega
      simp only [ofBits, h2, h3, hsd B h1]
      rw [if_neg (by omega), if_neg (by omega)]
      have : 2 ^ 52 + (mm - 2 ^ 52) = mm := by omega
      rw [this, Nat.add_sub_cancel, hval]

theorem ofBits_rep (b : Nat) : (ofBits b).Rep := by
  have hm : b % 2 ^ 52 < 2 ^ 52 := Nat.mod_lt _ (by omega)
  have he : b / 2 ^ 52 % 2 ^ 11 < 2 ^ 11 := Nat.mod_lt _ (by omega)
  simp only [ofBits]
  generalize b % 2 ^ 52 = mant at *
  generalize b / 2 ^ 52 % 2 ^ 11 = ex at *
  split
  · refine ⟨fits_of_lt (by omega), ?_⟩
    exact Nat.lt_trans hm (Nat.pow_lt_pow_right (by omega) (by decide))
  split
  · split
    · exact rep_inf _
    · exact rep_nan
  · have hM : 2 ^ 52 + mant < 2 ^ 53 := by omega
    refine ⟨fits_mul_pow (fits_of_lt hM) _, ?_⟩
    have h1 : (2 ^ 52 + mant) * 2 ^ (ex - 1) < 2 ^ 53 * 2 ^ (ex - 1) :=
      Nat.mul_lt_mul_of_pos_right hM (Nat.two_pow_pos _)
    rw [← Nat.pow_add] at h1
    exact Nat.lt_of_lt_of_le h1 (Nat.pow_le_pow_right (by omega) (by simp only [OVF, EMAX, UNIT]; omega))

/-- `F64::from(f64::from_bits(b))` is a value an `F64` can hold, for every pattern -/
theorem fromBits_normal (b : Nat) : Normal (fromBits b) := normalise_normal _ (ofBits_rep b)

end OxiddModel.Num.Ieee
