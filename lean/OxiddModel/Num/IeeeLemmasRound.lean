import OxiddModel.Num.Ieee
import OxiddModel.Num.F64CountLemmasRound

/-!
# `roundQ` is the round-to-nearest-even of a rational, `roundU` its dyadic instance

The specification `IsRNE p q r` is independent of how the rounding is computed: among all values
with at most 53 significant bits (integers `v` with `v % 2^(bitlen v - 53) = 0`: multiples of the
unit, so subnormals are included; the exponent is unbounded above — overflow is a separate check on
the rounded value, as in IEEE-754 §7.4), `r` is nearest to the exact `p / q`, and if another value is
equally near, the last mantissa bit of `r` is `0`.  Distances are compared after multiplication by
`q` (no rationals needed).
-/
set_option exponentiation.threshold 3000
namespace OxiddModel.Num.Ieee
open OxiddModel.Num.F64C

attribute [local irreducible] OxiddModel.Num.F64C.mk

/-- `|a − b|` on naturals -/
def dist (a b : Nat) : Nat := (a - b) + (b - a)

/-- the last of the 53 mantissa bits of `r` is `0` (in the subnormal range: an even number of
units) -/
def EvenM (r : Nat) : Prop := r % 2 ^ (bitlen r - 53 + 1) = 0

instance (r : Nat) : Decidable (EvenM r) := by unfold EvenM; infer_instance

/-- **round to nearest, ties to even, of the rational `p / q`** (`0 < q`) to 53 significant bits
with unbounded exponent range above and the fixed unit below -/
def IsRNE (p q r : Nat) : Prop :=
  Fits r ∧ ∀ v, Fits v →
    dist (r * q) p < dist (v * q) p ∨ (dist (r * q) p = dist (v * q) p ∧ (v = r ∨ EvenM r))

/-! ## `rneQ`: nearest integer, ties to even -/

theorem rne_eq_rneQ (m s : Nat) : rne m s = rneQ m (2 ^ s) := rfl

theorem rneQ_exact (k P : Nat) (hP : 0 < P) : rneQ (k * P) P = k := by
  simp only [rneQ, Nat.mul_div_cancel _ hP, Nat.mul_mod_left]
  rw [if_neg (by omega)]

theorem rneQ_cases (p P : Nat) :
    (rneQ p P = p / P ∧ (2 * (p % P) < P ∨ (2 * (p % P) = P ∧ (p / P) % 2 = 0))) ∨
    (rneQ p P = p / P + 1 ∧ (P < 2 * (p % P) ∨ (2 * (p % P) = P ∧ (p / P) % 2 = 1))) := by
  simp only [rneQ]
  split
  · right; exact ⟨rfl, by assumption⟩
  · left; refine ⟨rfl, ?_⟩; omega

theorem rneQ_le_succ (p P : Nat) : rneQ p P ≤ p / P + 1 := by
  rcases rneQ_cases p P with ⟨h, _⟩ | ⟨h, _⟩ <;> omega

/-- `rneQ p P · P` is a multiple of `P` nearest to `p`; if another multiple is equally near, `rneQ p P`
is even -/
theorem rneQ_nearest (p P j : Nat) (hP : 0 < P) :
    dist (rneQ p P * P) p ≤ dist (j * P) p ∧
    (dist (rneQ p P * P) p = dist (j * P) p → j = rneQ p P ∨ rneQ p P % 2 = 0) := by
  have hd : P * (p / P) + p % P = p := Nat.div_add_mod p P
  have hr : p % P < P := Nat.mod_lt p hP
  have hc := rneQ_cases p P
  rw [Nat.mul_comm] at hd
  generalize p / P = k at hd hc
  generalize p % P = rem at hd hr hc
  generalize rneQ p P = r0 at hc ⊢
  have e1 : (k + 1) * P = k * P + P := Nat.succ_mul k P
  -- position of `j * P` relative to `k * P`
  have hj : (j + 1 ≤ k ∧ j * P + P ≤ k * P) ∨ (j = k) ∨ (j = k + 1) ∨
      (k + 2 ≤ j ∧ k * P + 2 * P ≤ j * P) := by
    by_cases h1 : j + 1 ≤ k
    · left; refine ⟨h1, ?_⟩
      have := Nat.mul_le_mul_right P h1
      rwa [Nat.succ_mul] at this
    by_cases h2 : j = k
    · exact Or.inr (Or.inl h2)
    by_cases h3 : j = k + 1
    · exact Or.inr (Or.inr (Or.inl h3))
    right; right; right
    refine ⟨by omega, ?_⟩
    have := Nat.mul_le_mul_right P (show k + 2 ≤ j by omega)
    rw [Nat.add_mul] at this
    exact this
  rcases hc with ⟨rfl, hc⟩ | ⟨rfl, hc⟩ <;>
    simp only [dist] <;>
    rcases hj with ⟨_, hj⟩ | rfl | rfl | ⟨_, hj⟩ <;> (try rw [e1]) <;> omega

/-! ## the grid of 53-bit values -/

theorem fits_grid {v L : Nat} (hf : Fits v) (h : 2 ^ (L - 1) ≤ v) : 2 ^ (L - 53) ∣ v := by
  have hb : L ≤ bitlen v := by
    have := le_bitlen h
    omega
  exact Nat.dvd_trans (Nat.pow_dvd_pow 2 (by omega)) (Nat.dvd_of_mod_eq_zero hf)

theorem evenM_mul_pow {r0 : Nat} (h53 : r0 ≤ 2 ^ 53) (he : r0 % 2 = 0) (k : Nat) :
    EvenM (r0 * 2 ^ k) := by
  unfold EvenM
  by_cases h0 : r0 = 0
  · subst h0; simp
  apply Nat.mod_eq_zero_of_dvd
  rw [bitlen_mul_pow h0]
  by_cases hlt : r0 < 2 ^ 53
  · have hb := bitlen_le hlt
    obtain ⟨c, rfl⟩ : 2 ∣ r0 := Nat.dvd_of_mod_eq_zero he
    have e : 2 * c * 2 ^ k = c * 2 ^ (k + 1) := by
      rw [Nat.pow_succ, Nat.mul_comm 2 c, Nat.mul_assoc, Nat.mul_comm 2]
    rw [e]
    exact Nat.dvd_trans (Nat.pow_dvd_pow 2 (by omega)) (Nat.dvd_mul_left _ _)
  · have e : r0 = 2 ^ 53 := by omega
    subst e
    rw [bitlen_two_pow, ← Nat.pow_add]
    exact Nat.pow_dvd_pow 2 (by omega)

/-! ## `roundQ` -/

theorem rneQ_roundQ_le (p q : Nat) (_hq : 0 < q) :
    rneQ p (q * 2 ^ (bitlen (p / q) - 53)) ≤ 2 ^ 53 := by
  have h1 := rneQ_le_succ p (q * 2 ^ (bitlen (p / q) - 53))
  rw [← Nat.div_div_eq_div_mul] at h1
  have h2 := lt_two_pow_bitlen (p / q)
  have h3 : p / q / 2 ^ (bitlen (p / q) - 53) < 2 ^ 53 := by
    rw [Nat.div_lt_iff_lt_mul (Nat.two_pow_pos _), ← Nat.pow_add]
    exact Nat.lt_of_lt_of_le h2 (Nat.pow_le_pow_right (by omega) (by omega))
  omega

theorem fits_roundQ (p q : Nat) (hq : 0 < q) : Fits (roundQ p q) := by
  have h := rneQ_roundQ_le p q hq
  by_cases e : rneQ p (q * 2 ^ (bitlen (p / q) - 53)) = 2 ^ 53
  · simp only [roundQ, e]; exact fits_mul_pow (fits_two_pow 53) _
  · exact fits_mul_pow (fits_of_lt (by omega)) _

/-- **`roundQ p q` is the nearest-even rounding of the rational `p / q`** -/
theorem roundQ_isRNE (p q : Nat) (hq : 0 < q) : IsRNE p q (roundQ p q) := by
  refine ⟨fits_roundQ p q hq, fun v hv => ?_⟩
  have h53 := rneQ_roundQ_le p q hq
  simp only [roundQ]
  generalize hL : bitlen (p / q) = L at h53 ⊢
  generalize hs : L - 53 = s at h53 ⊢
  have hP : 0 < q * 2 ^ s := Nat.mul_pos hq (Nat.two_pow_pos _)
  generalize hr0 : rneQ p (q * 2 ^ s) = r0 at h53 ⊢
  have erq : r0 * 2 ^ s * q = r0 * (q * 2 ^ s) := by
    rw [Nat.mul_assoc, Nat.mul_comm (2 ^ s) q]
  rw [erq]
  by_cases hdv : 2 ^ s ∣ v
  · obtain ⟨j, rfl⟩ := hdv
    have evq : 2 ^ s * j * q = j * (q * 2 ^ s) := by
      rw [Nat.mul_comm (2 ^ s) j, Nat.mul_assoc, Nat.mul_comm (2 ^ s) q]
    rw [evq]
    have hB := rneQ_nearest p (q * 2 ^ s) j hP
    rw [hr0] at hB
    rcases Nat.lt_or_eq_of_le hB.1 with h | h
    · exact Or.inl h
    · refine Or.inr ⟨h, ?_⟩
      rcases hB.2 h with rfl | he
      · left; exact Nat.mul_comm _ _
      · right; exact evenM_mul_pow h53 he s
  · left
    -- `v` is below the binade of `p / q`; `2^(L-1)` is a multiple of `2^s` that is nearer
    have hs0 : s ≠ 0 := by
      intro e; subst e; exact hdv (by simp)
    have hlt : v < 2 ^ (L - 1) := by
      apply Nat.lt_of_not_le
      intro h
      exact hdv (hs ▸ fits_grid hv h)
    have hk0 : p / q ≠ 0 := by
      intro e; rw [e, bitlen_zero] at hL; omega
    have hk : 2 ^ (L - 1) ≤ p / q := hL ▸ two_pow_bitlen_le hk0
    have hkq : 2 ^ (L - 1) * q ≤ p := by
      have := Nat.mul_le_mul_right q hk
      exact Nat.le_trans this (Nat.div_mul_le_self p q)
    have e52 : 2 ^ (L - 1) * q = 2 ^ (L - 1 - s) * (q * 2 ^ s) := by
      have : 2 ^ (L - 1) = 2 ^ (L - 1 - s) * 2 ^ s := by
        rw [← Nat.pow_add]; congr 1; omega
      rw [this, Nat.mul_assoc, Nat.mul_comm (2 ^ s) q]
    have hB := (rneQ_nearest p (q * 2 ^ s) (2 ^ (L - 1 - s)) hP).1
    rw [hr0, ← e52] at hB
    have hvq : v * q < 2 ^ (L - 1) * q := Nat.mul_lt_mul_of_pos_right hlt hq
    simp only [dist] at hB ⊢
    omega

theorem roundQ_units {u : Nat} (hf : Fits u) (q : Nat) (hq : 0 < q) : roundQ (u * q) q = u := by
  simp only [roundQ, Nat.mul_div_cancel _ hq]
  unfold Fits at hf
  generalize bitlen u - 53 = E at hf ⊢
  obtain ⟨c, hc⟩ := Nat.dvd_of_mod_eq_zero hf
  have e : u * q = c * (q * 2 ^ E) := by
    rw [hc, Nat.mul_comm (2 ^ _) c, Nat.mul_assoc, Nat.mul_comm (2 ^ _) q]
  rw [e, rneQ_exact _ _ (Nat.mul_pos hq (Nat.two_pow_pos _)), Nat.mul_comm c, ← hc]

/-! ## `roundU` is `roundQ` with a power-of-two denominator -/

theorem bitlen_div_pow (m t : Nat) : bitlen (m / 2 ^ t) = bitlen m - t := by
  by_cases h : m < 2 ^ t
  · rw [Nat.div_eq_of_lt h, bitlen_zero]
    have := bitlen_le h; omega
  · have hm : m ≠ 0 := by have := Nat.two_pow_pos t; omega
    have ht : t + 1 ≤ bitlen m := le_bitlen (by omega)
    have h1 := two_pow_bitlen_le hm
    have h2 := lt_two_pow_bitlen m
    have e : bitlen m - t = (bitlen m - t - 1) + 1 := by omega
    rw [e]
    apply bitlen_unique
    · rw [Nat.le_div_iff_mul_le (Nat.two_pow_pos _), ← Nat.pow_add]
      have : bitlen m - t - 1 + t = bitlen m - 1 := by omega
      rw [this]; exact h1
    · rw [Nat.div_lt_iff_lt_mul (Nat.two_pow_pos _), ← Nat.pow_add]
      have : bitlen m - t - 1 + 1 + t = bitlen m := by omega
      rw [this]; exact h2

theorem roundU_eq_roundQ (m t : Nat) : roundU m t = mk (roundQ m (2 ^ t)) := by
  simp only [roundU, roundQ, bitlen_div_pow]
  have e1 : max t (bitlen m - 53) - t = bitlen m - t - 53 := by omega
  have e2 : 2 ^ t * 2 ^ (bitlen m - t - 53) = 2 ^ max t (bitlen m - 53) := by
    rw [← Nat.pow_add]; congr 1; omega
  rw [e1, e2, rne_eq_rneQ]

/-- every rounding of the model is a nearest-even rounding followed by the overflow check -/
theorem roundU_isRNE (m t : Nat) : ∃ r, IsRNE m (2 ^ t) r ∧ roundU m t = mk r :=
  ⟨_, roundQ_isRNE m (2 ^ t) (Nat.two_pow_pos t), roundU_eq_roundQ m t⟩

theorem divU_isRNE (a b : Nat) (hb : 0 < b) : ∃ r, IsRNE (a * 2 ^ UNIT) b r ∧ divU a b = mk r :=
  ⟨_, roundQ_isRNE _ b hb, rfl⟩

/-! ## `IsRNE` determines the rounded value -/

theorem bitlen_mono {a b : Nat} (h : a ≤ b) : bitlen a ≤ bitlen b :=
  bitlen_le (Nat.lt_of_le_of_lt h (lt_two_pow_bitlen b))

/-- two distinct equidistant 53-bit values cannot both have an even mantissa: the value half-way
between them (in the grid of the smaller one) would be strictly nearer -/
theorem isRNE_no_two_even {p q r r' : Nat} (hq : 0 < q) (h : IsRNE p q r) (_hf' : Fits r')
    (hlt : r < r') (he : EvenM r) (he' : EvenM r') (hd : dist (r * q) p = dist (r' * q) p) :
    False := by
  unfold EvenM at he he'
  generalize hE : bitlen r - 53 = e at he
  have hbl : bitlen r ≤ e + 53 := by omega
  obtain ⟨c, hc⟩ := Nat.dvd_of_mod_eq_zero he
  -- `r'` is a multiple of `2^(e+1)`, too
  have hb' : bitlen r ≤ bitlen r' := bitlen_mono (Nat.le_of_lt hlt)
  obtain ⟨c', hc'⟩ : 2 ^ (e + 1) ∣ r' :=
    Nat.dvd_trans (Nat.pow_dvd_pow 2 (by omega)) (Nat.dvd_of_mod_eq_zero he')
  have hcc : c < c' := by
    rw [hc, hc'] at hlt
    exact Nat.lt_of_mul_lt_mul_left hlt
  have hstep : r + 2 ^ (e + 1) ≤ r' := by
    rw [hc, hc', ← Nat.mul_succ]
    exact Nat.mul_le_mul_left _ hcc
  have hc52 : c < 2 ^ 52 := by
    have h1 := lt_two_pow_bitlen r
    have h2 : 2 ^ bitlen r ≤ 2 ^ (e + 53) := Nat.pow_le_pow_right (by omega) hbl
    have h3 : 2 ^ (e + 53) = 2 ^ (e + 1) * 2 ^ 52 := by rw [← Nat.pow_add]
    have h4 : 2 ^ (e + 1) * c < 2 ^ (e + 1) * 2 ^ 52 := by
      rw [← hc, ← h3]; exact Nat.lt_of_lt_of_le h1 h2
    exact Nat.lt_of_mul_lt_mul_left h4
  have hv : r + 2 ^ e = (2 * c + 1) * 2 ^ e := by
    rw [hc, Nat.pow_succ, Nat.add_mul, Nat.one_mul, Nat.mul_comm (2 * c), Nat.mul_assoc,
      Nat.mul_comm 2 c]
  have hfv : Fits (r + 2 ^ e) := by
    rw [hv]; exact fits_mul_pow (fits_of_lt (by omega)) e
  have hpe := Nat.two_pow_pos e
  have hvr' : r + 2 ^ e < r' := by rw [Nat.pow_succ] at hstep; omega
  have h1 : r * q < (r + 2 ^ e) * q := Nat.mul_lt_mul_of_pos_right (by omega) hq
  have h2 : (r + 2 ^ e) * q < r' * q := Nat.mul_lt_mul_of_pos_right hvr' hq
  have := h.2 _ hfv
  simp only [dist] at this hd
  omega

/-- **`IsRNE p q ·` has at most one solution**: the specification determines the rounded value -/
theorem isRNE_unique {p q r r' : Nat} (hq : 0 < q) (h : IsRNE p q r) (h' : IsRNE p q r') :
    r = r' := by
  apply Classical.byContradiction
  intro hne
  have a1 := h.2 r' h'.1
  have a2 := h'.2 r h.1
  have hne' : r' ≠ r := fun e => hne e.symm
  have hd : dist (r * q) p = dist (r' * q) p := by
    rcases a1 with a1 | a1 <;> rcases a2 with a2 | a2 <;> omega
  have e1 : EvenM r := by
    rcases a1 with a1 | ⟨_, a1 | a1⟩
    · omega
    · exact absurd a1 hne'
    · exact a1
  have e2 : EvenM r' := by
    rcases a2 with a2 | ⟨_, a2 | a2⟩
    · omega
    · exact absurd a2 hne
    · exact a2
  rcases Nat.lt_or_gt_of_ne hne with hlt | hlt
  · exact isRNE_no_two_even hq h h'.1 hlt e1 e2 hd
  · exact isRNE_no_two_even hq h' h.1 hlt e2 e1 hd.symm

/-- hence: whatever computes a value satisfying the specification computes `roundQ` -/
theorem isRNE_iff_roundQ {p q r : Nat} (hq : 0 < q) : IsRNE p q r ↔ r = roundQ p q :=
  ⟨fun h => isRNE_unique hq h (roundQ_isRNE p q hq), fun e => e ▸ roundQ_isRNE p q hq⟩

/-! ## overflow: exactly from the largest finite value plus half an ulp on -/

/-- the largest finite binary64 value `(2^53 − 1) · 2^971`, in units -/
def MAXFIN : Nat := 2 ^ OVF - 2 ^ (OVF - 53)

/-- the overflow threshold `MAXFIN + ulp/2 = 2^1024 − 2^970`, in units -/
def OVF_TH : Nat := 2 ^ OVF - 2 ^ (OVF - 54)

theorem fits_maxfin : Fits MAXFIN := by
  have : MAXFIN = (2 ^ 53 - 1) * 2 ^ (OVF - 53) := by
    rw [Nat.sub_mul, ← Nat.pow_add, Nat.one_mul]; rfl
  rw [this]
  exact fits_mul_pow (fits_of_lt (by omega)) _

theorem not_evenM_maxfin : ¬ EvenM MAXFIN := by decide +kernel

theorem le_maxfin {r : Nat} (hf : Fits r) (h : r < 2 ^ OVF) : r ≤ MAXFIN := by
  by_cases h1 : r < 2 ^ (OVF - 1)
  · have : 2 ^ (OVF - 1) ≤ MAXFIN := by decide
    omega
  · have hb : bitlen r = OVF := by
      have e : OVF - 1 + 1 = OVF := by decide
      have := bitlen_unique (L := OVF - 1) (Nat.le_of_not_lt h1) (by rw [e]; exact h)
      rw [this, e]
    unfold Fits at hf
    rw [hb] at hf
    obtain ⟨c, hc⟩ := Nat.dvd_of_mod_eq_zero hf
    have hc53 : c < 2 ^ 53 := by
      apply Nat.lt_of_not_le
      intro hge
      have := Nat.mul_le_mul_left (2 ^ (OVF - 53)) hge
      rw [← Nat.pow_add, ← hc] at this
      have e : OVF - 53 + 53 = OVF := by decide
      rw [e] at this
      omega
    have := Nat.mul_le_mul_left (2 ^ (OVF - 53)) (show c ≤ 2 ^ 53 - 1 by omega)
    rw [← hc, Nat.mul_sub, ← Nat.pow_add, Nat.mul_one] at this
    exact this

/-- **overflow exactly beyond the largest finite value plus half an ulp**: the nearest-even rounding
(with unbounded exponent) of `p / q` reaches `2^1024` iff `p / q ≥ 2^1024 − 2^970` -/
theorem isRNE_overflow_iff {p q r : Nat} (hq : 0 < q) (h : IsRNE p q r) :
    2 ^ OVF ≤ r ↔ OVF_TH * q ≤ p := by
  have eX : 2 ^ OVF * q = MAXFIN * q + 2 * (2 ^ (OVF - 54) * q) := by
    have : 2 ^ OVF = MAXFIN + 2 * 2 ^ (OVF - 54) := by decide
    rw [this, Nat.add_mul, Nat.mul_assoc]
  have eT : OVF_TH * q = MAXFIN * q + 2 ^ (OVF - 54) * q := by
    have : OVF_TH = MAXFIN + 2 ^ (OVF - 54) := by decide
    rw [this, Nat.add_mul]
  have hh : 0 < 2 ^ (OVF - 54) * q := Nat.mul_pos (Nat.two_pow_pos _) hq
  constructor
  · intro hr
    apply Nat.le_of_not_lt
    intro hp
    have hrq : 2 ^ OVF * q ≤ r * q := Nat.mul_le_mul_right q hr
    have := h.2 MAXFIN fits_maxfin
    simp only [dist] at this
    omega
  · intro hp
    apply Nat.le_of_not_lt
    intro hr
    have hrm := le_maxfin h.1 hr
    have hrq : r * q ≤ MAXFIN * q := Nat.mul_le_mul_right q hrm
    have := h.2 (2 ^ OVF) (fits_two_pow _)
    simp only [dist] at this
    rcases this with h1 | ⟨h1, h2 | h2⟩
    · omega
    · omega
    · have : r * q = MAXFIN * q := by omega
      have : r = MAXFIN := Nat.eq_of_mul_eq_mul_right hq this
      exact not_evenM_maxfin (this ▸ h2)

theorem mk_eq_inf_iff (r : Nat) : mk r = .inf ↔ 2 ^ OVF ≤ r := by
  constructor
  · intro h
    apply Nat.le_of_not_lt
    intro hlt; rw [mk_of_lt hlt] at h; cases h
  · exact mk_of_ge

end OxiddModel.Num.Ieee
