import OxiddModel.Num.LemmasAddSame

/-!
`Add for Natural` as a whole, in terms of the denoted values.
-/
namespace OxiddModel.Num
open Natural

/-- the numbers a `Natural` can hold: zero, or an odd mantissa times `2^e` with `e < u64::MAX` -/
def Representable (n : Nat) : Prop := n = 0 ∨ ∃ m e, m % 2 = 1 ∧ e < MAX64 ∧ n = m * 2 ^ e

theorem odd_mul_two_pow_ne_zero {m e : Nat} (hm : m % 2 = 1) : m * 2 ^ e ≠ 0 := by
  have : 0 < m := by omega
  exact Nat.ne_of_gt (Nat.mul_pos this (Nat.two_pow_pos e))

/-- the decomposition into an odd number and a power of two is unique -/
theorem odd_decomp_unique : ∀ (e e' m m' : Nat), m % 2 = 1 → m' % 2 = 1 →
    m * 2 ^ e = m' * 2 ^ e' → m = m' ∧ e = e' := by
  intro e
  induction e with
  | zero =>
    intro e' m m' hm hm' h
    cases e' with
    | zero => simpa using h
    | succ k =>
      rw [Nat.pow_succ, ← Nat.mul_assoc] at h
      simp at h
      omega
  | succ n ih =>
    intro e' m m' hm hm' h
    cases e' with
    | zero =>
      rw [Nat.pow_succ, ← Nat.mul_assoc] at h
      simp at h
      omega
    | succ k =>
      rw [Nat.pow_succ, Nat.pow_succ, ← Nat.mul_assoc, ← Nat.mul_assoc] at h
      have := Nat.eq_of_mul_eq_mul_right (by decide : 0 < 2) h
      obtain ⟨h1, h2⟩ := ih k m m' hm hm' this
      exact ⟨h1, by omega⟩

theorem representable_odd_iff {m e : Nat} (hm : m % 2 = 1) : Representable (m * 2 ^ e) ↔ e < MAX64 := by
  constructor
  · rintro (h | ⟨m', e', hm', he', h⟩)
    · exact absurd h (odd_mul_two_pow_ne_zero hm)
    · obtain ⟨_, h2⟩ := odd_decomp_unique e e' m m' hm hm' h
      omega
  · intro h; exact Or.inr ⟨m, e, hm, h, rfl⟩

theorem isNan_iff (n : Natural) : n.isNan = true ↔ n.shl = MAX64 := by
  simp [Natural.isNan]

theorem val_of_not_nan {n : Natural} (h : n.shl ≠ MAX64) :
    n.val = some (dval n.mantissaRaw * 2 ^ n.shl) := by
  have : n.isNan = false := by
    cases hh : n.isNan with
    | false => rfl
    | true => exact absurd ((isNan_iff n).1 hh) h
  simp [Natural.val, this]

theorem val_of_nan {n : Natural} (h : n.shl = MAX64) : n.val = none := by
  simp [Natural.val, (isNan_iff n).2 h]

/-- a normal form with `len == 0` that is not the error value is zero -/
theorem nf_len_zero {n : Natural} (hn : NF n) (h0 : n.len = 0) (hnan : n.shl ≠ MAX64) :
    n.val = some 0 := by
  rw [val_of_not_nan hnan]
  cases hm : n.mant with
  | inl m =>
    simp only [Natural.len, hm] at h0
    subst h0
    simp [Natural.mantissaRaw, hm]
  | heap ds =>
    have := (nf_heap_big hn hm).2
    simp only [Natural.len, hm] at h0
    omega

/-- the value of a non-zero normal form: odd mantissa, exponent below `u64::MAX` -/
theorem nf_val_odd {n : Natural} (hn : NF n) (h0 : n.len ≠ 0) (hnan : n.shl ≠ MAX64) :
    dval n.mantissaRaw % 2 = 1 ∧ n.shl < MAX64 := by
  have f := nf_mant_facts hn h0
  have := hn.1
  exact ⟨headD_odd_dval_odd f.odd, by omega⟩

theorem nf_val_representable {n : Natural} (hn : NF n) {x : Nat} (h : n.val = some x) :
    Representable x := by
  by_cases hnan : n.shl = MAX64
  · rw [val_of_nan hnan] at h; cases h
  · by_cases h0 : n.len = 0
    · rw [nf_len_zero hn h0 hnan] at h
      cases h; exact Or.inl rfl
    · obtain ⟨h1, h2⟩ := nf_val_odd hn h0 hnan
      rw [val_of_not_nan hnan] at h
      cases h
      exact Or.inr ⟨_, _, h1, h2, rfl⟩

theorem len_ne_zero_of_dval {n : Natural} (hn : NF n) (h : dval n.mantissaRaw ≠ 0) : n.len ≠ 0 := by
  cases hm : n.mant with
  | inl m =>
    simp only [Natural.mantissaRaw, hm, dval_cons, dval_nil] at h
    simp only [Natural.len, hm]; omega
  | heap ds =>
    have := (nf_heap_big hn hm).2
    simp only [Natural.len, hm]; omega

/-- specification of a sum in terms of values -/
def SumSpec (x y : Nat) (s : Natural) : Prop :=
  (Representable (x + y) → s.val = some (x + y)) ∧ (¬ Representable (x + y) → s.val = none)

theorem add_comm_spec {x y : Nat} {s : Natural} (h : SumSpec y x s) : SumSpec x y s := by
  unfold SumSpec at *; rwa [Nat.add_comm]

/-- ordered, non-zero, non-NaN operands -/
theorem add_ordered_spec (l r : Natural) (hl : NF l) (hr : NF r) (hl0 : l.len ≠ 0) (hr0 : r.len ≠ 0)
    (hln : l.shl ≠ MAX64) (hrn : r.shl ≠ MAX64) (hle : l.shl ≤ r.shl) :
    let bw := max (bitWidthOf l.mantissaRaw l.shl) (bitWidthOf r.mantissaRaw r.shl) + 1
    let s := if l.shl < r.shl then (if r.shl = MAX64 then Natural.NAN else addDiff l r bw) else addSame l r bw
    NF s ∧ SumSpec (dval l.mantissaRaw * 2 ^ l.shl) (dval r.mantissaRaw * 2 ^ r.shl) s := by
  intro bw s
  have hr1 := hr.1
  by_cases hlt : l.shl < r.shl
  · have hs : s = addDiff l r bw := by simp [s, hlt, hrn]
    rw [hs]
    obtain ⟨g1, g2, g3⟩ := addDiff_spec l r bw hl hr hl0 hr0 hlt rfl
    have hnn : (addDiff l r bw).shl ≠ MAX64 := by rw [g2]; omega
    have hLpos : 0 < dval l.mantissaRaw := by
      have := headD_odd_dval_odd (nf_mant_facts hl hl0).odd
      omega
    have hodd := headD_odd_dval_odd (nf_mant_facts g1
      (len_ne_zero_of_dval g1 (by rw [g3]; omega))).odd
    have hsum : dval l.mantissaRaw * 2 ^ l.shl + dval r.mantissaRaw * 2 ^ r.shl
        = dval (addDiff l r bw).mantissaRaw * 2 ^ (addDiff l r bw).shl := by
      rw [g3, g2, Nat.add_mul, Nat.mul_assoc, ← Nat.pow_add, show r.shl - l.shl + l.shl = r.shl by omega]
    refine ⟨g1, ?_, ?_⟩
    · intro _; rw [val_of_not_nan hnn, hsum]
    · intro hnr
      exfalso; apply hnr
      rw [hsum]
      exact (representable_odd_iff hodd).2 (by rw [g2]; omega)
  · have heq : l.shl = r.shl := by omega
    have hs : s = addSame l r bw := by simp [s, hlt]
    rw [hs]
    obtain ⟨e, M, hM, hS, g1, g2, g3⟩ := addSame_spec l r bw hl hr hl0 hr0 heq rfl
    have hsum : dval l.mantissaRaw * 2 ^ l.shl + dval r.mantissaRaw * 2 ^ r.shl = M * 2 ^ (e + l.shl) := by
      rw [← heq, ← Nat.add_mul, hS, Nat.mul_assoc, ← Nat.pow_add]
    unfold SumSpec
    rw [hsum]
    refine ⟨g1, ?_, ?_⟩
    · intro hrep
      have hlt' := (representable_odd_iff hM).1 hrep
      obtain ⟨h1, h2⟩ := g3 (by omega)
      rw [val_of_not_nan (by omega), h1, h2, Nat.add_comm]
    · intro hnr
      have hge : ¬ e + l.shl < MAX64 := fun h => hnr ((representable_odd_iff hM).2 h)
      by_cases hov : l.shl + e > MAX64
      · rw [g2 hov]; exact val_of_nan rfl
      · obtain ⟨h1, _⟩ := g3 (by omega)
        exact val_of_nan (by omega)


theorem val_eq_none_iff (n : Natural) : n.val = none ↔ n.shl = MAX64 := by
  by_cases h : n.shl = MAX64
  · simp [val_of_nan h, h]
  · simp [val_of_not_nan h, h]

theorem val_NAN : Natural.NAN.val = none := val_of_nan rfl

/-- `impl Add for Natural`: the result is a normal form; the error value propagates; otherwise the
sum is exact, or the error value exactly when the sum's exponent is not representable -/
theorem add_spec (a b : Natural) (ha : NF a) (hb : NF b) :
    NF (add a b)
    ∧ ((a.val = none ∨ b.val = none) → (add a b).val = none)
    ∧ (∀ x y, a.val = some x → b.val = some y → SumSpec x y (add a b)) := by
  unfold add
  by_cases hnan : (a.isNan || b.isNan) = true
  · rw [if_pos hnan]
    refine ⟨nf_NAN, fun _ => val_NAN, ?_⟩
    intro x y hx hy
    rw [Bool.or_eq_true, isNan_iff, isNan_iff] at hnan
    rcases hnan with h | h
    · rw [val_of_nan h] at hx; cases hx
    · rw [val_of_nan h] at hy; cases hy
  · rw [if_neg hnan]
    rw [Bool.or_eq_true, isNan_iff, isNan_iff, not_or] at hnan
    obtain ⟨hna, hnb⟩ := hnan
    have hnone : ¬ (a.val = none ∨ b.val = none) := by
      rw [val_eq_none_iff, val_eq_none_iff]; exact fun h => h.elim hna hnb
    by_cases hb0 : b.len = 0
    · rw [if_pos hb0]
      refine ⟨ha, fun h => absurd h hnone, ?_⟩
      intro x y hx hy
      rw [nf_len_zero hb hb0 hnb] at hy
      cases hy
      unfold SumSpec
      rw [Nat.add_zero]
      exact ⟨fun _ => hx, fun h => absurd (nf_val_representable ha hx) h⟩
    · rw [if_neg hb0]
      by_cases ha0 : a.len = 0
      · rw [if_pos ha0]
        refine ⟨hb, fun h => absurd h hnone, ?_⟩
        intro x y hx hy
        rw [nf_len_zero ha ha0 hna] at hx
        cases hx
        unfold SumSpec
        rw [Nat.zero_add]
        exact ⟨fun _ => hy, fun h => absurd (nf_val_representable hb hy) h⟩
      · rw [if_neg ha0]
        simp only []
        by_cases hswap : a.shl > b.shl
        · simp only [hswap, if_true]
          have g := add_ordered_spec b a hb ha hb0 ha0 hnb hna (by omega)
          have hlt : b.shl < a.shl := hswap
          simp only [hlt, if_true] at g
          obtain ⟨g1, g2⟩ := g
          refine ⟨g1, fun h => absurd h hnone, ?_⟩
          intro x y hx hy
          rw [val_of_not_nan hna] at hx
          rw [val_of_not_nan hnb] at hy
          cases hx; cases hy
          exact add_comm_spec g2
        · simp only [hswap, if_false]
          obtain ⟨g1, g2⟩ := add_ordered_spec a b ha hb ha0 hb0 hna hnb (by omega)
          refine ⟨g1, fun h => absurd h hnone, ?_⟩
          intro x y hx hy
          rw [val_of_not_nan hna] at hx
          rw [val_of_not_nan hnb] at hy
          cases hx; cases hy
          exact g2

end OxiddModel.Num
