import OxiddModel.Num.LemmasDigits

/-!
`Add for Natural`, operands with different exponents: the digit loops compute
`L + R · 2^(r_shl - l_shl)`.
-/
namespace OxiddModel.Num
open Natural

theorem B_def : B = 18446744073709551616 := rfl

/-- linear arithmetic with the digit base as a literal -/
macro "bomega" : tactic => `(tactic| (simp only [B_def] at *; omega))

theorem pow_succ_mul (n E : Nat) : B ^ (n + 1) * E = B * (B ^ n * E) := by
  rw [Nat.pow_succ, Nat.mul_comm (B ^ n) B, Nat.mul_assoc]

theorem add_mul_two_pow (r X s : Nat) : (r + B * X) * 2 ^ s = r * 2 ^ s + B * (X * 2 ^ s) := by
  rw [Nat.add_mul, Nat.mul_assoc]

/-! ### carry propagation -/

theorem propagate_spec (ls : List Nat) : ∀ c, ∃ E,
    dval (propagate ls c) + B ^ ls.length * E = dval ls + c
    ∧ (propagate ls c).length = ls.length ∧ digitsOk (propagate ls c) := by
  induction ls with
  | nil => intro c; exact ⟨c, by simp [propagate], rfl, digitsOk_nil⟩
  | cons l ls ih =>
    intro c
    obtain ⟨E, h1, h2, h3⟩ := ih (overflowingAdd l c).2
    obtain ⟨s1, s2⟩ := overflowingAdd_spec l c
    refine ⟨E, ?_, by simp [propagate, h2], ?_⟩
    · simp only [propagate, dval_cons, List.length_cons, pow_succ_mul]
      have := Nat.mul_add B (dval (propagate ls (overflowingAdd l c).2)) (B ^ ls.length * E)
      rw [h1, Nat.mul_add] at this
      bomega
    · simp only [propagate]
      exact digitsOk_cons.2 ⟨s2, h3⟩

/-! ### in-place loop -/

theorem zipInPlace_spec (sb : Nat) (hs : sb < 64) (ls : List Nat) : ∀ (rs : List Nat) (lower carry : Nat),
    digitsOk rs → lower < 2 ^ sb → rs.length ≤ ls.length → ∃ E,
      dval (zipInPlace sb ls rs lower carry) + B ^ ls.length * E
        = dval ls + dval rs * 2 ^ sb + lower + carry
      ∧ (zipInPlace sb ls rs lower carry).length = ls.length
      ∧ digitsOk (zipInPlace sb ls rs lower carry) := by
  induction ls with
  | nil =>
    intro rs lower carry _ _ hlen
    have : rs = [] := by cases rs with | nil => rfl | cons _ _ => simp at hlen
    subst this
    exact ⟨lower + carry, by simp [zipInPlace], rfl, digitsOk_nil⟩
  | cons l ls ih =>
    intro rs lower carry hrs hlow hlen
    cases rs with
    | nil =>
      simp only [zipInPlace]
      obtain ⟨E, h1, h2, h3⟩ := propagate_spec ls (carryingAdd l lower carry).2
      obtain ⟨s1, s2⟩ := carryingAdd_spec l lower carry
      refine ⟨E, ?_, by simp [h2], digitsOk_cons.2 ⟨s2, h3⟩⟩
      simp only [dval_cons, dval_nil, List.length_cons, pow_succ_mul, Nat.zero_mul]
      have := Nat.mul_add B (dval (propagate ls (carryingAdd l lower carry).2)) (B ^ ls.length * E)
      rw [h1, Nat.mul_add] at this
      bomega
    | cons r rs =>
      rw [digitsOk_cons] at hrs
      obtain ⟨hd1, hd2⟩ := rotl_digit r lower sb hrs.1 hs hlow
      obtain ⟨hl1, hl2⟩ := rotl_lower r sb hrs.1 hs
      simp only [zipInPlace, hd1, hl1]
      obtain ⟨E, h1, h2, h3⟩ := ih rs (r / 2 ^ (64 - sb))
        (carryingAdd l (r * 2 ^ sb % B + lower) carry).2 hrs.2 hl2 (by simpa using hlen)
      obtain ⟨s1, s2⟩ := carryingAdd_spec l (r * 2 ^ sb % B + lower) carry
      refine ⟨E, ?_, by simp [h2], digitsOk_cons.2 ⟨s2, h3⟩⟩
      simp only [dval_cons, List.length_cons, pow_succ_mul, add_mul_two_pow]
      have hsp := shl_split r (Nat.le_of_lt hs)
      have := Nat.mul_add B (dval (zipInPlace sb ls rs (r / 2 ^ (64 - sb))
        (carryingAdd l (r * 2 ^ sb % B + lower) carry).2)) (B ^ ls.length * E)
      rw [h1] at this
      simp only [Nat.mul_add] at this
      bomega


/-! ### non-overlapping operands -/

/-- the part carried out of the last digit (the final value of `lower`) -/
def finalLower (sb : Nat) : List Nat → Nat → Nat
  | [], lower => lower
  | r :: rs, _ => finalLower sb rs (r / 2 ^ (64 - sb))

theorem shiftUp_spec (sb : Nat) (hs : sb < 64) (rs : List Nat) : ∀ (lower : Nat),
    digitsOk rs → lower < 2 ^ sb →
      dval (shiftUp sb rs lower) = dval rs * 2 ^ sb + lower
      ∧ (shiftUp sb rs lower).length = rs.length + (if finalLower sb rs lower = 0 then 0 else 1)
      ∧ digitsOk (shiftUp sb rs lower) := by
  induction rs with
  | nil =>
    intro lower _ hl
    have hlB : lower < B := by
      have : 2 ^ sb ≤ 2 ^ 64 := Nat.pow_le_pow_right (by decide) (Nat.le_of_lt hs)
      rw [B_eq]; omega
    simp only [shiftUp, finalLower]
    split
    · rename_i h
      exact ⟨by simp, by simp [h], digitsOk_cons.2 ⟨hlB, digitsOk_nil⟩⟩
    · rename_i h
      have : lower = 0 := by omega
      subst this
      exact ⟨by simp, by simp, digitsOk_nil⟩
  | cons r rs ih =>
    intro lower hrs hlow
    rw [digitsOk_cons] at hrs
    obtain ⟨hd1, hd2⟩ := rotl_digit r lower sb hrs.1 hs hlow
    obtain ⟨hl1, hl2⟩ := rotl_lower r sb hrs.1 hs
    simp only [shiftUp, hd1, hl1, finalLower]
    obtain ⟨h1, h2, h3⟩ := ih (r / 2 ^ (64 - sb)) hrs.2 hl2
    refine ⟨?_, by rw [List.length_cons, h2, List.length_cons, Nat.add_right_comm]; congr, digitsOk_cons.2 ⟨hd2, h3⟩⟩
    simp only [dval_cons, add_mul_two_pow, h1]
    have hsp := shl_split r (Nat.le_of_lt hs)
    simp only [Nat.mul_add]
    bomega

/-! ### `Vec` variant, overlapping digits -/

theorem carryingAdd_carry_le {a b c : Nat} (ha : a < B) (hb : b < B) (hc : c ≤ 1) :
    (carryingAdd a b c).2 ≤ 1 := by
  unfold carryingAdd; simp only; bomega

theorem overflowingAdd_carry_le {a b : Nat} (ha : a < B) (hb : b ≤ 1) :
    (overflowingAdd a b).2 ≤ 1 := by
  unfold overflowingAdd; simp only; bomega

theorem two_pow_le_B_half {sb : Nat} (hs : sb < 64) : 2 ^ sb ≤ 2 ^ 63 :=
  Nat.pow_le_pow_right (by decide) (by omega)

/-- `0` if `a = b`, else `1` (number of digits pushed at the end) -/
def ind (a b : Nat) : Nat := if a = b then 0 else 1
theorem ind_eq {a b : Nat} (h : a = b) : ind a b = 0 := by simp [ind, h]
theorem ind_ne {a b : Nat} (h : a ≠ b) : ind a b = 1 := by simp [ind, h]
theorem ind_cases (a b : Nat) : (a = b ∧ ind a b = 0) ∨ (a ≠ b ∧ ind a b = 1) := by
  by_cases h : a = b
  · exact Or.inl ⟨h, ind_eq h⟩
  · exact Or.inr ⟨h, ind_ne h⟩

theorem finVecA_spec (len n lower carry : Nat) (hl : lower + carry < B) : ∃ E,
    dval (finVecA len n lower carry) + B ^ (finVecA len n lower carry).length * E = lower + carry
    ∧ (E = 0 ∨ n + (finVecA len n lower carry).length = len)
    ∧ (finVecA len n lower carry).length = ind n len
    ∧ digitsOk (finVecA len n lower carry) := by
  unfold finVecA
  by_cases h : n = len
  · subst h
    exact ⟨lower + carry, by simp, Or.inr (by simp), by simp [ind], by simp [digitsOk_nil]⟩
  · refine ⟨0, by simp [h], Or.inl rfl, by simp [h, ind], ?_⟩
    simp only [ne_eq, h, not_false_eq_true, if_true]
    exact digitsOk_cons.2 ⟨hl, digitsOk_nil⟩

theorem propagateFin_spec (len : Nat) (ls : List Nat) : ∀ c n, digitsOk ls → c ≤ 1 → ∃ E,
    dval (propagateFin len ls c n) + B ^ (propagateFin len ls c n).length * E = dval ls + c
    ∧ (E = 0 ∨ n + (propagateFin len ls c n).length = len)
    ∧ (propagateFin len ls c n).length = ls.length + ind (n + ls.length) len
    ∧ digitsOk (propagateFin len ls c n) := by
  induction ls with
  | nil =>
    intro c n _ hc
    obtain ⟨E, h1, h2, h3, h4⟩ := finVecA_spec len n 0 c (by bomega)
    exact ⟨E, by simpa [propagateFin] using h1, by simpa [propagateFin] using h2,
      by simpa [propagateFin] using h3, by simpa [propagateFin] using h4⟩
  | cons l ls ih =>
    intro c n hls hc
    rw [digitsOk_cons] at hls
    obtain ⟨s1, s2⟩ := overflowingAdd_spec l c
    obtain ⟨E, h1, h2, h3, h4⟩ := ih (overflowingAdd l c).2 (n + 1) hls.2
      (overflowingAdd_carry_le hls.1 hc)
    refine ⟨E, ?_, ?_, ?_, ?_⟩
    · simp only [propagateFin, dval_cons, List.length_cons, pow_succ_mul]
      have := Nat.mul_add B (dval (propagateFin len ls (overflowingAdd l c).2 (n + 1)))
        (B ^ (propagateFin len ls (overflowingAdd l c).2 (n + 1)).length * E)
      rw [h1, Nat.mul_add] at this
      bomega
    · simp only [propagateFin, List.length_cons]; omega
    · simp only [propagateFin, List.length_cons, h3]
      rw [show n + (ls.length + 1) = n + 1 + ls.length by omega]; omega
    · simp only [propagateFin]; exact digitsOk_cons.2 ⟨s2, h4⟩

theorem restR_spec (sb len : Nat) (hs : sb < 64) (rs : List Nat) : ∀ lower carry n,
    digitsOk rs → lower < 2 ^ sb → carry ≤ 1 → ∃ E,
    dval (restR sb len rs lower carry n) + B ^ (restR sb len rs lower carry n).length * E
      = dval rs * 2 ^ sb + lower + carry
    ∧ (E = 0 ∨ n + (restR sb len rs lower carry n).length = len)
    ∧ (restR sb len rs lower carry n).length = rs.length + ind (n + rs.length) len
    ∧ digitsOk (restR sb len rs lower carry n) := by
  induction rs with
  | nil =>
    intro lower carry n _ hl hc
    have := two_pow_le_B_half hs
    obtain ⟨E, h1, h2, h3, h4⟩ := finVecA_spec len n lower carry (by bomega)
    exact ⟨E, by simpa [restR] using h1, by simpa [restR] using h2,
      by simpa [restR] using h3, by simpa [restR] using h4⟩
  | cons r rs ih =>
    intro lower carry n hrs hlow hc
    rw [digitsOk_cons] at hrs
    obtain ⟨hd1, hd2⟩ := rotl_digit r lower sb hrs.1 hs hlow
    obtain ⟨hl1, hl2⟩ := rotl_lower r sb hrs.1 hs
    simp only [restR, hd1, hl1]
    obtain ⟨s1, s2⟩ := overflowingAdd_spec (r * 2 ^ sb % B + lower) carry
    obtain ⟨E, h1, h2, h3, h4⟩ := ih (r / 2 ^ (64 - sb))
      (overflowingAdd (r * 2 ^ sb % B + lower) carry).2 (n + 1) hrs.2 hl2
      (overflowingAdd_carry_le hd2 hc)
    refine ⟨E, ?_, ?_, ?_, ?_⟩
    · simp only [dval_cons, List.length_cons, pow_succ_mul, add_mul_two_pow]
      have hsp := shl_split r (Nat.le_of_lt hs)
      have := Nat.mul_add B (dval (restR sb len rs (r / 2 ^ (64 - sb))
        (overflowingAdd (r * 2 ^ sb % B + lower) carry).2 (n + 1)))
        (B ^ (restR sb len rs (r / 2 ^ (64 - sb))
        (overflowingAdd (r * 2 ^ sb % B + lower) carry).2 (n + 1)).length * E)
      rw [h1] at this
      simp only [Nat.mul_add] at this
      bomega
    · simp only [List.length_cons]; omega
    · simp only [List.length_cons, h3]
      rw [show n + (rs.length + 1) = n + 1 + rs.length by omega]; omega
    · exact digitsOk_cons.2 ⟨s2, h4⟩

theorem zipVec_spec (sb len : Nat) (hs : sb < 64) (ls : List Nat) : ∀ (rs : List Nat) lower carry n,
    digitsOk ls → digitsOk rs → lower < 2 ^ sb → carry ≤ 1 → ∃ E,
    dval (zipVec sb len ls rs lower carry n) + B ^ (zipVec sb len ls rs lower carry n).length * E
      = dval ls + dval rs * 2 ^ sb + lower + carry
    ∧ (E = 0 ∨ n + (zipVec sb len ls rs lower carry n).length = len)
    ∧ (zipVec sb len ls rs lower carry n).length
        = max ls.length rs.length + ind (n + max ls.length rs.length) len
    ∧ digitsOk (zipVec sb len ls rs lower carry n) := by
  induction ls with
  | nil =>
    intro rs lower carry n _ hrs hl hc
    obtain ⟨E, h1, h2, h3, h4⟩ := restR_spec sb len hs rs lower carry n hrs hl hc
    have hz : zipVec sb len [] rs lower carry n = restR sb len rs lower carry n := by
      cases rs <;> simp [zipVec]
    rw [hz]
    exact ⟨E, by simpa using h1, h2, by simpa using h3, h4⟩
  | cons l ls ih =>
    intro rs lower carry n hls hrs hlow hc
    rw [digitsOk_cons] at hls
    cases rs with
    | nil =>
      have hlB : lower < B := by have := two_pow_le_B_half hs; bomega
      simp only [zipVec]
      obtain ⟨s1, s2⟩ := carryingAdd_spec l lower carry
      obtain ⟨E, h1, h2, h3, h4⟩ := propagateFin_spec len ls (carryingAdd l lower carry).2 (n + 1)
        hls.2 (carryingAdd_carry_le hls.1 hlB hc)
      refine ⟨E, ?_, ?_, ?_, ?_⟩
      · simp only [dval_cons, dval_nil, List.length_cons, pow_succ_mul, Nat.zero_mul]
        have := Nat.mul_add B (dval (propagateFin len ls (carryingAdd l lower carry).2 (n + 1)))
          (B ^ (propagateFin len ls (carryingAdd l lower carry).2 (n + 1)).length * E)
        rw [h1, Nat.mul_add] at this
        bomega
      · simp only [List.length_cons]; omega
      · simp only [List.length_cons, h3, List.length_nil, Nat.max_zero]
        rw [show n + (ls.length + 1) = n + 1 + ls.length by omega]; omega
      · exact digitsOk_cons.2 ⟨s2, h4⟩
    | cons r rs =>
      rw [digitsOk_cons] at hrs
      obtain ⟨hd1, hd2⟩ := rotl_digit r lower sb hrs.1 hs hlow
      obtain ⟨hl1, hl2⟩ := rotl_lower r sb hrs.1 hs
      simp only [zipVec, hd1, hl1]
      obtain ⟨s1, s2⟩ := carryingAdd_spec l (r * 2 ^ sb % B + lower) carry
      obtain ⟨E, h1, h2, h3, h4⟩ := ih rs (r / 2 ^ (64 - sb))
        (carryingAdd l (r * 2 ^ sb % B + lower) carry).2 (n + 1) hls.2 hrs.2 hl2
        (carryingAdd_carry_le hls.1 hd2 hc)
      refine ⟨E, ?_, ?_, ?_, ?_⟩
      · simp only [dval_cons, List.length_cons, pow_succ_mul, add_mul_two_pow]
        have hsp := shl_split r (Nat.le_of_lt hs)
        have := Nat.mul_add B (dval (zipVec sb len ls rs (r / 2 ^ (64 - sb))
          (carryingAdd l (r * 2 ^ sb % B + lower) carry).2 (n + 1)))
          (B ^ (zipVec sb len ls rs (r / 2 ^ (64 - sb))
          (carryingAdd l (r * 2 ^ sb % B + lower) carry).2 (n + 1)).length * E)
        rw [h1] at this
        simp only [Nat.mul_add] at this
        bomega
      · simp only [List.length_cons]; omega
      · simp only [List.length_cons, h3, Nat.succ_max_succ]
        rw [show n + (max ls.length rs.length + 1) = n + 1 + max ls.length rs.length by omega]; omega
      · exact digitsOk_cons.2 ⟨s2, h4⟩


/-! ### assembling the result -/

theorem two_pow_split (sh : Nat) : 2 ^ sh = B ^ (sh / 64) * 2 ^ (sh % 64) := by
  rw [B_pow, ← Nat.pow_add, Nat.div_add_mod]

/-- prefix of `l_digits` below `start_digit`, followed by the digits a loop produced -/
theorem assemble {pre out : List Nat} {E X R sb : Nat}
    (h : dval out + B ^ out.length * E = X + R * 2 ^ sb) :
    dval (pre ++ out) + B ^ (pre ++ out).length * E
      = dval pre + B ^ pre.length * X + R * 2 ^ (64 * pre.length + sb) := by
  rw [dval_append, List.length_append, Nat.pow_add, Nat.pow_add, ← B_pow]
  have := congrArg (fun t => B ^ pre.length * t) h
  simp only [Nat.mul_add] at this
  rw [Nat.mul_left_comm R, Nat.mul_assoc]
  omega

theorem sum_bounds {L R lw rw sh bl : Nat} (hL : L < 2 ^ lw) (hL' : 2 ^ (lw - 1) ≤ L)
    (hR : R < 2 ^ rw) (hR' : 2 ^ (rw - 1) ≤ R) (hlw : 1 ≤ lw) (hrw : 1 ≤ rw)
    (hbl : bl = max lw (rw + sh) + 1) :
    L + R * 2 ^ sh < 2 ^ bl ∧ 2 ^ (bl - 2) ≤ L + R * 2 ^ sh := by
  have h1 : R * 2 ^ sh < 2 ^ (rw + sh) := by
    rw [Nat.pow_add]; exact Nat.mul_lt_mul_of_pos_right hR (Nat.two_pow_pos _)
  have h2 : 2 ^ (rw - 1 + sh) ≤ R * 2 ^ sh := by
    rw [Nat.pow_add]; exact Nat.mul_le_mul_right _ hR'
  have h3 : 2 ^ lw ≤ 2 ^ (bl - 1) := Nat.pow_le_pow_right (by decide) (by omega)
  have h4 : 2 ^ (rw + sh) ≤ 2 ^ (bl - 1) := Nat.pow_le_pow_right (by decide) (by omega)
  have h5 : 2 ^ bl = 2 * 2 ^ (bl - 1) := by
    rw [show bl = (bl - 1) + 1 by omega, Nat.pow_succ]; simp; omega
  refine ⟨by omega, ?_⟩
  by_cases hc : lw ≤ rw + sh
  · have : bl - 2 = rw - 1 + sh := by omega
    rw [this]; omega
  · have : bl - 2 = lw - 1 := by omega
    rw [this]; omega


/-! ### the four branches -/

/-- a digit array laid out for a value `V` whose bit length was estimated as `bl` -/
def Layout (out : List Nat) (bl V : Nat) : Prop :=
  digitsOk out ∧ out.length = (bl + 63) / 64 ∧ out.headD 0 % 2 = 1 ∧ dval out = V

theorem mul_two_pow_even (r : Nat) {s : Nat} (hs : 0 < s) : r * 2 ^ s % B % 2 = 0 := by
  have h2 : 2 ∣ B := ⟨B / 2, by decide⟩
  rw [Nat.mod_mod_of_dvd _ h2, show s = (s - 1) + 1 by omega, Nat.pow_succ, ← Nat.mul_assoc]
  exact Nat.mul_mod_left _ _

theorem headD_take_append (lD X : List Nat) (sd : Nat) (hne : lD ≠ []) :
    (lD.take sd ++ X).headD 0 = if sd = 0 then X.headD 0 else lD.headD 0 := by
  cases sd with
  | zero => simp
  | succ k =>
    cases lD with
    | nil => exact absurd rfl hne
    | cons d ds => simp

theorem zipInPlace_head_odd {sb : Nat} (hs : sb < 64) (hs0 : 0 < sb) {lD rD : List Nat}
    (hl : lD.headD 0 % 2 = 1) (hlne : lD ≠ []) (hrne : rD ≠ []) (hr : digitsOk rD) :
    (zipInPlace sb lD rD 0 0).headD 0 % 2 = 1 := by
  cases lD with
  | nil => exact absurd rfl hlne
  | cons l ls =>
    cases rD with
    | nil => exact absurd rfl hrne
    | cons r rs =>
      rw [digitsOk_cons] at hr
      obtain ⟨hd1, _⟩ := rotl_digit r 0 sb hr.1 hs (Nat.two_pow_pos _)
      simp only [zipInPlace, hd1, List.headD_cons, carryingAdd]
      have := mul_two_pow_even r hs0
      simp only [List.headD_cons] at hl
      have hB := B_even
      rw [Nat.mod_mod_of_dvd _ ⟨B / 2, by decide⟩]
      omega


/-- bit count of a digit array as `bit_width` computes it -/
def bwOf (D : List Nat) : Nat := 64 * D.length - lz64 (D.getLastD 0)

theorem bwOf_bounds {D : List Nat} (f : MantFacts D) :
    64 * (D.length - 1) ≤ bwOf D ∧ bwOf D ≤ 64 * D.length ∧ 1 ≤ D.length ∧ 1 ≤ bwOf D := by
  have := lz64_le (D.getLastD 0)
  have h1 : 1 ≤ D.length := by
    cases D with
    | nil => exact absurd rfl f.ne
    | cons _ _ => simp
  have := f.pos
  unfold bwOf
  omega

theorem diff_inplace {lD rD : List Nat} {sd sb bl : Nat} (fl : MantFacts lD) (fr : MantFacts rD)
    (hsb : sb < 64) (hpos : 0 < 64 * sd + sb)
    (hbl : bl = max (bwOf lD) (bwOf rD + (64 * sd + sb)) + 1)
    (hlen : (bl + 63) / 64 = lD.length) :
    Layout (lD.take sd ++ zipInPlace sb (lD.drop sd) rD 0 0) bl
      (dval lD + dval rD * 2 ^ (64 * sd + sb)) := by
  obtain ⟨bl1, bl2, bl3, bl4⟩ := bwOf_bounds fl
  obtain ⟨br1, br2, br3, br4⟩ := bwOf_bounds fr
  have hfit : rD.length + sd ≤ lD.length := by omega
  obtain ⟨E, h1, h2, h3⟩ := zipInPlace_spec sb hsb (lD.drop sd) rD 0 0 fr.ok (Nat.two_pow_pos _)
    (by rw [List.length_drop]; omega)
  have hb := sum_bounds (sh := 64 * sd + sb) fl.upper fl.lower fr.upper fr.lower fl.pos fr.pos hbl
  have hpre : (lD.take sd).length = sd := by rw [List.length_take]; omega
  have hsum := assemble (pre := lD.take sd) (E := E) (X := dval (lD.drop sd)) (R := dval rD) (sb := sb)
    (out := zipInPlace sb (lD.drop sd) rD 0 0) (by rw [h2]; simpa only [Nat.add_zero] using h1)
  rw [hpre, ← dval_take_add_drop lD sd (by omega)] at hsum
  have hlen' : (lD.take sd ++ zipInPlace sb (lD.drop sd) rD 0 0).length = lD.length := by
    rw [List.length_append, hpre, h2, List.length_drop]; omega
  have hV : dval lD + dval rD * 2 ^ (64 * sd + sb)
      < B ^ (lD.take sd ++ zipInPlace sb (lD.drop sd) rD 0 0).length := by
    rw [hlen', B_pow]
    exact Nat.lt_of_lt_of_le hb.1 (Nat.pow_le_pow_right (by decide) (by omega))
  obtain ⟨_, hval⟩ := no_overflow hsum hV
  refine ⟨digitsOk_append.2 ⟨digitsOk_take fl.ok sd, h3⟩, by rw [hlen', hlen], ?_, hval⟩
  rw [headD_take_append _ _ _ fl.ne]
  split
  · rename_i h0
    subst h0
    simp only [List.drop_zero]
    exact zipInPlace_head_odd hsb (by omega) fl.odd fl.ne fr.ne fr.ok
  · exact fl.odd


theorem zipVec_head_odd {sb len n : Nat} (hs : sb < 64) (hs0 : 0 < sb) {lD rD : List Nat}
    (hl : lD.headD 0 % 2 = 1) (hlne : lD ≠ []) (hrne : rD ≠ []) (hr : digitsOk rD) :
    (zipVec sb len lD rD 0 0 n).headD 0 % 2 = 1 := by
  cases lD with
  | nil => exact absurd rfl hlne
  | cons l ls =>
    cases rD with
    | nil => exact absurd rfl hrne
    | cons r rs =>
      rw [digitsOk_cons] at hr
      obtain ⟨hd1, _⟩ := rotl_digit r 0 sb hr.1 hs (Nat.two_pow_pos _)
      simp only [zipVec, hd1, List.headD_cons, carryingAdd]
      have := mul_two_pow_even r hs0
      simp only [List.headD_cons] at hl
      rw [Nat.mod_mod_of_dvd _ ⟨B / 2, by decide⟩]
      omega

theorem diff_vec {lD rD : List Nat} {sd sb bl : Nat} (fl : MantFacts lD) (fr : MantFacts rD)
    (hsb : sb < 64) (hpos : 0 < 64 * sd + sb)
    (hbl : bl = max (bwOf lD) (bwOf rD + (64 * sd + sb)) + 1)
    (hsd : sd < lD.length) :
    Layout (lD.take sd ++ zipVec sb ((bl + 63) / 64) (lD.drop sd) rD 0 0 sd) bl
      (dval lD + dval rD * 2 ^ (64 * sd + sb)) := by
  obtain ⟨bl1, bl2, bl3, bl4⟩ := bwOf_bounds fl
  obtain ⟨br1, br2, br3, br4⟩ := bwOf_bounds fr
  obtain ⟨E, h1, h2, h3, h4⟩ := zipVec_spec sb ((bl + 63) / 64) hsb (lD.drop sd) rD 0 0 sd
    (digitsOk_drop fl.ok sd) fr.ok (Nat.two_pow_pos _) (by omega)
  have hb := sum_bounds (sh := 64 * sd + sb) fl.upper fl.lower fr.upper fr.lower fl.pos fr.pos hbl
  have hpre : (lD.take sd).length = sd := by rw [List.length_take]; omega
  have hsum := assemble (pre := lD.take sd) (E := E) (X := dval (lD.drop sd)) (R := dval rD) (sb := sb)
    (out := zipVec sb ((bl + 63) / 64) (lD.drop sd) rD 0 0 sd) (by simpa only [Nat.add_zero] using h1)
  rw [hpre, ← dval_take_add_drop lD sd (by omega)] at hsum
  rw [List.length_drop] at h3
  have hlen' : (lD.take sd ++ zipVec sb ((bl + 63) / 64) (lD.drop sd) rD 0 0 sd).length
      = (bl + 63) / 64 := by
    rw [List.length_append, hpre, h3]
    rcases ind_cases (sd + max (lD.length - sd) rD.length) ((bl + 63) / 64) with ⟨e1, e2⟩ | ⟨e1, e2⟩
    · rw [e2]; omega
    · rw [e2]; omega
  have hval : dval (lD.take sd ++ zipVec sb ((bl + 63) / 64) (lD.drop sd) rD 0 0 sd)
      = dval lD + dval rD * 2 ^ (64 * sd + sb) := by
    rcases h2 with hE | hfull
    · subst hE; simpa using hsum
    · have hV : dval lD + dval rD * 2 ^ (64 * sd + sb)
          < B ^ (lD.take sd ++ zipVec sb ((bl + 63) / 64) (lD.drop sd) rD 0 0 sd).length := by
        rw [hlen', B_pow]
        exact Nat.lt_of_lt_of_le hb.1 (Nat.pow_le_pow_right (by decide) (by omega))
      exact (no_overflow hsum hV).2
  refine ⟨digitsOk_append.2 ⟨digitsOk_take fl.ok sd, h4⟩, hlen', ?_, hval⟩
  rw [headD_take_append _ _ _ fl.ne]
  split
  · rename_i h0
    subst h0
    simp only [List.drop_zero]
    exact zipVec_head_odd hsb (by omega) fl.odd fl.ne fr.ne fr.ok
  · exact fl.odd


theorem finalLower_eq (sb : Nat) (rs : List Nat) (hne : rs ≠ []) : ∀ lower,
    finalLower sb rs lower = rs.getLastD 0 / 2 ^ (64 - sb) := by
  induction rs with
  | nil => exact absurd rfl hne
  | cons r rs ih =>
    intro lower
    cases rs with
    | nil => simp [finalLower]
    | cons e l =>
      rw [finalLower, ih (by simp), getLastD_cons_cons]

theorem div_two_pow_eq_zero_iff {x sb : Nat} (hx : x < B) (hsb : sb ≤ 64) :
    x / 2 ^ (64 - sb) = 0 ↔ sb ≤ lz64 x := by
  rw [Nat.div_eq_zero_iff_lt (Nat.two_pow_pos _), ← bitLen_le_iff]
  have := lz64_add_bitLen hx
  omega

theorem getLastD_lt_B {D : List Nat} (hok : digitsOk D) : D.getLastD 0 < B := by
  cases h : D.getLast? with
  | none => rw [List.getLastD_eq_getLast?, h]; exact B_pos
  | some x =>
    rw [List.getLastD_eq_getLast?, h]
    exact hok x (List.mem_of_getLast? h)

theorem diff_disjoint {lD rD : List Nat} {sd sb bl : Nat} (fl : MantFacts lD) (fr : MantFacts rD)
    (hsb : sb < 64)
    (hbl : bl = max (bwOf lD) (bwOf rD + (64 * sd + sb)) + 1)
    (hsd : sd ≥ lD.length) :
    Layout
      (if (lD ++ List.replicate (sd - lD.length) 0 ++ (if sb = 0 then rD else shiftUp sb rD 0)).length
          ≠ (bl + 63) / 64
        then (lD ++ List.replicate (sd - lD.length) 0 ++ (if sb = 0 then rD else shiftUp sb rD 0)) ++ [0]
        else (lD ++ List.replicate (sd - lD.length) 0 ++ (if sb = 0 then rD else shiftUp sb rD 0)))
      bl (dval lD + dval rD * 2 ^ (64 * sd + sb)) := by
  obtain ⟨bl1, bl2, bl3, bl4⟩ := bwOf_bounds fl
  obtain ⟨br1, br2, br3, br4⟩ := bwOf_bounds fr
  have hlastB := getLastD_lt_B fr.ok
  -- the shifted copy of `r_digits`
  have hX : ∃ X, (if sb = 0 then rD else shiftUp sb rD 0) = X ∧ dval X = dval rD * 2 ^ sb
      ∧ digitsOk X ∧ X.length = rD.length + (if sb ≤ lz64 (rD.getLastD 0) then 0 else 1) := by
    by_cases h0 : sb = 0
    · subst h0
      exact ⟨rD, by simp, by simp, fr.ok, by simp⟩
    · obtain ⟨h1, h2, h3⟩ := shiftUp_spec sb hsb rD 0 fr.ok (Nat.two_pow_pos _)
      refine ⟨shiftUp sb rD 0, by simp [h0], by simpa using h1, h3, ?_⟩
      rw [h2, finalLower_eq sb rD fr.ne]
      have := div_two_pow_eq_zero_iff hlastB (Nat.le_of_lt hsb)
      by_cases hz : rD.getLastD 0 / 2 ^ (64 - sb) = 0
      · rw [if_pos hz, if_pos (this.1 hz)]
      · rw [if_neg hz, if_neg (fun h => hz (this.2 h))]
  obtain ⟨X, hXe, hXv, hXok, hXl⟩ := hX
  rw [hXe]
  have hval0 : dval (lD ++ List.replicate (sd - lD.length) 0 ++ X)
      = dval lD + dval rD * 2 ^ (64 * sd + sb) := by
    rw [List.append_assoc, dval_append, dval_append, dval_replicate_zero, List.length_replicate, hXv,
      Nat.zero_add, ← Nat.mul_assoc, ← Nat.pow_add, show lD.length + (sd - lD.length) = sd by omega,
      Nat.pow_add (n := sb), ← B_pow, Nat.mul_left_comm]
  have hlen0 : (lD ++ List.replicate (sd - lD.length) 0 ++ X).length
      = sd + rD.length + (if sb ≤ lz64 (rD.getLastD 0) then 0 else 1) := by
    rw [List.length_append, List.length_append, List.length_replicate, hXl]; omega
  have hok0 : digitsOk (lD ++ List.replicate (sd - lD.length) 0 ++ X) :=
    digitsOk_append.2 ⟨digitsOk_append.2 ⟨fl.ok, digitsOk_replicate_zero _⟩, hXok⟩
  have hhead0 : ∀ Y, (lD ++ List.replicate (sd - lD.length) 0 ++ X ++ Y).headD 0 = lD.headD 0 := by
    intro Y
    cases lD with
    | nil => exact absurd rfl fl.ne
    | cons d ds => simp
  have hlz := lz64_le (rD.getLastD 0)
  have hbw : bwOf rD = 64 * rD.length - lz64 (rD.getLastD 0) := rfl
  have hc : ∃ c, (lD ++ List.replicate (sd - lD.length) 0 ++ X).length = sd + rD.length + c
      ∧ ((sb ≤ lz64 (rD.getLastD 0) ∧ c = 0) ∨ (¬ sb ≤ lz64 (rD.getLastD 0) ∧ c = 1)) := by
    by_cases h : sb ≤ lz64 (rD.getLastD 0)
    · exact ⟨0, by rw [hlen0, if_pos h], Or.inl ⟨h, rfl⟩⟩
    · exact ⟨1, by rw [hlen0, if_neg h], Or.inr ⟨h, rfl⟩⟩
  obtain ⟨c, hc1, hc2⟩ := hc
  split
  · rename_i hne
    refine ⟨digitsOk_append.2 ⟨hok0, digitsOk_cons.2 ⟨B_pos, digitsOk_nil⟩⟩, ?_, ?_, ?_⟩
    · rw [List.length_append, List.length_singleton]
      omega
    · rw [hhead0]; exact fl.odd
    · rw [dval_append, hval0]; simp
  · rename_i heq
    refine ⟨hok0, by omega, ?_, hval0⟩
    have := hhead0 []
    rw [List.append_nil] at this
    rw [this]; exact fl.odd


/-- result of an addition: normal form, exponent `shl`, mantissa value `V` -/
def GoodSum (shl V : Nat) (x : Natural) : Prop :=
  NF x ∧ x.shl = shl ∧ dval x.mantissaRaw = V

theorem goodSum_of_layout {out : List Nat} {bl V shl : Nat} (h : Layout out bl V) (hshl : shl ≤ MAX64)
    (hbl : 66 ≤ bl) (hV : 2 ^ (bl - 2) ≤ V) : GoodSum shl V ⟨.heap out, shl⟩ := by
  obtain ⟨h1, h2, h3, h4⟩ := h
  exact ⟨nf_heap_of_layout hshl h1 h2 hbl h3 (by rw [h4]; exact hV), rfl, h4⟩

theorem bwOf_heap_big {D : List Nat} (f : MantFacts D) (hB : B ≤ dval D) : 65 ≤ bwOf D := by
  apply Classical.byContradiction
  intro h
  have : 2 ^ bwOf D ≤ 2 ^ 64 := Nat.pow_le_pow_right (by decide) (by omega)
  have := f.upper
  rw [B_eq] at hB
  unfold bwOf at *
  omega

theorem diff_small {ml mr sh bl shl : Nat} (fl : MantFacts [ml]) (fr : MantFacts [mr])
    (hpos : 0 < sh) (hshl : shl ≤ MAX64)
    (hbl : bl = max (bwOf [ml]) (bwOf [mr] + sh) + 1) (hsmall : bl ≤ 65) :
    GoodSum shl (ml + mr * 2 ^ sh)
      (if (overflowingAdd ml (shlW mr (sh % 64))).2 ≠ 0 then
        fromMantissaWithShl [(overflowingAdd ml (shlW mr (sh % 64))).1, 1] shl
       else fromMantissaSingleWithShl (overflowingAdd ml (shlW mr (sh % 64))).1 shl) := by
  obtain ⟨bl1, bl2, bl3, bl4⟩ := bwOf_bounds fl
  obtain ⟨br1, br2, br3, br4⟩ := bwOf_bounds fr
  have hsh : sh < 64 := by omega
  rw [Nat.mod_eq_of_lt hsh]
  have hb := sum_bounds (sh := sh) fl.upper fl.lower fr.upper fr.lower fl.pos fr.pos hbl
  simp only [dval_cons, dval_nil, Nat.mul_zero, Nat.add_zero] at hb
  have hfu := fr.upper
  simp only [dval_cons, dval_nil, Nat.mul_zero, Nat.add_zero] at hfu
  have hmr : mr * 2 ^ sh < B := by
    have h1 : mr * 2 ^ sh < 2 ^ (bwOf [mr] + sh) := by
      rw [Nat.pow_add]; exact Nat.mul_lt_mul_of_pos_right hfu (Nat.two_pow_pos _)
    have h2 : 2 ^ (bwOf [mr] + sh) ≤ 2 ^ 64 := Nat.pow_le_pow_right (by decide) (by omega)
    rw [B_eq]; omega
  have hs2 : ml + mr * 2 ^ sh < 2 * B := by
    have : 2 ^ bl ≤ 2 ^ 65 := Nat.pow_le_pow_right (by decide) hsmall
    rw [B_eq]; omega
  have hodd : (ml + mr * 2 ^ sh) % 2 = 1 := by
    have h1 : ml % 2 = 1 := by simpa using fl.odd
    have h2 : mr * 2 ^ sh % 2 = 0 := by
      rw [show sh = (sh - 1) + 1 by omega, Nat.pow_succ, ← Nat.mul_assoc]; exact Nat.mul_mod_left _ _
    omega
  rw [shlW_eq, Nat.mod_eq_of_lt hmr]
  unfold overflowingAdd
  simp only
  split
  · rename_i hc
    have h1 : (ml + mr * 2 ^ sh) / B = 1 := by bomega
    have h2 : (ml + mr * 2 ^ sh) % B = ml + mr * 2 ^ sh - B := by bomega
    refine ⟨⟨hshl, by simp, ?_, ?_, ?_, ?_⟩, rfl, ?_⟩
    · exact digitsOk_cons.2 ⟨Nat.mod_lt _ B_pos, digitsOk_cons.2 ⟨by decide, digitsOk_nil⟩⟩
    · simp only [List.headD_cons]; rw [Nat.mod_mod_of_dvd _ ⟨B / 2, by decide⟩]; exact hodd
    · intro h; simp at h
    · simp only [dval_cons, dval_nil]; bomega
    · simp only [fromMantissaWithShl, Natural.mantissaRaw, dval_cons, dval_nil]; bomega
  · rename_i hc
    have h1 : (ml + mr * 2 ^ sh) / B = 0 := by
      apply Classical.byContradiction; intro h; exact hc h
    have h2 : (ml + mr * 2 ^ sh) % B = ml + mr * 2 ^ sh := by bomega
    refine ⟨⟨hshl, Nat.mod_lt _ B_pos, ?_, ?_⟩, rfl, ?_⟩
    · intro h; rw [h2] at h; omega
    · intro _; rw [h2]; exact hodd
    · simp only [fromMantissaSingleWithShl, Natural.mantissaRaw, dval_cons, dval_nil]; bomega


theorem bitWidthOf_eq (D : List Nat) (shl : Nat) : bitWidthOf D shl = bwOf D + shl := rfl

/-- `add`, branch `l_shl < r_shl`: the result is a normal form with exponent `l_shl` whose
mantissa is `L + R·2^(r_shl - l_shl)` -/
theorem addDiff_spec (l r : Natural) (bw : Nat) (hl : NF l) (hr : NF r)
    (hl0 : l.len ≠ 0) (hr0 : r.len ≠ 0) (hlt : l.shl < r.shl)
    (hbw : bw = max (bitWidthOf l.mantissaRaw l.shl) (bitWidthOf r.mantissaRaw r.shl) + 1) :
    GoodSum l.shl (dval l.mantissaRaw + dval r.mantissaRaw * 2 ^ (r.shl - l.shl)) (addDiff l r bw) := by
  have fl := nf_mant_facts hl hl0
  have fr := nf_mant_facts hr hr0
  have hshl : l.shl ≤ MAX64 := hl.1
  obtain ⟨bl1, bl2, bl3, bl4⟩ := bwOf_bounds fl
  obtain ⟨br1, br2, br3, br4⟩ := bwOf_bounds fr
  rw [bitWidthOf_eq, bitWidthOf_eq] at hbw
  have hsplit := Nat.div_add_mod (r.shl - l.shl) 64
  have hsb : (r.shl - l.shl) % 64 < 64 := Nat.mod_lt _ (by decide)
  have hbl : bw - l.shl = max (bwOf l.mantissaRaw)
      (bwOf r.mantissaRaw + (64 * ((r.shl - l.shl) / 64) + (r.shl - l.shl) % 64)) + 1 := by omega
  have hb := sum_bounds (sh := 64 * ((r.shl - l.shl) / 64) + (r.shl - l.shl) % 64)
    fl.upper fl.lower fr.upper fr.lower fl.pos fr.pos hbl
  rw [← hsplit]
  unfold addDiff
  simp only []
  split
  · -- both mantissas are single digits
    rename_i hsmall
    cases hlm : l.mant with
    | heap ds =>
      have := bwOf_heap_big fl (by simpa [Natural.mantissaRaw, hlm] using (nf_heap_big hl hlm).1)
      omega
    | inl ml =>
      cases hrm : r.mant with
      | heap ds =>
        have := bwOf_heap_big fr (by simpa [Natural.mantissaRaw, hrm] using (nf_heap_big hr hrm).1)
        omega
      | inl mr =>
        simp only [Natural.mantissaRaw, hlm, hrm] at fl fr hbl hsmall ⊢
        simp only [Natural.len, hlm, hrm, dval_cons, dval_nil, Nat.mul_zero, Nat.add_zero]
        rw [hsplit]
        exact diff_small fl fr (by omega) hshl (by rw [← hsplit] ; exact hbl) hsmall
  · rename_i hbig
    split
    · -- in place
      rename_i hlen
      cases hlm : l.mant with
      | inl ml => simp [Natural.mantissaRaw, hlm] at hlen; omega
      | heap ds =>
        have hw : l.withDigits (List.take ((r.shl - l.shl) / 64) l.mantissaRaw ++
            zipInPlace ((r.shl - l.shl) % 64) (List.drop ((r.shl - l.shl) / 64) l.mantissaRaw) r.mantissaRaw 0 0)
            = ⟨.heap (List.take ((r.shl - l.shl) / 64) l.mantissaRaw ++
            zipInPlace ((r.shl - l.shl) % 64) (List.drop ((r.shl - l.shl) / 64) l.mantissaRaw) r.mantissaRaw 0 0), l.shl⟩ := by
          simp [Natural.withDigits, hlm]
        rw [hw]
        exact goodSum_of_layout (diff_inplace fl fr hsb (by omega) hbl hlen) hshl (by omega) hb.2
    · split
      · rename_i hsd
        exact goodSum_of_layout (diff_disjoint fl fr hsb hbl hsd) hshl (by omega) hb.2
      · rename_i hsd
        exact goodSum_of_layout (diff_vec fl fr hsb (by omega) hbl (by omega)) hshl (by omega) hb.2

end OxiddModel.Num
