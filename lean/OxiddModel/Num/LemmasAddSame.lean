import OxiddModel.Num.LemmasAddDiff

/-!
`Add for Natural`, operands with equal exponents: the fused add-and-shift-right loops compute
`(L + R) / 2^e`, `e` the number of trailing zeros of `L + R`.
-/

namespace OxiddModel.Num
open Natural

/-- the part of the sum not yet consumed: remaining digits of both operands plus the carry -/
def T (ls rs : List Nat) (c : Nat) : Nat := dval ls + dval rs + c

theorem T_step (ls rs : List Nat) (c : Nat) :
    T ls rs c = (ls.headD 0 + rs.headD 0 + c) + B * (dval ls.tail + dval rs.tail) := by
  unfold T
  cases ls <;> cases rs <;> simp [Nat.mul_add] <;> omega

theorem digitsOk_tail {ds : List Nat} (h : digitsOk ds) : digitsOk ds.tail := by
  cases ds with
  | nil => exact digitsOk_nil
  | cons d ds => exact (digitsOk_cons.1 h).2

theorem headD_lt_B {ds : List Nat} (h : digitsOk ds) : ds.headD 0 < B := by
  cases ds with
  | nil => exact B_pos
  | cons d ds => exact (digitsOk_cons.1 h).1

theorem skipZeros_spec (f : Nat) : ∀ (ls rs : List Nat) (lsd carry i : Nat),
    lsd < B → carry ≤ 1 → (lsd = 0 → carry = 1) → digitsOk ls → digitsOk rs →
    (lsd ≠ 0 ∨ max ls.length rs.length + 1 ≤ f) →
    (skipZeros f ls rs lsd carry i).1 ≠ 0 ∧ (skipZeros f ls rs lsd carry i).1 < B
    ∧ (skipZeros f ls rs lsd carry i).2.1 ≤ 1
    ∧ ∃ j, (skipZeros f ls rs lsd carry i).2.2.1 = i + j
      ∧ (skipZeros f ls rs lsd carry i).2.2.2.1 = ls.drop j
      ∧ (skipZeros f ls rs lsd carry i).2.2.2.2 = rs.drop j
      ∧ lsd + B * T ls rs carry
        = B ^ j * ((skipZeros f ls rs lsd carry i).1
            + B * T (ls.drop j) (rs.drop j) (skipZeros f ls rs lsd carry i).2.1) := by
  induction f with
  | zero =>
    intro ls rs lsd carry i h1 h2 h3 h4 h5 h6
    have : lsd ≠ 0 := by omega
    exact ⟨this, h1, h2, 0, by simp [skipZeros]⟩
  | succ f ih =>
    intro ls rs lsd carry i h1 h2 h3 h4 h5 h6
    by_cases h0 : lsd = 0
    · subst h0
      have hc := h3 rfl
      subst hc
      have hstep := T_step ls rs 1
      obtain ⟨s1, s2⟩ := carryingAdd_spec (ls.headD 0) (rs.headD 0) 1
      have hcl := carryingAdd_carry_le (headD_lt_B h4) (headD_lt_B h5) (Nat.le_refl 1)
      have hz : (carryingAdd (ls.headD 0) (rs.headD 0) 1).1 = 0 → (carryingAdd (ls.headD 0) (rs.headD 0) 1).2 = 1 := by
        intro hz
        have := headD_lt_B h4
        have := headD_lt_B h5
        bomega
      have hfuel : (carryingAdd (ls.headD 0) (rs.headD 0) 1).1 ≠ 0 ∨ max ls.tail.length rs.tail.length + 1 ≤ f := by
        by_cases hl : ls = [] ∧ rs = []
        · left
          obtain ⟨e1, e2⟩ := hl
          subst e1; subst e2
          simp [carryingAdd]; decide
        · right
          have : 1 ≤ max ls.length rs.length := by
            cases ls <;> cases rs <;> simp at hl ⊢ <;> omega
          simp only [List.length_tail]
          omega
      obtain ⟨r1, r2, r3, j, r4, r5, r6, r7⟩ := ih ls.tail rs.tail _ _ (i + 1) s2 hcl hz
        (digitsOk_tail h4) (digitsOk_tail h5) hfuel
      simp only [skipZeros, ne_eq, not_true_eq_false, if_false]
      refine ⟨r1, r2, r3, j + 1, by rw [r4]; omega, by rw [r5]; simp, by rw [r6]; simp, ?_⟩
      simp only [List.drop_tail] at r7
      rw [Nat.zero_add, hstep, pow_succ_mul, ← r7]
      unfold T
      simp only [Nat.mul_add]
      bomega
    · have he : skipZeros (f + 1) ls rs lsd carry i = (lsd, carry, i, ls, rs) := by
        simp [skipZeros, h0]
      rw [he]
      exact ⟨h0, h1, h2, 0, by simp⟩


/-! ### right-shifting loops, `Vec` variant -/

/-- minimal number of final digits: `rot` is always pushed when `bit_shr == 0` -/
def z1 (bs : Nat) : Nat := if bs = 0 then 1 else 0

theorem rotr_carry {c bs : Nat} (hc : c ≤ 1) (h0 : 0 < bs) (hs : bs < 64) :
    rotr c bs = c * 2 ^ (64 - bs) := by
  have h64 : 64 - bs < 64 := by omega
  have hlt : 2 ^ (64 - bs) < B := by rw [B_eq]; exact Nat.pow_lt_pow_right (by decide) h64
  rcases Nat.le_one_iff_eq_zero_or_eq_one.1 hc with h | h
  · subst h; simp [rotr, shlW]
  · subst h
    have : (1 : Nat) >>> bs = 0 := by
      rw [Nat.shiftRight_eq_div_pow]
      exact Nat.div_eq_of_lt (Nat.one_lt_two_pow (by omega))
    simp [rotr, shlW_eq, this, Nat.mod_eq_of_lt hlt]

theorem getLastD_cons_of_ne {x : Nat} {rest : List Nat} (h : rest.getLastD 0 ≠ 0) :
    (x :: rest).getLastD 0 = rest.getLastD 0 := by
  cases rest with
  | nil => simp at h
  | cons y ys => rw [getLastD_cons_cons]

/-- either the top digit is not zero or only the minimal number of digits was produced -/
def TopOrMin (bs : Nat) (out : List Nat) (m : Nat) : Prop :=
  out.getLastD 0 ≠ 0 ∨ out.length ≤ m + z1 bs

theorem TopOrMin_cons {bs x m : Nat} {rest : List Nat} (h : TopOrMin bs rest m) :
    TopOrMin bs (x :: rest) (m + 1) := by
  rcases h with h | h
  · left; rw [getLastD_cons_of_ne h]; exact h
  · right; simp only [List.length_cons]; omega

theorem two_pow_64_sub_lt {bs : Nat} (h0 : 0 < bs) (hs : bs < 64) : 2 * 2 ^ (64 - bs) ≤ B := by
  have : 2 * 2 ^ (64 - bs) = 2 ^ (64 - bs + 1) := by rw [Nat.pow_succ]; omega
  rw [this, B_eq]
  exact Nat.pow_le_pow_right (by decide) (by omega)

theorem finVecB_spec {bs carry p : Nat} (hs : bs < 64) (hc : carry ≤ 1) (hp : p < B) :
    dval (finVecB bs carry (rotr p bs)) = p / 2 ^ bs + carry * 2 ^ (64 - bs)
    ∧ digitsOk (finVecB bs carry (rotr p bs)) ∧ TopOrMin bs (finVecB bs carry (rotr p bs)) 0 := by
  unfold finVecB
  by_cases h0 : bs = 0
  · subst h0
    have hr : rotr p 0 = p := by
      simp [rotr, shlW_eq, ← B_eq]
    rw [hr]
    rcases Nat.le_one_iff_eq_zero_or_eq_one.1 hc with h | h
    · subst h
      refine ⟨by simp, by simpa using digitsOk_cons.2 ⟨hp, digitsOk_nil⟩, Or.inr (by simp [z1])⟩
    · subst h
      refine ⟨by simp [← B_eq], ?_, Or.inl (by simp)⟩
      simpa using digitsOk_cons.2 ⟨hp, digitsOk_cons.2 ⟨by decide, digitsOk_nil⟩⟩
  · have hpos : 0 < bs := Nat.pos_of_ne_zero h0
    rw [if_neg h0, rotr_and_lower p bs hp hs, rotr_carry hc hpos hs]
    have hl : p / 2 ^ bs < 2 ^ (64 - bs) := by
      have := div_two_pow_lt hp (s := 64 - bs) (by omega)
      rwa [show 64 - (64 - bs) = bs by omega] at this
    have hor := or_eq_add_of_lt_dvd hl (b := carry * 2 ^ (64 - bs)) (Nat.mul_mod_left _ _)
    rw [hor]
    have hK := two_pow_64_sub_lt hpos hs
    have hcK : carry * 2 ^ (64 - bs) ≤ 2 ^ (64 - bs) := by
      have := Nat.mul_le_mul_right (2 ^ (64 - bs)) hc
      omega
    simp only
    split
    · rename_i hd
      refine ⟨by simp, digitsOk_cons.2 ⟨by omega, digitsOk_nil⟩, Or.inl (by simpa using hd)⟩
    · rename_i hd
      have : p / 2 ^ bs + carry * 2 ^ (64 - bs) = 0 := by omega
      exact ⟨by simp [this], digitsOk_nil, Or.inr (by simp)⟩


theorem propRotVec_spec {bs : Nat} (hs : bs < 64) (xs : List Nat) : ∀ (carry p : Nat),
    digitsOk xs → carry ≤ 1 → p < B →
    dval (propRotVec bs xs carry (rotr p bs)) = p / 2 ^ bs + (dval xs + carry) * 2 ^ (64 - bs)
    ∧ digitsOk (propRotVec bs xs carry (rotr p bs))
    ∧ TopOrMin bs (propRotVec bs xs carry (rotr p bs)) xs.length := by
  induction xs with
  | nil =>
    intro carry p _ hc hp
    simpa [propRotVec] using finVecB_spec hs hc hp
  | cons x xs ih =>
    intro carry p hxs hc hp
    rw [digitsOk_cons] at hxs
    obtain ⟨s1, s2⟩ := overflowingAdd_spec x carry
    have hc' := overflowingAdd_carry_le hxs.1 hc
    obtain ⟨h1, h2, h3⟩ := ih (overflowingAdd x carry).2 (overflowingAdd x carry).1 hxs.2 hc' s2
    obtain ⟨c1, c2⟩ := combine_eq p (overflowingAdd x carry).1 bs hp s2 hs
    simp only [propRotVec, c1]
    refine ⟨?_, digitsOk_cons.2 ⟨c2, h2⟩, TopOrMin_cons h3⟩
    rw [dval_cons, h1, dval_cons]
    have hst := shr_step (overflowingAdd x carry).1 hs
    have e1 : (x + B * dval xs + carry) * 2 ^ (64 - bs)
        = ((overflowingAdd x carry).1 + B * (overflowingAdd x carry).2 + B * dval xs) * 2 ^ (64 - bs) := by
      congr 1; omega
    rw [e1]
    simp only [Nat.add_mul, Nat.mul_add, Nat.mul_assoc]
    omega

theorem fusedVec_spec {bs : Nat} (hs : bs < 64) (ls : List Nat) : ∀ (rs : List Nat) (carry p : Nat),
    digitsOk ls → digitsOk rs → carry ≤ 1 → p < B →
    dval (fusedVec bs ls rs carry (rotr p bs)) = p / 2 ^ bs + T ls rs carry * 2 ^ (64 - bs)
    ∧ digitsOk (fusedVec bs ls rs carry (rotr p bs))
    ∧ TopOrMin bs (fusedVec bs ls rs carry (rotr p bs)) (max ls.length rs.length) := by
  induction ls with
  | nil =>
    intro rs carry p _ hrs hc hp
    have : fusedVec bs [] rs carry (rotr p bs) = propRotVec bs rs carry (rotr p bs) := by
      cases rs <;> simp [fusedVec]
    rw [this]
    simpa [T] using propRotVec_spec hs rs carry p hrs hc hp
  | cons l ls ih =>
    intro rs carry p hls hrs hc hp
    cases rs with
    | nil =>
      have : fusedVec bs (l :: ls) [] carry (rotr p bs) = propRotVec bs (l :: ls) carry (rotr p bs) := by
        simp [fusedVec]
      rw [this]
      simpa [T] using propRotVec_spec hs (l :: ls) carry p hls hc hp
    | cons r rs =>
      rw [digitsOk_cons] at hls hrs
      obtain ⟨s1, s2⟩ := carryingAdd_spec l r carry
      have hc' := carryingAdd_carry_le hls.1 hrs.1 hc
      obtain ⟨h1, h2, h3⟩ := ih rs (carryingAdd l r carry).2 (carryingAdd l r carry).1 hls.2 hrs.2 hc' s2
      obtain ⟨c1, c2⟩ := combine_eq p (carryingAdd l r carry).1 bs hp s2 hs
      simp only [fusedVec, c1]
      refine ⟨?_, digitsOk_cons.2 ⟨c2, h2⟩, ?_⟩
      · rw [dval_cons, h1]
        have hst := shr_step (carryingAdd l r carry).1 hs
        unfold T
        have e1 : (dval (l :: ls) + dval (r :: rs) + carry) * 2 ^ (64 - bs)
            = ((carryingAdd l r carry).1 + B * (carryingAdd l r carry).2 + B * dval ls + B * dval rs)
              * 2 ^ (64 - bs) := by
          congr 1; simp only [dval_cons]; omega
        rw [e1]
        simp only [Nat.add_mul, Nat.mul_add, Nat.mul_assoc]
        omega
      · have := TopOrMin_cons (x := p / 2 ^ bs + (carryingAdd l r carry).1 * 2 ^ (64 - bs) % B) h3
        simpa [Nat.succ_max_succ] using this


/-! ### right-shifting loops, in-place variant -/

/-- number of digits written by the final block of the in-place variant -/
def finInLen (bs lLen i : Nat) : Nat := if bs = 0 then 1 + ind (i + 1) lLen else 1

theorem finIn_spec {bs carry p : Nat} (lLen iOut : Nat) (hs : bs < 64) (hc : carry ≤ 1) (hp : p < B) :
    ∃ E, dval (finIn bs lLen carry (rotr p bs) iOut) + B ^ (finIn bs lLen carry (rotr p bs) iOut).length * E
        = p / 2 ^ bs + carry * 2 ^ (64 - bs)
    ∧ digitsOk (finIn bs lLen carry (rotr p bs) iOut)
    ∧ (finIn bs lLen carry (rotr p bs) iOut).length = finInLen bs lLen iOut := by
  unfold finIn finInLen
  by_cases h0 : bs = 0
  · subst h0
    have hr : rotr p 0 = p := by simp [rotr, shlW_eq, ← B_eq]
    rw [hr]
    have hcB : carry < B := by bomega
    rcases ind_cases (iOut + 1) lLen with ⟨e1, e2⟩ | ⟨e1, e2⟩
    · refine ⟨carry, ?_, ?_, ?_⟩
      · simp [e1, ← B_eq]; rw [Nat.mul_comm]
      · simpa [e1] using digitsOk_cons.2 ⟨hp, digitsOk_nil⟩
      · rw [e2]; simp [e1]
    · refine ⟨0, ?_, ?_, ?_⟩
      · simp [e1, ← B_eq]; rw [Nat.mul_comm]
      · simpa [e1] using digitsOk_cons.2 ⟨hp, digitsOk_cons.2 ⟨hcB, digitsOk_nil⟩⟩
      · rw [e2]; simp [e1]
  · have hpos : 0 < bs := Nat.pos_of_ne_zero h0
    rw [if_neg h0, if_neg h0, rotr_and_lower p bs hp hs, rotr_carry hc hpos hs]
    have hl : p / 2 ^ bs < 2 ^ (64 - bs) := by
      have := div_two_pow_lt hp (s := 64 - bs) (by omega)
      rwa [show 64 - (64 - bs) = bs by omega] at this
    have hor := or_eq_add_of_lt_dvd hl (b := carry * 2 ^ (64 - bs)) (Nat.mul_mod_left _ _)
    rw [hor]
    have hK := two_pow_64_sub_lt hpos hs
    have hcK : carry * 2 ^ (64 - bs) ≤ 2 ^ (64 - bs) := by
      have := Nat.mul_le_mul_right (2 ^ (64 - bs)) hc
      omega
    exact ⟨0, by simp, digitsOk_cons.2 ⟨by omega, digitsOk_nil⟩, by simp⟩

theorem whileLIn_spec {bs : Nat} (lLen : Nat) (hs : bs < 64) (ls : List Nat) : ∀ (carry p iOut : Nat),
    digitsOk ls → carry ≤ 1 → p < B →
    ∃ E, dval (whileLIn bs lLen ls carry (rotr p bs) iOut)
          + B ^ (whileLIn bs lLen ls carry (rotr p bs) iOut).length * E
        = p / 2 ^ bs + (dval ls + carry) * 2 ^ (64 - bs)
    ∧ digitsOk (whileLIn bs lLen ls carry (rotr p bs) iOut)
    ∧ (whileLIn bs lLen ls carry (rotr p bs) iOut).length
        = ls.length + finInLen bs lLen (iOut + ls.length) := by
  induction ls with
  | nil =>
    intro carry p iOut _ hc hp
    simpa [whileLIn] using finIn_spec lLen iOut hs hc hp
  | cons x xs ih =>
    intro carry p iOut hxs hc hp
    rw [digitsOk_cons] at hxs
    obtain ⟨s1, s2⟩ := overflowingAdd_spec x carry
    have hc' := overflowingAdd_carry_le hxs.1 hc
    obtain ⟨E, h1, h2, h3⟩ := ih (overflowingAdd x carry).2 (overflowingAdd x carry).1 (iOut + 1) hxs.2 hc' s2
    obtain ⟨c1, c2⟩ := combine_eq p (overflowingAdd x carry).1 bs hp s2 hs
    simp only [whileLIn, c1]
    refine ⟨E, ?_, digitsOk_cons.2 ⟨c2, h2⟩, ?_⟩
    · rw [dval_cons, List.length_cons, pow_succ_mul, dval_cons]
      have hst := shr_step (overflowingAdd x carry).1 hs
      have e1 : (x + B * dval xs + carry) * 2 ^ (64 - bs)
          = ((overflowingAdd x carry).1 + B * (overflowingAdd x carry).2 + B * dval xs) * 2 ^ (64 - bs) := by
        congr 1; omega
      rw [e1]
      have := congrArg (fun t => B * t) h1
      simp only [Nat.add_mul, Nat.mul_add, Nat.mul_assoc] at this ⊢
      omega
    · rw [List.length_cons, h3, List.length_cons,
        show iOut + 1 + xs.length = iOut + (xs.length + 1) by omega]
      omega


theorem forRIn_spec {bs : Nat} (len lLen : Nat) (hs : bs < 64) (rs : List Nat) : ∀ (carry p iOut : Nat),
    digitsOk rs → carry ≤ 1 → p < B →
    ∃ E, dval (forRIn bs len lLen rs carry (rotr p bs) iOut)
          + B ^ (forRIn bs len lLen rs carry (rotr p bs) iOut).length * E
        = p / 2 ^ bs + (dval rs + carry) * 2 ^ (64 - bs)
    ∧ digitsOk (forRIn bs len lLen rs carry (rotr p bs) iOut)
    ∧ ((iOut + 1 ≤ len ∧ len ≤ iOut + rs.length) →
        (forRIn bs len lLen rs carry (rotr p bs) iOut).length = len - iOut)
    ∧ (¬ (iOut + 1 ≤ len ∧ len ≤ iOut + rs.length) →
        (forRIn bs len lLen rs carry (rotr p bs) iOut).length
          = rs.length + finInLen bs lLen (iOut + rs.length)) := by
  induction rs with
  | nil =>
    intro carry p iOut _ hc hp
    obtain ⟨E, h1, h2, h3⟩ := finIn_spec lLen iOut hs hc hp
    refine ⟨E, by simpa [forRIn] using h1, by simpa [forRIn] using h2, ?_, ?_⟩
    · intro h; simp at h; omega
    · intro _; simpa [forRIn] using h3
  | cons x xs ih =>
    intro carry p iOut hxs hc hp
    rw [digitsOk_cons] at hxs
    obtain ⟨s1, s2⟩ := overflowingAdd_spec x carry
    have hc' := overflowingAdd_carry_le hxs.1 hc
    obtain ⟨c1, c2⟩ := combine_eq p (overflowingAdd x carry).1 bs hp s2 hs
    have hst := shr_step (overflowingAdd x carry).1 hs
    have e1 : (x + B * dval xs + carry) * 2 ^ (64 - bs)
        = ((overflowingAdd x carry).1 + B * (overflowingAdd x carry).2 + B * dval xs) * 2 ^ (64 - bs) := by
      congr 1; omega
    simp only [forRIn, c1]
    by_cases hret : iOut + 1 = len
    · rw [if_pos hret]
      refine ⟨(overflowingAdd x carry).1 / 2 ^ bs + (dval xs + (overflowingAdd x carry).2) * 2 ^ (64 - bs),
        ?_, digitsOk_cons.2 ⟨c2, digitsOk_nil⟩, ?_, ?_⟩
      · rw [dval_cons, dval_nil, List.length_singleton, Nat.pow_one, dval_cons, e1]
        simp only [Nat.add_mul, Nat.mul_add, Nat.mul_assoc]
        omega
      · intro _; simp only [List.length_singleton]; omega
      · intro h; simp only [List.length_cons] at h; omega
    · rw [if_neg hret]
      obtain ⟨E, h1, h2, h3, h4⟩ := ih (overflowingAdd x carry).2 (overflowingAdd x carry).1 (iOut + 1)
        hxs.2 hc' s2
      refine ⟨E, ?_, digitsOk_cons.2 ⟨c2, h2⟩, ?_, ?_⟩
      · rw [dval_cons, List.length_cons, pow_succ_mul, dval_cons, e1]
        have := congrArg (fun t => B * t) h1
        simp only [Nat.add_mul, Nat.mul_add, Nat.mul_assoc] at this ⊢
        omega
      · intro h
        simp only [List.length_cons] at h ⊢
        rw [h3 (by omega)]; omega
      · intro h
        simp only [List.length_cons] at h ⊢
        rw [h4 (by omega), show iOut + 1 + xs.length = iOut + (xs.length + 1) by omega]
        omega

theorem fusedIn_spec {bs : Nat} (len lLen : Nat) (hs : bs < 64) (ls : List Nat) :
    ∀ (rs : List Nat) (carry p iOut : Nat),
    digitsOk ls → digitsOk rs → carry ≤ 1 → p < B →
    ∃ E, dval (fusedIn bs len lLen ls rs carry (rotr p bs) iOut)
          + B ^ (fusedIn bs len lLen ls rs carry (rotr p bs) iOut).length * E
        = p / 2 ^ bs + T ls rs carry * 2 ^ (64 - bs)
    ∧ digitsOk (fusedIn bs len lLen ls rs carry (rotr p bs) iOut)
    ∧ (rs.length ≤ ls.length →
        (fusedIn bs len lLen ls rs carry (rotr p bs) iOut).length
          = ls.length + finInLen bs lLen (iOut + ls.length))
    ∧ (ls.length < rs.length →
        ((iOut + ls.length + 1 ≤ len ∧ len ≤ iOut + rs.length) →
          (fusedIn bs len lLen ls rs carry (rotr p bs) iOut).length = len - iOut)
        ∧ (¬ (iOut + ls.length + 1 ≤ len ∧ len ≤ iOut + rs.length) →
          (fusedIn bs len lLen ls rs carry (rotr p bs) iOut).length
            = rs.length + finInLen bs lLen (iOut + rs.length))) := by
  induction ls with
  | nil =>
    intro rs carry p iOut _ hrs hc hp
    cases rs with
    | nil =>
      obtain ⟨E, h1, h2, h3⟩ := whileLIn_spec lLen hs [] carry p iOut digitsOk_nil hc hp
      refine ⟨E, by simpa [fusedIn, T] using h1, by simpa [fusedIn] using h2, ?_, ?_⟩
      · intro _; simpa [fusedIn] using h3
      · intro h; simp at h
    | cons r rs =>
      obtain ⟨E, h1, h2, h3, h4⟩ := forRIn_spec len lLen hs (r :: rs) carry p iOut hrs hc hp
      have hf : fusedIn bs len lLen [] (r :: rs) carry (rotr p bs) iOut
          = forRIn bs len lLen (r :: rs) carry (rotr p bs) iOut := by simp [fusedIn]
      rw [hf]
      refine ⟨E, by simpa [T] using h1, h2, ?_, ?_⟩
      · intro h; simp at h
      · intro _; exact ⟨fun h => h3 (by simpa using h), fun h => h4 (by simpa using h)⟩
  | cons l ls ih =>
    intro rs carry p iOut hls hrs hc hp
    cases rs with
    | nil =>
      obtain ⟨E, h1, h2, h3⟩ := whileLIn_spec lLen hs (l :: ls) carry p iOut hls hc hp
      have hf : fusedIn bs len lLen (l :: ls) [] carry (rotr p bs) iOut
          = whileLIn bs lLen (l :: ls) carry (rotr p bs) iOut := by simp [fusedIn]
      rw [hf]
      refine ⟨E, by simpa [T] using h1, h2, ?_, ?_⟩
      · intro _; exact h3
      · intro h; simp at h
    | cons r rs =>
      rw [digitsOk_cons] at hls hrs
      obtain ⟨s1, s2⟩ := carryingAdd_spec l r carry
      have hc' := carryingAdd_carry_le hls.1 hrs.1 hc
      obtain ⟨E, h1, h2, h3, h4⟩ := ih rs (carryingAdd l r carry).2 (carryingAdd l r carry).1 (iOut + 1)
        hls.2 hrs.2 hc' s2
      obtain ⟨c1, c2⟩ := combine_eq p (carryingAdd l r carry).1 bs hp s2 hs
      simp only [fusedIn, c1]
      refine ⟨E, ?_, digitsOk_cons.2 ⟨c2, h2⟩, ?_, ?_⟩
      · rw [dval_cons, List.length_cons, pow_succ_mul]
        have hst := shr_step (carryingAdd l r carry).1 hs
        unfold T at h1 ⊢
        have e1 : (dval (l :: ls) + dval (r :: rs) + carry) * 2 ^ (64 - bs)
            = ((carryingAdd l r carry).1 + B * (carryingAdd l r carry).2 + B * dval ls + B * dval rs)
              * 2 ^ (64 - bs) := by
          congr 1; simp only [dval_cons]; omega
        rw [e1]
        have := congrArg (fun t => B * t) h1
        simp only [Nat.add_mul, Nat.mul_add, Nat.mul_assoc] at this ⊢
        omega
      · intro h
        simp only [List.length_cons] at h ⊢
        rw [h3 (by omega), show iOut + 1 + ls.length = iOut + (ls.length + 1) by omega]
        omega
      · intro h
        simp only [List.length_cons] at h ⊢
        obtain ⟨h4a, h4b⟩ := h4 (by omega)
        constructor
        · intro hh; rw [h4a (by omega)]; omega
        · intro hh
          rw [h4b (by omega), show iOut + 1 + rs.length = iOut + (rs.length + 1) by omega]
          omega

/-! ### the branch as a whole -/

theorem pow_le_dval_of_last_ne {ds : List Nat} (h : ds.getLastD 0 ≠ 0) : B ^ (ds.length - 1) ≤ dval ds := by
  have h1 := two_pow_le_dval ds h
  have hlz : lz64 (ds.getLastD 0) < 64 := by
    have := @lz64_eq_64_iff (ds.getLastD 0)
    have := lz64_le (ds.getLastD 0)
    omega
  have hne : 1 ≤ ds.length := by
    cases ds with
    | nil => simp at h
    | cons _ _ => simp
  rw [B_pow]
  exact Nat.le_trans (Nat.pow_le_pow_right (by decide) (by omega)) h1

/-- like `nf_heap_of_layout`, with an upper bound on the number of digits only -/
theorem nf_heap_of_le {out : List Nat} {shl bl : Nat} (hshl : shl ≤ MAX64)
    (hok : digitsOk out) (hlen : out.length ≤ (bl + 63) / 64)
    (hodd : out.headD 0 % 2 = 1) (hV : 2 ^ (bl - 2) ≤ dval out) (hB : B ≤ dval out) :
    NF ⟨.heap out, shl⟩ := by
  have h2 : 2 ≤ out.length := by
    apply Classical.byContradiction
    intro h
    have hlt := dval_lt hok
    have : B ^ out.length ≤ B ^ 1 := Nat.pow_le_pow_right B_pos (by omega)
    simp at this
    omega
  refine ⟨hshl, h2, hok, hodd, ?_, hB⟩
  intro ht
  apply top_cond out h2 hok ht
  have : 64 * (out.length - 1) - 1 ≤ bl - 2 := by omega
  exact Nat.le_trans (Nat.pow_le_pow_right (by decide) this) hV

/-- bounds of the odd part of a sum -/
theorem odd_part_bounds {S M e mx : Nat} (hS : S = M * 2 ^ e) (hM : 1 ≤ M)
    (hlo : 2 ^ (mx - 1) ≤ S) (hhi : S < 2 ^ (mx + 1)) (hmx : 1 ≤ mx) :
    e ≤ mx ∧ M < 2 ^ (mx + 1 - e) ∧ 2 ^ (mx + 1 - e - 2) ≤ M := by
  have he : e ≤ mx := by
    apply Classical.byContradiction
    intro h
    have h1 : 2 ^ (mx + 1) ≤ 2 ^ e := Nat.pow_le_pow_right (by decide) (by omega)
    have h2 : 2 ^ e ≤ M * 2 ^ e := Nat.le_mul_of_pos_left _ hM
    omega
  refine ⟨he, ?_, ?_⟩
  · apply Nat.lt_of_mul_lt_mul_right (a := 2 ^ e)
    rw [← Nat.pow_add, show mx + 1 - e + e = mx + 1 by omega, ← hS]
    exact hhi
  · by_cases h : e ≤ mx - 1
    · apply Nat.le_of_mul_le_mul_right (c := 2 ^ e) _ (Nat.two_pow_pos _)
      rw [← Nat.pow_add, show mx + 1 - e - 2 + e = mx - 1 by omega, ← hS]
      exact hlo
    · have : mx + 1 - e - 2 = 0 := by omega
      rw [this]; exact hM

/-- `(lsd >> bit_shr) | (rot & upper_mask)` -/
theorem first_digit_eq (lsd nx bs : Nat) (hl : lsd < B) (hn : nx < B) (hs : bs < 64) :
    (lsd >>> bs) ||| (rotr nx bs &&& upperMaskR bs) = lsd / 2 ^ bs + nx * 2 ^ (64 - bs) % B
    ∧ lsd / 2 ^ bs + nx * 2 ^ (64 - bs) % B < B := by
  rw [rotr_and_upper nx bs hn hs, Nat.shiftRight_eq_div_pow]
  have hs' : 64 - bs ≤ 64 := by omega
  have hd := mul_two_pow_mod_B_mod nx hs'
  have hlt : lsd / 2 ^ bs < 2 ^ (64 - bs) := by
    have := div_two_pow_lt hl hs'
    rwa [show 64 - (64 - bs) = bs by omega] at this
  refine ⟨or_eq_add_of_lt_dvd hlt hd, ?_⟩
  have := dvd_add_lt_B hs' (Nat.mod_lt _ B_pos) hd hlt
  omega

end OxiddModel.Num

namespace OxiddModel.Num
open Natural

theorem dval_head_tail (D : List Nat) : dval D = D.headD 0 + B * dval D.tail := by
  cases D <;> simp

theorem nf_NAN : NF Natural.NAN := by
  refine ⟨Nat.le_refl _, B_pos, fun _ => Or.inr rfl, fun h => absurd rfl h⟩

/-- the skip loop: `S = B^j · (lsd + B · rest)` with `lsd ≠ 0` -/
theorem same_core {lD rD : List Nat} (fl : MantFacts lD) (fr : MantFacts rD) {lsd carry iIn : Nat}
    {ls1 rs1 : List Nat}
    (hq : skipZeros (lD.length + rD.length) lD.tail rD.tail
      (overflowingAdd (lD.headD 0) (rD.headD 0)).1 (overflowingAdd (lD.headD 0) (rD.headD 0)).2 1
        = (lsd, carry, iIn, ls1, rs1)) :
    ∃ j, iIn = 1 + j ∧ ls1 = lD.tail.drop j ∧ rs1 = rD.tail.drop j ∧ lsd ≠ 0 ∧ lsd < B ∧ carry ≤ 1
      ∧ dval lD + dval rD = B ^ j * (lsd + B * T ls1 rs1 carry) ∧ digitsOk ls1 ∧ digitsOk rs1 := by
  have hl0 := headD_lt_B fl.ok
  have hr0 := headD_lt_B fr.ok
  have hlo := fl.odd
  have hro := fr.odd
  obtain ⟨o1, o2⟩ := overflowingAdd_spec (lD.headD 0) (rD.headD 0)
  have oc : (overflowingAdd (lD.headD 0) (rD.headD 0)).2 ≤ 1 := by
    unfold overflowingAdd; simp only; bomega
  have oz : (overflowingAdd (lD.headD 0) (rD.headD 0)).1 = 0 →
      (overflowingAdd (lD.headD 0) (rD.headD 0)).2 = 1 := by
    intro h; bomega
  have hne1 : 1 ≤ lD.length := by
    cases lD with
    | nil => exact absurd rfl fl.ne
    | cons _ _ => simp
  have sk := skipZeros_spec (lD.length + rD.length) lD.tail rD.tail _ _ 1 o2 oc oz
    (digitsOk_tail fl.ok) (digitsOk_tail fr.ok)
    (Or.inr (by simp only [List.length_tail]; omega))
  rw [hq] at sk
  obtain ⟨k1, k2, k3, j, k4, k5, k6, k7⟩ := sk
  simp only at k1 k2 k3 k4 k5 k6 k7
  subst k5; subst k6
  refine ⟨j, k4, rfl, rfl, k1, k2, k3, ?_, digitsOk_drop (digitsOk_tail fl.ok) j,
    digitsOk_drop (digitsOk_tail fr.ok) j⟩
  rw [← k7, dval_head_tail lD, dval_head_tail rD]
  unfold T
  simp only [Nat.mul_add]
  omega

/-- the odd part of the sum in terms of the loop state after the skip loop -/
theorem same_M {lsd carry j S : Nat} {ls1 rs1 : List Nat} (k1 : lsd ≠ 0) (k2 : lsd < B) (k3 : carry ≤ 1)
    (hS : S = B ^ j * (lsd + B * T ls1 rs1 carry)) (h1 : digitsOk ls1) (h2 : digitsOk rs1) :
    shlAmount lsd < 64
    ∧ (carryingAdd (ls1.headD 0) (rs1.headD 0) carry).1 < B
    ∧ (carryingAdd (ls1.headD 0) (rs1.headD 0) carry).2 ≤ 1
    ∧ lsd / 2 ^ shlAmount lsd % 2 = 1
    ∧ (lsd / 2 ^ shlAmount lsd + 2 ^ (64 - shlAmount lsd)
        * ((carryingAdd (ls1.headD 0) (rs1.headD 0) carry).1
          + B * T ls1.tail rs1.tail (carryingAdd (ls1.headD 0) (rs1.headD 0) carry).2)) % 2 = 1
    ∧ S = (lsd / 2 ^ shlAmount lsd + 2 ^ (64 - shlAmount lsd)
        * ((carryingAdd (ls1.headD 0) (rs1.headD 0) carry).1
          + B * T ls1.tail rs1.tail (carryingAdd (ls1.headD 0) (rs1.headD 0) carry).2))
        * 2 ^ (shlAmount lsd + 64 * j) := by
  have hsa : shlAmount lsd = tz64 lsd := by simp [shlAmount, k1]
  obtain ⟨t1, t2, t3⟩ := tz64_spec k1 k2
  rw [hsa]
  obtain ⟨s1, s2⟩ := carryingAdd_spec (ls1.headD 0) (rs1.headD 0) carry
  have hc2 := carryingAdd_carry_le (headD_lt_B h1) (headD_lt_B h2) k3
  have hT : T ls1 rs1 carry = (carryingAdd (ls1.headD 0) (rs1.headD 0) carry).1
      + B * T ls1.tail rs1.tail (carryingAdd (ls1.headD 0) (rs1.headD 0) carry).2 := by
    rw [T_step]; unfold T; simp only [Nat.mul_add]; omega
  rw [← hT]
  have hK : 2 ^ (64 - tz64 lsd) = 2 * 2 ^ (63 - tz64 lsd) := by
    rw [show 64 - tz64 lsd = (63 - tz64 lsd) + 1 by omega, Nat.pow_succ]; omega
  refine ⟨t1, s2, hc2, t3, ?_, ?_⟩
  · rw [hK, Nat.mul_assoc, Nat.add_mod, Nat.mul_mod_right, t3]
  · rw [hS, Nat.pow_add, ← B_pow]
    have hlsd : lsd = 2 ^ tz64 lsd * (lsd / 2 ^ tz64 lsd) := by
      have := Nat.div_add_mod lsd (2 ^ tz64 lsd)
      omega
    have hB := B_split (Nat.le_of_lt t1)
    have e1 : lsd + B * T ls1 rs1 carry
        = (lsd / 2 ^ tz64 lsd + 2 ^ (64 - tz64 lsd) * T ls1 rs1 carry) * 2 ^ tz64 lsd := by
      rw [Nat.add_mul, Nat.mul_comm (lsd / 2 ^ tz64 lsd), ← hlsd, Nat.mul_right_comm, ← hB]
    rw [e1, Nat.mul_comm (B ^ j), Nat.mul_assoc]

theorem K_mul_two_pow {t : Nat} (ht : t < 64) : 2 ^ (64 - t) * 2 ^ t = B := (B_split (Nat.le_of_lt ht)).symm

theorem first_digit_odd {q nx t : Nat} (ht : t < 64) (hq : q % 2 = 1) :
    (q + nx * 2 ^ (64 - t) % B) % 2 = 1 := by
  have := mul_two_pow_even nx (s := 64 - t) (by omega)
  omega

/-- single-digit result of the equal-exponent branch -/
theorem same_single {q nx t T2 bl : Nat} (ht : t < 64) (hnx : nx / 2 ^ t = 0)
    (hbl : bl ≤ 65) (hM : q + 2 ^ (64 - t) * (nx + B * T2) < 2 ^ bl) :
    q + nx * 2 ^ (64 - t) % B = q + 2 ^ (64 - t) * (nx + B * T2) := by
  have hK := K_mul_two_pow ht
  have hnx' : nx < 2 ^ t := by
    rwa [Nat.div_eq_zero_iff_lt (Nat.two_pow_pos _)] at hnx
  have h1 : nx * 2 ^ (64 - t) < B := by
    rw [← hK, Nat.mul_comm]
    exact Nat.mul_lt_mul_of_pos_left hnx' (Nat.two_pow_pos _)
  rw [Nat.mod_eq_of_lt h1]
  have hT2 : T2 = 0 := by
    apply Classical.byContradiction
    intro h
    have h2 : 2 ^ bl ≤ 2 ^ 65 := Nat.pow_le_pow_right (by decide) hbl
    have h3 : 2 * B ≤ 2 ^ (64 - t) * (B * T2) := by
      have hk2 : 2 ≤ 2 ^ (64 - t) := by
        have := Nat.pow_le_pow_right (show 0 < 2 by decide) (show 1 ≤ 64 - t by omega)
        simpa using this
      have : B ≤ B * T2 := Nat.le_mul_of_pos_right _ (Nat.pos_of_ne_zero h)
      exact Nat.mul_le_mul hk2 this
    rw [Nat.mul_add] at hM
    have : (2 : Nat) ^ 65 = 2 * B := by decide
    omega
  subst hT2
  simp [Nat.mul_comm]

/-- the sum does not fit a single digit -/
theorem same_big {q nx t T2 bl : Nat} (ht : t < 64)
    (hns : ¬ (bl ≤ 65 ∧ nx / 2 ^ t = 0))
    (hlo : 2 ^ (bl - 2) ≤ q + 2 ^ (64 - t) * (nx + B * T2)) :
    B ≤ q + 2 ^ (64 - t) * (nx + B * T2) := by
  by_cases hb : bl ≤ 65
  · have hnx : nx / 2 ^ t ≠ 0 := fun h => hns ⟨hb, h⟩
    have hnx' : 2 ^ t ≤ nx := by
      apply Classical.byContradiction
      intro h
      exact hnx ((Nat.div_eq_zero_iff_lt (Nat.two_pow_pos _)).2 (by omega))
    have := Nat.mul_le_mul_left (2 ^ (64 - t)) hnx'
    rw [K_mul_two_pow ht] at this
    rw [Nat.mul_add]
    omega
  · have : B ≤ 2 ^ (bl - 2) := by
      rw [B_eq]; exact Nat.pow_le_pow_right (by decide) (by omega)
    exact Nat.le_trans this hlo

theorem two_pow_bl_le {bl n : Nat} (h : (bl + 63) / 64 = n) : 2 ^ bl ≤ B ^ n := by
  rw [B_pow]; exact Nat.pow_le_pow_right (by decide) (by omega)

theorem bl_ge_65 {M bl : Nat} (hB : B ≤ M) (hM : M < 2 ^ bl) : 65 ≤ bl := by
  apply Classical.byContradiction
  intro h
  have : 2 ^ bl ≤ 2 ^ 64 := Nat.pow_le_pow_right (by decide) (by omega)
  rw [B_eq] at hB; omega

/-- equal exponents, in place: the digits written are exactly `l_digits.len()` many and denote
the odd part of the sum -/
theorem same_inplace {lD rD ls2 rs2 : List Nat} {j t nx c2 bl lsd : Nat}
    (fl : MantFacts lD) (fr : MantFacts rD)
    (hls2 : ls2.length = lD.length - (j + 2)) (hrs2 : rs2.length = rD.length - (j + 2))
    (ok1 : digitsOk ls2) (ok2 : digitsOk rs2) (ht : t < 64) (hnx : nx < B) (hc2 : c2 ≤ 1)
    (hlsd : lsd < B) (hq : lsd / 2 ^ t % 2 = 1)
    (hbl : bl = max (bwOf lD) (bwOf rD) + 1 - (t + 64 * j))
    (he : t + 64 * j ≤ max (bwOf lD) (bwOf rD))
    (hM : lsd / 2 ^ t + 2 ^ (64 - t) * (nx + B * T ls2 rs2 c2) < 2 ^ bl)
    (hB : B ≤ lsd / 2 ^ t + 2 ^ (64 - t) * (nx + B * T ls2 rs2 c2))
    (hlen : (bl + 63) / 64 = lD.length) :
    (((lsd >>> t) ||| (rotr nx t &&& upperMaskR t))
        :: fusedIn t ((bl + 63) / 64) lD.length ls2 rs2 c2 (rotr nx t) 1).length = lD.length
    ∧ dval (((lsd >>> t) ||| (rotr nx t &&& upperMaskR t))
        :: fusedIn t ((bl + 63) / 64) lD.length ls2 rs2 c2 (rotr nx t) 1)
      = lsd / 2 ^ t + 2 ^ (64 - t) * (nx + B * T ls2 rs2 c2)
    ∧ digitsOk (((lsd >>> t) ||| (rotr nx t &&& upperMaskR t))
        :: fusedIn t ((bl + 63) / 64) lD.length ls2 rs2 c2 (rotr nx t) 1)
    ∧ (((lsd >>> t) ||| (rotr nx t &&& upperMaskR t))
        :: fusedIn t ((bl + 63) / 64) lD.length ls2 rs2 c2 (rotr nx t) 1).headD 0 % 2 = 1 := by
  obtain ⟨bl1, bl2, bl3, bl4⟩ := bwOf_bounds fl
  obtain ⟨br1, br2, br3, br4⟩ := bwOf_bounds fr
  obtain ⟨d1, d2⟩ := first_digit_eq lsd nx t hlsd hnx ht
  obtain ⟨E, hv, hok, hlA, hlB⟩ := fusedIn_spec ((bl + 63) / 64) lD.length ht ls2 rs2 c2 nx 1 ok1 ok2 hc2 hnx
  have h65 := bl_ge_65 hB hM
  rw [d1]
  have hlength : (fusedIn t ((bl + 63) / 64) lD.length ls2 rs2 c2 (rotr nx t) 1).length + 1 = lD.length := by
    by_cases hcase : rs2.length ≤ ls2.length
    · rw [hlA hcase]
      unfold finInLen
      by_cases h0 : t = 0
      · rw [if_pos h0]
        rcases ind_cases (1 + ls2.length + 1) lD.length with ⟨e1, e2⟩ | ⟨e1, e2⟩ <;> rw [e2] <;> omega
      · rw [if_neg h0]; omega
    · obtain ⟨hB1, hB2⟩ := hlB (by omega)
      by_cases hret : 1 + ls2.length + 1 ≤ (bl + 63) / 64 ∧ (bl + 63) / 64 ≤ 1 + rs2.length
      · rw [hB1 hret]; omega
      · rw [hB2 hret]
        unfold finInLen
        by_cases h0 : t = 0
        · rw [if_pos h0]
          rcases ind_cases (1 + rs2.length + 1) lD.length with ⟨e1, e2⟩ | ⟨e1, e2⟩ <;> rw [e2] <;> omega
        · rw [if_neg h0]; omega
  have hsum : dval ((lsd / 2 ^ t + nx * 2 ^ (64 - t) % B)
        :: fusedIn t ((bl + 63) / 64) lD.length ls2 rs2 c2 (rotr nx t) 1)
      + B ^ ((lsd / 2 ^ t + nx * 2 ^ (64 - t) % B)
        :: fusedIn t ((bl + 63) / 64) lD.length ls2 rs2 c2 (rotr nx t) 1).length * E
      = lsd / 2 ^ t + 2 ^ (64 - t) * (nx + B * T ls2 rs2 c2) := by
    rw [dval_cons, List.length_cons, pow_succ_mul]
    have hst := shr_step nx ht
    have := congrArg (fun x => B * x) hv
    simp only [Nat.mul_add] at this ⊢
    rw [Nat.mul_comm (2 ^ (64 - t)) nx, Nat.mul_left_comm (2 ^ (64 - t)) B, Nat.mul_comm (2 ^ (64 - t))]
    omega
  have hVlt : lsd / 2 ^ t + 2 ^ (64 - t) * (nx + B * T ls2 rs2 c2)
      < B ^ ((lsd / 2 ^ t + nx * 2 ^ (64 - t) % B)
        :: fusedIn t ((bl + 63) / 64) lD.length ls2 rs2 c2 (rotr nx t) 1).length := by
    rw [List.length_cons, hlength]
    exact Nat.lt_of_lt_of_le hM (two_pow_bl_le hlen)
  obtain ⟨_, hval⟩ := no_overflow hsum hVlt
  exact ⟨by rw [List.length_cons, hlength], hval, digitsOk_cons.2 ⟨d2, hok⟩,
    by simpa using first_digit_odd ht hq⟩

/-- equal exponents, `Vec` variant -/
theorem same_vec {lD rD ls2 rs2 : List Nat} {j t nx c2 bl lsd : Nat}
    (fl : MantFacts lD) (fr : MantFacts rD)
    (hls2 : ls2.length = lD.length - (j + 2)) (hrs2 : rs2.length = rD.length - (j + 2))
    (ok1 : digitsOk ls2) (ok2 : digitsOk rs2) (ht : t < 64) (hnx : nx < B) (hc2 : c2 ≤ 1)
    (hlsd : lsd < B) (hq : lsd / 2 ^ t % 2 = 1)
    (hbl : bl = max (bwOf lD) (bwOf rD) + 1 - (t + 64 * j))
    (he : t + 64 * j ≤ max (bwOf lD) (bwOf rD))
    (hM : lsd / 2 ^ t + 2 ^ (64 - t) * (nx + B * T ls2 rs2 c2) < 2 ^ bl)
    (hB : B ≤ lsd / 2 ^ t + 2 ^ (64 - t) * (nx + B * T ls2 rs2 c2)) :
    ∀ out, out = (if (((lsd >>> t) ||| (rotr nx t &&& upperMaskR t))
            :: fusedVec t ls2 rs2 c2 (rotr nx t)).length < (bl + 63) / 64
        then (((lsd >>> t) ||| (rotr nx t &&& upperMaskR t)) :: fusedVec t ls2 rs2 c2 (rotr nx t)) ++ [0]
        else (((lsd >>> t) ||| (rotr nx t &&& upperMaskR t)) :: fusedVec t ls2 rs2 c2 (rotr nx t))) →
      out.length ≤ (bl + 63) / 64
      ∧ dval out = lsd / 2 ^ t + 2 ^ (64 - t) * (nx + B * T ls2 rs2 c2)
      ∧ digitsOk out ∧ out.headD 0 % 2 = 1 := by
  obtain ⟨bl1, bl2, bl3, bl4⟩ := bwOf_bounds fl
  obtain ⟨br1, br2, br3, br4⟩ := bwOf_bounds fr
  obtain ⟨d1, d2⟩ := first_digit_eq lsd nx t hlsd hnx ht
  obtain ⟨hv, hok, htop⟩ := fusedVec_spec ht ls2 rs2 c2 nx ok1 ok2 hc2 hnx
  have h65 := bl_ge_65 hB hM
  rw [d1]
  have hval : dval ((lsd / 2 ^ t + nx * 2 ^ (64 - t) % B) :: fusedVec t ls2 rs2 c2 (rotr nx t))
      = lsd / 2 ^ t + 2 ^ (64 - t) * (nx + B * T ls2 rs2 c2) := by
    rw [dval_cons, hv]
    have hst := shr_step nx ht
    simp only [Nat.mul_add]
    rw [Nat.mul_comm (2 ^ (64 - t)) nx, Nat.mul_left_comm (2 ^ (64 - t)) B, Nat.mul_comm (2 ^ (64 - t))]
    omega
  have hlen : ((lsd / 2 ^ t + nx * 2 ^ (64 - t) % B) :: fusedVec t ls2 rs2 c2 (rotr nx t)).length
      ≤ (bl + 63) / 64 := by
    rcases htop with hne | hmin
    · -- the top digit is not zero: the value needs that many digits
      have hl := getLastD_cons_of_ne (x := lsd / 2 ^ t + nx * 2 ^ (64 - t) % B) hne
      have hp := pow_le_dval_of_last_ne (ds := (lsd / 2 ^ t + nx * 2 ^ (64 - t) % B)
        :: fusedVec t ls2 rs2 c2 (rotr nx t)) (by rw [hl]; exact hne)
      rw [hval, B_pow] at hp
      have hlt := Nat.lt_of_le_of_lt hp hM
      have := (Nat.pow_lt_pow_iff_right (show 1 < 2 by decide)).1 hlt
      simp only [List.length_cons] at this ⊢
      omega
    · simp only [List.length_cons]
      unfold z1 at hmin
      by_cases h0 : t = 0
      · rw [if_pos h0] at hmin; omega
      · rw [if_neg h0] at hmin; omega
  intro out hout
  subst hout
  split
  · rename_i hshort
    refine ⟨by rw [List.length_append, List.length_singleton]; omega, by rw [dval_append, hval, dval_cons, dval_nil, Nat.mul_zero, Nat.add_zero, Nat.mul_zero, Nat.add_zero],
      digitsOk_append.2 ⟨digitsOk_cons.2 ⟨d2, hok⟩, digitsOk_cons.2 ⟨B_pos, digitsOk_nil⟩⟩, ?_⟩
    simpa using first_digit_odd ht hq
  · exact ⟨hlen, hval, digitsOk_cons.2 ⟨d2, hok⟩, by simpa using first_digit_odd ht hq⟩

/-- outcome of the equal-exponent branch for exponent increment `e` and odd part `M` -/
def GoodX (shl e M : Nat) (x : Natural) : Prop :=
  NF x ∧ (shl + e > MAX64 → x = Natural.NAN)
    ∧ (shl + e ≤ MAX64 → x.shl = shl + e ∧ dval x.mantissaRaw = M)

/-- result of adding operands with equal exponent `shl`: the mantissa is the odd part of `S` -/
def GoodSame (shl S : Nat) (x : Natural) : Prop :=
  ∃ e M, M % 2 = 1 ∧ S = M * 2 ^ e ∧ GoodX shl e M x

theorem addSame_spec (l r : Natural) (bw : Nat) (hl : NF l) (hr : NF r)
    (hl0 : l.len ≠ 0) (hr0 : r.len ≠ 0) (heq : l.shl = r.shl)
    (hbw : bw = max (bitWidthOf l.mantissaRaw l.shl) (bitWidthOf r.mantissaRaw r.shl) + 1) :
    GoodSame l.shl (dval l.mantissaRaw + dval r.mantissaRaw) (addSame l r bw) := by
  have fl := nf_mant_facts hl hl0
  have fr := nf_mant_facts hr hr0
  have hshl : l.shl ≤ MAX64 := hl.1
  obtain ⟨bl1, bl2, bl3, bl4⟩ := bwOf_bounds fl
  obtain ⟨br1, br2, br3, br4⟩ := bwOf_bounds fr
  unfold addSame
  simp only []
  generalize hq : skipZeros (l.mantissaRaw.length + r.mantissaRaw.length) l.mantissaRaw.tail r.mantissaRaw.tail
    (overflowingAdd (l.mantissaRaw.headD 0) (r.mantissaRaw.headD 0)).1
    (overflowingAdd (l.mantissaRaw.headD 0) (r.mantissaRaw.headD 0)).2 1 = q
  obtain ⟨lsd, carry, iIn, ls1, rs1⟩ := q
  simp only []
  obtain ⟨j, k4, k5, k6, k1, k2, k3, hS, okl, okr⟩ := same_core fl fr hq
  obtain ⟨m1, m2, m3, m4, m5, m6⟩ := same_M k1 k2 k3 hS okl okr
  have hls2 : ls1.tail.length = l.mantissaRaw.length - (j + 2) := by
    rw [k5, List.length_tail, List.length_drop, List.length_tail]; omega
  have hrs2 : rs1.tail.length = r.mantissaRaw.length - (j + 2) := by
    rw [k6, List.length_tail, List.length_drop, List.length_tail]; omega
  have okl2 := digitsOk_tail okl
  have okr2 := digitsOk_tail okr
  subst k4
  simp only [Nat.add_sub_cancel_left]
  generalize shlAmount lsd = t at *
  generalize (carryingAdd (ls1.headD 0) (rs1.headD 0) carry).1 = nx at *
  generalize (carryingAdd (ls1.headD 0) (rs1.headD 0) carry).2 = c2 at *
  -- size of the sum and of its odd part
  have hb := sum_bounds (sh := 0) fl.upper fl.lower fr.upper fr.lower fl.pos fr.pos rfl
  simp only [Nat.pow_zero, Nat.mul_one, Nat.add_zero] at hb
  rw [show max (64 * l.mantissaRaw.length - lz64 (l.mantissaRaw.getLastD 0))
      (64 * r.mantissaRaw.length - lz64 (r.mantissaRaw.getLastD 0)) + 1 - 2
      = max (bwOf l.mantissaRaw) (bwOf r.mantissaRaw) - 1 by unfold bwOf; omega] at hb
  have hMpos : 1 ≤ lsd / 2 ^ t + 2 ^ (64 - t) * (nx + B * T ls1.tail rs1.tail c2) :=
    Nat.pos_of_ne_zero (fun h => by rw [h] at m5; exact absurd m5 (by decide))
  obtain ⟨e1, e2, e3⟩ := odd_part_bounds m6 hMpos hb.2 hb.1 (by omega)
  have hbl : bw - (l.shl + t + j * 64)
      = max (bwOf l.mantissaRaw) (bwOf r.mantissaRaw) + 1 - (t + 64 * j) := by
    rw [hbw, bitWidthOf_eq, bitWidthOf_eq, ← heq]; omega
  rw [hbl]
  refine ⟨t + 64 * j, _, m5, m6, ?_⟩
  split
  · -- exponent overflow
    exact ⟨nf_NAN, fun _ => rfl, fun h => by omega⟩
  · rename_i hnn
    have hexp : l.shl + t + j * 64 = l.shl + (t + 64 * j) := by omega
    have hexp_le : l.shl + (t + 64 * j) ≤ MAX64 := by omega
    rw [hexp]
    split
    · -- single digit
      rename_i hsingle
      obtain ⟨hs1, hs2⟩ := hsingle
      rw [rotr_and_lower nx t m2 m1] at hs2
      obtain ⟨d1, d2⟩ := first_digit_eq lsd nx t k2 m2 m1
      rw [d1]
      have hdM := same_single m1 hs2 hs1 e2
      refine ⟨⟨hexp_le, d2, ?_, ?_⟩, fun h => by omega, fun _ => ⟨rfl, ?_⟩⟩
      · intro h0; rw [hdM] at h0; rw [h0] at m5; exact absurd m5 (by decide)
      · intro _; rw [hdM]; exact m5
      · simp only [fromMantissaSingleWithShl, Natural.mantissaRaw, dval_cons, dval_nil]
        rw [hdM]; omega
    · rename_i hns
      rw [rotr_and_lower nx t m2 m1] at hns
      have hB := same_big m1 hns e3
      have h65 := bl_ge_65 hB e2
      split
      · -- in place
        rename_i hlen
        obtain ⟨i1, i2, i3, i4⟩ := same_inplace fl fr hls2 hrs2 okl2 okr2 m1 m2 m3 k2 m4 rfl e1 e2 hB hlen
        cases hlm : l.mant with
        | inl ml =>
          have h1 : l.mantissaRaw.length = 1 := by simp [Natural.mantissaRaw, hlm]
          rw [h1] at hlen; omega
        | heap ds =>
          simp only [Natural.withDigits, hlm]
          rw [i1, List.drop_length, List.append_nil]
          refine ⟨nf_heap_of_le hexp_le i3 (by rw [i1, hlen]; exact Nat.le_refl _) i4
              (by rw [i2]; exact e3) (by rw [i2]; exact hB),
            fun h => by omega, fun _ => ⟨rfl, ?_⟩⟩
          simpa [Natural.mantissaRaw] using i2
      · -- Vec
        obtain ⟨v1, v2, v3, v4⟩ := same_vec fl fr hls2 hrs2 okl2 okr2 m1 m2 m3 k2 m4 rfl e1 e2 hB _ rfl
        refine ⟨nf_heap_of_le hexp_le v3 v1 v4 (by rw [v2]; exact e3) (by rw [v2]; exact hB),
          fun h => by omega, fun _ => ⟨rfl, ?_⟩⟩
        simpa [fromMantissaWithShl, Natural.mantissaRaw] using v2

end OxiddModel.Num
