import OxiddModel.Num.Model

/-!
`u64` primitives of the model (`rotl`, `rotr`, masks, `lz64`, `tz64`, carries) expressed by
`*`, `/`, `%` on `Nat`.
-/
namespace OxiddModel.Num
open Natural

theorem B_eq : B = 2 ^ 64 := by decide
theorem MAX64_eq : MAX64 = 2 ^ 64 - 1 := by decide
theorem MAX64_eq_B : MAX64 = B - 1 := by decide
theorem B_pos : 0 < B := by decide

theorem testBit_high {x j : Nat} (hx : x < B) (hj : 64 ≤ j) : x.testBit j = false := by
  apply Nat.testBit_lt_two_pow
  calc x < 2 ^ 64 := by rw [B_eq] at hx; exact hx
    _ ≤ 2 ^ j := Nat.pow_le_pow_right (by decide) hj

theorem shlW_eq (x s : Nat) : shlW x s = x * 2 ^ s % B := by
  simp [shlW, Nat.shiftLeft_eq]

theorem shlW_lt (x s : Nat) : shlW x s < B := by
  rw [shlW_eq]; exact Nat.mod_lt _ B_pos

/-! ### rotate left and the masks `u64::MAX << s`, `!(u64::MAX << s)` -/

theorem rotl_and_upper (x s : Nat) (hx : x < B) (hs : s < 64) :
    rotl x s &&& upperMaskL s = x * 2 ^ s % B := by
  apply Nat.eq_of_testBit_eq
  intro i
  simp only [rotl, upperMaskL, shlW, B_eq, MAX64_eq, Nat.testBit_and, Nat.testBit_or,
    Nat.testBit_mod_two_pow, Nat.testBit_shiftLeft, Nat.testBit_shiftRight,
    Nat.testBit_two_pow_sub_one, ← Nat.shiftLeft_eq]
  by_cases h1 : i < 64 <;> by_cases h2 : i ≥ s <;> simp [h1, h2]
  · have : x.testBit (64 - s + i) = false := testBit_high hx (by omega)
    simp [this]; omega

theorem rotl_and_lower (x s : Nat) (hx : x < B) (hs : s < 64) :
    rotl x s &&& lowerMaskL s = x / 2 ^ (64 - s) := by
  apply Nat.eq_of_testBit_eq
  intro i
  simp only [rotl, lowerMaskL, not64, upperMaskL, shlW, B_eq, MAX64_eq, Nat.testBit_and,
    Nat.testBit_or, Nat.testBit_mod_two_pow, Nat.testBit_shiftLeft, Nat.testBit_shiftRight,
    Nat.testBit_xor, Nat.testBit_two_pow_sub_one, ← Nat.shiftRight_eq_div_pow]
  have h : 64 ≤ 64 - s + i → x.testBit (64 - s + i) = false := fun h => testBit_high hx h
  by_cases h1 : i < 64 <;> by_cases h2 : i ≥ s <;> simp [h1, h2]
  · have : i - s < 64 := by omega
    simp [this, h (by omega)]
  · exact h (by omega)
  · exact h (by omega)

/-! ### rotate right and the masks `u64::MAX >> s`, `!(u64::MAX >> s)` -/

theorem rotr_and_lower (x s : Nat) (hx : x < B) (hs : s < 64) :
    rotr x s &&& lowerMaskR s = x / 2 ^ s := by
  apply Nat.eq_of_testBit_eq
  intro i
  simp only [rotr, lowerMaskR, shlW, B_eq, MAX64_eq, Nat.testBit_and,
    Nat.testBit_or, Nat.testBit_mod_two_pow, Nat.testBit_shiftLeft, Nat.testBit_shiftRight,
    Nat.testBit_two_pow_sub_one, ← Nat.shiftRight_eq_div_pow]
  have h : 64 ≤ s + i → x.testBit (s + i) = false := fun h => testBit_high hx h
  by_cases h1 : i < 64 <;> by_cases h2 : i ≥ 64 - s <;> by_cases h3 : s + i < 64 <;> simp [h1, h2, h3]
  all_goals first | omega | (intro; omega) | exact h (by omega) | skip

theorem rotr_and_upper (x s : Nat) (hx : x < B) (hs : s < 64) :
    rotr x s &&& upperMaskR s = x * 2 ^ (64 - s) % B := by
  apply Nat.eq_of_testBit_eq
  intro i
  simp only [rotr, upperMaskR, not64, lowerMaskR, shlW, B_eq, MAX64_eq, Nat.testBit_and,
    Nat.testBit_or, Nat.testBit_mod_two_pow, Nat.testBit_shiftLeft, Nat.testBit_shiftRight,
    Nat.testBit_xor, Nat.testBit_two_pow_sub_one, ← Nat.shiftLeft_eq]
  have h : 64 ≤ s + i → x.testBit (s + i) = false := fun h => testBit_high hx h
  by_cases h1 : i < 64 <;> by_cases h2 : i ≥ 64 - s <;> by_cases h3 : s + i < 64 <;> simp [h1, h2, h3]
  all_goals first | omega | (intro; omega) | exact h (by omega) | skip
  · intro hh; rw [h (by omega)] at hh; cases hh


/-! ### disjoint `|` is `+` -/

theorem or_eq_add_of_dvd_lt {a b k : Nat} (ha : a % 2 ^ k = 0) (hb : b < 2 ^ k) : a ||| b = a + b := by
  have : a = (a / 2 ^ k) <<< k := by
    rw [Nat.shiftLeft_eq]
    have := Nat.div_add_mod a (2 ^ k)
    rw [ha, Nat.add_zero, Nat.mul_comm] at this
    exact this.symm
  rw [this, Nat.shiftLeft_add_eq_or_of_lt hb]

theorem or_eq_add_of_lt_dvd {a b k : Nat} (ha : a < 2 ^ k) (hb : b % 2 ^ k = 0) : a ||| b = a + b := by
  rw [Nat.or_comm, or_eq_add_of_dvd_lt hb ha, Nat.add_comm]


/-! ### `bitLen`, `lz64` -/

theorem bitLen_zero : bitLen 0 = 0 := by simp [bitLen]

theorem lt_two_pow_bitLen (x : Nat) : x < 2 ^ bitLen x := by
  unfold bitLen
  split
  · subst x; decide
  · exact Nat.lt_log2_self

theorem two_pow_bitLen_le {x : Nat} (h : x ≠ 0) : 2 ^ (bitLen x - 1) ≤ x := by
  unfold bitLen
  rw [if_neg h, Nat.add_sub_cancel]
  exact Nat.log2_self_le h

theorem bitLen_pos {x : Nat} (h : x ≠ 0) : 0 < bitLen x := by
  unfold bitLen; rw [if_neg h]; omega

theorem bitLen_le_iff (x k : Nat) : bitLen x ≤ k ↔ x < 2 ^ k := by
  unfold bitLen
  split
  · subst x; simp [Nat.two_pow_pos]
  · rename_i h
    rw [← Nat.log2_lt h]; omega

theorem lt_bitLen_iff (x k : Nat) : k < bitLen x ↔ 2 ^ k ≤ x := by
  have := bitLen_le_iff x k
  omega

theorem bitLen_le_64 {x : Nat} (h : x < B) : bitLen x ≤ 64 := by
  rw [bitLen_le_iff, ← B_eq]; exact h

theorem lz64_le (x : Nat) : lz64 x ≤ 64 := by unfold lz64; omega

theorem lz64_add_bitLen {x : Nat} (h : x < B) : lz64 x + bitLen x = 64 := by
  have := bitLen_le_64 h
  unfold lz64; omega

theorem lz64_eq_64_iff {x : Nat} : lz64 x = 64 ↔ x = 0 := by
  unfold lz64
  constructor
  · intro h
    by_cases hx : x = 0
    · exact hx
    · have := bitLen_pos hx; omega
  · intro h; subst h; simp [bitLen_zero]

/-! ### trailing zeros -/

theorem tzAux_spec : ∀ (f x : Nat), x ≠ 0 → x < 2 ^ f →
    tzAux f x < f ∧ x % 2 ^ tzAux f x = 0 ∧ x / 2 ^ tzAux f x % 2 = 1 := by
  intro f
  induction f with
  | zero => intro x h0 h; simp at h; omega
  | succ f ih =>
    intro x h0 h
    unfold tzAux
    split
    · rename_i hodd
      refine ⟨by omega, by simp [Nat.mod_one], by simpa using hodd⟩
    · rename_i hev
      have hx2 : x / 2 ≠ 0 := by omega
      have hlt : x / 2 < 2 ^ f := by
        rw [Nat.pow_succ] at h; omega
      obtain ⟨h1, h2, h3⟩ := ih (x / 2) hx2 hlt
      refine ⟨by omega, ?_, ?_⟩
      · rw [Nat.pow_succ, Nat.mul_comm, Nat.mod_mul, h2]
        omega
      · rw [Nat.pow_succ, Nat.mul_comm, ← Nat.div_div_eq_div_mul]
        exact h3

theorem tz64_spec {x : Nat} (h0 : x ≠ 0) (h : x < B) :
    tz64 x < 64 ∧ x % 2 ^ tz64 x = 0 ∧ x / 2 ^ tz64 x % 2 = 1 :=
  tzAux_spec 64 x h0 (by rw [← B_eq]; exact h)

theorem tz128_spec {x : Nat} (h0 : x ≠ 0) (h : x < 2 ^ 128) :
    tz128 x < 128 ∧ x % 2 ^ tz128 x = 0 ∧ x / 2 ^ tz128 x % 2 = 1 :=
  tzAux_spec 128 x h0 h

theorem tzAux_odd (f x : Nat) (h : x % 2 = 1) : tzAux (f + 1) x = 0 := by
  simp [tzAux, h]


/-! ### a digit shifted over a digit boundary -/

theorem B_split {s : Nat} (hs : s ≤ 64) : B = 2 ^ (64 - s) * 2 ^ s := by
  rw [B_eq, ← Nat.pow_add]; congr 1; omega

theorem mul_two_pow_div_B (r : Nat) {s : Nat} (hs : s ≤ 64) : r * 2 ^ s / B = r / 2 ^ (64 - s) := by
  rw [B_split hs, Nat.mul_div_mul_right _ _ (Nat.two_pow_pos s)]

/-- `r << s` splits into the part staying in the digit and the part carried to the next one -/
theorem shl_split (r : Nat) {s : Nat} (hs : s ≤ 64) :
    r * 2 ^ s = r * 2 ^ s % B + B * (r / 2 ^ (64 - s)) := by
  rw [← mul_two_pow_div_B r hs]
  exact (Nat.mod_add_div _ _).symm

theorem div_two_pow_lt {r s : Nat} (hr : r < B) (hs : s ≤ 64) : r / 2 ^ (64 - s) < 2 ^ s := by
  rw [Nat.div_lt_iff_lt_mul (Nat.two_pow_pos _), Nat.mul_comm, ← B_split hs]
  exact hr

theorem mul_two_pow_mod_B_mod (r : Nat) {s : Nat} (hs : s ≤ 64) : r * 2 ^ s % B % 2 ^ s = 0 := by
  have hd : 2 ^ s ∣ B := ⟨2 ^ (64 - s), by rw [Nat.mul_comm]; exact B_split hs⟩
  rw [Nat.mod_mod_of_dvd _ hd]
  exact Nat.mul_mod_left _ _

theorem dvd_add_lt_B {x lower s : Nat} (hs : s ≤ 64) (hx : x < B) (hd : x % 2 ^ s = 0)
    (hl : lower < 2 ^ s) : x + lower < B := by
  have h1 := Nat.div_add_mod x (2 ^ s)
  rw [hd, Nat.add_zero] at h1
  have hB := B_split hs
  have hq : x / 2 ^ s < 2 ^ (64 - s) := by
    rw [Nat.div_lt_iff_lt_mul (Nat.two_pow_pos _), ← hB]; exact hx
  have : 2 ^ s * (x / 2 ^ s + 1) ≤ 2 ^ s * 2 ^ (64 - s) := Nat.mul_le_mul_left _ hq
  rw [Nat.mul_add, Nat.mul_one, Nat.mul_comm (2 ^ s) (2 ^ (64 - s)), ← hB] at this
  omega

/-- the digit `(rot & upper_mask) | lower` of the left-shifting loops -/
theorem rotl_digit (r lower s : Nat) (hr : r < B) (hs : s < 64) (hl : lower < 2 ^ s) :
    (rotl r s &&& upperMaskL s) ||| lower = r * 2 ^ s % B + lower ∧ r * 2 ^ s % B + lower < B := by
  rw [rotl_and_upper r s hr hs]
  have hd := mul_two_pow_mod_B_mod r (Nat.le_of_lt hs)
  exact ⟨or_eq_add_of_dvd_lt hd hl,
    dvd_add_lt_B (Nat.le_of_lt hs) (Nat.mod_lt _ B_pos) hd hl⟩

/-- the carried part `rot & lower_mask` -/
theorem rotl_lower (r s : Nat) (hr : r < B) (hs : s < 64) :
    rotl r s &&& lowerMaskL s = r / 2 ^ (64 - s) ∧ r / 2 ^ (64 - s) < 2 ^ s :=
  ⟨rotl_and_lower r s hr hs, div_two_pow_lt hr (Nat.le_of_lt hs)⟩

/-- the output digit `(rot & lower_mask) | (next_rot & upper_mask)` of the right-shifting loops,
with `rot = prev.rotate_right(bs)`, `next_rot = next.rotate_right(bs)` -/
theorem combine_eq (prev next bs : Nat) (hp : prev < B) (hn : next < B) (hs : bs < 64) :
    combine bs (rotr prev bs) (rotr next bs) = prev / 2 ^ bs + next * 2 ^ (64 - bs) % B
    ∧ prev / 2 ^ bs + next * 2 ^ (64 - bs) % B < B := by
  unfold combine
  rw [rotr_and_lower prev bs hp hs, rotr_and_upper next bs hn hs]
  have hs' : 64 - bs ≤ 64 := by omega
  have hd := mul_two_pow_mod_B_mod next hs'
  have hl : prev / 2 ^ bs < 2 ^ (64 - bs) := by
    have := div_two_pow_lt hp hs'
    rwa [show 64 - (64 - bs) = bs by omega] at this
  refine ⟨or_eq_add_of_lt_dvd hl hd, ?_⟩
  have := dvd_add_lt_B hs' (Nat.mod_lt _ B_pos) hd hl
  omega

/-- step identity of the right-shifting loops -/
theorem shr_step (next : Nat) {bs : Nat} (hs : bs < 64) :
    next * 2 ^ (64 - bs) = next * 2 ^ (64 - bs) % B + B * (next / 2 ^ bs) := by
  have := shl_split next (s := 64 - bs) (by omega)
  rwa [show 64 - (64 - bs) = bs by omega] at this

/-! ### carries -/

theorem carryingAdd_spec (a b c : Nat) :
    (carryingAdd a b c).1 + B * (carryingAdd a b c).2 = a + b + c ∧ (carryingAdd a b c).1 < B := by
  unfold carryingAdd
  exact ⟨Nat.mod_add_div _ _, Nat.mod_lt _ B_pos⟩

theorem overflowingAdd_spec (a b : Nat) :
    (overflowingAdd a b).1 + B * (overflowingAdd a b).2 = a + b ∧ (overflowingAdd a b).1 < B := by
  unfold overflowingAdd
  exact ⟨Nat.mod_add_div _ _, Nat.mod_lt _ B_pos⟩

end OxiddModel.Num
