import OxiddModel.Num.LemmasEq

/-!
`PartialOrd for Natural`: the comparison of left-aligned 64-bit windows agrees with `<` on `ℕ`.
-/
namespace OxiddModel.Num
open Natural

theorem cmpNat_mul_right (a b : Nat) {c : Nat} (hc : 0 < c) : cmpNat (a * c) (b * c) = cmpNat a b := by
  unfold cmpNat
  by_cases h1 : a < b
  · rw [if_pos h1, if_pos (Nat.mul_lt_mul_of_pos_right h1 hc)]
  · by_cases h2 : a = b
    · subst h2; simp
    · have h3 : b < a := by omega
      have h4 := Nat.mul_lt_mul_of_pos_right h3 hc
      rw [if_neg h1, if_neg h2, if_neg (by omega), if_neg (by omega)]

/-- comparison of `w·P + x` is lexicographic when the low parts are below `P` -/
theorem cmpNat_lex {w1 w2 x y P : Nat} (hx : x < P) (hy : y < P) :
    cmpNat (w1 * P + x) (w2 * P + y) = if w1 ≠ w2 then cmpNat w1 w2 else cmpNat x y := by
  unfold cmpNat
  by_cases h : w1 = w2
  · subst h
    simp only [ne_eq, not_true_eq_false, if_false]
    by_cases h1 : x < y
    · rw [if_pos h1, if_pos (by omega)]
    · by_cases h2 : x = y
      · subst h2; simp
      · rw [if_neg h1, if_neg h2, if_neg (by omega), if_neg (by omega)]
  · simp only [ne_eq, h, not_false_eq_true, if_true]
    by_cases h1 : w1 < w2
    · have : (w1 + 1) * P ≤ w2 * P := Nat.mul_le_mul_right _ h1
      rw [Nat.add_mul, Nat.one_mul] at this
      rw [if_pos h1, if_pos (by omega)]
    · have h3 : w2 < w1 := by omega
      have : (w2 + 1) * P ≤ w1 * P := Nat.mul_le_mul_right _ h3
      rw [Nat.add_mul, Nat.one_mul] at this
      have e1 : ¬ (w1 * P + x < w2 * P + y) := by omega
      have e2 : ¬ (w1 * P + x = w2 * P + y) := by omega
      simp [e1, e2, h1]

/-- value of a digit list given most significant digit first -/
def tv : List Nat → Nat
  | [] => 0
  | d :: ds => d * B ^ ds.length + tv ds

theorem tv_lt {ds : List Nat} (h : digitsOk ds) : tv ds < B ^ ds.length := by
  induction ds with
  | nil => simp [tv]
  | cons d ds ih =>
    rw [digitsOk_cons] at h
    have := ih h.2
    simp only [tv, List.length_cons, Nat.pow_succ]
    have h2 : (d + 1) * B ^ ds.length ≤ B * B ^ ds.length := Nat.mul_le_mul_right _ h.1
    rw [Nat.add_mul, Nat.one_mul] at h2
    rw [Nat.mul_comm (B ^ ds.length) B]
    omega

theorem tv_append_singleton (ds : List Nat) (x : Nat) : tv (ds ++ [x]) = tv ds * B + x := by
  induction ds with
  | nil => simp [tv]
  | cons d ds ih =>
    simp only [List.cons_append, tv, ih, List.length_append, List.length_singleton, Nat.pow_succ]
    rw [Nat.add_mul, Nat.mul_assoc, Nat.add_assoc]

theorem tv_reverse (ds : List Nat) : tv ds.reverse = dval ds := by
  induction ds with
  | nil => rfl
  | cons d ds ih =>
    rw [List.reverse_cons, tv_append_singleton, ih, dval_cons, Nat.mul_comm]; omega

/-- the remaining left-aligned stream: carried upper part `l` and the lower digits -/
def arem (s l : Nat) (ls : List Nat) : Nat := l * B ^ ls.length + tv ls * 2 ^ s

theorem arem_lt {s l : Nat} {ls : List Nat} (hs : s < 64) (hl : l < B) (hd : l % 2 ^ s = 0)
    (hok : digitsOk ls) : arem s l ls < B ^ (ls.length + 1) := by
  unfold arem
  have h1 := tv_lt hok
  -- l ≤ B - 2^s
  have h2 : l + 2 ^ s ≤ B := by
    have := dvd_add_lt_B (lower := 2 ^ s - 1) (Nat.le_of_lt hs) hl hd
      (Nat.sub_lt (Nat.two_pow_pos _) (by decide))
    have := Nat.two_pow_pos s
    omega
  have h3 : tv ls * 2 ^ s < B ^ ls.length * 2 ^ s := Nat.mul_lt_mul_of_pos_right h1 (Nat.two_pow_pos _)
  have h4 : (l + 2 ^ s) * B ^ ls.length ≤ B * B ^ ls.length := Nat.mul_le_mul_right _ h2
  rw [Nat.add_mul, Nat.mul_comm (2 ^ s)] at h4
  rw [Nat.pow_succ, Nat.mul_comm (B ^ ls.length) B]
  omega

/-- one window of the left-aligned stream -/
theorem arem_step {s l d : Nat} {ls : List Nat} (hs : s < 64) :
    arem s l (d :: ls) = (l + d / 2 ^ (64 - s)) * B ^ (ls.length + 1) + arem s (d * 2 ^ s % B) ls := by
  unfold arem
  simp only [tv, List.length_cons]
  have hsp := shl_split d (Nat.le_of_lt hs)
  have key : ∀ r q, d * 2 ^ s = r + B * q →
      d * B ^ ls.length * 2 ^ s = r * B ^ ls.length + q * B ^ (ls.length + 1) := by
    intro r q h
    rw [Nat.mul_right_comm d, h, Nat.add_mul, Nat.pow_succ]
    congr 1
    rw [Nat.mul_comm B, Nat.mul_assoc, Nat.mul_comm B]
  rw [Nat.add_mul (d * B ^ ls.length), key _ _ hsp, Nat.add_mul l]
  omega


theorem odd_shl_mod_ne_zero {d s : Nat} (hd : d % 2 = 1) (hs : s < 64) : d * 2 ^ s % B ≠ 0 := by
  intro h
  have : B ∣ d * 2 ^ s := Nat.dvd_of_mod_eq_zero h
  rw [B_eq] at this
  exact odd_not_dvd hd hs this

theorem tv_tail_odd {d : Nat} {ds : List Nat} (h : tv (d :: ds) % 2 = 1) (hne : ds ≠ []) : tv ds % 2 = 1 := by
  simp only [tv] at h
  have : B ^ ds.length % 2 = 0 := by
    cases ds with
    | nil => exact absurd rfl hne
    | cons e l =>
      rw [List.length_cons, Nat.pow_succ, Nat.mul_mod, B_even]; simp
  have : d * B ^ ds.length % 2 = 0 := by rw [Nat.mul_mod, this]; simp
  omega

theorem arem_pos {s : Nat} {ls : List Nat} (d : Nat) (hs : s < 64)
    (hodd : tv (d :: ls) % 2 = 1) : 0 < arem s (d * 2 ^ s % B) ls := by
  unfold arem
  cases ls with
  | nil =>
    simp only [tv] at hodd
    have := odd_shl_mod_ne_zero (d := d) (s := s) (by simpa using hodd) hs
    simp [tv]; omega
  | cons e l' =>
    have h1 := tv_tail_odd hodd (by simp)
    have h2 : 0 < tv (e :: l') := by omega
    have := Nat.mul_pos h2 (Nat.two_pow_pos s)
    omega

theorem pow_split_le {a n : Nat} (h : a ≤ n) : B ^ (a + 1) * B ^ (n - a) = B ^ (n + 1) := by
  rw [← Nat.pow_add]; congr 1; omega

theorem lex_prep {w A k n : Nat} (h : k ≤ n) :
    (w * B ^ (k + 1) + A) * B ^ (n - k) = w * B ^ (n + 1) + A * B ^ (n - k) := by
  rw [Nat.add_mul, Nat.mul_assoc, pow_split_le h]

theorem arem_nil (s l : Nat) : arem s l [] = l := by
  unfold arem
  simp only [tv, List.length_nil, Nat.pow_zero, Nat.mul_one, Nat.zero_mul, Nat.add_zero]

/-- the window loop of `partial_cmp` compares the two left-aligned streams (the shorter one
padded with zero digits) -/
theorem cmpLoop_spec (sl sr : Nat) (hsl : sl < 64) (hsr : sr < 64) (ls : List Nat) :
    ∀ (rs : List Nat) (l r : Nat), l < B → r < B → l % 2 ^ sl = 0 → r % 2 ^ sr = 0 →
    digitsOk ls → digitsOk rs → (ls ≠ [] → tv ls % 2 = 1) → (rs ≠ [] → tv rs % 2 = 1) →
    cmpLoop sl sr ls rs l r
      = cmpNat (arem sl l ls * B ^ (max ls.length rs.length - ls.length))
          (arem sr r rs * B ^ (max ls.length rs.length - rs.length)) := by
  induction ls with
  | nil =>
    intro rs l r hl hr hdl hdr _ hokr _ hor
    cases rs with
    | nil =>
      simp only [cmpLoop, arem_nil, List.length_nil, Nat.max_self, Nat.sub_self, Nat.pow_zero, Nat.mul_one]
    | cons rNext rs' =>
      rw [digitsOk_cons] at hokr
      obtain ⟨w1, w2⟩ := rotl_lower rNext sr hokr.1 hsr
      have hw : r ||| (rotl rNext sr &&& lowerMaskL sr) = r + rNext / 2 ^ (64 - sr) := by
        rw [w1]; exact or_eq_add_of_dvd_lt hdr w2
      simp only [cmpLoop, hw]
      rw [arem_step hsr]
      have hpos := arem_pos (s := sr) (ls := rs') rNext hsr (hor (by simp))
      have hlt := arem_lt hsr (Nat.mod_lt _ B_pos) (mul_two_pow_mod_B_mod rNext (Nat.le_of_lt hsr)) hokr.2
      simp only [List.length_nil, List.length_cons, Nat.zero_max, Nat.sub_zero, Nat.sub_self,
        Nat.pow_zero, Nat.mul_one]
      have e1 : arem sl l [] * B ^ (rs'.length + 1) = l * B ^ (rs'.length + 1) + 0 := by
        rw [arem_nil]; exact (Nat.add_zero _).symm
      rw [e1, cmpNat_lex (B_pow_pos _) hlt]
      unfold cmpNat Ord3.andThen
      by_cases h1 : l < r + rNext / 2 ^ (64 - sr)
      · simp [h1]; omega
      · by_cases h2 : l = r + rNext / 2 ^ (64 - sr)
        · simp [h2]; omega
        · simp [h1, h2]
  | cons lNext ls' ih =>
    intro rs l r hl hr hdl hdr hokl hokr hol hor
    rw [digitsOk_cons] at hokl
    obtain ⟨v1, v2⟩ := rotl_lower lNext sl hokl.1 hsl
    have hv : l ||| (rotl lNext sl &&& lowerMaskL sl) = l + lNext / 2 ^ (64 - sl) := by
      rw [v1]; exact or_eq_add_of_dvd_lt hdl v2
    have hltl := arem_lt hsl (Nat.mod_lt _ B_pos) (mul_two_pow_mod_B_mod lNext (Nat.le_of_lt hsl)) hokl.2
    cases rs with
    | nil =>
      simp only [cmpLoop, hv]
      rw [arem_step hsl]
      have hpos := arem_pos (s := sl) (ls := ls') lNext hsl (hol (by simp))
      simp only [List.length_nil, List.length_cons, Nat.max_zero, Nat.sub_zero, Nat.sub_self,
        Nat.pow_zero, Nat.mul_one]
      have e1 : arem sr r [] * B ^ (ls'.length + 1) = r * B ^ (ls'.length + 1) + 0 := by
        rw [arem_nil]; exact (Nat.add_zero _).symm
      rw [e1, cmpNat_lex hltl (B_pow_pos _)]
      unfold cmpNat Ord3.andThen
      by_cases h1 : l + lNext / 2 ^ (64 - sl) < r
      · simp [h1]; omega
      · by_cases h2 : l + lNext / 2 ^ (64 - sl) = r
        · simp [h2]; omega
        · simp [h1, h2]
    | cons rNext rs' =>
      rw [digitsOk_cons] at hokr
      obtain ⟨w1, w2⟩ := rotl_lower rNext sr hokr.1 hsr
      have hw : r ||| (rotl rNext sr &&& lowerMaskL sr) = r + rNext / 2 ^ (64 - sr) := by
        rw [w1]; exact or_eq_add_of_dvd_lt hdr w2
      have hltr := arem_lt hsr (Nat.mod_lt _ B_pos) (mul_two_pow_mod_B_mod rNext (Nat.le_of_lt hsr)) hokr.2
      simp only [cmpLoop, hv, hw, rotl_and_upper lNext sl hokl.1 hsl, rotl_and_upper rNext sr hokr.1 hsr]
      rw [arem_step hsl, arem_step hsr]
      simp only [List.length_cons, Nat.succ_max_succ, Nat.succ_eq_add_one, Nat.add_sub_add_right]
      have hl' : ls'.length ≤ max ls'.length rs'.length := Nat.le_max_left _ _
      have hr' : rs'.length ≤ max ls'.length rs'.length := Nat.le_max_right _ _
      rw [lex_prep hl', lex_prep hr']
      have hx : arem sl (lNext * 2 ^ sl % B) ls' * B ^ (max ls'.length rs'.length - ls'.length)
          < B ^ (max ls'.length rs'.length + 1) := by
        rw [← pow_split_le hl']
        exact Nat.mul_lt_mul_of_pos_right hltl (B_pow_pos _)
      have hy : arem sr (rNext * 2 ^ sr % B) rs' * B ^ (max ls'.length rs'.length - rs'.length)
          < B ^ (max ls'.length rs'.length + 1) := by
        rw [← pow_split_le hr']
        exact Nat.mul_lt_mul_of_pos_right hltr (B_pow_pos _)
      rw [cmpNat_lex hx hy]
      by_cases hne : l + lNext / 2 ^ (64 - sl) ≠ r + rNext / 2 ^ (64 - sr)
      · rw [if_pos hne, if_pos hne]
      · rw [if_neg hne, if_neg hne]
        exact ih rs' _ _ (Nat.mod_lt _ B_pos) (Nat.mod_lt _ B_pos)
          (mul_two_pow_mod_B_mod lNext (Nat.le_of_lt hsl)) (mul_two_pow_mod_B_mod rNext (Nat.le_of_lt hsr))
          hokl.2 hokr.2 (fun h => tv_tail_odd (hol (by simp)) h) (fun h => tv_tail_odd (hor (by simp)) h)


/-- value and size of the normalised mantissa of a non-zero normal form -/
theorem canon_bounds {ds : List Nat} (h : Canon ds) :
    2 ^ (bwOf ds - 1) ≤ dval ds ∧ dval ds < 2 ^ bwOf ds ∧ 1 ≤ bwOf ds ∧ ds ≠ [] := by
  have hne : ds ≠ [] := by intro e; rw [e] at h; exact h.2 rfl
  have h1 := two_pow_le_dval ds h.2
  have h2 := dval_lt_two_pow ds hne h.1
  have hlz : lz64 (ds.getLastD 0) < 64 := by
    have := @lz64_eq_64_iff (ds.getLastD 0)
    have := lz64_le (ds.getLastD 0)
    have := h.2
    omega
  have hlen : 1 ≤ ds.length := by
    cases ds with
    | nil => exact absurd rfl hne
    | cons _ _ => simp
  unfold bwOf
  exact ⟨h1, h2, by omega, hne⟩

theorem bwOf_zero : bwOf [0] = 0 := by
  unfold bwOf
  simp [lz64_eq_64_iff.2 rfl]

/-- the left-aligned stream of a canonical odd mantissa is the mantissa shifted to the top -/
theorem arem_init {ds : List Nat} (h : Canon ds) (hodd : dval ds % 2 = 1) :
    let s := lz64 (ds.getLastD 0)
    s < 64 ∧ shlW (ds.getLastD 0) s < B ∧ shlW (ds.getLastD 0) s % 2 ^ s = 0
    ∧ digitsOk ds.dropLast.reverse
    ∧ (ds.dropLast.reverse ≠ [] → tv ds.dropLast.reverse % 2 = 1)
    ∧ ds.dropLast.reverse.length + 1 = ds.length
    ∧ arem s (shlW (ds.getLastD 0) s) ds.dropLast.reverse = dval ds * 2 ^ s := by
  intro s
  obtain ⟨_, _, _, hne⟩ := canon_bounds h
  obtain ⟨init, msd, h1, h2, h3⟩ := exists_snoc ds hne
  have hmsd : msd < B := by
    apply h.1; rw [h1]; simp
  have hs : s < 64 := by
    have := @lz64_eq_64_iff (ds.getLastD 0)
    have := lz64_le (ds.getLastD 0)
    have := h.2
    omega
  have hlzb := lz64_add_bitLen hmsd
  have hfit : msd * 2 ^ s < B := by
    have hb := lt_two_pow_bitLen msd
    have : msd * 2 ^ s < 2 ^ (bitLen msd + s) := by
      rw [Nat.pow_add]; exact Nat.mul_lt_mul_of_pos_right hb (Nat.two_pow_pos _)
    have h64 : bitLen msd + s = 64 := by
      show bitLen msd + lz64 (ds.getLastD 0) = 64
      rw [h3]; omega
    rw [h64, ← B_eq] at this; exact this
  have hsh : shlW (ds.getLastD 0) s = msd * 2 ^ s := by
    rw [h3, shlW_eq, Nat.mod_eq_of_lt hfit]
  have hok : digitsOk init := fun d hd => h.1 d (by rw [h1]; exact List.mem_append_left _ hd)
  refine ⟨hs, by rw [hsh]; exact hfit, by rw [hsh]; exact Nat.mul_mod_left _ _, ?_, ?_, ?_, ?_⟩
  · rw [h2]; intro d hd; exact hok d (List.mem_reverse.1 hd)
  · rw [h2, tv_reverse]
    intro hne'
    have hine : init ≠ [] := by intro e; rw [e] at hne'; exact hne' rfl
    rw [h1, dval_append] at hodd
    have : B ^ init.length % 2 = 0 := by
      cases init with
      | nil => exact absurd rfl hine
      | cons e l => rw [List.length_cons, Nat.pow_succ, Nat.mul_mod, B_even]; simp
    have : B ^ init.length * dval [msd] % 2 = 0 := by rw [Nat.mul_mod, this]; simp
    omega
  · rw [h2, List.length_reverse, h1]; simp
  · unfold arem
    rw [hsh, h2, tv_reverse, List.length_reverse, h1, dval_append]
    simp only [dval_cons, dval_nil, Nat.mul_zero, Nat.add_zero]
    rw [Nat.add_mul, Nat.mul_right_comm, Nat.mul_comm (B ^ init.length) msd]
    omega


/-- size of a non-NaN normal form's value in terms of `bit_width(mantissa(), shl)` -/
theorem nf_bw {n : Natural} (hn : NF n) (hnn : n.shl ≠ MAX64) :
    (n.len = 0 → bitWidthOf n.mantissa n.shl = 0 ∧ dval n.mantissaRaw * 2 ^ n.shl = 0)
    ∧ (n.len ≠ 0 → 1 ≤ bitWidthOf n.mantissa n.shl
        ∧ 2 ^ (bitWidthOf n.mantissa n.shl - 1) ≤ dval n.mantissaRaw * 2 ^ n.shl
        ∧ dval n.mantissaRaw * 2 ^ n.shl < 2 ^ bitWidthOf n.mantissa n.shl) := by
  constructor
  · intro h0
    have hv := nf_len_zero hn h0 hnn
    rw [val_of_not_nan hnn] at hv
    simp only [Option.some.injEq] at hv
    refine ⟨?_, hv⟩
    rw [mantissa_zero hn h0, bitWidthOf_eq, bwOf_zero]
    obtain ⟨_, hm⟩ := hn
    cases hmant : n.mant with
    | inl m =>
      rw [hmant] at hm
      simp only [Natural.len, hmant] at h0
      subst h0
      have := hm.2.1 rfl
      omega
    | heap ds =>
      rw [hmant] at hm
      simp only [Natural.len, hmant] at h0
      omega
  · intro h0
    obtain ⟨c, e⟩ := mantissa_canon hn h0
    obtain ⟨b1, b2, b3, _⟩ := canon_bounds c
    rw [bitWidthOf_eq, ← e]
    refine ⟨by omega, ?_, ?_⟩
    · rw [show bwOf n.mantissa + n.shl - 1 = bwOf n.mantissa - 1 + n.shl by omega, Nat.pow_add]
      exact Nat.mul_le_mul_right _ b1
    · rw [Nat.pow_add]
      exact Nat.mul_lt_mul_of_pos_right b2 (Nat.two_pow_pos _)

theorem cmpNat_of_lt {a b : Nat} (h : a < b) : cmpNat a b = .lt := by simp [cmpNat, h]
theorem cmpNat_of_gt {a b : Nat} (h : b < a) : cmpNat a b = .gt := by
  unfold cmpNat; rw [if_neg (by omega), if_neg (by omega)]

/-- `PartialOrd`: `None` iff an operand is the error value, otherwise the order of `ℕ` -/
theorem partialCmp_spec (a b : Natural) (ha : NF a) (hb : NF b) :
    ((a.val = none ∨ b.val = none) → a.partialCmp b = none)
    ∧ (∀ x y, a.val = some x → b.val = some y → a.partialCmp b = some (cmpNat x y)) := by
  unfold partialCmp
  constructor
  · intro h
    rw [val_eq_none_iff, val_eq_none_iff, ← isNan_iff, ← isNan_iff, ← Bool.or_eq_true] at h
    rw [if_pos h]
  · intro x y hx hy
    have hna : a.shl ≠ MAX64 := by intro h; rw [val_of_nan h] at hx; cases hx
    have hnb : b.shl ≠ MAX64 := by intro h; rw [val_of_nan h] at hy; cases hy
    rw [val_of_not_nan hna] at hx
    rw [val_of_not_nan hnb] at hy
    cases hx; cases hy
    have hnan : ¬ ((a.isNan || b.isNan) = true) := by
      rw [Bool.or_eq_true, isNan_iff, isNan_iff]; exact fun h => h.elim hna hnb
    rw [if_neg hnan]
    simp only []
    obtain ⟨az, anz⟩ := nf_bw ha hna
    obtain ⟨bz, bnz⟩ := nf_bw hb hnb
    by_cases hbw : bitWidthOf a.mantissa a.shl ≠ bitWidthOf b.mantissa b.shl
    · rw [if_pos hbw]
      congr 1
      by_cases hlt : bitWidthOf a.mantissa a.shl < bitWidthOf b.mantissa b.shl
      · rw [cmpNat_of_lt hlt]
        have hb0 : b.len ≠ 0 := fun h => by have := (bz h).1; omega
        obtain ⟨_, b2, _⟩ := bnz hb0
        have hxlt : dval a.mantissaRaw * 2 ^ a.shl < 2 ^ bitWidthOf a.mantissa a.shl := by
          by_cases ha0 : a.len = 0
          · rw [(az ha0).2]; exact Nat.two_pow_pos _
          · exact (anz ha0).2.2
        have := Nat.pow_le_pow_right (show 0 < 2 by decide)
          (show bitWidthOf a.mantissa a.shl ≤ bitWidthOf b.mantissa b.shl - 1 by omega)
        exact (cmpNat_of_lt (by omega)).symm
      · have hgt : bitWidthOf b.mantissa b.shl < bitWidthOf a.mantissa a.shl := by omega
        rw [cmpNat_of_gt hgt]
        have ha0 : a.len ≠ 0 := fun h => by have := (az h).1; omega
        obtain ⟨_, a2, _⟩ := anz ha0
        have hylt : dval b.mantissaRaw * 2 ^ b.shl < 2 ^ bitWidthOf b.mantissa b.shl := by
          by_cases hb0 : b.len = 0
          · rw [(bz hb0).2]; exact Nat.two_pow_pos _
          · exact (bnz hb0).2.2
        have := Nat.pow_le_pow_right (show 0 < 2 by decide)
          (show bitWidthOf b.mantissa b.shl ≤ bitWidthOf a.mantissa a.shl - 1 by omega)
        exact (cmpNat_of_gt (by omega)).symm
    · rw [if_neg hbw]
      have hbw' : bitWidthOf a.mantissa a.shl = bitWidthOf b.mantissa b.shl := by omega
      by_cases hz : bitWidthOf a.mantissa a.shl = 0
      · rw [if_pos hz]
        have ha0 : a.len = 0 := Classical.byContradiction fun h => by have := (anz h).1; omega
        have hb0 : b.len = 0 := Classical.byContradiction fun h => by have := (bnz h).1; omega
        rw [(az ha0).2, (bz hb0).2]
        rfl
      · rw [if_neg hz]
        have ha0 : a.len ≠ 0 := fun h => hz (az h).1
        have hb0 : b.len ≠ 0 := fun h => hz (hbw' ▸ (bz h).1)
        obtain ⟨ca, ea⟩ := mantissa_canon ha ha0
        obtain ⟨cb, eb⟩ := mantissa_canon hb hb0
        have oa := (nf_val_odd ha ha0 hna).1
        have ob := (nf_val_odd hb hb0 hnb).1
        obtain ⟨l1, l2, l3, l4, l5, l6, l7⟩ := arem_init ca (by rw [ea]; exact oa)
        obtain ⟨r1, r2, r3, r4, r5, r6, r7⟩ := arem_init cb (by rw [eb]; exact ob)
        rw [cmpLoop_spec _ _ l1 r1 _ _ _ _ l2 r2 l3 r3 l4 r4 l5 r5, l7, r7, ea, eb]
        congr 1
        -- both sides are the two values scaled by the same power of two
        rw [bitWidthOf_eq, bitWidthOf_eq] at hbw'
        unfold bwOf at hbw'
        have hlza := lz64_le (a.mantissa.getLastD 0)
        have hlzb := lz64_le (b.mantissa.getLastD 0)
        generalize hla : a.mantissa.dropLast.reverse.length = kl at *
        generalize hlb : b.mantissa.dropLast.reverse.length = kr at *
        generalize lz64 (a.mantissa.getLastD 0) = sl at *
        generalize lz64 (b.mantissa.getLastD 0) = sr at *
        rw [Nat.mul_assoc, Nat.mul_assoc, B_pow, B_pow, ← Nat.pow_add, ← Nat.pow_add]
        have key : a.shl + (sr + 64 * (max kl kr - kr)) = b.shl + (sl + 64 * (max kl kr - kl)) := by omega
        rw [← cmpNat_mul_right _ _ (Nat.two_pow_pos (a.shl + (sr + 64 * (max kl kr - kr)))),
          ← cmpNat_mul_right (dval a.mantissaRaw * 2 ^ a.shl) _
            (Nat.two_pow_pos ((sl + 64 * (max kl kr - kl)) + (sr + 64 * (max kl kr - kr))))]
        congr 1
        · rw [Nat.mul_assoc, Nat.mul_assoc, ← Nat.pow_add, ← Nat.pow_add]
          congr 2; omega
        · rw [key, Nat.mul_assoc, Nat.mul_assoc, ← Nat.pow_add, ← Nat.pow_add]
          congr 2; omega

end OxiddModel.Num
